import GeoVerif.Model.HarmonicGlue
import GeoVerif.Spec.RealInst
import GeoVerif.Proofs.HarmonicGlue
import Mathlib.Tactic.Ring
import Mathlib.Tactic.Linarith
import Mathlib.Tactic.LinearCombination
import Mathlib.Tactic.FieldSimp
import Mathlib.Tactic.NormNum
import Mathlib.Tactic.Positivity
import Mathlib.Analysis.SpecialFunctions.Sqrt
import Mathlib.Analysis.SpecialFunctions.Trigonometric.ArctanDeriv
namespace Scratch
open GeoVerif GeoVerif.Harmonic

theorem degree_real : (degree : ℝ) = Real.pi / 180 := by
  simp only [degree, lit_real]; push_cast; rfl

theorem degree_pos : (0 : ℝ) < degree := by rw [degree_real]; positivity

theorem comps_H_sq (Bx By Bz Bxt Byt Bzt : ℝ) : (fieldComponents Bx By Bz Bxt Byt Bzt).H ^ 2 = Bx ^ 2 + By ^ 2 := by
  simp only [fieldComponents, hypot_real]
  exact Real.sq_sqrt (by positivity)

theorem comps_F_sq (Bx By Bz Bxt Byt Bzt : ℝ) : (fieldComponents Bx By Bz Bxt Byt Bzt).F ^ 2 = Bx ^ 2 + By ^ 2 + Bz ^ 2 := by
  simp only [fieldComponents, hypot_real]
  rw [Real.sq_sqrt (by positivity), Real.sq_sqrt (by positivity)]

/-- `H·sin D = Bx`, `H·cos D = By` (D in degrees) for a field with a horizontal part -/
theorem comps_D (Bx By Bz Bxt Byt Bzt : ℝ) (h : Bx ^ 2 + By ^ 2 ≠ 0) :
    let c := fieldComponents Bx By Bz Bxt Byt Bzt
    c.H * Real.sin (c.D * degree) = Bx ∧ c.H * Real.cos (c.D * degree) = By := by
  intro c
  have hH : Real.sqrt (Bx ^ 2 + By ^ 2) ≠ 0 := by
    rw [Real.sqrt_ne_zero']; positivity
  have hD : c.D * degree = Complex.arg ⟨By, Bx⟩ := by
    simp only [c, fieldComponents, hypot_real, eqb_real, ofNat_real, Nat.cast_zero, hH, decide_false, Bool.false_eq_true, if_false, atan2deg]
    have := degree_pos.ne'
    change Complex.arg ⟨By, Bx⟩ / degree * degree = _
    field_simp
  have hn : ‖(⟨By, Bx⟩ : ℂ)‖ = Real.sqrt (Bx ^ 2 + By ^ 2) := by
    rw [Complex.norm_def, Complex.normSq_mk]; congr 1; ring
  have hz : (⟨By, Bx⟩ : ℂ) ≠ 0 := by
    intro h0
    have : ‖(⟨By, Bx⟩ : ℂ)‖ = 0 := by rw [h0]; simp
    rw [hn] at this; exact hH this
  have hHc : c.H = Real.sqrt (Bx ^ 2 + By ^ 2) := by simp [c, fieldComponents]
  rw [hD, Complex.sin_arg, Complex.cos_arg hz, hn, hHc]
  constructor <;> field_simp

end Scratch
