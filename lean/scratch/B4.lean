import GeoVerif.Proofs.HarmonicGlue
import Mathlib.Tactic.LinearCombination
namespace Scratch
open GeoVerif GeoVerif.Harmonic GeoVerif.Proofs.Harmonic

/-- `F·sin I = −Bz`, `F·cos I = H` (I in degrees, positive downwards) -/
theorem comps_I (Bx By Bz Bxt Byt Bzt : ℝ) (h : Bx ^ 2 + By ^ 2 ≠ 0) :
    let c := fieldComponents Bx By Bz Bxt Byt Bzt
    c.F * Real.sin (c.I * degree) = -Bz ∧ c.F * Real.cos (c.I * degree) = c.H := by
  intro c
  have hHp : 0 < Real.sqrt (Bx ^ 2 + By ^ 2) := Real.sqrt_pos.mpr (by positivity)
  have hF0 : 0 < Real.sqrt (Real.sqrt (Bx ^ 2 + By ^ 2) ^ 2 + Bz ^ 2) := Real.sqrt_pos.mpr (by positivity)
  have hI : c.I * degree = Complex.arg ⟨Real.sqrt (Bx ^ 2 + By ^ 2), -Bz⟩ := by
    simp only [c, fieldComponents, hypot_real, eqb_real, ofNat_real, Nat.cast_zero, hF0.ne', decide_false, Bool.false_eq_true, if_false, atan2deg]
    have := degree_pos.ne'
    change Complex.arg ⟨_, -Bz⟩ / degree * degree = _
    field_simp
  have hz : (⟨Real.sqrt (Bx ^ 2 + By ^ 2), -Bz⟩ : ℂ) ≠ 0 := mk_ne_zero _ _ (by positivity)
  have hFc : c.F = Real.sqrt (Real.sqrt (Bx ^ 2 + By ^ 2) ^ 2 + Bz ^ 2) := by simp [c, fieldComponents]
  have hHc : c.H = Real.sqrt (Bx ^ 2 + By ^ 2) := by simp [c, fieldComponents]
  have hn : ‖(⟨Real.sqrt (Bx ^ 2 + By ^ 2), -Bz⟩ : ℂ)‖ = Real.sqrt (Real.sqrt (Bx ^ 2 + By ^ 2) ^ 2 + Bz ^ 2) := by
    rw [norm_mk]; congr 1; ring
  rw [hI, Complex.sin_arg, Complex.cos_arg hz, hn, hFc, hHc]
  constructor <;> field_simp

/-- inclination rate -/
theorem comps_It_is_derivative (Bx By Bz Bxt Byt Bzt : ℝ) (h : Bx ^ 2 + By ^ 2 ≠ 0) :
    HasDerivAt (fun s : ℝ => (fieldComponents (Bx + s * Bxt) (By + s * Byt) (Bz + s * Bzt) Bxt Byt Bzt).I)
      (fieldComponents Bx By Bz Bxt Byt Bzt).It 0 := by
  have hHp : 0 < Real.sqrt (Bx ^ 2 + By ^ 2) := Real.sqrt_pos.mpr (by positivity)
  have hF0 : 0 < Real.sqrt (Real.sqrt (Bx ^ 2 + By ^ 2) ^ 2 + Bz ^ 2) := Real.sqrt_pos.mpr (by positivity)
  have hs : Real.sqrt (Bx ^ 2 + By ^ 2) ^ 2 = Bx ^ 2 + By ^ 2 := Real.sq_sqrt (by positivity)
  have hF2 : Real.sqrt (Real.sqrt (Bx ^ 2 + By ^ 2) ^ 2 + Bz ^ 2) ^ 2 = Bx ^ 2 + By ^ 2 + Bz ^ 2 := by rw [Real.sq_sqrt (by positivity), hs]
  have hH1 := hypot_path_hasDerivAt Bx By Bxt Byt h
  have hq : HasDerivAt (fun s : ℝ => -(Bz + s * Bzt) / Real.sqrt ((Bx + s * Bxt) ^ 2 + (By + s * Byt) ^ 2))
      ((-Bzt * Real.sqrt (Bx ^ 2 + By ^ 2) - -Bz * ((Bx * Bxt + By * Byt) / Real.sqrt (Bx ^ 2 + By ^ 2))) / Real.sqrt (Bx ^ 2 + By ^ 2) ^ 2) 0 :=
    (((lin_hasDerivAt Bz Bzt).fun_neg).fun_div hH1 (by simpa using hHp.ne')).congr_deriv (by simp)
  have h2 := (hq.arctan).div_const (degree : ℝ)
  -- near s = 0 the horizontal intensity stays positive, so I(s) = arctan(−Bz(s)/H(s))/degree there
  have hev : (fun s : ℝ => (fieldComponents (Bx + s * Bxt) (By + s * Byt) (Bz + s * Bzt) Bxt Byt Bzt).I) =ᶠ[nhds 0]
      fun s : ℝ => Real.arctan (-(Bz + s * Bzt) / Real.sqrt ((Bx + s * Bxt) ^ 2 + (By + s * Byt) ^ 2)) / degree := by
    have hc : ContinuousAt (fun s : ℝ => (Bx + s * Bxt) ^ 2 + (By + s * Byt) ^ 2) 0 := by fun_prop
    have hpos : ∀ᶠ s in nhds (0 : ℝ), 0 < (Bx + s * Bxt) ^ 2 + (By + s * Byt) ^ 2 :=
      hc.eventually (lt_mem_nhds (by simp only [zero_mul, add_zero]; positivity))
    filter_upwards [hpos] with s hs
    have hHs : 0 < Real.sqrt ((Bx + s * Bxt) ^ 2 + (By + s * Byt) ^ 2) := Real.sqrt_pos.mpr hs
    have hFs : Real.sqrt (Real.sqrt ((Bx + s * Bxt) ^ 2 + (By + s * Byt) ^ 2) ^ 2 + (Bz + s * Bzt) ^ 2) ≠ 0 := (Real.sqrt_pos.mpr (by positivity)).ne'
    simp only [fieldComponents, hypot_real, eqb_real, ofNat_real, Nat.cast_zero, hFs, decide_false, Bool.false_eq_true, if_false, atan2deg]
    rw [atan2_of_pos _ _ hHs]
  refine (h2.congr_of_eventuallyEq hev).congr_deriv ?_
  simp only [fieldComponents, hypot_real, eqb_real, ofNat_real, Nat.cast_zero, hHp.ne', hF0.ne', decide_false, Bool.false_eq_true, if_false, sq_real, zero_mul, add_zero]
  rw [hF2, hs]
  have := degree_pos.ne'
  have hH := hHp.ne'
  field_simp
  rw [hs]
  ring

end Scratch
#print axioms Scratch.comps_It_is_derivative
#print axioms Scratch.comps_I
