import GeoVerif.Model.HarmonicGlue
import GeoVerif.Spec.RealInst
import Mathlib.Tactic.Ring
import Mathlib.Tactic.Linarith
import Mathlib.Tactic.FieldSimp
import Mathlib.Tactic.NormNum
import Mathlib.Topology.Order.OrderClosed
import Mathlib.Topology.Algebra.Field
import Mathlib.Algebra.Order.Floor.Ring
namespace Scratch
open GeoVerif GeoVerif.Harmonic

theorem epochSel_le (s : ℝ) (J : ℕ) : epochSel s J ≤ J := by
  induction J with
  | zero => simp [epochSel]
  | succ J ih => simp only [epochSel]; split_ifs <;> omega

theorem epochSel_spec (s : ℝ) (J : ℕ) : (epochSel s J : ℤ) = max 0 (min ⌊s⌋ (J : ℤ)) := by
  induction J with
  | zero => simp [epochSel]
  | succ J ih =>
    simp only [epochSel, leb_real, ofNat_real, decide_eq_true_eq]
    split_ifs with h
    · have : ((J + 1 : ℕ) : ℤ) ≤ ⌊s⌋ := Int.le_floor.mpr (by exact_mod_cast h)
      push_cast at this ⊢
      omega
    · have : ⌊s⌋ < ((J + 1 : ℕ) : ℤ) := Int.floor_lt.mpr (by push_cast; push_cast at h; linarith)
      rw [ih]
      push_cast at this ⊢
      omega

theorem epochSel_eq_epochIndex (s : ℝ) (nM : ℕ) (h : 1 ≤ nM) : epochSel s (nM - 1) = epochIndex ⌊s⌋ nM := by
  have := epochSel_spec s (nM - 1)
  unfold epochIndex
  have e : ((nM - 1 : ℕ) : ℤ) = (nM : ℤ) - 1 := by omega
  rw [e] at this
  omega

theorem fieldOfTime_eq_fieldAt (B : ℕ → ℝ) (Bc t t0 dt0 : ℝ) (nM : ℕ) (h : 1 ≤ nM) :
    fieldOfTime B Bc t t0 dt0 nM = fieldAt B Bc t t0 dt0 ⌊(t - t0) / dt0⌋ nM := by
  unfold fieldOfTime fieldAt epochSplit fieldCombine
  simp only [epochSel_eq_epochIndex _ nM h]
  by_cases hi : epochIndex ⌊(t - t0) / dt0⌋ nM + 1 < nM <;> simp [hi]

end Scratch
