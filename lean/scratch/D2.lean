import GeoVerif.Proofs.ConicSeries
import Mathlib.Algebra.BigOperators.Intervals
namespace GeoVerif.Proofs.ConicSeries
open GeoVerif GeoVerif.Conic GeoVerif.Proofs.Conic Finset

noncomputable def hornerB (q : ℝ) (n : ℕ) : ℕ → ℝ
  | 0 => (n.choose 1 : ℝ)
  | j + 1 => q * hornerB q n j + (n.choose (2 * (j + 1) + 1) : ℝ)

/-- the even and the odd part of `(1 + e)ⁿ = P_n(e²) + e·R_n(e²)` -/
noncomputable def Psum (q : ℝ) (n : ℕ) : ℝ := ∑ i ∈ range (n + 1), (n.choose (2 * i) : ℝ) * q ^ i
noncomputable def Rsum (q : ℝ) (n : ℕ) : ℝ := ∑ i ∈ range (n + 1), (n.choose (2 * i + 1) : ℝ) * q ^ i

theorem hornerB_sum (q : ℝ) (n J : ℕ) : hornerB q n J = ∑ i ∈ range (J + 1), (n.choose (2 * i + 1) : ℝ) * q ^ (J - i) := by
  induction J with
  | zero => simp [hornerB]
  | succ J ih =>
    rw [hornerB, ih, sum_range_succ (n := J + 1), mul_sum]
    have : ∀ i ∈ range (J + 1), q * ((n.choose (2 * i + 1) : ℝ) * q ^ (J - i)) = (n.choose (2 * i + 1) : ℝ) * q ^ (J + 1 - i) := by
      intro i hi
      have hi' : i ≤ J := Nat.lt_succ_iff.mp (mem_range.mp hi)
      have : J + 1 - i = (J - i) + 1 := by omega
      rw [this, pow_succ]; ring
    rw [sum_congr rfl this]
    simp

/-- a sum over `range (n+1)` whose terms vanish from `K+1` on -/
theorem sum_range_trunc (f : ℕ → ℝ) (K n : ℕ) (hK : K ≤ n) (hz : ∀ i, K < i → f i = 0) :
    ∑ i ∈ range (n + 1), f i = ∑ i ∈ range (K + 1), f i := by
  have hsub : range (K + 1) ⊆ range (n + 1) := range_subset_range.mpr (by omega)
  symm
  apply sum_subset hsub
  intro i _ hi
  apply hz
  simp only [mem_range, not_lt] at hi
  omega

theorem hornerB_even (q : ℝ) (K : ℕ) : hornerB q (2 * K + 2) K = Rsum q (2 * K + 2) := by
  rw [hornerB_sum, Rsum, sum_range_trunc _ K (2 * K + 2) (by omega)]
  · rw [← sum_range_reflect]
    apply sum_congr rfl
    intro i hi
    have hi' : i ≤ K := Nat.lt_succ_iff.mp (mem_range.mp hi)
    have e1 : K + 1 - 1 - i = K - i := by omega
    have e2 : K - (K - i) = i := by omega
    rw [e1, e2]
    have : (2 * K + 2).choose (2 * (K - i) + 1) = (2 * K + 2).choose (2 * i + 1) := by
      rw [← Nat.choose_symm (by omega : 2 * i + 1 ≤ 2 * K + 2)]
      congr 1; omega
    rw [this]
  · intro i hi
    rw [Nat.choose_eq_zero_of_lt (by omega)]; simp

theorem hornerB_odd (q : ℝ) (K : ℕ) : hornerB q (2 * K + 1) K = Psum q (2 * K + 1) := by
  rw [hornerB_sum, Psum, sum_range_trunc _ K (2 * K + 1) (by omega)]
  · rw [← sum_range_reflect]
    apply sum_congr rfl
    intro i hi
    have hi' : i ≤ K := Nat.lt_succ_iff.mp (mem_range.mp hi)
    have e1 : K + 1 - 1 - i = K - i := by omega
    have e2 : K - (K - i) = i := by omega
    rw [e1, e2]
    have : (2 * K + 1).choose (2 * (K - i) + 1) = (2 * K + 1).choose (2 * i) := by
      rw [← Nat.choose_symm (by omega : 2 * i ≤ 2 * K + 1)]
      congr 1; omega
    rw [this]
  · intro i hi
    rw [Nat.choose_eq_zero_of_lt (by omega)]; simp

/-- Pascal's rule on the even and odd parts: `(1 + e)^(n+1) = (1 + e)(P_n + e R_n)` -/
theorem Rsum_succ (q : ℝ) (n : ℕ) : Rsum q (n + 1) = Psum q n + Rsum q n := by
  unfold Rsum Psum
  rw [sum_range_succ (n := n + 1)]
  have hlast : ((n + 1).choose (2 * (n + 1) + 1) : ℝ) = 0 := by
    rw [Nat.choose_eq_zero_of_lt (by omega)]; simp
  rw [hlast, zero_mul, add_zero, ← sum_add_distrib]
  apply sum_congr rfl
  intro i _
  rw [Nat.choose_succ_succ' n (2 * i)]
  push_cast; ring

theorem Psum_succ (q : ℝ) (n : ℕ) : Psum q (n + 1) = Psum q n + q * Rsum q n := by
  unfold Rsum Psum
  rw [sum_range_succ' (n := n + 1)]
  -- the i = 0 term is 1; shift the rest
  have h0 : ((n + 1).choose (2 * 0) : ℝ) * q ^ 0 = 1 := by simp
  rw [h0]
  have hshift : ∀ i ∈ range (n + 1), ((n + 1).choose (2 * (i + 1)) : ℝ) * q ^ (i + 1) =
      (n.choose (2 * (i + 1)) : ℝ) * q ^ (i + 1) + q * ((n.choose (2 * i + 1) : ℝ) * q ^ i) := by
    intro i _
    have : 2 * (i + 1) = (2 * i + 1) + 1 := by ring
    rw [this, Nat.choose_succ_succ' n (2 * i + 1)]
    push_cast; ring
  rw [sum_congr rfl hshift, sum_add_distrib, ← mul_sum]
  -- Σ_{i<n+1} C(n, 2(i+1)) q^(i+1) + 1 = Σ_{i<n+1} C(n, 2i) q^i   (the top term vanishes)
  have hP : ∑ i ∈ range (n + 1), (n.choose (2 * i) : ℝ) * q ^ i =
      ∑ i ∈ range (n + 1), (n.choose (2 * (i + 1)) : ℝ) * q ^ (i + 1) + 1 := by
    have h1 : ∑ i ∈ range (n + 1 + 1), (n.choose (2 * i) : ℝ) * q ^ i = ∑ i ∈ range (n + 1), (n.choose (2 * i) : ℝ) * q ^ i := by
      rw [sum_range_succ (n := n + 1)]
      rw [Nat.choose_eq_zero_of_lt (by omega : n < 2 * (n + 1))]; simp
    rw [← h1, sum_range_succ' (n := n + 1)]; simp
  rw [hP]; ring

/-- the norm identity `P_n² − q R_n² = (1 − q)ⁿ` -/
theorem PR_norm (q : ℝ) (n : ℕ) : Psum q n ^ 2 - q * Rsum q n ^ 2 = (1 - q) ^ n := by
  induction n with
  | zero => simp [Psum, Rsum]
  | succ n ih =>
    rw [Psum_succ, Rsum_succ, pow_succ (1 - q) n, ← ih]; ring
end GeoVerif.Proofs.ConicSeries
