import GeoVerif.Props.C08
namespace GeoVerif.Props.C08
open GeoVerif GeoVerif.Polygon

/-- **why the two crossing counters agree in parity**: when the end longitude handed to `transitdirect` is the start
    longitude plus the signed difference `d = AngDiff` (the unrolled longitude `LONG_UNROLL` asks the solver for), then
    `transitdirect` (through the IEEE remainders `r₁, r₂` modulo 720) and `transit` (through the normalised longitudes
    `n₁, n₂`) count the same crossings modulo 2 -/
theorem transitdirect_transit_parity {d n1 n2 : ℚ} {k : ℤ} (e : Edge d n1 n2 k) (x1 x2 r1 r2 : ℚ) (i j1 j2 : ℤ)
    (hx1 : x1 = n1 + 360 * (i:ℚ)) (hx2 : x2 = x1 + d)
    (h1 : -360 ≤ r1 ∧ r1 ≤ 360) (h2 : -360 ≤ r2 ∧ r2 ≤ 360) (e1 : x1 = r1 + 720 * (j1:ℚ)) (e2 : x2 = r2 + 720 * (j2:ℚ)) :
    transitdirectQ r1 r2 % 2 = transitQ d n1 n2 % 2 := by
  rw [transitdirect_parity x1 x2 r1 r2 j1 j2 h1 h2 e1 e2, transit_eq_floor e]
  have a1 : ⌊x1 / 360⌋ = ⌊n1 / 360⌋ + i := by
    rw [hx1, show (n1 + 360 * (i:ℚ)) / 360 = n1 / 360 + (i:ℚ) by ring, Int.floor_add_intCast]
  have a2 : ⌊x2 / 360⌋ = ⌊(n1 + d) / 360⌋ + i := by
    rw [hx2, hx1, show (n1 + 360 * (i:ℚ) + d) / 360 = (n1 + d) / 360 + (i:ℚ) by ring, Int.floor_add_intCast]
  rw [a1, a2]; congr 1; ring

/-- non-vacuity: the edge from longitude 350 (= −10 normalised, `i = 1`) east by 20° to 370: both counters give 1 -/
example : Edge 20 (-10) 10 0 ∧ (350 : ℚ) = -10 + 360 * ((1:ℤ):ℚ) ∧ (370 : ℚ) = 350 + 20 ∧
    (350 : ℚ) = 350 + 720 * ((0:ℤ):ℚ) ∧ (370 : ℚ) = -350 + 720 * ((1:ℤ):ℚ) ∧ transitdirectQ 350 (-350) = 1 ∧ transitQ 20 (-10) 10 = 1 := by
  refine ⟨⟨by norm_num, by norm_num, by norm_num, by norm_num⟩, by norm_num, by norm_num, by norm_num, by norm_num, by decide +kernel, by decide +kernel⟩

end GeoVerif.Props.C08
