import GeoVerif.Model.TM
namespace GeoVerif.Props.C06
open GeoVerif GeoVerif.TM
def fabsS (x : F64) : F64 := mulSign (sgn x.signbit) x
theorem fabsS_signbit (x : F64) : (fabsS x).signbit = false := by
  cases x with
  | nan => rfl
  | inf s => cases s <;> simp [fabsS, mulSign, sgn, F64.neg, F64.signbit]
  | fin s m e => cases s <;> simp [fabsS, mulSign, sgn, F64.neg, F64.signbit]

theorem fold_first_quadrant (lat d : F64) :
    let fo := fwdFoldD false lat d
    fo.p = fabsS lat ∧ fo.p.signbit = false ∧
    (fo.back = false → fo.q = fabsS d ∧ fo.q.signbit = false ∧ F64.gt fo.q MathF.qd = false) := by
  refine ⟨rfl, fabsS_signbit lat, ?_⟩
  intro h
  have h' : F64.gt (fabsS d) MathF.qd = false := by simpa [fwdFoldD, fabsS] using h
  have : (fwdFoldD false lat d).q = fabsS d := by
    unfold fabsS at h'
    simp [fwdFoldD, fabsS, h']
  rw [this]
  exact ⟨rfl, fabsS_signbit d, h'⟩
end GeoVerif.Props.C06
