import GeoVerif.Props.C05
import GeoVerif.Props.C04
import GeoVerif.Proofs.F64Div
import Mathlib.Tactic.Linarith
import Mathlib.Tactic.NormNum
namespace GeoVerif.Props.C05
open GeoVerif GeoVerif.MGRS GeoVerif.Grid GeoVerif.Digits Gen.UTM
open GeoVerif.Props.C04 (fl_eq_floor val_ofInt ofInt_fin lt_ofInt_fin)

/-! ### `CheckCoords`: what is accepted, and the hemisphere folding -/

/-- **accepted ⇔** both coordinates are below 2³¹ in magnitude and each tile index lies in its half-open range or the coordinate sits exactly
    on the excluded upper end (tables re-extracted from MGRS.cpp; `ix = ⌊x / 10⁵⌋` in binary64) -/
theorem checkCoords_accept_iff (utmp northp : Bool) (x y : F64) :
    (∃ c, checkCoords utmp northp x y = .ok c) ↔
      (F64.lt (F64.abs x) (F64.ofInt 2147483647) && F64.lt (F64.abs y) (F64.ofInt 2147483647)) = true ∧
      (∃ x1, clampTile "easting out of range" (UTMUPS.fl (x / ftile)) (mgrs_tbl_mineasting.getD (UTMUPS.ind utmp northp) 0)
              (mgrs_tbl_maxeasting.getD (UTMUPS.ind utmp northp) 0) x = .ok x1) ∧
      (∃ y1, clampTile "northing out of range" (UTMUPS.fl (y / ftile)) (mgrs_tbl_minnorthing.getD (UTMUPS.ind utmp northp) 0)
              (mgrs_tbl_maxnorthing.getD (UTMUPS.ind utmp northp) 0)
              (if F64.lt y 0 && UTMUPS.fl (y / ftile) == 0 then 0 else y) = .ok y1) := by
  unfold checkCoords
  by_cases hb : (F64.lt (F64.abs x) (F64.ofInt 2147483647) && F64.lt (F64.abs y) (F64.ofInt 2147483647)) = true
  · simp only [hb, Bool.not_true, Bool.false_eq_true, if_false, true_and]
    cases hx : clampTile "easting out of range" (UTMUPS.fl (x / ftile)) (mgrs_tbl_mineasting.getD (UTMUPS.ind utmp northp) 0)
        (mgrs_tbl_maxeasting.getD (UTMUPS.ind utmp northp) 0) x with
    | error e => simp [bind, Except.bind]
    | ok x1 =>
      cases hy : clampTile "northing out of range" (UTMUPS.fl (y / ftile)) (mgrs_tbl_minnorthing.getD (UTMUPS.ind utmp northp) 0)
          (mgrs_tbl_maxnorthing.getD (UTMUPS.ind utmp northp) 0) (if F64.lt y 0 && UTMUPS.fl (y / ftile) == 0 then 0 else y) with
      | error e => simp [bind, Except.bind]
      | ok y1 => cases utmp <;> simp [bind, Except.bind, pure, Except.pure]
  · simp [hb, bind, Except.bind, throw, throwThe, MonadExceptOf.throw]


/-! ### equivalent labelling across the equator, on the binary64 model -/

/-- a representable value is its own rounding -/
theorem isRN_repr (g s : ℤ) (hg : |g| ≤ 2 ^ 53) (hs : -1074 ≤ s) :
    IsRN 53 (-1074) ((g:ℚ) * (2:ℚ) ^ s) ((g:ℚ) * (2:ℚ) ^ s) := by
  have h1 := roundTo_isRN 53 (-1074) ⟨g, s⟩
  have e := IsRN.eq_of_fits h1 g s hg hs rfl
  rw [e] at h1; exact h1

theorem ftile_fin : ftile = F64.fin false 100000 0 := rfl
theorem ftile_val : (F64.fin false 100000 0).val = 100000 := by rw [F64.val_fin]; norm_num

/-- the row of a northing in `[−9·10⁶, 0)` whose quotient by the tile size does not underflow is one of −90 … −1 -/
theorem north_row (s : Bool) (m : ℕ) (e : ℤ) (h1 : -9000000 ≤ (F64.fin s m e).val) (h2 : (F64.fin s m e).val < 0)
    (h3 : UTMUPS.fl (F64.fin s m e / ftile) ≠ 0) :
    -90 ≤ UTMUPS.fl (F64.fin s m e / ftile) ∧ UTMUPS.fl (F64.fin s m e / ftile) < 0 := by
  rw [ftile_fin] at h3 ⊢
  obtain ⟨r, hr, hfin⟩ := F64.div_fin s false m 100000 e 0 (by decide)
  rw [ftile_val] at hr
  set z := (F64.fin s m e).val / 100000 with hz
  have z1 : (-90 : ℚ) ≤ z := by rw [hz, le_div_iff₀ (by norm_num)]; linarith
  have z2 : z ≤ 0 := by rw [hz]; exact div_nonpos_of_nonpos_of_nonneg (le_of_lt h2) (by norm_num)
  have hzabs : |z| ≤ 2 ^ 52 := by rw [abs_le]; constructor <;> norm_num <;> linarith
  have r1 := hr.int_le (-90) (by norm_num) (by push_cast; exact z1)
  have r2 := hr.le_int 0 (by norm_num) (by push_cast; exact z2)
  push_cast at r1 r2
  obtain ⟨_, hv⟩ := hfin (hr.lt_huge hzabs)
  rw [fl_eq_floor, hv] at h3 ⊢
  have f1 : (-90 : ℤ) ≤ ⌊r⌋ := by rw [Int.le_floor]; push_cast; exact r1
  have f2 : ⌊r⌋ ≤ 0 := by
    have : ⌊r⌋ < 1 := by rw [Int.floor_lt]; push_cast; linarith
    omega
  exact ⟨f1, lt_of_le_of_ne f2 h3⟩


theorem shift_fin : F64.ofInt 10000000 = F64.fin false 10000000 0 := rfl
theorem shift_val : (F64.fin false 10000000 0).val = 10000000 := by rw [F64.val_fin]; norm_num

/-- the folded northing `y + 10⁷` (one rounding) is a finite double in `[10⁶, 10⁷]`, and if it is below `10⁷` it is at most the double before `10⁷` -/
theorem folded_northing (s : Bool) (m : ℕ) (e : ℤ) (h1 : -9000000 ≤ (F64.fin s m e).val) (h2 : (F64.fin s m e).val < 0) :
    ∃ s' m' e', F64.fin s m e + F64.ofInt 10000000 = F64.fin s' m' e' ∧ 1000000 ≤ (F64.fin s' m' e').val ∧ (F64.fin s' m' e').val ≤ 10000000 ∧
      ((F64.fin s' m' e').val < 10000000 → (F64.fin s' m' e').val ≤ 10000000 - (2:ℚ) ^ (-29 : ℤ)) := by
  rw [shift_fin]
  obtain ⟨r, hr, hfin⟩ := F64.add_fin_isRN s false m 10000000 e 0
  rw [shift_val] at hr
  set z := (F64.fin s m e).val + 10000000 with hz
  have z1 : (1000000 : ℚ) ≤ z := by rw [hz]; linarith
  have z2 : z < 10000000 := by rw [hz]; linarith
  have hzabs : |z| ≤ 2 ^ 52 := by rw [abs_le]; constructor <;> norm_num <;> linarith
  have r1 := hr.int_le 1000000 (by norm_num) (by push_cast; exact z1)
  have r2 := hr.le_int 10000000 (by norm_num) (by push_cast; exact le_of_lt z2)
  push_cast at r1 r2
  obtain ⟨hf, hv⟩ := hfin (hr.lt_huge hzabs)
  -- the sum is a finite double
  cases hsum : F64.fin s m e + F64.fin false 10000000 0 with
  | nan => rw [hsum] at hf; cases hf
  | inf b => rw [hsum] at hf; cases hf
  | fin s' m' e' =>
    rw [hsum] at hv
    refine ⟨s', m', e', rfl, by rw [hv]; exact r1, by rw [hv]; exact r2, ?_⟩
    rw [hv]
    intro hlt
    by_cases hbig : z ≤ 10000000 - (2:ℚ) ^ (-28 : ℤ)
    · -- far enough below: monotonicity against the representable bound 10⁷ − 2⁻²⁸
      have hrep := isRN_repr (10000000 * 2 ^ 28 - 1) (-28) (by norm_num) (by norm_num)
      have e28 : (((10000000 * 2 ^ 28 - 1 : ℤ) : ℚ)) * (2:ℚ) ^ (-28 : ℤ) = 10000000 - (2:ℚ) ^ (-28 : ℤ) := by
        push_cast; norm_num [zpow_neg]
      rw [e28] at hrep
      have := IsRN.mono (by norm_num) hr hrep hbig
      have h2928 : (2:ℚ) ^ (-29 : ℤ) ≤ (2:ℚ) ^ (-28 : ℤ) := by
        apply zpow_le_zpow_right₀ <;> norm_num
      linarith
    · -- within 2⁻²⁸ of 10⁷: the result lies on the grid 2⁻²⁹ of the binade [2²³, 2²⁴)
      have hbig := not_le.mp hbig
      have hz0 : z ≠ 0 := by linarith
      obtain ⟨E, k, b1, b2, hk, _, _⟩ := hr.nz hz0
      have hzpos : |z| = z := abs_of_pos (by linarith)
      rw [hzpos] at b1 b2
      have p28 : (2:ℚ) ^ (-28 : ℤ) ≤ 1 := by
        have : (2:ℚ) ^ (-28 : ℤ) ≤ (2:ℚ) ^ (0 : ℤ) := by apply zpow_le_zpow_right₀ <;> norm_num
        simpa using this
      have hE1 : E ≤ 24 := by
        have : (2:ℚ) ^ (E - 1) < (2:ℚ) ^ (24 : ℤ) := lt_of_le_of_lt b1 (by norm_num; linarith)
        have := Dy.two_zpow_lt_iff.mp this; omega
      have hE2 : 24 ≤ E := by
        have : (2:ℚ) ^ (23 : ℤ) < (2:ℚ) ^ E := lt_of_lt_of_le (by norm_num; linarith) (le_of_lt b2)
        have := Dy.two_zpow_lt_iff.mp this; omega
      have hE : E = 24 := by omega
      subst hE
      have hg : max ((24:ℤ) - (53:ℕ)) (-1074) = -29 := by norm_num
      rw [hg] at hk
      -- r = k · 2⁻²⁹ < 10⁷ = (10⁷ · 2²⁹) · 2⁻²⁹
      have hp : (0:ℚ) < (2:ℚ) ^ (-29 : ℤ) := by positivity
      have e29 : (10000000 : ℚ) = ((10000000 * 2 ^ 29 : ℤ) : ℚ) * (2:ℚ) ^ (-29 : ℤ) := by
        push_cast; norm_num [zpow_neg]
      rw [hk, e29] at hlt
      have hklt : k < 10000000 * 2 ^ 29 := by
        have := lt_of_mul_lt_mul_right hlt (le_of_lt hp)
        exact_mod_cast this
      have hkle : (k:ℚ) ≤ ((10000000 * 2 ^ 29 - 1 : ℤ) : ℚ) := by exact_mod_cast (by omega : k ≤ 10000000 * 2 ^ 29 - 1)
      rw [hk]
      calc (k:ℚ) * (2:ℚ) ^ (-29 : ℤ) ≤ ((10000000 * 2 ^ 29 - 1 : ℤ) : ℚ) * (2:ℚ) ^ (-29 : ℤ) := by
            exact mul_le_mul_of_nonneg_right hkle (le_of_lt hp)
        _ = 10000000 - (2:ℚ) ^ (-29 : ℤ) := by
            push_cast; norm_num [zpow_neg]


/-- the row of a southern northing in `[10⁶, 10⁷]`: 100 exactly on the equator, 10 … 99 below the last double before it -/
theorem south_row (s : Bool) (m : ℕ) (e : ℤ) (h1 : 1000000 ≤ (F64.fin s m e).val) (h2 : (F64.fin s m e).val ≤ 10000000) :
    ((F64.fin s m e).val = 10000000 → UTMUPS.fl (F64.fin s m e / ftile) = 100) ∧
    ((F64.fin s m e).val ≤ 10000000 - (2:ℚ) ^ (-29 : ℤ) → 10 ≤ UTMUPS.fl (F64.fin s m e / ftile) ∧ UTMUPS.fl (F64.fin s m e / ftile) < 100) := by
  rw [ftile_fin]
  obtain ⟨r, hr, hfin⟩ := F64.div_fin s false m 100000 e 0 (by decide)
  rw [ftile_val] at hr
  set z := (F64.fin s m e).val / 100000 with hz
  have z1 : (10 : ℚ) ≤ z := by rw [hz, le_div_iff₀ (by norm_num)]; linarith
  have z2 : z ≤ 100 := by rw [hz, div_le_iff₀ (by norm_num)]; linarith
  have hzabs : |z| ≤ 2 ^ 52 := by rw [abs_le]; constructor <;> norm_num <;> linarith
  have r1 := hr.int_le 10 (by norm_num) (by push_cast; exact z1)
  have r2 := hr.le_int 100 (by norm_num) (by push_cast; exact z2)
  push_cast at r1 r2
  obtain ⟨_, hv⟩ := hfin (hr.lt_huge hzabs)
  rw [fl_eq_floor, hv]
  constructor
  · intro heq
    have hz100 : z = 100 := by rw [hz, heq]; norm_num
    have r3 := hr.int_le 100 (by norm_num) (by push_cast; rw [hz100])
    push_cast at r3
    have : r = 100 := le_antisymm r2 r3
    rw [this]; norm_num
  · intro hle
    have hz' : z ≤ 100 - (2:ℚ) ^ (-46 : ℤ) := by
      rw [hz, div_le_iff₀ (by norm_num)]
      have : (2:ℚ) ^ (-29 : ℤ) ≥ (2:ℚ) ^ (-46 : ℤ) * 100000 := by norm_num [zpow_neg]
      linarith
    have hrep := isRN_repr (100 * 2 ^ 46 - 1) (-46) (by norm_num) (by norm_num)
    have e46 : (((100 * 2 ^ 46 - 1 : ℤ) : ℚ)) * (2:ℚ) ^ (-46 : ℤ) = 100 - (2:ℚ) ^ (-46 : ℤ) := by
      push_cast; norm_num [zpow_neg]
    rw [e46] at hrep
    have r4 := IsRN.mono (by norm_num) hr hrep hz'
    have hp : (0:ℚ) < (2:ℚ) ^ (-46 : ℤ) := by positivity
    constructor
    · rw [Int.le_floor]; push_cast; exact r1
    · rw [Int.floor_lt]; push_cast; linarith

/-- `x < N` and `x = N` for a finite double and an integer, in terms of the value -/
theorem eq_ofInt_fin (n : ℤ) (s : Bool) (m : ℕ) (e : ℤ) : F64.eq (F64.fin s m e) (F64.ofInt n) = true ↔ (F64.fin s m e).val = n := by
  rw [ofInt_fin]
  have : F64.eq (F64.fin s m e) (F64.fin (decide (n < 0)) n.natAbs 0)
      = Dy.eq (F64.fin s m e).toDy (F64.fin (decide (n < 0)) n.natAbs 0).toDy := rfl
  rw [this, Dy.eq_iff, ← ofInt_fin]
  have h := val_ofInt n
  unfold F64.val at h
  rw [h]; rfl

theorem abs_lt_imax (s : Bool) (m : ℕ) (e : ℤ) (h : |(F64.fin s m e).val| < 2147483647) :
    F64.lt (F64.abs (F64.fin s m e)) (F64.ofInt 2147483647) = true := by
  show F64.lt (F64.fin false m e) (F64.ofInt 2147483647) = true
  rw [lt_ofInt_fin]
  have : (F64.fin false m e).val = |(F64.fin s m e).val| := by
    rw [F64.val_fin, F64.val_fin]
    have hp : (0:ℚ) ≤ (m:ℚ) * (2:ℚ) ^ e := by positivity
    cases s
    · simp only [Bool.false_eq_true, if_false]; rw [abs_of_nonneg hp]
    · simp only [if_true, Bool.false_eq_true, if_false]; rw [neg_mul, abs_neg, abs_of_nonneg hp]
  rw [this]; exact_mod_cast h

/-- **`CheckCoords` does not depend on which hemisphere label carries a UTM northing across the equator**: for a "northern" northing
    `y ∈ [−9·10⁶, 0)` (not so small that `y / 10⁵` underflows to zero) the call with the northern label and the call with the southern label and
    northing `y + 10⁷` (the binary64 sum) return the same folded coordinates -/
theorem checkCoords_labelling (x : F64) (s : Bool) (m : ℕ) (e : ℤ) (h1 : -9000000 ≤ (F64.fin s m e).val) (h2 : (F64.fin s m e).val < 0)
    (h3 : UTMUPS.fl (F64.fin s m e / ftile) ≠ 0) :
    checkCoords true true x (F64.fin s m e) = checkCoords true false x (F64.fin s m e + F64.ofInt 10000000) := by
  obtain ⟨n1, n2⟩ := north_row s m e h1 h2 h3
  obtain ⟨s', m', e', hsum, f1, f2, f3⟩ := folded_northing s m e h1 h2
  obtain ⟨c1, c2⟩ := south_row s' m' e' f1 f2
  rw [hsum]
  have gy : F64.lt (F64.abs (F64.fin s m e)) (F64.ofInt 2147483647) = true :=
    abs_lt_imax s m e (by rw [abs_lt]; constructor <;> linarith)
  have gy' : F64.lt (F64.abs (F64.fin s' m' e')) (F64.ofInt 2147483647) = true :=
    abs_lt_imax s' m' e' (by rw [abs_lt]; constructor <;> linarith)
  have ylt : F64.lt (F64.fin s' m' e') 0 = false := by
    have z : (0 : F64) = F64.ofInt 0 := rfl
    rw [z, Bool.eq_false_iff, Ne, lt_ofInt_fin]; push_cast; linarith
  have ne0 : (UTMUPS.fl (F64.fin s m e / ftile) == 0) = false := by simpa using h3
  have tE : mgrs_tbl_mineasting.getD (UTMUPS.ind true true) 0 = mgrs_tbl_mineasting.getD (UTMUPS.ind true false) 0 ∧
      mgrs_tbl_maxeasting.getD (UTMUPS.ind true true) 0 = mgrs_tbl_maxeasting.getD (UTMUPS.ind true false) 0 := by decide
  have tN : mgrs_tbl_minnorthing.getD (UTMUPS.ind true true) 0 = -90 ∧ mgrs_tbl_maxnorthing.getD (UTMUPS.ind true true) 0 = 95 ∧
      mgrs_tbl_minnorthing.getD (UTMUPS.ind true false) 0 = 10 ∧ mgrs_tbl_maxnorthing.getD (UTMUPS.ind true false) 0 = 195 := by decide
  have hsh : F64.fin s m e + F64.ofInt mgrs_utmNshift = F64.fin s' m' e' := hsum
  have hS : mgrs_maxutmSrow * tile = 10000000 := by decide
  unfold checkCoords
  simp only [gy, gy', Bool.and_true, ylt, ne0, Bool.and_false, Bool.false_and, Bool.false_eq_true, if_false, tE.1, tE.2, tN.1, tN.2.1, tN.2.2.1, tN.2.2.2,
    if_true]
  cases hx : clampTile "easting out of range" (UTMUPS.fl (x / ftile)) (mgrs_tbl_mineasting.getD (UTMUPS.ind true false) 0)
      (mgrs_tbl_maxeasting.getD (UTMUPS.ind true false) 0) x with
  | error er => cases hgx : F64.lt (F64.abs x) (F64.ofInt 2147483647) <;> simp [bind, Except.bind, throw, throwThe, MonadExceptOf.throw]
  | ok x1 =>
    cases hgx : F64.lt (F64.abs x) (F64.ofInt 2147483647)
    · simp [bind, Except.bind, throw, throwThe, MonadExceptOf.throw]
    · have k1 : clampTile "northing out of range" (UTMUPS.fl (F64.fin s m e / ftile)) (-90) 95 (F64.fin s m e) = .ok (F64.fin s m e) := by
        unfold clampTile; rw [if_pos ⟨n1, by omega⟩]
      by_cases heq : (F64.fin s' m' e').val = 10000000
      · have r100 := c1 heq
        have k2 : clampTile "northing out of range" 100 10 195 (F64.fin s' m' e') = .ok (F64.fin s' m' e') := by
          unfold clampTile; rw [if_pos ⟨by omega, by omega⟩]
        have hS' : (100 : ℤ) * tile = 10000000 := by decide
        have eqt : F64.eq (F64.fin s' m' e') (F64.ofInt (100 * tile)) = true := by
          rw [hS', eq_ofInt_fin]; exact_mod_cast heq
        simp [bind, Except.bind, pure, Except.pure, k1, k2, foldNorthing, n2, mgrs_minutmNrow, hsh, eqt, r100, mgrs_maxutmSrow]
      · have hlt : (F64.fin s' m' e').val < 10000000 := lt_of_le_of_ne f2 heq
        obtain ⟨r10, r99⟩ := c2 (f3 hlt)
        have k2 : clampTile "northing out of range" (UTMUPS.fl (F64.fin s' m' e' / ftile)) 10 195 (F64.fin s' m' e') = .ok (F64.fin s' m' e') := by
          unfold clampTile; rw [if_pos ⟨by omega, by omega⟩]
        have eqf : F64.eq (F64.fin s' m' e') (F64.ofInt (mgrs_maxutmSrow * tile)) = false := by
          rw [hS, Bool.eq_false_iff, Ne, eq_ofInt_fin]; exact_mod_cast heq
        have nge : ¬ (UTMUPS.fl (F64.fin s' m' e' / ftile) ≥ mgrs_maxutmSrow) := by show ¬ (_ ≥ (100:ℤ)); omega
        simp [bind, Except.bind, pure, Except.pure, k1, k2, foldNorthing, n2, mgrs_minutmNrow, hsh, eqf, nge]


/-- **equivalent labelling** (MGRS.hpp: "UTM northings can be continued across the equator"): on the binary64 model, for every UTM zone, easting,
    latitude argument and precision, `Forward(zone, north, x, y, lat, prec)` with `−9·10⁶ ≤ y < 0` is `Forward(zone, south, x, y + 10⁷, lat, prec)`
    — the same string or the same exception — where `y + 10⁷` is the binary64 sum (since fix d94b3ac also when that sum rounds to `10⁷`).
    Excluded: `|y|` so small that `y / 10⁵` underflows to zero (below about 10⁻³¹⁸ m; the point is then taken to be on the equator, band N). -/
theorem equivalent_labelling (zone : Int) (hz : zone ≠ 0) (x lat : F64) (prec : Int) (s : Bool) (m : ℕ) (e : ℤ)
    (h1 : -9000000 ≤ (F64.fin s m e).val) (h2 : (F64.fin s m e).val < 0) (h3 : UTMUPS.fl (F64.fin s m e / ftile) ≠ 0) :
    forwardLat zone true x (F64.fin s m e) lat prec = forwardLat zone false x (F64.fin s m e + F64.ofInt 10000000) lat prec := by
  have hc := checkCoords_labelling x s m e h1 h2 h3
  obtain ⟨s', m', e', hsum, _, _, _⟩ := folded_northing s m e h1 h2
  unfold forwardLat
  have n1 : (F64.fin s m e).isNaN = false := rfl
  have n2 : (F64.fin s m e + F64.ofInt 10000000).isNaN = false := by rw [hsum]; rfl
  have hu : decide (zone ≠ 0) = true := by simpa using hz
  simp only [n1, n2, hu, hc]

/-- the overload without a latitude argument: the same, whenever the cheap latitude estimates of the two labellings select the same latitude
    (they are computed from `y` resp. `(y + 10⁷) − 10⁷`, which differ by the rounding of the sum) -/
theorem equivalent_labelling_auto (zone : Int) (hz : zone > 0) (x : F64) (prec : Int) (k : Except MGRS.Err F64) (s : Bool) (m : ℕ) (e : ℤ)
    (h1 : -9000000 ≤ (F64.fin s m e).val) (h2 : (F64.fin s m e).val < 0) (h3 : UTMUPS.fl (F64.fin s m e / ftile) ≠ 0)
    (hl : latEstimate true (F64.fin s m e) = latEstimate false (F64.fin s m e + F64.ofInt 10000000)) :
    forward zone true x (F64.fin s m e) prec k = forward zone false x (F64.fin s m e + F64.ofInt 10000000) prec k := by
  unfold forward
  simp only [hz, if_true, hl]
  cases latEstimate false (F64.fin s m e + F64.ofInt 10000000) with
  | some l => simp only [bind, Except.bind, pure, Except.pure]; exact equivalent_labelling zone (by omega) x l prec s m e h1 h2 h3
  | none =>
    cases k with
    | error er => rfl
    | ok l => simp only [bind, Except.bind]; exact equivalent_labelling zone (by omega) x l prec s m e h1 h2 h3

/-- non-vacuity: y = −1234567.25 m (row −13) and y = −2⁻⁴⁰ m (the sum rounds to 10⁷) satisfy the hypotheses; zone 31, 500 km east, precision 5 -/
example : (-9000000 : ℚ) ≤ (F64.fin true 4938269 (-2)).val ∧ (F64.fin true 4938269 (-2)).val < 0 := by
  rw [F64.val_fin]; norm_num [zpow_neg]
example : UTMUPS.fl (F64.fin true 4938269 (-2) / ftile) = -13 ∧ UTMUPS.fl (F64.fin true 1 (-40) / ftile) = -1 := by decide +kernel
example : (match forwardLat 31 true (F64.ofInt 500000) (F64.fin true 1 (-40)) (F64.fin true 1 (-60)) 5,
                 forwardLat 31 false (F64.ofInt 500000) (F64.fin true 1 (-40) + F64.ofInt 10000000) (F64.fin true 1 (-60)) 5 with
    | .ok a, .ok b => a == b && a == "31MEV0000099999".toList | _, _ => false) = true := by decide +kernel

end GeoVerif.Props.C05
