import GeoVerif.Series.TMSeries
open GeoVerif.Series GeoVerif.Series.TMS GeoVerif
#eval (checkRevertGF, checkRevertFG, checkB1, checkShape)
def badAlp : List Rat := (315564 : Rat) :: Gen.TMSeries.alpcoeff.drop 1
def alpBad : Trig := Trig.ofSin ((List.range TM.N).map fun i => coeffPoly badAlp (i + 1))
#eval Trig.isZero NP H (Trig.sub NP H alpBad (Trig.shift NP H (TM.N - 1) betS alpBad))
theorem t3 : checkB1 = true := by decide +kernel
theorem t4 : checkShape = true := by decide +kernel
