import GeoVerif.Props.C08
import GeoVerif.Model.Planimeter
namespace GeoVerif.Props.C08
open GeoVerif GeoVerif.Planimeter

/-! ### tools/Planimeter: one result line per polygon -/

/-- every vertex line is counted in exactly one result line (`n` = vertices of the polygon being read) -/
theorem segments_sum (l : List Bool) (n : ℕ) : (segments l n).sum = n + l.count true := by
  induction l generalizing n with
  | nil => unfold segments; split_ifs with h <;> simp [h]
  | cons b r ih =>
    cases b
    · unfold segments; split_ifs with h
      · rw [ih]; simp [h]
      · simp [ih]
    · unfold segments; rw [ih]; simp; omega

/-- no result line is printed for a polygon without vertices -/
theorem segments_pos (l : List Bool) (n : ℕ) : ∀ x ∈ segments l n, 0 < x := by
  induction l generalizing n with
  | nil => unfold segments; split_ifs with h <;> simp; omega
  | cons b r ih =>
    cases b
    · unfold segments; split_ifs with h
      · exact ih 0
      · intro x hx; simp only [List.mem_cons] at hx; rcases hx with rfl | hx
        · omega
        · exact ih 0 x hx
    · unfold segments; exact ih (n + 1)

/-- at most one result line per terminator, plus one for the end of the input -/
theorem segments_length (l : List Bool) (n : ℕ) : (segments l n).length ≤ l.count false + 1 := by
  induction l generalizing n with
  | nil => unfold segments; split_ifs <;> simp
  | cons b r ih =>
    cases b
    · unfold segments; split_ifs with h
      · have := ih 0; simp; omega
      · have := ih 0; simp; omega
    · unfold segments; have := ih (n + 1); simpa using this

/-- an input of `k` vertex lines and nothing else is one polygon -/
theorem segments_vertices_only (k n : ℕ) : segments (List.replicate k true) n = if n + k = 0 then [] else [n + k] := by
  induction k generalizing n with
  | zero => simp [segments]
  | succ k ih => rw [List.replicate_succ]; unfold segments; rw [ih]; simp; omega

example : segments [true, true, true, false, false, true, false, true, true] 0 = [3, 1, 2] := by decide

end GeoVerif.Props.C08
