import GeoVerif.Proofs.ConicSeries
namespace GeoVerif.Proofs.ConicSeries
open GeoVerif GeoVerif.Conic GeoVerif.Proofs.Conic

theorem ofInt_real (i : ℤ) : (ofInt i : ℝ) = (i : ℝ) := by
  unfold ofInt
  split
  · rename_i h
    rw [ofNat_real']
    have : ((-i).toNat : ℤ) = -i := Int.toNat_of_nonneg (by omega)
    have h2 : (((-i).toNat : ℕ) : ℝ) = ((-i : ℤ) : ℝ) := by exact_mod_cast congrArg (fun z : ℤ => (z : ℝ)) this
    rw [h2]; push_cast; ring
  · rename_i h
    rw [ofNat_real']
    have : (i.toNat : ℤ) = i := Int.toNat_of_nonneg (by omega)
    exact_mod_cast congrArg (fun z : ℤ => (z : ℝ)) this

/-- two steps of `choose n (k+1)·(k+1) = choose n k·(n−k)` in ℝ -/
theorem choose_ratio (n J : ℕ) (hJ : 1 ≤ J) (h : 2 * J + 1 ≤ n) :
    (n.choose (2 * J + 1) : ℝ) * ((2 * J : ℝ) * (2 * J + 1)) = (n.choose (2 * J - 1) : ℝ) * (((n : ℝ) - 2 * J) * ((n : ℝ) - 2 * J + 1)) := by
  have h1 := Nat.choose_succ_right_eq n (2 * J)
  have h2 := Nat.choose_succ_right_eq n (2 * J - 1)
  have e : 2 * J - 1 + 1 = 2 * J := by omega
  rw [e] at h2
  have c1 : (n.choose (2 * J + 1) : ℝ) * ((2 * J : ℝ) + 1) = (n.choose (2 * J) : ℝ) * ((n : ℝ) - 2 * J) := by
    have := congrArg (fun z : ℕ => (z : ℝ)) h1
    simp only [Nat.cast_mul, Nat.cast_add, Nat.cast_one] at this
    rw [Nat.cast_sub (by omega)] at this
    push_cast at this; linarith
  have c2 : (n.choose (2 * J) : ℝ) * (2 * J : ℝ) = (n.choose (2 * J - 1) : ℝ) * ((n : ℝ) - 2 * J + 1) := by
    have := congrArg (fun z : ℕ => (z : ℝ)) h2
    simp only [Nat.cast_mul] at this
    rw [Nat.cast_sub (by omega), Nat.cast_sub (by omega)] at this
    push_cast at this; linarith
  calc (n.choose (2 * J + 1) : ℝ) * ((2 * J : ℝ) * (2 * J + 1))
      = ((n.choose (2 * J + 1) : ℝ) * ((2 * J : ℝ) + 1)) * (2 * J) := by ring
    _ = ((n.choose (2 * J) : ℝ) * (2 * J : ℝ)) * ((n : ℝ) - 2 * J) := by rw [c1]; ring
    _ = _ := by rw [c2]; ring

/-- Horner form of `Σ_{i ≤ j} C(n, 2i+1) q^(j−i)` -/
noncomputable def hornerB (q : ℝ) (n : ℕ) : ℕ → ℝ
  | 0 => (n.choose 1 : ℝ)
  | j + 1 => q * hornerB q n j + (n.choose (2 * (j + 1) + 1) : ℝ)

theorem hornerB_pred (q : ℝ) (n J : ℕ) (hJ : 1 ≤ J) :
    q * hornerB q n (J - 1) + (n.choose (2 * J + 1) : ℝ) = hornerB q n J := by
  obtain ⟨J', rfl⟩ : ∃ J', J = J' + 1 := ⟨J - 1, by omega⟩
  simp only [Nat.add_sub_cancel, hornerB]

/-- **the inner loop of `DDatanhee2`**: started at loop index `k` with `c = C(m+2, 2j+1)` and the Horner sum for `j = kmax − k`, it returns the
    Horner sum for `kmax` — the coefficients the `c` recurrence generates are the binomial coefficients `C(m+2, 2j+1)` -/
theorem DD2Inner_eq (e2 : ℝ) (m kmax : ℕ) (hm : m = 2 * kmax ∨ m + 1 = 2 * kmax) (k : ℕ) (hk : k ≤ kmax) :
    DD2Inner e2 m kmax k (((m + 2).choose (2 * (kmax - k) + 1) : ℕ) : ℝ) (hornerB e2 (m + 2) (kmax - k)) = hornerB e2 (m + 2) kmax := by
  induction k with
  | zero => simp [DD2Inner]
  | succ k ih =>
    have hk' : k ≤ kmax := by omega
    set J := kmax - k with hJ
    have hJ1 : 1 ≤ J := by omega
    have hJk : kmax - (k + 1) = J - 1 := by omega
    have hn : 2 * J + 1 ≤ m + 2 := by omega
    have hcr := choose_ratio (m + 2) J hJ1 hn
    rw [hJk]
    simp only [DD2Inner, ofInt_real]
    have hc : (((m + 2).choose (2 * (J - 1) + 1) : ℕ) : ℝ) *
          (((((k : ℤ) + 1) * (2 * ((k : ℤ) + (m : ℤ) - 2 * (kmax : ℤ)) + 3) : ℤ)) : ℝ) /
          (((((kmax : ℤ) - (k : ℤ)) * (2 * ((kmax : ℤ) - (k : ℤ)) + 1) : ℤ)) : ℝ) = (((m + 2).choose (2 * J + 1) : ℕ) : ℝ) := by
      have e1 : 2 * (J - 1) + 1 = 2 * J - 1 := by omega
      rw [e1]
      have hJr : (J : ℝ) = (kmax : ℝ) - (k : ℝ) := by rw [hJ, Nat.cast_sub hk']
      have hden : (((((kmax : ℤ) - (k : ℤ)) * (2 * ((kmax : ℤ) - (k : ℤ)) + 1) : ℤ)) : ℝ) = (J : ℝ) * (2 * J + 1) := by
        push_cast; rw [hJr]
      have hJpos : (0 : ℝ) < J := by exact_mod_cast hJ1
      have hnum : 2 * (((((k : ℤ) + 1) * (2 * ((k : ℤ) + (m : ℤ) - 2 * (kmax : ℤ)) + 3) : ℤ)) : ℝ) =
          (((m + 2 : ℕ) : ℝ) - 2 * J) * (((m + 2 : ℕ) : ℝ) - 2 * J + 1) := by
        push_cast; rw [hJr]
        rcases hm with h | h
        · have : (m : ℝ) = 2 * (kmax : ℝ) := by exact_mod_cast h
          rw [this]; ring
        · have : (m : ℝ) + 1 = 2 * (kmax : ℝ) := by exact_mod_cast h
          have hm' : (m : ℝ) = 2 * (kmax : ℝ) - 1 := by linarith
          rw [hm']; ring
      rw [hden, div_eq_iff (by positivity)]
      have : (((m + 2).choose (2 * J + 1) : ℕ) : ℝ) * ((J : ℝ) * (2 * J + 1)) = (((m + 2).choose (2 * J + 1) : ℕ) : ℝ) * ((2 * J : ℝ) * (2 * J + 1)) / 2 := by ring
      rw [this, hcr, ← hnum]; ring
    rw [hc]
    rw [hornerB_pred e2 (m + 2) J hJ1]
    exact ih hk'

/-- the coefficient polynomial of the `m`-th term as coded is the Horner sum of the binomial coefficients `C(m+2, 2j+1)` -/
theorem dd2Coef_eq (e2 : ℝ) (m : ℕ) : dd2Coef e2 m = hornerB e2 (m + 2) ((m + 1) / 2) := by
  unfold dd2Coef
  have hm : m = 2 * ((m + 1) / 2) ∨ m + 1 = 2 * ((m + 1) / 2) := by omega
  have h := DD2Inner_eq e2 m ((m + 1) / 2) hm ((m + 1) / 2) (le_refl _)
  simp only [Nat.sub_self, Nat.mul_zero, Nat.zero_add, Nat.choose_one_right, hornerB] at h
  rw [ofNat_real']
  exact h
end GeoVerif.Proofs.ConicSeries
