import GeoVerif.Model.HarmonicGlue
import GeoVerif.Spec.RealInst
import GeoVerif.Proofs.HarmonicGlue
import Mathlib.Tactic.Ring
import Mathlib.Tactic.Linarith
import Mathlib.Tactic.LinearCombination
import Mathlib.Tactic.FieldSimp
import Mathlib.Tactic.NormNum
import Mathlib.Tactic.Positivity
import Mathlib.Analysis.SpecialFunctions.Sqrt
import Mathlib.Analysis.SpecialFunctions.Trigonometric.ArctanDeriv
namespace Scratch
open GeoVerif GeoVerif.Harmonic

theorem degree_real : (degree : ℝ) = Real.pi / 180 := by
  simp only [degree, lit_real]; push_cast; rfl
theorem degree_pos : (0 : ℝ) < degree := by rw [degree_real]; positivity

theorem lin_hasDerivAt (x xt : ℝ) : HasDerivAt (fun s : ℝ => x + s * xt) xt 0 := by
  simpa using ((hasDerivAt_id (0 : ℝ)).mul_const xt).const_add x

theorem hypot_path_hasDerivAt (x y xt yt : ℝ) (h : x ^ 2 + y ^ 2 ≠ 0) :
    HasDerivAt (fun s : ℝ => Real.sqrt ((x + s * xt) ^ 2 + (y + s * yt) ^ 2)) ((x * xt + y * yt) / Real.sqrt (x ^ 2 + y ^ 2)) 0 := by
  have h1 : HasDerivAt (fun s : ℝ => (x + s * xt) ^ 2 + (y + s * yt) ^ 2) (2 * (x * xt + y * yt)) 0 :=
    (((lin_hasDerivAt x xt).fun_pow 2).fun_add ((lin_hasDerivAt y yt).fun_pow 2)).congr_deriv (by simp; ring)
  have h2 := h1.sqrt (by simpa using h)
  refine h2.congr_deriv ?_
  simp only [zero_mul, add_zero]
  field_simp

theorem comps_Ht_is_derivative (Bx By Bz Bxt Byt Bzt : ℝ) (h : Bx ^ 2 + By ^ 2 ≠ 0) :
    HasDerivAt (fun s : ℝ => (fieldComponents (Bx + s * Bxt) (By + s * Byt) (Bz + s * Bzt) Bxt Byt Bzt).H)
      (fieldComponents Bx By Bz Bxt Byt Bzt).Ht 0 := by
  have hH : Real.sqrt (Bx ^ 2 + By ^ 2) ≠ 0 := by rw [Real.sqrt_ne_zero']; positivity
  have := hypot_path_hasDerivAt Bx By Bxt Byt h
  simpa [fieldComponents, hH, ofNat_real] using this

/-- total intensity: `F(s) = √(Bx(s)² + By(s)² + Bz(s)²)` -/
theorem comps_Ft_is_derivative (Bx By Bz Bxt Byt Bzt : ℝ) (h : Bx ^ 2 + By ^ 2 ≠ 0) :
    HasDerivAt (fun s : ℝ => (fieldComponents (Bx + s * Bxt) (By + s * Byt) (Bz + s * Bzt) Bxt Byt Bzt).F)
      (fieldComponents Bx By Bz Bxt Byt Bzt).Ft 0 := by
  have hH : Real.sqrt (Bx ^ 2 + By ^ 2) ≠ 0 := by rw [Real.sqrt_ne_zero']; positivity
  have hHp : 0 < Real.sqrt (Bx ^ 2 + By ^ 2) := Real.sqrt_pos.mpr (by positivity)
  have hF0 : 0 < Real.sqrt (Real.sqrt (Bx ^ 2 + By ^ 2) ^ 2 + Bz ^ 2) := Real.sqrt_pos.mpr (by positivity)
  have hH1 := hypot_path_hasDerivAt Bx By Bxt Byt h
  have h1 : HasDerivAt (fun s : ℝ => Real.sqrt ((Bx + s * Bxt) ^ 2 + (By + s * Byt) ^ 2) ^ 2 + (Bz + s * Bzt) ^ 2)
      (2 * (Real.sqrt (Bx ^ 2 + By ^ 2) * ((Bx * Bxt + By * Byt) / Real.sqrt (Bx ^ 2 + By ^ 2)) + Bz * Bzt)) 0 :=
    ((hH1.fun_pow 2).fun_add ((lin_hasDerivAt Bz Bzt).fun_pow 2)).congr_deriv (by simp; ring)
  have h2 := h1.sqrt (by simp only [zero_mul, add_zero]; positivity)
  simp only [fieldComponents, hypot_real, eqb_real, ofNat_real, Nat.cast_zero, hH, hF0.ne', decide_false, Bool.false_eq_true, if_false]
  refine h2.congr_deriv ?_
  simp only [zero_mul, add_zero]
  field_simp

/-- declination rate: on the branch `By ≠ 0` the angle is `arctan(Bx/By)` up to a constant, in degrees -/
theorem comps_Dt_is_derivative_partial (Bx By Bz Bxt Byt Bzt : ℝ) (h : By ≠ 0) :
    HasDerivAt (fun s : ℝ => Real.arctan ((Bx + s * Bxt) / (By + s * Byt)) / degree)
      (fieldComponents Bx By Bz Bxt Byt Bzt).Dt 0 := by
  have hq : Bx ^ 2 + By ^ 2 ≠ 0 := by positivity
  have hH : Real.sqrt (Bx ^ 2 + By ^ 2) ≠ 0 := by rw [Real.sqrt_ne_zero']; positivity
  have hs : Real.sqrt (Bx ^ 2 + By ^ 2) ^ 2 = Bx ^ 2 + By ^ 2 := Real.sq_sqrt (by positivity)
  have h1 : HasDerivAt (fun s : ℝ => (Bx + s * Bxt) / (By + s * Byt)) ((Bxt * By - Bx * Byt) / By ^ 2) 0 :=
    ((lin_hasDerivAt Bx Bxt).fun_div (lin_hasDerivAt By Byt) (by simpa using h)).congr_deriv (by simp)
  have h2 := (h1.arctan).div_const (degree : ℝ)
  simp only [fieldComponents, hypot_real, eqb_real, ofNat_real, Nat.cast_zero, hH, decide_false, Bool.false_eq_true, if_false, sq_real]
  refine h2.congr_deriv ?_
  simp only [zero_mul, add_zero]
  rw [hs]
  have := degree_pos.ne'
  field_simp
  ring

end Scratch
