import GeoVerif.Proofs.ConicInit
namespace GeoVerif.Proofs.ConicInit
open GeoVerif GeoVerif.Conic GeoVerif.Proofs.Conic GeoVerif.Proofs.ConicDD

/-- **The Newton function of `AlbersEqualArea::Init`.**  With `sphi0 = tan φ0/sec φ0`, `x = (1 − sphi0)/(1 − e² sphi0)`, `axm1` the exact
    `atanhee(x)/x − 1`, and the subtraction formula `atanhee(1) − atanhee(sphi0) = atanhee(x)`, the coded
    `u = sm1·g − s/qZ·(D − g(A + B))` is `sm1·g − (s/qZ)(1 − g (qZ − q0))`, `g = scbet0² sphi0`, `q0 = (1 − e²)(sphi0/(1 − e² sphi0²) + atanhee(sphi0))`. -/
theorem albNewtonU_closed (E : Ell ℝ) (s sm1 t0 axm1 A0 AZ : ℝ) (he2m : E.e2m ≠ 0)
    (hw : 1 - E.e2 * (t0 / hyp t0) ^ 2 ≠ 0) (hv : 1 - E.e2 * (t0 / hyp t0) ≠ 0)
    (hAZ : E.atanhee 1 = AZ)
    (hax : (1 + axm1) * ((1 - t0 / hyp t0) / (1 - E.e2 * (t0 / hyp t0))) = AZ - A0) :
    (albNewtonU E s sm1 t0 axm1).1 =
      sm1 * ((1 + (E.fm * t0) ^ 2) * (t0 / hyp t0)) -
        s / E.qZ * (1 - (1 + (E.fm * t0) ^ 2) * (t0 / hyp t0) *
          (E.qZ - E.e2m * (t0 / hyp t0 / (1 - E.e2 * (t0 / hyp t0) ^ 2) + A0))) := by
  have he2m' : E.e2m = 1 - E.e2 := by simp only [Ell.e2m, one_real]
  have hfm2 : E.fm ^ 2 = 1 - E.e2 := by rw [e2_eq]; ring
  have h := hyp_sq t0; have p := hyp_pos t0; have a := abs_lt_hyp t0
  have hsq : Real.sqrt (1 + t0 ^ 2) = hyp t0 := (hyp_real t0).symm
  have hqZ : E.qZ = 1 + E.e2m * AZ := by simp only [Ell.qZ, one_real, hAZ]
  set σ := t0 / hyp t0 with hσ
  have hm : 1 / (hyp t0 * (t0 + hyp t0)) = 1 - σ := by rw [hσ]; exact (one_sub_sn t0).symm
  have hσ1 : σ < 1 := by rw [hσ, div_lt_one p]; have := le_abs_self t0; linarith
  have hσ2 : -1 < σ := by
    rw [hσ, lt_div_iff₀ p]; have := neg_abs_le t0; linarith
  have hp1 : 1 + σ ≠ 0 := by linarith
  have hscb : (1 + (E.fm * t0) ^ 2) * (1 - σ ^ 2) = 1 - E.e2 * σ ^ 2 := by
    rw [hσ, mul_pow, hfm2]; field_simp; linear_combination ((1 - E.e2) * t0 ^ 2) * h
  -- (1 − e²)·atanhee(x) in terms of the coded B
  unfold albNewtonU
  simp only [sq_real, one_real, two_real, three_real, sqrt_real, hsq, hm]
  rw [he2m'] at he2m ⊢
  rw [hqZ, he2m']
  simp only [← hσ]
  have hm1 : 1 - σ ≠ 0 := by linarith
  have hG : 1 + (E.fm * t0) ^ 2 = (1 - E.e2 * σ ^ 2) / ((1 - σ) * (1 + σ)) := by
    rw [eq_div_iff (mul_ne_zero hm1 hp1)]; linear_combination hscb
  have hAZ' : AZ = A0 + (1 + axm1) * ((1 - σ) / (1 - E.e2 * σ)) := by linarith
  rw [hG, hAZ']
  congr 1
  congr 1
  have hw' : 1 - E.e2 * σ ^ 2 ≠ 0 := hw
  have hv' : 1 - E.e2 * σ ≠ 0 := hv
  have he' : 1 - E.e2 ≠ 0 := he2m
  have hw'' : 1 - σ ^ 2 * E.e2 ≠ 0 := by rw [mul_comm]; exact hw'
  have hv'' : 1 - σ * E.e2 ≠ 0 := by rw [mul_comm]; exact hv'
  field_simp
  ring
end GeoVerif.Proofs.ConicInit
