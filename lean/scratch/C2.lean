import GeoVerif.Props.C19
import GeoVerif.Proofs.HarmonicGlue
namespace Scratch
open GeoVerif GeoVerif.Harmonic GeoVerif.Proofs.Harmonic GeoVerif.Props.C19

noncomputable def zonalCoef (full : Bool) (mult amult : ℝ) (Jn : ℕ → ℝ) (j : ℕ) : ℝ :=
  -(mult * amult ^ j * Jn (2 * j)) / (if full then Real.sqrt (2 * (2 * j : ℕ) + 1) else 1)

/-- with enough fuel the loop ends only beyond the model degree or at a term that vanishes (over ℝ `r − s = r ↔ s = 0`) -/
theorem zonalTail_stop (full : Bool) (amult : ℝ) (Jn cC : ℕ → ℝ) (nmx : ℕ) :
    ∀ (fuel j : ℕ) (mult0 : ℝ), 1 ≤ j → nmx < 2 * j + 2 * fuel →
      ∃ k, (zonalTail full amult Jn cC nmx fuel (2 * j) (mult0 * amult ^ (j - 1))).length = 2 * k ∧
        (nmx < 2 * (j + k) ∨ zonalCoef full mult0 amult Jn (j + k) = 0) := by
  intro fuel
  induction fuel with
  | zero => intro j mult0 hj hf; exact ⟨0, by simp [zonalTail], Or.inl (by omega)⟩
  | succ fuel ih =>
    intro j mult0 hj hf
    simp only [zonalTail]
    by_cases h1 : 2 * j > nmx
    · exact ⟨0, by simp [h1], Or.inl (by omega)⟩
    · simp only [h1, if_false]
      have hmj : mult0 * amult ^ (j - 1) * amult = mult0 * amult ^ j := by
        have : j = (j - 1) + 1 := by omega
        conv_rhs => rw [this, pow_succ]
        ring
      by_cases h2 : RealLike.eqb (cC (2 * j) - -(mult0 * amult ^ (j - 1) * amult * Jn (2 * j)) / zonalNorm full (2 * j)) (cC (2 * j)) = true
      · refine ⟨0, by simp [h2], Or.inr ?_⟩
        simp only [eqb_real, decide_eq_true_eq] at h2
        have h3 : -(mult0 * amult ^ (j - 1) * amult * Jn (2 * j)) / zonalNorm full (2 * j) = 0 := by linarith
        rw [hmj] at h3
        simp only [Nat.add_zero, zonalCoef]
        simp only [zonalNorm, sqrt_real, ofNat_real] at h3
        cases full <;> simp at h3 ⊢ <;> first | exact h3 | (push_cast at h3 ⊢; exact h3)
      · simp only [h2, Bool.false_eq_true, if_false]
        have hm : mult0 * amult ^ (j - 1) * amult = mult0 * amult ^ (j + 1 - 1) := by
          rw [hmj]; simp
        rw [hm, show 2 * j + 2 = 2 * (j + 1) by ring]
        obtain ⟨k, hk, hor⟩ := ih (j + 1) mult0 (by omega) (by omega)
        refine ⟨k + 1, by simp only [List.length_cons, hk]; ring, ?_⟩
        rw [show j + (k + 1) = j + 1 + k by ring]
        exact hor

end Scratch
