import GeoVerif.Props.C19
import Mathlib.Data.List.GetD
namespace Scratch
open GeoVerif GeoVerif.Harmonic GeoVerif.Props.C19

/-- start of block `m` in a concatenation of blocks -/
def off {β : Type} (f : ℕ → List β) : ℕ → ℕ
  | 0 => 0
  | m + 1 => off f m + (f m).length

theorem length_flatMap_range {β : Type} (f : ℕ → List β) (a : ℕ) : ((List.range a).flatMap f).length = off f a := by
  induction a with
  | zero => simp [off]
  | succ a ih => rw [List.range_succ, List.flatMap_append]; simp [ih, off]

theorem off_mono {β : Type} (f : ℕ → List β) (m a : ℕ) (h : m ≤ a) : off f m ≤ off f a := by
  induction a with
  | zero => have : m = 0 := by omega
            subst this; exact le_rfl
  | succ a ih =>
    rcases Nat.lt_or_ge m (a + 1) with h1 | h1
    · have := ih (by omega); simp only [off]; omega
    · have : m = a + 1 := by omega
      subst this; exact le_rfl

theorem getD_flatMap_range {β : Type} (f : ℕ → List β) (d : β) (a m l : ℕ) (hm : m < a) (hl : l < (f m).length) :
    ((List.range a).flatMap f).getD (off f m + l) d = (f m).getD l d := by
  induction a with
  | zero => omega
  | succ a ih =>
    rw [List.range_succ, List.flatMap_append]
    rcases Nat.lt_or_ge m a with h1 | h1
    · have hlt : off f m + l < ((List.range a).flatMap f).length := by
        rw [length_flatMap_range]
        have := off_mono f (m + 1) a (by omega)
        simp only [off] at this; omega
      rw [List.getD_append _ _ _ _ hlt]
      exact ih h1
    · have : m = a := by omega
      subst this
      have hge : ((List.range m).flatMap f).length ≤ off f m + l := by rw [length_flatMap_range]; omega
      rw [List.getD_append_right _ _ _ _ hge, length_flatMap_range]
      simp

end Scratch

namespace Scratch
open GeoVerif GeoVerif.Harmonic GeoVerif.Props.C19

/-- column `m` of what `readcoeffs` stores into `C` -/
def colC (N0 : Int) (N : ℕ) (m : ℕ) : List Int := (List.range ((N : Int) + 1 - (m : Int)).toNat).map fun (l : ℕ) => index N0 ((m : Int) + l) m

theorem readSelC_eq (N0 : Int) (N M : ℕ) : readSelC N0 N M = (List.range (M + 1)).flatMap (colC N0 N) := by
  unfold readSelC colC
  have : ((M : Int) + 1).toNat = M + 1 := by omega
  rw [this]

theorem colC_length (N0 : Int) (N m : ℕ) : (colC N0 N m).length = N + 1 - m := by
  simp only [colC, List.length_map, List.length_range]; omega

/-- the start of column `m` in the packed layout of degree `N` is `index N m m` -/
theorem two_off (N0 : Int) (N : ℕ) (m : ℕ) (h : m ≤ N + 1) : 2 * (off (colC N0 N) m : Int) = 2 * m * N - m * (m - 1) + 2 * m := by
  induction m with
  | zero => simp [off]
  | succ m ih =>
    have := ih (by omega)
    simp only [off, colC_length]
    have hc : ((N + 1 - m : ℕ) : Int) = (N : Int) + 1 - m := by omega
    push_cast
    rw [hc]
    have e : 2 * ((m : Int) + 1) * N - ((m : Int) + 1) * ((m : Int) + 1 - 1) + 2 * ((m : Int) + 1) = (2 * m * N - m * (m - 1) + 2 * m) + 2 * ((N : Int) + 1 - m) := by ring
    rw [e]; omega

theorem off_eq_index (N0 : Int) (N m : ℕ) (h : m ≤ N + 1) : (off (colC N0 N) m : Int) = index N m m := by
  have h1 := two_off N0 N m h
  have h2 := two_index N m m
  omega

/-- **what `readcoeffs` stores**: the entry of `C` at the packed position of `(n, m)` in the layout of the degree read is the entry of the file block at the packed position of
    `(n, m)` in the layout of the block's own degree -/
theorem readSelC_get (N0 : Int) (N M n m : ℕ) (hm : m ≤ M) (hmn : m ≤ n) (hn : n ≤ N) (d : Int) :
    (readSelC N0 N M).getD (index N n m).toNat d = index N0 n m := by
  rw [readSelC_eq]
  have hoff := off_eq_index N0 N m (by omega)
  have hidx : index N n m = index N m m + ((n : Int) - m) := by
    have h1 := two_index N n m
    have h2 := two_index N m m
    omega
  have hpos : (index N n m).toNat = off (colC N0 N) m + (n - m) := by omega
  rw [hpos, getD_flatMap_range _ _ _ _ _ (by omega) (by rw [colC_length]; omega)]
  simp only [colC]
  rw [List.getD_eq_getElem?_getD, List.getElem?_map, List.getElem?_range (by omega)]
  simp only [Option.map_some, Option.getD_some]
  congr 1
  omega

theorem readSelC_length (N0 : Int) (N M : ℕ) (hM : M ≤ N) : ((readSelC N0 N M).length : Int) = csize N M := by
  rw [readSelC_eq, length_flatMap_range]
  have h1 := two_off N0 N (M + 1) (by omega)
  have h2 := two_csize N M
  push_cast at h1
  have e : 2 * ((M : Int) + 1) * N - ((M : Int) + 1) * ((M : Int) + 1 - 1) + 2 * ((M : Int) + 1) = ((M : Int) + 1) * (2 * N - M + 2) := by ring
  rw [e] at h1
  omega

end S
namespace Scratch
open GeoVerif GeoVerif.Harmonic GeoVerif.Props.C19

def colS (N0 : Int) (N : ℕ) (j : ℕ) : List Int := (List.range ((N : Int) - (j : Int)).toNat).map fun (l : ℕ) => index N0 ((j : Int) + 1 + l) ((j : Int) + 1) - (N0 + 1)

theorem readSelS_eq (N0 : Int) (N M : ℕ) : readSelS N0 N M = (List.range M).flatMap (colS N0 N) := by
  unfold readSelS colS
  simp

theorem colS_length (N0 : Int) (N j : ℕ) : (colS N0 N j).length = N - j := by
  simp only [colS, List.length_map, List.length_range]; omega

theorem two_offS (N0 : Int) (N : ℕ) (j : ℕ) (h : j ≤ N) : 2 * (off (colS N0 N) j : Int) = 2 * j * N - j * (j - 1) := by
  induction j with
  | zero => simp [off]
  | succ j ih =>
    have := ih (by omega)
    simp only [off, colS_length]
    have hc : ((N - j : ℕ) : Int) = (N : Int) - j := by omega
    push_cast
    rw [hc]
    have e : 2 * ((j : Int) + 1) * N - ((j : Int) + 1) * ((j : Int) + 1 - 1) = (2 * j * N - j * (j - 1)) + 2 * ((N : Int) - j) := by ring
    rw [e]; omega

theorem readSelS_get (N0 : Int) (N M n m : ℕ) (h1 : 1 ≤ m) (hm : m ≤ M) (hmn : m ≤ n) (hn : n ≤ N) (d : Int) :
    (readSelS N0 N M).getD (index N n m - ((N : Int) + 1)).toNat d = index N0 n m - (N0 + 1) := by
  rw [readSelS_eq]
  obtain ⟨j, rfl⟩ : ∃ j, m = j + 1 := ⟨m - 1, by omega⟩
  have hoff := two_offS N0 N j (by omega)
  have hidx := two_index N n ((j + 1 : ℕ) : Int)
  have e : 2 * (((j + 1 : ℕ) : Int)) * N - ((j + 1 : ℕ) : Int) * (((j + 1 : ℕ) : Int) - 1) = (2 * j * N - j * (j - 1)) + 2 * ((N : Int) - j) := by push_cast; ring
  have hpos : (index N n ((j + 1 : ℕ) : Int) - ((N : Int) + 1)).toNat = off (colS N0 N) j + (n - (j + 1)) := by omega
  rw [hpos, getD_flatMap_range _ _ _ _ _ (by omega) (by rw [colS_length]; omega)]
  simp only [colS]
  rw [List.getD_eq_getElem?_getD, List.getElem?_map, List.getElem?_range (by omega)]
  simp only [Option.map_some, Option.getD_some]
  push_cast
  congr 2
  omega

theorem readSelS_length (N0 : Int) (N M : ℕ) (hM : M ≤ N) : ((readSelS N0 N M).length : Int) = ssize N M := by
  rw [readSelS_eq, length_flatMap_range]
  have h1 := two_offS N0 N M hM
  have h2 := two_csize N M
  unfold ssize
  have e : ((M : Int) + 1) * (2 * N - M + 2) = (2 * M * N - M * (M - 1)) + 2 * ((N : Int) + 1) := by ring
  rw [e] at h2
  omega

end Scratch
#print axioms Scratch.readSelS_get
