import GeoVerif.Model.HarmonicGlue
import GeoVerif.Spec.RealInst
import Mathlib.Tactic.Ring
import Mathlib.Tactic.Linarith
import Mathlib.Tactic.FieldSimp
import Mathlib.Tactic.NormNum
import Mathlib.Topology.Order.OrderClosed
import Mathlib.Topology.Algebra.Field
import Mathlib.Topology.Instances.Real.Lemmas
namespace Scratch
open GeoVerif GeoVerif.Harmonic

/-- the affine function of the time used while epoch `j` is selected -/
noncomputable def epochBranch (B : ℕ → ℝ) (Bc t0 dt0 : ℝ) (nM j : ℕ) (t : ℝ) : ℝ :=
  (fieldCombine (B j) (B (j + 1)) Bc ((t - t0) - (j : ℝ) * dt0) dt0 (decide (j + 1 < nM))).1

theorem epochBranch_continuous (B : ℕ → ℝ) (Bc t0 dt0 : ℝ) (nM j : ℕ) : Continuous (epochBranch B Bc t0 dt0 nM j) := by
  unfold epochBranch fieldCombine
  by_cases h : j + 1 < nM <;> simp only [h, decide_true, decide_false, if_true, Bool.false_eq_true, if_false] <;> fun_prop

theorem fieldOfTime_branch (B : ℕ → ℝ) (Bc t t0 dt0 : ℝ) (nM : ℕ) :
    (fieldOfTime B Bc t t0 dt0 nM).1 = epochBranch B Bc t0 dt0 nM (epochSel ((t - t0) / dt0) (nM - 1)) t := by
  simp [fieldOfTime, epochSplit, epochBranch, ofNat_real]

/-- two neighbouring branches agree at their common boundary `t = t₀ + (J+1)·Δ` -/
theorem epochBranch_boundary (B : ℕ → ℝ) (Bc t0 dt0 : ℝ) (nM J : ℕ) (hJ : J + 1 < nM) (hd : dt0 ≠ 0) (t : ℝ) (ht : ((J + 1 : ℕ) : ℝ) = (t - t0) / dt0) :
    epochBranch B Bc t0 dt0 nM (J + 1) t = epochBranch B Bc t0 dt0 nM J t := by
  have ht' : t - t0 = ((J : ℝ) + 1) * dt0 := by push_cast at ht; field_simp at ht; linarith
  unfold epochBranch fieldCombine
  simp only [hJ, decide_true, if_true]
  push_cast
  rw [ht']
  split_ifs <;> field_simp <;> ring

theorem epochSel_branch_continuous (B : ℕ → ℝ) (Bc t0 dt0 : ℝ) (nM : ℕ) (hd : dt0 ≠ 0) (J : ℕ) (hJ : J + 1 ≤ nM) :
    Continuous fun t => epochBranch B Bc t0 dt0 nM (epochSel ((t - t0) / dt0) J) t := by
  induction J with
  | zero => simpa [epochSel] using epochBranch_continuous B Bc t0 dt0 nM 0
  | succ J ih =>
    have ih' := ih (by omega)
    simp only [epochSel, leb_real, ofNat_real, decide_eq_true_eq]
    have hs : Continuous fun t : ℝ => (t - t0) / dt0 := by fun_prop
    have key : Continuous fun t => if ((J + 1 : ℕ) : ℝ) ≤ (t - t0) / dt0 then epochBranch B Bc t0 dt0 nM (J + 1) t
        else epochBranch B Bc t0 dt0 nM (epochSel ((t - t0) / dt0) J) t := by
      apply Continuous.if_le (epochBranch_continuous B Bc t0 dt0 nM (J + 1)) ih' continuous_const hs
      intro t ht
      rw [epochBranch_boundary B Bc t0 dt0 nM J (by omega) hd t ht]
      congr 1
      -- at the boundary the lower selector picks `J`
      have h1 := epochSel_le ((t - t0) / dt0) J
      sorry
    refine key.congr ?_
    intro t
    split_ifs <;> rfl

end Scratch
