import GeoVerif.Series.TMSeries
open GeoVerif.Series GeoVerif.Series.TMS
#eval checkRevertGF
#eval checkRevertFG
#eval checkB1
#eval checkShape
#eval (revertGF.gs 1, revertGF.gs 2)
#eval tableSize
