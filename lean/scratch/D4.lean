import GeoVerif.Proofs.ConicSeries
namespace GeoVerif.Proofs.ConicSeries
open GeoVerif GeoVerif.Conic GeoVerif.Proofs.Conic Finset

/-- partial sums and (non-)negligible terms of `DDatanhee2` for `f = −1` at `x = y = 3/4` -/
theorem dd2_minus_three_facts :
    dd2Sum (-3 : ℝ) 4 (1 / 4) (1 / 4) 3 = -2713 / 10240 ∧ dd2Sum (-3 : ℝ) 4 (1 / 4) (1 / 4) 4 = -2713 / 10240 ∧
    ¬ dd2Negl (-3 : ℝ) 4 (1 / 4) (1 / 4) 1 ∧ ¬ dd2Negl (-3 : ℝ) 4 (1 / 4) (1 / 4) 2 ∧ ¬ dd2Negl (-3 : ℝ) 4 (1 / 4) (1 / 4) 3 ∧
    dd2Negl (-3 : ℝ) 4 (1 / 4) (1 / 4) 4 ∧ ¬ dd2Negl (-3 : ℝ) 4 (1 / 4) (1 / 4) 5 := by
  obtain ⟨s0, t1, t2, t3, t4, t5⟩ := dd2_terms_minus_three
  have s1 : dd2Sum (-3 : ℝ) 4 (1 / 4) (1 / 4) 1 = -1 / 4 := by rw [dd2Sum, s0, t1]; norm_num
  have s2 : dd2Sum (-3 : ℝ) 4 (1 / 4) (1 / 4) 2 = -539 / 2048 := by rw [dd2Sum, s1, t2]; norm_num
  have s3 : dd2Sum (-3 : ℝ) 4 (1 / 4) (1 / 4) 3 = -2713 / 10240 := by rw [dd2Sum, s2, t3]; norm_num
  have s4 : dd2Sum (-3 : ℝ) 4 (1 / 4) (1 / 4) 4 = -2713 / 10240 := by rw [dd2Sum, s3, t4]; norm_num
  have s5 : dd2Sum (-3 : ℝ) 4 (1 / 4) (1 / 4) 5 = -2713 / 10240 + 81 / 917504 := by rw [dd2Sum, s4, t5]
  have heps : (eps : ℝ) = 1 / 4503599627370496 := by simp only [eps, one_real, ofNat_real']; norm_num
  refine ⟨s3, s4, ?_, ?_, ?_, ?_, ?_⟩
  · simp only [dd2Negl, not_not, s1, t1, heps]; rw [abs_of_neg (by norm_num), abs_of_neg (by norm_num)]; norm_num
  · simp only [dd2Negl, not_not, s2, t2, heps]; rw [abs_of_neg (by norm_num), abs_of_neg (by norm_num)]; norm_num
  · simp only [dd2Negl, not_not, s3, t3, heps]; rw [abs_of_neg (by norm_num), abs_of_neg (by norm_num)]; norm_num
  · simp only [dd2Negl, s4, t4, heps]; rw [abs_of_neg (by norm_num)]; norm_num
  · simp only [dd2Negl, not_not, s5, t5, heps]; rw [abs_of_neg (by norm_num), abs_of_pos (by norm_num)]; norm_num

theorem ell_minus_one : (⟨1, -1⟩ : Ell ℝ).e2 = -3 ∧ (⟨1, -1⟩ : Ell ℝ).e2m = 4 := by
  constructor
  · simp only [Ell.e2, two_real]; norm_num
  · simp only [Ell.e2m, Ell.e2, one_real, two_real]; norm_num

/-- **the old rule stops at the identically vanishing term**: for `f = −1`, `x = y = 3/4` the loop of the code before 9562c37 returns the
    sum of the terms `m ≤ 3` although term 5 is not negligible -/
theorem dd2_old_rule_stops_early :
    DDatanhee2LoopOld (⟨1, -1⟩ : Ell ℝ) (1 / 4) (1 / 4) 400 (dd2State (-3) 4 (1 / 4) (1 / 4) 0 0) = dd2Sum (-3 : ℝ) 4 (1 / 4) (1 / 4) 3 ∧
      ¬ dd2Negl (-3 : ℝ) 4 (1 / 4) (1 / 4) 5 := by
  obtain ⟨he2, he2m⟩ := ell_minus_one
  obtain ⟨s3, s4, n1, n2, n3, n4, n5⟩ := dd2_minus_three_facts
  have he : (⟨1, -1⟩ : Ell ℝ).e2m ≠ 0 := by rw [he2m]; norm_num
  refine ⟨?_, n5⟩
  have st := dd2old_step (⟨1, -1⟩ : Ell ℝ) (1 / 4) (1 / 4) he
  rw [he2, he2m] at st
  simp only [dd2Negl, not_not] at n1 n2 n3
  rw [show (400 : ℕ) = 399 + 1 by norm_num, st 0 0 399, if_pos n1]
  rw [show (399 : ℕ) = 398 + 1 by norm_num, st 1 0 398, if_pos n2]
  rw [show (398 : ℕ) = 397 + 1 by norm_num, st 2 0 397, if_pos n3]
  rw [show (397 : ℕ) = 396 + 1 by norm_num, st 3 0 396, if_neg n4, s4, s3]

/-- **the repaired rule does not**: on the same input the loop of the code runs at least to term 6 -/
theorem dd2_new_rule_continues :
    ∃ M, 6 ≤ M ∧ DDatanhee2Loop (⟨1, -1⟩ : Ell ℝ) (1 / 4) (1 / 4) 400 (dd2State (-3) 4 (1 / 4) (1 / 4) 0 0) = dd2Sum (-3 : ℝ) 4 (1 / 4) (1 / 4) M := by
  obtain ⟨he2, he2m⟩ := ell_minus_one
  obtain ⟨s3, s4, n1, n2, n3, n4, n5⟩ := dd2_minus_three_facts
  have he : (⟨1, -1⟩ : Ell ℝ).e2m ≠ 0 := by rw [he2m]; norm_num
  have sp := dd2_loop_spec (⟨1, -1⟩ : Ell ℝ) (1 / 4) (1 / 4) he 400 0 0 (by omega)
  rw [he2, he2m] at sp
  obtain ⟨M, h1, h2, h3, h4⟩ := sp
  refine ⟨M, ?_, h3⟩
  rcases h4 with h4 | ⟨h5, h6, h7⟩
  · omega
  · by_contra hlt
    have hM : M ≤ 5 := by omega
    have hc : M = 1 ∨ M = 2 ∨ M = 3 ∨ M = 4 ∨ M = 5 := by omega
    rcases hc with rfl | rfl | rfl | rfl | rfl
    · simp at h7
    · exact n2 h6
    · exact n3 h6
    · simp only [show (4 : ℕ) ≠ 0 + 1 by norm_num, if_false] at h7; exact n3 h7
    · exact n5 h6
end GeoVerif.Proofs.ConicSeries
