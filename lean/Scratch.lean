import GeoVerif.Props.C07
open GeoVerif GeoVerif.Geocentric GeoVerif.GeocentricProofs GeoVerif.Props.C07
namespace T

/-- 2-D excess identity in the meridian plane -/
theorem merid_excess (a m N s c h x z : ℝ)
    (hu : s ^ 2 + c ^ 2 = 1) (hA : N ^ 2 * (c ^ 2 + m * s ^ 2) = a ^ 2)
    (hQ : x ^ 2 * m + z ^ 2 = a ^ 2 * m) :
    N * m * (((N + h) * c - x) ^ 2 + ((m * N + h) * s - z) ^ 2 - h ^ 2) =
      m * (N + h) * (x - N * c) ^ 2 + (m * N + h) * (z - m * N * s) ^ 2 := by
  linear_combination (N * h ^ 2 * m) * hu + (h * m) * hA + (-h) * hQ

/-- two `Merid` representations of the same meridian point, the first strictly on the near side: they coincide -/
theorem merid_unique (a f s c h s' c' h' R Z : ℝ) (ha : 0 < a) (hf : f < 1)
    (h1 : Merid a f s c h R Z) (h2 : Merid a f s' c' h' R Z)
    (hsR : 0 < a / Real.sqrt (1 - f * (2 - f) * s ^ 2) + h)
    (hsZ : 0 < (1 - f) ^ 2 * (a / Real.sqrt (1 - f * (2 - f) * s ^ 2)) + h) :
    s' = s ∧ c' = c ∧ h' = h := by
  have hm : 0 < (1 - f) ^ 2 := pow_pos (by linarith) 2
  obtain ⟨hN, hA⟩ := primeVertical a f s c ha hf h1.unit
  obtain ⟨hN', hA'⟩ := primeVertical a f s' c' ha hf h2.unit
  set N := a / Real.sqrt (1 - f * (2 - f) * s ^ 2) with hNd
  set N' := a / Real.sqrt (1 - f * (2 - f) * s' ^ 2) with hNd'
  set m := (1 - f) ^ 2 with hmd
  have c1R := h1.clR; have c1Z := h1.clZ; have c2R := h2.clR; have c2Z := h2.clZ
  -- the foot points are on the ellipse
  have hQ : (N * c) ^ 2 * m + (m * N * s) ^ 2 = a ^ 2 * m := by linear_combination m * hA
  have hQ' : (N' * c') ^ 2 * m + (m * N' * s') ^ 2 = a ^ 2 * m := by linear_combination m * hA'
  -- excess of the primed foot seen from the unprimed representation, and conversely
  have e1 := merid_excess a m N s c h (N' * c') (m * N' * s') h1.unit hA hQ'
  have e2 := merid_excess a m N' s' c' h' (N * c) (m * N * s) h2.unit hA' hQ
  -- distances: P − Q0' = h'(c', s'),  P − Q0 = h (c, s)
  have d1 : ((N + h) * c - N' * c') ^ 2 + ((m * N + h) * s - m * N' * s') ^ 2 = h' ^ 2 := by
    rw [c1R, c1Z, ← c2R, ← c2Z]; linear_combination (h' ^ 2) * h2.unit
  have d2 : ((N' + h') * c' - N * c) ^ 2 + ((m * N' + h') * s' - m * N * s) ^ 2 = h ^ 2 := by
    rw [c2R, c2Z, ← c1R, ← c1Z]; linear_combination (h ^ 2) * h1.unit
  rw [d1] at e1; rw [d2] at e2
  have p1 : 0 ≤ m * (N + h) * (N' * c' - N * c) ^ 2 + (m * N + h) * (m * N' * s' - m * N * s) ^ 2 := by
    have : 0 < m * (N + h) := mul_pos hm hsR
    positivity
  have p2 : 0 ≤ m * (N' + h') * (N * c - N' * c') ^ 2 + (m * N' + h') * (m * N * s - m * N' * s') ^ 2 := by
    have : 0 ≤ m * (N' + h') := mul_nonneg hm.le h2.sideR
    have := h2.sideZ
    positivity
  have hNm : 0 < N * m := by positivity
  have hNm' : 0 < N' * m := by positivity
  have g1 : 0 ≤ h' ^ 2 - h ^ 2 := by
    have : 0 ≤ N * m * (h' ^ 2 - h ^ 2) := by rw [e1]; exact p1
    exact nonneg_of_mul_nonneg_right this hNm
  have g2 : 0 ≤ h ^ 2 - h' ^ 2 := by
    have : 0 ≤ N' * m * (h ^ 2 - h' ^ 2) := by rw [e2]; exact p2
    exact nonneg_of_mul_nonneg_right this hNm'
  have hh : h' ^ 2 = h ^ 2 := by linarith
  -- so the excess vanishes: the foot points coincide
  have z1 : m * (N + h) * (N' * c' - N * c) ^ 2 + (m * N + h) * (m * N' * s' - m * N * s) ^ 2 = 0 := by
    rw [← e1, hh]; ring
  have hcpos : 0 < m * (N + h) := mul_pos hm hsR
  have t1 : 0 ≤ m * (N + h) * (N' * c' - N * c) ^ 2 := by positivity
  have t2 : 0 ≤ (m * N + h) * (m * N' * s' - m * N * s) ^ 2 := by positivity
  have q1 : (N' * c' - N * c) ^ 2 = 0 := by
    have : m * (N + h) * (N' * c' - N * c) ^ 2 = 0 := by linarith
    rcases mul_eq_zero.mp this with h0 | h0
    · exact absurd h0 hcpos.ne'
    · exact h0
  have q2 : (m * N' * s' - m * N * s) ^ 2 = 0 := by
    have : (m * N + h) * (m * N' * s' - m * N * s) ^ 2 = 0 := by linarith
    rcases mul_eq_zero.mp this with h0 | h0
    · exact absurd h0 hsZ.ne'
    · exact h0
  have r1 : N' * c' = N * c := by have := pow_eq_zero_iff (two_ne_zero) |>.mp q1; linarith
  have r2 : N' * s' = N * s := by
    have := pow_eq_zero_iff (two_ne_zero) |>.mp q2
    have : m * (N' * s' - N * s) = 0 := by linarith
    rcases mul_eq_zero.mp this with h0 | h0
    · exact absurd h0 hm.ne'
    · linarith
  have hNN : N' ^ 2 = N ^ 2 := by
    have e : N' ^ 2 = (N' * s') ^ 2 + (N' * c') ^ 2 := by linear_combination (-(N' ^ 2)) * h2.unit
    rw [e, r1, r2]; linear_combination (N ^ 2) * h1.unit
  have hNeq : N' = N := by
    have hz : (N' - N) * (N' + N) = 0 := by linear_combination hNN
    rcases mul_eq_zero.mp hz with h0 | h0
    · linarith
    · exfalso; linarith
  have hs : s' = s := by
    rw [hNeq] at r2; exact mul_left_cancel₀ hN.ne' r2
  have hc : c' = c := by
    rw [hNeq] at r1; exact mul_left_cancel₀ hN.ne' r1
  refine ⟨hs, hc, ?_⟩
  -- h' (c, s) = h (c, s)
  rw [hs] at c2R c2Z
  rw [hc] at c2R
  have k1 : (h' - h) * c = 0 := by linear_combination c2R - c1R
  have k2 : (h' - h) * s = 0 := by linear_combination c2Z - c1Z
  have : (h' - h) ^ 2 = 0 := by
    have : (h' - h) ^ 2 * (s ^ 2 + c ^ 2) = 0 := by
      have a1 : ((h' - h) * c) ^ 2 = 0 := by rw [k1]; ring
      have a2 : ((h' - h) * s) ^ 2 = 0 := by rw [k2]; ring
      linear_combination a1 + a2
    rw [h1.unit, mul_one] at this; exact this
  have := pow_eq_zero_iff (two_ne_zero) |>.mp this
  linarith
end T
