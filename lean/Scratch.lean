import GeoVerif.Series.GeodTrig
open GeoVerif.Series GeoVerif.Series.Geod
theorem t1 : checkC4 = true := by decide +kernel
