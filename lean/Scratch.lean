import GeoVerif.Proofs.Geocentric
open GeoVerif GeoVerif.Geocentric GeoVerif.GeocentricProofs
namespace T
noncomputable def revFar (X Y Z : ℝ) : Rev ℝ :=
  let R := Real.sqrt ((X / 2) ^ 2 + (Y / 2) ^ 2)
  let H := Real.sqrt ((Z / 2) ^ 2 + R ^ 2)
  ⟨Z / 2 / H, R / H, if R = 0 then 0 else Y / 2 / R, if R = 0 then 1 else X / 2 / R, Real.sqrt (Real.sqrt (X ^ 2 + Y ^ 2) ^ 2 + Z ^ 2)⟩

noncomputable def revSphere (a R Z slam clam : ℝ) : Rev ℝ :=
  let h0 := Real.sqrt (R ^ 2 + Z ^ 2)
  let zz := if h0 = 0 then 1 else Z
  let H := Real.sqrt (zz ^ 2 + R ^ 2)
  ⟨zz / H, R / H, slam, clam, h0 - a⟩

noncomputable def revGeneral (f R Z slam clam : ℝ) (kk : ℝ × ℝ) : Rev ℝ :=
  let H := Real.sqrt ((Z / kk.1) ^ 2 + (R / kk.2) ^ 2)
  ⟨Z / kk.1 / H, R / kk.2 / H, slam, clam, (1 - (1 - f) ^ 2 / kk.1) * Real.sqrt ((kk.1 * R / kk.2) ^ 2 + Z ^ 2)⟩

noncomputable def revSing (a f p Z slam clam : ℝ) : Rev ℝ :=
  let zz := Real.sqrt ((if f < 0 then p else (f * (2 - f)) ^ 2 - p) / (1 - f) ^ 2)
  let xx := Real.sqrt (if f < 0 then (f * (2 - f)) ^ 2 - p else p)
  let H := Real.sqrt (zz ^ 2 + xx ^ 2)
  ⟨if Z < 0 then -(zz / H) else zz / H, xx / H, slam, clam, -(a * (if f < 0 then 1 else (1 - f) ^ 2) * H / |f * (2 - f)|)⟩

theorem cond_iff (A B : Prop) [Decidable A] [Decidable B] : ((!(decide A && decide B)) = true) ↔ ¬(A ∧ B) := by
  by_cases hA : A <;> by_cases hB : B <;> simp [hA, hB]

theorem reverse_real (a f maxrad X Y Z : ℝ) :
    reverse (⟨a, f⟩ : Ell ℝ) maxrad X Y Z =
      let R := Real.sqrt (X ^ 2 + Y ^ 2)
      let slam := if R = 0 then 0 else Y / R
      let clam := if R = 0 then 1 else X / R
      let p0 := (R / a) ^ 2
      let q0 := (1 - f) ^ 2 * (Z / a) ^ 2
      let r := (p0 + q0 - (f * (2 - f)) ^ 2) / 6
      let p := if f < 0 then q0 else p0
      let q := if f < 0 then p0 else q0
      if maxrad < Real.sqrt (R ^ 2 + Z ^ 2) then revFar X Y Z
      else if (f * (2 - f)) ^ 2 = 0 then revSphere a R Z slam clam
      else if (!(decide ((f * (2 - f)) ^ 2 * q = 0) && decide (r ≤ 0))) = true then revGeneral f R Z slam clam (vermK ⟨a, f⟩ p q r (decide (f < 0)))
      else revSing a f p Z slam clam := by
  unfold reverse
  simp only [e4a, e2m, e2a, e2, sq_real, sqrt_real, hypot_real, ltb_real, leb_real, eqb_real, lit_real, ofNat_real, abs_real,
    decide_eq_true_eq]
  push_cast
  rfl
end T
