import GeoVerif.Proofs.Harmonic
open GeoVerif.Proofs.Harmonic
#print axioms ratio_legendre
#check @ratio_legendre
