import GeoVerif.Props.C07
open GeoVerif.Props.C07
#print axioms reverse_closes
#print axioms reverse_height_least
#print axioms reverse_farfield_bound
#print axioms reverseM_ranges
#print axioms reverseM_frame_is_enu
#check @reverse_height_least
