import GeoVerif.Series.AuxSeries
open GeoVerif.Series GeoVerif.Series.Aux GeoVerif.Gen.AuxSeries
#eval [checkCompose 3 1 0, checkCompose 3 1 2, checkCompose 4 0 1, checkCompose 4 0 2, checkCompose 4 1 3, checkCompose 5 0 1, checkCompose 5 0 2, checkCompose 5 1 3, checkCompose 5 0 4]
#eval (List.range 6).all fun a => (List.range 6).all fun b => (List.range 6).all fun c => a == b || b == c || a == c || checkCompose c b a
