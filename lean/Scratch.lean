import GeoVerif.Model.Overloads
open GeoVerif GeoVerif.Overloads GeoVerif.Gen.Overloads
#eval table.all rowOK
#eval (table.filter (fun r => !rowOK r)).map ovlId
#eval lineEnumsAgree
#eval table.map ovlId
theorem t1 : table.all rowOK = true := by decide
