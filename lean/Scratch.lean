#check @Zero
#check Float.scaleB
#check Float.floor
#check Float.toInt64
#check @Int.toNat
#check Float.ofInt
example : (Float.scaleB 1.0 (-614)) > 0 := by decide
