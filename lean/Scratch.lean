import GeoVerif.Proofs.LineState
import GeoVerif.Model.Overloads
namespace GeoVerif.Props.C12
open GeoVerif GeoVerif.Mask GeoVerif.LineState Gen.Mask

variable {α : Type}

/-! ### the third point of a line object: state machine over arbitrary histories -/

/-- **history independence**: after any history of setter and reader calls (and copies), the line object is in the state
    that a fresh line (same capabilities, third point never set) reaches from the *last* setter call alone; if no setter
    was called the state is unchanged -/
theorem history_independent (e : Enum) (K : Kern α) (st : St α) (h : List (Ev α)) :
    (run e K st h).1 = (match lastSet h with | none => st | some o => step e K (fresh K st.caps) o) :=
  run_state e K st h

/-- every value a reader returns in the course of a history is the value it returns on the line that has seen only the
    last setter call before it -/
theorem reader_history_independent (e : Enum) (K : Kern α) (st : St α) (h1 h2 : List (Ev α)) (r : Rd) :
    (run e K st (h1 ++ .get r :: h2)).2 =
      (run e K st h1).2 ++ read K (match lastSet h1 with | none => st | some o => step e K (fresh K st.caps) o) r ::
        (run e K (run e K st h1).1 h2).2 := by
  rw [run_append]; simp only [run]; rw [run_state]

/-- the capabilities never change -/
theorem caps_invariant (e : Enum) (K : Kern α) (st : St α) (h : List (Ev α)) : (run e K st h).1.caps = st.caps :=
  run_caps e K st h

/-- the two guards in terms of the capability bits the user passed to the constructor: a line can turn a distance into
    an arc iff it was given the `DISTANCE_IN` bit, and an arc into a distance iff it was given the `DISTANCE` bit -/
theorem guards_spec (e : Enum) (he : e = geod ∨ e = geodx) (caps : Nat) :
    canLocate e (lineCaps e caps) false = caps.testBit distanceInBit ∧
    canLocate e (lineCaps e caps) true = true ∧
    assignsS12 e (lineCaps e caps) = caps.testBit Out.s12.bit := by
  sorry

end GeoVerif.Props.C12
