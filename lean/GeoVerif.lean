-- Root of the `GeoVerif` library: imports everything so that `lake build` checks it all.
import GeoVerif.FP.Dy
import GeoVerif.FP.F64
import GeoVerif.Model.MathF
import GeoVerif.Corr.Proto
import GeoVerif.Corr.C16
import GeoVerif.Model.GridCodes
import GeoVerif.Corr.C18
import GeoVerif.Model.UTMUPS
import GeoVerif.Corr.C04
import GeoVerif.Model.MGRS
import GeoVerif.Corr.C05
import GeoVerif.Model.Polygon
import GeoVerif.Corr.C08
import GeoVerif.Proofs.Digits
import GeoVerif.Model.Geoid
import GeoVerif.Corr.C20
