import GeoVerif.Corr.Proto
import GeoVerif.Corr.All
/-!
`gvdriver corr` : reads protocol lines on stdin, prints one `bad …` line per
disagreement and a final `summary …` line.  Core Lean only (no Mathlib), so it
links as a native executable.
-/
open GeoVerif GeoVerif.Proto

def handlers : List (String → List String → List String → Option Verdict) := Corr.allHandlers

def dispatch (op : String) (args res : List String) : Verdict :=
  match handlers.findSome? (fun h => h op args res) with
  | some v => v
  | none => .bad s!"unknown op {op}"

structure Stats where
  n : Nat := 0
  ok : Nat := 0
  bad : Nat := 0
  skip : Nat := 0

partial def loop (h : IO.FS.Stream) (st : Stats) (lineNo : Nat) : IO Stats := do
  let line ← h.getLine
  if line.isEmpty then return st
  let l := line.trimAscii.toString
  if l.isEmpty || l.startsWith "#" then loop h st (lineNo + 1) else
  let toks := (l.splitOn " ").filter (· ≠ "")
  match toks with
  | [] => loop h st (lineNo + 1)
  | op :: rest =>
    let args := rest.takeWhile (· ≠ "|")
    let res := (rest.dropWhile (· ≠ "|")).drop 1
    match dispatch op args res with
    | .ok => loop h { st with n := st.n + 1, ok := st.ok + 1 } (lineNo + 1)
    | .skip _ => loop h { st with n := st.n + 1, skip := st.skip + 1 } (lineNo + 1)
    | .bad msg =>
      IO.println s!"bad line={lineNo} {msg} :: {l}"
      loop h { st with n := st.n + 1, bad := st.bad + 1 } (lineNo + 1)

def main (args : List String) : IO UInt32 := do
  match args with
  | ["corr"] =>
    let st ← loop (← IO.getStdin) {} 1
    IO.println s!"summary ops={st.n} ok={st.ok} bad={st.bad} skipped={st.skip}"
    return (if st.bad == 0 then 0 else 3)
  | _ =>
    IO.eprintln "usage: gvdriver corr < lines"
    return 2
