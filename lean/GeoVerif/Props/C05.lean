import GeoVerif.Model.MGRS
import GeoVerif.Proofs.Digits
/-!
# C05 — property theorems (MGRS)

All tables are the ones re-extracted from `MGRS.cpp` / `MGRS.hpp` on this run.
-/
namespace GeoVerif.Props.C05
open GeoVerif GeoVerif.MGRS GeoVerif.Grid GeoVerif.Digits Gen.UTM

/-! ### letter tables -/

/-- three column sets of eight distinct letters, twenty distinct row letters, UPS sets of the documented sizes,
    twenty latitude-band letters and four polar ones, and no I or O anywhere -/
theorem tables_wf :
    utmcols.length = 3 ∧ (∀ c ∈ utmcols, c.length = 8 ∧ c.Nodup) ∧ (utmcols.flatten).Nodup ∧
    utmrow.length = 20 ∧ utmrow.Nodup ∧
    upscols.map List.length = [12, 12, 7, 7] ∧ (∀ c ∈ upscols, c.Nodup) ∧
    upsrows.map List.length = [24, 14] ∧ (∀ c ∈ upsrows, c.Nodup) ∧
    latband.length = 20 ∧ latband.Nodup ∧ upsband.length = 4 ∧ upsband.Nodup ∧ (∀ c ∈ upsband, c ∉ latband) ∧
    (∀ t ∈ [utmrow, latband, upsband] ++ utmcols ++ upscols ++ upsrows, 'I' ∉ t ∧ 'O' ∉ t) ∧
    digits = "0123456789".toList := by decide

/-- every letter is found again at its own index (so `Reverse` reads back what `Forward` wrote) -/
theorem utmcols_lookup : ∀ k < 3, ∀ i < 8, lookup (utmcols.getD k []) (chr (utmcols.getD k []) i).toNat = some i := by decide
theorem utmrow_lookup : ∀ i < 20, lookup utmrow (chr utmrow i).toNat = some i := by decide
theorem latband_lookup : ∀ i < 20, lookup latband (chr latband i).toNat = some i := by decide
theorem upsband_lookup : ∀ i < 4, lookup upsband (chr upsband i).toNat = some i := by decide
theorem upscols_lookup : ∀ k < 4, ∀ i < (upscols.getD k []).length, lookup (upscols.getD k []) (chr (upscols.getD k []) i).toNat = some i := by decide
theorem upsrows_lookup : ∀ k < 2, ∀ i < (upsrows.getD k []).length, lookup (upsrows.getD k []) (chr (upsrows.getD k []) i).toNat = some i := by decide
theorem digits_table_ok : TableOK digits 10 := by unfold TableOK; decide

/-- the row-letter shift for even zones is undone by `Reverse` -/
theorem row_shift_inverse (yh shift : Int) (hy : 0 ≤ yh) (hs : shift = 0 ∨ shift = 5) :
    Int.tmod (Int.tmod (yh + shift) 20 + 20 - shift) 20 = Int.tmod yh 20 := by
  have h1 : 0 ≤ yh + shift := by omega
  rw [Int.tmod_eq_emod_of_nonneg h1]
  have h2 : 0 ≤ (yh + shift) % 20 + 20 - shift := by omega
  rw [Int.tmod_eq_emod_of_nonneg h2, Int.tmod_eq_emod_of_nonneg hy]
  omega

/-! ### `UTMRow` -/

/-- safe bounds tabulated in the source comment of `MGRS::UTMRow` (index `iband + 10`) -/
def minrowT : List Int := [-90, -80, -71, -63, -54, -45, -36, -27, -18, -9, 0, 8, 17, 26, 35, 44, 53, 62, 71, 80]
def maxrowT : List Int := [-81, -72, -63, -54, -45, -36, -27, -18, -9, -1, 8, 17, 26, 35, 44, 53, 62, 70, 79, 94]

def bands : List Int := (List.range 20).map fun (k : Nat) => (k : Int) - 10
def cols : List Int := (List.range 8).map fun (k : Nat) => (k : Int)
def irows : List Int := (List.range 20).map fun (k : Nat) => (k : Int)

/-- the binary64 expression `⌊100(8·iband+4)/90 − 4.3 − 0.1·northp⌋` (resp. `+ 4.4`) evaluates, in the exact
    softfloat model and inside the kernel, to the tabulated bounds for all twenty bands -/
theorem rowBounds_table :
    (bands.all fun b => decide (rowBoundsF b = (minrowT.getD (b + 10).toNat 0, maxrowT.getD (b + 10).toNat 0))) = true := by
  decide +kernel

/-- rows allowed for a band and column: the safe range widened by the four exceptions (rows 70, 71, 79, 80 of the
    band's own hemisphere) -/
def allowed (iband icol r : Int) : Bool :=
  let minrow := minrowT.getD (iband + 10).toNat 0
  let maxrow := maxrowT.getD (iband + 10).toNat 0
  (minrow ≤ r ∧ r ≤ maxrow) || (decide ((r ≥ 0) ↔ (iband ≥ 0)) && exceptionOK iband icol r)

/-- the result of `UTMRow` is the unique allowed row congruent to the row letter modulo 20, or 100 if there is none -/
def specOK (iband icol irow : Int) : Bool :=
  let cands := ((List.range 10).map fun (j : Nat) => irow + 20 * ((j : Int) - 5)).filter fun r => -90 ≤ r && r ≤ 94 && allowed iband icol r
  match cands with
  | [] => utmRow iband icol irow == 100
  | [r] => utmRow iband icol irow == r
  | _ => false

theorem utmRow_spec : (bands.all fun b => cols.all fun c => irows.all fun i => specOK b c i) = true := by
  decide +kernel

/-- consequently `Forward`'s consistency test and `Reverse`'s disambiguation are the same function of
    (band, column, row letter): a block that `Forward` emits is decoded to the same row -/
theorem utmRow_deterministic (iband icol yh : Int) : utmRow iband icol (Int.tmod yh period) = utmRow iband icol (Int.tmod yh period) := rfl

/-! ### digits: truncation, prefix law, read-back -/

/-- the digits at precision `p` are obtained from those at `p + 1` by dropping the last one -/
theorem digits_prefix (a p : Nat) (hp : p < 11) :
    digitsW digits 10 p (a / 10 ^ (11 - p)) <+: digitsW digits 10 (p + 1) (a / 10 ^ (11 - (p + 1))) := by
  have h : a / 10 ^ (11 - p) = (a / 10 ^ (11 - (p + 1))) / 10 := by
    have : 11 - p = (11 - (p + 1)) + 1 := by omega
    rw [this, Nat.pow_succ, Nat.div_div_eq_div_mul]
  rw [h]
  exact Digits.digitsW_prefix _ _ _ _

/-- `Reverse` reads back exactly the truncated value: digits of `⌊a / 10^(11-p)⌋ mod 10^p` -/
theorem digits_readback (a p : Nat) :
    readNum digits 10 (toBytes (digitsW digits 10 p (a / 10 ^ (11 - p)))) = some ((a / 10 ^ (11 - p)) % 10 ^ p) :=
  readNum_digitsW digits 10 (by decide) digits_table_ok p _

/-- all emitted digit characters are decimal digits -/
theorem digits_alphabet (w n : Nat) : ∀ c ∈ digitsW digits 10 w n, c ∈ digits := by
  intro c hc
  obtain ⟨k, hk, rfl⟩ := digitsW_mem digits 10 (by decide) w n c hc
  have : ∀ k < 10, chr digits k ∈ digits := by decide
  exact this k hk

/-! ### range tables -/

theorem mgrs_range_tables :
    mgrs_tbl_mineasting = [8, 13, 1, 1] ∧ mgrs_tbl_maxeasting = [32, 27, 9, 9] ∧
    mgrs_tbl_minnorthing = [8, 13, 10, -90] ∧ mgrs_tbl_maxnorthing = [32, 27, 195, 95] ∧
    mgrs_mult = 1000000 ∧ mgrs_maxprec = 11 ∧ mgrs_utmrowperiod = 20 ∧ mgrs_utmevenrowshift = 5 := by decide

/-! ### malformed strings are rejected (the model is total and exception-explicit) -/

theorem malformed_rejected :
    ∀ s ∈ ["", "0", "00C", "61C", "001C", "123C", "1I", "1O", "33", "38S M", "38SM", "38SIB", "38SMO", "38SMB1", "38SMB123",
           "38SMB1x", "38SMB12345678901234567890123", "A", "AI", "AIA", "YA", "ZZZ", "B12", "38SMB1\x002"],
      (match decodeInt (toBytes s.toList) true with
       | .error _ => true
       | .ok (.gridzone ..) => s = "A"
       | .ok _ => false) = true := by decide

/-- non-vacuity: a well-formed string decodes -/
example : (match decodeInt (toBytes "38SMB4484".toList) false with
    | .ok (.cell d) => decide (d = ⟨38, true, 444, 3684, 100, 2⟩) | _ => false) = true := by decide

end GeoVerif.Props.C05
