import GeoVerif.Model.MGRS
import GeoVerif.Proofs.Digits
import Mathlib.Tactic.SplitIfs
import GeoVerif.Props.C04
import GeoVerif.Proofs.F64Div
import Mathlib.Tactic.Linarith
import Mathlib.Tactic.NormNum
/-!
# C05 — property theorems (MGRS)

All tables are the ones re-extracted from `MGRS.cpp` / `MGRS.hpp` on this run.
-/
namespace GeoVerif.Props.C05
open GeoVerif GeoVerif.MGRS GeoVerif.Grid GeoVerif.Digits Gen.UTM

/-! ### letter tables -/

/-- three column sets of eight distinct letters, twenty distinct row letters, UPS sets of the documented sizes,
    twenty latitude-band letters and four polar ones, and no I or O anywhere -/
theorem tables_wf :
    utmcols.length = 3 ∧ (∀ c ∈ utmcols, c.length = 8 ∧ c.Nodup) ∧ (utmcols.flatten).Nodup ∧
    utmrow.length = 20 ∧ utmrow.Nodup ∧
    upscols.map List.length = [12, 12, 7, 7] ∧ (∀ c ∈ upscols, c.Nodup) ∧
    upsrows.map List.length = [24, 14] ∧ (∀ c ∈ upsrows, c.Nodup) ∧
    latband.length = 20 ∧ latband.Nodup ∧ upsband.length = 4 ∧ upsband.Nodup ∧ (∀ c ∈ upsband, c ∉ latband) ∧
    (∀ t ∈ [utmrow, latband, upsband] ++ utmcols ++ upscols ++ upsrows, 'I' ∉ t ∧ 'O' ∉ t) ∧
    digits = "0123456789".toList := by decide

/-- every letter is found again at its own index (so `Reverse` reads back what `Forward` wrote) -/
theorem utmcols_lookup : ∀ k < 3, ∀ i < 8, lookup (utmcols.getD k []) (chr (utmcols.getD k []) i).toNat = some i := by decide
theorem utmrow_lookup : ∀ i < 20, lookup utmrow (chr utmrow i).toNat = some i := by decide
theorem latband_lookup : ∀ i < 20, lookup latband (chr latband i).toNat = some i := by decide
theorem upsband_lookup : ∀ i < 4, lookup upsband (chr upsband i).toNat = some i := by decide
theorem upscols_lookup : ∀ k < 4, ∀ i < (upscols.getD k []).length, lookup (upscols.getD k []) (chr (upscols.getD k []) i).toNat = some i := by decide
theorem upsrows_lookup : ∀ k < 2, ∀ i < (upsrows.getD k []).length, lookup (upsrows.getD k []) (chr (upsrows.getD k []) i).toNat = some i := by decide
theorem digits_table_ok : TableOK digits 10 := by unfold TableOK; decide

/-- the row-letter shift for even zones is undone by `Reverse` -/
theorem row_shift_inverse (yh shift : Int) (hy : 0 ≤ yh) (hs : shift = 0 ∨ shift = 5) :
    Int.tmod (Int.tmod (yh + shift) 20 + 20 - shift) 20 = Int.tmod yh 20 := by
  have h1 : 0 ≤ yh + shift := by omega
  rw [Int.tmod_eq_emod_of_nonneg h1]
  have h2 : 0 ≤ (yh + shift) % 20 + 20 - shift := by omega
  rw [Int.tmod_eq_emod_of_nonneg h2, Int.tmod_eq_emod_of_nonneg hy]
  omega

/-! ### `UTMRow` -/

/-- safe bounds tabulated in the source comment of `MGRS::UTMRow` (index `iband + 10`) -/
def minrowT : List Int := [-90, -80, -71, -63, -54, -45, -36, -27, -18, -9, 0, 8, 17, 26, 35, 44, 53, 62, 71, 80]
def maxrowT : List Int := [-81, -72, -63, -54, -45, -36, -27, -18, -9, -1, 8, 17, 26, 35, 44, 53, 62, 70, 79, 94]

def bands : List Int := (List.range 20).map fun (k : Nat) => (k : Int) - 10
def cols : List Int := (List.range 8).map fun (k : Nat) => (k : Int)
def irows : List Int := (List.range 20).map fun (k : Nat) => (k : Int)

/-- the binary64 expression `⌊100(8·iband+4)/90 − 4.3 − 0.1·northp⌋` (resp. `+ 4.4`) evaluates, in the exact
    softfloat model and inside the kernel, to the tabulated bounds for all twenty bands -/
theorem rowBounds_table :
    (bands.all fun b => decide (rowBoundsF b = (minrowT.getD (b + 10).toNat 0, maxrowT.getD (b + 10).toNat 0))) = true := by
  decide +kernel

/-- rows allowed for a band and column: the safe range widened by the four exceptions (rows 70, 71, 79, 80 of the
    band's own hemisphere) -/
def allowed (iband icol r : Int) : Bool :=
  let minrow := minrowT.getD (iband + 10).toNat 0
  let maxrow := maxrowT.getD (iband + 10).toNat 0
  (minrow ≤ r ∧ r ≤ maxrow) || (decide ((r ≥ 0) ↔ (iband ≥ 0)) && exceptionOK iband icol r)

/-- the result of `UTMRow` is the unique allowed row congruent to the row letter modulo 20, or 100 if there is none -/
def specOK (iband icol irow : Int) : Bool :=
  let cands := ((List.range 10).map fun (j : Nat) => irow + 20 * ((j : Int) - 5)).filter fun r => -90 ≤ r && r ≤ 94 && allowed iband icol r
  match cands with
  | [] => utmRow iband icol irow == 100
  | [r] => utmRow iband icol irow == r
  | _ => false

theorem utmRow_spec : (bands.all fun b => cols.all fun c => irows.all fun i => specOK b c i) = true := by
  decide +kernel

/-- consequently `Forward`'s consistency test and `Reverse`'s disambiguation are the same function of
    (band, column, row letter): a block that `Forward` emits is decoded to the same row -/
theorem utmRow_deterministic (iband icol yh : Int) : utmRow iband icol (Int.tmod yh period) = utmRow iband icol (Int.tmod yh period) := rfl

/-! ### digits: truncation, prefix law, read-back -/

/-- the digits at precision `p` are obtained from those at `p + 1` by dropping the last one -/
theorem digits_prefix (a p : Nat) (hp : p < 11) :
    digitsW digits 10 p (a / 10 ^ (11 - p)) <+: digitsW digits 10 (p + 1) (a / 10 ^ (11 - (p + 1))) := by
  have h : a / 10 ^ (11 - p) = (a / 10 ^ (11 - (p + 1))) / 10 := by
    have : 11 - p = (11 - (p + 1)) + 1 := by omega
    rw [this, Nat.pow_succ, Nat.div_div_eq_div_mul]
  rw [h]
  exact Digits.digitsW_prefix _ _ _ _

/-- `Reverse` reads back exactly the truncated value: digits of `⌊a / 10^(11-p)⌋ mod 10^p` -/
theorem digits_readback (a p : Nat) :
    readNum digits 10 (toBytes (digitsW digits 10 p (a / 10 ^ (11 - p)))) = some ((a / 10 ^ (11 - p)) % 10 ^ p) :=
  readNum_digitsW digits 10 (by decide) digits_table_ok p _

/-- all emitted digit characters are decimal digits -/
theorem digits_alphabet (w n : Nat) : ∀ c ∈ digitsW digits 10 w n, c ∈ digits := by
  intro c hc
  obtain ⟨k, hk, rfl⟩ := digitsW_mem digits 10 (by decide) w n c hc
  have : ∀ k < 10, chr digits k ∈ digits := by decide
  exact this k hk

/-! ### `reverse_forward` on the integer level (UTM zones): `Reverse ∘ Forward` for all zones, bands, precisions -/

/-- `Reverse` on a well-formed UTM string, given what its pieces look up to -/
theorem decode_utm (s : List Nat) (cp : Bool) (c1 c2 d1 d2 kb kc kr prec ex ny : Nat) (R : Int)
    (hinv : (decide (s.length ≥ 3) && (s.take 3).map upper == [73, 78, 86]) = false)
    (hds : (s.takeWhile (fun c => (lookup digits c).isSome)).take 3 = [c1, c2])
    (hd1 : lookup digits c1 = some d1) (hd2 : lookup digits c2 = some d2)
    (hz : 1 ≤ 10 * d1 + d2 ∧ 10 * d1 + d2 ≤ 60)
    (hlen : s.length = 5 + 2 * prec) (hprec : prec ≤ 11)
    (hband : lookup latband (s.getD 2 0) = some kb)
    (hcol : lookup (utmcols.getD (Int.tmod ((10 * d1 + d2 : Nat) - 1 : Int) 3).toNat []) (s.getD 3 0) = some kc)
    (hrow : lookup utmrow (s.getD 4 0) = some kr)
    (hR : utmRow ((kb:Int) - 10) kc
        (if ((10 * d1 + d2 : Nat) - 1 : Int) % 2 = 1 then Int.tmod ((kr:Int) + period - mgrs_utmevenrowshift) period else kr) = R)
    (hR100 : R ≠ maxS)
    (heast : readNum digits 10 ((s.drop 5).take prec) = some ex)
    (hnorth : readNum digits 10 ((s.drop (5 + prec)).take prec) = some ny) :
    decodeInt s cp = .ok (.cell
      ⟨(10 * d1 + d2 : Nat), decide ((kb:Int) ≥ 10),
       (if cp then 2 * (((kc:Int) + 1) * 10 ^ prec + ex) + 1 else ((kc:Int) + 1) * 10 ^ prec + ex),
       (if cp then 2 * ((if (kb:Int) ≥ 10 then R else R + 100) * 10 ^ prec + ny) + 1
          else (if (kb:Int) ≥ 10 then R else R + 100) * 10 ^ prec + ny),
       (if cp then 10 ^ prec * 2 else 10 ^ prec), prec⟩) := by
  have hzone : List.foldl (fun (a : Int) c => 10 * a + ((lookup digits c).getD 0 : Nat)) 0 [c1, c2] = ((10 * d1 + d2 : Nat) : Int) := by
    simp [hd1, hd2]
  have z1 : ¬ (((10 * d1 + d2 : Nat) : Int) = zUPS) := by
    show ¬ (((10 * d1 + d2 : Nat) : Int) = 0); omega
  have z2 : ((10 * d1 + d2 : Nat) : Int) ≥ zMINUTMZONE ∧ ((10 * d1 + d2 : Nat) : Int) ≤ zMAXUTMZONE := by
    show ((10 * d1 + d2 : Nat) : Int) ≥ 1 ∧ ((10 * d1 + d2 : Nat) : Int) ≤ 60; omega
  have l1 : ¬ (5 + 2 * prec < 2 + 1) := by omega
  have l2 : ¬ (2 + 1 = 5 + 2 * prec) := by omega
  have l3 : ¬ (5 + 2 * prec < 2 + 1 + 2) := by omega
  have l4 : (5 + 2 * prec - (2 + 1 + 2)) / 2 = prec := by omega
  have l5 : ¬ ((5 + 2 * prec - (2 + 1 + 2)) % 2 = 1) := by omega
  have l6 : ¬ ((prec : Int) > mgrs_maxprec) := by show ¬ ((prec:Int) > 11); omega
  have z1' : ¬ (10 * (d1:Int) + d2 = zUPS) := by push_cast at z1; exact z1
  have z2' : ¬ (10 * (d1:Int) + d2 < zMINUTMZONE ∨ zMAXUTMZONE < 10 * (d1:Int) + d2) := by push_cast at z2; omega
  push_cast at hcol hR
  simp only [List.getD_eq_getElem?_getD] at hband hcol hrow
  have hinv' : ¬ (3 ≤ 5 + 2 * prec ∧ List.take 3 (List.map upper s) = [73, 78, 86]) := by
    intro h
    rw [hlen] at hinv
    simp [List.map_take, h.2] at hinv
    omega
  unfold decodeInt
  simp only [hds, hlen, hzone, List.length_cons, List.length_nil, Nat.zero_add]
  simp [z1', z2', hinv', l1, l2, l3, l6, hband, hcol, hrow, hR, hR100, heast, hnorth]
  cases cp <;> rfl

/-- the UTM string written by `MGRS::Forward` (integer level) -/
def utmString (zone : Int) (ix iy iband : Int) (prec : Nat) : List Char :=
  let m : Int := 100000000000
  let xh := ix / m
  let yh := iy / m
  let d : Int := 10 ^ (11 - prec)
  [chr digits (zone / 10).toNat, chr digits (zone % 10).toNat,
   chr latband (10 + iband).toNat,
   chr (utmcols.getD ((zone - 1) % 3).toNat []) (xh - 1).toNat,
   chr utmrow ((yh + (if (zone - 1) % 2 = 1 then 5 else 0)) % 20).toNat] ++
  digitsW digits 10 prec ((ix - m * xh) / d).toNat ++ digitsW digits 10 prec ((iy - m * yh) / d).toNat

theorem encodeInt_utm (zone : Int) (hz : 1 ≤ zone ∧ zone ≤ 60) (northp : Bool) (ix iy : Int) (hix : 0 ≤ ix) (hiy : 0 ≤ iy)
    (iband : Int) (prec : Nat) (hprec : prec ≤ 11)
    (hrow : utmRow iband (ix / 100000000000 - 1) (iy / 100000000000 % 20) =
      iy / 100000000000 - (if northp then 0 else 100)) :
    encodeInt zone northp ix iy iband prec = .ok (utmString zone ix iy iband prec) := by
  have hz0 : zone ≠ 0 := by omega
  have e1 : Int.tdiv ix 100000000000 = ix / 100000000000 := Int.tdiv_eq_ediv_of_nonneg hix
  have e2 : Int.tdiv iy 100000000000 = iy / 100000000000 := Int.tdiv_eq_ediv_of_nonneg hiy
  have hmt : mgrs_mult * tile = 100000000000 := by decide
  have hper : period = 20 := rfl
  have yh0 : 0 ≤ iy / 100000000000 := Int.ediv_nonneg hiy (by omega)
  have t1 : (zone - 1).tmod 3 = (zone - 1) % 3 := Int.tmod_eq_emod_of_nonneg (by omega)
  have t2 : (iy / 100000000000).tmod 20 = iy / 100000000000 % 20 := Int.tmod_eq_emod_of_nonneg yh0
  have t3 : ∀ sh : Int, 0 ≤ sh → (iy / 100000000000 + sh).tmod 20 = (iy / 100000000000 + sh) % 20 :=
    fun sh h => Int.tmod_eq_emod_of_nonneg (by omega)
  have t4 : zone.tdiv 10 = zone / 10 := Int.tdiv_eq_ediv_of_nonneg (by omega)
  have t5 : zone.tmod 10 = zone % 10 := Int.tmod_eq_emod_of_nonneg (by omega)
  have r0 : 0 ≤ ix - 100000000000 * (ix / 100000000000) := by omega
  have r1 : 0 ≤ iy - 100000000000 * (iy / 100000000000) := by omega
  have hmp : (mgrs_maxprec - (prec:Int)).toNat = 11 - prec := by show ((11:Int) - prec).toNat = _; omega
  have t6 : ∀ d : Int, (ix - 100000000000 * (ix / 100000000000)).tdiv d = (ix - 100000000000 * (ix / 100000000000)) / d :=
    fun d => Int.tdiv_eq_ediv_of_nonneg r0
  have t7 : ∀ d : Int, (iy - 100000000000 * (iy / 100000000000)).tdiv d = (iy - 100000000000 * (iy / 100000000000)) / d :=
    fun d => Int.tdiv_eq_ediv_of_nonneg r1
  have t3' : (iy / 100000000000 + (if (zone - 1) % 2 = 1 then mgrs_utmevenrowshift else 0)).tmod 20
      = (iy / 100000000000 + (if (zone - 1) % 2 = 1 then 5 else 0)) % 20 := by
    by_cases h : (zone - 1) % 2 = 1
    · simp only [h, if_true]; exact t3 5 (by omega)
    · simp only [h, if_false]; exact t3 0 (by omega)
  have hrow' : utmRow iband (ix / 100000000000 - mgrs_minutmcol) (iy / 100000000000 % 20) =
      iy / 100000000000 - (if northp = true then mgrs_minutmNrow else mgrs_maxutmSrow) := hrow
  unfold encodeInt
  simp only [hz0, ne_eq, not_false_eq_true, if_true, hmt, e1, e2, hper, t1, t2, t3', t4, t5, t6, t7, hrow', not_true_eq_false,
    if_false, mgrs_base, hmp, Int.toNat_natCast, pure_bind]
  show Except.ok _ = Except.ok _
  congr 1
  rw [List.take_of_length_le]
  · unfold utmString
    simp only [mgrs_minutmcol]
    by_cases hp0 : prec = 0
    · subst hp0; simp [digitsW]
    · have : (prec : Int) > 0 := by omega
      simp only [this, if_true, List.cons_append, List.nil_append]
  · by_cases hp0 : prec = 0
    · subst hp0; simp
    · have : (prec : Int) > 0 := by omega
      simp only [this, if_true, List.length_append, List.length_cons, List.length_nil, digitsW_length]
      omega

theorem digit_not_I : ∀ k < 10, upper (chr digits k).toNat ≠ 73 := by decide
theorem band_not_digit : ∀ k < 20, lookup digits (chr latband k).toNat = none := by decide
theorem digit_is_digit : ∀ k < 10, (lookup digits (chr digits k).toNat).isSome = true := by decide


theorem zone_facts (zone : Int) (hz : 1 ≤ zone ∧ zone ≤ 60) :
    (zone / 10).toNat < 10 ∧ (zone % 10).toNat < 10 ∧ ((zone - 1) % 3).toNat < 3 ∧
    (((10 * (zone / 10).toNat + (zone % 10).toNat : Nat)) : Int) = zone ∧
    (1 ≤ 10 * (zone / 10).toNat + (zone % 10).toNat ∧ 10 * (zone / 10).toNat + (zone % 10).toNat ≤ 60) ∧
    0 ≤ zone - 1 := by omega

theorem band_facts (iband : Int) (hib : -10 ≤ iband ∧ iband < 10) :
    (10 + iband).toNat < 20 ∧ (((10 + iband).toNat : Nat) : Int) - 10 = iband ∧
    (((((10 + iband).toNat : Nat) : Int) ≥ 10) ↔ (iband ≥ 0)) := by omega

theorem col_facts (xh : Int) (hxh : 1 ≤ xh ∧ xh ≤ 8) :
    (xh - 1).toNat < 8 ∧ (((xh - 1).toNat : Nat) : Int) = xh - 1 := by omega

theorem row_facts (yh zone : Int) (_h0 : 0 ≤ yh) :
    ((yh + (if (zone - 1) % 2 = 1 then 5 else 0)) % 20).toNat < 20 ∧
    (if (zone - 1) % 2 = 1
      then Int.tmod (((((yh + (if (zone - 1) % 2 = 1 then 5 else 0)) % 20).toNat : Nat) : Int) + 20 - 5) 20
      else ((((yh + (if (zone - 1) % 2 = 1 then 5 else 0)) % 20).toNat : Nat) : Int)) = yh % 20 := by
  by_cases h : (zone - 1) % 2 = 1
  · simp only [h, if_true]
    have : ((((yh + 5) % 20).toNat : Nat) : Int) = (yh + 5) % 20 := by omega
    rw [this, Int.tmod_eq_emod_of_nonneg (by omega)]
    omega
  · simp only [h, if_false]
    omega

/-- **`reverse_forward` on the integer level, UTM zones** (all zones, bands, precisions, `centerp`).
If the latitude band is consistent with the northing row (`hrow`, the test `Forward` itself makes), `Forward` writes
`utmString` and `Reverse` of it returns the zone, the hemisphere of the band, the precision, and tile + digits of the
same 100 km square: easting `⌊ix / 10^(11−prec)⌋`, northing `(row)·10^prec + digits` where `row` is the northing tile
re-expressed in the band's hemisphere (folding by 100 tiles = 10 000 km). -/
theorem reverse_forward_utm (zone : Int) (hz : 1 ≤ zone ∧ zone ≤ 60) (northp : Bool) (ix iy : Int) (hix : 0 ≤ ix) (hiy : 0 ≤ iy)
    (iband : Int) (hib : -10 ≤ iband ∧ iband < 10) (prec : Nat) (hprec : prec ≤ 11)
    (hxh : 1 ≤ ix / 100000000000 ∧ ix / 100000000000 ≤ 8)
    (hrow : utmRow iband (ix / 100000000000 - 1) (iy / 100000000000 % 20) =
      iy / 100000000000 - (if northp then 0 else 100))
    (hR : iy / 100000000000 - (if northp then 0 else 100) ≠ 100) (cp : Bool) :
    encodeInt zone northp ix iy iband prec = .ok (utmString zone ix iy iband prec) ∧
    decodeInt (toBytes (utmString zone ix iy iband prec)) cp =
      let d : Int := 10 ^ (11 - prec)
      let R := iy / 100000000000 - (if northp then 0 else 100)
      let x1 := (ix / 100000000000) * 10 ^ prec + (ix - 100000000000 * (ix / 100000000000)) / d
      let y1 := (if iband ≥ 0 then R else R + 100) * 10 ^ prec + (iy - 100000000000 * (iy / 100000000000)) / d
      .ok (.cell ⟨zone, decide (iband ≥ 0), if cp then 2 * x1 + 1 else x1, if cp then 2 * y1 + 1 else y1,
        if cp then 10 ^ prec * 2 else 10 ^ prec, prec⟩) := by
  refine ⟨encodeInt_utm zone hz northp ix iy hix hiy iband prec hprec hrow, ?_⟩
  have yh0 : 0 ≤ iy / 100000000000 := Int.ediv_nonneg hiy (by omega)
  have r0 : 0 ≤ ix - 100000000000 * (ix / 100000000000) ∧ ix - 100000000000 * (ix / 100000000000) < 100000000000 := by omega
  have r1 : 0 ≤ iy - 100000000000 * (iy / 100000000000) ∧ iy - 100000000000 * (iy / 100000000000) < 100000000000 := by omega
  have hdpos : (0:Int) < 10 ^ (11 - prec) := Int.pow_pos (by omega)
  have hpw : (10:Int) ^ prec * 10 ^ (11 - prec) = 100000000000 := by
    rw [← Int.pow_add, show prec + (11 - prec) = 11 by omega]; decide
  have hdxlt : (ix - 100000000000 * (ix / 100000000000)) / 10 ^ (11 - prec) < 10 ^ prec :=
    Int.ediv_lt_of_lt_mul hdpos (by rw [hpw]; exact r0.2)
  have hdylt : (iy - 100000000000 * (iy / 100000000000)) / 10 ^ (11 - prec) < 10 ^ prec :=
    Int.ediv_lt_of_lt_mul hdpos (by rw [hpw]; exact r1.2)
  have hdx0 : 0 ≤ (ix - 100000000000 * (ix / 100000000000)) / 10 ^ (11 - prec) := Int.ediv_nonneg r0.1 (Int.le_of_lt hdpos)
  have hdy0 : 0 ≤ (iy - 100000000000 * (iy / 100000000000)) / 10 ^ (11 - prec) := Int.ediv_nonneg r1.1 (Int.le_of_lt hdpos)
  obtain ⟨dx, hdx⟩ : ∃ dx, dx = (ix - 100000000000 * (ix / 100000000000)) / 10 ^ (11 - prec) := ⟨_, rfl⟩
  obtain ⟨dy, hdy⟩ : ∃ dy, dy = (iy - 100000000000 * (iy / 100000000000)) / 10 ^ (11 - prec) := ⟨_, rfl⟩
  rw [← hdx] at hdxlt hdx0
  rw [← hdy] at hdylt hdy0
  have hdxN : dx.toNat < 10 ^ prec := by
    have : ((dx.toNat : Nat) : Int) < ((10 ^ prec : Nat) : Int) := by
      rw [Int.toNat_of_nonneg hdx0]; exact_mod_cast hdxlt
    exact_mod_cast this
  have hdyN : dy.toNat < 10 ^ prec := by
    have : ((dy.toNat : Nat) : Int) < ((10 ^ prec : Nat) : Int) := by
      rw [Int.toNat_of_nonneg hdy0]; exact_mod_cast hdylt
    exact_mod_cast this
  -- the byte string in cons form
  have hS : toBytes (utmString zone ix iy iband prec) =
      (chr digits (zone / 10).toNat).toNat :: (chr digits (zone % 10).toNat).toNat ::
      (chr latband (10 + iband).toNat).toNat ::
      (chr (utmcols.getD ((zone - 1) % 3).toNat []) (ix / 100000000000 - 1).toNat).toNat ::
      (chr utmrow ((iy / 100000000000 + (if (zone - 1) % 2 = 1 then 5 else 0)) % 20).toNat).toNat ::
      (toBytes (digitsW digits 10 prec dx.toNat) ++ toBytes (digitsW digits 10 prec dy.toNat)) := by
    simp only [utmString, toBytes, List.map_append, List.map_cons, List.map_nil, List.cons_append, List.nil_append,
      List.append_assoc, ← hdx, ← hdy]
  have lx : (toBytes (digitsW digits 10 prec dx.toNat)).length = prec := by simp [toBytes, digitsW_length]
  have ly : (toBytes (digitsW digits 10 prec dy.toNat)).length = prec := by simp [toBytes, digitsW_length]
  obtain ⟨k1, k2, kcol, hzc, hzr, hz1⟩ := zone_facts zone hz
  obtain ⟨kbd, a1, hkb⟩ := band_facts iband hib
  obtain ⟨kc8, a2⟩ := col_facts (ix / 100000000000) hxh
  obtain ⟨kr20, hunshift⟩ := row_facts (iy / 100000000000) zone yh0
  rw [hS]
  refine Eq.trans (decode_utm _ cp _ _ (zone / 10).toNat (zone % 10).toNat (10 + iband).toNat (ix / 100000000000 - 1).toNat
    ((iy / 100000000000 + (if (zone - 1) % 2 = 1 then 5 else 0)) % 20).toNat prec dx.toNat dy.toNat
    (iy / 100000000000 - (if northp then 0 else 100)) ?_ ?_ (digits_table_ok _ k1) (digits_table_ok _ k2) hzr
    ?_ hprec ?_ ?_ ?_ ?_ ?_ ?_ ?_) ?_
  · have := digit_not_I _ k1
    simp [this]
  · simp [digit_is_digit _ k1, digit_is_digit _ k2, band_not_digit _ kbd]
  · simp only [List.length_cons, List.length_append, lx, ly]; omega
  · exact latband_lookup _ kbd
  · rw [hzc, Int.tmod_eq_emod_of_nonneg hz1]; exact utmcols_lookup _ kcol _ kc8
  · exact utmrow_lookup _ kr20
  · rw [hzc, a1, a2, ← hrow]
    congr 1
  · show _ ≠ (100:Int); exact hR
  · simp only [List.drop_succ_cons, List.drop_zero]
    rw [List.take_left' lx, readNum_digitsW digits 10 (by decide) digits_table_ok, Nat.mod_eq_of_lt hdxN]
  · have : 5 + prec = prec + 5 := by omega
    rw [this]
    simp only [List.drop_succ_cons]
    rw [List.drop_left' lx, List.take_of_length_le (Nat.le_of_eq ly),
      readNum_digitsW digits 10 (by decide) digits_table_ok, Nat.mod_eq_of_lt hdyN]
  · have b1 : ((dx.toNat : Nat) : Int) = dx := Int.toNat_of_nonneg hdx0
    have b2 : ((dy.toNat : Nat) : Int) = dy := Int.toNat_of_nonneg hdy0
    simp only [hzc, a2, b1, b2, hkb, Int.sub_add_cancel, ← hdx, ← hdy]


/-- non-vacuity of the hypotheses: zone 38, band S (`iband = 4`), 444 km E, 3684 km N -/
example : utmRow 4 (444000000000 / 100000000000 - 1) (3684000000000 / 100000000000 % 20) =
    3684000000000 / 100000000000 - (if true then 0 else 100) := by decide +kernel
example : String.ofList (utmString 38 444000000000 3684000000000 4 2) = "38SMB4484" := by decide +kernel

/-! ### `reverse_forward` on the integer level (UPS, zone 0) -/

/-- `Reverse` on a well-formed UPS string, given what its pieces look up to -/
theorem decode_ups (s : List Nat) (cp : Bool) (kb kc kr prec ex ny : Nat)
    (hinv : (decide (s.length ≥ 3) && (s.take 3).map upper == [73, 78, 86]) = false)
    (hds : (s.takeWhile (fun c => (lookup digits c).isSome)).take 3 = [])
    (hlen : s.length = 3 + 2 * prec) (hprec : prec ≤ 11)
    (hband : lookup upsband (s.getD 0 0) = some kb)
    (hcol : lookup (upscols.getD kb []) (s.getD 1 0) = some kc)
    (hrow : lookup (upsrows.getD (if (kb:Int) ≥ 2 then 1 else 0) []) (s.getD 2 0) = some kr)
    (heast : readNum digits 10 ((s.drop 3).take prec) = some ex)
    (hnorth : readNum digits 10 ((s.drop (3 + prec)).take prec) = some ny) :
    decodeInt s cp = .ok (.cell
      ⟨0, decide ((kb:Int) ≥ 2),
       (if cp then 2 * (((kc:Int) + (if (kb:Int) % 2 = 1 then 20 else (if (kb:Int) ≥ 2 then 13 else 8))) * 10 ^ prec + ex) + 1
          else ((kc:Int) + (if (kb:Int) % 2 = 1 then 20 else (if (kb:Int) ≥ 2 then 13 else 8))) * 10 ^ prec + ex),
       (if cp then 2 * (((kr:Int) + (if (kb:Int) ≥ 2 then 13 else 8)) * 10 ^ prec + ny) + 1
          else ((kr:Int) + (if (kb:Int) ≥ 2 then 13 else 8)) * 10 ^ prec + ny),
       (if cp then 10 ^ prec * 2 else 10 ^ prec), prec⟩) := by
  have l1 : ¬ (3 + 2 * prec < 0 + 1) := by omega
  have l2 : ¬ (0 + 1 = 3 + 2 * prec) := by omega
  have l3 : ¬ (3 + 2 * prec < 0 + 1 + 2) := by omega
  have l6 : ¬ ((prec : Int) > mgrs_maxprec) := by show ¬ ((prec:Int) > 11); omega
  have l7 : (3 + 2 * prec - 3) / 2 = prec := by omega
  have l8 : ¬ ((3 + 2 * prec - 3) % 2 = 1) := by omega
  have hk : (Int.toNat (kb:Int)) = kb := by omega
  simp only [List.getD_eq_getElem?_getD] at hband hcol hrow
  have hinv' : ¬ (List.take 3 (List.map upper s) = [73, 78, 86]) := by
    intro h
    rw [hlen] at hinv
    simp [List.map_take, h] at hinv
  have hrow' := hrow
  simp only [ge_iff_le, Nat.ofNat_le_cast] at hrow'
  unfold decodeInt
  simp only [hds, hlen, List.length_nil, List.foldl_nil]
  simp [zUPS, hinv', l1, l2, l3, l6, hband, hcol, hrow, hrow', heast, hnorth, hk]
  cases cp <;> rfl

/-- the UPS string written by `MGRS::Forward` (integer level) -/
def upsString (northp : Bool) (ix iy : Int) (prec : Nat) : List Char :=
  let m : Int := 100000000000
  let xh := ix / m
  let yh := iy / m
  let d : Int := 10 ^ (11 - prec)
  let eastp : Bool := decide (xh ≥ 20)
  let ib : Nat := (if northp then 2 else 0) + (if eastp then 1 else 0)
  [chr upsband ib,
   chr (upscols.getD ib []) (xh - (if eastp then 20 else (if northp then 13 else 8))).toNat,
   chr (upsrows.getD (if northp then 1 else 0) []) (yh - (if northp then 13 else 8)).toNat] ++
  digitsW digits 10 prec ((ix - m * xh) / d).toNat ++ digitsW digits 10 prec ((iy - m * yh) / d).toNat

theorem encodeInt_ups (northp : Bool) (ix iy : Int) (hix : 0 ≤ ix) (hiy : 0 ≤ iy) (iband : Int) (prec : Nat) (hprec : prec ≤ 11) :
    encodeInt 0 northp ix iy iband prec = .ok (upsString northp ix iy prec) := by
  have e1 : Int.tdiv ix 100000000000 = ix / 100000000000 := Int.tdiv_eq_ediv_of_nonneg hix
  have e2 : Int.tdiv iy 100000000000 = iy / 100000000000 := Int.tdiv_eq_ediv_of_nonneg hiy
  have hmt : mgrs_mult * tile = 100000000000 := by decide
  have r0 : 0 ≤ ix - 100000000000 * (ix / 100000000000) := by omega
  have r1 : 0 ≤ iy - 100000000000 * (iy / 100000000000) := by omega
  have hmp : (mgrs_maxprec - (prec:Int)).toNat = 11 - prec := by show ((11:Int) - prec).toNat = _; omega
  have t6 : ∀ d : Int, (ix - 100000000000 * (ix / 100000000000)).tdiv d = (ix - 100000000000 * (ix / 100000000000)) / d :=
    fun d => Int.tdiv_eq_ediv_of_nonneg r0
  have t7 : ∀ d : Int, (iy - 100000000000 * (iy / 100000000000)).tdiv d = (iy - 100000000000 * (iy / 100000000000)) / d :=
    fun d => Int.tdiv_eq_ediv_of_nonneg r1
  unfold encodeInt
  simp only [ne_eq, not_true_eq_false, if_false, hmt, e1, e2, t6, t7, mgrs_base, hmp, Int.toNat_natCast, pure_bind,
    List.length_nil, List.nil_append, mgrs_upseasting, mgrs_minupsNind, mgrs_minupsSind]
  show Except.ok _ = Except.ok _
  congr 1
  rw [List.take_of_length_le]
  · unfold upsString
    by_cases hp0 : prec = 0
    · subst hp0; simp [digitsW]
    · have : (prec : Int) > 0 := by omega
      simp only [this, if_true, List.cons_append, List.nil_append]
  · by_cases hp0 : prec = 0
    · subst hp0; simp
    · have : (prec : Int) > 0 := by omega
      simp only [this, if_true, List.length_append, List.length_cons, List.length_nil, digitsW_length]
      omega

theorem upsband_not_I : ∀ k < 4, upper (chr upsband k).toNat ≠ 73 := by decide
theorem upsband_not_digit : ∀ k < 4, (lookup digits (chr upsband k).toNat).isSome = false := by decide
theorem ups_table_sizes : (upscols.getD 0 []).length = 12 ∧ (upscols.getD 1 []).length = 12 ∧ (upscols.getD 2 []).length = 7 ∧
    (upscols.getD 3 []).length = 7 ∧ (upsrows.getD 0 []).length = 24 ∧ (upsrows.getD 1 []).length = 14 := by decide

/-- **`reverse_forward` on the integer level, UPS** (both poles, all tiles of the UPS range, precisions, `centerp`) -/
theorem reverse_forward_ups (northp : Bool) (ix iy : Int) (hix : 0 ≤ ix) (hiy : 0 ≤ iy) (iband : Int)
    (prec : Nat) (hprec : prec ≤ 11)
    (hN : northp = true → (13 ≤ ix / 100000000000 ∧ ix / 100000000000 < 27) ∧ (13 ≤ iy / 100000000000 ∧ iy / 100000000000 < 27))
    (hS : northp = false → (8 ≤ ix / 100000000000 ∧ ix / 100000000000 < 32) ∧ (8 ≤ iy / 100000000000 ∧ iy / 100000000000 < 32))
    (cp : Bool) :
    encodeInt 0 northp ix iy iband prec = .ok (upsString northp ix iy prec) ∧
    decodeInt (toBytes (upsString northp ix iy prec)) cp =
      let d : Int := 10 ^ (11 - prec)
      let x1 := (ix / 100000000000) * 10 ^ prec + (ix - 100000000000 * (ix / 100000000000)) / d
      let y1 := (iy / 100000000000) * 10 ^ prec + (iy - 100000000000 * (iy / 100000000000)) / d
      .ok (.cell ⟨0, northp, if cp then 2 * x1 + 1 else x1, if cp then 2 * y1 + 1 else y1,
        if cp then 10 ^ prec * 2 else 10 ^ prec, prec⟩) := by
  refine ⟨encodeInt_ups northp ix iy hix hiy iband prec hprec, ?_⟩
  have r0 : 0 ≤ ix - 100000000000 * (ix / 100000000000) ∧ ix - 100000000000 * (ix / 100000000000) < 100000000000 := by omega
  have r1 : 0 ≤ iy - 100000000000 * (iy / 100000000000) ∧ iy - 100000000000 * (iy / 100000000000) < 100000000000 := by omega
  have hdpos : (0:Int) < 10 ^ (11 - prec) := Int.pow_pos (by omega)
  have hpw : (10:Int) ^ prec * 10 ^ (11 - prec) = 100000000000 := by
    rw [← Int.pow_add, show prec + (11 - prec) = 11 by omega]; decide
  have hdxlt : (ix - 100000000000 * (ix / 100000000000)) / 10 ^ (11 - prec) < 10 ^ prec :=
    Int.ediv_lt_of_lt_mul hdpos (by rw [hpw]; exact r0.2)
  have hdylt : (iy - 100000000000 * (iy / 100000000000)) / 10 ^ (11 - prec) < 10 ^ prec :=
    Int.ediv_lt_of_lt_mul hdpos (by rw [hpw]; exact r1.2)
  have hdx0 : 0 ≤ (ix - 100000000000 * (ix / 100000000000)) / 10 ^ (11 - prec) := Int.ediv_nonneg r0.1 (Int.le_of_lt hdpos)
  have hdy0 : 0 ≤ (iy - 100000000000 * (iy / 100000000000)) / 10 ^ (11 - prec) := Int.ediv_nonneg r1.1 (Int.le_of_lt hdpos)
  obtain ⟨dx, hdx⟩ : ∃ dx, dx = (ix - 100000000000 * (ix / 100000000000)) / 10 ^ (11 - prec) := ⟨_, rfl⟩
  obtain ⟨dy, hdy⟩ : ∃ dy, dy = (iy - 100000000000 * (iy / 100000000000)) / 10 ^ (11 - prec) := ⟨_, rfl⟩
  rw [← hdx] at hdxlt hdx0
  rw [← hdy] at hdylt hdy0
  have hdxN : dx.toNat < 10 ^ prec := by
    have : ((dx.toNat : Nat) : Int) < ((10 ^ prec : Nat) : Int) := by
      rw [Int.toNat_of_nonneg hdx0]; exact_mod_cast hdxlt
    exact_mod_cast this
  have hdyN : dy.toNat < 10 ^ prec := by
    have : ((dy.toNat : Nat) : Int) < ((10 ^ prec : Nat) : Int) := by
      rw [Int.toNat_of_nonneg hdy0]; exact_mod_cast hdylt
    exact_mod_cast this
  have b1 : ((dx.toNat : Nat) : Int) = dx := Int.toNat_of_nonneg hdx0
  have b2 : ((dy.toNat : Nat) : Int) = dy := Int.toNat_of_nonneg hdy0
  have lx : (toBytes (digitsW digits 10 prec dx.toNat)).length = prec := by simp [toBytes, digitsW_length]
  have ly : (toBytes (digitsW digits 10 prec dy.toNat)).length = prec := by simp [toBytes, digitsW_length]
  obtain ⟨s0, s1, s2, s3, s4, s5⟩ := ups_table_sizes
  obtain ⟨xh, hxh⟩ : ∃ xh, xh = ix / 100000000000 := ⟨_, rfl⟩
  obtain ⟨yh, hyh⟩ : ∃ yh, yh = iy / 100000000000 := ⟨_, rfl⟩
  simp only [← hxh, ← hyh] at hN hS hdx hdy ⊢
  -- the byte string in cons form, for the four (pole, side) cases
  have hSform : ∀ (ib : Nat) (cx cy : Int) (rr : Nat), 
      toBytes ([chr upsband ib, chr (upscols.getD ib []) (xh - cx).toNat, chr (upsrows.getD rr []) (yh - cy).toNat] ++
        digitsW digits 10 prec dx.toNat ++ digitsW digits 10 prec dy.toNat) =
      (chr upsband ib).toNat :: (chr (upscols.getD ib []) (xh - cx).toNat).toNat :: (chr (upsrows.getD rr []) (yh - cy).toNat).toNat ::
        (toBytes (digitsW digits 10 prec dx.toNat) ++ toBytes (digitsW digits 10 prec dy.toNat)) := by
    intro ib cx cy rr
    simp only [toBytes, List.map_append, List.map_cons, List.map_nil, List.cons_append, List.nil_append, List.append_assoc]
  have main : ∀ (ib : Nat) (hib : ib < 4) (cx cy : Int) (rr : Nat) (hrr : rr = if (ib:Int) ≥ 2 then 1 else 0)
      (hcx : (xh - cx).toNat < (upscols.getD ib []).length) (hcy : (yh - cy).toNat < (upsrows.getD rr []).length) (hrr2 : rr < 2)
      (hx0 : 0 ≤ xh - cx) (hy0 : 0 ≤ yh - cy)
      (hcxv : cx = if (ib:Int) % 2 = 1 then 20 else (if (ib:Int) ≥ 2 then 13 else 8)) (hcyv : cy = if (ib:Int) ≥ 2 then 13 else 8),
      decodeInt ((chr upsband ib).toNat :: (chr (upscols.getD ib []) (xh - cx).toNat).toNat :: (chr (upsrows.getD rr []) (yh - cy).toNat).toNat ::
        (toBytes (digitsW digits 10 prec dx.toNat) ++ toBytes (digitsW digits 10 prec dy.toNat))) cp =
      .ok (.cell ⟨0, decide ((ib:Int) ≥ 2), if cp then 2 * (xh * 10 ^ prec + dx) + 1 else xh * 10 ^ prec + dx,
        if cp then 2 * (yh * 10 ^ prec + dy) + 1 else yh * 10 ^ prec + dy, if cp then 10 ^ prec * 2 else 10 ^ prec, prec⟩) := by
    intro ib hib cx cy rr hrr hcx hcy hrr2 hx0 hy0 hcxv hcyv
    refine Eq.trans (decode_ups _ cp ib (xh - cx).toNat (yh - cy).toNat prec dx.toNat dy.toNat ?_ ?_ ?_ hprec ?_ ?_ ?_ ?_ ?_) ?_
    · have := upsband_not_I _ hib
      simp [this]
    · simp [upsband_not_digit _ hib]
    · simp only [List.length_cons, List.length_append, lx, ly]; omega
    · exact upsband_lookup _ hib
    · exact upscols_lookup _ hib _ hcx
    · rw [← hrr]; exact upsrows_lookup _ hrr2 _ hcy
    · simp only [List.drop_succ_cons, List.drop_zero]
      rw [List.take_left' lx, readNum_digitsW digits 10 (by decide) digits_table_ok, Nat.mod_eq_of_lt hdxN]
    · have : 3 + prec = prec + 3 := by omega
      rw [this]
      simp only [List.drop_succ_cons]
      rw [List.drop_left' lx, List.take_of_length_le (Nat.le_of_eq ly),
        readNum_digitsW digits 10 (by decide) digits_table_ok, Nat.mod_eq_of_lt hdyN]
    · have c1 : (((xh - cx).toNat : Nat) : Int) = xh - cx := Int.toNat_of_nonneg hx0
      have c2 : (((yh - cy).toNat : Nat) : Int) = yh - cy := Int.toNat_of_nonneg hy0
      simp only [c1, c2, b1, b2]
      rw [← hcxv, ← hcyv]
      simp only [Int.sub_add_cancel]
  unfold upsString
  simp only [← hxh, ← hyh, ← hdx, ← hdy]
  cases northp
  · obtain ⟨⟨x1, x2⟩, y1, y2⟩ := hS rfl
    by_cases he : xh ≥ 20
    · simp only [he, decide_true, Bool.false_eq_true, if_false, if_true, Nat.zero_add]
      rw [hSform, main 1 (by omega) 20 8 0 (by decide) (by rw [s1]; omega) (by rw [s4]; omega) (by omega) (by omega) (by omega)
        (by decide) (by decide)]
      simp
    · simp only [he, decide_false, Bool.false_eq_true, if_false, Nat.add_zero]
      rw [hSform, main 0 (by omega) 8 8 0 (by decide) (by rw [s0]; omega) (by rw [s4]; omega) (by omega) (by omega) (by omega)
        (by decide) (by decide)]
      simp
  · obtain ⟨⟨x1, x2⟩, y1, y2⟩ := hN rfl
    by_cases he : xh ≥ 20
    · simp only [he, decide_true, if_true, Nat.reduceAdd]
      rw [hSform, main 3 (by omega) 20 13 1 (by decide) (by rw [s3]; omega) (by rw [s5]; omega) (by omega) (by omega) (by omega)
        (by decide) (by decide)]
      simp
    · simp only [he, decide_false, Bool.false_eq_true, if_false, if_true, Nat.add_zero]
      rw [hSform, main 2 (by omega) 13 13 1 (by decide) (by rw [s2]; omega) (by rw [s5]; omega) (by omega) (by omega) (by omega)
        (by decide) (by decide)]
      simp

example : String.ofList (upsString true 2000000000000 2000000000000 1) = "ZAH00" := by decide +kernel

/-! ### range tables -/

theorem mgrs_range_tables :
    mgrs_tbl_mineasting = [8, 13, 1, 1] ∧ mgrs_tbl_maxeasting = [32, 27, 9, 9] ∧
    mgrs_tbl_minnorthing = [8, 13, 10, -90] ∧ mgrs_tbl_maxnorthing = [32, 27, 195, 95] ∧
    mgrs_mult = 1000000 ∧ mgrs_maxprec = 11 ∧ mgrs_utmrowperiod = 20 ∧ mgrs_utmevenrowshift = 5 := by decide

/-! ### malformed strings are rejected (the model is total and exception-explicit) -/

theorem malformed_rejected :
    ∀ s ∈ ["", "0", "00C", "61C", "001C", "123C", "1I", "1O", "33", "38S M", "38SM", "38SIB", "38SMO", "38SMB1", "38SMB123",
           "38SMB1x", "38SMB12345678901234567890123", "A", "AI", "AIA", "YA", "ZZZ", "B12", "38SMB1\x002"],
      (match decodeInt (toBytes s.toList) true with
       | .error _ => true
       | .ok (.gridzone ..) => s = "A"
       | .ok _ => false) = true := by decide

/-- non-vacuity: a well-formed string decodes -/
example : (match decodeInt (toBytes "38SMB4484".toList) false with
    | .ok (.cell d) => decide (d = ⟨38, true, 444, 3684, 100, 2⟩) | _ => false) = true := by decide

/-! ### the letter tables have the documented contents -/

/-- the alphabet without I and O, and the UPS column alphabet: additionally without D, E, M, N, V, W -/
def A24 : List Char := "ABCDEFGHJKLMNPQRSTUVWXYZ".toList
def U18 : List Char := "ABCFGHJKLPQRSTUXYZ".toList

theorem letter_tables_documented :
    A24 = ("ABCDEFGHIJKLMNOPQRSTUVWXYZ".toList.filter fun c => c ≠ 'I' ∧ c ≠ 'O') ∧
    U18 = (A24.filter fun c => c ∉ "DEMNVW".toList) ∧
    utmcols = [A24.take 8, (A24.drop 8).take 8, A24.drop 16] ∧
    utmrow = A24.take 20 ∧
    latband = (A24.drop 2).take 20 ∧
    upsband = ['A', 'B', 'Y', 'Z'] ∧
    upscols = [U18.drop 6, U18.take 12, U18.drop 11, U18.take 7] ∧
    upsrows = [A24, A24.take 14] ∧
    hemispheres = ['S', 'N'] ∧
    digits = "0123456789".toList ∧
    alpha = A24 ++ A24.map Char.toLower := by decide

theorem scale_constants_documented :
    mgrs_base = 10 ∧ mgrs_tilelevel = 5 ∧ mgrs_tile = mgrs_base ^ mgrs_tilelevel.toNat ∧ mgrs_maxprec = mgrs_tilelevel + 6 ∧
    mgrs_mult * mgrs_tile = mgrs_base ^ mgrs_maxprec.toNat ∧ mgrs_utmrowperiod = 20 ∧ mgrs_utmevenrowshift = 5 ∧
    mgrs_maxutmSrow = 5 * mgrs_utmrowperiod := by decide


/-! ### `MGRS::Decode` splits exactly as the documented grammar says -/

/-- a digit is not a letter, a letter is not a digit, and neither "INV" nor a NUL byte can start a well-formed reference -/
theorem digit_not_alpha (c : Nat) (h : inSet digits c = true) : inSet alpha c = false := by
  have hm : c ∈ digits.map Char.toNat := by
    unfold inSet at h
    rw [List.any_eq_true] at h
    obtain ⟨ch, hch, he⟩ := h
    rw [List.mem_map]; exact ⟨ch, hch, by simpa using he⟩
  have : ∀ c ∈ digits.map Char.toNat, inSet alpha c = false := by decide
  exact this c hm

theorem takeWhile_all {α} (p : α → Bool) (l : List α) : (l.takeWhile p).all p = true := by
  induction l with
  | nil => rfl
  | cons a t ih => by_cases h : p a = true <;> simp [List.takeWhile, h, ih]

/-- the head of what `dropWhile` leaves fails the test -/
theorem dropWhile_head {α} (p : α → Bool) (l : List α) (a : α) (r : List α) (h : l.dropWhile p = a :: r) : p a = false := by
  induction l with
  | nil => simp at h
  | cons b t ih =>
    by_cases hb : p b = true
    · simp [List.dropWhile, hb] at h; exact ih h
    · simp [List.dropWhile, hb] at h
      obtain ⟨rfl, _⟩ := h
      simpa using hb

/-- **`decode_splits`**: an accepted reference that is not "INV…" is the concatenation of its four parts; the grid zone is 0–2 digits followed
    by one letter; the block is empty or two letters; easting and northing are digit strings of equal length, empty when the block is; and the
    parts are maximal (the byte after the leading digits is a letter, the one after the letters is not) -/
theorem decode_splits (s : List Nat) (p : Parts) (h : decode s = .ok p)
    (hinv : (decide (s.length ≥ 3) && (s.take 3).map upper == [73, 78, 86]) = false) :
    s = p.gridzone ++ p.block ++ p.easting ++ p.northing ∧
    (∃ d a, p.gridzone = d ++ [a] ∧ d.length ≤ 2 ∧ d.all (inSet digits) = true ∧ inSet alpha a = true) ∧
    (p.block.length = 0 ∨ p.block.length = 2) ∧ p.block.all (inSet alpha) = true ∧
    p.easting.length = p.northing.length ∧ p.easting.all (inSet digits) = true ∧ p.northing.all (inSet digits) = true ∧
    (p.block = [] → p.easting = [] ∧ p.northing = []) := by
  unfold decode at h
  rw [hinv] at h
  simp only [Bool.false_eq_true, if_false] at h
  have hsplit := List.takeWhile_append_dropWhile (p := inSet digits) (l := s)
  cases hr : s.dropWhile (inSet digits) with
  | nil => rw [hr] at h; cases h
  | cons a r =>
    rw [hr] at h hsplit
    simp only at h
    split_ifs at h with c1 c2 c3 c4 c5 c6
    cases h
    have hr2 := List.takeWhile_append_dropWhile (p := inSet alpha) (l := r)
    have hal : (r.takeWhile (inSet alpha)).all (inSet alpha) = true := takeWhile_all _ _
    generalize r.takeWhile (inSet alpha) = al at *
    generalize r.dropWhile (inSet alpha) = t at *
    dsimp only
    have tall : t.all (inSet digits) = true := by simpa using c5
    have teven : t.length % 2 = 0 := by omega
    have tsplit : t = t.take (t.length / 2) ++ t.drop (t.length / 2) := (List.take_append_drop _ _).symm
    refine ⟨?_, ⟨_, a, rfl, by simpa using c1, takeWhile_all _ _, by simpa using c2⟩, (by by_cases hh : (al.length = 0 ∨ al.length = 2); exact hh; exact absurd (by simp only [hh, decide_false, Bool.not_false]) c3), hal, ?_, ?_, ?_, ?_⟩
    · calc s = s.takeWhile (inSet digits) ++ a :: r := hsplit.symm
        _ = s.takeWhile (inSet digits) ++ a :: (al ++ t) := by rw [hr2]
        _ = _ := by simp only [List.append_assoc, List.cons_append, List.nil_append, List.take_append_drop]
    · simp only [List.length_take, List.length_drop]; omega
    · rw [List.all_eq_true] at tall ⊢; intro x hx; exact tall x (List.mem_of_mem_take hx)
    · rw [List.all_eq_true] at tall ⊢; intro x hx; exact tall x (List.mem_of_mem_drop hx)
    · intro hb
      have : al.length = 0 := by rw [hb]; rfl
      have ht0 : t = [] := by
        cases t with
        | nil => rfl
        | cons x xs => exact absurd ⟨this, by simp⟩ c4
      rw [ht0]; simp


theorem alpha_not_digit (c : Nat) (h : inSet alpha c = true) : inSet digits c = false := by
  cases hd : inSet digits c with
  | false => rfl
  | true => rw [digit_not_alpha c hd] at h; cases h

/-- `takeWhile` / `dropWhile` cut a list exactly where a run of passing elements is followed by nothing or by a failing one -/
theorem takeWhile_dropWhile_append {α} (p : α → Bool) (l r : List α) (hl : l.all p = true) (hr : ∀ x ∈ r.head?, p x = false) :
    (l ++ r).takeWhile p = l ∧ (l ++ r).dropWhile p = r := by
  induction l with
  | nil =>
    cases r with
    | nil => exact ⟨rfl, rfl⟩
    | cons x xs =>
      have hx : p x = false := hr x (by simp)
      simp [hx]
  | cons b t ih =>
    simp only [List.all_cons, Bool.and_eq_true] at hl
    obtain ⟨h1, h2⟩ := ih hl.2
    simp [hl.1, h1, h2]

/-- **`decode_complete`**: every byte string of the documented shape — 0–2 digits, a letter, nothing or two more letters and then two digit
    strings of equal length — is accepted and split into exactly those parts (I and O are not letters; a string beginning "INV" is the
    invalid marker instead) -/
theorem decode_complete (d : List Nat) (a : Nat) (blk e n : List Nat)
    (hd : d.length ≤ 2) (hda : d.all (inSet digits) = true) (ha : inSet alpha a = true)
    (hb : blk.length = 0 ∨ blk.length = 2) (hba : blk.all (inSet alpha) = true)
    (hen : e.length = n.length) (he : e.all (inSet digits) = true) (hn : n.all (inSet digits) = true)
    (hbe : blk = [] → e = [] ∧ n = [])
    (hinv : (decide ((d ++ [a] ++ blk ++ e ++ n).length ≥ 3) && ((d ++ [a] ++ blk ++ e ++ n).take 3).map upper == [73, 78, 86]) = false) :
    decode (d ++ [a] ++ blk ++ e ++ n) = .ok ⟨d ++ [a], blk, e, n⟩ := by
  unfold decode
  rw [hinv]
  simp only [Bool.false_eq_true, if_false]
  have e1 : d ++ [a] ++ blk ++ e ++ n = d ++ (a :: (blk ++ (e ++ n))) := by simp [List.append_assoc]
  rw [e1]
  obtain ⟨t1, t2⟩ := takeWhile_dropWhile_append (inSet digits) d (a :: (blk ++ (e ++ n))) hda
    (by intro x hx; simp at hx; subst hx; exact alpha_not_digit _ ha)
  rw [t1, t2]
  have hen' : ∀ x ∈ (e ++ n).head?, inSet alpha x = false := by
    intro x hx
    have hall : (e ++ n).all (inSet digits) = true := by rw [List.all_append, he, hn]; rfl
    have hm : x ∈ e ++ n := List.mem_of_mem_head? hx
    rw [List.all_eq_true] at hall
    exact digit_not_alpha x (hall x hm)
  obtain ⟨u1, u2⟩ := takeWhile_dropWhile_append (inSet alpha) blk (e ++ n) hba hen'
  simp only
  rw [u1, u2]
  have c1 : (!decide (d.length ≤ 2)) = false := by simp [hd]
  have c2 : (!inSet alpha a) = false := by simp [ha]
  have c3 : (!decide (blk.length = 0 ∨ blk.length = 2)) = false := by simp only [hb, decide_true, Bool.not_true]
  have c4 : ¬ (blk.length = 0 ∧ e ++ n ≠ []) := by
    rintro ⟨h0, hne⟩
    have : blk = [] := List.eq_nil_of_length_eq_zero h0
    obtain ⟨h1, h2⟩ := hbe this
    rw [h1, h2] at hne; exact hne rfl
  have c5 : (!(e ++ n).all (inSet digits)) = false := by rw [List.all_append, he, hn]; rfl
  have c6 : ¬ ((e ++ n).length % 2 = 1) := by rw [List.length_append]; omega
  have half : (e ++ n).length / 2 = e.length := by rw [List.length_append]; omega
  rw [c1, c2, c3, c5]
  simp only [Bool.false_eq_true, if_false, c4, c6, half]
  rw [List.take_left' rfl, List.drop_left' rfl]


/-! ### `Decode` on what `Forward` writes: grid zone = zone digits + band letter, block = column and row letters, then the two digit groups -/

theorem digit_inSet : ∀ k < 10, inSet digits (chr digits k).toNat = true := by decide
theorem latband_alpha : ∀ k < 20, inSet alpha (chr latband k).toNat = true := by decide
theorem utmcols_alpha : ∀ k < 3, ∀ i < 8, inSet alpha (chr (utmcols.getD k []) i).toNat = true := by decide
theorem utmrow_alpha : ∀ i < 20, inSet alpha (chr utmrow i).toNat = true := by decide
theorem upsband_alpha : ∀ k < 4, inSet alpha (chr upsband k).toNat = true := by decide
theorem upscols_alpha : ∀ k < 4, ∀ i < (upscols.getD k []).length, inSet alpha (chr (upscols.getD k []) i).toNat = true := by decide
theorem upsrows_alpha : ∀ k < 2, ∀ i < (upsrows.getD k []).length, inSet alpha (chr (upsrows.getD k []) i).toNat = true := by decide

theorem digitsW_inSet (w n : Nat) : (toBytes (digitsW digits 10 w n)).all (inSet digits) = true := by
  rw [List.all_eq_true]
  intro c hc
  unfold toBytes at hc
  rw [List.mem_map] at hc
  obtain ⟨ch, hch, rfl⟩ := hc
  obtain ⟨k, hk, rfl⟩ := digitsW_mem digits 10 (by decide) w n ch hch
  exact digit_inSet k hk

/-- **UTM**: `Decode` of the string `Forward` writes returns zone digits + band letter, the two block letters and the digit groups -/
theorem decode_forward_utm (zone : Int) (hz : 1 ≤ zone ∧ zone ≤ 60) (ix iy : Int) (hiy : 0 ≤ iy) (iband : Int) (hib : -10 ≤ iband ∧ iband < 10)
    (prec : Nat) (hxh : 1 ≤ ix / 100000000000 ∧ ix / 100000000000 ≤ 8) :
    decode (toBytes (utmString zone ix iy iband prec)) =
      .ok ⟨toBytes ((utmString zone ix iy iband prec).take 3), toBytes (((utmString zone ix iy iband prec).drop 3).take 2),
           toBytes (digitsW digits 10 prec ((ix - 100000000000 * (ix / 100000000000)) / 10 ^ (11 - prec)).toNat),
           toBytes (digitsW digits 10 prec ((iy - 100000000000 * (iy / 100000000000)) / 10 ^ (11 - prec)).toNat)⟩ := by
  obtain ⟨k1, k2, kcol, _, _, _⟩ := zone_facts zone hz
  obtain ⟨kbd, _, _⟩ := band_facts iband hib
  obtain ⟨kc8, _⟩ := col_facts (ix / 100000000000) hxh
  have yh0 : 0 ≤ iy / 100000000000 := Int.ediv_nonneg hiy (by omega)
  obtain ⟨kr20, _⟩ := row_facts (iy / 100000000000) zone yh0
  generalize hdx : (digitsW digits 10 prec ((ix - 100000000000 * (ix / 100000000000)) / 10 ^ (11 - prec)).toNat) = dx
  generalize hdy : (digitsW digits 10 prec ((iy - 100000000000 * (iy / 100000000000)) / 10 ^ (11 - prec)).toNat) = dy
  have hdxs : (toBytes dx).all (inSet digits) = true := by rw [← hdx]; exact digitsW_inSet _ _
  have hdys : (toBytes dy).all (inSet digits) = true := by rw [← hdy]; exact digitsW_inSet _ _
  have lx : (toBytes dx).length = prec := by rw [← hdx]; simp [toBytes, digitsW_length]
  have ly : (toBytes dy).length = prec := by rw [← hdy]; simp [toBytes, digitsW_length]
  have hS : toBytes (utmString zone ix iy iband prec) =
      [(chr digits (zone / 10).toNat).toNat, (chr digits (zone % 10).toNat).toNat] ++ [(chr latband (10 + iband).toNat).toNat] ++
      [(chr (utmcols.getD ((zone - 1) % 3).toNat []) (ix / 100000000000 - 1).toNat).toNat,
       (chr utmrow ((iy / 100000000000 + (if (zone - 1) % 2 = 1 then 5 else 0)) % 20).toNat).toNat] ++ toBytes dx ++ toBytes dy := by
    simp only [utmString, toBytes, List.map_append, List.map_cons, List.cons_append, List.nil_append, hdx, hdy]
  have h3 : toBytes ((utmString zone ix iy iband prec).take 3) =
      [(chr digits (zone / 10).toNat).toNat, (chr digits (zone % 10).toNat).toNat] ++ [(chr latband (10 + iband).toNat).toNat] := by
    simp [utmString, toBytes]
  have h2 : toBytes (((utmString zone ix iy iband prec).drop 3).take 2) =
      [(chr (utmcols.getD ((zone - 1) % 3).toNat []) (ix / 100000000000 - 1).toNat).toNat,
       (chr utmrow ((iy / 100000000000 + (if (zone - 1) % 2 = 1 then 5 else 0)) % 20).toNat).toNat] := by
    simp [utmString, toBytes]
  rw [hS, h3, h2]
  refine decode_complete _ _ _ _ _ (by simp) ?_ (latband_alpha _ kbd) (Or.inr rfl) ?_ (by rw [lx, ly]) hdxs hdys (by intro h; cases h) ?_
  · show (inSet digits _ && (inSet digits _ && true)) = true
    rw [digit_inSet _ k1, digit_inSet _ k2]; rfl
  · show (inSet alpha _ && (inSet alpha _ && true)) = true
    rw [utmcols_alpha _ kcol _ kc8, utmrow_alpha _ kr20]; rfl
  · have := digit_not_I _ k1
    simp [this]

/-- **UPS** likewise: the grid zone is the single letter A, B, Y or Z -/
theorem decode_forward_ups (northp : Bool) (ix iy : Int) (prec : Nat)
    (hN : northp = true → (13 ≤ ix / 100000000000 ∧ ix / 100000000000 < 27) ∧ (13 ≤ iy / 100000000000 ∧ iy / 100000000000 < 27))
    (hS : northp = false → (8 ≤ ix / 100000000000 ∧ ix / 100000000000 < 32) ∧ (8 ≤ iy / 100000000000 ∧ iy / 100000000000 < 32)) :
    decode (toBytes (upsString northp ix iy prec)) =
      .ok ⟨toBytes ((upsString northp ix iy prec).take 1), toBytes (((upsString northp ix iy prec).drop 1).take 2),
           toBytes (digitsW digits 10 prec ((ix - 100000000000 * (ix / 100000000000)) / 10 ^ (11 - prec)).toNat),
           toBytes (digitsW digits 10 prec ((iy - 100000000000 * (iy / 100000000000)) / 10 ^ (11 - prec)).toNat)⟩ := by
  generalize hdx : (digitsW digits 10 prec ((ix - 100000000000 * (ix / 100000000000)) / 10 ^ (11 - prec)).toNat) = dx
  generalize hdy : (digitsW digits 10 prec ((iy - 100000000000 * (iy / 100000000000)) / 10 ^ (11 - prec)).toNat) = dy
  have hdxs : (toBytes dx).all (inSet digits) = true := by rw [← hdx]; exact digitsW_inSet _ _
  have hdys : (toBytes dy).all (inSet digits) = true := by rw [← hdy]; exact digitsW_inSet _ _
  have lx : (toBytes dx).length = prec := by rw [← hdx]; simp [toBytes, digitsW_length]
  have ly : (toBytes dy).length = prec := by rw [← hdy]; simp [toBytes, digitsW_length]
  obtain ⟨s0, s1, s2, s3, s4, s5⟩ := ups_table_sizes
  obtain ⟨xh, hxh⟩ : ∃ xh, xh = ix / 100000000000 := ⟨_, rfl⟩
  obtain ⟨yh, hyh⟩ : ∃ yh, yh = iy / 100000000000 := ⟨_, rfl⟩
  rw [← hxh] at hdx
  rw [← hyh] at hdy
  have main : ∀ (ib : Nat) (hib : ib < 4) (cx cy : Int) (rr : Nat) (hrr : rr < 2)
      (hcx : (xh - cx).toNat < (upscols.getD ib []).length) (hcy : (yh - cy).toNat < (upsrows.getD rr []).length),
      decode ([(chr upsband ib).toNat] ++ [(chr (upscols.getD ib []) (xh - cx).toNat).toNat, (chr (upsrows.getD rr []) (yh - cy).toNat).toNat] ++
          toBytes dx ++ toBytes dy) =
        .ok ⟨[(chr upsband ib).toNat], [(chr (upscols.getD ib []) (xh - cx).toNat).toNat, (chr (upsrows.getD rr []) (yh - cy).toNat).toNat],
          toBytes dx, toBytes dy⟩ := by
    intro ib hib cx cy rr hrr hcx hcy
    have := decode_complete [] (chr upsband ib).toNat
      [(chr (upscols.getD ib []) (xh - cx).toNat).toNat, (chr (upsrows.getD rr []) (yh - cy).toNat).toNat] (toBytes dx) (toBytes dy)
      (by simp) (by simp) (upsband_alpha _ hib) (Or.inr rfl) (by show (inSet alpha _ && (inSet alpha _ && true)) = true; rw [upscols_alpha _ hib _ hcx, upsrows_alpha _ hrr _ hcy]; rfl)
      (by rw [lx, ly]) hdxs hdys (by intro h; cases h)
      (by have := upsband_not_I _ hib; simp [this])
    simpa using this
  unfold upsString
  simp only [← hxh, ← hyh, hdx, hdy]
  cases northp
  · obtain ⟨⟨x1, x2⟩, y1, y2⟩ := hS rfl
    by_cases he : xh ≥ 20
    · simp only [he, decide_true, Bool.false_eq_true, if_false, if_true, Nat.zero_add]
      have := main 1 (by omega) 20 8 0 (by omega) (by rw [s1]; omega) (by rw [s4]; omega)
      simpa [toBytes, hdx, hdy] using this
    · simp only [he, decide_false, Bool.false_eq_true, if_false, Nat.add_zero]
      have := main 0 (by omega) 8 8 0 (by omega) (by rw [s0]; omega) (by rw [s4]; omega)
      simpa [toBytes, hdx, hdy] using this
  · obtain ⟨⟨x1, x2⟩, y1, y2⟩ := hN rfl
    by_cases he : xh ≥ 20
    · simp only [he, decide_true, if_true, Nat.reduceAdd]
      have := main 3 (by omega) 20 13 1 (by omega) (by rw [s3]; omega) (by rw [s5]; omega)
      simpa [toBytes, hdx, hdy] using this
    · simp only [he, decide_false, Bool.false_eq_true, if_false, if_true, Nat.add_zero]
      have := main 2 (by omega) 13 13 1 (by omega) (by rw [s2]; omega) (by rw [s5]; omega)
      simpa [toBytes, hdx, hdy] using this


/-! ### prefix law and re-encode law at the level of the strings (UTM and UPS) -/

/-- the digit group `Forward` writes for a coordinate `ix = ⌊10⁶ x⌋` at precision `prec` -/
def digitGroup (ix : Int) (prec : Nat) : List Char :=
  digitsW digits 10 prec ((ix - 100000000000 * (ix / 100000000000)) / 10 ^ (11 - prec)).toNat

theorem utmString_parts (zone ix iy iband : Int) (prec : Nat) :
    utmString zone ix iy iband prec = (utmString zone ix iy iband 0) ++ digitGroup ix prec ++ digitGroup iy prec := by
  simp [utmString, digitGroup, digitsW]

theorem upsString_parts (northp : Bool) (ix iy : Int) (prec : Nat) :
    upsString northp ix iy prec = (upsString northp ix iy 0) ++ digitGroup ix prec ++ digitGroup iy prec := by
  simp [upsString, digitGroup, digitsW]

/-- the digit group at precision `p` is a prefix of the one at `p + 1` (truncation, not rounding) -/
theorem digitGroup_prefix (ix : Int) (p : Nat) (hp : p < 11) : digitGroup ix p <+: digitGroup ix (p + 1) := by
  unfold digitGroup
  have r0 : 0 ≤ ix - 100000000000 * (ix / 100000000000) := by omega
  obtain ⟨a, ha⟩ := Int.eq_ofNat_of_zero_le r0
  rw [ha]
  have e : ∀ k : Nat, ((a : Int) / 10 ^ k).toNat = a / 10 ^ k := by
    intro k
    have : ((a : Int) / 10 ^ k) = ((a / 10 ^ k : Nat) : Int) := by push_cast; rfl
    rw [this, Int.toNat_natCast]
  rw [e, e]
  exact digits_prefix a p hp

/-- **prefix law, UTM and UPS**: going from precision `p` to `p + 1` keeps the zone digits and the three letters and extends each digit
    group by one digit -/
theorem prefix_law_utm (zone ix iy iband : Int) (p : Nat) (hp : p < 11) :
    ∃ head, utmString zone ix iy iband p = head ++ digitGroup ix p ++ digitGroup iy p ∧
      utmString zone ix iy iband (p + 1) = head ++ digitGroup ix (p + 1) ++ digitGroup iy (p + 1) ∧ head.length = 5 ∧
      digitGroup ix p <+: digitGroup ix (p + 1) ∧ digitGroup iy p <+: digitGroup iy (p + 1) :=
  ⟨utmString zone ix iy iband 0, utmString_parts _ _ _ _ _, utmString_parts _ _ _ _ _, by simp [utmString, digitsW],
    digitGroup_prefix ix p hp, digitGroup_prefix iy p hp⟩

theorem prefix_law_ups (northp : Bool) (ix iy : Int) (p : Nat) (hp : p < 11) :
    ∃ head, upsString northp ix iy p = head ++ digitGroup ix p ++ digitGroup iy p ∧
      upsString northp ix iy (p + 1) = head ++ digitGroup ix (p + 1) ++ digitGroup iy (p + 1) ∧ head.length = 3 ∧
      digitGroup ix p <+: digitGroup ix (p + 1) ∧ digitGroup iy p <+: digitGroup iy (p + 1) :=
  ⟨upsString northp ix iy 0, upsString_parts _ _ _ _, upsString_parts _ _ _ _, by simp [upsString, digitsW],
    digitGroup_prefix ix p hp, digitGroup_prefix iy p hp⟩

/-- the centre (in units of 10⁻⁶ m, rounded down: what `⌊10⁶ x⌋` gives for the centre `Reverse` returns) of the square of `ix` at precision `prec` -/
def centre (ix : Int) (prec : Nat) : Int := (ix / 10 ^ (11 - prec)) * 10 ^ (11 - prec) + 10 ^ (11 - prec) / 2

theorem centre_same_square (ix : Int) (hix : 0 ≤ ix) (prec : Nat) (hp : prec ≤ 11) :
    0 ≤ centre ix prec ∧ centre ix prec / 100000000000 = ix / 100000000000 ∧
    (centre ix prec - 100000000000 * (centre ix prec / 100000000000)) / 10 ^ (11 - prec) =
      (ix - 100000000000 * (ix / 100000000000)) / 10 ^ (11 - prec) := by
  unfold centre
  have hc : prec = 0 ∨ prec = 1 ∨ prec = 2 ∨ prec = 3 ∨ prec = 4 ∨ prec = 5 ∨ prec = 6 ∨ prec = 7 ∨ prec = 8 ∨ prec = 9 ∨ prec = 10 ∨ prec = 11 := by omega
  rcases hc with rfl | rfl | rfl | rfl | rfl | rfl | rfl | rfl | rfl | rfl | rfl | rfl <;>
    simp only [Nat.sub_zero, Nat.reduceSub, Int.reducePow, Nat.sub_self, Int.pow_zero] <;> omega

/-- **re-encode law, UTM**: the centre of the square of (ix, iy) at precision `prec` lies in the same 100 km tile and has the same digit groups, so
    `Forward` of it — with any latitude band `iband'` that passes `Forward`'s own row-consistency test for that tile — writes the same string
    except for the band letter, which is that of `iband'` (the same string when the band is the same) -/
theorem reencode_utm (zone : Int) (hz : 1 ≤ zone ∧ zone ≤ 60) (northp : Bool) (ix iy : Int) (hix : 0 ≤ ix) (hiy : 0 ≤ iy)
    (iband iband' : Int) (prec : Nat) (hprec : prec ≤ 11)
    (hrow' : utmRow iband' (ix / 100000000000 - 1) (iy / 100000000000 % 20) = iy / 100000000000 - (if northp then 0 else 100)) :
    encodeInt zone northp (centre ix prec) (centre iy prec) iband' prec = .ok (utmString zone ix iy iband' prec) ∧
    utmString zone ix iy iband' prec = (utmString zone ix iy iband prec).set 2 (chr latband (10 + iband').toNat) ∧
    (iband' = iband → utmString zone ix iy iband' prec = utmString zone ix iy iband prec) := by
  obtain ⟨cx0, cx1, cx2⟩ := centre_same_square ix hix prec hprec
  obtain ⟨cy0, cy1, cy2⟩ := centre_same_square iy hiy prec hprec
  have cx3 := cx2; rw [cx1] at cx3
  have cy3 := cy2; rw [cy1] at cy3
  refine ⟨?_, ?_, fun h => by rw [h]⟩
  · have h := encodeInt_utm zone hz northp (centre ix prec) (centre iy prec) cx0 cy0 iband' prec hprec (by rw [cx1, cy1]; exact hrow')
    rw [h]
    unfold utmString
    simp only [cx1, cy1, cx3, cy3]
  · simp [utmString]

/-- **re-encode law, UPS**: `Forward` of the centre of the square writes the same string (there is no band letter to change) -/
theorem reencode_ups (northp : Bool) (ix iy : Int) (hix : 0 ≤ ix) (hiy : 0 ≤ iy) (iband : Int) (prec : Nat) (hprec : prec ≤ 11) :
    encodeInt 0 northp (centre ix prec) (centre iy prec) iband prec = .ok (upsString northp ix iy prec) := by
  obtain ⟨cx0, cx1, cx2⟩ := centre_same_square ix hix prec hprec
  obtain ⟨cy0, cy1, cy2⟩ := centre_same_square iy hiy prec hprec
  have cx3 := cx2; rw [cx1] at cx3
  have cy3 := cy2; rw [cy1] at cy3
  rw [encodeInt_ups northp (centre ix prec) (centre iy prec) cx0 cy0 iband prec hprec]
  unfold upsString
  simp only [cx1, cy1, cx3, cy3]

/-- what `Reverse` returns for the string is that centre: `(2·x1 + 1)/(2·10^prec)` tiles with `x1 = ⌊ix / 10^(11−prec)⌋` is `centre` up to the
    half micrometre lost at precision 11 (integer level of `reverse_forward_*` with `centerp`) -/
theorem centre_is_reverse (ix : Int) (hix : 0 ≤ ix) (prec : Nat) (hprec : prec ≤ 11) :
    let x1 := (ix / 100000000000) * 10 ^ prec + (ix - 100000000000 * (ix / 100000000000)) / 10 ^ (11 - prec)
    centre ix prec = (100000000000 * (2 * x1 + 1)) / (2 * 10 ^ prec) := by
  unfold centre
  have hc : prec = 0 ∨ prec = 1 ∨ prec = 2 ∨ prec = 3 ∨ prec = 4 ∨ prec = 5 ∨ prec = 6 ∨ prec = 7 ∨ prec = 8 ∨ prec = 9 ∨ prec = 10 ∨ prec = 11 := by omega
  rcases hc with rfl | rfl | rfl | rfl | rfl | rfl | rfl | rfl | rfl | rfl | rfl | rfl <;>
    simp only [Nat.sub_zero, Nat.reduceSub, Int.reducePow, Nat.sub_self, Int.pow_zero] <;> omega

example : centre 444500000000 2 = 444500000000 ∧ centre 444123456789 2 = 444500000000 ∧ centre 444123456789 11 = 444123456789 := by decide


open GeoVerif.Props.C04 (fl_eq_floor val_ofInt ofInt_fin lt_ofInt_fin)

/-! ### `CheckCoords`: what is accepted, and the hemisphere folding -/

/-- **accepted ⇔** both coordinates are below 2³¹ in magnitude and each tile index lies in its half-open range or the coordinate sits exactly
    on the excluded upper end (tables re-extracted from MGRS.cpp; `ix = ⌊x / 10⁵⌋` in binary64) -/
theorem checkCoords_accept_iff (utmp northp : Bool) (x y : F64) :
    (∃ c, checkCoords utmp northp x y = .ok c) ↔
      (F64.lt (F64.abs x) (F64.ofInt 2147483647) && F64.lt (F64.abs y) (F64.ofInt 2147483647)) = true ∧
      (∃ x1, clampTile "easting out of range" (UTMUPS.fl (x / ftile)) (mgrs_tbl_mineasting.getD (UTMUPS.ind utmp northp) 0)
              (mgrs_tbl_maxeasting.getD (UTMUPS.ind utmp northp) 0) x = .ok x1) ∧
      (∃ y1, clampTile "northing out of range" (UTMUPS.fl (y / ftile)) (mgrs_tbl_minnorthing.getD (UTMUPS.ind utmp northp) 0)
              (mgrs_tbl_maxnorthing.getD (UTMUPS.ind utmp northp) 0)
              (if F64.lt y 0 && UTMUPS.fl (y / ftile) == 0 then 0 else y) = .ok y1) := by
  unfold checkCoords
  by_cases hb : (F64.lt (F64.abs x) (F64.ofInt 2147483647) && F64.lt (F64.abs y) (F64.ofInt 2147483647)) = true
  · simp only [hb, Bool.not_true, Bool.false_eq_true, if_false, true_and]
    cases hx : clampTile "easting out of range" (UTMUPS.fl (x / ftile)) (mgrs_tbl_mineasting.getD (UTMUPS.ind utmp northp) 0)
        (mgrs_tbl_maxeasting.getD (UTMUPS.ind utmp northp) 0) x with
    | error e => simp [bind, Except.bind]
    | ok x1 =>
      cases hy : clampTile "northing out of range" (UTMUPS.fl (y / ftile)) (mgrs_tbl_minnorthing.getD (UTMUPS.ind utmp northp) 0)
          (mgrs_tbl_maxnorthing.getD (UTMUPS.ind utmp northp) 0) (if F64.lt y 0 && UTMUPS.fl (y / ftile) == 0 then 0 else y) with
      | error e => simp [bind, Except.bind]
      | ok y1 => cases utmp <;> simp [bind, Except.bind, pure, Except.pure]
  · simp [hb, bind, Except.bind, throw, throwThe, MonadExceptOf.throw]


/-! ### equivalent labelling across the equator, on the binary64 model -/

/-- a representable value is its own rounding -/
theorem isRN_repr (g s : ℤ) (hg : |g| ≤ 2 ^ 53) (hs : -1074 ≤ s) :
    IsRN 53 (-1074) ((g:ℚ) * (2:ℚ) ^ s) ((g:ℚ) * (2:ℚ) ^ s) := by
  have h1 := roundTo_isRN 53 (-1074) ⟨g, s⟩
  have e := IsRN.eq_of_fits h1 g s hg hs rfl
  rw [e] at h1; exact h1

theorem ftile_fin : ftile = F64.fin false 100000 0 := rfl
theorem ftile_val : (F64.fin false 100000 0).val = 100000 := by rw [F64.val_fin]; norm_num

/-- the row of a northing in `[−9·10⁶, 0)` whose quotient by the tile size does not underflow is one of −90 … −1 -/
theorem north_row (s : Bool) (m : ℕ) (e : ℤ) (h1 : -9000000 ≤ (F64.fin s m e).val) (h2 : (F64.fin s m e).val < 0)
    (h3 : UTMUPS.fl (F64.fin s m e / ftile) ≠ 0) :
    -90 ≤ UTMUPS.fl (F64.fin s m e / ftile) ∧ UTMUPS.fl (F64.fin s m e / ftile) < 0 := by
  rw [ftile_fin] at h3 ⊢
  obtain ⟨r, hr, hfin⟩ := F64.div_fin s false m 100000 e 0 (by decide)
  rw [ftile_val] at hr
  set z := (F64.fin s m e).val / 100000 with hz
  have z1 : (-90 : ℚ) ≤ z := by rw [hz, le_div_iff₀ (by norm_num)]; linarith
  have z2 : z ≤ 0 := by rw [hz]; exact div_nonpos_of_nonpos_of_nonneg (le_of_lt h2) (by norm_num)
  have hzabs : |z| ≤ 2 ^ 52 := by rw [abs_le]; constructor <;> norm_num <;> linarith
  have r1 := hr.int_le (-90) (by norm_num) (by push_cast; exact z1)
  have r2 := hr.le_int 0 (by norm_num) (by push_cast; exact z2)
  push_cast at r1 r2
  obtain ⟨_, hv⟩ := hfin (hr.lt_huge hzabs)
  rw [fl_eq_floor, hv] at h3 ⊢
  have f1 : (-90 : ℤ) ≤ ⌊r⌋ := by rw [Int.le_floor]; push_cast; exact r1
  have f2 : ⌊r⌋ ≤ 0 := by
    have : ⌊r⌋ < 1 := by rw [Int.floor_lt]; push_cast; linarith
    omega
  exact ⟨f1, lt_of_le_of_ne f2 h3⟩


theorem shift_fin : F64.ofInt 10000000 = F64.fin false 10000000 0 := rfl
theorem shift_val : (F64.fin false 10000000 0).val = 10000000 := by rw [F64.val_fin]; norm_num

/-- the folded northing `y + 10⁷` (one rounding) is a finite double in `[10⁶, 10⁷]`, and if it is below `10⁷` it is at most the double before `10⁷` -/
theorem folded_northing (s : Bool) (m : ℕ) (e : ℤ) (h1 : -9000000 ≤ (F64.fin s m e).val) (h2 : (F64.fin s m e).val < 0) :
    ∃ s' m' e', F64.fin s m e + F64.ofInt 10000000 = F64.fin s' m' e' ∧ 1000000 ≤ (F64.fin s' m' e').val ∧ (F64.fin s' m' e').val ≤ 10000000 ∧
      ((F64.fin s' m' e').val < 10000000 → (F64.fin s' m' e').val ≤ 10000000 - (2:ℚ) ^ (-29 : ℤ)) := by
  rw [shift_fin]
  obtain ⟨r, hr, hfin⟩ := F64.add_fin_isRN s false m 10000000 e 0
  rw [shift_val] at hr
  set z := (F64.fin s m e).val + 10000000 with hz
  have z1 : (1000000 : ℚ) ≤ z := by rw [hz]; linarith
  have z2 : z < 10000000 := by rw [hz]; linarith
  have hzabs : |z| ≤ 2 ^ 52 := by rw [abs_le]; constructor <;> norm_num <;> linarith
  have r1 := hr.int_le 1000000 (by norm_num) (by push_cast; exact z1)
  have r2 := hr.le_int 10000000 (by norm_num) (by push_cast; exact le_of_lt z2)
  push_cast at r1 r2
  obtain ⟨hf, hv⟩ := hfin (hr.lt_huge hzabs)
  -- the sum is a finite double
  cases hsum : F64.fin s m e + F64.fin false 10000000 0 with
  | nan => rw [hsum] at hf; cases hf
  | inf b => rw [hsum] at hf; cases hf
  | fin s' m' e' =>
    rw [hsum] at hv
    refine ⟨s', m', e', rfl, by rw [hv]; exact r1, by rw [hv]; exact r2, ?_⟩
    rw [hv]
    intro hlt
    by_cases hbig : z ≤ 10000000 - (2:ℚ) ^ (-28 : ℤ)
    · -- far enough below: monotonicity against the representable bound 10⁷ − 2⁻²⁸
      have hrep := isRN_repr (10000000 * 2 ^ 28 - 1) (-28) (by norm_num) (by norm_num)
      have e28 : (((10000000 * 2 ^ 28 - 1 : ℤ) : ℚ)) * (2:ℚ) ^ (-28 : ℤ) = 10000000 - (2:ℚ) ^ (-28 : ℤ) := by
        push_cast; norm_num [zpow_neg]
      rw [e28] at hrep
      have := IsRN.mono (by norm_num) hr hrep hbig
      have h2928 : (2:ℚ) ^ (-29 : ℤ) ≤ (2:ℚ) ^ (-28 : ℤ) := by
        apply zpow_le_zpow_right₀ <;> norm_num
      linarith
    · -- within 2⁻²⁸ of 10⁷: the result lies on the grid 2⁻²⁹ of the binade [2²³, 2²⁴)
      have hbig := not_le.mp hbig
      have hz0 : z ≠ 0 := by linarith
      obtain ⟨E, k, b1, b2, hk, _, _⟩ := hr.nz hz0
      have hzpos : |z| = z := abs_of_pos (by linarith)
      rw [hzpos] at b1 b2
      have p28 : (2:ℚ) ^ (-28 : ℤ) ≤ 1 := by
        have : (2:ℚ) ^ (-28 : ℤ) ≤ (2:ℚ) ^ (0 : ℤ) := by apply zpow_le_zpow_right₀ <;> norm_num
        simpa using this
      have hE1 : E ≤ 24 := by
        have : (2:ℚ) ^ (E - 1) < (2:ℚ) ^ (24 : ℤ) := lt_of_le_of_lt b1 (by norm_num; linarith)
        have := Dy.two_zpow_lt_iff.mp this; omega
      have hE2 : 24 ≤ E := by
        have : (2:ℚ) ^ (23 : ℤ) < (2:ℚ) ^ E := lt_of_lt_of_le (by norm_num; linarith) (le_of_lt b2)
        have := Dy.two_zpow_lt_iff.mp this; omega
      have hE : E = 24 := by omega
      subst hE
      have hg : max ((24:ℤ) - (53:ℕ)) (-1074) = -29 := by norm_num
      rw [hg] at hk
      -- r = k · 2⁻²⁹ < 10⁷ = (10⁷ · 2²⁹) · 2⁻²⁹
      have hp : (0:ℚ) < (2:ℚ) ^ (-29 : ℤ) := by positivity
      have e29 : (10000000 : ℚ) = ((10000000 * 2 ^ 29 : ℤ) : ℚ) * (2:ℚ) ^ (-29 : ℤ) := by
        push_cast; norm_num [zpow_neg]
      rw [hk, e29] at hlt
      have hklt : k < 10000000 * 2 ^ 29 := by
        have := lt_of_mul_lt_mul_right hlt (le_of_lt hp)
        exact_mod_cast this
      have hkle : (k:ℚ) ≤ ((10000000 * 2 ^ 29 - 1 : ℤ) : ℚ) := by exact_mod_cast (by omega : k ≤ 10000000 * 2 ^ 29 - 1)
      rw [hk]
      calc (k:ℚ) * (2:ℚ) ^ (-29 : ℤ) ≤ ((10000000 * 2 ^ 29 - 1 : ℤ) : ℚ) * (2:ℚ) ^ (-29 : ℤ) := by
            exact mul_le_mul_of_nonneg_right hkle (le_of_lt hp)
        _ = 10000000 - (2:ℚ) ^ (-29 : ℤ) := by
            push_cast; norm_num [zpow_neg]


/-- the row of a southern northing in `[10⁶, 10⁷]`: 100 exactly on the equator, 10 … 99 below the last double before it -/
theorem south_row (s : Bool) (m : ℕ) (e : ℤ) (h1 : 1000000 ≤ (F64.fin s m e).val) (h2 : (F64.fin s m e).val ≤ 10000000) :
    ((F64.fin s m e).val = 10000000 → UTMUPS.fl (F64.fin s m e / ftile) = 100) ∧
    ((F64.fin s m e).val ≤ 10000000 - (2:ℚ) ^ (-29 : ℤ) → 10 ≤ UTMUPS.fl (F64.fin s m e / ftile) ∧ UTMUPS.fl (F64.fin s m e / ftile) < 100) := by
  rw [ftile_fin]
  obtain ⟨r, hr, hfin⟩ := F64.div_fin s false m 100000 e 0 (by decide)
  rw [ftile_val] at hr
  set z := (F64.fin s m e).val / 100000 with hz
  have z1 : (10 : ℚ) ≤ z := by rw [hz, le_div_iff₀ (by norm_num)]; linarith
  have z2 : z ≤ 100 := by rw [hz, div_le_iff₀ (by norm_num)]; linarith
  have hzabs : |z| ≤ 2 ^ 52 := by rw [abs_le]; constructor <;> norm_num <;> linarith
  have r1 := hr.int_le 10 (by norm_num) (by push_cast; exact z1)
  have r2 := hr.le_int 100 (by norm_num) (by push_cast; exact z2)
  push_cast at r1 r2
  obtain ⟨_, hv⟩ := hfin (hr.lt_huge hzabs)
  rw [fl_eq_floor, hv]
  constructor
  · intro heq
    have hz100 : z = 100 := by rw [hz, heq]; norm_num
    have r3 := hr.int_le 100 (by norm_num) (by push_cast; rw [hz100])
    push_cast at r3
    have : r = 100 := le_antisymm r2 r3
    rw [this]; norm_num
  · intro hle
    have hz' : z ≤ 100 - (2:ℚ) ^ (-46 : ℤ) := by
      rw [hz, div_le_iff₀ (by norm_num)]
      have : (2:ℚ) ^ (-29 : ℤ) ≥ (2:ℚ) ^ (-46 : ℤ) * 100000 := by norm_num [zpow_neg]
      linarith
    have hrep := isRN_repr (100 * 2 ^ 46 - 1) (-46) (by norm_num) (by norm_num)
    have e46 : (((100 * 2 ^ 46 - 1 : ℤ) : ℚ)) * (2:ℚ) ^ (-46 : ℤ) = 100 - (2:ℚ) ^ (-46 : ℤ) := by
      push_cast; norm_num [zpow_neg]
    rw [e46] at hrep
    have r4 := IsRN.mono (by norm_num) hr hrep hz'
    have hp : (0:ℚ) < (2:ℚ) ^ (-46 : ℤ) := by positivity
    constructor
    · rw [Int.le_floor]; push_cast; exact r1
    · rw [Int.floor_lt]; push_cast; linarith

/-- `x < N` and `x = N` for a finite double and an integer, in terms of the value -/
theorem eq_ofInt_fin (n : ℤ) (s : Bool) (m : ℕ) (e : ℤ) : F64.eq (F64.fin s m e) (F64.ofInt n) = true ↔ (F64.fin s m e).val = n := by
  rw [ofInt_fin]
  have : F64.eq (F64.fin s m e) (F64.fin (decide (n < 0)) n.natAbs 0)
      = Dy.eq (F64.fin s m e).toDy (F64.fin (decide (n < 0)) n.natAbs 0).toDy := rfl
  rw [this, Dy.eq_iff, ← ofInt_fin]
  have h := val_ofInt n
  unfold F64.val at h
  rw [h]; rfl

theorem abs_lt_imax (s : Bool) (m : ℕ) (e : ℤ) (h : |(F64.fin s m e).val| < 2147483647) :
    F64.lt (F64.abs (F64.fin s m e)) (F64.ofInt 2147483647) = true := by
  show F64.lt (F64.fin false m e) (F64.ofInt 2147483647) = true
  rw [lt_ofInt_fin]
  have : (F64.fin false m e).val = |(F64.fin s m e).val| := by
    rw [F64.val_fin, F64.val_fin]
    have hp : (0:ℚ) ≤ (m:ℚ) * (2:ℚ) ^ e := by positivity
    cases s
    · simp only [Bool.false_eq_true, if_false]; rw [abs_of_nonneg hp]
    · simp only [if_true, Bool.false_eq_true, if_false]; rw [neg_mul, abs_neg, abs_of_nonneg hp]
  rw [this]; exact_mod_cast h

/-- **`CheckCoords` does not depend on which hemisphere label carries a UTM northing across the equator**: for a "northern" northing
    `y ∈ [−9·10⁶, 0)` (not so small that `y / 10⁵` underflows to zero) the call with the northern label and the call with the southern label and
    northing `y + 10⁷` (the binary64 sum) return the same folded coordinates -/
theorem checkCoords_labelling (x : F64) (s : Bool) (m : ℕ) (e : ℤ) (h1 : -9000000 ≤ (F64.fin s m e).val) (h2 : (F64.fin s m e).val < 0)
    (h3 : UTMUPS.fl (F64.fin s m e / ftile) ≠ 0) :
    checkCoords true true x (F64.fin s m e) = checkCoords true false x (F64.fin s m e + F64.ofInt 10000000) := by
  obtain ⟨n1, n2⟩ := north_row s m e h1 h2 h3
  obtain ⟨s', m', e', hsum, f1, f2, f3⟩ := folded_northing s m e h1 h2
  obtain ⟨c1, c2⟩ := south_row s' m' e' f1 f2
  rw [hsum]
  have gy : F64.lt (F64.abs (F64.fin s m e)) (F64.ofInt 2147483647) = true :=
    abs_lt_imax s m e (by rw [abs_lt]; constructor <;> linarith)
  have gy' : F64.lt (F64.abs (F64.fin s' m' e')) (F64.ofInt 2147483647) = true :=
    abs_lt_imax s' m' e' (by rw [abs_lt]; constructor <;> linarith)
  have ylt : F64.lt (F64.fin s' m' e') 0 = false := by
    have z : (0 : F64) = F64.ofInt 0 := rfl
    rw [z, Bool.eq_false_iff, Ne, lt_ofInt_fin]; push_cast; linarith
  have ne0 : (UTMUPS.fl (F64.fin s m e / ftile) == 0) = false := by simpa using h3
  have tE : mgrs_tbl_mineasting.getD (UTMUPS.ind true true) 0 = mgrs_tbl_mineasting.getD (UTMUPS.ind true false) 0 ∧
      mgrs_tbl_maxeasting.getD (UTMUPS.ind true true) 0 = mgrs_tbl_maxeasting.getD (UTMUPS.ind true false) 0 := by decide
  have tN : mgrs_tbl_minnorthing.getD (UTMUPS.ind true true) 0 = -90 ∧ mgrs_tbl_maxnorthing.getD (UTMUPS.ind true true) 0 = 95 ∧
      mgrs_tbl_minnorthing.getD (UTMUPS.ind true false) 0 = 10 ∧ mgrs_tbl_maxnorthing.getD (UTMUPS.ind true false) 0 = 195 := by decide
  have hsh : F64.fin s m e + F64.ofInt mgrs_utmNshift = F64.fin s' m' e' := hsum
  have hS : mgrs_maxutmSrow * tile = 10000000 := by decide
  unfold checkCoords
  simp only [gy, gy', Bool.and_true, ylt, ne0, Bool.and_false, Bool.false_and, Bool.false_eq_true, if_false, tE.1, tE.2, tN.1, tN.2.1, tN.2.2.1, tN.2.2.2,
    if_true]
  cases hx : clampTile "easting out of range" (UTMUPS.fl (x / ftile)) (mgrs_tbl_mineasting.getD (UTMUPS.ind true false) 0)
      (mgrs_tbl_maxeasting.getD (UTMUPS.ind true false) 0) x with
  | error er => cases hgx : F64.lt (F64.abs x) (F64.ofInt 2147483647) <;> simp [bind, Except.bind, throw, throwThe, MonadExceptOf.throw]
  | ok x1 =>
    cases hgx : F64.lt (F64.abs x) (F64.ofInt 2147483647)
    · simp [bind, Except.bind, throw, throwThe, MonadExceptOf.throw]
    · have k1 : clampTile "northing out of range" (UTMUPS.fl (F64.fin s m e / ftile)) (-90) 95 (F64.fin s m e) = .ok (F64.fin s m e) := by
        unfold clampTile; rw [if_pos ⟨n1, by omega⟩]
      by_cases heq : (F64.fin s' m' e').val = 10000000
      · have r100 := c1 heq
        have k2 : clampTile "northing out of range" 100 10 195 (F64.fin s' m' e') = .ok (F64.fin s' m' e') := by
          unfold clampTile; rw [if_pos ⟨by omega, by omega⟩]
        have hS' : (100 : ℤ) * tile = 10000000 := by decide
        have eqt : F64.eq (F64.fin s' m' e') (F64.ofInt (100 * tile)) = true := by
          rw [hS', eq_ofInt_fin]; exact_mod_cast heq
        simp [bind, Except.bind, pure, Except.pure, k1, k2, foldNorthing, n2, mgrs_minutmNrow, hsh, eqt, r100, mgrs_maxutmSrow]
      · have hlt : (F64.fin s' m' e').val < 10000000 := lt_of_le_of_ne f2 heq
        obtain ⟨r10, r99⟩ := c2 (f3 hlt)
        have k2 : clampTile "northing out of range" (UTMUPS.fl (F64.fin s' m' e' / ftile)) 10 195 (F64.fin s' m' e') = .ok (F64.fin s' m' e') := by
          unfold clampTile; rw [if_pos ⟨by omega, by omega⟩]
        have eqf : F64.eq (F64.fin s' m' e') (F64.ofInt (mgrs_maxutmSrow * tile)) = false := by
          rw [hS, Bool.eq_false_iff, Ne, eq_ofInt_fin]; exact_mod_cast heq
        have nge : ¬ (UTMUPS.fl (F64.fin s' m' e' / ftile) ≥ mgrs_maxutmSrow) := by show ¬ (_ ≥ (100:ℤ)); omega
        simp [bind, Except.bind, pure, Except.pure, k1, k2, foldNorthing, n2, mgrs_minutmNrow, hsh, eqf, nge]


/-- **equivalent labelling** (MGRS.hpp: "UTM northings can be continued across the equator"): on the binary64 model, for every UTM zone, easting,
    latitude argument and precision, `Forward(zone, north, x, y, lat, prec)` with `−9·10⁶ ≤ y < 0` is `Forward(zone, south, x, y + 10⁷, lat, prec)`
    — the same string or the same exception — where `y + 10⁷` is the binary64 sum (since fix d94b3ac also when that sum rounds to `10⁷`).
    Excluded: `|y|` so small that `y / 10⁵` underflows to zero (below about 10⁻³¹⁸ m; the point is then taken to be on the equator, band N). -/
theorem equivalent_labelling (zone : Int) (hz : zone ≠ 0) (x lat : F64) (prec : Int) (s : Bool) (m : ℕ) (e : ℤ)
    (h1 : -9000000 ≤ (F64.fin s m e).val) (h2 : (F64.fin s m e).val < 0) (h3 : UTMUPS.fl (F64.fin s m e / ftile) ≠ 0) :
    forwardLat zone true x (F64.fin s m e) lat prec = forwardLat zone false x (F64.fin s m e + F64.ofInt 10000000) lat prec := by
  have hc := checkCoords_labelling x s m e h1 h2 h3
  obtain ⟨s', m', e', hsum, _, _, _⟩ := folded_northing s m e h1 h2
  unfold forwardLat
  have n1 : (F64.fin s m e).isNaN = false := rfl
  have n2 : (F64.fin s m e + F64.ofInt 10000000).isNaN = false := by rw [hsum]; rfl
  have hu : decide (zone ≠ 0) = true := by simpa using hz
  simp only [n1, n2, hu, hc]

/-- the overload without a latitude argument: the same, whenever the cheap latitude estimates of the two labellings select the same latitude
    (they are computed from `y` resp. `(y + 10⁷) − 10⁷`, which differ by the rounding of the sum) -/
theorem equivalent_labelling_auto (zone : Int) (hz : zone > 0) (x : F64) (prec : Int) (k : Except MGRS.Err F64) (s : Bool) (m : ℕ) (e : ℤ)
    (h1 : -9000000 ≤ (F64.fin s m e).val) (h2 : (F64.fin s m e).val < 0) (h3 : UTMUPS.fl (F64.fin s m e / ftile) ≠ 0)
    (hl : latEstimate true (F64.fin s m e) = latEstimate false (F64.fin s m e + F64.ofInt 10000000)) :
    forward zone true x (F64.fin s m e) prec k = forward zone false x (F64.fin s m e + F64.ofInt 10000000) prec k := by
  unfold forward
  simp only [hz, if_true, hl]
  cases latEstimate false (F64.fin s m e + F64.ofInt 10000000) with
  | some l => simp only [bind, Except.bind, pure, Except.pure]; exact equivalent_labelling zone (by omega) x l prec s m e h1 h2 h3
  | none =>
    cases k with
    | error er => rfl
    | ok l => simp only [bind, Except.bind]; exact equivalent_labelling zone (by omega) x l prec s m e h1 h2 h3

/-- non-vacuity: y = −1234567.25 m (row −13) and y = −2⁻⁴⁰ m (the sum rounds to 10⁷) satisfy the hypotheses; zone 31, 500 km east, precision 5 -/
example : (-9000000 : ℚ) ≤ (F64.fin true 4938269 (-2)).val ∧ (F64.fin true 4938269 (-2)).val < 0 := by
  rw [F64.val_fin]; norm_num [zpow_neg]
example : UTMUPS.fl (F64.fin true 4938269 (-2) / ftile) = -13 ∧ UTMUPS.fl (F64.fin true 1 (-40) / ftile) = -1 := by decide +kernel
example : (match forwardLat 31 true (F64.ofInt 500000) (F64.fin true 1 (-40)) (F64.fin true 1 (-60)) 5,
                 forwardLat 31 false (F64.ofInt 500000) (F64.fin true 1 (-40) + F64.ofInt 10000000) (F64.fin true 1 (-60)) 5 with
    | .ok a, .ok b => a == b && a == "31MEV0000099999".toList | _, _ => false) = true := by decide +kernel


end GeoVerif.Props.C05
