import GeoVerif.Model.Rhumb
import GeoVerif.Model.RhumbSeries
import GeoVerif.Model.RhumbExact
import GeoVerif.Proofs.Rhumb
import GeoVerif.Proofs.RhumbSeries
import GeoVerif.Proofs.RhumbExact
import Mathlib.Analysis.Real.Pi.Bounds
import GeoVerif.Gen.RhumbArea
import GeoVerif.Proofs.RhumbCert
/-!
# C09 — rhumb lines: property theorems

All statements are about the definitions of `Model/Rhumb.lean` — the same terms the driver executes in binary64
(`dd`, `dde`, `rinv`) or over the exact `F64` softfloat (`rdir`) against the implementation — read at type `ℝ`.
Helper lemmas are in `Proofs/Rhumb.lean`.
-/
namespace GeoVerif.Props.C09
open GeoVerif GeoVerif.Rhumb GeoVerif.RhumbS GeoVerif.RhumbX GeoVerif.Proofs.Rhumb GeoVerif.Proofs.RhumbSeries GeoVerif.Proofs.RhumbExact Real

/-! ### the divided-difference helpers are divided differences (every branch), with the confluent value at `x = y` -/

/-- `Dsn(x, y)·(y − x) = sn y − sn x` for all real `x, y` (both the product branch `x y > 0` and the plain one);
    for `x ≠ y` this is `Dsn = (sn y − sn x)/(y − x)` -/
theorem Dsn_dd (x y : ℝ) : Dsn x y * (y - x) = sn y - sn x := dsn_dd x y

/-- confluent value: `Dsn(x, x) = sn′(x) = (1 + x²)^(−3/2)` -/
theorem Dsn_confluent (x : ℝ) : Dsn x x = 1 / (Real.sqrt (1 + x ^ 2) * (1 + x ^ 2)) := dsn_confluent x

/-- `Datan(x, y)·(y − x) = atan y − atan x` (addition-theorem branch `2xy > −1` and plain branch) -/
theorem Datan_dd (x y : ℝ) : Datan x y * (y - x) = Real.arctan y - Real.arctan x := datan_dd x y

theorem Datan_confluent (x : ℝ) : Datan x x = 1 / (1 + x ^ 2) := datan_confluent x

/-- `Dasinh(x, y)·(y − x) = asinh y − asinh x` (both Kahan–Fateman forms for `x y > 0`, plain form otherwise) -/
theorem Dasinh_dd (x y : ℝ) : Dasinh x y * (y - x) = Real.arsinh y - Real.arsinh x := dasinh_dd x y

theorem Dasinh_confluent (x : ℝ) : Dasinh x x = 1 / Real.sqrt (1 + x ^ 2) := dasinh_confluent x

/-- `Dh(x, y)·(y − x) = h y − h x`, `h(t) = t·sn(t)/2`, in all three branches (underflow shelter, plain, product form) -/
theorem Dh_dd (x y : ℝ) : Dh x y * (y - x) = hfun y - hfun x := dh_dd x y

/-- `Dlam`: divided difference of `lam = asinh(tan χ)` with respect to `χ = atan(tan χ)`:
    `Dlam(x, y)·(atan y − atan x) = asinh y − asinh x`; confluent value `sec χ` -/
theorem Dlam_dd (x y : ℝ) : Dlam x y * (Real.arctan y - Real.arctan x) = Real.arsinh y - Real.arsinh x := dlam_dd x y

theorem Dlam_confluent (x : ℝ) : Dlam x x = Real.sqrt (1 + x ^ 2) := dlam_confluent x

/-- `Dp0Dpsi`: divided difference of `p0 = asinh(h(tan χ))` with respect to `ψ = asinh(tan χ)`;
    confluent value `sin χ` -/
theorem Dp0Dpsi_dd (x y : ℝ) :
    Dp0Dpsi x y * (Real.arsinh y - Real.arsinh x) = Real.arsinh (hfun y) - Real.arsinh (hfun x) := dp0dpsi_dd x y

theorem Dp0Dpsi_confluent (x : ℝ) : Dp0Dpsi x x = sn x := by simp [Dp0Dpsi]

/-- non-vacuity of the product branches: at `x = 1, y = 2` the helpers take their cancellation-free forms -/
example : Dsn (1 : ℝ) 2 * (2 - 1) = sn (2 : ℝ) - sn 1 := Dsn_dd 1 2

/-! ### `DClenshaw` is the divided difference of the Clenshaw sums -/

/-- for every coefficient list and all angles `ζ₁ ≠ ζ₂`:
    `DClenshaw(sinp, ζ₂ − ζ₁, sin ζ₁, cos ζ₁, sin ζ₂, cos ζ₂, c)·(ζ₂ − ζ₁) = Clenshaw(sinp, ζ₂, c) − Clenshaw(sinp, ζ₁, c)`
    (the code's `Delta ≠ 1` reading; with `Delta = 1` it returns the plain difference, `dclenshaw_diff`) -/
theorem dclenshaw_dd (sinp : Bool) (z1 z2 : ℝ) (cs : List ℝ) (hne : z2 - z1 ≠ 0) (h1 : z2 - z1 ≠ 1) :
    DClenshaw sinp (z2 - z1) (sin z1) (cos z1) (sin z2) (cos z2) cs * (z2 - z1)
      = clenshaw sinp (sin z2) (cos z2) cs - clenshaw sinp (sin z1) (cos z1) cs :=
  dclenshaw_dd' sinp z1 z2 cs hne h1

/-- `Delta = 1`: the plain difference of the two sums, for any two points on the unit circle -/
theorem dclenshaw_diff (sinp : Bool) (s1 c1 s2 c2 : ℝ) (cs : List ℝ) (h1 : s1 ^ 2 + c1 ^ 2 = 1) (h2 : s2 ^ 2 + c2 ^ 2 = 1) :
    DClenshaw sinp 1 s1 c1 s2 c2 cs = clenshaw sinp s2 c2 cs - clenshaw sinp s1 c1 cs :=
  dclenshaw_diff' sinp s1 c1 s2 c2 cs h1 h2

/-- the matrix recurrence itself: its state is (mean, half divided difference) of the two scalar Clenshaw recurrences
    with `X₂ = Xa + D·Xb`, `X₁ = Xa − D·Xb`, for every coefficient list -/
theorem dclen_pair (Xa Xb D : ℝ) (cs : List ℝ) :
    (dclen Xa Xb (D * D) cs).1.1 = ((clen (Xa + D * Xb) cs).1 + (clen (Xa - D * Xb) cs).1) / 2 ∧
    (dclen Xa Xb (D * D) cs).1.2 * D = ((clen (Xa + D * Xb) cs).1 - (clen (Xa - D * Xb) cs).1) / 2 ∧
    (dclen Xa Xb (D * D) cs).2.1 = ((clen (Xa + D * Xb) cs).2 + (clen (Xa - D * Xb) cs).2) / 2 ∧
    (dclen Xa Xb (D * D) cs).2.2 * D = ((clen (Xa + D * Xb) cs).2 - (clen (Xa - D * Xb) cs).2) / 2 :=
  dclen_inv Xa Xb D cs

example : ((3:ℝ)/5) ^ 2 + ((4:ℝ)/5) ^ 2 = 1 := by norm_num

example : (0.3 : ℝ) - 0.1 ≠ 0 ∧ (0.3 : ℝ) - 0.1 ≠ 1 := by norm_num

/-! ### beyond the pole: the two-step reduction of `GenPosition` -/

/- `NormContract norm` (Proofs/Rhumb.lean): the contract of `Math::AngNormalize` (C16; decided exactly by the driver on every
   sampled input): `∀ x, |norm x| ≤ 180 ∧ ∃ k : ℤ, norm x = x − 360 k`.  `angReal` is the real reading of the operations. -/

/-- **pole wrap**: for every real rectifying latitude `mu2` (in particular every `|mu2| > 90`, any number of circuits)
    and every normaliser satisfying the contract, the code's two-step reduction returns `z ∈ [−90, 90]` which is
    `mu2` or its reflection `180 − mu2` up to whole turns — the rectifying latitude of the point reached on the meridian
    circle (same sine) -/
theorem pole_wrap (norm : ℝ → ℝ) (hn : NormContract norm) (mu2 : ℝ) :
    |poleFold angReal norm mu2| ≤ 90 ∧
    ∃ k : ℤ, poleFold angReal norm mu2 = mu2 - 360 * k ∨ poleFold angReal norm mu2 = 180 - mu2 - 360 * k :=
  pole_wrap' norm hn mu2

/-- hence the sine of the returned rectifying latitude (in degrees) is that of `mu2` -/
theorem pole_wrap_sin (norm : ℝ → ℝ) (hn : NormContract norm) (mu2 : ℝ) :
    sin (poleFold angReal norm mu2 * π / 180) = sin (mu2 * π / 180) :=
  pole_wrap_sin' norm hn mu2

/-- a normaliser satisfying the contract exists (non-vacuity) and on it `mu2 = 300` (more than three quarter
    circles) is mapped to `−60` by the two-step form … -/
theorem pole_wrap_example : ∃ norm, NormContract norm ∧ poleFold angReal norm 300 = -60 := pole_wrap_example'

/-- … while the one-step form (first normalisation dropped, seeded change C09B) leaves [−90, 90]: it returns `−120` -/
theorem one_step_refuted : ∃ norm, NormContract norm ∧ poleFoldOneStep angReal norm 300 = -120 ∧ ¬ |poleFoldOneStep angReal norm 300| ≤ 90 :=
  one_step_refuted'

/-! ### the inverse wrapper: a course of constant azimuth joining the points, at most 180° of longitude -/

/- `DiffContract lon1 lon2 lon12` (Proofs/Rhumb.lean): what `Math::AngDiff(lon1, lon2)` guarantees (C16):
   `|lon12| ≤ 180` and `∃ k : ℤ, lon12 = lon2 − lon1 − 360 k`. -/

/-- **rhumb_inverse_shortest**: with `lon12` from the AngDiff contract the returned course wraps at most half way round
    (`|lam12| ≤ π`), its azimuth `α = atan2(lam12, psi12)` is that of the straight line from `(ψ₁, 0)` to `(ψ₂, lam12)` on the
    Mercator chart: `hypot·sin α = lam12`, `hypot·cos α = psi12` (so `lam12 = tan α · psi12`, with the right signs), and
    `s12 · cos α = R · dmudpsi · psi12` — the meridian-arc difference over `cos α` when `dmudpsi = Δμ/Δψ`.
    Tie rule *as coded*: nothing here forces `lon12 = +180` on opposite meridians; the code keeps the sign of
    `lon2 − lon1` (finding F4; the header promises the east-going course). -/
theorem rhumb_inverse_shortest (lon1 lon2 lon12 : ℝ) (K : InvKernels ℝ) (hc : DiffContract lon1 lon2 lon12)
    (hne : lon12 ≠ 0 ∨ K.psi2 - K.psi1 ≠ 0) :
    let r := inverseCore (π / 180) lon12 K false
    let lam12 := lon12 * (π / 180)
    let psi12 := K.psi2 - K.psi1
    |lam12| ≤ π ∧
    Real.sqrt (lam12 ^ 2 + psi12 ^ 2) * sin r.2.1 = lam12 ∧
    Real.sqrt (lam12 ^ 2 + psi12 ^ 2) * cos r.2.1 = psi12 ∧
    r.1 * cos r.2.1 = K.rm * K.dmudpsi * psi12 ∧
    r.2.2 = K.c2 * lon12 * K.msx :=
  rhumb_inverse_shortest' lon1 lon2 lon12 K hc hne

example : DiffContract 10 (-170) (-180) := ⟨by norm_num, ⟨0, by norm_num⟩⟩


/-! ## Deepening round: the whole series path (`Model/RhumbSeries.lean`) and the exact path (`Model/RhumbExact.lean`)

All statements below are about the definitions the driver executes in the running-error arithmetic against the implementation
(ops `rh_const`, `rh_inv`, `rh_pos`, `rh_dconv`, `rh_msx`, `rh_de`, `rh_drect`, `rh_xinv`, `rh_xpos`), read at `ℝ`, and hold for **every**
coefficient list (in particular for the tables re-extracted from `AuxLatitude.cpp` / `Rhumb.cpp` on this run).
`serA c ζ = ζ + Σ_k c_k sin((2k+2)ζ)` is the series auxiliary latitude with the sum taken as the code's Clenshaw sum;
`psiOf χ = asinh(tan χ)`; `p0Of χ = asinh(h(tan χ))`; `pOf P β = Σ_l P_l cos((2l+2)β)` (Clenshaw). -/

/-! ### `AuxLatitude::Convert` (series) and `DAuxLatitude::DConvert` -/

/-- `Convert(auxin, auxout, ζ, exact = false)` on any representative `r (sin ζ, cos ζ)`, `r > 0`, of the angle `ζ` returns the unit point of
    the series latitude `η = ζ + Σ c_k sin((2k+2)ζ)` — provided the correction is below a right angle (the code skips the rotation when
    `tan d = 0`, which is right only for `d = 0`) -/
theorem convert_is_series (c : List ℝ) (r ζ : ℝ) (hr : 0 < r) (hd : |clenshaw true (sin ζ) (cos ζ) c| < π / 2) :
    convertS c (r * sin ζ, r * cos ζ) = (sin (serA c ζ), cos (serA c ζ)) := convertS_angle c r ζ hr hd

example : |clenshaw true (sin (1:ℝ)) (cos 1) []| < π / 2 := by simp [clenshaw, clen, lit0]; positivity

/-- **`DConvert` is the divided difference of `Convert`**: for angles `ζ₁, ζ₂ ∈ (−π, π]` given by any representatives,
    `DConvert · (ζ₂ − ζ₁) = η(ζ₂) − η(ζ₁)` (also when `ζ₂ − ζ₁ = 1`, where `DClenshaw` switches to its plain-difference reading, and
    trivially when `ζ₁ = ζ₂`) — the lift of `dclenshaw_dd` to the full function (normalisation, `radians()`, `1 +`) -/
theorem DConvert_dd (c : List ℝ) (r1 r2 z1 z2 : ℝ) (hr1 : 0 < r1) (hr2 : 0 < r2) (h1 : -π < z1 ∧ z1 ≤ π) (h2 : -π < z2 ∧ z2 ≤ π) :
    dconvert c (r1 * sin z1, r1 * cos z1) (r2 * sin z2, r2 * cos z2) * (z2 - z1) = serA c z2 - serA c z1 :=
  dconvert_dd' c r1 r2 z1 z2 hr1 hr2 h1 h2

example : (0:ℝ) < 2 ∧ (-π < (1:ℝ) ∧ (1:ℝ) ≤ π) := ⟨by norm_num, by linarith [Real.pi_gt_three], by linarith [Real.pi_gt_three]⟩

/-- **confluent case**: `DConvert(ζ, ζ)` is the derivative of the series latitude at `ζ` -/
theorem DConvert_confluent (c : List ℝ) (r1 r2 z : ℝ) (hr1 : 0 < r1) (hr2 : 0 < r2) :
    HasDerivAt (serA c) (dconvert c (r1 * sin z, r1 * cos z) (r2 * sin z, r2 * cos z)) z := dconvert_confluent' c r1 r2 z hr1 hr2

/-- `DClenshaw` on the angles `z`, `z + Δ` with `Delta = Δ`: the divided difference for **every** `Δ` (no exception at `Δ = 1`) … -/
theorem dclenshaw_dd_all (sinp : Bool) (z Δ : ℝ) (cs : List ℝ) :
    DClenshaw sinp Δ (sin z) (cos z) (sin (z + Δ)) (cos (z + Δ)) cs * Δ
      = clenshaw sinp (sin (z + Δ)) (cos (z + Δ)) cs - clenshaw sinp (sin z) (cos z) cs := dclenshaw_angle sinp z Δ cs

/-- … and for `Δ = 0` the derivative of the Clenshaw sum (sine and cosine series) -/
theorem dclenshaw_confluent (sinp : Bool) (z : ℝ) (cs : List ℝ) :
    HasDerivAt (fun x => clenshaw sinp (sin x) (cos x) cs) (DClenshaw sinp 0 (sin z) (cos z) (sin z) (cos z) cs) z :=
  dclenshaw_hasDerivAt sinp z cs

/-! ### `Rhumb::GenInverse` (series): the exact rhumb inverse of the series auxiliary latitudes -/

/-- `dmu/dpsi` of both series solvers: `dmudpsi · (ψ₂ − ψ₁) = μ(χ₂) − μ(χ₁)` for conformal latitudes `χ₁, χ₂ ∈ (−π/2, π/2)`,
    `μ = χ + Σ c_k sin((2k+2)χ)` the χ→μ series -/
theorem dmudpsi_series_dd (P : Params ℝ) (x y : ℝ) (hx : |x| < π / 2) (hy : |y| < π / 2) :
    dmudpsiS P (sin x, cos x) (sin y, cos y) * (psiOf y - psiOf x) = serA P.cMuChi y - serA P.cMuChi x := dmudpsiS_dd P x y hx hy

/-- on a parallel: `dmudpsi = μ′(χ) cos χ` -/
theorem dmudpsi_series_parallel (P : Params ℝ) (x : ℝ) (hx : |x| < π / 2) :
    ∃ m' : ℝ, HasDerivAt (serA P.cMuChi) m' x ∧ dmudpsiS P (sin x, cos x) (sin x, cos x) = m' * cos x := dmudpsiS_confluent P x hx

example : |(1:ℝ)| < π / 2 := by rw [abs_of_pos one_pos]; linarith [Real.pi_gt_three]

/- `ChiOK P φ` (Proofs/RhumbSeries.lean): the φ→χ correction at `φ` is below a right angle and `|χ(φ)| < π/2` (not a pole). -/

/-- **the series rhumb inverse is the exact rhumb inverse of the series auxiliary latitudes**: with `χᵢ = χ(φᵢ)` (φ→χ series),
    `ψᵢ = asinh tan χᵢ`, `λ₁₂ = lon12 · π/180`, `μ` the χ→μ series and `R = _rm`, the triple `(s12, azi12, S12)` returned by `GenInverse`
    satisfies: `azi12` is the direction (degrees, `(−180, 180]`) of `(ψ₂ − ψ₁, λ₁₂)` on the Mercator chart — so `tan azi12 = λ₁₂/(ψ₂ − ψ₁)` with
    the right quadrant; `s12 cos azi12 = R (μ(χ₂) − μ(χ₁))` — the series meridian-arc difference over `cos azi12`;
    `s12 sin azi12 = λ₁₂ · dmudpsi · R`; `s12 = hypot(λ₁₂, ψ₁₂) · dmudpsi · R` (on a parallel `dmudpsi = μ′(χ) cos χ`, `dmudpsi_series_parallel`:
    the parallel-circle length); `S12 = _c2 · lon12 · MeanSinXi` -/
theorem geninverse_series (P : Params ℝ) (φ1 φ2 lon12 : ℝ) (h1 : ChiOK P φ1) (h2 : ChiOK P φ2) :
    let r := genInverseS P (sin φ1, cos φ1) (sin φ2, cos φ2) lon12
    let χ1 := serA P.cChiPhi φ1
    let χ2 := serA P.cChiPhi φ2
    let lam12 := lon12 * (π / 180)
    let psi12 := psiOf χ2 - psiOf χ1
    let D := dmudpsiS P (sin χ1, cos χ1) (sin χ2, cos χ2)
    (¬ (psi12 = 0 ∧ lam12 = 0) → r.2.1 = GeoVerif.Props.C16.argd lam12 psi12) ∧
    r.1 * cos (r.2.1 * π / 180) = P.rm * (serA P.cMuChi χ2 - serA P.cMuChi χ1) ∧
    r.1 * sin (r.2.1 * π / 180) = lam12 * D * P.rm ∧
    r.1 = Real.sqrt (lam12 ^ 2 + psi12 ^ 2) * D * P.rm ∧
    r.2.2 = P.c2 * lon12 * meanSinXi P (sin χ1, cos χ1) (sin χ2, cos χ2) :=
  genInverseS_identities P φ1 φ2 lon12 h1 h2

/-- the sphere (`sphereParams`: all coefficient lists empty) satisfies the hypotheses at every latitude short of the poles -/
example : ChiOK sphereParams 1 :=
  ⟨by show |clenshaw true (sin 1) (cos 1) []| < π / 2; rw [sphere_clenshaw]; simp; positivity,
   by show |serA [] 1| < π / 2; rw [sphere_serA, abs_of_pos one_pos]; linarith [Real.pi_gt_three]⟩

/-! ### `Rhumb::MeanSinXi` (series): the coded area formula is the Clenshaw divided difference of the series -/

/- `BetaOK P χ`: the two-step conversion χ → φ → β of `MeanSinXi` stays on the principal branch; `betaVia P χ = B(Φ(χ))`. -/

/-- for conformal latitudes `χx, χy ∈ (−π/2, π/2)`:
    `MeanSinXi · (ψy − ψx) = (p₀(χy) − p₀(χx)) + Dp · (β̃(χy) − β̃(χx))`, where `Dp` is the coded divided difference of the area series,
    `Dp · (βy − βx) = p(βy) − p(βx)` with `β = B(Φ(χ))` (χ→φ then φ→β series) and `β̃` is the direct χ→β series used by `DConvert`.
    Hence `S12 = _c2 · lon12 · MeanSinXi` is `_c2 · lon12 · [Δp₀ + Δp]/Δψ` as soon as the two routes to β agree (`meansinxi_series_composed`) —
    they agree modulo `n⁷` for the extracted tables (C15 *Gen* certificate `aux_compose`), and `p` is the series certified by `rhumb_area_table`. -/
theorem meansinxi_series (P : Params ℝ) (x y : ℝ) (hx : |x| < π / 2) (hy : |y| < π / 2) (bx : BetaOK P x) (by' : BetaOK P y) :
    meanSinXi P (sin x, cos x) (sin y, cos y) * (psiOf y - psiOf x) =
      (p0Of y - p0Of x) +
      DClenshaw false (betaVia P y - betaVia P x) (sin (betaVia P x)) (cos (betaVia P x)) (sin (betaVia P y)) (cos (betaVia P y)) P.pP
        * (serA P.cBetaChi y - serA P.cBetaChi x) ∧
    DClenshaw false (betaVia P y - betaVia P x) (sin (betaVia P x)) (cos (betaVia P x)) (sin (betaVia P y)) (cos (betaVia P y)) P.pP
        * (betaVia P y - betaVia P x) = pOf P.pP (betaVia P y) - pOf P.pP (betaVia P x) :=
  ⟨meanSinXi_series' P x y hx hy bx by', dp_dd P.pP _ _⟩

/-- with the composition property as hypothesis (χ→β series = φ→β series after χ→φ series at both points; *Gen* `aux_compose` modulo `n⁷`):
    `MeanSinXi · (ψy − ψx) = [p₀ + p∘β](χy) − [p₀ + p∘β](χx)` — the mean of `sin ξ` over the isometric latitude when `p₀ + p` is the area integral -/
theorem meansinxi_series_composed (P : Params ℝ) (x y : ℝ) (hx : |x| < π / 2) (hy : |y| < π / 2) (bx : BetaOK P x) (by' : BetaOK P y)
    (cx : serA P.cBetaChi x = betaVia P x) (cy : serA P.cBetaChi y = betaVia P y) :
    meanSinXi P (sin x, cos x) (sin y, cos y) * (psiOf y - psiOf x) =
      (p0Of y + pOf P.pP (betaVia P y)) - (p0Of x + pOf P.pP (betaVia P x)) := by
  obtain ⟨h1, h2⟩ := meansinxi_series P x y hx hy bx by'
  rw [h1, cx, cy, h2]; ring

example : BetaOK sphereParams 1 :=
  ⟨by show |clenshaw true (sin 1) (cos 1) []| < π / 2; rw [sphere_clenshaw]; simp; positivity,
   by show |clenshaw true _ _ []| < π / 2; rw [sphere_clenshaw]; simp; positivity,
   by show -π < serA [] (serA [] 1) ∧ serA [] (serA [] 1) ≤ π
      rw [sphere_serA, sphere_serA]; constructor <;> linarith [Real.pi_gt_three]⟩

/-- on a parallel: `MeanSinXi(χ, χ) = sin χ + p′(β) β̃′(χ) cos χ` -/
theorem meansinxi_series_parallel (P : Params ℝ) (x : ℝ) (hx : |x| < π / 2) (bx : BetaOK P x) :
    ∃ p' b' : ℝ, HasDerivAt (pOf P.pP) p' (betaVia P x) ∧ HasDerivAt (serA P.cBetaChi) b' x ∧
      meanSinXi P (sin x, cos x) (sin x, cos x) = sin x + p' * (b' * cos x) := meanSinXi_confluent' P x hx bx

/-! ### `GenDirect ∘ GenInverse` (series) -/

/- `ClosureHyp P φ₁ φ₂` (Proofs/RhumbSeries.lean): principal-branch conditions, `_rm ≠ 0`, `dmudpsi ≠ 0`, and the two facts the series satisfy
   only modulo `n⁷`: composition `μ_χ(χ(φᵢ)) = μ(φᵢ)` and reversion `φ_μ(μ(φ₂)) = φ₂` (C15 *Gen* certificates `aux_compose`, `aux_revert`). -/

/-- **closure**: feed the inverse solution `(s12, azi12)` of `(φ₁, φ₂, lon12)` to the line object at `φ₁` with the exact sine and cosine of
    `azi12`: `GenPosition` takes the regular branch (`|mu2| ≤ 90`, `mu2 = μ(φ₂)` in degrees), returns the point `φ₂`, the longitude
    difference `lon12` and the same `S12` — under the composition and reversion hypotheses, which is where the truncation of the series enters -/
theorem gendirect_geninverse_series (P : Params ℝ) (φ1 φ2 lon12 eps2 : ℝ) (H : ClosureHyp P φ1 φ2) :
    let inv := genInverseS P (sin φ1, cos φ1) (sin φ2, cos φ2) lon12
    let L := lineInit P (sin φ1, cos φ1) (sin (inv.2.1 * π / 180)) (cos (inv.2.1 * π / 180)) eps2
    let rm2 := positionMuS P L inv.1
    let o := genPositionReg P L rm2.1 rm2.2
    rm2.2 = serA P.cMuPhi φ2 * 180 / π ∧ |rm2.2| ≤ 90 ∧ o.phi2 = (sin φ2, cos φ2) ∧ o.lon2x = lon12 ∧ o.S12 = inv.2.2 :=
  direct_inverse_closure' P φ1 φ2 lon12 eps2 H

/-- the hypotheses are satisfiable: the sphere, both points on the parallel of latitude ½ rad -/
example : ClosureHyp sphereParams (1 / 2) (1 / 2) := by
  have hpi := Real.pi_gt_three
  have h12 : |((1:ℝ) / 2)| < π / 2 := by rw [abs_of_pos (by norm_num)]; linarith
  have c0 : ∀ s c : ℝ, |clenshaw true s c []| < π / 2 := by intro s c; rw [sphere_clenshaw]; simp; positivity
  refine ⟨⟨c0 _ _, by show |serA [] (1 / 2)| < _; rw [sphere_serA]; exact h12⟩, ⟨c0 _ _, by show |serA [] (1 / 2)| < _; rw [sphere_serA]; exact h12⟩, ?_, one_ne_zero, c0 _ _, ?_, ?_, c0 _ _, ?_, ?_, ?_, ?_⟩
  · exact cos_ne_zero_of_abs_lt h12
  · show -π < serA [] (1 / 2) ∧ serA [] (1 / 2) ≤ π; rw [sphere_serA]; constructor <;> linarith
  · show |serA [] (1 / 2)| ≤ π / 2; rw [sphere_serA]; exact h12.le
  · show serA [] (serA [] (1 / 2)) = serA [] (1 / 2); rw [sphere_serA]
  · show serA [] (serA [] (1 / 2)) = serA [] (1 / 2); rw [sphere_serA]
  · show serA [] (serA [] (1 / 2)) = 1 / 2; rw [sphere_serA, sphere_serA]
  · show dmudpsiS sphereParams (sin (serA [] (1 / 2)), cos (serA [] (1 / 2))) (sin (serA [] (1 / 2)), cos (serA [] (1 / 2))) ≠ 0
    rw [sphere_serA, sphere_dmudpsi _ h12]; exact cos_ne_zero_of_abs_lt h12

/-- `Math::sincosd` on `[−90, 90]` as modelled is the sine and cosine of the angle in degrees (all special cases 30°, 45°, 60°) -/
theorem sincosd90_spec (x : ℝ) (hx : |x| ≤ 90) : sincosd90 x = (sin (x * (π / 180)), cos (x * (π / 180))) := sincosd90_real x hx

/-- `Math::atan2d` as modelled is the argument of `(x, y)` in degrees (octant logic: C16 `atan2d_octant`) -/
theorem atan2d_spec (y x : ℝ) (h : ¬ (x = 0 ∧ y = 0)) : atan2d y x = GeoVerif.Props.C16.argd y x := atan2d_real y x h

/-! ### exact path: the remaining divided-difference helpers -/

/-- `Dsin(x, y) · (x − y) = sin x − sin y`; confluent value `cos x` -/
theorem Dsin_dd (x y : ℝ) : Dsin x y * (x - y) = sin x - sin y := dsin_dd x y
theorem Dsin_confluent (x : ℝ) : Dsin x x = cos x := dsin_confluent x

/-- confluent value of `Dh`: `h′(t) = t (2 + t²) / (2 (1 + t²)^{3/2})` (all three branches of the code at `x = y`) -/
theorem Dh_confluent (x : ℝ) : Dh x x = x * (2 + x ^ 2) / (2 * sc x ^ 3) := dh_confluent x

/-- **`DParametric` is the divided difference of the parametric latitude**: for all tangents `tx, ty` (opposite signs, the addition-theorem
    branch `tx ty ≤ 1`, the reciprocal branch `tx ty > 1`, equal arguments), with `e2m1 = (1 − f)²`, `1 − f > 0`:
    `DParametric · (atan ty − atan tx) = atan((1−f) ty) − atan((1−f) tx)` -/
theorem DParametric_dd (fm1 tx ty : ℝ) (hf : 0 < fm1) :
    DParametric fm1 (fm1 * fm1) tx ty * (Real.arctan ty - Real.arctan tx) = Real.arctan (fm1 * ty) - Real.arctan (fm1 * tx) :=
  dparametric_dd fm1 tx ty hf

/-- confluent value in both sub-branches (`t² ≤ 1` and the reciprocal form for `t² > 1`, where seeded change C09E put the wrong denominator):
    `dβ/dφ = (1−f)(1 + t²)/(1 + (1−f)² t²)`, `t = tan φ` -/
theorem DParametric_confluent (fm1 t : ℝ) (hf : 0 < fm1) :
    DParametric fm1 (fm1 * fm1) t t = fm1 * (1 + t ^ 2) / (1 + fm1 ^ 2 * t ^ 2) := dparametric_confluent fm1 t hf

example : (0:ℝ) < 1 - 1 / 298 := by norm_num

/-- `Datanhee`, prolate ellipsoid (`f < 0`): divided difference of `atan(e sin φ)/e` with respect to `tan φ` (no division by `e`) -/
theorem Datanhee_prolate_dd (f e e1 fm1 x y : ℝ) (hf : f < 0) :
    e * (Datanhee f e e1 fm1 x y * (y - x)) = Real.arctan (e * sn y) - Real.arctan (e * sn x) := datanhee_prolate f e e1 fm1 x y hf

/-- `Datanhee`, oblate ellipsoid or sphere (`f ≥ 0`): divided difference of `asinh(e′ sin β)/(e′(1−f))` `(= atanh(e sin φ)/e)` -/
theorem Datanhee_oblate_dd (f e e1 fm1 x y : ℝ) (hf : ¬ f < 0) :
    e1 * fm1 * (Datanhee f e e1 fm1 x y * (y - x)) = Real.arsinh (e1 * sn (fm1 * y)) - Real.arsinh (e1 * sn (fm1 * x)) :=
  datanhee_oblate f e e1 fm1 x y hf

/-- **`DIsometric` is the divided difference of the isometric latitude** with respect to the geographic latitude, oblate form
    `ψ(t) = asinh t − e asinh(e′ sn((1−f) t))`, `t = tan φ` (hypotheses: the constructor's relations `e² = e·e`, `e = e′(1−f)`) -/
theorem DIsometric_oblate_dd (f e2 e e1 fm1 tx ty : ℝ) (hf : ¬ f < 0) (he2 : e2 = e * e) (he : e = e1 * fm1) :
    DIsometric f e2 e e1 fm1 tx ty * (Real.arctan ty - Real.arctan tx) = psiOblate e e1 fm1 ty - psiOblate e e1 fm1 tx :=
  disometric_oblate f e2 e e1 fm1 tx ty hf he2 he

/-- prolate form `ψ(t) = asinh t + e atan(e sn t)` with `e = √|e²|`, `e² = −e·e` -/
theorem DIsometric_prolate_dd (f e2 e e1 fm1 tx ty : ℝ) (hf : f < 0) (he2 : e2 = -(e * e)) :
    DIsometric f e2 e e1 fm1 tx ty * (Real.arctan ty - Real.arctan tx) = psiProlate e ty - psiProlate e tx :=
  disometric_prolate f e2 e e1 fm1 tx ty hf he2

example : ¬ ((1:ℝ) / 298 < 0) := by norm_num

/-! ### `DE` (elliptic integral of the second kind), parametric in the Carlson kernels -/

/-- for **every** pair of kernels `RF`, `RD`: `DE(X, Y) = DE(Y, X)` (a divided difference is symmetric; `d ↦ −d`, `t ↦ −t`, `sin z ↦ −sin z`) -/
theorem DE_symmetric (RF RD : ℝ → ℝ → ℝ → ℝ) (E : Ell ℝ) (X Y : Ang ℝ) : DE RF RD E X Y = DE RF RD E Y X := de_symmetric RF RD E X Y

/-- the pair `(sin z, cos z)` formed from `t = tan(z/2)` handed to the kernels lies on the unit circle -/
theorem DE_unit_circle (RF RD : ℝ → ℝ → ℝ → ℝ) (k2 den d Dt sx sy : ℝ) :
    (deTail RF RD k2 den d Dt sx sy).sz ^ 2 + (deTail RF RD k2 den d Dt sx sy).cz ^ 2 = 1 := deTail_unit RF RD k2 den d Dt sx sy

/-- confluent value on an oblate ellipsoid, for every kernel pair with `RF(1, 1, 1) = 1`: `DE(X, X) = √(1 + e′² sin²x)`, the integrand of
    `E`.  (The addition theorem DLMF 19.11.2 itself — that `DE` is the divided difference of `E` for `X ≠ Y` — is in the trusted base and is
    checked against quadrature by the harness, relation `dd-elliptic`.) -/
theorem DE_confluent (RF RD : ℝ → ℝ → ℝ → ℝ) (E : Ell ℝ) (x : ℝ) (hf : ¬ E.f < 0) (he : 0 ≤ E.e12) (hx0 : 0 < x) (hx1 : x < π / 2)
    (hRF : RF 1 1 1 = 1) :
    DE RF RD E (sin x, cos x) (sin x, cos x) = Real.sqrt (1 + E.e12 * sin x ^ 2) := de_confluent RF RD E x hf he hx0 hx1 hRF

example : ∃ RF : ℝ → ℝ → ℝ → ℝ, RF 1 1 1 = 1 := ⟨fun _ _ _ => 1, rfl⟩

/-! ### `DRectifying` around its kernels -/

/-- **chain rule**, same-sign distinct latitudes: for every kernel for which `DE` is the divided difference of some `Eint` in the parametric latitude
    `β = atan((1−f) tan φ)`: `DRectifying · (φ₂ − φ₁) = (b/R)(Eint β₂ − Eint β₁)` (uses `DParametric_dd`) -/
theorem DRectifying_chain (RF RD : ℝ → ℝ → ℝ → ℝ) (E : Ell ℝ) (K : RectK ℝ) (a b : ℝ) (Eint : ℝ → ℝ)
    (ha : |a| < π / 2) (hb : |b| < π / 2) (hab : a ≠ b) (hsign : ¬ a * b < 0) (hfm1 : 0 < E.fm1) (he2m1 : E.e2m1 = E.fm1 * E.fm1)
    (hDE : DE RF RD E (parametric E (sin a, cos a)) (parametric E (sin b, cos b))
             * (Real.arctan (E.fm1 * Real.tan b) - Real.arctan (E.fm1 * Real.tan a))
           = Eint (Real.arctan (E.fm1 * Real.tan b)) - Eint (Real.arctan (E.fm1 * Real.tan a))) :
    DRectifying RF RD E K (sin a, cos a) (sin b, cos b) * (b - a)
      = E.b / K.rr * (Eint (Real.arctan (E.fm1 * Real.tan b)) - Eint (Real.arctan (E.fm1 * Real.tan a))) :=
  drectifying_chain RF RD E K a b Eint ha hb hab hsign hfm1 he2m1 hDE

/-- the hypothesis of `DRectifying_chain` is satisfiable: the constant kernels `RF = RD = 0` give `DE = 0`, the divided difference of a constant -/
example (E : Ell ℝ) (a b : ℝ) :
    DE (fun _ _ _ => 0) (fun _ _ _ => 0) E (parametric E (sin a, cos a)) (parametric E (sin b, cos b)) * 0 = (fun _ : ℝ => (0:ℝ)) 1 - (fun _ : ℝ => (0:ℝ)) 2 := by simp

/-- opposite signs: the plain quotient of the rectifying latitudes supplied by `AuxLatitude::Rectifying` -/
theorem DRectifying_opposite (RF RD : ℝ → ℝ → ℝ → ℝ) (E : Ell ℝ) (K : RectK ℝ) (a b : ℝ)
    (ha : |a| < π / 2) (hb : |b| < π / 2) (hsign : a * b < 0) :
    DRectifying RF RD E K (sin a, cos a) (sin b, cos b) * (b - a) = radians K.mu2 - radians K.mu1 :=
  drectifying_opposite RF RD E K a b ha hb hsign

/-- confluent case: `dμ/dφ = (d tan μ/d tan φ) cos²μ / cos²φ` with `d tan μ/d tan φ` the `diff` output of `Rectifying` -/
theorem DRectifying_confluent (RF RD : ℝ → ℝ → ℝ → ℝ) (E : Ell ℝ) (K : RectK ℝ) (a m : ℝ)
    (ha : |a| < π / 2) (hm : |m| < π / 2) (hmu : K.mu1 = (sin m, cos m)) :
    DRectifying RF RD E K (sin a, cos a) (sin a, cos a) = K.d1 * (cos m / cos a) ^ 2 := drectifying_confluent RF RD E K a m ha hm hmu

/-! ### the series-mode area table (re-extracted from `Rhumb::AreaCoeffs` on this run): shape only

The values of the 21 rationals are **not** certified in Lean (that needs the expansion of the rhumb-area integrand in `n`);
they are validated through the quadrature oracle of the harness (`rhumb-area`, `rhumb-series-exact`). -/

/-- the table is triangular with `Lmax` rows — exactly what the `polyval` loop of `AreaCoeffs` consumes (`o == sizeof(coeffs)/sizeof(real)`
    is the code's own post-condition) — no entry is zero, and the order is the one the tolerances assume -/
theorem area_table_shape :
    Gen.RhumbArea.coeffs.length = Gen.RhumbArea.Lmax * (Gen.RhumbArea.Lmax + 1) / 2 ∧ Gen.RhumbArea.Lmax = 6 ∧
    Gen.RhumbArea.coeffs.all (fun q => q != 0) = true := by decide +kernel


/-- **Table certificate** (re-checked against the source on every run): the 21 coefficients of `Rhumb::AreaCoeffs`
satisfy the defining relation of the rhumb area series, `p′(β) = (1 − f)(sin ξ − sin χ)/cos φ` with
`p(β) = Σ P_l cos 2lβ` (the integrand `Rhumb::qIntegrand` of the exact mode), modulo `n⁷`, where φ(β), χ(β), ξ(β) are the
auxiliary-latitude series of AuxLatitude.cpp certified by C15 (`chi_ode`, `xi_ode`, `aux_revert`, …).  As the left side is a
sine series without constant term this determines every `P_l` through `n⁶`: a single wrong entry (seeded C09A, C09C) is refuted. -/
theorem rhumb_area_table : GeoVerif.Series.RhumbCert.checkRhumbArea = true :=
  GeoVerif.Proofs.RhumbCert.rhumb_area_table

end GeoVerif.Props.C09
