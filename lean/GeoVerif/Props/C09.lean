import GeoVerif.Model.Rhumb
import GeoVerif.Proofs.Rhumb
import GeoVerif.Gen.RhumbArea
import GeoVerif.Proofs.RhumbCert
/-!
# C09 — rhumb lines: property theorems

All statements are about the definitions of `Model/Rhumb.lean` — the same terms the driver executes in binary64
(`dd`, `dde`, `rinv`) or over the exact `F64` softfloat (`rdir`) against the implementation — read at type `ℝ`.
Helper lemmas are in `Proofs/Rhumb.lean`.
-/
namespace GeoVerif.Props.C09
open GeoVerif GeoVerif.Rhumb GeoVerif.Proofs.Rhumb Real

/-! ### the divided-difference helpers are divided differences (every branch), with the confluent value at `x = y` -/

/-- `Dsn(x, y)·(y − x) = sn y − sn x` for all real `x, y` (both the product branch `x y > 0` and the plain one);
    for `x ≠ y` this is `Dsn = (sn y − sn x)/(y − x)` -/
theorem Dsn_dd (x y : ℝ) : Dsn x y * (y - x) = sn y - sn x := dsn_dd x y

/-- confluent value: `Dsn(x, x) = sn′(x) = (1 + x²)^(−3/2)` -/
theorem Dsn_confluent (x : ℝ) : Dsn x x = 1 / (Real.sqrt (1 + x ^ 2) * (1 + x ^ 2)) := dsn_confluent x

/-- `Datan(x, y)·(y − x) = atan y − atan x` (addition-theorem branch `2xy > −1` and plain branch) -/
theorem Datan_dd (x y : ℝ) : Datan x y * (y - x) = Real.arctan y - Real.arctan x := datan_dd x y

theorem Datan_confluent (x : ℝ) : Datan x x = 1 / (1 + x ^ 2) := datan_confluent x

/-- `Dasinh(x, y)·(y − x) = asinh y − asinh x` (both Kahan–Fateman forms for `x y > 0`, plain form otherwise) -/
theorem Dasinh_dd (x y : ℝ) : Dasinh x y * (y - x) = Real.arsinh y - Real.arsinh x := dasinh_dd x y

theorem Dasinh_confluent (x : ℝ) : Dasinh x x = 1 / Real.sqrt (1 + x ^ 2) := dasinh_confluent x

/-- `Dh(x, y)·(y − x) = h y − h x`, `h(t) = t·sn(t)/2`, in all three branches (underflow shelter, plain, product form) -/
theorem Dh_dd (x y : ℝ) : Dh x y * (y - x) = hfun y - hfun x := dh_dd x y

/-- `Dlam`: divided difference of `lam = asinh(tan χ)` with respect to `χ = atan(tan χ)`:
    `Dlam(x, y)·(atan y − atan x) = asinh y − asinh x`; confluent value `sec χ` -/
theorem Dlam_dd (x y : ℝ) : Dlam x y * (Real.arctan y - Real.arctan x) = Real.arsinh y - Real.arsinh x := dlam_dd x y

theorem Dlam_confluent (x : ℝ) : Dlam x x = Real.sqrt (1 + x ^ 2) := dlam_confluent x

/-- `Dp0Dpsi`: divided difference of `p0 = asinh(h(tan χ))` with respect to `ψ = asinh(tan χ)`;
    confluent value `sin χ` -/
theorem Dp0Dpsi_dd (x y : ℝ) :
    Dp0Dpsi x y * (Real.arsinh y - Real.arsinh x) = Real.arsinh (hfun y) - Real.arsinh (hfun x) := dp0dpsi_dd x y

theorem Dp0Dpsi_confluent (x : ℝ) : Dp0Dpsi x x = sn x := by simp [Dp0Dpsi]

/-- non-vacuity of the product branches: at `x = 1, y = 2` the helpers take their cancellation-free forms -/
example : Dsn (1 : ℝ) 2 * (2 - 1) = sn (2 : ℝ) - sn 1 := Dsn_dd 1 2

/-! ### `DClenshaw` is the divided difference of the Clenshaw sums -/

/-- for every coefficient list and all angles `ζ₁ ≠ ζ₂`:
    `DClenshaw(sinp, ζ₂ − ζ₁, sin ζ₁, cos ζ₁, sin ζ₂, cos ζ₂, c)·(ζ₂ − ζ₁) = Clenshaw(sinp, ζ₂, c) − Clenshaw(sinp, ζ₁, c)`
    (the code's `Delta ≠ 1` reading; with `Delta = 1` it returns the plain difference, `dclenshaw_diff`) -/
theorem dclenshaw_dd (sinp : Bool) (z1 z2 : ℝ) (cs : List ℝ) (hne : z2 - z1 ≠ 0) (h1 : z2 - z1 ≠ 1) :
    DClenshaw sinp (z2 - z1) (sin z1) (cos z1) (sin z2) (cos z2) cs * (z2 - z1)
      = clenshaw sinp (sin z2) (cos z2) cs - clenshaw sinp (sin z1) (cos z1) cs :=
  dclenshaw_dd' sinp z1 z2 cs hne h1

/-- `Delta = 1`: the plain difference of the two sums, for any two points on the unit circle -/
theorem dclenshaw_diff (sinp : Bool) (s1 c1 s2 c2 : ℝ) (cs : List ℝ) (h1 : s1 ^ 2 + c1 ^ 2 = 1) (h2 : s2 ^ 2 + c2 ^ 2 = 1) :
    DClenshaw sinp 1 s1 c1 s2 c2 cs = clenshaw sinp s2 c2 cs - clenshaw sinp s1 c1 cs :=
  dclenshaw_diff' sinp s1 c1 s2 c2 cs h1 h2

/-- the matrix recurrence itself: its state is (mean, half divided difference) of the two scalar Clenshaw recurrences
    with `X₂ = Xa + D·Xb`, `X₁ = Xa − D·Xb`, for every coefficient list -/
theorem dclen_pair (Xa Xb D : ℝ) (cs : List ℝ) :
    (dclen Xa Xb (D * D) cs).1.1 = ((clen (Xa + D * Xb) cs).1 + (clen (Xa - D * Xb) cs).1) / 2 ∧
    (dclen Xa Xb (D * D) cs).1.2 * D = ((clen (Xa + D * Xb) cs).1 - (clen (Xa - D * Xb) cs).1) / 2 ∧
    (dclen Xa Xb (D * D) cs).2.1 = ((clen (Xa + D * Xb) cs).2 + (clen (Xa - D * Xb) cs).2) / 2 ∧
    (dclen Xa Xb (D * D) cs).2.2 * D = ((clen (Xa + D * Xb) cs).2 - (clen (Xa - D * Xb) cs).2) / 2 :=
  dclen_inv Xa Xb D cs

example : ((3:ℝ)/5) ^ 2 + ((4:ℝ)/5) ^ 2 = 1 := by norm_num

example : (0.3 : ℝ) - 0.1 ≠ 0 ∧ (0.3 : ℝ) - 0.1 ≠ 1 := by norm_num

/-! ### beyond the pole: the two-step reduction of `GenPosition` -/

/- `NormContract norm` (Proofs/Rhumb.lean): the contract of `Math::AngNormalize` (C16; decided exactly by the driver on every
   sampled input): `∀ x, |norm x| ≤ 180 ∧ ∃ k : ℤ, norm x = x − 360 k`.  `angReal` is the real reading of the operations. -/

/-- **pole wrap**: for every real rectifying latitude `mu2` (in particular every `|mu2| > 90`, any number of circuits)
    and every normaliser satisfying the contract, the code's two-step reduction returns `z ∈ [−90, 90]` which is
    `mu2` or its reflection `180 − mu2` up to whole turns — the rectifying latitude of the point reached on the meridian
    circle (same sine) -/
theorem pole_wrap (norm : ℝ → ℝ) (hn : NormContract norm) (mu2 : ℝ) :
    |poleFold angReal norm mu2| ≤ 90 ∧
    ∃ k : ℤ, poleFold angReal norm mu2 = mu2 - 360 * k ∨ poleFold angReal norm mu2 = 180 - mu2 - 360 * k :=
  pole_wrap' norm hn mu2

/-- hence the sine of the returned rectifying latitude (in degrees) is that of `mu2` -/
theorem pole_wrap_sin (norm : ℝ → ℝ) (hn : NormContract norm) (mu2 : ℝ) :
    sin (poleFold angReal norm mu2 * π / 180) = sin (mu2 * π / 180) :=
  pole_wrap_sin' norm hn mu2

/-- a normaliser satisfying the contract exists (non-vacuity) and on it `mu2 = 300` (more than three quarter
    circles) is mapped to `−60` by the two-step form … -/
theorem pole_wrap_example : ∃ norm, NormContract norm ∧ poleFold angReal norm 300 = -60 := pole_wrap_example'

/-- … while the one-step form (first normalisation dropped, seeded change C09B) leaves [−90, 90]: it returns `−120` -/
theorem one_step_refuted : ∃ norm, NormContract norm ∧ poleFoldOneStep angReal norm 300 = -120 ∧ ¬ |poleFoldOneStep angReal norm 300| ≤ 90 :=
  one_step_refuted'

/-! ### the inverse wrapper: a course of constant azimuth joining the points, at most 180° of longitude -/

/- `DiffContract lon1 lon2 lon12` (Proofs/Rhumb.lean): what `Math::AngDiff(lon1, lon2)` guarantees (C16):
   `|lon12| ≤ 180` and `∃ k : ℤ, lon12 = lon2 − lon1 − 360 k`. -/

/-- **rhumb_inverse_shortest**: with `lon12` from the AngDiff contract the returned course wraps at most half way round
    (`|lam12| ≤ π`), its azimuth `α = atan2(lam12, psi12)` is that of the straight line from `(ψ₁, 0)` to `(ψ₂, lam12)` on the
    Mercator chart: `hypot·sin α = lam12`, `hypot·cos α = psi12` (so `lam12 = tan α · psi12`, with the right signs), and
    `s12 · cos α = R · dmudpsi · psi12` — the meridian-arc difference over `cos α` when `dmudpsi = Δμ/Δψ`.
    Tie rule *as coded*: nothing here forces `lon12 = +180` on opposite meridians; the code keeps the sign of
    `lon2 − lon1` (finding F4; the header promises the east-going course). -/
theorem rhumb_inverse_shortest (lon1 lon2 lon12 : ℝ) (K : InvKernels ℝ) (hc : DiffContract lon1 lon2 lon12)
    (hne : lon12 ≠ 0 ∨ K.psi2 - K.psi1 ≠ 0) :
    let r := inverseCore (π / 180) lon12 K false
    let lam12 := lon12 * (π / 180)
    let psi12 := K.psi2 - K.psi1
    |lam12| ≤ π ∧
    Real.sqrt (lam12 ^ 2 + psi12 ^ 2) * sin r.2.1 = lam12 ∧
    Real.sqrt (lam12 ^ 2 + psi12 ^ 2) * cos r.2.1 = psi12 ∧
    r.1 * cos r.2.1 = K.rm * K.dmudpsi * psi12 ∧
    r.2.2 = K.c2 * lon12 * K.msx :=
  rhumb_inverse_shortest' lon1 lon2 lon12 K hc hne

example : DiffContract 10 (-170) (-180) := ⟨by norm_num, ⟨0, by norm_num⟩⟩

/-! ### the series-mode area table (re-extracted from `Rhumb::AreaCoeffs` on this run): shape only

The values of the 21 rationals are **not** certified in Lean (that needs the expansion of the rhumb-area integrand in `n`);
they are validated through the quadrature oracle of the harness (`rhumb-area`, `rhumb-series-exact`). -/

/-- the table is triangular with `Lmax` rows — exactly what the `polyval` loop of `AreaCoeffs` consumes (`o == sizeof(coeffs)/sizeof(real)`
    is the code's own post-condition) — no entry is zero, and the order is the one the tolerances assume -/
theorem area_table_shape :
    Gen.RhumbArea.coeffs.length = Gen.RhumbArea.Lmax * (Gen.RhumbArea.Lmax + 1) / 2 ∧ Gen.RhumbArea.Lmax = 6 ∧
    Gen.RhumbArea.coeffs.all (fun q => q != 0) = true := by decide +kernel


/-- **Table certificate** (re-checked against the source on every run): the 21 coefficients of `Rhumb::AreaCoeffs`
satisfy the defining relation of the rhumb area series, `p′(β) = (1 − f)(sin ξ − sin χ)/cos φ` with
`p(β) = Σ P_l cos 2lβ` (the integrand `Rhumb::qIntegrand` of the exact mode), modulo `n⁷`, where φ(β), χ(β), ξ(β) are the
auxiliary-latitude series of AuxLatitude.cpp certified by C15 (`chi_ode`, `xi_ode`, `aux_revert`, …).  As the left side is a
sine series without constant term this determines every `P_l` through `n⁶`: a single wrong entry (seeded C09A, C09C) is refuted. -/
theorem rhumb_area_table : GeoVerif.Series.RhumbCert.checkRhumbArea = true :=
  GeoVerif.Proofs.RhumbCert.rhumb_area_table

end GeoVerif.Props.C09
