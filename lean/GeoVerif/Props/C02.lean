import GeoVerif.Model.GeodInverse
import GeoVerif.Model.GeodInvSeries
import GeoVerif.Proofs.GeodInvSeries
import GeoVerif.Spec.RealInst
import Mathlib.Tactic.LinearCombination
import Mathlib.Tactic.Positivity
import Mathlib.Tactic.NormNum
/-!
# C02 — inverse problem: the symmetry bookkeeping holds for every core solver (core Lean only)
-/
namespace GeoVerif.Props.C02
open GeoVerif GeoVerif.GeodInverse

theorem neg_neg (x : F64) : F64.neg (F64.neg x) = x := by
  cases x <;> simp [F64.neg]

theorem mulSign_neg (s : Int) (hs : s = 1 ∨ s = -1) (x : F64) : mulSign (-s) x = F64.neg (mulSign s x) := by
  rcases hs with rfl | rfl <;> simp [mulSign, neg_neg]

/-- the flags are signs -/
def Sign (s : Int) : Prop := s = 1 ∨ s = -1

/-- **exchange of the end points** (swapp ↦ −swapp, everything else equal): `s12`, `m12`, `a12` unchanged; the
    azimuths are exchanged and reversed (`azi1' = azi2 ± 180`: both sine and cosine negated), `M12 ↔ M21`, `S12` negated -/
theorem uncanon_exchange (ls sw lt : Int) (hls : Sign ls) (hsw : Sign sw) (hlt : Sign lt) (c : Core) :
    let r := uncanon ls sw lt c
    let r' := uncanon ls (-sw) lt c
    r'.s12 = r.s12 ∧ r'.m12 = r.m12 ∧ r'.a12 = r.a12 ∧
    r'.salp1 = F64.neg r.salp2 ∧ r'.calp1 = F64.neg r.calp2 ∧ r'.salp2 = F64.neg r.salp1 ∧ r'.calp2 = F64.neg r.calp1 ∧
    r'.M12 = r.M21 ∧ r'.M21 = r.M12 ∧ r'.S12 = F64.neg r.S12 := by
  rcases hls with rfl | rfl <;> rcases hsw with rfl | rfl <;> rcases hlt with rfl | rfl <;>
    simp [uncanon, mulSign, neg_neg]

/-- **reflection in the equator** (latsign ↦ −latsign): cosines of the azimuths negated (`azi ↦ 180 − azi`), `S12` negated -/
theorem uncanon_equator (ls sw lt : Int) (hls : Sign ls) (hsw : Sign sw) (hlt : Sign lt) (c : Core) :
    let r := uncanon ls sw lt c
    let r' := uncanon ls sw (-lt) c
    r'.s12 = r.s12 ∧ r'.m12 = r.m12 ∧ r'.M12 = r.M12 ∧ r'.M21 = r.M21 ∧
    r'.salp1 = r.salp1 ∧ r'.calp1 = F64.neg r.calp1 ∧ r'.salp2 = r.salp2 ∧ r'.calp2 = F64.neg r.calp2 ∧ r'.S12 = F64.neg r.S12 := by
  rcases hls with rfl | rfl <;> rcases hsw with rfl | rfl <;> rcases hlt with rfl | rfl <;>
    simp [uncanon, mulSign, neg_neg]

/-- **reflection in a meridian** (lonsign ↦ −lonsign): sines of the azimuths negated (`azi ↦ −azi`), `S12` negated -/
theorem uncanon_meridian (ls sw lt : Int) (hls : Sign ls) (hsw : Sign sw) (hlt : Sign lt) (c : Core) :
    let r := uncanon ls sw lt c
    let r' := uncanon (-ls) sw lt c
    r'.s12 = r.s12 ∧ r'.m12 = r.m12 ∧ r'.M12 = r.M12 ∧ r'.M21 = r.M21 ∧
    r'.salp1 = F64.neg r.salp1 ∧ r'.calp1 = r.calp1 ∧ r'.salp2 = F64.neg r.salp2 ∧ r'.calp2 = r.calp2 ∧ r'.S12 = F64.neg r.S12 := by
  rcases hls with rfl | rfl <;> rcases hsw with rfl | rfl <;> rcases hlt with rfl | rfl <;>
    simp [uncanon, mulSign, neg_neg]

/-- on a canonical input the wrapper is the identity (this is what lets the implementation supply its own core values) -/
theorem uncanon_identity (c : Core) : uncanon 1 1 1 c = c := by
  simp [uncanon, mulSign]

/-- the flags produced by `canon` are signs -/
theorem canon_flags (lat1 lon1 lat2 lon2 : F64) :
    Sign (canon lat1 lon1 lat2 lon2).lonsign ∧ Sign (canon lat1 lon1 lat2 lon2).swapp ∧ Sign (canon lat1 lon1 lat2 lon2).latsign := by
  unfold canon Sign
  simp only []
  refine ⟨?_, ?_, ?_⟩ <;> (repeat' split) <;> simp

theorem latsign_fix (x : F64) :
    (mulSign (if x.signbit = true then 1 else -1) x).isNaN = true ∨ (mulSign (if x.signbit = true then 1 else -1) x).signbit = true := by
  cases x with
  | nan => left; simp [mulSign, F64.signbit, F64.neg, F64.isNaN]
  | inf s => right; cases s <;> simp [mulSign, F64.signbit, F64.neg]
  | fin s m e => right; cases s <;> simp [mulSign, F64.signbit, F64.neg]

theorem lonsign_fix (d : F64) :
    (mulSign (if d.signbit = true then -1 else 1) d).isNaN = true ∨ (mulSign (if d.signbit = true then -1 else 1) d).signbit = false := by
  cases d with
  | nan => left; simp [mulSign, F64.signbit, F64.isNaN]
  | inf s => right; cases s <;> simp [mulSign, F64.signbit, F64.neg]
  | fin s m e => right; cases s <;> simp [mulSign, F64.signbit, F64.neg]

/-- the core is only ever called with a non-positive (sign bit set) first latitude and a non-negative longitude difference -/
theorem canon_signs (lat1 lon1 lat2 lon2 : F64) :
    let k := canon lat1 lon1 lat2 lon2
    (k.lat1.isNaN = true ∨ k.lat1.signbit = true) ∧ (k.lon12.isNaN = true ∨ k.lon12.signbit = false) := by
  unfold canon
  exact ⟨latsign_fix _, lonsign_fix _⟩

/-- non-vacuity: a concrete non-canonical input has non-trivial flags -/
example : ((canon (F64.ofInt 10) (F64.ofInt 20) (F64.ofInt 30) (F64.ofInt 5)).lonsign,
           (canon (F64.ofInt 10) (F64.ofInt 20) (F64.ofInt 30) (F64.ofInt 5)).swapp,
           (canon (F64.ofInt 10) (F64.ofInt 20) (F64.ofInt 30) (F64.ofInt 5)).latsign) = (1, -1, -1) := by decide +kernel


/-! ### `Geodesic::Astroid` (starting guess of the inverse solver in the antipodal region) -/

section Astroid
open GeoVerif.GeodInvSeries GeoVerif.Vermeille GeoVerif.Proofs.GeodInvSeries

/-- **`Astroid` returns the positive root** of `k⁴ + 2k³ − (x² + y² − 1)k² − 2y²k − y² = 0` (Cardano branch: `x, y ≠ 0`
    and a non-negative discriminant, i.e. on or outside the astroid `x^{2/3} + y^{2/3} = 1`) -/
theorem astroid_root (x y : ℝ) (hx : x ≠ 0) (hy : y ≠ 0)
    (hdisc : 0 ≤ x ^ 2 * y ^ 2 / 4 * (x ^ 2 * y ^ 2 / 4 + 2 * ((x ^ 2 + y ^ 2 - 1) / 6) ^ 3)) :
    let k := astroid x y
    0 < k ∧ k ^ 4 + 2 * k ^ 3 - (x ^ 2 + y ^ 2 - 1) * k ^ 2 - 2 * y ^ 2 * k - y ^ 2 = 0 := by
  intro k
  have hp : 0 < x ^ 2 := by positivity
  have hq : 0 < y ^ 2 := by positivity
  set p := x ^ 2 with hpd
  set q := y ^ 2 with hqd
  set r := (p + q - 1) / 6 with hr
  set S := p * q / 4 with hSd
  have hS : 0 < S := by positivity
  have hcub := astroidU_spec S r hS hdisc
  set u := astroidU S r with hu
  have hv2 : 0 < u ^ 2 + q := by positivity
  set v := Real.sqrt (u ^ 2 + q) with hv
  have hvpos : 0 < v := Real.sqrt_pos.mpr hv2
  have hvsq : v ^ 2 = u ^ 2 + q := Real.sq_sqrt hv2.le
  have hvu : 0 < v - u := by
    have : |u| < v := by rw [hv, Real.lt_sqrt (abs_nonneg u), sq_abs]; linarith
    have := le_abs_self u; linarith
  have huvpos : 0 < u + v := by
    have : |u| < v := by rw [hv, Real.lt_sqrt (abs_nonneg u), sq_abs]; linarith
    have := neg_abs_le u; linarith
  set uv := (if u < 0 then q / (v - u) else u + v) with huv
  have huv_eq : uv = u + v := by
    rw [huv]; split_ifs with h
    · rw [div_eq_iff hvu.ne']; linear_combination -hvsq
    · rfl
  set w := (uv - q) / (2 * v) with hw
  have hk : k = uv / (Real.sqrt (uv + w ^ 2) + w) := by
    show astroid x y = _
    unfold astroid
    simp only [sq_real, sqrt_real, leb_real, ltb_real, eqb_real, lit_real]
    push_cast
    have hq0 : decide (y ^ 2 = (0:ℝ)) = false := by simpa using hy
    simp only [hq0, Bool.false_and, Bool.not_false, if_true, decide_eq_true_eq]
    rfl
  have hkk := astroid_k uv w (by rw [huv_eq]; exact huvpos)
  rw [← hk] at hkk
  obtain ⟨hk3, hkpos⟩ := hkk
  refine ⟨hkpos, ?_⟩
  have h4 : 2 * v * w = 1 * (u + v - q) := by rw [hw, ← huv_eq]; field_simp
  have hq4 := vermeille_quartic p q 1 u v w k (by rw [hSd, hr] at hcub; linear_combination hcub) (by linear_combination hvsq) h4
    (by rw [← huv_eq]; exact hk3) hvpos.ne'
  linear_combination hq4

/-- non-vacuity: `(x, y) = (−1, 1)` lies outside the astroid -/
example : ((-1 : ℝ) ≠ 0) ∧ ((1 : ℝ) ≠ 0) ∧
    (0 : ℝ) ≤ (-1) ^ 2 * 1 ^ 2 / 4 * ((-1) ^ 2 * 1 ^ 2 / 4 + 2 * (((-1) ^ 2 + 1 ^ 2 - 1) / 6) ^ 3) := by norm_num

end Astroid

end GeoVerif.Props.C02
