import GeoVerif.Model.GeodInverse
import GeoVerif.Model.GeodInvSeries
import GeoVerif.Proofs.GeodInvSeries
import GeoVerif.Model.GeodInvFull
import GeoVerif.Proofs.GeodInvFull
import GeoVerif.Spec.RealInst
import Mathlib.Tactic.LinearCombination
import Mathlib.Tactic.Positivity
import Mathlib.Tactic.NormNum
/-!
# C02 — inverse problem: the symmetry bookkeeping holds for every core solver (core Lean only)
-/
namespace GeoVerif.Props.C02
open GeoVerif GeoVerif.GeodInverse

theorem neg_neg (x : F64) : F64.neg (F64.neg x) = x := by
  cases x <;> simp [F64.neg]

theorem mulSign_neg (s : Int) (hs : s = 1 ∨ s = -1) (x : F64) : mulSign (-s) x = F64.neg (mulSign s x) := by
  rcases hs with rfl | rfl <;> simp [mulSign, neg_neg]

/-- the flags are signs -/
def Sign (s : Int) : Prop := s = 1 ∨ s = -1

/-- **exchange of the end points** (swapp ↦ −swapp, everything else equal): `s12`, `m12`, `a12` unchanged; the
    azimuths are exchanged and reversed (`azi1' = azi2 ± 180`: both sine and cosine negated), `M12 ↔ M21`, `S12` negated -/
theorem uncanon_exchange (ls sw lt : Int) (hls : Sign ls) (hsw : Sign sw) (hlt : Sign lt) (c : Core) :
    let r := uncanon ls sw lt c
    let r' := uncanon ls (-sw) lt c
    r'.s12 = r.s12 ∧ r'.m12 = r.m12 ∧ r'.a12 = r.a12 ∧
    r'.salp1 = F64.neg r.salp2 ∧ r'.calp1 = F64.neg r.calp2 ∧ r'.salp2 = F64.neg r.salp1 ∧ r'.calp2 = F64.neg r.calp1 ∧
    r'.M12 = r.M21 ∧ r'.M21 = r.M12 ∧ r'.S12 = F64.neg r.S12 := by
  rcases hls with rfl | rfl <;> rcases hsw with rfl | rfl <;> rcases hlt with rfl | rfl <;>
    simp [uncanon, mulSign, neg_neg]

/-- **reflection in the equator** (latsign ↦ −latsign): cosines of the azimuths negated (`azi ↦ 180 − azi`), `S12` negated -/
theorem uncanon_equator (ls sw lt : Int) (hls : Sign ls) (hsw : Sign sw) (hlt : Sign lt) (c : Core) :
    let r := uncanon ls sw lt c
    let r' := uncanon ls sw (-lt) c
    r'.s12 = r.s12 ∧ r'.m12 = r.m12 ∧ r'.M12 = r.M12 ∧ r'.M21 = r.M21 ∧
    r'.salp1 = r.salp1 ∧ r'.calp1 = F64.neg r.calp1 ∧ r'.salp2 = r.salp2 ∧ r'.calp2 = F64.neg r.calp2 ∧ r'.S12 = F64.neg r.S12 := by
  rcases hls with rfl | rfl <;> rcases hsw with rfl | rfl <;> rcases hlt with rfl | rfl <;>
    simp [uncanon, mulSign, neg_neg]

/-- **reflection in a meridian** (lonsign ↦ −lonsign): sines of the azimuths negated (`azi ↦ −azi`), `S12` negated -/
theorem uncanon_meridian (ls sw lt : Int) (hls : Sign ls) (hsw : Sign sw) (hlt : Sign lt) (c : Core) :
    let r := uncanon ls sw lt c
    let r' := uncanon (-ls) sw lt c
    r'.s12 = r.s12 ∧ r'.m12 = r.m12 ∧ r'.M12 = r.M12 ∧ r'.M21 = r.M21 ∧
    r'.salp1 = F64.neg r.salp1 ∧ r'.calp1 = r.calp1 ∧ r'.salp2 = F64.neg r.salp2 ∧ r'.calp2 = r.calp2 ∧ r'.S12 = F64.neg r.S12 := by
  rcases hls with rfl | rfl <;> rcases hsw with rfl | rfl <;> rcases hlt with rfl | rfl <;>
    simp [uncanon, mulSign, neg_neg]

/-- on a canonical input the wrapper is the identity (this is what lets the implementation supply its own core values) -/
theorem uncanon_identity (c : Core) : uncanon 1 1 1 c = c := by
  simp [uncanon, mulSign]

/-- the flags produced by `canon` are signs -/
theorem canon_flags (lat1 lon1 lat2 lon2 : F64) :
    Sign (canon lat1 lon1 lat2 lon2).lonsign ∧ Sign (canon lat1 lon1 lat2 lon2).swapp ∧ Sign (canon lat1 lon1 lat2 lon2).latsign := by
  unfold canon Sign
  simp only []
  refine ⟨?_, ?_, ?_⟩ <;> (repeat' split) <;> simp

theorem latsign_fix (x : F64) :
    (mulSign (if x.signbit = true then 1 else -1) x).isNaN = true ∨ (mulSign (if x.signbit = true then 1 else -1) x).signbit = true := by
  cases x with
  | nan => left; simp [mulSign, F64.signbit, F64.neg, F64.isNaN]
  | inf s => right; cases s <;> simp [mulSign, F64.signbit, F64.neg]
  | fin s m e => right; cases s <;> simp [mulSign, F64.signbit, F64.neg]

theorem lonsign_fix (d : F64) :
    (mulSign (if d.signbit = true then -1 else 1) d).isNaN = true ∨ (mulSign (if d.signbit = true then -1 else 1) d).signbit = false := by
  cases d with
  | nan => left; simp [mulSign, F64.signbit, F64.isNaN]
  | inf s => right; cases s <;> simp [mulSign, F64.signbit, F64.neg]
  | fin s m e => right; cases s <;> simp [mulSign, F64.signbit, F64.neg]

/-- the core is only ever called with a non-positive (sign bit set) first latitude and a non-negative longitude difference -/
theorem canon_signs (lat1 lon1 lat2 lon2 : F64) :
    let k := canon lat1 lon1 lat2 lon2
    (k.lat1.isNaN = true ∨ k.lat1.signbit = true) ∧ (k.lon12.isNaN = true ∨ k.lon12.signbit = false) := by
  unfold canon
  exact ⟨latsign_fix _, lonsign_fix _⟩

/-- non-vacuity: a concrete non-canonical input has non-trivial flags -/
example : ((canon (F64.ofInt 10) (F64.ofInt 20) (F64.ofInt 30) (F64.ofInt 5)).lonsign,
           (canon (F64.ofInt 10) (F64.ofInt 20) (F64.ofInt 30) (F64.ofInt 5)).swapp,
           (canon (F64.ofInt 10) (F64.ofInt 20) (F64.ofInt 30) (F64.ofInt 5)).latsign) = (1, -1, -1) := by decide +kernel


/-! ### `Geodesic::Astroid` (starting guess of the inverse solver in the antipodal region) -/

section Astroid
open GeoVerif.GeodInvSeries GeoVerif.Vermeille GeoVerif.Proofs.GeodInvSeries

/-- **`Astroid` returns the positive root** of `k⁴ + 2k³ − (x² + y² − 1)k² − 2y²k − y² = 0` (Cardano branch: `x, y ≠ 0`
    and a non-negative discriminant, i.e. on or outside the astroid `x^{2/3} + y^{2/3} = 1`) -/
theorem astroid_root (x y : ℝ) (hx : x ≠ 0) (hy : y ≠ 0)
    (hdisc : 0 ≤ x ^ 2 * y ^ 2 / 4 * (x ^ 2 * y ^ 2 / 4 + 2 * ((x ^ 2 + y ^ 2 - 1) / 6) ^ 3)) :
    let k := astroid x y
    0 < k ∧ k ^ 4 + 2 * k ^ 3 - (x ^ 2 + y ^ 2 - 1) * k ^ 2 - 2 * y ^ 2 * k - y ^ 2 = 0 := by
  intro k
  have hp : 0 < x ^ 2 := by positivity
  have hq : 0 < y ^ 2 := by positivity
  set p := x ^ 2 with hpd
  set q := y ^ 2 with hqd
  set r := (p + q - 1) / 6 with hr
  set S := p * q / 4 with hSd
  have hS : 0 < S := by positivity
  have hcub := astroidU_spec S r hS hdisc
  set u := astroidU S r with hu
  have hv2 : 0 < u ^ 2 + q := by positivity
  set v := Real.sqrt (u ^ 2 + q) with hv
  have hvpos : 0 < v := Real.sqrt_pos.mpr hv2
  have hvsq : v ^ 2 = u ^ 2 + q := Real.sq_sqrt hv2.le
  have hvu : 0 < v - u := by
    have : |u| < v := by rw [hv, Real.lt_sqrt (abs_nonneg u), sq_abs]; linarith
    have := le_abs_self u; linarith
  have huvpos : 0 < u + v := by
    have : |u| < v := by rw [hv, Real.lt_sqrt (abs_nonneg u), sq_abs]; linarith
    have := neg_abs_le u; linarith
  set uv := (if u < 0 then q / (v - u) else u + v) with huv
  have huv_eq : uv = u + v := by
    rw [huv]; split_ifs with h
    · rw [div_eq_iff hvu.ne']; linear_combination -hvsq
    · rfl
  set w := (uv - q) / (2 * v) with hw
  have hk : k = uv / (Real.sqrt (uv + w ^ 2) + w) := by
    show astroid x y = _
    unfold astroid
    simp only [sq_real, sqrt_real, leb_real, ltb_real, eqb_real, lit_real]
    push_cast
    have hq0 : decide (y ^ 2 = (0:ℝ)) = false := by simpa using hy
    simp only [hq0, Bool.false_and, Bool.not_false, if_true, decide_eq_true_eq]
    rfl
  have hkk := astroid_k uv w (by rw [huv_eq]; exact huvpos)
  rw [← hk] at hkk
  obtain ⟨hk3, hkpos⟩ := hkk
  refine ⟨hkpos, ?_⟩
  have h4 : 2 * v * w = 1 * (u + v - q) := by rw [hw, ← huv_eq]; field_simp
  have hq4 := vermeille_quartic p q 1 u v w k (by rw [hSd, hr] at hcub; linear_combination hcub) (by linear_combination hvsq) h4
    (by rw [← huv_eq]; exact hk3) hvpos.ne'
  linear_combination hq4

/-- non-vacuity: `(x, y) = (−1, 1)` lies outside the astroid -/
example : ((-1 : ℝ) ≠ 0) ∧ ((1 : ℝ) ≠ 0) ∧
    (0 : ℝ) ≤ (-1) ^ 2 * 1 ^ 2 / 4 * ((-1) ^ 2 * 1 ^ 2 / 4 + 2 * (((-1) ^ 2 + 1 ^ 2 - 1) / 6) ^ 3) := by norm_num

end Astroid

/-! ### The whole of `GenInverse` behind the canonicalisation (`Model/GeodInvFull.lean`)

The model is kernel-parametric: `Lengths`, `InverseStart`, `Lambda12` and the area integral are a record `Kernels`.  What follows
holds for **every** such record (hence for the series solver, whose kernels are Lean models, and for `GeodesicExact`, whose
kernel values the correspondence takes from the implementation), or under a stated contract on the kernels. -/

section Full
open GeoVerif.GeodLine GeoVerif.GeodInvSeries GeoVerif.GeodInvFull GeoVerif.Proofs.GeodInvFull

/-! #### the Newton/bisection loop, every number type (binary64 included) -/

/-- **iteration budget**: the loop of `GenInverse` evaluates the kernel at most `maxit2_ + 1` times (`numit = 0 … maxit2_`), and
    `numit ≤ maxit2_` on exit — the `numit == maxit2_` exit comes before the fuel of the model runs out. -/
theorem loop_budget {α : Type} [RealLike α] (p : Params α) (lam : α → α → Nat → LamOut α) (sb : α) (st : LoopSt α) :
    (loop p lam sb (p.maxit2 + 1) 0 st 0 []).numit ≤ p.maxit2 ∧
    (loop p lam sb (p.maxit2 + 1) 0 st 0 []).iterates.length = (loop p lam sb (p.maxit2 + 1) 0 st 0 []).numit + 1 ∧
    (loop p lam sb (p.maxit2 + 1) 0 st 0 []).iterates.length ≤ p.maxit2 + 1 := by
  have h1 := loop_numit_le p lam sb (p.maxit2 + 1) 0 st 0 [] (by omega) (by omega)
  have h2 := (loop_evals p lam sb (p.maxit2 + 1) 0 st 0 []).2
  simp only [List.length_nil, Nat.sub_zero, Nat.zero_add] at h2
  exact ⟨h1, h2, by omega⟩


/-- the budget the library ships with since fix fe4d9c6 (F70), `maxit2_ = maxit1_ + 2·digits + 20 = 146` for binary64: at most 147
    evaluations of `Lambda12` per inverse problem -/
theorem loop_budget_binary64 {α : Type} [RealLike α] (g : Geod α) (eps0 : α) (lam : α → α → Nat → LamOut α) (sb : α) (st : LoopSt α) :
    budget 53 = 146 ∧
    (loop (paramsSeries g eps0 (budget 53)) lam sb (budget 53 + 1) 0 st 0 []).numit ≤ 146 ∧
    (loop (paramsSeries g eps0 (budget 53)) lam sb (budget 53 + 1) 0 st 0 []).iterates.length ≤ 147 := by
  have h := loop_budget (paramsSeries g eps0 (budget 53)) lam sb st
  exact ⟨rfl, h.1, h.2.2⟩

/-- **the exits of the loop** (`Geodesic.cpp` 374–386): `tripb`, or `|v|` below `tol0_` (`8 tol0_` after a Newton step with `|v| ≤ 16 tol0_`),
    or the budget, or — fix 8088996 (F69) — equatorial end points at `alp1 = 90°` with `v > 0` -/
theorem loop_exits {α : Type} [RealLike α] (p : Params α) (sb : α) (numit : Nat) (st : LoopSt α) (v : α) (h : stopNow p sb numit st v = true) :
    st.tripb = true ∨
    RealLike.leb ((if st.tripn then (RealLike.ofNat 8 : α) else RealLike.ofNat 1) * p.tol0) (RealLike.abs v) = false ∨ numit = p.maxit2 ∨
    (RealLike.eqb sb (RealLike.ofNat 0) = true ∧ RealLike.eqb st.calp1 (RealLike.ofNat 0) = true ∧ RealLike.ltb (RealLike.ofNat 0) v = true) :=
  stopNow_cases p sb numit st v h

/-- the fuel parameter of the model is immaterial: more of it gives the same result -/
theorem loop_fuel_enough {α : Type} [RealLike α] (p : Params α) (lam : α → α → Nat → LamOut α) (sb : α) (st : LoopSt α) (extra : Nat) :
    loop p lam sb (p.maxit2 + 1 + extra) 0 st 0 [] = loop p lam sb (p.maxit2 + 1) 0 st 0 [] :=
  loop_fuel_irrelevant p lam sb (p.maxit2 + 1) extra 0 st 0 [] (by omega) (by omega)

/-- **the bracket update** (`Geodesic.cpp` 381–384): the current point, `tripn`, `tripb` are untouched; either nothing moves, or
    `v > 0` and the *upper* end becomes the current point, or `v < 0` and the *lower* end becomes the current point -/
theorem bracket_update {α : Type} [RealLike α] (p : Params α) (numit : Nat) (st : LoopSt α) (v : α) :
    (updBracket p numit st v).salp1 = st.salp1 ∧ (updBracket p numit st v).calp1 = st.calp1 ∧
    (updBracket p numit st v).tripn = st.tripn ∧ (updBracket p numit st v).tripb = st.tripb ∧
    (((updBracket p numit st v).salp1a = st.salp1a ∧ (updBracket p numit st v).calp1a = st.calp1a ∧
      (updBracket p numit st v).salp1b = st.salp1b ∧ (updBracket p numit st v).calp1b = st.calp1b) ∨
     (RealLike.ltb (RealLike.ofNat 0) v = true ∧ (updBracket p numit st v).salp1b = st.salp1 ∧ (updBracket p numit st v).calp1b = st.calp1 ∧
      (updBracket p numit st v).salp1a = st.salp1a ∧ (updBracket p numit st v).calp1a = st.calp1a) ∨
     (RealLike.ltb v (RealLike.ofNat 0) = true ∧ (updBracket p numit st v).salp1a = st.salp1 ∧ (updBracket p numit st v).calp1a = st.calp1 ∧
      (updBracket p numit st v).salp1b = st.salp1b ∧ (updBracket p numit st v).calp1b = st.calp1b)) :=
  updBracket_spec p numit st v

/-- one pass of the loop moves the bracket exactly as the bracket update does (neither the Newton step nor the bisection
    touches the ends) -/
theorem pass_moves_bracket_by_update {α : Type} [RealLike α] (p : Params α) (numit : Nat) (st : LoopSt α) (v dv : α) :
    (step p numit st v dv).salp1a = (updBracket p numit st v).salp1a ∧ (step p numit st v dv).calp1a = (updBracket p numit st v).calp1a ∧
    (step p numit st v dv).salp1b = (updBracket p numit st v).salp1b ∧ (step p numit st v dv).calp1b = (updBracket p numit st v).calp1b :=
  step_ends p numit st v dv

/-- **bracket invariant, any kernel**: on exit from the loop each end of the bracket is either the initial one
    (`(tiny_, 1)` resp. `(tiny_, −1)`) or a point at which `Lambda12` was evaluated with the sign that puts the root on the other
    side (`< 0` at the lower end, `> 0` at the upper end) -/
theorem bracket_ends_observed {α : Type} [RealLike α] (p : Params α) (lam : α → α → Nat → LamOut α) (sb salp1 calp1 : α) :
    EndsObserved p lam (loop p lam sb (p.maxit2 + 1) 0 (initSt p.tiny salp1 calp1) 0 []).st :=
  loop_ends_observed p lam sb _ _ _ _ _ ⟨Or.inl ⟨rfl, rfl⟩, Or.inl ⟨rfl, rfl⟩⟩

/-- **from `maxit1_` on every pass is a bisection** (no Newton step is attempted) … -/
theorem after_maxit1_bisection {α : Type} [RealLike α] (p : Params α) (numit : Nat) (st : LoopSt α) (v dv : α) (h : p.maxit1 ≤ numit) :
    step p numit st v dv = bisect p (updBracket p numit st v) :=
  step_after_maxit1 p numit st v dv h

/-- … and beyond `maxit1_` the end on the side of the sign of `v` is replaced by the current point unconditionally -/
theorem after_maxit1_replace {α : Type} [RealLike α] (p : Params α) (numit : Nat) (st : LoopSt α) (v : α) (h : p.maxit1 < numit) :
    (RealLike.ltb (RealLike.ofNat 0) v = true →
      (updBracket p numit st v).salp1b = st.salp1 ∧ (updBracket p numit st v).calp1b = st.calp1) ∧
    (RealLike.ltb v (RealLike.ofNat 0) = true → RealLike.ltb (RealLike.ofNat 0) v = false →
      (updBracket p numit st v).salp1a = st.salp1 ∧ (updBracket p numit st v).calp1a = st.calp1) :=
  ⟨updBracket_after_maxit1_pos p numit st v h, updBracket_after_maxit1_neg p numit st v h⟩

/-- a Newton step is only taken while `numit < maxit1_` and the derivative is positive -/
theorem newton_step_guard {α : Type} [RealLike α] (p : Params α) (numit : Nat) (st s : LoopSt α) (v dv : α)
    (h : newtonTry p numit st v dv = some s) : numit < p.maxit1 ∧ RealLike.ltb (RealLike.ofNat 0) dv = true :=
  newtonTry_some p numit st s v dv h

/-! #### the loop over ℝ -/

/-- **the iterates stay in `(0, π)`**: if the starting point is a unit vector with positive sine (what `InverseStart` returns) and
    `tiny_ > 0`, then on exit the current point is again a unit vector with positive sine and both ends have positive sine — for
    every kernel -/
theorem iterates_in_open_interval (p : Params ℝ) (lam : ℝ → ℝ → Nat → LamOut ℝ) (sb salp1 calp1 : ℝ) (ht : 0 < p.tiny)
    (hs : 0 < salp1) (hu : salp1 ^ 2 + calp1 ^ 2 = 1) :
    Good (loop p lam sb (p.maxit2 + 1) 0 (initSt p.tiny salp1 calp1) 0 []).st :=
  loop_good p lam sb _ _ _ _ _ ⟨hs, hu, ht, ht⟩

/-- **the loop is a bracketing method**: if the kernel is positive only above a root and negative only below it (`ρ` is the
    cotangent of the root; `cot` decreases on `(0, π)`), and `ρ` lies between the cotangents of the initial ends, then it lies
    strictly between the cotangents of the ends on exit -/
theorem bracket_contains_root (p : Params ℝ) (lam : ℝ → ℝ → Nat → LamOut ℝ) (sb ρ salp1 calp1 : ℝ) (ht : 0 < p.tiny)
    (hs : 0 < salp1) (hu : salp1 ^ 2 + calp1 ^ 2 = 1) (hc : SignContract lam ρ) (h0 : -1 / p.tiny < ρ ∧ ρ < 1 / p.tiny) :
    Brackets ρ (loop p lam sb (p.maxit2 + 1) 0 (initSt p.tiny salp1 calp1) 0 []).st := by
  apply loop_brackets p lam sb ρ _ _ _ _ _ hc ⟨hs, hu, ht, ht⟩
  show -(@OfNat.ofNat ℝ 1 RealLike.Lits.instLit) / p.tiny < ρ ∧ ρ < (@OfNat.ofNat ℝ 1 RealLike.Lits.instLit) / p.tiny
  rw [lit_one]; exact h0

/-- non-vacuity of the contract: the kernel `v = ρ − cot α₁` (increasing in `α₁`, root at `cot α₁ = ρ`) satisfies it -/
example (ρ : ℝ) : SignContract (fun s c _ => ⟨ρ - c / s, 0, 0, 0, 0, 0, 0, 0, 0, 0, 1⟩) ρ := by
  intro s c n _
  constructor <;> intro h <;> simp only [] at h <;> linarith

/-- up to `maxit1_` an end is only replaced by a point on its inner side -/
theorem bracket_ends_monotone (p : Params ℝ) (numit : Nat) (st : LoopSt ℝ) (v : ℝ) (h : numit ≤ p.maxit1) :
    (updBracket p numit st v).calp1a / (updBracket p numit st v).salp1a ≤ st.calp1a / st.salp1a ∧
    st.calp1b / st.salp1b ≤ (updBracket p numit st v).calp1b / (updBracket p numit st v).salp1b :=
  updBracket_monotone p numit st v h

/-- **a bisection puts the new point strictly inside the bracket**: unit vector, positive sine, cotangent the mediant
    `(calp1a + calp1b)/(salp1a + salp1b)` of the ends' -/
theorem bisection_inside_bracket (p : Params ℝ) (st : LoopSt ℝ) (ha : 0 < st.salp1a) (hb : 0 < st.salp1b)
    (hab : st.calp1b / st.salp1b < st.calp1a / st.salp1a) :
    0 < (bisect p st).salp1 ∧ (bisect p st).salp1 ^ 2 + (bisect p st).calp1 ^ 2 = 1 ∧
    (bisect p st).calp1 / (bisect p st).salp1 = (st.calp1a + st.calp1b) / (st.salp1a + st.salp1b) ∧
    st.calp1b / st.salp1b < (bisect p st).calp1 / (bisect p st).salp1 ∧
    (bisect p st).calp1 / (bisect p st).salp1 < st.calp1a / st.salp1a :=
  ⟨(bisect_pos_unit p st ha hb).1, (bisect_pos_unit p st ha hb).2.1, (bisect_pos_unit p st ha hb).2.2,
   (bisect_between p st ha hb hab).1, (bisect_between p st ha hb hab).2⟩

/-- non-vacuity: the initial bracket `(tiny, 1) – (tiny, −1)` -/
example : (0 : ℝ) < 1 / 2 ∧ (-1 : ℝ) / (1 / 2) < 1 / (1 / 2) := by norm_num

/-- **a bisection halves the bracket, in the angle**: when the ends are the directions `α_a`, `α_b` (unit vectors
    `(sin α, cos α)`, less than a half turn apart) the new point is the direction `(α_a + α_b)/2` — so each of the two halves
    `[α_a, α]`, `[α, α_b]`, one of which is the next bracket, is half as wide -/
theorem bisection_halves_angle (p : Params ℝ) (st : LoopSt ℝ) (A B : ℝ) (h : |A - B| < Real.pi)
    (ha : st.salp1a = Real.sin A ∧ st.calp1a = Real.cos A) (hb : st.salp1b = Real.sin B ∧ st.calp1b = Real.cos B) :
    (bisect p st).salp1 = Real.sin ((A + B) / 2) ∧ (bisect p st).calp1 = Real.cos ((A + B) / 2) := by
  have := bisect_angle A B h
  have e : ((bisect p st).salp1, (bisect p st).calp1) = norm2 ((Real.sin A + Real.sin B) / 2) ((Real.cos A + Real.cos B) / 2) := by
    unfold bisect; simp only [lit_two, ha.1, ha.2, hb.1, hb.2]
  rw [this] at e
  exact ⟨congrArg Prod.fst e, congrArg Prod.snd e⟩

example : |(1 : ℝ) - 2| < Real.pi := by
  have := Real.two_le_pi; rw [abs_lt]; constructor <;> linarith

/-! #### output ranges -/

/-- **`0 ≤ a12 ≤ 180` for the whole function**, every branch, every kernel whose arc lengths are in `[0, π]`, for `f < 1` and the
    `lon12 ≥ 0` the canonicalisation delivers.  (Before fix 62054f0 / F68 the equatorial branch needed `lon12 ≤ 180` *and* a non-negative
    `AngDiff` error term, and in binary64 it did exceed 180; the clamp makes the bound unconditional.) -/
theorem a12_range (p : Params ℝ) (k : Kernels ℝ) (β : Beta ℝ) (c : Canon ℝ) (ls sw lt : Int) (hp : 0 < p.f1)
    (hl0 : 0 ≤ c.lon12) (hstart : k.start.sig12 ≤ Real.pi)
    (hlam : ∀ s c n, 0 ≤ (k.lam s c n).sig12 ∧ (k.lam s c n).sig12 ≤ Real.pi) :
    0 ≤ (genInverse p k β c ls sw lt).out.a12 ∧ (genInverse p k β c ls sw lt).out.a12 ≤ 180 :=
  solve_a12_range p k β c hp hl0 hstart hlam

/-- … in particular for the series solver, with no hypothesis on kernels: its `Lambda12` and `InverseStart` satisfy the contract -/
theorem a12_range_series (a f tiny eps0 : ℝ) (maxit2 : Nat) (s1 c1 s2 c2 : ℝ) (c : Canon ℝ) (ls sw lt : Int) (hf : f < 1)
    (hl0 : 0 ≤ c.lon12) :
    0 ≤ (genInverseSeries (geodesic a f tiny eps0) eps0 maxit2 s1 c1 s2 c2 c ls sw lt).out.a12 ∧
    (genInverseSeries (geodesic a f tiny eps0) eps0 maxit2 s1 c1 s2 c2 c ls sw lt).out.a12 ≤ 180 := by
  unfold genInverseSeries
  apply a12_range
  · show 0 < (@OfNat.ofNat ℝ 1 RealLike.Lits.instLit) - f
    rw [lit_one]; linarith
  · exact hl0
  · exact inverseStart_sig12 _ _ _ _ _ _ _ _ _ _ _
  · intro s c' n; exact lambda12_sig12 _ _ _ _ _ _ _ _ _ _ _

example : (1 / 298 : ℝ) < 1 ∧ (0 : ℝ) ≤ 179 := by norm_num

/-- **`s12 ≥ 0` on the short-line branch** (for `b ≥ 0` and an `InverseStart` with `dnm ≥ 0`) -/
theorem s12_nonneg_short (p : Params ℝ) (k : Kernels ℝ) (β : Beta ℝ) (c : Canon ℝ) (ls sw lt : Int)
    (hb : (genInverse p k β c ls sw lt).sol.branch = .short) (hpb : 0 ≤ p.b) (hd : 0 ≤ k.start.dnm) :
    0 ≤ (genInverse p k β c ls sw lt).out.s12 := by
  have hs := solve_short p k β c hb
  show 0 ≤ (restore ls sw lt (solve p k β c).1 _).s12
  rw [restore_s12, hs.2]
  exact shortLine_s12 p _ _ (by simpa [lit_zero] using hs.1) hpb hd

/-- **`s12 ≥ 0` on the equatorial branch** -/
theorem s12_nonneg_equatorial (p : Params ℝ) (k : Kernels ℝ) (β : Beta ℝ) (c : Canon ℝ) (ls sw lt : Int)
    (hb : (genInverse p k β c ls sw lt).sol.branch = .equatorial) (ha : 0 ≤ p.a) (hl : 0 ≤ c.lon12) :
    0 ≤ (genInverse p k β c ls sw lt).out.s12 := by
  have hs := solve_equatorial p k β c hb
  show 0 ≤ (restore ls sw lt (solve p k β c).1 _).s12
  rw [restore_s12, hs.2]
  exact equatorial_s12 p c ha hl

/-- the series `InverseStart` has `dnm ≥ 0` (hypothesis of `s12_nonneg_short`) -/
theorem series_dnm_nonneg (g : Geod ℝ) (eps0 sbet1 cbet1 dn1 sbet2 cbet2 dn2 lam12 slam12 clam12 : ℝ) :
    0 ≤ (inverseStart g eps0 sbet1 cbet1 dn1 sbet2 cbet2 dn2 lam12 slam12 clam12).dnm :=
  inverseStart_dnm g eps0 sbet1 cbet1 dn1 sbet2 cbet2 dn2 lam12 slam12 clam12


/-! #### reduced latitudes: the ordering guard of fix 48445e6 (F55) -/

/-- **after the guard of lines 242–252 the reduced latitudes are ordered the way `Lambda12` needs**, whatever round-off did to
    `sincosd` and `Math::norm`: `cbet1, cbet2 > 0`; if `cbet1 < −sbet1` then `cbet1 ≤ cbet2`, else `|sbet2| ≤ −sbet1`
    (for the canonical `sbet1 ≤ 0`) -/
theorem reduced_latitudes_ordered (p : Params ℝ) (s1 c1 s2 c2 : ℝ) (ht : 0 < p.tiny) (hs : (reduceLat p s1 c1 s2 c2).sbet1 ≤ 0) :
    0 < (reduceLat p s1 c1 s2 c2).cbet1 ∧ 0 < (reduceLat p s1 c1 s2 c2).cbet2 ∧
    ((reduceLat p s1 c1 s2 c2).cbet1 < -(reduceLat p s1 c1 s2 c2).sbet1 →
      (reduceLat p s1 c1 s2 c2).cbet1 ≤ (reduceLat p s1 c1 s2 c2).cbet2) ∧
    (¬ (reduceLat p s1 c1 s2 c2).cbet1 < -(reduceLat p s1 c1 s2 c2).sbet1 →
      |(reduceLat p s1 c1 s2 c2).sbet2| ≤ -(reduceLat p s1 c1 s2 c2).sbet1) :=
  reduceLat_ordered p s1 c1 s2 c2 ht hs

/-- what `Lambda12` takes the square root of when it forms `calp2` (`Geodesic.cpp` 865–870) -/
theorem lambda12_calp2 (g : Geod ℝ) (sbet1 cbet1 dn1 sbet2 cbet2 dn2 salp1 calp1 slam120 clam120 : ℝ) :
    (lambda12 g sbet1 cbet1 dn1 sbet2 cbet2 dn2 salp1 calp1 slam120 clam120).calp2 =
      if !(RealLike.eqb cbet2 cbet1) || !(RealLike.eqb (RealLike.abs sbet2) (-sbet1)) then
        RealLike.sqrt (RealLike.sq ((if RealLike.eqb sbet1 (RealLike.ofNat 0) && RealLike.eqb calp1 (RealLike.ofNat 0) then -g.tiny else calp1) * cbet1) +
          (if RealLike.ltb cbet1 (-sbet1) then (cbet2 - cbet1) * (cbet1 + cbet2) else (sbet1 - sbet2) * (sbet1 + sbet2))) / cbet2
      else RealLike.abs (if RealLike.eqb sbet1 (RealLike.ofNat 0) && RealLike.eqb calp1 (RealLike.ofNat 0) then -g.tiny else calp1) := rfl

/-- **no square root of a negative number in `Lambda12`** (what F55 was): on the reduced latitudes that `GenInverse` forms, the
    radicand of `calp2` is non-negative for every trial azimuth -/
theorem lambda12_radicand_nonneg (p : Params ℝ) (s1 c1 s2 c2 calp1 : ℝ) (ht : 0 < p.tiny) (hs : (reduceLat p s1 c1 s2 c2).sbet1 ≤ 0) :
    0 ≤ RealLike.sq (calp1 * (reduceLat p s1 c1 s2 c2).cbet1) +
      (if RealLike.ltb (reduceLat p s1 c1 s2 c2).cbet1 (-(reduceLat p s1 c1 s2 c2).sbet1) then
         ((reduceLat p s1 c1 s2 c2).cbet2 - (reduceLat p s1 c1 s2 c2).cbet1) * ((reduceLat p s1 c1 s2 c2).cbet1 + (reduceLat p s1 c1 s2 c2).cbet2)
       else ((reduceLat p s1 c1 s2 c2).sbet1 - (reduceLat p s1 c1 s2 c2).sbet2) * ((reduceLat p s1 c1 s2 c2).sbet1 + (reduceLat p s1 c1 s2 c2).sbet2)) := by
  have h := reduceLat_ordered p s1 c1 s2 c2 ht hs
  exact radicand_nonneg _ _ _ _ calp1 h.1 h.2.1 h.2.2.1 h.2.2.2

/-- non-vacuity: a southern point 1 (`sincosd` values `(−1/2, 1/2)`, any scale) has `sbet1 ≤ 0` -/
example : (reduceLat (⟨1, 0, 1, 0, 0, 0, 1, 1, 1 / 4, 1, 1, 20, 146, 1, false⟩ : Params ℝ) (-1 / 2) (1 / 2) (1 / 4) (1 / 2)).sbet1 ≤ 0 := by
  show (norm2 ((-1 / 2 : ℝ) * 1) (1 / 2)).1 ≤ 0
  rw [norm2_fst]
  apply div_nonpos_of_nonpos_of_nonneg (by norm_num) (Real.sqrt_nonneg _)

/-! #### closed forms of the equatorial and meridional answers, azimuth structure -/

/-- **the equatorial answer** (`Geodesic.cpp` 318–325 followed by the area part and the sign restoration), for every kernel whose
    area integral vanishes on the equator: `s12 = a·λ12`, `m12 = b·sin(λ12/f1)`, `M12 = M21 = cos(λ12/f1)`, `a12 = min(lon12/f1, 180)`
    (`= lon12/f1` when the cut-off test holds exactly: `equatorial_a12_exact`), `S12 = 0`, azimuths due east/west -/
theorem equatorial_closed_form (p : Params ℝ) (k : Kernels ℝ) (β : Beta ℝ) (c : Canon ℝ) (ls sw lt : Int)
    (hb : (genInverse p k β c ls sw lt).sol.branch = .equatorial)
    (h1 : β.sbet1 = 0) (h2 : β.sbet2 = 0) (hc1 : 0 < β.cbet1) (hc2 : 0 < β.cbet2) (harea : k.area 1 0 1 0 = 0) :
    (genInverse p k β c ls sw lt).out.s12 = p.a * (c.lon12 * degree) ∧
    (genInverse p k β c ls sw lt).out.m12 = p.b * Real.sin (c.lon12 * degree / p.f1) ∧
    (genInverse p k β c ls sw lt).out.M12 = Real.cos (c.lon12 * degree / p.f1) ∧
    (genInverse p k β c ls sw lt).out.M21 = Real.cos (c.lon12 * degree / p.f1) ∧
    (genInverse p k β c ls sw lt).out.a12 = min (c.lon12 / p.f1) 180 ∧
    (genInverse p k β c ls sw lt).out.S12 = 0 ∧
    (genInverse p k β c ls sw lt).out.calp1 = 0 ∧ (genInverse p k β c ls sw lt).out.calp2 = 0 ∧
    (genInverse p k β c ls sw lt).out.salp1 = (if sw * ls < 0 then -1 else 1) ∧
    (genInverse p k β c ls sw lt).out.salp2 = (if sw * ls < 0 then -1 else 1) := by
  have hs := (solve_equatorial p k β c hb).2
  have hS : areaS12 p k β (solve p k β c).1 ls sw lt = 0 := by
    rw [hs]; exact areaS12_equatorial p k β _ _ ls sw lt h1 h2 hc1 hc2 harea
  have hr := restore_equatorial p c.lon12 (lam12Of c) ls sw lt (areaS12 p k β (solve p k β c).1 ls sw lt)
  rw [← hs] at hr
  exact ⟨hr.1, hr.2.1, hr.2.2.1, hr.2.2.2.1, hr.2.2.2.2.1, hS, hr.2.2.2.2.2.1, hr.2.2.2.2.2.2.1, hr.2.2.2.2.2.2.2.1,
    hr.2.2.2.2.2.2.2.2⟩


/-- on the equatorial branch the clamp of fix 62054f0 is inactive when the cut-off test `lon12s ≥ f·180` holds exactly (`lon12 ≤ 180`,
    `AngDiff` error term `≥ 0`): `a12 = lon12/f1` -/
theorem equatorial_a12_exact (p : Params ℝ) (k : Kernels ℝ) (β : Beta ℝ) (c : Canon ℝ) (ls sw lt : Int)
    (hb : (genInverse p k β c ls sw lt).sol.branch = .equatorial) (hf1 : p.f1 = 1 - p.f) (hf : p.f < 1)
    (hl0 : 0 ≤ c.lon12) (hl1 : c.lon12 ≤ 180) (he : 0 ≤ c.lon12e) :
    (genInverse p k β c ls sw lt).out.a12 = c.lon12 / p.f1 := by
  have hs := solve_equatorial p k β c hb
  show (solve p k β c).1.a12 = _
  rw [hs.2]
  exact equatorial_a12_unclamped p β c hf1 hf hl0 hl1 he hs.1

/-- **`a12 ≤ 180` on the equatorial branch in binary64** (what F68 violated): in every number type whose `<` is irreflexive at 180 —
    binary64 and ℝ — the equatorial answer never compares greater than 180, whatever the cut-off test and the division did; and a
    quotient that does not compare greater than 180 (a NaN included) is returned unchanged -/
theorem equatorial_a12_le_180 {α : Type} [RealLike α] (p : Params α) (k : Kernels α) (β : Beta α) (c : Canon α) (ls sw lt : Int)
    (hb : (genInverse p k β c ls sw lt).sol.branch = .equatorial)
    (hirr : RealLike.ltb (RealLike.ofNat 180 : α) (RealLike.ofNat 180) = false) :
    RealLike.ltb (RealLike.ofNat 180 : α) (genInverse p k β c ls sw lt).out.a12 = false ∧
    (RealLike.ltb (RealLike.ofNat 180 : α) (c.lon12 / p.f1) = false → (genInverse p k β c ls sw lt).out.a12 = c.lon12 / p.f1) := by
  have hs := solve_equatorial p k β c hb
  have e : (genInverse p k β c ls sw lt).out.a12 = clamp180 (c.lon12 / p.f1) := by
    show (solve p k β c).1.a12 = _
    rw [hs.2]; rfl
  rw [e]
  exact ⟨clamp180_le _ hirr, clamp180_passes _⟩

/-- non-vacuity of the irreflexivity hypothesis at ℝ -/
example : RealLike.ltb (RealLike.ofNat 180 : ℝ) (RealLike.ofNat 180) = false := by simp [ofNat_real]

/-- the series solver's area integral does vanish on the equator (hypothesis `harea` above) -/
theorem series_area_equatorial (g : Geod ℝ) (β : Beta ℝ) (h1 : β.sbet1 = 0) : areaSeries g β 1 0 1 0 = 0 :=
  areaSeries_equatorial g β h1

/-- **the meridional answer**: when the meridional branch answers, the end points are on a meridian (`lat1 = −90` or
    `sin λ12 = 0`), the candidate was accepted, the canonical azimuths are `(sin λ12, cos λ12)` at point 1 and due north at point 2,
    `σ12 = atan2(max(0, …), …)` is the difference of the arcs `tan σ1 = sbet1/(cos λ12 cbet1)`, `tan σ2 = sbet2/cbet2`, and the
    lengths are `b` × the `Lengths` kernel at these arcs, or `0` when the short-line guard fired -/
theorem meridional_closed_form (p : Params ℝ) (k : Kernels ℝ) (β : Beta ℝ) (c : Canon ℝ) (ls sw lt : Int)
    (hb : (genInverse p k β c ls sw lt).sol.branch = .meridional) :
    isMeridian c = true ∧ (meridional p k β c.slam12 c.clam12).accepted = true ∧
    (genInverse p k β c ls sw lt).sol.salp1 = c.slam12 ∧ (genInverse p k β c ls sw lt).sol.calp1 = c.clam12 ∧
    (genInverse p k β c ls sw lt).sol.salp2 = 0 ∧ (genInverse p k β c ls sw lt).sol.calp2 = 1 ∧
    (meridional p k β c.slam12 c.clam12).sig12c =
      RealLike.atan2 (max 0 (c.clam12 * β.cbet1 * β.sbet2 - β.sbet1 * β.cbet2)) (c.clam12 * β.cbet1 * β.cbet2 + β.sbet1 * β.sbet2) ∧
    (genInverse p k β c ls sw lt).out.s12 =
      (if (meridional p k β c.slam12 c.clam12).zeroed then 0
       else (k.lenMerid (meridional p k β c.slam12 c.clam12).sig12c β.sbet1 (c.clam12 * β.cbet1) β.sbet2 β.cbet2).s12b) * p.b ∧
    (genInverse p k β c ls sw lt).out.m12 =
      (if (meridional p k β c.slam12 c.clam12).zeroed then 0
       else (k.lenMerid (meridional p k β c.slam12 c.clam12).sig12c β.sbet1 (c.clam12 * β.cbet1) β.sbet2 β.cbet2).m12b) * p.b ∧
    (genInverse p k β c ls sw lt).out.a12 =
      (if (meridional p k β c.slam12 c.clam12).zeroed then 0 else (meridional p k β c.slam12 c.clam12).sig12c) / degree := by
  have hs := solve_meridional p k β c hb
  have hf := meridional_fields p k β c.slam12 c.clam12
  have e : (genInverse p k β c ls sw lt).sol = (meridional p k β c.slam12 c.clam12).sol := hs.2.2
  refine ⟨hs.1, hs.2.1, ?_, ?_, ?_, ?_, meridional_sig12c_eq p k β _ _, ?_, ?_, ?_⟩
  · rw [e]; exact hf.1
  · rw [e]; exact hf.2.1
  · rw [e]; exact hf.2.2.1
  · rw [e]; exact hf.2.2.2.1
  · show (restore ls sw lt (solve p k β c).1 _).s12 = _
    rw [restore_s12, hs.2.2]; exact hf.2.2.2.2.1
  · show (restore ls sw lt (solve p k β c).1 _).m12 = _
    rw [restore_m12, hs.2.2]; exact hf.2.2.2.2.2
  · show (solve p k β c).1.a12 = _
    rw [hs.2.2]; exact meridional_a12_eq p k β _ _

/-- **azimuths on the meridional branch**: the azimuth at the point that was canonical point 2 is exactly `0` or `180`
    (`±180` cannot be told apart over ℝ) … -/
theorem meridional_azimuth_far (p : Params ℝ) (k : Kernels ℝ) (β : Beta ℝ) (c : Canon ℝ) (ls sw lt : Int)
    (hb : (genInverse p k β c ls sw lt).sol.branch = .meridional) :
    (0 ≤ sw → (genInverse p k β c ls sw lt).out.salp2 = 0 ∧
      ((genInverse p k β c ls sw lt).azi2 = 0 ∨ (genInverse p k β c ls sw lt).azi2 = 180)) ∧
    (sw < 0 → (genInverse p k β c ls sw lt).out.salp1 = 0 ∧
      ((genInverse p k β c ls sw lt).azi1 = 0 ∨ (genInverse p k β c ls sw lt).azi1 = 180)) := by
  have hm := meridional_closed_form p k β c ls sw lt hb
  have h2 : (solve p k β c).1.salp2 = 0 := hm.2.2.2.2.1
  have h3 : (solve p k β c).1.calp2 = 1 := hm.2.2.2.2.2.1
  constructor
  · intro hsw
    have hn : ¬ sw < 0 := not_lt.mpr hsw
    have es : (genInverse p k β c ls sw lt).out.salp2 = GeodInvFull.mulSign (sw * ls) (solve p k β c).1.salp2 := by
      show GeodInvFull.mulSign (sw * ls) (if sw < 0 then _ else _) = _; rw [if_neg hn]
    have ec : (genInverse p k β c ls sw lt).out.calp2 = GeodInvFull.mulSign (sw * lt) (solve p k β c).1.calp2 := by
      show GeodInvFull.mulSign (sw * lt) (if sw < 0 then _ else _) = _; rw [if_neg hn]
    have e0 : (genInverse p k β c ls sw lt).out.salp2 = 0 := by rw [es, h2]; exact mulSign_zero _
    refine ⟨e0, ?_⟩
    have ha : (genInverse p k β c ls sw lt).azi2 =
        atan2d (genInverse p k β c ls sw lt).out.salp2 (genInverse p k β c ls sw lt).out.calp2 := rfl
    rw [ha, e0, ec, h3]
    exact atan2d_zero_pm_one _ (mulSign_pm_one _ 1 (Or.inl rfl))
  · intro hsw
    have es : (genInverse p k β c ls sw lt).out.salp1 = GeodInvFull.mulSign (sw * ls) (solve p k β c).1.salp2 := by
      show GeodInvFull.mulSign (sw * ls) (if sw < 0 then _ else _) = _; rw [if_pos hsw]
    have ec : (genInverse p k β c ls sw lt).out.calp1 = GeodInvFull.mulSign (sw * lt) (solve p k β c).1.calp2 := by
      show GeodInvFull.mulSign (sw * lt) (if sw < 0 then _ else _) = _; rw [if_pos hsw]
    have e0 : (genInverse p k β c ls sw lt).out.salp1 = 0 := by rw [es, h2]; exact mulSign_zero _
    refine ⟨e0, ?_⟩
    have ha : (genInverse p k β c ls sw lt).azi1 =
        atan2d (genInverse p k β c ls sw lt).out.salp1 (genInverse p k β c ls sw lt).out.calp1 := rfl
    rw [ha, e0, ec, h3]
    exact atan2d_zero_pm_one _ (mulSign_pm_one _ 1 (Or.inl rfl))

/-- … and when the points are on a common meridian proper (`sin λ12 = 0`, so `cos λ12 = ±1`: longitude difference 0 or 180) both
    azimuths are exactly `0` or `180` -/
theorem meridional_azimuths (p : Params ℝ) (k : Kernels ℝ) (β : Beta ℝ) (c : Canon ℝ) (ls sw lt : Int)
    (hb : (genInverse p k β c ls sw lt).sol.branch = .meridional) (hsl : c.slam12 = 0) (hcl : c.clam12 = 1 ∨ c.clam12 = -1) :
    ((genInverse p k β c ls sw lt).azi1 = 0 ∨ (genInverse p k β c ls sw lt).azi1 = 180) ∧
    ((genInverse p k β c ls sw lt).azi2 = 0 ∨ (genInverse p k β c ls sw lt).azi2 = 180) := by
  have hm := meridional_closed_form p k β c ls sw lt hb
  have h0 : (solve p k β c).1.salp1 = 0 := by rw [← hsl]; exact hm.2.2.1
  have h1 : (solve p k β c).1.calp1 = c.clam12 := hm.2.2.2.1
  have h2 : (solve p k β c).1.salp2 = 0 := hm.2.2.2.2.1
  have h3 : (solve p k β c).1.calp2 = 1 := hm.2.2.2.2.2.1
  have hfar := meridional_azimuth_far p k β c ls sw lt hb
  by_cases hsw : sw < 0
  · refine ⟨(hfar.2 hsw).2, ?_⟩
    have es : (genInverse p k β c ls sw lt).out.salp2 = GeodInvFull.mulSign (sw * ls) (solve p k β c).1.salp1 := by
      show GeodInvFull.mulSign (sw * ls) (if sw < 0 then _ else _) = _; rw [if_pos hsw]
    have ec : (genInverse p k β c ls sw lt).out.calp2 = GeodInvFull.mulSign (sw * lt) (solve p k β c).1.calp1 := by
      show GeodInvFull.mulSign (sw * lt) (if sw < 0 then _ else _) = _; rw [if_pos hsw]
    have ha : (genInverse p k β c ls sw lt).azi2 =
        atan2d (genInverse p k β c ls sw lt).out.salp2 (genInverse p k β c ls sw lt).out.calp2 := rfl
    rw [ha, es, ec, h0, h1, mulSign_zero]
    exact atan2d_zero_pm_one _ (mulSign_pm_one _ _ hcl)
  · refine ⟨?_, (hfar.1 (not_lt.mp hsw)).2⟩
    have es : (genInverse p k β c ls sw lt).out.salp1 = GeodInvFull.mulSign (sw * ls) (solve p k β c).1.salp1 := by
      show GeodInvFull.mulSign (sw * ls) (if sw < 0 then _ else _) = _; rw [if_neg hsw]
    have ec : (genInverse p k β c ls sw lt).out.calp1 = GeodInvFull.mulSign (sw * lt) (solve p k β c).1.calp1 := by
      show GeodInvFull.mulSign (sw * lt) (if sw < 0 then _ else _) = _; rw [if_neg hsw]
    have ha : (genInverse p k β c ls sw lt).azi1 =
        atan2d (genInverse p k β c ls sw lt).out.salp1 (genInverse p k β c ls sw lt).out.calp1 := rfl
    rw [ha, es, ec, h0, h1, mulSign_zero]
    exact atan2d_zero_pm_one _ (mulSign_pm_one _ _ hcl)

/-! #### the symmetry laws for the whole function

`uncanon_exchange`, `uncanon_equator`, `uncanon_meridian` above are about the tail of `GenInverse` over binary64 for an arbitrary
core.  Here the core is the model of the rest of the function; over ℝ negation is exact, so the laws read as equalities. -/

/-- **exchange of the end points** (`swapp ↦ −swapp` on the same canonical problem): `s12`, `m12`, `a12` unchanged, azimuth vectors
    exchanged and reversed, `M12 ↔ M21`, `S12` negated — for every kernel -/
theorem full_exchange (p : Params ℝ) (k : Kernels ℝ) (β : Beta ℝ) (c : Canon ℝ) (ls sw lt : Int) (hls : Sign ls) (hsw : Sign sw)
    (hlt : Sign lt) :
    (genInverse p k β c ls (-sw) lt).out.s12 = (genInverse p k β c ls sw lt).out.s12 ∧
    (genInverse p k β c ls (-sw) lt).out.m12 = (genInverse p k β c ls sw lt).out.m12 ∧
    (genInverse p k β c ls (-sw) lt).out.a12 = (genInverse p k β c ls sw lt).out.a12 ∧
    (genInverse p k β c ls (-sw) lt).out.salp1 = -(genInverse p k β c ls sw lt).out.salp2 ∧
    (genInverse p k β c ls (-sw) lt).out.calp1 = -(genInverse p k β c ls sw lt).out.calp2 ∧
    (genInverse p k β c ls (-sw) lt).out.salp2 = -(genInverse p k β c ls sw lt).out.salp1 ∧
    (genInverse p k β c ls (-sw) lt).out.calp2 = -(genInverse p k β c ls sw lt).out.calp1 ∧
    (genInverse p k β c ls (-sw) lt).out.M12 = (genInverse p k β c ls sw lt).out.M21 ∧
    (genInverse p k β c ls (-sw) lt).out.M21 = (genInverse p k β c ls sw lt).out.M12 ∧
    (genInverse p k β c ls (-sw) lt).out.S12 = -(genInverse p k β c ls sw lt).out.S12 := by
  rcases hls with rfl | rfl <;> rcases hsw with rfl | rfl <;> rcases hlt with rfl | rfl <;>
    simp [genInverse, restore, areaS12, mulSign_real, lit_zero]

/-- **reflection in the equator** (`latsign ↦ −latsign`): cosines of the azimuths negated (`azi ↦ 180 − azi`), `S12` negated -/
theorem full_equator (p : Params ℝ) (k : Kernels ℝ) (β : Beta ℝ) (c : Canon ℝ) (ls sw lt : Int) (hls : Sign ls) (hsw : Sign sw)
    (hlt : Sign lt) :
    (genInverse p k β c ls sw (-lt)).out.s12 = (genInverse p k β c ls sw lt).out.s12 ∧
    (genInverse p k β c ls sw (-lt)).out.m12 = (genInverse p k β c ls sw lt).out.m12 ∧
    (genInverse p k β c ls sw (-lt)).out.a12 = (genInverse p k β c ls sw lt).out.a12 ∧
    (genInverse p k β c ls sw (-lt)).out.M12 = (genInverse p k β c ls sw lt).out.M12 ∧
    (genInverse p k β c ls sw (-lt)).out.M21 = (genInverse p k β c ls sw lt).out.M21 ∧
    (genInverse p k β c ls sw (-lt)).out.salp1 = (genInverse p k β c ls sw lt).out.salp1 ∧
    (genInverse p k β c ls sw (-lt)).out.calp1 = -(genInverse p k β c ls sw lt).out.calp1 ∧
    (genInverse p k β c ls sw (-lt)).out.salp2 = (genInverse p k β c ls sw lt).out.salp2 ∧
    (genInverse p k β c ls sw (-lt)).out.calp2 = -(genInverse p k β c ls sw lt).out.calp2 ∧
    (genInverse p k β c ls sw (-lt)).out.S12 = -(genInverse p k β c ls sw lt).out.S12 := by
  rcases hls with rfl | rfl <;> rcases hsw with rfl | rfl <;> rcases hlt with rfl | rfl <;>
    simp [genInverse, restore, areaS12, mulSign_real, lit_zero]

/-- **reflection in a meridian** (`lonsign ↦ −lonsign`): sines of the azimuths negated (`azi ↦ −azi`), `S12` negated -/
theorem full_meridian (p : Params ℝ) (k : Kernels ℝ) (β : Beta ℝ) (c : Canon ℝ) (ls sw lt : Int) (hls : Sign ls) (hsw : Sign sw)
    (hlt : Sign lt) :
    (genInverse p k β c (-ls) sw lt).out.s12 = (genInverse p k β c ls sw lt).out.s12 ∧
    (genInverse p k β c (-ls) sw lt).out.m12 = (genInverse p k β c ls sw lt).out.m12 ∧
    (genInverse p k β c (-ls) sw lt).out.a12 = (genInverse p k β c ls sw lt).out.a12 ∧
    (genInverse p k β c (-ls) sw lt).out.M12 = (genInverse p k β c ls sw lt).out.M12 ∧
    (genInverse p k β c (-ls) sw lt).out.M21 = (genInverse p k β c ls sw lt).out.M21 ∧
    (genInverse p k β c (-ls) sw lt).out.salp1 = -(genInverse p k β c ls sw lt).out.salp1 ∧
    (genInverse p k β c (-ls) sw lt).out.calp1 = (genInverse p k β c ls sw lt).out.calp1 ∧
    (genInverse p k β c (-ls) sw lt).out.salp2 = -(genInverse p k β c ls sw lt).out.salp2 ∧
    (genInverse p k β c (-ls) sw lt).out.calp2 = (genInverse p k β c ls sw lt).out.calp2 ∧
    (genInverse p k β c (-ls) sw lt).out.S12 = -(genInverse p k β c ls sw lt).out.S12 := by
  rcases hls with rfl | rfl <;> rcases hsw with rfl | rfl <;> rcases hlt with rfl | rfl <;>
    simp [genInverse, restore, areaS12, mulSign_real, lit_zero]

/-- the same flags leave the branch, the iteration count and every canonical quantity alone: `solve` does not see them -/
theorem flags_do_not_reach_the_solver (p : Params ℝ) (k : Kernels ℝ) (β : Beta ℝ) (c : Canon ℝ) (ls sw lt ls' sw' lt' : Int) :
    (genInverse p k β c ls sw lt).sol = (genInverse p k β c ls' sw' lt').sol := rfl


/-- non-vacuity of `equatorial_closed_form`, `s12_nonneg_equatorial`: on a sphere two equatorial points 90° apart are answered by the
    equatorial branch, whatever the kernels -/
example (k : Kernels ℝ) :
    (genInverse ⟨1, 0, 1, 0, 0, 0, 1, 1, 1, 1, 1, 20, 146, 1, false⟩ k ⟨0, 1, 0, 1, 1, 1⟩ ⟨0, 90, 0, 1, 0⟩ 1 1 1).sol.branch = .equatorial := by
  have h : (solve ⟨1, 0, 1, 0, 0, 0, 1, 1, 1, 1, 1, 20, 146, 1, false⟩ k ⟨0, 1, 0, 1, 1, 1⟩ ⟨0, 90, 0, 1, 0⟩).1 =
      equatorial ⟨1, 0, 1, 0, 0, 0, 1, 1, 1, 1, 1, 20, 146, 1, false⟩ 90 (lam12Of ⟨0, 90, 0, 1, 0⟩) := by
    unfold solve isMeridian equatorialTest
    have h1 : ¬ ((0 : ℝ) = -(@OfNat.ofNat ℝ 90 RealLike.Lits.instLit)) := by rw [lit_real]; norm_num
    have h2 : ¬ ((1 : ℝ) = (@OfNat.ofNat ℝ 0 RealLike.Lits.instLit)) := by rw [lit_zero]; norm_num
    simp [h1, lit_zero]
  show (solve _ k _ _).1.branch = _
  rw [h]; rfl

/-- non-vacuity of `meridional_closed_form`, `meridional_azimuths`: two points on the meridian `λ12 = 0` with a `Lengths` kernel that
    returns `m12 = 0` are answered by the meridional branch -/
example (st : StartOut ℝ) (lam : ℝ → ℝ → Nat → LamOut ℝ) (lf : LamOut ℝ → LenOut ℝ) (ar : ℝ → ℝ → ℝ → ℝ → ℝ) :
    (genInverse ⟨1, 0, 1, 0, 0, 0, 1, 1, 1, 1, 1, 20, 146, 1, false⟩ ⟨fun _ _ _ _ _ => ⟨0, 0, 1, 1⟩, st, lam, lf, ar⟩
      ⟨-1 / 2, 1 / 2, 0, 1, 1, 1⟩ ⟨-30, 0, 0, 0, 1⟩ 1 1 1).sol.branch = .meridional := by
  have h : (solve ⟨1, 0, 1, 0, 0, 0, 1, 1, 1, 1, 1, 20, 146, 1, false⟩ ⟨fun _ _ _ _ _ => ⟨0, 0, 1, 1⟩, st, lam, lf, ar⟩
      ⟨-1 / 2, 1 / 2, 0, 1, 1, 1⟩ ⟨-30, 0, 0, 0, 1⟩).1 =
      (meridional ⟨1, 0, 1, 0, 0, 0, 1, 1, 1, 1, 1, 20, 146, 1, false⟩ ⟨fun _ _ _ _ _ => ⟨0, 0, 1, 1⟩, st, lam, lf, ar⟩
        ⟨-1 / 2, 1 / 2, 0, 1, 1, 1⟩ 0 1).sol := by
    unfold solve isMeridian
    have hm : (RealLike.eqb (-30 : ℝ) (-(@OfNat.ofNat ℝ 90 RealLike.Lits.instLit)) ||
        RealLike.eqb (0 : ℝ) (@OfNat.ofNat ℝ 0 RealLike.Lits.instLit)) = true := by rw [lit_zero]; simp
    have ha : (meridional ⟨1, 0, 1, 0, 0, 0, 1, 1, 1, 1, 1, 20, 146, 1, false⟩ ⟨fun _ _ _ _ _ => ⟨0, 0, 1, 1⟩, st, lam, lf, ar⟩
        ⟨-1 / 2, 1 / 2, 0, 1, 1, 1⟩ (0 : ℝ) 1).accepted = true := by
      show (RealLike.ltb _ _ || RealLike.leb (@OfNat.ofNat ℝ 0 RealLike.Lits.instLit) (0 : ℝ)) = true
      rw [lit_zero]; simp
    simp only [hm, ↓reduceIte, ha]
  show (solve _ _ _ _).1.branch = _
  rw [h]; rfl

/-! #### the binary64 laws, instantiated

The laws `uncanon_exchange`, `uncanon_equator`, `uncanon_meridian` hold over the exact binary64 model for *every* core.  The
following definition is the full series model executed in binary64 as such a core (the `sincosd` kernels by libm), and the three
instantiations. -/

/-- the series solver of `Model/GeodInvFull.lean` on the canonical problem, in binary64, as a core of the wrapper of
    `Model/GeodInverse.lean` -/
def seriesCoreF64 (a f : Float) (k : GeodInverse.Canon) : Core :=
  let eps0 : Float := 2.220446049250313e-16
  let g := geodesic a f (Float.sqrt 2.2250738585072014e-308) eps0
  let sc (x : Float) : Float × Float := (Float.sin (x * (degree : Float)), Float.cos (x * (degree : Float)))
  let lon12 := k.lon12.toFloat
  let lon12e := k.lon12s.toFloat
  let sl := sc (lon12 + lon12e)
  let b1 := sc k.lat1.toFloat
  let b2 := sc k.lat2.toFloat
  let r := genInverseSeries g eps0 (budget 53) b1.1 b1.2 b2.1 b2.2 ⟨k.lat1.toFloat, lon12, lon12e, sl.1, sl.2⟩ 1 1 1
  let o := r.out
  ⟨F64.ofFloat o.s12, F64.ofFloat o.salp1, F64.ofFloat o.calp1, F64.ofFloat o.salp2, F64.ofFloat o.calp2, F64.ofFloat o.m12,
   F64.ofFloat o.M12, F64.ofFloat o.M21, F64.ofFloat o.S12, F64.ofFloat o.a12⟩

/-- exchange of the end points for the whole series solver in binary64 -/
theorem series_f64_exchange (a f : Float) (k : GeodInverse.Canon) (hls : Sign k.lonsign) (hsw : Sign k.swapp) (hlt : Sign k.latsign) :
    let r := uncanon k.lonsign k.swapp k.latsign (seriesCoreF64 a f k)
    let r' := uncanon k.lonsign (-k.swapp) k.latsign (seriesCoreF64 a f k)
    r'.s12 = r.s12 ∧ r'.m12 = r.m12 ∧ r'.a12 = r.a12 ∧
    r'.salp1 = F64.neg r.salp2 ∧ r'.calp1 = F64.neg r.calp2 ∧ r'.salp2 = F64.neg r.salp1 ∧ r'.calp2 = F64.neg r.calp1 ∧
    r'.M12 = r.M21 ∧ r'.M21 = r.M12 ∧ r'.S12 = F64.neg r.S12 :=
  uncanon_exchange k.lonsign k.swapp k.latsign hls hsw hlt (seriesCoreF64 a f k)

/-- reflection in the equator for the whole series solver in binary64 -/
theorem series_f64_equator (a f : Float) (k : GeodInverse.Canon) (hls : Sign k.lonsign) (hsw : Sign k.swapp) (hlt : Sign k.latsign) :
    let r := uncanon k.lonsign k.swapp k.latsign (seriesCoreF64 a f k)
    let r' := uncanon k.lonsign k.swapp (-k.latsign) (seriesCoreF64 a f k)
    r'.s12 = r.s12 ∧ r'.m12 = r.m12 ∧ r'.M12 = r.M12 ∧ r'.M21 = r.M21 ∧
    r'.salp1 = r.salp1 ∧ r'.calp1 = F64.neg r.calp1 ∧ r'.salp2 = r.salp2 ∧ r'.calp2 = F64.neg r.calp2 ∧ r'.S12 = F64.neg r.S12 :=
  uncanon_equator k.lonsign k.swapp k.latsign hls hsw hlt (seriesCoreF64 a f k)

/-- reflection in a meridian for the whole series solver in binary64 -/
theorem series_f64_meridian (a f : Float) (k : GeodInverse.Canon) (hls : Sign k.lonsign) (hsw : Sign k.swapp) (hlt : Sign k.latsign) :
    let r := uncanon k.lonsign k.swapp k.latsign (seriesCoreF64 a f k)
    let r' := uncanon (-k.lonsign) k.swapp k.latsign (seriesCoreF64 a f k)
    r'.s12 = r.s12 ∧ r'.m12 = r.m12 ∧ r'.M12 = r.M12 ∧ r'.M21 = r.M21 ∧
    r'.salp1 = F64.neg r.salp1 ∧ r'.calp1 = r.calp1 ∧ r'.salp2 = F64.neg r.salp2 ∧ r'.calp2 = r.calp2 ∧ r'.S12 = F64.neg r.S12 :=
  uncanon_meridian k.lonsign k.swapp k.latsign hls hsw hlt (seriesCoreF64 a f k)


end Full

end GeoVerif.Props.C02
