import GeoVerif.Model.GeodInverse
/-!
# C02 — inverse problem: the symmetry bookkeeping holds for every core solver (core Lean only)
-/
namespace GeoVerif.Props.C02
open GeoVerif GeoVerif.GeodInverse

theorem neg_neg (x : F64) : F64.neg (F64.neg x) = x := by
  cases x <;> simp [F64.neg]

theorem mulSign_neg (s : Int) (hs : s = 1 ∨ s = -1) (x : F64) : mulSign (-s) x = F64.neg (mulSign s x) := by
  rcases hs with rfl | rfl <;> simp [mulSign, neg_neg]

/-- the flags are signs -/
def Sign (s : Int) : Prop := s = 1 ∨ s = -1

/-- **exchange of the end points** (swapp ↦ −swapp, everything else equal): `s12`, `m12`, `a12` unchanged; the
    azimuths are exchanged and reversed (`azi1' = azi2 ± 180`: both sine and cosine negated), `M12 ↔ M21`, `S12` negated -/
theorem uncanon_exchange (ls sw lt : Int) (hls : Sign ls) (hsw : Sign sw) (hlt : Sign lt) (c : Core) :
    let r := uncanon ls sw lt c
    let r' := uncanon ls (-sw) lt c
    r'.s12 = r.s12 ∧ r'.m12 = r.m12 ∧ r'.a12 = r.a12 ∧
    r'.salp1 = F64.neg r.salp2 ∧ r'.calp1 = F64.neg r.calp2 ∧ r'.salp2 = F64.neg r.salp1 ∧ r'.calp2 = F64.neg r.calp1 ∧
    r'.M12 = r.M21 ∧ r'.M21 = r.M12 ∧ r'.S12 = F64.neg r.S12 := by
  rcases hls with rfl | rfl <;> rcases hsw with rfl | rfl <;> rcases hlt with rfl | rfl <;>
    simp [uncanon, mulSign, neg_neg]

/-- **reflection in the equator** (latsign ↦ −latsign): cosines of the azimuths negated (`azi ↦ 180 − azi`), `S12` negated -/
theorem uncanon_equator (ls sw lt : Int) (hls : Sign ls) (hsw : Sign sw) (hlt : Sign lt) (c : Core) :
    let r := uncanon ls sw lt c
    let r' := uncanon ls sw (-lt) c
    r'.s12 = r.s12 ∧ r'.m12 = r.m12 ∧ r'.M12 = r.M12 ∧ r'.M21 = r.M21 ∧
    r'.salp1 = r.salp1 ∧ r'.calp1 = F64.neg r.calp1 ∧ r'.salp2 = r.salp2 ∧ r'.calp2 = F64.neg r.calp2 ∧ r'.S12 = F64.neg r.S12 := by
  rcases hls with rfl | rfl <;> rcases hsw with rfl | rfl <;> rcases hlt with rfl | rfl <;>
    simp [uncanon, mulSign, neg_neg]

/-- **reflection in a meridian** (lonsign ↦ −lonsign): sines of the azimuths negated (`azi ↦ −azi`), `S12` negated -/
theorem uncanon_meridian (ls sw lt : Int) (hls : Sign ls) (hsw : Sign sw) (hlt : Sign lt) (c : Core) :
    let r := uncanon ls sw lt c
    let r' := uncanon (-ls) sw lt c
    r'.s12 = r.s12 ∧ r'.m12 = r.m12 ∧ r'.M12 = r.M12 ∧ r'.M21 = r.M21 ∧
    r'.salp1 = F64.neg r.salp1 ∧ r'.calp1 = r.calp1 ∧ r'.salp2 = F64.neg r.salp2 ∧ r'.calp2 = r.calp2 ∧ r'.S12 = F64.neg r.S12 := by
  rcases hls with rfl | rfl <;> rcases hsw with rfl | rfl <;> rcases hlt with rfl | rfl <;>
    simp [uncanon, mulSign, neg_neg]

/-- on a canonical input the wrapper is the identity (this is what lets the implementation supply its own core values) -/
theorem uncanon_identity (c : Core) : uncanon 1 1 1 c = c := by
  simp [uncanon, mulSign]

/-- the flags produced by `canon` are signs -/
theorem canon_flags (lat1 lon1 lat2 lon2 : F64) :
    Sign (canon lat1 lon1 lat2 lon2).lonsign ∧ Sign (canon lat1 lon1 lat2 lon2).swapp ∧ Sign (canon lat1 lon1 lat2 lon2).latsign := by
  unfold canon Sign
  simp only []
  refine ⟨?_, ?_, ?_⟩ <;> (repeat' split) <;> simp

theorem latsign_fix (x : F64) :
    (mulSign (if x.signbit = true then 1 else -1) x).isNaN = true ∨ (mulSign (if x.signbit = true then 1 else -1) x).signbit = true := by
  cases x with
  | nan => left; simp [mulSign, F64.signbit, F64.neg, F64.isNaN]
  | inf s => right; cases s <;> simp [mulSign, F64.signbit, F64.neg]
  | fin s m e => right; cases s <;> simp [mulSign, F64.signbit, F64.neg]

theorem lonsign_fix (d : F64) :
    (mulSign (if d.signbit = true then -1 else 1) d).isNaN = true ∨ (mulSign (if d.signbit = true then -1 else 1) d).signbit = false := by
  cases d with
  | nan => left; simp [mulSign, F64.signbit, F64.isNaN]
  | inf s => right; cases s <;> simp [mulSign, F64.signbit, F64.neg]
  | fin s m e => right; cases s <;> simp [mulSign, F64.signbit, F64.neg]

/-- the core is only ever called with a non-positive (sign bit set) first latitude and a non-negative longitude difference -/
theorem canon_signs (lat1 lon1 lat2 lon2 : F64) :
    let k := canon lat1 lon1 lat2 lon2
    (k.lat1.isNaN = true ∨ k.lat1.signbit = true) ∧ (k.lon12.isNaN = true ∨ k.lon12.signbit = false) := by
  unfold canon
  exact ⟨latsign_fix _, lonsign_fix _⟩

/-- non-vacuity: a concrete non-canonical input has non-trivial flags -/
example : ((canon (F64.ofInt 10) (F64.ofInt 20) (F64.ofInt 30) (F64.ofInt 5)).lonsign,
           (canon (F64.ofInt 10) (F64.ofInt 20) (F64.ofInt 30) (F64.ofInt 5)).swapp,
           (canon (F64.ofInt 10) (F64.ofInt 20) (F64.ofInt 30) (F64.ofInt 5)).latsign) = (1, -1, -1) := by decide +kernel

end GeoVerif.Props.C02
