import GeoVerif.Model.Effects
import GeoVerif.Proofs.Effects
import GeoVerif.Gen.Effects
/-!
# C14 — shared immutable objects are safe to use from many threads

Property (properties.jsonl): any number of threads may concurrently call the const member functions of the same
solver / projection object, including the built-in singletons (first touched concurrently) and a thread-safe Geoid,
without data races, and each call returns exactly the value it returns when executed alone.  Documented
non-thread-safe state (ordinary Geoid cache, Intersect counters, NearestNeighbor statistics, growth of the harmonic
square-root table) is excluded.

What is proved here:
* `no_write_no_race`, `readonly_returns_solo_value` — for every program whose operations write nothing that another
  thread reads or writes, every interleaving is race-free and every thread observes exactly the results it observes
  when it runs alone from the initial state (all programs, all interleavings, all initial states).
* `static_init_once` — a location written only by a C++11 function-local-static initialiser (modelled as an atomic
  once-step; the language guarantee itself is in the trusted base) is written at most once and every read sees the
  completed initialisation.
* `prefilled_cache_never_written` — a fill-on-miss cache all of whose demanded blocks were filled at construction has
  an empty dynamic write set.
The obligations on the effect table extracted from the current C++ sources (`Gen/Effects.lean`, regenerated on
every run) are at the end of the file; they are what connects the two theorems above to the code as it is now.
-/
namespace GeoVerif.Props.C14
open GeoVerif.Effects

variable {Loc Val Ret : Type} [DecidableEq Loc]

/-- **Non-interference.**  If every operation's write set is disjoint from the read and write sets of all operations
of the *other* threads, then every interleaving of the program is race-free, and in every interleaving each thread
obtains exactly the list of results it obtains when it runs alone from the same initial state. -/
theorem no_write_no_race (P : List (List (Op Loc Val Ret))) (hP : NonInterfering P) (σ₀ : State Loc Val)
    (tr : Trace Loc Val Ret) (h : Interleave P tr) :
    RaceFree tr ∧ ∀ i T, P[i]? = some T → resultsOf i (runTrace σ₀ tr).2 = (runThread σ₀ T).2 := by
  constructor
  · intro a ha b hb hab hc
    obtain ⟨Ta, hTa, hma⟩ := h.mem a ha
    obtain ⟨Tb, hTb, hmb⟩ := h.mem b hb
    obtain ⟨l, hl | hl⟩ := hc
    · exact hP a.1 b.1 hab Ta hTa Tb hTb a.2 hma b.2 hmb l hl.1 hl.2
    · exact hP b.1 a.1 (fun e => hab e.symm) Tb hTb Ta hTa b.2 hmb a.2 hma l hl.1 hl.2
  · induction h generalizing σ₀ with
    | @done P hall =>
      intro i T hT
      have : T = [] := hall T (List.mem_of_getElem? hT)
      subst this
      simp [runTrace, resultsOf, runThread]
    | @step P tr i o rest hi _ ih =>
      intro j T hT
      have hlt : i < P.length := by
        rcases Nat.lt_or_ge i P.length with h | h
        · exact h
        · simp [List.getElem?_eq_none h] at hi
      have hP' := nonInterfering_set hP hi
      by_cases hji : j = i
      · subst hji
        rw [hi] at hT; cases hT
        have := ih hP' (o.step σ₀).1 j rest (List.getElem?_set_self hlt)
        simp only [runTrace, runThread, resultsOf_cons_same, this]
      · have hT' : (P.set i rest)[j]? = some T := by rw [List.getElem?_set_ne (fun h => hji h.symm)]; exact hT
        have h1 := ih hP' (o.step σ₀).1 j T hT'
        have h2 : (runThread (o.step σ₀).1 T).2 = (runThread σ₀ T).2 := by
          apply runThread_congr
          intro o' ho' l hl
          apply step_frame
          intro hw
          exact hP i j (fun e => hji e.symm) (o :: rest) hi T hT o (by simp) o' ho' l hw hl
        simp only [runTrace, resultsOf_cons_other (fun e => hji e.symm), h1, h2]

/-- **Read-only operations.**  If no operation of the program writes a shared location (what `effects_disjoint`
establishes for the const/static functions of the library), then in every interleaving every call returns exactly
the value it returns when executed alone from the initial state. -/
theorem readonly_returns_solo_value (P : List (List (Op Loc Val Ret))) (hw : ∀ T ∈ P, ∀ o ∈ T, o.writes = [])
    (σ₀ : State Loc Val) (tr : Trace Loc Val Ret) (h : Interleave P tr) :
    RaceFree tr ∧ ∀ i T, P[i]? = some T → resultsOf i (runTrace σ₀ tr).2 = T.map (fun o => (o.step σ₀).2) := by
  have hP : NonInterfering P := by
    intro i j _ Ti hTi Tj _ a ha b _ l hl
    have := hw Ti (List.mem_of_getElem? hTi) a ha
    simp [this] at hl
  obtain ⟨h1, h2⟩ := no_write_no_race P hP σ₀ tr h
  refine ⟨h1, fun i T hT => ?_⟩
  rw [h2 i T hT, runThread_readonly T (hw T (List.mem_of_getElem? hT))]

/-! ### non-vacuity: a concrete program with thread-private writes, and one of its interleavings -/
section Example
/-- thread 0 increments its private location 0 and reads the shared constant 2; thread 1 reads location 2 twice -/
private def inc0 : Op Nat Nat Nat := { name := "inc0", reads := [0, 2], writes := [0], f := fun v => (fun _ => (v 0).getD 0 + 1, (v 0).getD 0 + (v 2).getD 0) }
private def rd2 : Op Nat Nat Nat := { name := "rd2", reads := [2], writes := [], f := fun v => (fun _ => 0, (v 2).getD 0) }
private def prog : List (List (Op Nat Nat Nat)) := [[inc0, inc0], [rd2, rd2]]
private def sched : Trace Nat Nat Nat := [(1, rd2), (0, inc0), (1, rd2), (0, inc0)]

example : NonInterfering prog := by
  intro i j hij Ti hTi Tj hTj a ha b hb l hl
  match i, j with
  | 0, 0 => exact absurd rfl hij
  | 0, 1 =>
    simp [prog] at hTi hTj; subst hTi; subst hTj
    simp at ha hb
    rcases ha with rfl | rfl <;> rcases hb with rfl | rfl <;> simp_all [inc0, rd2, Op.footprint]
  | 1, 0 =>
    simp [prog] at hTi hTj; subst hTi; subst hTj
    simp at ha
    rcases ha with rfl | rfl <;> simp [rd2] at hl
  | 1, 1 => exact absurd rfl hij
  | 0, (n + 2) => simp [prog] at hTj
  | 1, (n + 2) => simp [prog] at hTj
  | (n + 2), _ => simp [prog] at hTi

example : Interleave prog sched :=
  .step 1 rd2 [rd2] rfl <| .step 0 inc0 [inc0] rfl <| .step 1 rd2 [] rfl <| .step 0 inc0 [] rfl <|
    .done (by intro T hT; simp [prog] at hT; rcases hT with rfl | rfl <;> rfl)

/-- the interleaved run gives thread 0 the results 7, 8 and thread 1 the results 7, 7 — the solo results -/
example : resultsOf 0 (runTrace (fun l => if l = 2 then 7 else 0) sched).2 = [7, 8]
    ∧ resultsOf 1 (runTrace (fun l => if l = 2 then 7 else 0) sched).2 = [7, 7]
    ∧ (runThread (fun l => if l = 2 then 7 else 0) [inc0, inc0]).2 = [7, 8] := by decide
end Example

/-! ### function-local statics -/

/-- **Function-local statics are initialised once, before any read.**  Let `l` be a location that is written only by
its C++11 guarded initialiser (always yielding `v`) and that every thread reads only after passing through the
declaration (the accessor pattern `static const T x(...); return x;`).  Then in every interleaving of any number of
threads, starting with `l` uninitialised, `l` is written at most once, and every read of `l` sees the completed
initialisation and the value `v`. -/
theorem static_init_once (l : Loc) (v : Val) (tr : List (Nat × SStep Loc Val)) (s₀ : SState Loc Val)
    (h0 : s₀.inited l = false) (hg : GuardedReads l tr []) (ho : OnlyInit l v tr) :
    writesTo l (srun s₀ tr).2 ≤ 1 ∧
    ∀ e ∈ (srun s₀ tr).2, match e with
      | .saw _ x w ini => x = l → (ini = true ∧ w = v)
      | .wrote _ _ _ => True := by
  obtain ⟨c1, c2⟩ := static_aux l v tr s₀ [] (by simp [h0]) (by simp) hg ho
  refine ⟨by simpa [h0] using c1, fun e he => ?_⟩
  have := c2 e he
  cases e <;> simpa [goodEvent] using this

/-- non-vacuity: three threads race to `Geodesic::WGS84()` (location 0, initial garbage 99, initialiser value 5) -/
example : GuardedReads (0 : Nat) ([(1, .once 0 5), (2, .once 0 5), (1, .read 0), (0, .once 0 5), (2, .read 0), (0, .read 0)] : List (Nat × SStep Nat Nat)) []
    ∧ OnlyInit (0 : Nat) (5 : Nat) ([(1, .once 0 5), (2, .once 0 5), (1, .read 0), (0, .once 0 5), (2, .read 0), (0, .read 0)] : List (Nat × SStep Nat Nat)) := by
  refine ⟨by simp [GuardedReads], ?_⟩
  intro p hp
  simp at hp
  rcases hp with rfl | rfl | rfl | rfl | rfl | rfl <;> simp [StepOK]

example : writesTo (0 : Nat) (srun ({ val := fun _ => 99, inited := fun _ => false } : SState Nat Nat)
    [(1, .once 0 5), (2, .once 0 5), (1, .read 0), (0, .once 0 5), (2, .read 0), (0, .read 0)]).2 = 1 := by decide

/-- **A prefilled fill-on-miss cache is never written.**  `lazyWrites filled k` is the dynamic write set of
`if (block k unfilled) fill(k)`; if every demanded block was filled at construction it is empty for every demand. -/
theorem prefilled_cache_never_written {α : Type} [DecidableEq α] (filled demanded : List α) (h : ∀ k ∈ demanded, k ∈ filled) :
    ∀ k ∈ demanded, lazyWrites filled k = [] := by
  intro k hk; simp [lazyWrites, h k hk]

/-! ## Obligations on the effect table extracted from the current sources (`Gen/Effects.lean`, regenerated on every run) -/
section Table
open GeoVerif.Gen.Effects

/-- all ordered pairs (auxout, auxin) of distinct auxiliary latitudes: the coefficient blocks the series branch of
`AuxLatitude::Convert` / `DAuxLatitude::DConvert` can demand (`k = ind(auxout, auxin)`, `auxin ≠ auxout`, both in range) -/
def auxDemanded (n : Nat) : List (Nat × Nat) :=
  (List.range n).flatMap fun o => ((List.range n).filter (· ≠ o)).map fun i => (o, i)

/-- **Gen-obligation.**  There are (at least) the two public constructors, and every constructor of `AuxLatitude` eagerly
fills every block that `Convert`/`DConvert` can demand: the guard `isnan(_c[…])` of the lazy fill is false from
construction on (fix 3af0ef0 of finding F1; seeded change C14A narrows one loop and breaks this). -/
theorem auxlat_prefill_covers :
    2 ≤ auxFilled.length ∧ ∀ c ∈ auxFilled, ∀ k ∈ auxDemanded auxNumber, k ∈ c.2 := by decide +kernel

/-- with the previous theorem: no demanded block of any AuxLatitude object is ever written after construction -/
theorem auxlat_cache_never_written : ∀ c ∈ auxFilled, ∀ k ∈ auxDemanded auxNumber, lazyWrites c.2 k = [] :=
  fun c hc k hk => by
    have := auxlat_prefill_covers.2 c hc k hk
    simp [lazyWrites, this]

/-- **Gen-obligation `fft_sizes_smooth`.**  Every FFT length reachable from `GeodesicExact` (the decoded entries of
`narr[]`, doubled as `DST` does) is 5-smooth (2^a 3^b 5^c). -/
theorem fft_sizes_smooth : fftSizes ≠ [] ∧ ∀ n ∈ fftSizes, fiveSmooth n = true := by decide +kernel

/-- the explicit case labels of the radix switch in `kissfft::transform` cover every stage radix that kissfft's own
factorisation (model `kissRadices`, compared with the implementation by the `fftradix` ops) produces for those lengths:
the `default:` label — the only path to `kf_bfly_generic`, the only writer of the mutable `_scratchbuf` — is not reached -/
def radicesCovered (cases : List Nat) : Bool := fftSizes.all fun n => (kissRadices n).all cases.contains

/-- **Gen-obligation.**  With dedicated butterflies for 2, 3, 4, 5 the generic butterfly is unreachable from GeodesicExact. -/
theorem fft_generic_butterfly_unreachable : radicesCovered [2, 3, 4, 5] = true := by decide +kernel

/-- the certificates used by `effects_disjoint` -/
def certs : Certs where
  prefilled := if (2 ≤ auxFilled.length ∧ ∀ c ∈ auxFilled, ∀ k ∈ auxDemanded auxNumber, k ∈ c.2) then ["AuxLatitude::_c"] else []
  defaultUnreachable := fun cases => if radicesCovered cases then ["kissfft::_scratchbuf"] else []

/-- **Gen-obligation `effects_disjoint`.**  In the extracted table no const member function and no static member function of
the classes in the property's quantifier writes a shared location (mutable member, non-const static), transitively
within the library — except the exclusions of the property statement (ordinary Geoid cache, Intersect counters,
NearestNeighbor statistics, growth of the SphericalEngine square-root table), the AuxLatitude coefficient cache whose
fill-on-miss guard is certified false by `auxlat_prefill_covers`, and kissfft's scratch buffer whose only writer sits behind
the `default` label certified unreachable by `fft_generic_butterfly_unreachable`.  (Seeded change C14B adds a non-const
function-local static written by the const `DST::fft_transform`; it appears here as an offender.) -/
theorem effects_disjoint : offenders certs functions = [] := by decide +kernel

/-- the table is not empty and does contain the classes of the quantifier (non-vacuity of `effects_disjoint`) -/
theorem effects_table_nonvacuous :
    500 ≤ functions.length ∧
    (["Geodesic", "GeodesicExact", "GeodesicLine", "GeodesicLineExact", "Rhumb", "RhumbLine", "TransverseMercator", "TransverseMercatorExact",
      "PolarStereographic", "LambertConformalConic", "AlbersEqualArea", "Geocentric", "LocalCartesian", "Ellipsoid", "AuxLatitude", "EllipticFunction",
      "NormalGravity", "SphericalHarmonic", "GravityModel", "MagneticModel", "Geoid", "UTMUPS", "MGRS", "DMS", "Geohash", "GARS", "Georef", "OSGB", "DST", "kissfft"].all
      fun c => functions.any (·.cls == c)) = true ∧
    -- the lazy fill and the scratch buffer *are* seen by the extractor (they are discharged by certificates, not overlooked)
    (functions.any fun e => e.cls == "AuxLatitude" && e.writes.any (fun w => w.loc == "AuxLatitude::_c" && w.guards.contains .miss)) = true ∧
    (functions.any fun e => e.cls == "GeodesicExact" && e.writes.any (fun w => w.loc == "kissfft::_scratchbuf")) = true ∧
    (functions.any fun e => e.cls == "Geoid" && e.writes.any (fun w => w.loc == "Geoid::_ix")) = true := by decide +kernel

/-- **Gen-obligation.**  Every variable of static storage duration in the library is `const` (so it is written only by its
own initialiser, see `static_init_once`) or is a documented exclusion (the square-root table). -/
theorem statics_const_or_excluded : (locations.filter (fun d => !staticOK d)).map (·.name) = [] := by decide +kernel

/-- **Gen-obligation.**  Every `mutable` data member is a documented exclusion or one of the two certified caches. -/
theorem mutable_members_accounted :
    (locations.filter (fun d => !mutableOK ["AuxLatitude::_c", "kissfft::_scratchbuf"] d)).map (·.name) = [] := by decide +kernel

/-- **Gen-obligation.**  The library contains no `const_cast` (so immutable members are not written by const functions). -/
theorem no_const_cast : constCasts = [] := by decide +kernel

/-- **Gen-obligation (thread-safe Geoid).**  Every write to a `mutable` member by a const function of `Geoid` is executed only
when `_threadsafe` is false (`if (!_threadsafe) …`, or after `if (_threadsafe) throw …`), except accesses to the file
stream, which a thread-safe Geoid (whole raster cached by the constructor, file closed) does not reach — C20. -/
theorem geoid_threadsafe_guarded :
    ((functions.filter (fun e => e.cls == "Geoid")).flatMap fun e =>
      (e.writes.filter (fun w => !geoidWriteOK ["Geoid::_file"] w)).map fun w => (e.fn, w.loc)) = [] := by decide +kernel

/-! ### Extraction side: what the table is extracted *from*, and the facts the effect analysis itself relies on

The effect analysis treats (i) a `const` object as unwritable, (ii) an immutable member as unwritable by a const member function,
(iii) a function-local static as written only by its initialiser.  (i)–(iii) fail if there is a `const_cast`, a write through
a pointer / reference member (the pointee is not part of the const object), or a static that is not const.  The obligations
below pin these down over **every** header and source file of the library — including header-only templates that no source
file includes (`NearestNeighbor.hpp`, `SphericalHarmonic2.hpp`) and `kissfft.hh` — by analysing one additional translation unit
that includes every public header and instantiates the class templates, and by a clang-independent text scan. -/

/-- **Gen-obligation.**  The keyword `mutable` was looked for textually (comments and literals removed) in every file under
`include/GeographicLib` and `src`; every declarator that follows it is one of the `mutable`-member locations of the extracted
table, in the same file (so the clang walk overlooked none, whatever header it sits in), and `mutable` is not used on a lambda. -/
theorem mutable_text_scan_accounted :
    80 ≤ scannedFiles ∧ 40 ≤ headersIncluded.length ∧ headersIncluded.contains "NearestNeighbor.hpp" = true ∧
    mutableTextScan ≠ [] ∧ (mutableTextScan.filter (fun fm => !scanAccounted locations fm)) = [] := by decide +kernel

/-- **Gen-obligation.**  …and conversely every extracted `mutable` member is found by the text scan (the two extractions agree). -/
theorem mutable_members_match_text_scan :
    ((locations.filter (fun d => d.kind == .mutableMember)).filter
      (fun d => !(mutableTextScan.any fun fm => d.file == fm.1 && post ("::" ++ fm.2) d.name))).map (·.name) = [] := by decide +kernel

/-- **Gen-obligation.**  No `const_cast` anywhere in the library's text (independent of the AST walk, cf. `no_const_cast`). -/
theorem no_const_cast_text : constCastTextScan = [] := by decide +kernel

/-- **Gen-obligation (function-local statics).**  The list is re-extracted on every run from all translation units.  Every
function-local static is declared `const`/`constexpr`, has no non-const pointee, and is initialised where it is declared — by a
constant expression (`"constexpr"`, `"literal"`) or by the C++11 guarded dynamic initialisation (`"dynamic"`, see
`static_init_once`) — or is the documented exclusion (the square-root table).  A hand-rolled "initialised" flag (seeded C14D)
or a scratch buffer (seeded C14B) is a non-const static and appears here. -/
theorem local_statics_immutable :
    40 ≤ staticLocals.length ∧ (staticLocals.filter (fun s => !staticLocalOK s)).map (·.name) = [] := by decide +kernel

/-- **Gen-obligation.**  No function of *any* kind — constructors, non-const member functions and free functions included, not
only the const/static functions of the table — writes a variable of static storage duration after its initialisation, directly or
through its callees (constructors of other classes followed), except the documented exclusion. -/
theorem statics_written_only_by_excluded :
    (staticWriters.flatMap fun fw => (fw.2.filter (fun l => !excluded l)).map fun l => (fw.1, l)) = [] := by decide +kernel

/-- **Gen-obligation (no write through pointer members).**  Inside const member functions there is no assignment, increment,
non-const member call or hand-over as non-const pointer whose target is reached by dereferencing a pointer / reference /
iterator / smart-pointer member of the object. -/
theorem no_write_through_pointer_members : ptrWrites = [] := by decide +kernel

/-- **Gen-obligation.**  Every pointer-like data member points to `const` data, except the FFT plan shared by `DST` objects
(`shared_ptr<kissfft>`), all of whose uses in const functions are const calls by the previous obligation and whose only mutable
state is the scratch buffer certified unreachable by `fft_generic_butterfly_unreachable`. -/
theorem pointer_members_accounted :
    ptrMembers ≠ [] ∧ ((ptrMembers.filter fun p => !(p.pointeeConst || certifiedPtrMembers.contains p.name)).map (·.name)) = [] := by decide +kernel

/-- **Gen-obligation (construction while others use).**  Every class whose constructors touch static state (transitively; today:
the harmonic classes through `SphericalEngine::RootTable`) is constructed and destroyed by the background threads of the `mtc`
suites while other threads evaluate a shared instance, and the static state they write is a documented exclusion (growth of the
square-root table: the suites establish the table with `RootTable` first, as SphericalEngine.hpp prescribes). -/
theorem ctor_static_state_covered :
    ctorStatics ≠ [] ∧ (ctorStatics.filter fun c => !(backgroundConstructed.contains c.1 && c.2.2.all excluded)).map (·.1) = [] := by decide +kernel

/-- **Gen-obligation.**  Only the harmonic classes read the square-root table from their const functions: for every other class
the construction of models in another thread — which may grow the table — touches nothing its const functions use. -/
theorem sqrttable_readers_are_harmonic :
    ((functions.filter fun e => e.reads.contains "SphericalEngine::sqrttable()::sqrttable" && !harmonicClasses.contains e.cls).map (·.fn)) = [] := by decide +kernel

/-- non-vacuity: the header-only and excluded classes *are* in the table (their counters are seen, not overlooked) -/
theorem exclusions_are_seen :
    (functions.any fun e => e.cls == "NearestNeighbor" && e.isPublic && e.writes.any (fun w => w.loc == "NearestNeighbor::_mc")) = true ∧
    (functions.any fun e => e.cls == "Intersect" && e.isPublic && e.writes.any (fun w => w.loc == "Intersect::_cnt0")) = true ∧
    (functions.any fun e => e.cls == "PolygonAreaT") = true ∧ (functions.any fun e => e.cls == "SphericalHarmonic2") = true ∧
    (staticWriters.any fun fw => fw.1 == "SphericalEngine::RootTable") = true ∧
    (ptrMembers.any fun p => p.name == "RhumbLine::_rh" && p.pointeeConst) = true := by decide +kernel

/-- **The table and the theorem together.**  Take any program whose operations are const/static functions of the quantifier's
classes with the read sets of the table and as write sets the table's writes that are neither excluded nor certified
away.  Then every interleaving is race-free and every call returns the value it returns alone from the initial state. -/
theorem shared_const_calls_race_free {Val Ret : Type} (P : List (List (Op String Val Ret)))
    (hP : ∀ T ∈ P, ∀ o ∈ T, ∃ e ∈ functions, quantifierClasses.contains e.cls = true ∧ e.isPublic = true ∧ o.reads = e.reads ∧ o.writes = effWrites certs e)
    (σ₀ : State String Val) (tr : Trace String Val Ret) (h : Interleave P tr) :
    RaceFree tr ∧ ∀ i T, P[i]? = some T → resultsOf i (runTrace σ₀ tr).2 = T.map (fun o => (o.step σ₀).2) := by
  apply readonly_returns_solo_value P _ σ₀ tr h
  intro T hT o ho
  obtain ⟨e, he, hq, hpub, _, hw⟩ := hP T hT o ho
  have hoff := effects_disjoint
  simp only [offenders, List.map_eq_nil_iff, List.filter_eq_nil_iff] at hoff
  have hfn : fnOK certs e = true := by simpa using hoff e he
  simp only [fnOK, hq, hpub, Bool.and_self, Bool.not_true, Bool.false_or, List.all_eq_true] at hfn
  rw [hw, effWrites, List.map_eq_nil_iff, List.filter_eq_nil_iff]
  intro w hwm
  simp [hfn w hwm]

end Table

end GeoVerif.Props.C14
