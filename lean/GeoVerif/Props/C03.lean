import GeoVerif.Model.GeodLengths
import GeoVerif.Series.GeodSeries
import GeoVerif.Series.GeodTrig
import GeoVerif.Spec.RealInst
import GeoVerif.Model.GeodLine
import GeoVerif.Proofs.GeodLine
import Mathlib.Tactic.LinearCombination
import Mathlib.Tactic.Ring
/-!
# C03 — reduced length, geodesic scales, area: algebraic identities and table certificates
-/
namespace GeoVerif.Props.C03
open GeoVerif GeoVerif.Clenshaw GeoVerif.GeodLengths GeoVerif.Series GeoVerif.Series.Geod

/-- the Clenshaw recurrence is linear in the coefficient vector -/
theorem clen_linear (ar a b : ℝ) (xs ys : List ℝ) (h : xs.length = ys.length) :
    clen ar (List.zipWith (fun x y => a * x - b * y) xs ys) =
      (a * (clen ar xs).1 - b * (clen ar ys).1, a * (clen ar xs).2 - b * (clen ar ys).2) := by
  induction xs generalizing ys with
  | nil => cases ys with
    | nil => simp [clen, ofNat_real]
    | cons y ys => simp at h
  | cons x xs ih =>
    cases ys with
    | nil => simp at h
    | cons y ys =>
      have hl : xs.length = ys.length := by simpa using h
      simp only [List.zipWith_cons_cons, clen, ih ys hl, Prod.mk.injEq]
      exact ⟨by ring, trivial⟩

theorem sinCosSeries_linear (sinx cosx a b : ℝ) (xs ys : List ℝ) (h : xs.length = ys.length) :
    sinCosSeries true sinx cosx (List.zipWith (fun x y => a * x - b * y) xs ys) =
      a * sinCosSeries true sinx cosx xs - b * sinCosSeries true sinx cosx ys := by
  unfold sinCosSeries
  simp only [if_true, clen_linear _ a b xs ys h]
  ring

/-- **mask equivalence of J12**: the value used for m12, M12, M21 is the same ring element whether or not DISTANCE
    is requested (the two code paths of `Geodesic::Lengths`) -/
theorem lengths_mask_equiv (m0x sig12 A1 A2 : ℝ) (ca cb : List ℝ) (h : ca.length = cb.length) (ssig1 csig1 ssig2 csig2 : ℝ) :
    j12WithDistance m0x sig12 A1 A2 ca cb ssig1 csig1 ssig2 csig2 =
      j12WithoutDistance m0x sig12 A1 A2 ca cb ssig1 csig1 ssig2 csig2 := by
  unfold j12WithDistance j12WithoutDistance
  simp only []
  rw [sinCosSeries_linear _ _ A1 A2 ca cb h, sinCosSeries_linear _ _ A1 A2 ca cb h]
  ring

/-- hence m12, M12, M21 returned by `Lengths` do not depend on whether DISTANCE was requested -/
theorem lengths_outputs_mask_independent (ep2 eps sig12 ssig1 csig1 dn1 ssig2 csig2 dn2 cbet1 cbet2 : ℝ)
    (h : (c1f eps : List ℝ).length = (c2f eps : List ℝ).length) :
    (lengths ep2 eps sig12 ssig1 csig1 dn1 ssig2 csig2 dn2 cbet1 cbet2 true).m12b =
      (lengths ep2 eps sig12 ssig1 csig1 dn1 ssig2 csig2 dn2 cbet1 cbet2 false).m12b ∧
    (lengths ep2 eps sig12 ssig1 csig1 dn1 ssig2 csig2 dn2 cbet1 cbet2 true).M12 =
      (lengths ep2 eps sig12 ssig1 csig1 dn1 ssig2 csig2 dn2 cbet1 cbet2 false).M12 ∧
    (lengths ep2 eps sig12 ssig1 csig1 dn1 ssig2 csig2 dn2 cbet1 cbet2 true).M21 =
      (lengths ep2 eps sig12 ssig1 csig1 dn1 ssig2 csig2 dn2 cbet1 cbet2 false).M21 := by
  simp only [lengths, if_true, Bool.false_eq_true, if_false]
  rw [lengths_mask_equiv _ _ _ _ _ _ h]
  exact ⟨rfl, rfl, rfl⟩

/-! ### area-sign bookkeeping of `GenInverse` -/

/-- `S12 *= swapp * lonsign * latsign`: reversing the segment (swapp ↦ −swapp) or reflecting it in the equator or a
    meridian negates S12; doing two of these restores it -/
theorem s12_sign (S : ℝ) (swapp lonsign latsign : ℤ) :
    S * ((-swapp) * lonsign * latsign : ℤ) = -(S * (swapp * lonsign * latsign : ℤ)) ∧
    S * (swapp * (-lonsign) * latsign : ℤ) = -(S * (swapp * lonsign * latsign : ℤ)) ∧
    S * (swapp * lonsign * (-latsign) : ℤ) = -(S * (swapp * lonsign * latsign : ℤ)) := by
  refine ⟨?_, ?_, ?_⟩ <;> push_cast <;> ring

/-! ### table certificates (shared with C01) -/
theorem a1_table : checkA1 = true := by decide +kernel
theorem c1_table : ((List.range N).all fun i => checkC1 (i + 1)) = true := by decide +kernel
theorem a2_table : checkA2 = true := by decide +kernel
theorem c2_table : ((List.range N).all fun i => checkC2 (i + 1)) = true := by decide +kernel

/-! ### I4: the area table `C4coeff` (bivariate in `n`, `ε`) -/

/-- the layout of `C4coeff`/`C4f` consumes the table exactly -/
theorem table_sizes4 : c4Size = Gen.GeodSeries.C4coeff.length := by decide +kernel

/-- `t(x) = x + √(1 + 1/x)·asinh √x = x + (1 + x) h(x)` where `h(x) = asinh(√x)/√(x(1 + x))` is the power-series solution
    of `2x(1 + x) h′ + (1 + 2x) h = 1`: the coefficients `hCoef` used below satisfy this ODE (mod `x^{N+1}`); no table involved -/
theorem t_series : checkH (N + 1) = true := by decide +kernel

/-- `h_k(x, y) = Σ_{i+j=k} x^i y^j` by the recursion used in `i4DividedDifference` -/
def hk (x y : ℝ) : ℕ → ℝ
  | 0 => 1
  | k + 1 => x * hk x y k + y ^ (k + 1)

/-- `(x − y)·h_k(x, y) = x^{k+1} − y^{k+1}`: so `[t(x) − t(y)]/(x − y) = Σ_{m ≥ 1} t_m h_{m−1}(x, y)` for `t = Σ t_m x^m` -/
theorem hk_spec (x y : ℝ) (k : ℕ) : (x - y) * hk x y k = x ^ (k + 1) - y ^ (k + 1) := by
  induction k with
  | zero => simp [hk]
  | succ k ih =>
    have : (x - y) * hk x y (k + 1) = x * ((x - y) * hk x y k) + (x - y) * y ^ (k + 1) := by simp only [hk]; ring
    rw [this, ih]; ring

/-- **C4** (Karney 2013, eq. 59–63; `computeI4` of `maxima/geod.mac`).  `I4(σ) = Σ_{l=0}^{N−1} C4_l cos((2l + 1)σ)` and
    `−dI4/dσ = [t(e′²) − t(k² sin²σ)]/(e′² − k² sin²σ) · sin σ/2` with `e′² = 4n/(1 − n)²`, `k² = 4ε/(1 − ε)²`, `t` as in `t_series`.
    The divided difference is expanded directly (`hk_spec`) as a trigonometric polynomial in `σ` with coefficients in
    `ℚ[n, ε]` modulo total degree `N` — the truncation `jtaylor(·, n, eps, N−1)` of the generator.  Certified:
    `Σ_l (2l + 1) C4_l sin((2l + 1)σ)` (table `C4coeff`, layout of `C4f`) **is** that expansion times `sin σ/2`.
    Full certificate of the 77-entry (N = 6) table: all its entries have total degree `≤ N − 1`. -/
theorem c4_table : checkC4Expansion = true := by decide +kernel

/-- second, independent route (no divided difference): multiplying out,
    `[Σ_l (2l + 1) C4_l sin((2l + 1)σ)] · (e′² − k² sin²σ) = [t(e′²) − t(k² sin²σ)] · sin σ/2` modulo total degree `N + 1`.
    The factor `e′² − k² sin²σ` has lowest-order part `4(n − ε sin²σ) ≠ 0` and the coefficient ring is an integral
    domain, so this relation alone also determines the first factor modulo total degree `N`. -/
theorem c4_relation : checkC4 = true := by decide +kernel


/-! ### the two implementations of reduced length and geodesic scale agree

`GeodesicLine::GenPosition` (direct problem, `Model/GeodLine.lean`) and `Geodesic::Lengths` (inverse problem,
`Model/GeodLengths.lean`) are separate code; over `ℝ` they compute the same `s12`, `m12`, `M12`, `M21`. -/

section LineVsLengths
open GeoVerif.GeodLine

/-- for a line whose series members are those `LineInit` computes from `eps` (`hA1 … hB2`, `hk`), in arc mode (so that
    `B12` is the direct series at `σ2`), at a non-degenerate end point: the outputs of `GenPosition` equal those of
    `Lengths` evaluated on the same arc (`σ12 = a12·degree`, the same `(ssig2, csig2, dn2)`), with `cos β_i` related to
    the arc by `cos²β = 1 − cos²α0 sin²σ`.  `GenPosition` uses `k²(sin²σ2 − sin²σ1)` where `Lengths` uses
    `e′²(cos²β1 − cos²β2)`, and the kernel value `cos σ12` where `Lengths` uses `cos σ1 cos σ2 + sin σ1 sin σ2`. -/
theorem line_lengths_agree (L : Line ℝ) (ep2 eps a12 sk ck cbet1 cbet2 : ℝ) (un : Bool)
    (hA1 : L.A1m1 = a1m1f eps) (hC1 : L.C1a = c1f eps) (hA2 : L.A2m1 = a2m1f eps) (hC2 : L.C2a = c2f eps)
    (hB1 : L.B11 = sinCosSeries true L.ssig1 L.csig1 L.C1a) (hB2 : L.B21 = sinCosSeries true L.ssig1 L.csig1 L.C2a)
    (hk : L.k2 = L.calp0 ^ 2 * ep2) (h1 : L.ssig1 ^ 2 + L.csig1 ^ 2 = 1)
    (hnd : RealLike.hypot L.salp0 (L.calp0 * (L.csig1 * ck - L.ssig1 * sk)) ≠ 0)
    (hb1 : cbet1 ^ 2 = 1 - (L.calp0 * L.ssig1) ^ 2)
    (hb2 : cbet2 ^ 2 = 1 - (L.calp0 * (L.ssig1 * ck + L.csig1 * sk)) ^ 2) :
    let P := genPosition L true a12 sk ck un
    let dn2 := Real.sqrt (1 + L.k2 * P.ssig2 ^ 2)
    let R := lengths ep2 eps (a12 * degree) L.ssig1 L.csig1 L.dn1 P.ssig2 P.csig2 dn2 cbet1 cbet2 true
    P.s12 = L.b * R.s12b ∧ P.m12 = L.b * R.m12b ∧ P.M12 = R.M12 ∧ P.M21 = R.M21 := by
  intro P dn2 R
  have e1 (x : ℝ) : (arcOf L true x sk ck).2.1 = sk := by unfold arcOf; simp
  have e2 (x : ℝ) : (arcOf L true x sk ck).2.2.1 = ck := by unfold arcOf; simp
  have e0 (x : ℝ) : (arcOf L true x sk ck).1 = x * degree := by unfold arcOf; simp
  have hs2 : P.ssig2 = L.ssig1 * ck + L.csig1 * sk := by
    show L.ssig1 * (arcOf L true a12 sk ck).2.2.1 + L.csig1 * (arcOf L true a12 sk ck).2.1 = _
    rw [e1, e2]
  have hc2 : P.csig2 = L.csig1 * ck - L.ssig1 * sk := by
    show (if RealLike.eqb _ _ = true then L.tiny else L.csig1 * (arcOf L true a12 sk ck).2.2.1 - L.ssig1 * (arcOf L true a12 sk ck).2.1) = _
    simp only [eqb_real, lit_real, Nat.cast_zero, decide_eq_true_eq, e1, e2]
    rw [if_neg (by exact hnd)]
  have hnd' : (RealLike.hypot L.salp0 (L.calp0 * (L.csig1 * ck - L.ssig1 * sk)) = 0) = False := eq_false hnd
  have key1 : L.csig1 * (L.csig1 * ck - L.ssig1 * sk) + L.ssig1 * (L.ssig1 * ck + L.csig1 * sk) = ck := by
    linear_combination ck * h1
  have key2 : L.k2 * (L.ssig1 * ck + L.csig1 * sk - L.ssig1) * (L.ssig1 * ck + L.csig1 * sk + L.ssig1)
      = ep2 * (cbet1 - cbet2) * (cbet1 + cbet2) := by
    rw [hk]; linear_combination (-ep2) * hb1 + ep2 * hb2
  refine ⟨?_, ?_, ?_, ?_⟩
  · simp only [R, dn2, hs2, hc2]
    simp only [P, genPosition, lengths, j12WithDistance, e0, e1, e2, Bool.true_or, if_true, eqb_real, lit_real, Nat.cast_zero, decide_eq_true_eq, hnd', if_false, ← hA1, ← hC1, ← hA2, ← hC2, hB1, hB2, Nat.cast_one, sq_real, sqrt_real]
    ring
  · simp only [R, dn2, hs2, hc2]
    simp only [P, genPosition, lengths, j12WithDistance, e0, e1, e2, Bool.true_or, if_true, eqb_real, lit_real, Nat.cast_zero, decide_eq_true_eq, hnd', if_false, ← hA1, ← hC1, ← hA2, ← hC2, hB1, hB2, Nat.cast_one, sq_real, sqrt_real]
    try ring
  · simp only [R, dn2, hs2, hc2]
    simp only [P, genPosition, lengths, j12WithDistance, e0, e1, e2, Bool.true_or, if_true, eqb_real, lit_real, Nat.cast_zero, decide_eq_true_eq, hnd', if_false, ← hA1, ← hC1, ← hA2, ← hC2, hB1, hB2, Nat.cast_one, sq_real, sqrt_real]
    rw [key2, key1]
  · simp only [R, dn2, hs2, hc2]
    simp only [P, genPosition, lengths, j12WithDistance, e0, e1, e2, Bool.true_or, if_true, eqb_real, lit_real, Nat.cast_zero, decide_eq_true_eq, hnd', if_false, ← hA1, ← hC1, ← hA2, ← hC2, hB1, hB2, Nat.cast_one, sq_real, sqrt_real]
    rw [key2, key1]

/-- non-vacuity: the equator of the unit sphere (`Proofs.GeodLine.exLine`), a quarter circuit -/
example : let L := GeoVerif.Proofs.GeodLine.exLine
    L.A1m1 = a1m1f 0 ∧ L.C1a = c1f 0 ∧ L.A2m1 = a2m1f 0 ∧ L.C2a = c2f 0 ∧
    L.B11 = sinCosSeries true L.ssig1 L.csig1 L.C1a ∧ L.B21 = sinCosSeries true L.ssig1 L.csig1 L.C2a ∧
    L.k2 = L.calp0 ^ 2 * 0 ∧ L.ssig1 ^ 2 + L.csig1 ^ 2 = 1 ∧
    RealLike.hypot L.salp0 (L.calp0 * (L.csig1 * 0 - L.ssig1 * 1)) ≠ 0 ∧
    (1 : ℝ) ^ 2 = 1 - (L.calp0 * L.ssig1) ^ 2 ∧ (1 : ℝ) ^ 2 = 1 - (L.calp0 * (L.ssig1 * 0 + L.csig1 * 1)) ^ 2 := by
  intro L
  refine ⟨rfl, rfl, rfl, rfl, rfl, rfl, ?_, ?_, ?_, ?_, ?_⟩ <;> simp [L, GeoVerif.Proofs.GeodLine.exLine, hypot_real]

end LineVsLengths

end GeoVerif.Props.C03
