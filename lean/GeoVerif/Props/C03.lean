import GeoVerif.Model.GeodLengths
import GeoVerif.Series.GeodSeries
import GeoVerif.Series.GeodTrig
import GeoVerif.Spec.RealInst
import GeoVerif.Model.GeodLine
import GeoVerif.Proofs.GeodLine
import GeoVerif.Model.GeodLineExact
import GeoVerif.Proofs.GeodLineExact
import Mathlib.Tactic.FieldSimp
import Mathlib.Tactic.Linarith
import Mathlib.Tactic.NormNum
import Mathlib.Tactic.Positivity
import Mathlib.Tactic.LinearCombination
import Mathlib.Tactic.Ring
/-!
# C03 — reduced length, geodesic scales, area: algebraic identities and table certificates
-/
namespace GeoVerif.Props.C03
open GeoVerif GeoVerif.Clenshaw GeoVerif.GeodLengths GeoVerif.Series GeoVerif.Series.Geod

/-- the Clenshaw recurrence is linear in the coefficient vector -/
theorem clen_linear (ar a b : ℝ) (xs ys : List ℝ) (h : xs.length = ys.length) :
    clen ar (List.zipWith (fun x y => a * x - b * y) xs ys) =
      (a * (clen ar xs).1 - b * (clen ar ys).1, a * (clen ar xs).2 - b * (clen ar ys).2) := by
  induction xs generalizing ys with
  | nil => cases ys with
    | nil => simp [clen, ofNat_real]
    | cons y ys => simp at h
  | cons x xs ih =>
    cases ys with
    | nil => simp at h
    | cons y ys =>
      have hl : xs.length = ys.length := by simpa using h
      simp only [List.zipWith_cons_cons, clen, ih ys hl, Prod.mk.injEq]
      exact ⟨by ring, trivial⟩

theorem sinCosSeries_linear (sinx cosx a b : ℝ) (xs ys : List ℝ) (h : xs.length = ys.length) :
    sinCosSeries true sinx cosx (List.zipWith (fun x y => a * x - b * y) xs ys) =
      a * sinCosSeries true sinx cosx xs - b * sinCosSeries true sinx cosx ys := by
  unfold sinCosSeries
  simp only [if_true, clen_linear _ a b xs ys h]
  ring

/-- **mask equivalence of J12**: the value used for m12, M12, M21 is the same ring element whether or not DISTANCE
    is requested (the two code paths of `Geodesic::Lengths`) -/
theorem lengths_mask_equiv (m0x sig12 A1 A2 : ℝ) (ca cb : List ℝ) (h : ca.length = cb.length) (ssig1 csig1 ssig2 csig2 : ℝ) :
    j12WithDistance m0x sig12 A1 A2 ca cb ssig1 csig1 ssig2 csig2 =
      j12WithoutDistance m0x sig12 A1 A2 ca cb ssig1 csig1 ssig2 csig2 := by
  unfold j12WithDistance j12WithoutDistance
  simp only []
  rw [sinCosSeries_linear _ _ A1 A2 ca cb h, sinCosSeries_linear _ _ A1 A2 ca cb h]
  ring

/-- hence m12, M12, M21 returned by `Lengths` do not depend on whether DISTANCE was requested -/
theorem lengths_outputs_mask_independent (ep2 eps sig12 ssig1 csig1 dn1 ssig2 csig2 dn2 cbet1 cbet2 : ℝ)
    (h : (c1f eps : List ℝ).length = (c2f eps : List ℝ).length) :
    (lengths ep2 eps sig12 ssig1 csig1 dn1 ssig2 csig2 dn2 cbet1 cbet2 true).m12b =
      (lengths ep2 eps sig12 ssig1 csig1 dn1 ssig2 csig2 dn2 cbet1 cbet2 false).m12b ∧
    (lengths ep2 eps sig12 ssig1 csig1 dn1 ssig2 csig2 dn2 cbet1 cbet2 true).M12 =
      (lengths ep2 eps sig12 ssig1 csig1 dn1 ssig2 csig2 dn2 cbet1 cbet2 false).M12 ∧
    (lengths ep2 eps sig12 ssig1 csig1 dn1 ssig2 csig2 dn2 cbet1 cbet2 true).M21 =
      (lengths ep2 eps sig12 ssig1 csig1 dn1 ssig2 csig2 dn2 cbet1 cbet2 false).M21 := by
  simp only [lengths, if_true, Bool.false_eq_true, if_false]
  rw [lengths_mask_equiv _ _ _ _ _ _ h]
  exact ⟨rfl, rfl, rfl⟩

/-! ### area-sign bookkeeping of `GenInverse` -/

/-- `S12 *= swapp * lonsign * latsign`: reversing the segment (swapp ↦ −swapp) or reflecting it in the equator or a
    meridian negates S12; doing two of these restores it -/
theorem s12_sign (S : ℝ) (swapp lonsign latsign : ℤ) :
    S * ((-swapp) * lonsign * latsign : ℤ) = -(S * (swapp * lonsign * latsign : ℤ)) ∧
    S * (swapp * (-lonsign) * latsign : ℤ) = -(S * (swapp * lonsign * latsign : ℤ)) ∧
    S * (swapp * lonsign * (-latsign) : ℤ) = -(S * (swapp * lonsign * latsign : ℤ)) := by
  refine ⟨?_, ?_, ?_⟩ <;> push_cast <;> ring

/-! ### table certificates (shared with C01) -/
theorem a1_table : checkA1 = true := by decide +kernel
theorem c1_table : ((List.range N).all fun i => checkC1 (i + 1)) = true := by decide +kernel
theorem a2_table : checkA2 = true := by decide +kernel
theorem c2_table : ((List.range N).all fun i => checkC2 (i + 1)) = true := by decide +kernel

/-! ### I4: the area table `C4coeff` (bivariate in `n`, `ε`) -/

/-- the layout of `C4coeff`/`C4f` consumes the table exactly -/
theorem table_sizes4 : c4Size = Gen.GeodSeries.C4coeff.length := by decide +kernel

/-- `t(x) = x + √(1 + 1/x)·asinh √x = x + (1 + x) h(x)` where `h(x) = asinh(√x)/√(x(1 + x))` is the power-series solution
    of `2x(1 + x) h′ + (1 + 2x) h = 1`: the coefficients `hCoef` used below satisfy this ODE (mod `x^{N+1}`); no table involved -/
theorem t_series : checkH (N + 1) = true := by decide +kernel

/-- `h_k(x, y) = Σ_{i+j=k} x^i y^j` by the recursion used in `i4DividedDifference` -/
def hk (x y : ℝ) : ℕ → ℝ
  | 0 => 1
  | k + 1 => x * hk x y k + y ^ (k + 1)

/-- `(x − y)·h_k(x, y) = x^{k+1} − y^{k+1}`: so `[t(x) − t(y)]/(x − y) = Σ_{m ≥ 1} t_m h_{m−1}(x, y)` for `t = Σ t_m x^m` -/
theorem hk_spec (x y : ℝ) (k : ℕ) : (x - y) * hk x y k = x ^ (k + 1) - y ^ (k + 1) := by
  induction k with
  | zero => simp [hk]
  | succ k ih =>
    have : (x - y) * hk x y (k + 1) = x * ((x - y) * hk x y k) + (x - y) * y ^ (k + 1) := by simp only [hk]; ring
    rw [this, ih]; ring

/-- **C4** (Karney 2013, eq. 59–63; `computeI4` of `maxima/geod.mac`).  `I4(σ) = Σ_{l=0}^{N−1} C4_l cos((2l + 1)σ)` and
    `−dI4/dσ = [t(e′²) − t(k² sin²σ)]/(e′² − k² sin²σ) · sin σ/2` with `e′² = 4n/(1 − n)²`, `k² = 4ε/(1 − ε)²`, `t` as in `t_series`.
    The divided difference is expanded directly (`hk_spec`) as a trigonometric polynomial in `σ` with coefficients in
    `ℚ[n, ε]` modulo total degree `N` — the truncation `jtaylor(·, n, eps, N−1)` of the generator.  Certified:
    `Σ_l (2l + 1) C4_l sin((2l + 1)σ)` (table `C4coeff`, layout of `C4f`) **is** that expansion times `sin σ/2`.
    Full certificate of the 77-entry (N = 6) table: all its entries have total degree `≤ N − 1`. -/
theorem c4_table : checkC4Expansion = true := by decide +kernel

/-- second, independent route (no divided difference): multiplying out,
    `[Σ_l (2l + 1) C4_l sin((2l + 1)σ)] · (e′² − k² sin²σ) = [t(e′²) − t(k² sin²σ)] · sin σ/2` modulo total degree `N + 1`.
    The factor `e′² − k² sin²σ` has lowest-order part `4(n − ε sin²σ) ≠ 0` and the coefficient ring is an integral
    domain, so this relation alone also determines the first factor modulo total degree `N`. -/
theorem c4_relation : checkC4 = true := by decide +kernel


/-! ### the two implementations of reduced length and geodesic scale agree

`GeodesicLine::GenPosition` (direct problem, `Model/GeodLine.lean`) and `Geodesic::Lengths` (inverse problem,
`Model/GeodLengths.lean`) are separate code; over `ℝ` they compute the same `s12`, `m12`, `M12`, `M21`. -/

section LineVsLengths
open GeoVerif.GeodLine

/-- for a line whose series members are those `LineInit` computes from `eps` (`hA1 … hB2`, `hk`), in arc mode (so that
    `B12` is the direct series at `σ2`), at a non-degenerate end point: the outputs of `GenPosition` equal those of
    `Lengths` evaluated on the same arc (`σ12 = a12·degree`, the same `(ssig2, csig2, dn2)`), with `cos β_i` related to
    the arc by `cos²β = 1 − cos²α0 sin²σ`.  `GenPosition` uses `k²(sin²σ2 − sin²σ1)` where `Lengths` uses
    `e′²(cos²β1 − cos²β2)`, and the kernel value `cos σ12` where `Lengths` uses `cos σ1 cos σ2 + sin σ1 sin σ2`. -/
theorem line_lengths_agree (L : Line ℝ) (ep2 eps a12 sk ck cbet1 cbet2 : ℝ) (un : Bool)
    (hA1 : L.A1m1 = a1m1f eps) (hC1 : L.C1a = c1f eps) (hA2 : L.A2m1 = a2m1f eps) (hC2 : L.C2a = c2f eps)
    (hB1 : L.B11 = sinCosSeries true L.ssig1 L.csig1 L.C1a) (hB2 : L.B21 = sinCosSeries true L.ssig1 L.csig1 L.C2a)
    (hk : L.k2 = L.calp0 ^ 2 * ep2) (h1 : L.ssig1 ^ 2 + L.csig1 ^ 2 = 1)
    (hnd : RealLike.hypot L.salp0 (L.calp0 * (L.csig1 * ck - L.ssig1 * sk)) ≠ 0)
    (hb1 : cbet1 ^ 2 = 1 - (L.calp0 * L.ssig1) ^ 2)
    (hb2 : cbet2 ^ 2 = 1 - (L.calp0 * (L.ssig1 * ck + L.csig1 * sk)) ^ 2) :
    let P := genPosition L true a12 sk ck un
    let dn2 := Real.sqrt (1 + L.k2 * P.ssig2 ^ 2)
    let R := lengths ep2 eps (a12 * degree) L.ssig1 L.csig1 L.dn1 P.ssig2 P.csig2 dn2 cbet1 cbet2 true
    P.s12 = L.b * R.s12b ∧ P.m12 = L.b * R.m12b ∧ P.M12 = R.M12 ∧ P.M21 = R.M21 := by
  intro P dn2 R
  have e1 (x : ℝ) : (arcOf L true x sk ck).2.1 = sk := by unfold arcOf; simp
  have e2 (x : ℝ) : (arcOf L true x sk ck).2.2.1 = ck := by unfold arcOf; simp
  have e0 (x : ℝ) : (arcOf L true x sk ck).1 = x * degree := by unfold arcOf; simp
  have hs2 : P.ssig2 = L.ssig1 * ck + L.csig1 * sk := by
    show L.ssig1 * (arcOf L true a12 sk ck).2.2.1 + L.csig1 * (arcOf L true a12 sk ck).2.1 = _
    rw [e1, e2]
  have hc2 : P.csig2 = L.csig1 * ck - L.ssig1 * sk := by
    show (if RealLike.eqb _ _ = true then L.tiny else L.csig1 * (arcOf L true a12 sk ck).2.2.1 - L.ssig1 * (arcOf L true a12 sk ck).2.1) = _
    simp only [eqb_real, lit_real, Nat.cast_zero, decide_eq_true_eq, e1, e2]
    rw [if_neg (by exact hnd)]
  have hnd' : (RealLike.hypot L.salp0 (L.calp0 * (L.csig1 * ck - L.ssig1 * sk)) = 0) = False := eq_false hnd
  have key1 : L.csig1 * (L.csig1 * ck - L.ssig1 * sk) + L.ssig1 * (L.ssig1 * ck + L.csig1 * sk) = ck := by
    linear_combination ck * h1
  have key2 : L.k2 * (L.ssig1 * ck + L.csig1 * sk - L.ssig1) * (L.ssig1 * ck + L.csig1 * sk + L.ssig1)
      = ep2 * (cbet1 - cbet2) * (cbet1 + cbet2) := by
    rw [hk]; linear_combination (-ep2) * hb1 + ep2 * hb2
  refine ⟨?_, ?_, ?_, ?_⟩
  · simp only [R, dn2, hs2, hc2]
    simp only [P, genPosition, lengths, j12WithDistance, e0, e1, e2, Bool.true_or, if_true, eqb_real, lit_real, Nat.cast_zero, decide_eq_true_eq, hnd', if_false, ← hA1, ← hC1, ← hA2, ← hC2, hB1, hB2, Nat.cast_one, sq_real, sqrt_real]
    ring
  · simp only [R, dn2, hs2, hc2]
    simp only [P, genPosition, lengths, j12WithDistance, e0, e1, e2, Bool.true_or, if_true, eqb_real, lit_real, Nat.cast_zero, decide_eq_true_eq, hnd', if_false, ← hA1, ← hC1, ← hA2, ← hC2, hB1, hB2, Nat.cast_one, sq_real, sqrt_real]
    try ring
  · simp only [R, dn2, hs2, hc2]
    simp only [P, genPosition, lengths, j12WithDistance, e0, e1, e2, Bool.true_or, if_true, eqb_real, lit_real, Nat.cast_zero, decide_eq_true_eq, hnd', if_false, ← hA1, ← hC1, ← hA2, ← hC2, hB1, hB2, Nat.cast_one, sq_real, sqrt_real]
    rw [key2, key1]
  · simp only [R, dn2, hs2, hc2]
    simp only [P, genPosition, lengths, j12WithDistance, e0, e1, e2, Bool.true_or, if_true, eqb_real, lit_real, Nat.cast_zero, decide_eq_true_eq, hnd', if_false, ← hA1, ← hC1, ← hA2, ← hC2, hB1, hB2, Nat.cast_one, sq_real, sqrt_real]
    rw [key2, key1]

/-- non-vacuity: the equator of the unit sphere (`Proofs.GeodLine.exLine`), a quarter circuit -/
example : let L := GeoVerif.Proofs.GeodLine.exLine
    L.A1m1 = a1m1f 0 ∧ L.C1a = c1f 0 ∧ L.A2m1 = a2m1f 0 ∧ L.C2a = c2f 0 ∧
    L.B11 = sinCosSeries true L.ssig1 L.csig1 L.C1a ∧ L.B21 = sinCosSeries true L.ssig1 L.csig1 L.C2a ∧
    L.k2 = L.calp0 ^ 2 * 0 ∧ L.ssig1 ^ 2 + L.csig1 ^ 2 = 1 ∧
    RealLike.hypot L.salp0 (L.calp0 * (L.csig1 * 0 - L.ssig1 * 1)) ≠ 0 ∧
    (1 : ℝ) ^ 2 = 1 - (L.calp0 * L.ssig1) ^ 2 ∧ (1 : ℝ) ^ 2 = 1 - (L.calp0 * (L.ssig1 * 0 + L.csig1 * 1)) ^ 2 := by
  intro L
  refine ⟨rfl, rfl, rfl, rfl, rfl, rfl, ?_, ?_, ?_, ?_, ?_⟩ <;> simp [L, GeoVerif.Proofs.GeodLine.exLine, hypot_real]

end LineVsLengths

/-! ### reduced length and geodesic scales: reversal law, addition rules and the Wronskian for the formulas as coded

`GeodesicLine::GenPosition` and `GeodesicLineExact::GenPosition` evaluate the same three expressions `m12f`, `M12f`, `M21f`
(`Model/GeodLineExact.lean`) on `(sin σ_i, cos σ_i, dn_i)` and an integral `J12`; the series line obtains `J12` from the `A1, C1, A2, C2`
series, the exact line from `D(σ)`.  The identities below hold for those expressions whatever `J12` is, given only that it is additive
along the line — so a wrong sign, a swapped argument or a lost term in the expressions themselves contradicts a theorem, while the accuracy
of `J12` is left to the oracle. -/

section Scales
open Real GeoVerif.GeodLine GeoVerif.GeodLineX GeoVerif.Proofs.GeodLine GeoVerif.Proofs.GeodLineX

/-- **reversal law for the formulas as coded** (both lines use `m12f`, `M12f`, `M21f`): exchanging the end points and negating `J`
    (`J21 = −J12`, an integral taken backwards) negates the signed `m12/b` — the reversed segment runs from 2 to 1 with `σ12 ↦ −σ12`, so the
    reduced length of the reversed *segment* is unchanged — and exchanges `M12` and `M21`.  `Pt`: unit `(sin σ, cos σ)`, `dn² = 1 + k² sin²σ`, `dn > 0`. -/
theorem scales_reversal (k2 s1 c1 d1 s2 c2 d2 J : ℝ) (h1 : Pt k2 s1 c1 d1) (h2 : Pt k2 s2 c2 d2) :
    m12f s2 c2 d2 s1 c1 d1 (-J) = -m12f s1 c1 d1 s2 c2 d2 J ∧
    M12f k2 s2 d2 s1 c1 d1 (c2 * c1 + s2 * s1) (-J) = M21f k2 s1 c1 d1 s2 d2 (c1 * c2 + s1 * s2) J ∧
    M21f k2 s2 c2 d2 s1 d1 (c2 * c1 + s2 * s1) (-J) = M12f k2 s1 d1 s2 c2 d2 (c1 * c2 + s1 * s2) J := by
  refine ⟨by unfold m12f; ring, ?_, ?_⟩
  · rw [M12f_eq k2 s2 c2 d2 s1 c1 d1 _ h2 h1, M21f_eq k2 s1 c1 d1 s2 c2 d2 J h1 h2]; ring
  · rw [M21f_eq k2 s2 c2 d2 s1 c1 d1 _ h2 h1, M12f_eq k2 s1 c1 d1 s2 c2 d2 J h1 h2]; ring

/-- **addition rule for the reduced length, for the formulas as coded**: for three points of one geodesic and `J13 = J12 + J23`
    (the integrals add), `m13 = m12 M23 + m23 M21` — an identity in the ring generated by the unit-circle relations; no property of the
    integral `J` other than additivity is used -/
theorem addition_rule_m (k2 s1 c1 d1 s2 c2 d2 s3 c3 d3 J12 J23 : ℝ) (h1 : Pt k2 s1 c1 d1) (h2 : Pt k2 s2 c2 d2) (h3 : Pt k2 s3 c3 d3) :
    m12f s1 c1 d1 s3 c3 d3 (J12 + J23) =
      m12f s1 c1 d1 s2 c2 d2 J12 * M12f k2 s2 d2 s3 c3 d3 (c2 * c3 + s2 * s3) J23 +
      m12f s2 c2 d2 s3 c3 d3 J23 * M21f k2 s1 c1 d1 s2 d2 (c1 * c2 + s1 * s2) J12 := by
  rw [M12f_eq k2 s2 c2 d2 s3 c3 d3 J23 h2 h3, M21f_eq k2 s1 c1 d1 s2 c2 d2 J12 h1 h2]
  have hd2 : d2 ≠ 0 := h2.pos.ne'
  unfold m12f
  rw [← sub_eq_zero]
  have key : d2 * ((d3 * (c1 * s3) - d1 * (s1 * c3) - c1 * c3 * (J12 + J23)) -
      ((d2 * (c1 * s2) - d1 * (s1 * c2) - c1 * c2 * J12) * (c2 * c3 + s2 * s3 + ((d3 - d2) * s3 - c3 * J23) * s2 / d2) +
       (d3 * (c2 * s3) - d2 * (s2 * c3) - c2 * c3 * J23) * (c1 * c2 + s1 * s2 - ((d2 - d1) * s1 - c1 * J12) * s2 / d2))) =
      d2 * (J12 * c1 * c3 + J23 * c1 * c3 - c1 * d3 * s3 + c3 * d1 * s1) * (s2 ^ 2 + c2 ^ 2 - 1) := by
    field_simp
    ring
  have hz : d2 * (J12 * c1 * c3 + J23 * c1 * c3 - c1 * d3 * s3 + c3 * d1 * s1) * (s2 ^ 2 + c2 ^ 2 - 1) = 0 := by rw [h2.unit]; ring
  rw [hz] at key
  exact (mul_eq_zero.mp key).resolve_left hd2


/-- `b · dM12/ds2` for the coded `M12` (differentiate along the line with `dσ/ds = 1/(b dn)`, `dJ/dσ = dn − 1/dn`) -/
noncomputable def dM12f (s1 c1 d1 s2 c2 d2 J : ℝ) : ℝ := (d2 * s1 * c2 - d1 * c1 * s2 + s1 * s2 * J) / (d1 * d2)

/-- **Wronskian identity for the formulas as coded**: `M12 M21 − m12 · dM12/ds2 = 1` with `b·dM12/ds2 = dM12f` -/
theorem scales_wronskian (k2 s1 c1 d1 s2 c2 d2 J : ℝ) (h1 : Pt k2 s1 c1 d1) (h2 : Pt k2 s2 c2 d2) :
    M12f k2 s1 d1 s2 c2 d2 (c1 * c2 + s1 * s2) J * M21f k2 s1 c1 d1 s2 d2 (c1 * c2 + s1 * s2) J
      - m12f s1 c1 d1 s2 c2 d2 J * dM12f s1 c1 d1 s2 c2 d2 J = 1 := by
  rw [M12f_eq k2 s1 c1 d1 s2 c2 d2 J h1 h2, M21f_eq k2 s1 c1 d1 s2 c2 d2 J h1 h2]
  have hd1 : d1 ≠ 0 := h1.pos.ne'
  have hd2 : d2 ≠ 0 := h2.pos.ne'
  unfold m12f dM12f
  rw [← sub_eq_zero]
  have key : d1 * d2 * ((c1 * c2 + s1 * s2 + ((d2 - d1) * s2 - c2 * J) * s1 / d1) * (c1 * c2 + s1 * s2 - ((d2 - d1) * s1 - c1 * J) * s2 / d2)
      - (d2 * (c1 * s2) - d1 * (s1 * c2) - c1 * c2 * J) * ((d2 * s1 * c2 - d1 * c1 * s2 + s1 * s2 * J) / (d1 * d2)) - 1) =
      d1 * d2 * (c2 ^ 2 + s2 ^ 2) * (s1 ^ 2 + c1 ^ 2 - 1) + d1 * d2 * (s2 ^ 2 + c2 ^ 2 - 1) := by
    field_simp
    ring
  have hz : d1 * d2 * (c2 ^ 2 + s2 ^ 2) * (s1 ^ 2 + c1 ^ 2 - 1) + d1 * d2 * (s2 ^ 2 + c2 ^ 2 - 1) = 0 := by rw [h1.unit, h2.unit]; ring
  rw [hz] at key
  exact (mul_eq_zero.mp key).resolve_left (mul_ne_zero hd1 hd2)

/-- **addition rule for the geodesic scale, for the formulas as coded**: `M13 = M12 M23 − (1 − M12 M21) m23/m12`, stated without the division
    (`addition_rule_M_div` divides by `m12 ≠ 0`) -/
theorem addition_rule_M (k2 s1 c1 d1 s2 c2 d2 s3 c3 d3 J12 J23 : ℝ) (h1 : Pt k2 s1 c1 d1) (h2 : Pt k2 s2 c2 d2) (h3 : Pt k2 s3 c3 d3) :
    let m12 := m12f s1 c1 d1 s2 c2 d2 J12
    let m23 := m12f s2 c2 d2 s3 c3 d3 J23
    let M12 := M12f k2 s1 d1 s2 c2 d2 (c1 * c2 + s1 * s2) J12
    let M21 := M21f k2 s1 c1 d1 s2 d2 (c1 * c2 + s1 * s2) J12
    let M23 := M12f k2 s2 d2 s3 c3 d3 (c2 * c3 + s2 * s3) J23
    let M13 := M12f k2 s1 d1 s3 c3 d3 (c1 * c3 + s1 * s3) (J12 + J23)
    M13 * m12 = M12 * M23 * m12 - (1 - M12 * M21) * m23 := by
  intro m12 m23 M12 M21 M23 M13
  simp only [m12, m23, M12, M21, M23, M13]
  rw [M12f_eq k2 s1 c1 d1 s2 c2 d2 J12 h1 h2, M21f_eq k2 s1 c1 d1 s2 c2 d2 J12 h1 h2, M12f_eq k2 s2 c2 d2 s3 c3 d3 J23 h2 h3,
    M12f_eq k2 s1 c1 d1 s3 c3 d3 (J12 + J23) h1 h3]
  have hd1 : d1 ≠ 0 := h1.pos.ne'
  have hd2 : d2 ≠ 0 := h2.pos.ne'
  unfold m12f
  rw [← sub_eq_zero]
  have key : d1 * d2 * ((c1 * c3 + s1 * s3 + ((d3 - d1) * s3 - c3 * (J12 + J23)) * s1 / d1) * (d2 * (c1 * s2) - d1 * (s1 * c2) - c1 * c2 * J12) -
      ((c1 * c2 + s1 * s2 + ((d2 - d1) * s2 - c2 * J12) * s1 / d1) * (c2 * c3 + s2 * s3 + ((d3 - d2) * s3 - c3 * J23) * s2 / d2) * (d2 * (c1 * s2) - d1 * (s1 * c2) - c1 * c2 * J12) -
       (1 - (c1 * c2 + s1 * s2 + ((d2 - d1) * s2 - c2 * J12) * s1 / d1) * (c1 * c2 + s1 * s2 - ((d2 - d1) * s1 - c1 * J12) * s2 / d2)) * (d3 * (c2 * s3) - d2 * (s2 * c3) - c2 * c3 * J23))) =
      (-d1*d2*(-J12*c2^3*c3 - J12*c2*c3*s2^2 + J12*c2*c3 - J23*c2^3*c3 - J23*c2*c3*s2^2 + c2^3*d3*s3 + c2*d3*s2^2*s3 - c3*d2*s2)) * (s1 ^ 2 + c1 ^ 2 - 1) +
      (d2*(-J12^2*c1*c2*c3*s1 - J12*J23*c1*c2*c3*s1 + J12*c1*c2*d3*s1*s3 + J12*c1*c3*d2*s1*s2 - 2*J12*c2*c3*d1*s1^2 + J12*c2*c3*d1 + J23*c1*c3*d2*s1*s2 - J23*c2*c3*d1*s1^2 + J23*c2*c3*d1 + c1*c2*c3*d1^2*s1 - c1*d2*d3*s1*s2*s3 + c2*d1*d3*s1^2*s3 - c2*d1*d3*s3 + c3*d1*d2*s1^2*s2)) * (s2 ^ 2 + c2 ^ 2 - 1) := by
    field_simp
    ring
  have hz : (-d1*d2*(-J12*c2^3*c3 - J12*c2*c3*s2^2 + J12*c2*c3 - J23*c2^3*c3 - J23*c2*c3*s2^2 + c2^3*d3*s3 + c2*d3*s2^2*s3 - c3*d2*s2)) * (s1 ^ 2 + c1 ^ 2 - 1) +
      (d2*(-J12^2*c1*c2*c3*s1 - J12*J23*c1*c2*c3*s1 + J12*c1*c2*d3*s1*s3 + J12*c1*c3*d2*s1*s2 - 2*J12*c2*c3*d1*s1^2 + J12*c2*c3*d1 + J23*c1*c3*d2*s1*s2 - J23*c2*c3*d1*s1^2 + J23*c2*c3*d1 + c1*c2*c3*d1^2*s1 - c1*d2*d3*s1*s2*s3 + c2*d1*d3*s1^2*s3 - c2*d1*d3*s3 + c3*d1*d2*s1^2*s2)) * (s2 ^ 2 + c2 ^ 2 - 1) = 0 := by
    rw [h1.unit, h2.unit]; ring
  rw [hz] at key
  exact (mul_eq_zero.mp key).resolve_left (mul_ne_zero hd1 hd2)


theorem addition_rule_M_div (k2 s1 c1 d1 s2 c2 d2 s3 c3 d3 J12 J23 : ℝ) (h1 : Pt k2 s1 c1 d1) (h2 : Pt k2 s2 c2 d2) (h3 : Pt k2 s3 c3 d3)
    (hm : m12f s1 c1 d1 s2 c2 d2 J12 ≠ 0) :
    M12f k2 s1 d1 s3 c3 d3 (c1 * c3 + s1 * s3) (J12 + J23) =
      M12f k2 s1 d1 s2 c2 d2 (c1 * c2 + s1 * s2) J12 * M12f k2 s2 d2 s3 c3 d3 (c2 * c3 + s2 * s3) J23 -
      (1 - M12f k2 s1 d1 s2 c2 d2 (c1 * c2 + s1 * s2) J12 * M21f k2 s1 c1 d1 s2 d2 (c1 * c2 + s1 * s2) J12) *
        m12f s2 c2 d2 s3 c3 d3 J23 / m12f s1 c1 d1 s2 c2 d2 J12 := by
  have h := addition_rule_M k2 s1 c1 d1 s2 c2 d2 s3 c3 d3 J12 J23 h1 h2 h3
  simp only at h
  rw [eq_sub_iff_add_eq, ← mul_left_inj' hm, add_mul, div_mul_cancel₀ _ hm]
  linear_combination h

/-- non-vacuity of `Pt`: three different points of a geodesic with `k² = 25/3` -/
example : Pt (25 / 3) (3 / 5) (4 / 5) 2 ∧ Pt (25 / 3) (-3 / 5) (4 / 5) 2 ∧ Pt (25 / 3) 0 (-1) 1 :=
  ⟨⟨by norm_num, by norm_num, by norm_num⟩, ⟨by norm_num, by norm_num, by norm_num⟩, ⟨by norm_num, by norm_num, by norm_num⟩⟩

/-! #### the executed models use exactly these expressions -/

/-- `GeodesicLine::GenPosition` (series): `m12 = b·m12f`, `M12 = M12f`, `M21 = M21f` at `(ssig1, csig1, dn1)`, `(ssig2, csig2, dn2)`,
    `dn2 = √(1 + k² ssig2²)`, the arc's cosine and some `J12` -/
theorem genpos_scales_are_formulas (L : Line ℝ) (arcmode : Bool) (s sk ck : ℝ) (un : Bool) :
    let P := genPosition L arcmode s sk ck un
    ∃ dn2 J12 : ℝ, dn2 = Real.sqrt (1 + L.k2 * P.ssig2 ^ 2) ∧
      P.m12 = L.b * m12f L.ssig1 L.csig1 L.dn1 P.ssig2 P.csig2 dn2 J12 ∧
      P.M12 = M12f L.k2 L.ssig1 L.dn1 P.ssig2 P.csig2 dn2 (arcOf L arcmode s sk ck).2.2.1 J12 ∧
      P.M21 = M21f L.k2 L.ssig1 L.csig1 L.dn1 P.ssig2 dn2 (arcOf L arcmode s sk ck).2.2.1 J12 := by
  intro P
  refine ⟨?d, ?J, ?e0, ?e1, ?e2, ?e3⟩
  case e1 => exact rfl
  case e2 => exact rfl
  case e3 => exact rfl
  case e0 => simp only [sqrt_real, sq_real, lit_real, Nat.cast_one]; rfl

/-- `GeodesicLineExact::GenPosition`: the same three expressions, with `dn2 = Delta(σ2)` and `J12 = k² D0 (σ12 + deltaD(σ2) − D1)` — every kernel -/
theorem xgenpos_scales_are_formulas (L : LineX ℝ) (K : Ell ℝ) (arcmode : Bool) (s sk ck : ℝ) (un : Bool) :
    let P := genPositionX L K arcmode s sk ck un
    P.m12 = L.b * m12f L.ssig1 L.csig1 L.dn1 P.ssig2 P.csig2 P.dn2 P.J12 ∧
    P.M12 = M12f L.k2 L.ssig1 L.dn1 P.ssig2 P.csig2 P.dn2 P.csig12 P.J12 ∧
    P.M21 = M21f L.k2 L.ssig1 L.csig1 L.dn1 P.ssig2 P.dn2 P.csig12 P.J12 := ⟨rfl, rfl, rfl⟩

/-- `EllipticFunction::Delta` as the line's object computes it is `√(1 + k² sin²σ)` in either branch (`_kp2 = 1 + k2`) -/
theorem delta_sq (k2 sn cn : ℝ) (hu : sn ^ 2 + cn ^ 2 = 1) (hp : 0 ≤ 1 + k2 * sn ^ 2) : delta k2 (1 + k2) sn cn ^ 2 = 1 + k2 * sn ^ 2 := by
  unfold delta
  simp only [ltb_real, lit_real, Nat.cast_zero, Nat.cast_one, sqrt_real]
  split_ifs with h
  · rw [Real.sq_sqrt (by nlinarith)]; ring
  · have e : (1 : ℝ) + k2 + -k2 * cn * cn = 1 + k2 * sn ^ 2 := by linear_combination (-k2) * hu
    rw [e, Real.sq_sqrt hp]

/-- **the Wronskian identity on the executed model of the exact line**, for every kernel: at a non-degenerate end point of a line with unit
    `(ssig1, csig1)`, `dn1² = 1 + k² ssig1²`, `dn1 > 0`, `_kp2 = 1 + k2`, in arc mode with a unit kernel pair, and `1 + k² ssig2² > 0`:
    `M12 M21 − (m12/b)·dM12f = 1` -/
theorem xgenpos_wronskian (L : LineX ℝ) (K : Ell ℝ) (a12 sk ck : ℝ) (un : Bool)
    (h1 : Pt L.k2 L.ssig1 L.csig1 L.dn1) (hkp : L.kp2 = 1 + L.k2) (hk : sk ^ 2 + ck ^ 2 = 1)
    (hnd : NonDegenerateX L K true a12 sk ck) (hb : L.b ≠ 0)
    (hpos : 0 < 1 + L.k2 * (L.ssig1 * ck + L.csig1 * sk) ^ 2) :
    let P := genPositionX L K true a12 sk ck un
    P.M12 * P.M21 - P.m12 / L.b * dM12f L.ssig1 L.csig1 L.dn1 P.ssig2 P.csig2 P.dn2 P.J12 = 1 := by
  intro P
  obtain ⟨a0, a1, a2⟩ := arcOfX_arc L K a12 sk ck
  obtain ⟨e1, e2, _⟩ := genposX_nd L K true a12 sk ck un hnd
  have hs2 : P.ssig2 = L.ssig1 * ck + L.csig1 * sk := by rw [e1]; unfold ssig2ofX; rw [a1, a2]
  have hc2 : P.csig2 = L.csig1 * ck - L.ssig1 * sk := by rw [e2]; unfold csig2preX; rw [a1, a2]
  have hu2 : P.ssig2 ^ 2 + P.csig2 ^ 2 = 1 := by rw [hs2, hc2]; linear_combination (L.ssig1 ^ 2 + L.csig1 ^ 2) * hk + h1.unit
  have hdn : P.dn2 = delta L.k2 (1 + L.k2) P.ssig2 P.csig2 := by
    show delta L.k2 L.kp2 _ _ = _
    rw [hkp, hs2, hc2, a1, a2]
  have hd2 : P.dn2 ^ 2 = 1 + L.k2 * P.ssig2 ^ 2 := by rw [hdn]; exact delta_sq _ _ _ hu2 (by rw [hs2]; exact hpos.le)
  have hd2p : 0 < P.dn2 := by
    have : 0 ≤ P.dn2 := by rw [hdn]; unfold delta; simp only [sqrt_real]; exact Real.sqrt_nonneg _
    rcases this.lt_or_eq with h | h
    · exact h
    · exfalso; rw [← h] at hd2; rw [hs2] at hd2; nlinarith
  have h2 : Pt L.k2 P.ssig2 P.csig2 P.dn2 := ⟨hu2, hd2, hd2p⟩
  have hc12 : P.csig12 = L.csig1 * P.csig2 + L.ssig1 * P.ssig2 := by
    have : P.csig12 = ck := a2
    rw [this, hs2, hc2]; linear_combination (-ck) * h1.unit
  obtain ⟨f1, f2, f3⟩ := xgenpos_scales_are_formulas L K true a12 sk ck un
  show P.M12 * P.M21 - P.m12 / L.b * _ = 1
  rw [f1, f2, f3, hc12, mul_div_cancel_left₀ _ hb]
  exact scales_wronskian L.k2 L.ssig1 L.csig1 L.dn1 P.ssig2 P.csig2 P.dn2 P.J12 h1 h2

/-- non-vacuity: the equator of the unit sphere with the sphere kernel, a quarter circuit -/
example : Pt exLineX.k2 exLineX.ssig1 exLineX.csig1 exLineX.dn1 ∧ exLineX.kp2 = 1 + exLineX.k2 ∧ (1 : ℝ) ^ 2 + 0 ^ 2 = 1 ∧
    NonDegenerateX exLineX exEll true 90 1 0 ∧ exLineX.b ≠ 0 ∧ 0 < 1 + exLineX.k2 * (exLineX.ssig1 * 0 + exLineX.csig1 * 1) ^ 2 := by
  refine ⟨⟨by simp [exLineX], by simp [exLineX], by simp [exLineX]⟩, by simp [exLineX], by norm_num, exLineX_nd _ _ _ _, by simp [exLineX], by simp [exLineX]⟩

end Scales

/-! ### `DST::integral` (the area term of the exact line) -/

section DSTsec
open Real GeoVerif.GeodLine GeoVerif.GeodLineX GeoVerif.Proofs.GeodLineX

/-- **`DST::integral` is the sum it stands for**: `DST::integral(sin x, cos x, F, N) = −Σ_{i<N} F[i]/(2i+1) · cos((2i+1)x)` for every
    coefficient vector and every `x` (the area term `B4(σ)` of the exact line: `S12 = c² α12 + A4 (B42 − B41)`) -/
theorem dstIntegral_eq (x : ℝ) (F : List ℝ) : dstIntegral (sin x) (cos x) F = -dstSum x 0 F := by
  unfold dstIntegral
  have hw := dstW_eq F 0
  simp only [Nat.add_zero] at hw
  simp only [lit_real, Nat.cast_zero]
  rw [hw, clenshaw_dst x F 0]
  have ar : (2 : ℝ) * (cos x - sin x) * (cos x + sin x) = 2 * cos (2 * x) := by rw [cos_two_mul, ← sin_sq_add_cos_sq x]; ring
  have h1 : cos ((2 * (0:ℝ) + 1) * x) = cos x := by simp
  have h2 : cos ((2 * (0:ℝ) - 1) * x) = cos x := by
    have : (2 * (0:ℝ) - 1) * x = -x := by ring
    rw [this, cos_neg]
  push_cast
  rw [h1, h2, ar]; ring

end DSTsec

/-! ### the closed-form ellipsoid area -/

section Authalic
open Real GeoVerif.GeodLine GeoVerif.GeodLineX GeoVerif.Proofs.GeodLineX

/-- **both solvers hold the same authalic radius**: for an oblate ellipsoid (`0 < f < 1`) `GeodesicExact`'s `_c2` (written with
    `asinh √e′²`) and `Geodesic`'s (written with `e·atanh e` through `Math::eatanhe`) are the same real number, `(a² + b² atanh(e)/e)/2`;
    `EllipsoidArea() = 4π c2` in both classes -/
theorem c2_exact_eq_series (a f tiny eps0 : ℝ) (h0 : 0 < f) (h1 : f < 1) :
    (geodesicX a f tiny eps0).c2 = (geodesic a f tiny eps0).c2 ∧
    (geodesic a f tiny eps0).c2 = (a ^ 2 + (a * (1 - f)) ^ 2 * (Real.log ((1 + Real.sqrt (f * (2 - f))) / (1 - Real.sqrt (f * (2 - f)))) / 2 / Real.sqrt (f * (2 - f)))) / 2 := by
  set e2 := f * (2 - f) with he2
  have he2p : 0 < e2 := by rw [he2]; nlinarith
  have he2l : e2 < 1 := by rw [he2]; nlinarith
  set e := Real.sqrt e2 with he
  have hep : 0 < e := Real.sqrt_pos.mpr he2p
  have hesq : e ^ 2 = e2 := Real.sq_sqrt he2p.le
  have hel : e < 1 := by
    have : e ^ 2 < 1 ^ 2 := by rw [hesq]; linarith
    exact lt_of_pow_lt_pow_left₀ 2 (by norm_num) this
  have hf1 : 0 < 1 - f := by linarith
  have hf1sq : (1 - f) ^ 2 = 1 - e ^ 2 := by rw [hesq, he2]; ring
  have hsq1 : Real.sqrt (1 - e ^ 2) = 1 - f := by rw [← hf1sq, Real.sqrt_sq hf1.le]
  have hrt : Real.sqrt (e2 / (1 - f) ^ 2) = e / Real.sqrt (1 - e ^ 2) := by
    rw [Real.sqrt_div he2p.le, Real.sqrt_sq hf1.le, hsq1]
  have hser : (geodesic a f tiny eps0).c2 = (a ^ 2 + (a * (1 - f)) ^ 2 * (Real.log ((1 + e) / (1 - e)) / 2 / e)) / 2 := by
    unfold geodesic eatanhe1
    simp only [lit_real, sq_real, eqb_real, ltb_real, sqrt_real, abs_real]
    push_cast
    simp only [← he2]
    simp only [decide_eq_true_eq, if_neg he2p.ne', if_neg (not_lt.mpr h0.le), abs_of_pos he2p, ← he, one_mul, mul_one, if_pos hep]
    show (a ^ 2 + (a * (1 - f)) ^ 2 * (e * (Real.log ((1 + e) / (1 - e)) / 2) / e2)) / _ = _
    rw [← hesq]; field_simp
  refine ⟨?_, hser⟩
  rw [hser]
  unfold geodesicX
  simp only [lit_real, sq_real, eqb_real, ltb_real, sqrt_real, abs_real]
  push_cast
  simp only [← he2]
  simp only [decide_eq_true_eq, if_neg h0.ne', if_pos h0, abs_of_pos he2p, ← he]
  show (a ^ 2 + (a * (1 - f)) ^ 2 * (Real.arsinh (Real.sqrt (e2 / (1 - f) ^ 2)) / e)) / _ = _
  rw [hrt, arsinh_eq_atanh e hep hel]

example : (0 : ℝ) < 1 / 298 ∧ (1 / 298 : ℝ) < 1 := by norm_num

end Authalic

end GeoVerif.Props.C03
