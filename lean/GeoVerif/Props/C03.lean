import GeoVerif.Model.GeodLengths
import GeoVerif.Series.GeodSeries
import GeoVerif.Series.GeodTrig
import GeoVerif.Spec.RealInst
import Mathlib.Tactic.Ring
/-!
# C03 — reduced length, geodesic scales, area: algebraic identities and table certificates
-/
namespace GeoVerif.Props.C03
open GeoVerif GeoVerif.Clenshaw GeoVerif.GeodLengths GeoVerif.Series GeoVerif.Series.Geod

/-- the Clenshaw recurrence is linear in the coefficient vector -/
theorem clen_linear (ar a b : ℝ) (xs ys : List ℝ) (h : xs.length = ys.length) :
    clen ar (List.zipWith (fun x y => a * x - b * y) xs ys) =
      (a * (clen ar xs).1 - b * (clen ar ys).1, a * (clen ar xs).2 - b * (clen ar ys).2) := by
  induction xs generalizing ys with
  | nil => cases ys with
    | nil => simp [clen, ofNat_real]
    | cons y ys => simp at h
  | cons x xs ih =>
    cases ys with
    | nil => simp at h
    | cons y ys =>
      have hl : xs.length = ys.length := by simpa using h
      simp only [List.zipWith_cons_cons, clen, ih ys hl, Prod.mk.injEq]
      exact ⟨by ring, trivial⟩

theorem sinCosSeries_linear (sinx cosx a b : ℝ) (xs ys : List ℝ) (h : xs.length = ys.length) :
    sinCosSeries true sinx cosx (List.zipWith (fun x y => a * x - b * y) xs ys) =
      a * sinCosSeries true sinx cosx xs - b * sinCosSeries true sinx cosx ys := by
  unfold sinCosSeries
  simp only [if_true, clen_linear _ a b xs ys h]
  ring

/-- **mask equivalence of J12**: the value used for m12, M12, M21 is the same ring element whether or not DISTANCE
    is requested (the two code paths of `Geodesic::Lengths`) -/
theorem lengths_mask_equiv (m0x sig12 A1 A2 : ℝ) (ca cb : List ℝ) (h : ca.length = cb.length) (ssig1 csig1 ssig2 csig2 : ℝ) :
    j12WithDistance m0x sig12 A1 A2 ca cb ssig1 csig1 ssig2 csig2 =
      j12WithoutDistance m0x sig12 A1 A2 ca cb ssig1 csig1 ssig2 csig2 := by
  unfold j12WithDistance j12WithoutDistance
  simp only []
  rw [sinCosSeries_linear _ _ A1 A2 ca cb h, sinCosSeries_linear _ _ A1 A2 ca cb h]
  ring

/-- hence m12, M12, M21 returned by `Lengths` do not depend on whether DISTANCE was requested -/
theorem lengths_outputs_mask_independent (ep2 eps sig12 ssig1 csig1 dn1 ssig2 csig2 dn2 cbet1 cbet2 : ℝ)
    (h : (c1f eps : List ℝ).length = (c2f eps : List ℝ).length) :
    (lengths ep2 eps sig12 ssig1 csig1 dn1 ssig2 csig2 dn2 cbet1 cbet2 true).m12b =
      (lengths ep2 eps sig12 ssig1 csig1 dn1 ssig2 csig2 dn2 cbet1 cbet2 false).m12b ∧
    (lengths ep2 eps sig12 ssig1 csig1 dn1 ssig2 csig2 dn2 cbet1 cbet2 true).M12 =
      (lengths ep2 eps sig12 ssig1 csig1 dn1 ssig2 csig2 dn2 cbet1 cbet2 false).M12 ∧
    (lengths ep2 eps sig12 ssig1 csig1 dn1 ssig2 csig2 dn2 cbet1 cbet2 true).M21 =
      (lengths ep2 eps sig12 ssig1 csig1 dn1 ssig2 csig2 dn2 cbet1 cbet2 false).M21 := by
  simp only [lengths, if_true, Bool.false_eq_true, if_false]
  rw [lengths_mask_equiv _ _ _ _ _ _ h]
  exact ⟨rfl, rfl, rfl⟩

/-! ### area-sign bookkeeping of `GenInverse` -/

/-- `S12 *= swapp * lonsign * latsign`: reversing the segment (swapp ↦ −swapp) or reflecting it in the equator or a
    meridian negates S12; doing two of these restores it -/
theorem s12_sign (S : ℝ) (swapp lonsign latsign : ℤ) :
    S * ((-swapp) * lonsign * latsign : ℤ) = -(S * (swapp * lonsign * latsign : ℤ)) ∧
    S * (swapp * (-lonsign) * latsign : ℤ) = -(S * (swapp * lonsign * latsign : ℤ)) ∧
    S * (swapp * lonsign * (-latsign) : ℤ) = -(S * (swapp * lonsign * latsign : ℤ)) := by
  refine ⟨?_, ?_, ?_⟩ <;> push_cast <;> ring

/-! ### table certificates (shared with C01) -/
theorem a1_table : checkA1 = true := by decide +kernel
theorem c1_table : ((List.range N).all fun i => checkC1 (i + 1)) = true := by decide +kernel
theorem a2_table : checkA2 = true := by decide +kernel
theorem c2_table : ((List.range N).all fun i => checkC2 (i + 1)) = true := by decide +kernel

/-! ### I4: the area table `C4coeff` (bivariate in `n`, `ε`) -/

/-- the layout of `C4coeff`/`C4f` consumes the table exactly -/
theorem table_sizes4 : c4Size = Gen.GeodSeries.C4coeff.length := by decide +kernel

/-- `t(x) = x + √(1 + 1/x)·asinh √x = x + (1 + x) h(x)` where `h(x) = asinh(√x)/√(x(1 + x))` is the power-series solution
    of `2x(1 + x) h′ + (1 + 2x) h = 1`: the coefficients `hCoef` used below satisfy this ODE (mod `x^{N+1}`); no table involved -/
theorem t_series : checkH (N + 1) = true := by decide +kernel

/-- `h_k(x, y) = Σ_{i+j=k} x^i y^j` by the recursion used in `i4DividedDifference` -/
def hk (x y : ℝ) : ℕ → ℝ
  | 0 => 1
  | k + 1 => x * hk x y k + y ^ (k + 1)

/-- `(x − y)·h_k(x, y) = x^{k+1} − y^{k+1}`: so `[t(x) − t(y)]/(x − y) = Σ_{m ≥ 1} t_m h_{m−1}(x, y)` for `t = Σ t_m x^m` -/
theorem hk_spec (x y : ℝ) (k : ℕ) : (x - y) * hk x y k = x ^ (k + 1) - y ^ (k + 1) := by
  induction k with
  | zero => simp [hk]
  | succ k ih =>
    have : (x - y) * hk x y (k + 1) = x * ((x - y) * hk x y k) + (x - y) * y ^ (k + 1) := by simp only [hk]; ring
    rw [this, ih]; ring

/-- **C4** (Karney 2013, eq. 59–63; `computeI4` of `maxima/geod.mac`).  `I4(σ) = Σ_{l=0}^{N−1} C4_l cos((2l + 1)σ)` and
    `−dI4/dσ = [t(e′²) − t(k² sin²σ)]/(e′² − k² sin²σ) · sin σ/2` with `e′² = 4n/(1 − n)²`, `k² = 4ε/(1 − ε)²`, `t` as in `t_series`.
    The divided difference is expanded directly (`hk_spec`) as a trigonometric polynomial in `σ` with coefficients in
    `ℚ[n, ε]` modulo total degree `N` — the truncation `jtaylor(·, n, eps, N−1)` of the generator.  Certified:
    `Σ_l (2l + 1) C4_l sin((2l + 1)σ)` (table `C4coeff`, layout of `C4f`) **is** that expansion times `sin σ/2`.
    Full certificate of the 77-entry (N = 6) table: all its entries have total degree `≤ N − 1`. -/
theorem c4_table : checkC4Expansion = true := by decide +kernel

/-- second, independent route (no divided difference): multiplying out,
    `[Σ_l (2l + 1) C4_l sin((2l + 1)σ)] · (e′² − k² sin²σ) = [t(e′²) − t(k² sin²σ)] · sin σ/2` modulo total degree `N + 1`.
    The factor `e′² − k² sin²σ` has lowest-order part `4(n − ε sin²σ) ≠ 0` and the coefficient ring is an integral
    domain, so this relation alone also determines the first factor modulo total degree `N`. -/
theorem c4_relation : checkC4 = true := by decide +kernel

end GeoVerif.Props.C03
