import GeoVerif.Series.AuxSeries
import GeoVerif.Proofs.AuxCert1
import GeoVerif.Proofs.AuxCert2
import GeoVerif.Proofs.AuxCert3
import GeoVerif.Proofs.AuxCert4
import GeoVerif.Proofs.AuxCert5
import GeoVerif.Proofs.AuxCert6
import GeoVerif.Proofs.AuxCert7
import GeoVerif.Proofs.AuxCert8
import GeoVerif.Proofs.AuxCert9
import GeoVerif.Proofs.AuxCompAll
import GeoVerif.Proofs.CarlsonGen
import GeoVerif.Proofs.Jacobi
import GeoVerif.Proofs.AuxExactP
import GeoVerif.Model.AuxLat
import GeoVerif.Spec.RealInst
import Mathlib.Tactic.Ring
import Mathlib.Tactic.FieldSimp
import Mathlib.Tactic.Linarith
import Mathlib.Tactic.Positivity
/-!
# C15 — auxiliary latitudes, ellipsoid measures, elliptic functions

Part 1 (depends on `Gen/AuxSeries.lean`, i.e. on what `AuxLatitude.cpp` says now): certificates for the 30 series
tables of `fillcoeff` and the two radius polynomials.  Latitudes are numbered as in `AuxLatitude::aux`
(0 φ, 1 β, 2 θ, 3 μ, 4 χ, 5 ξ; `aux_layout` checks the enum).  All series are polynomials in the third
flattening `n`, compared modulo `n^(L+1)`, `L = GEOGRAPHICLIB_AUXLATITUDE_ORDER`.

What the certificates establish together: the six tables among φ, β, θ equal their closed forms; μ←β equals the
binomial series of the meridian-arc integrand; χ←φ and ξ←φ satisfy the differential equations (with the initial
value built into a sine series) that define the conformal and authalic latitudes; every pair of opposite tables
reverts to the identity; nine compositions connect the remaining tables to those.  Since reversion and composition
of formal maps `x ↦ x + O(n)` are unique, all 30 tables are thereby pinned to the defining series, and a single
wrong coefficient anywhere in `coeffs[]` falsifies `aux_revert` for its pair.

Part 2: exact-real theorems about the formula models of `Model/AuxLat.lean` (the same definitions the driver runs in
binary64 against the implementation).

Part 3: `EllipticFunction` (`Model/Elliptic.lean`): Carlson's duplication loops (invariants for every trip budget, exit
bound, symmetry, the symmetric functions, `R_C`'s duplication), the constants of the source (`Gen/Carlson.lean`), Bulirsch's
`sncndn` (Landen descent for every AGM depth), the frame and the period handling of the six incomplete integrals for every
kernel, `Ed`, `Einv`.

Part 4: `AuxAngle`, the exact methods of `AuxLatitude` and the measures of `Ellipsoid` (`Model/AuxExact.lean`).

The lemmas are proved in `Proofs/Carlson.lean`, `Proofs/CarlsonGen.lean`, `Proofs/Jacobi.lean`, `Proofs/AuxExactP.lean`,
`Proofs/AuxCompAll.lean`; they are restated here so that every one of them is an audited obligation.
-/
namespace GeoVerif.Props.C15
open GeoVerif GeoVerif.Series GeoVerif.Series.Aux GeoVerif.AuxLat Real

/-! ## Part 1: table certificates (re-checked against the current source on every run) -/

/-- `ptrs[]` and `coeffs[]` fit the loops of `fillcoeff` exactly (every block ends where the next starts, diagonal blocks
    are empty, the last offset is the table size) and the `aux` enum has the documented numbering -/
theorem aux_layout : layoutOK = true ∧ enumOK = true := by decide +kernel

/-- β←φ: `tan β = (1 − f) tan φ`, `1 − f = (1 − n)/(1 + n)` ⇒ `C_l = (−n)^l / l` -/
theorem beta_phi_table : checkBetaPhi = true := by decide +kernel
/-- φ←β: `C_l = n^l / l` -/
theorem phi_beta_table : checkPhiBeta = true := by decide +kernel
/-- θ←β (`tan θ = (1 − f) tan β`): `C_l = (−n)^l / l` -/
theorem theta_beta_table : checkThetaBeta = true := by decide +kernel
/-- β←θ: `C_l = n^l / l` -/
theorem beta_theta_table : checkBetaTheta = true := by decide +kernel
/-- θ←φ (`tan θ = (1 − f)² tan φ`): `C_l = (−m)^l / l` with `m = 2n/(1 + n²)` expanded in `n` -/
theorem theta_phi_table : checkThetaPhi = true := by decide +kernel
/-- φ←θ: `C_l = m^l / l`, `m = 2n/(1 + n²)` -/
theorem phi_theta_table : checkPhiTheta = true := by decide +kernel

/-- μ←β: `C_l(n) · Σ_j b_j² n^{2j} = (1/l) Σ_j b_j b_{j+l} n^{2j+l}`, `b_j = (−1)^j C(½, j)` — the Fourier coefficients of the
    integrated meridian-arc element `|1 − n e^{2iβ}|` over its mean (the C1 series of the geodesic problem at ε = n) -/
theorem mu_beta_table : ((List.range L).all fun i => checkMuBeta (i + 1)) = true := by decide +kernel

/-- `RectifyingRadius(false)`: the polynomial is `Σ_j b_j² n^{2j}` (mean value of the arc element; radius `(a+b)/2 ·` that) -/
theorem rect_radius_table : checkRectRadius = true := by decide +kernel
/-- `AuthalicRadiusSquared(false)`: coefficients `1, −1/3, 4(2j−5)!!/(2j+1)!!` -/
theorem auth_radius_table : checkAuthRadius = true := by decide +kernel

/-- χ = φ + Σ C[χ←φ]_l sin 2lφ satisfies `cos φ (1 − e² sin²φ) χ′ = (1 − e²) cos χ` modulo `n^(L+1)`
    (with χ(0) = 0 this is the definition `tan χ = sinh(asinh tan φ − e atanh(e sin φ))`) -/
theorem chi_ode : checkChiODE = true := Proofs.AuxCert.chi_ode
/-- ξ = φ + Σ C[ξ←φ]_l sin 2lφ satisfies `cos ξ · ξ′ · (1 − e² sin²φ)² · q(π/2) = 2(1 − e²) cos φ` modulo `n^(L+1)`, where
    `q(π/2) = 2P(n)/(1+n)` and `P` is the extracted `AuthalicRadiusSquared` polynomial (so `sin ξ = q(φ)/q(π/2)`) -/
theorem xi_ode : checkXiODE = true := Proofs.AuxCert.xi_ode

/-- for each of the 15 unordered pairs {a, b}: the series C[a←b] substituted into C[b←a] is the identity modulo `n^(L+1)` -/
theorem aux_revert :
    checkRevert 0 1 = true ∧ checkRevert 0 2 = true ∧ checkRevert 0 3 = true ∧ checkRevert 0 4 = true ∧ checkRevert 0 5 = true ∧
    checkRevert 1 2 = true ∧ checkRevert 1 3 = true ∧ checkRevert 1 4 = true ∧ checkRevert 1 5 = true ∧
    checkRevert 2 3 = true ∧ checkRevert 2 4 = true ∧ checkRevert 2 5 = true ∧
    checkRevert 3 4 = true ∧ checkRevert 3 5 = true ∧ checkRevert 4 5 = true :=
  open Proofs.AuxCert in
  ⟨revert_0_1, revert_0_2, revert_0_3, revert_0_4, revert_0_5, revert_1_2, revert_1_3, revert_1_4, revert_1_5,
   revert_2_3, revert_2_4, revert_2_5, revert_3_4, revert_3_5, revert_4_5⟩

/-- `aux_compose`: for every ordered triple `(c, b, a)` of distinct auxiliary latitudes, C[c←a] = C[c←b] ∘ C[b←a] modulo
    `n^(L+1)` — all 120 triples, each one a kernel-checked certificate (`Proofs/AuxCert1…9`, `Proofs/AuxComp01…19`, about 10 s
    each, checked in parallel and only when `coeffs[]` changes) -/
theorem aux_compose (c b a : Nat) (hc : c < 6) (hb : b < 6) (ha : a < 6) (h1 : c ≠ b) (h2 : b ≠ a) (h3 : a ≠ c) :
    checkCompose c b a = true :=
  Proofs.AuxCert.compose_of_distinct c b a hc hb ha h1 h2 h3

example : (3 : Nat) < 6 ∧ (1 : Nat) < 6 ∧ (0 : Nat) < 6 ∧ (3 : Nat) ≠ 1 ∧ (1 : Nat) ≠ 0 ∧ (0 : Nat) ≠ 3 := by decide

/-! ## Part 2: exact-real theorems about the formula models -/

section algebra
variable (a f : ℝ)

/-- the constructor's parameters: `e² = f(2−f)`, `1 − e² = (1−f)²`, `e′² = e²/(1−e²)`, `n = f/(2−f)`, `e² = 4n/(1+n)²`,
    `b = a(1−f)`, `(1−n)/(1+n) = 1−f`, `b² = a²(1−e²)`, `e″² = e²/(2−e²) = (a²−b²)/(a²+b²)` -/
theorem ellipsoid_algebra (hf : f < 1) :
    ctorE2 f = f * (2 - f) ∧ 1 - ctorE2 f = (1 - f) ^ 2 ∧
    ctorE12 f = ctorE2 f / (1 - ctorE2 f) ∧ ctorE12 f = flatteningToSecondEccentricitySq f ∧
    ctorN f = f / (2 - f) ∧ ctorE2 f = 4 * ctorN f / (1 + ctorN f) ^ 2 ∧
    (1 - ctorN f) / (1 + ctorN f) = 1 - f ∧
    ctorB a f = a * (1 - f) ∧ (ctorB a f) ^ 2 = a ^ 2 * (1 - ctorE2 f) ∧
    thirdEccentricitySq f = flatteningToThirdEccentricitySq f ∧
    secondFlattening f = flatteningToSecondFlattening f := by
  have h1 : (1 : ℝ) - f ≠ 0 := by linarith
  have h2 : (2 : ℝ) - f ≠ 0 := by linarith
  have h3 : (1 : ℝ) - f * (2 - f) ≠ 0 := by
    have : (1 : ℝ) - f * (2 - f) = (1 - f) ^ 2 := by ring
    rw [this]; positivity
  have h4 : (1 : ℝ) + f / (2 - f) ≠ 0 := by
    have : (1 : ℝ) + f / (2 - f) = 2 / (2 - f) := by field_simp; ring
    rw [this]; exact div_ne_zero (by norm_num) h2
  have h5 : (2 : ℝ) - f * (2 - f) ≠ 0 := by nlinarith [sq_nonneg (1 - f)]
  have h6 : (1 : ℝ) + (1 - f) * (1 - f) ≠ 0 := by nlinarith [sq_nonneg (1 - f)]
  have hn : (1 : ℝ) + f / (2 - f) = 2 / (2 - f) := by field_simp; ring
  have g6 : f * (2 - f) = 4 * (f / (2 - f)) / (1 + f / (2 - f)) ^ 2 := by rw [hn]; field_simp; ring
  have g7 : (1 - f / (2 - f)) / (1 + f / (2 - f)) = 1 - f := by rw [hn]; field_simp; ring
  refine ⟨?_, ?_, ?_, ?_, ?_, ?_, ?_, ?_, ?_, ?_, ?_⟩ <;>
    (try simp only [ctorE12, flatteningToSecondEccentricitySq, ctorE2, ctorN, ctorB, thirdEccentricitySq, flatteningToThirdEccentricitySq,
      secondFlattening, flatteningToSecondFlattening, RealLike.sq, lit_real]) <;> (try push_cast) <;>
    first
    | rfl
    | ring1
    | exact g6
    | exact g7

example : (1 / 298 : ℝ) < 1 := by norm_num

/-- `f ↦ f′ = f/(1−f)` and `f′ ↦ f′/(1+f′)` are mutually inverse (f < 1, f′ > −1) -/
theorem second_flattening_inverse (fp : ℝ) (hf : f < 1) (hfp : -1 < fp) :
    secondFlatteningToFlattening (flatteningToSecondFlattening f) = f ∧
    flatteningToSecondFlattening (secondFlatteningToFlattening fp) = fp := by
  have h1 : (1 : ℝ) - f ≠ 0 := by linarith
  have h2 : (1 : ℝ) + fp ≠ 0 := by linarith
  unfold secondFlatteningToFlattening flatteningToSecondFlattening
  simp only [lit_real]; push_cast
  constructor
  · have : (1 : ℝ) + f / (1 - f) = 1 / (1 - f) := by field_simp; ring
    rw [this]; field_simp
  · have : (1 : ℝ) - fp / (1 + fp) = 1 / (1 + fp) := by field_simp; ring
    rw [this]; field_simp

/-- `f ↦ n = f/(2−f)` and `n ↦ 2n/(1+n)` are mutually inverse (f < 2, n > −1) -/
theorem third_flattening_inverse (n : ℝ) (hf : f < 2) (hn : -1 < n) :
    thirdFlatteningToFlattening (flatteningToThirdFlattening f) = f ∧
    flatteningToThirdFlattening (thirdFlatteningToFlattening n) = n := by
  have h1 : (2 : ℝ) - f ≠ 0 := by linarith
  have h2 : (1 : ℝ) + n ≠ 0 := by linarith
  unfold thirdFlatteningToFlattening flatteningToThirdFlattening
  simp only [lit_real]; push_cast
  constructor
  · have : (1 : ℝ) + f / (2 - f) = 2 / (2 - f) := by field_simp; ring
    rw [this]; field_simp
  · have : (2 : ℝ) - 2 * n / (1 + n) = 2 / (1 + n) := by field_simp; ring
    rw [this]; field_simp

/-- `EccentricitySqToFlattening ∘ FlatteningToEccentricitySq = id` for f < 1, and the other way round for e² ≤ 1 -/
theorem eccentricity_sq_inverse (e2 : ℝ) (hf : f < 1) (he : e2 ≤ 1) :
    eccentricitySqToFlattening (flatteningToEccentricitySq f) = f ∧
    flatteningToEccentricitySq (eccentricitySqToFlattening e2) = e2 := by
  unfold eccentricitySqToFlattening flatteningToEccentricitySq
  simp only [lit_real, sqrt_real]; push_cast
  constructor
  · have h : (1 : ℝ) - f * (2 - f) = (1 - f) ^ 2 := by ring
    rw [h, Real.sqrt_sq (by linarith)]
    have : (1 : ℝ) - f + 1 ≠ 0 := by linarith
    field_simp; ring
  · set s := Real.sqrt (1 - e2) with hs
    have hs0 : 0 ≤ s := Real.sqrt_nonneg _
    have hss : s * s = 1 - e2 := Real.mul_self_sqrt (by linarith)
    have h1 : s + 1 ≠ 0 := by linarith
    have he2 : e2 = (1 - s) * (1 + s) := by nlinarith
    have : e2 / (s + 1) = 1 - s := by rw [he2]; field_simp; ring
    rw [this]; nlinarith

/-- `SecondEccentricitySqToFlattening ∘ FlatteningToSecondEccentricitySq = id` for f < 1 -/
theorem second_eccentricity_sq_inverse (hf : f < 1) :
    secondEccentricitySqToFlattening (flatteningToSecondEccentricitySq f) = f := by
  unfold secondEccentricitySqToFlattening flatteningToSecondEccentricitySq RealLike.sq
  simp only [lit_real, sqrt_real]; push_cast
  have h1 : (0 : ℝ) < 1 - f := by linarith
  have h : (1 : ℝ) + f * (2 - f) / ((1 - f) * (1 - f)) = (1 / (1 - f)) ^ 2 := by field_simp; ring
  rw [h, Real.sqrt_sq (by positivity)]
  have h2 : (1 : ℝ) / (1 - f) + 1 + f * (2 - f) / ((1 - f) * (1 - f)) = (2 - f) / ((1 - f) * (1 - f)) := by field_simp; ring
  have h3 : (2 : ℝ) - f ≠ 0 := by linarith
  rw [h2]; field_simp

/-- `ThirdEccentricitySqToFlattening ∘ FlatteningToThirdEccentricitySq = id` for f < 1 -/
theorem third_eccentricity_sq_inverse (hf : f < 1) :
    thirdEccentricitySqToFlattening (flatteningToThirdEccentricitySq f) = f := by
  unfold thirdEccentricitySqToFlattening flatteningToThirdEccentricitySq RealLike.sq
  simp only [lit_real, sqrt_real]; push_cast
  have h1 : (0 : ℝ) < 1 - f := by linarith
  have hd : (0 : ℝ) < 1 + (1 - f) * (1 - f) := by positivity
  have h : ((1 : ℝ) - f * (2 - f) / (1 + (1 - f) * (1 - f))) * (1 + f * (2 - f) / (1 + (1 - f) * (1 - f)))
      = (2 * (1 - f) / (1 + (1 - f) * (1 - f))) ^ 2 := by field_simp; ring
  rw [h, Real.sqrt_sq (by positivity)]
  have h2 : (2 : ℝ) * (1 - f) / (1 + (1 - f) * (1 - f)) + 1 + f * (2 - f) / (1 + (1 - f) * (1 - f))
      = 2 * (2 - f) / (1 + (1 - f) * (1 - f)) := by field_simp; ring
  have h3 : (2 : ℝ) - f ≠ 0 := by linarith
  rw [h2]; field_simp

example : (-1 / 100 : ℝ) < 1 ∧ (1 / 298 : ℝ) < 1 := by constructor <;> norm_num

/-- `FlatteningToSecondEccentricitySq ∘ SecondEccentricitySqToFlattening = id` for e′² > −1 -/
theorem second_eccentricity_sq_inverse_rev (ep2 : ℝ) (h : -1 < ep2) :
    flatteningToSecondEccentricitySq (secondEccentricitySqToFlattening ep2) = ep2 := by
  unfold secondEccentricitySqToFlattening flatteningToSecondEccentricitySq RealLike.sq
  simp only [lit_real, sqrt_real]; push_cast
  set s := √(1 + ep2) with hs
  have hs0 : 0 < s := Real.sqrt_pos.mpr (by linarith)
  have hss : s * s = 1 + ep2 := Real.mul_self_sqrt (by linarith)
  have he : ep2 = s * s - 1 := by linarith
  have hden : s + 1 + ep2 = s * (s + 1) := by rw [he]; ring
  have hf : ep2 / (s + 1 + ep2) = 1 - 1 / s := by
    rw [hden, he]; field_simp; ring
  rw [hf]
  have h1 : (1 : ℝ) - (1 - 1 / s) = 1 / s := by ring
  rw [h1, he]; field_simp; ring

/-- `FlatteningToThirdEccentricitySq ∘ ThirdEccentricitySqToFlattening = id` for −1 < e″² < 1 -/
theorem third_eccentricity_sq_inverse_rev (t : ℝ) (h1 : -1 < t) (h2 : t < 1) :
    flatteningToThirdEccentricitySq (thirdEccentricitySqToFlattening t) = t := by
  unfold thirdEccentricitySqToFlattening flatteningToThirdEccentricitySq RealLike.sq
  simp only [lit_real, sqrt_real]; push_cast
  set r := √((1 - t) * (1 + t)) with hr
  have hpos : 0 < (1 - t) * (1 + t) := by nlinarith
  have hr0 : 0 < r := Real.sqrt_pos.mpr hpos
  have hrr : r * r = (1 - t) * (1 + t) := Real.mul_self_sqrt hpos.le
  have hD : 0 < r + 1 + t := by linarith
  have hf1 : (1 : ℝ) - 2 * t / (r + 1 + t) = (r + 1 - t) / (r + 1 + t) := by field_simp; ring
  have hsq : ((r + 1 - t) / (r + 1 + t)) * ((r + 1 - t) / (r + 1 + t)) = (1 - t) / (1 + t) := by
    have e1 : (r + 1 - t) * (r + 1 - t) = 2 * (1 - t) * (1 + r) := by nlinarith
    have e2 : (r + 1 + t) * (r + 1 + t) = 2 * (1 + t) * (1 + r) := by nlinarith
    rw [div_mul_div_comm, e1, e2]
    have : (1 : ℝ) + t ≠ 0 := by linarith
    have : (1 : ℝ) + r ≠ 0 := by linarith
    field_simp
  have hnum : 2 * t / (r + 1 + t) * (2 - 2 * t / (r + 1 + t)) = 1 - ((r + 1 - t) / (r + 1 + t)) * ((r + 1 - t) / (r + 1 + t)) := by
    field_simp; ring
  rw [hf1, hnum, hsq]
  have : (1 : ℝ) + t ≠ 0 := by linarith
  field_simp; ring

/-- `Volume() = 4π a² b / 3` -/
theorem volume_closed_form (a f : ℝ) : volume a f = 4 * π * a ^ 2 * (a * (1 - f)) / 3 := by
  unfold volume ctorB RealLike.sq
  simp only [lit_real]; push_cast
  show (4 * Real.pi) * (a * a) * (a * (1 - f)) / 3 = _
  ring

example : (-1 : ℝ) < 1 / 150 ∧ (-1 : ℝ) < -1 / 300 ∧ (-1 / 300 : ℝ) < 1 := by norm_num


end algebra

/-! ### the series path of `Convert` is odd and fixes the equator and the poles (for every coefficient vector) -/

theorem clenshaw_odd (c : List ℝ) (sz cz : ℝ) : clenshawSin (-sz) cz c = - clenshawSin sz cz c := by
  unfold clenshawSin
  simp only [lit_real]; push_cast
  have hx : (2 : ℝ) * (cz - -sz) * (cz + -sz) = 2 * (cz - sz) * (cz + sz) := by ring
  rw [hx]; ring

theorem clenshaw_equator (c : List ℝ) (cz : ℝ) : clenshawSin 0 cz c = 0 := by
  unfold clenshawSin; simp only [lit_real]; push_cast; ring

theorem clenshaw_pole (c : List ℝ) (sz : ℝ) : clenshawSin sz 0 c = 0 := by
  unfold clenshawSin; simp only [lit_real]; push_cast; ring

/-- `Convert(−ζ) = −Convert(ζ)`; `Convert` maps (0, c) to (0, c) and (s, 0) to (s, 0): the model of the series branch of
    `AuxLatitude::Convert` is odd in the angle and fixes 0 and ±90° exactly, whatever the coefficients are -/
theorem convert_odd_fixes (c : List ℝ) (sz cz : ℝ) :
    convertWith c (-sz) cz = (-(convertWith c sz cz).1, (convertWith c sz cz).2) ∧
    convertWith c 0 cz = (0, cz) ∧ convertWith c sz 0 = (sz, 0) := by
  refine ⟨?_, ?_, ?_⟩
  · unfold convertWith
    rw [clenshaw_odd]
    unfold rotate
    simp only [sin_real, cos_real, eqb_real, ofNat_real, Real.sin_neg, Real.cos_neg, neg_div, neg_eq_zero, Nat.cast_zero]
    split
    · simp
    · simp; ring_nf
  · unfold convertWith
    rw [clenshaw_equator]
    unfold rotate
    simp [ofNat_real]
  · unfold convertWith
    rw [clenshaw_pole]
    unfold rotate
    simp [ofNat_real]

/-- the coefficient vector actually used is `fillcoeff`: instance of the above for the extracted tables -/
example (f cz : ℝ) : convertSeries f 0 3 0 cz = (0, cz) := (convert_odd_fixes _ 0 cz).2.1

/-! ## Part 3: `EllipticFunction` -/

section elliptic
open GeoVerif.Elliptic GeoVerif.Proofs.Jacobi

/-! ### the constants of the source (depend on `Gen/Carlson.lean`, re-extracted on every run) -/

/-- numerator table, denominator, multiplier of the accumulated sum and trip cap of `RF` in the source = those of the model -/
theorem carlson_rf_series_gen (E2 E3 : ℝ) :
    Proofs.CarlsonGen.evalMV Gen.Carlson.rfPoly [E2, E3] = Elliptic.rfTail E2 E3 ∧ Gen.Carlson.rfDen = 240240 ∧ Gen.Carlson.rfSumMul = 0 ∧
    Gen.Carlson.rfTrips = trips := Proofs.CarlsonGen.rf_series E2 E3
theorem carlson_rd_series_gen (E2 E3 E4 E5 : ℝ) :
    Proofs.CarlsonGen.evalMV Gen.Carlson.rdPoly [E2, E3, E4, E5] = Elliptic.rjTail E2 E3 E4 E5 ∧ Gen.Carlson.rdDen = 4084080 ∧ Gen.Carlson.rdSumMul = 3 ∧
    Gen.Carlson.rdTrips = trips := Proofs.CarlsonGen.rd_series E2 E3 E4 E5
theorem carlson_rj_series_gen (E2 E3 E4 E5 : ℝ) :
    Proofs.CarlsonGen.evalMV Gen.Carlson.rjPoly [E2, E3, E4, E5] = Elliptic.rjTail E2 E3 E4 E5 ∧ Gen.Carlson.rjDen = 4084080 ∧ Gen.Carlson.rjSumMul = 6 ∧
    Gen.Carlson.rjTrips = trips := Proofs.CarlsonGen.rj_series E2 E3 E4 E5
/-- the means `A0` of the source are `(x+y+z)/3`, `(x+y+3z)/5`, `(x+y+z+2p)/5` -/
theorem carlson_means_gen (x y z p : ℝ) :
    Proofs.CarlsonGen.evalLin Gen.Carlson.rfMean [x, y, z] = (x + y + z) / 3 ∧
    Proofs.CarlsonGen.evalLin Gen.Carlson.rdMean [x, y, z] = (x + y + 3 * z) / 5 ∧
    Proofs.CarlsonGen.evalLin Gen.Carlson.rjMean [x, y, z, p] = (x + y + z + 2 * p) / 5 := Proofs.CarlsonGen.means x y z p
/-- `E₂ … E₅` of the source, as polynomials in the independent deviations, are those of the model -/
theorem carlson_edefs_gen (X Y Z : ℝ) :
    (Gen.Carlson.rfEdefs.map fun p => Proofs.CarlsonGen.evalMVq p [X, Y]) = [X * Y - (-(X + Y)) * (-(X + Y)), X * Y * (-(X + Y))] ∧
    (Gen.Carlson.rdEdefs.map fun p => Proofs.CarlsonGen.evalMVq p [X, Y]) = [(rdE X Y).1, (rdE X Y).2.1, (rdE X Y).2.2.1, (rdE X Y).2.2.2] ∧
    (Gen.Carlson.rjEdefs.map fun p => Proofs.CarlsonGen.evalMVq p [X, Y, Z]) = [(rjE X Y Z).1, (rjE X Y Z).2.1, (rjE X Y Z).2.2.1, (rjE X Y Z).2.2.2] :=
  Proofs.CarlsonGen.edefs X Y Z
theorem carlson_deps_gen :
    Gen.Carlson.rfDep = [[-1, -1]] ∧ Gen.Carlson.rdDep = [[-1 / 3, -1 / 3]] ∧ Gen.Carlson.rjDep = [[-1 / 2, -1 / 2, -1 / 2]] :=
  Proofs.CarlsonGen.deps
/-- every tolerance, trip cap and `num_` of the source is the one of the model -/
theorem carlson_tolerances_gen :
    (tolRF : ℝ) ^ Gen.Carlson.tolRFpow = (Gen.Carlson.tolRFcoef : ℝ) * RealX.eps ∧
    (tolRD : ℝ) ^ Gen.Carlson.tolRDpow = (Gen.Carlson.tolRDcoef : ℝ) * RealX.eps ∧
    (tolRD : ℝ) ^ Gen.Carlson.tolRJpow = (Gen.Carlson.tolRJcoef : ℝ) * RealX.eps ∧
    (tolRG0 : ℝ) = (Gen.Carlson.tolRF2fac : ℝ) * √((Gen.Carlson.tolRF2eps : ℝ) * RealX.eps) ∧
    (tolRG0 : ℝ) = (Gen.Carlson.tolRG2fac : ℝ) * √((Gen.Carlson.tolRG2eps : ℝ) * RealX.eps) ∧
    (tolJAC : ℝ) = (Gen.Carlson.tolJACSncndnfac : ℝ) * √((Gen.Carlson.tolJACSncndneps : ℝ) * RealX.eps) ∧
    (tolJAC : ℝ) = (Gen.Carlson.tolJACEinvfac : ℝ) * √((Gen.Carlson.tolJACEinveps : ℝ) * RealX.eps) ∧
    Gen.Carlson.tolJACamExp = 3 / 4 ∧ (tolJACam : ℝ) ^ 4 = RealX.eps ^ 3 ∧
    Gen.Carlson.rf2Trips = trips ∧ Gen.Carlson.rg2Trips = trips ∧ Gen.Carlson.num = num := Proofs.CarlsonGen.tolerances

/-- the Horner form in `RF` is DLMF 19.36.1 -/
theorem rf_tail (E2 E3 : ℝ) :
    Elliptic.rfTail E2 E3 = 240240 * (1 - E2 / 10 + E3 / 14 + E2 ^ 2 / 24 - 3 * E2 * E3 / 44 - 5 * E2 ^ 3 / 208 + 3 * E3 ^ 2 / 104 + E2 ^ 2 * E3 / 16) := by
  unfold Elliptic.rfTail; simp only [lit_real]; push_cast; ring

/-- the Horner form in `RD` and `RJ` is DLMF 19.36.2 -/
theorem rj_tail (E2 E3 E4 E5 : ℝ) :
    Elliptic.rjTail E2 E3 E4 E5 = 4084080 * (1 - 3 * E2 / 14 + E3 / 6 + 9 * E2 ^ 2 / 88 - 3 * E4 / 22 - 9 * E2 * E3 / 52 + 3 * E5 / 26
      - E2 ^ 3 / 16 + 3 * E3 ^ 2 / 40 + 3 * E2 * E4 / 20 + 45 * E2 ^ 2 * E3 / 272 - 9 * (E3 * E4 + E2 * E5) / 68) := by
  unfold Elliptic.rjTail; simp only [lit_real]; push_cast; ring

/-! ### Carlson's duplication loops -/

theorem carlson_tolRF : (tolRF : ℝ) ^ 8 = 3 / 100 * (1 / 2 ^ 52) ∧ (0 : ℝ) < tolRF :=
  Proofs.Carlson.tolRF_pow

theorem carlson_tolRD : (tolRD : ℝ) ^ 8 = 1 / 500 * (1 / 2 ^ 52) ∧ (0 : ℝ) < tolRD :=
  Proofs.Carlson.tolRD_pow

/-- `x + λ = (√x + √y)(√x + √z)` and cyclically: the duplicated arguments are positive unless two arguments vanish -/
theorem carlson_lam_factor (x y z : ℝ) (hx : 0 ≤ x) (hy : 0 ≤ y) (hz : 0 ≤ z) :
    x + lam x y z = (√x + √y) * (√x + √z) ∧ y + lam x y z = (√y + √z) * (√y + √x) ∧
    z + lam x y z = (√z + √x) * (√z + √y) :=
  Proofs.Carlson.lam_factor x y z hx hy hz

/-- a trip of `RF`: the deviations from `An` shrink by exactly 4, `mul` grows by 4 -/
theorem rf_step_deviation (s : Dup ℝ) :
    (rfStep s).An - (rfStep s).x0 = (s.An - s.x0) / 4 ∧ (rfStep s).An - (rfStep s).y0 = (s.An - s.y0) / 4 ∧
    (rfStep s).An - (rfStep s).z0 = (s.An - s.z0) / 4 ∧ (rfStep s).mul = s.mul * 4 :=
  Proofs.Carlson.rfStep_dev s

/-- a trip of `RF` keeps `An` the mean of the arguments -/
theorem rf_step_mean (s : Dup ℝ) (h : s.An = (s.x0 + s.y0 + s.z0) / 3) :
    (rfStep s).An = ((rfStep s).x0 + (rfStep s).y0 + (rfStep s).z0) / 3 :=
  Proofs.Carlson.rfStep_mean s h

/-- a trip of `RF` maps non-negative arguments, at most one of them zero, to positive ones -/
theorem rf_step_positive (s : Dup ℝ) (hx : 0 ≤ s.x0) (hy : 0 ≤ s.y0) (hz : 0 ≤ s.z0)
    (h2 : 0 < s.x0 + s.y0 ∧ 0 < s.y0 + s.z0 ∧ 0 < s.z0 + s.x0) :
    0 < (rfStep s).x0 ∧ 0 < (rfStep s).y0 ∧ 0 < (rfStep s).z0 :=
  Proofs.Carlson.rfStep_pos s hx hy hz h2

/-- the invariant of the loop, for every trip budget: after the loop `mul · (An − x0)` is what it was before -/
theorem rf_loop_invariant (Q : ℝ) (n : ℕ) (s : Dup ℝ) :
    (rfLoop Q n s).mul * ((rfLoop Q n s).An - (rfLoop Q n s).x0) = s.mul * (s.An - s.x0) ∧
    (rfLoop Q n s).mul * ((rfLoop Q n s).An - (rfLoop Q n s).y0) = s.mul * (s.An - s.y0) ∧
    (rfLoop Q n s).mul * ((rfLoop Q n s).An - (rfLoop Q n s).z0) = s.mul * (s.An - s.z0) ∧
    ∃ m : ℕ, m ≤ n ∧ (rfLoop Q n s).mul = s.mul * 4 ^ m :=
  Proofs.Carlson.rfLoop_inv Q n s

theorem rf_loop_mean (Q : ℝ) (n : ℕ) (s : Dup ℝ) (h : s.An = (s.x0 + s.y0 + s.z0) / 3) :
    (rfLoop Q n s).An = ((rfLoop Q n s).x0 + (rfLoop Q n s).y0 + (rfLoop Q n s).z0) / 3 :=
  Proofs.Carlson.rfLoop_mean Q n s h

theorem rf_loop_positive (Q : ℝ) (n : ℕ) (s : Dup ℝ) (hx : 0 ≤ s.x0) (hy : 0 ≤ s.y0) (hz : 0 ≤ s.z0)
    (h2 : 0 < s.x0 + s.y0 ∧ 0 < s.y0 + s.z0 ∧ 0 < s.z0 + s.x0) :
    0 ≤ (rfLoop Q n s).x0 ∧ 0 ≤ (rfLoop Q n s).y0 ∧ 0 ≤ (rfLoop Q n s).z0 ∧
    0 < (rfLoop Q n s).x0 + (rfLoop Q n s).y0 ∧ 0 < (rfLoop Q n s).y0 + (rfLoop Q n s).z0 ∧
    0 < (rfLoop Q n s).z0 + (rfLoop Q n s).x0 :=
  Proofs.Carlson.rfLoop_pos Q n s hx hy hz h2

/-- the loop ends either because its test failed or because the trip budget is used up -/
theorem rf_loop_exit (Q : ℝ) (n : ℕ) (s : Dup ℝ) :
    ¬ ((rfLoop Q n s).mul * |(rfLoop Q n s).An| ≤ Q) ∨ (rfLoop Q n s).mul = s.mul * 4 ^ n :=
  Proofs.Carlson.rfLoop_exit Q n s

/-- `X = (A0 − x)/(mul·An)` computed from the original arguments is the relative deviation `(An − x0)/An` of the current
    ones (for `RF`: `A0 = (x+y+z)/3`, `mul = 1` initially) -/
theorem rf_deviation_is_relative (x y z : ℝ) (hA : (rfRun x y z).An ≠ 0) :
    let A0 := (x + y + z) / 3
    let s := rfRun x y z
    (A0 - x) / (s.mul * s.An) = (s.An - s.x0) / s.An ∧ (A0 - y) / (s.mul * s.An) = (s.An - s.y0) / s.An ∧
    -((A0 - x) / (s.mul * s.An) + (A0 - y) / (s.mul * s.An)) = (s.An - s.z0) / s.An :=
  Proofs.Carlson.rf_X_eq x y z hA

/-- if the loop of `RF` ended through its test (not through the trip cap), the three relative deviations are below
    `tolRF`, hence their eighth powers below `3ε/100` -/
theorem rf_exit_bound (x y z : ℝ)
    (hexit : ¬ ((rfRun x y z).mul * |(rfRun x y z).An| ≤ rfQ x y z)) :
    let A0 := (x + y + z) / 3
    let s := rfRun x y z
    |(A0 - x) / (s.mul * s.An)| < tolRF ∧ |(A0 - y) / (s.mul * s.An)| < tolRF ∧ |(A0 - z) / (s.mul * s.An)| < tolRF :=
  Proofs.Carlson.rf_exit_bound x y z hexit

/-- the eighth-power form of `rf_exit_bound`: each relative deviation satisfies `|X|⁸ < 3ε/100` -/
theorem rf_exit_bound_pow8 (x y z : ℝ)
    (hexit : ¬ ((rfRun x y z).mul * |(rfRun x y z).An| ≤ rfQ x y z)) :
    let A0 := (x + y + z) / 3
    let s := rfRun x y z
    |(A0 - x) / (s.mul * s.An)| ^ 8 < 3 / 100 * (1 / 2 ^ 52) ∧ |(A0 - y) / (s.mul * s.An)| ^ 8 < 3 / 100 * (1 / 2 ^ 52) ∧
    |(A0 - z) / (s.mul * s.An)| ^ 8 < 3 / 100 * (1 / 2 ^ 52) :=
  Proofs.Carlson.rf_exit_bound_pow8 x y z hexit

/-- the model of `RF(x, y, z)` is symmetric under every permutation of its arguments (the code is not syntactically
    symmetric: `Z` is formed as `−(X+Y)`) -/
theorem rf_symmetric (x y z : ℝ) : rf3 x y z = rf3 y x z ∧ rf3 x y z = rf3 x z y :=
  Proofs.Carlson.rf3_symm x y z

theorem rd_step_deviation (s : Dup ℝ) (sm : ℝ) :
    (rdStep s sm).1.An - (rdStep s sm).1.x0 = (s.An - s.x0) / 4 ∧ (rdStep s sm).1.An - (rdStep s sm).1.y0 = (s.An - s.y0) / 4 ∧
    (rdStep s sm).1.An - (rdStep s sm).1.z0 = (s.An - s.z0) / 4 ∧ (rdStep s sm).1.mul = s.mul * 4 :=
  Proofs.Carlson.rdStep_dev s sm

/-- a trip of `RD` keeps `An` the weighted mean `(x + y + 3z)/5` -/
theorem rd_step_mean (s : Dup ℝ) (sm : ℝ) (h : s.An = (s.x0 + s.y0 + 3 * s.z0) / 5) :
    (rdStep s sm).1.An = ((rdStep s sm).1.x0 + (rdStep s sm).1.y0 + 3 * (rdStep s sm).1.z0) / 5 :=
  Proofs.Carlson.rdStep_mean s sm h

theorem rd_loop_invariant (Q : ℝ) (n : ℕ) (s : Dup ℝ) (sm : ℝ) :
    let t := (rdLoop Q n s sm).1
    t.mul * (t.An - t.x0) = s.mul * (s.An - s.x0) ∧ t.mul * (t.An - t.y0) = s.mul * (s.An - s.y0) ∧
    t.mul * (t.An - t.z0) = s.mul * (s.An - s.z0) ∧ (s.An = (s.x0 + s.y0 + 3 * s.z0) / 5 → t.An = (t.x0 + t.y0 + 3 * t.z0) / 5) :=
  Proofs.Carlson.rdLoop_inv Q n s sm

/-- the model of `RD(x, y, z)` is symmetric in its first two arguments -/
theorem rd_symmetric (x y z : ℝ) : rd x y z = rd y x z :=
  Proofs.Carlson.rd_symm x y z

/-- `E₂ … E₅` of `RD` are the elementary symmetric functions of the five deviations `X, Y, Z, Z, Z` (`Z = −(X+Y)/3`) -/
theorem rd_elementary_symmetric (X Y : ℝ) :
    let Z := -(X + Y) / 3
    rdE X Y = (X * Y + 3 * (X + Y) * Z + 3 * Z ^ 2,
               3 * X * Y * Z + 3 * (X + Y) * Z ^ 2 + Z ^ 3,
               3 * X * Y * Z ^ 2 + (X + Y) * Z ^ 3,
               X * Y * Z ^ 3) :=
  Proofs.Carlson.rdE_symmetric X Y

theorem rj_step_deviation (d : ℝ) (s : DupJ ℝ) :
    (rjStep d s).An - (rjStep d s).x0 = (s.An - s.x0) / 4 ∧ (rjStep d s).An - (rjStep d s).y0 = (s.An - s.y0) / 4 ∧
    (rjStep d s).An - (rjStep d s).z0 = (s.An - s.z0) / 4 ∧ (rjStep d s).An - (rjStep d s).p0 = (s.An - s.p0) / 4 ∧
    (rjStep d s).mul = s.mul * 4 ∧ (rjStep d s).mul3 = s.mul3 * 64 :=
  Proofs.Carlson.rjStep_dev d s

/-- a trip of `RJ` keeps `An` the weighted mean `(x + y + z + 2p)/5` -/
theorem rj_step_mean (d : ℝ) (s : DupJ ℝ) (h : s.An = (s.x0 + s.y0 + s.z0 + 2 * s.p0) / 5) :
    (rjStep d s).An = ((rjStep d s).x0 + (rjStep d s).y0 + (rjStep d s).z0 + 2 * (rjStep d s).p0) / 5 :=
  Proofs.Carlson.rjStep_mean d s h

theorem rj_loop_invariant (Q d : ℝ) (n : ℕ) (s : DupJ ℝ) :
    let t := rjLoop Q d n s
    t.mul * (t.An - t.x0) = s.mul * (s.An - s.x0) ∧ t.mul * (t.An - t.y0) = s.mul * (s.An - s.y0) ∧
    t.mul * (t.An - t.z0) = s.mul * (s.An - s.z0) ∧ t.mul * (t.An - t.p0) = s.mul * (s.An - s.p0) ∧
    (s.mul3 = s.mul ^ 3 → t.mul3 = t.mul ^ 3) ∧
    (s.An = (s.x0 + s.y0 + s.z0 + 2 * s.p0) / 5 → t.An = (t.x0 + t.y0 + t.z0 + 2 * t.p0) / 5) :=
  Proofs.Carlson.rjLoop_inv Q d n s

/-- the model of `RJ(x, y, z, p)` is symmetric under every permutation of its first three arguments -/
theorem rj_symmetric (x y z p : ℝ) : rj x y z p = rj y x z p ∧ rj x y z p = rj x z y p :=
  Proofs.Carlson.rj_symm x y z p

/-- `E₂ … E₅` of `RJ` are the elementary symmetric functions of the five deviations `X, Y, Z, P, P` (`P = −(X+Y+Z)/2`) -/
theorem rj_elementary_symmetric (X Y Z : ℝ) :
    let P := -(X + Y + Z) / 2
    rjE X Y Z = (X * Y + X * Z + Y * Z + 2 * (X + Y + Z) * P + P ^ 2,
                 X * Y * Z + 2 * (X * Y + X * Z + Y * Z) * P + (X + Y + Z) * P ^ 2,
                 2 * X * Y * Z * P + (X * Y + X * Z + Y * Z) * P ^ 2,
                 X * Y * Z * P ^ 2) :=
  Proofs.Carlson.rjE_symmetric X Y Z

/-- in `RJ` the quantity `d0 = (√p+√x)(√p+√y)(√p+√z)` of a trip satisfies `δₙ₊₁ = δₙ/64` for
    `δ = (p−x)(p−y)(p−z)` of the current arguments: this is why `e0 = δ/(mul3·d0²)` uses the *original* `δ` -/
theorem rj_step_delta (d : ℝ) (s : DupJ ℝ) :
    ((rjStep d s).p0 - (rjStep d s).x0) * ((rjStep d s).p0 - (rjStep d s).y0) * ((rjStep d s).p0 - (rjStep d s).z0) =
      (s.p0 - s.x0) * (s.p0 - s.y0) * (s.p0 - s.z0) / 64 :=
  Proofs.Carlson.rjStep_delta d s

/-- after the permutation of `RG(x, y, z)` the third argument lies between the other two, and the arguments are the same
    up to order -/
theorem rg_median (x y z : ℝ) :
    let r := rgPerm x y z
    (r.1 - r.2.2) * (r.2.1 - r.2.2) ≤ 0 ∧
    ((r = (x, y, z)) ∨ (r = (z, y, x)) ∨ (r = (x, z, y))) :=
  Proofs.Carlson.rgPerm_median x y z

/-- the circular closed form (`0 < x < y`) satisfies the degenerate duplication theorem
    `R_C(x, y) = 2 R_C(x + λ, y + λ)`, `λ = y + 2√x√y` -/
theorem rc_duplication_circular (x y : ℝ) (hx : 0 < x) (hxy : x < y) :
    rc x y = 2 * rc (x + (y + 2 * √x * √y)) (y + (y + 2 * √x * √y)) :=
  Proofs.Carlson.rc_dup_atan x y hx hxy

/-- the hyperbolic closed form (`0 < y < x`) satisfies it too -/
theorem rc_duplication_hyperbolic (x y : ℝ) (hy : 0 < y) (hxy : y < x) :
    rc x y = 2 * rc (x + (y + 2 * √x * √y)) (y + (y + 2 * √x * √y)) :=
  Proofs.Carlson.rc_dup_asinh x y hy hxy

/-- and so does the value on the diagonal -/
theorem rc_duplication_diagonal (y : ℝ) (hy : 0 < y) : rc y y = 2 * rc (y + (y + 2 * √y * √y)) (y + (y + 2 * √y * √y)) :=
  Proofs.Carlson.rc_dup_diag y hy

/-! ### `sncndn`, the frame of the incomplete integrals, the period handling, `Ed`, `Einv` -/

/-- one descending Landen step (one pass through the body of `while (l--)`) preserves the relation -/
theorem landen_step (a b c d : ℝ) (ha : 0 < a) (hb : 0 < b)
    (h : LandenInv ((a + b) / 2) (b * a) c d) :
    let α := c / ((a + b) / 2)
    LandenInv a (b ^ 2) (c * d) ((b + α * c) / (a + α * c)) :=
  Proofs.Jacobi.landen_step a b c d ha hb h

/-- the descending loop preserves the relation along an AGM chain of any depth -/
theorem landen_descent (st : List (ℝ × ℝ)) (aN bN2 c d : ℝ) (hch : IsChain st aN bN2) (haN : 0 < aN)
    (h : LandenInv aN bN2 c d) :
    LandenInv (outer st aN bN2).1 (outer st aN bN2).2 (landenDesc st (c / aN) c d).1 (landenDesc st (c / aN) c d).2 :=
  Proofs.Jacobi.landenDesc_inv st aN bN2 c d hch haN h

/-- the ascending loop produces an AGM chain: on success the stack is a chain whose next inner term is
    `(c, b_L·a_L)` with `c = (a_L + b_L)/2`, its outermost level is the one the loop started from, and the exit test holds
    at the innermost level -/
theorem agm_ascent_chain (n : ℕ) (a mc : ℝ) (st st' : List (ℝ × ℝ)) (c : ℝ) (ha : 0 < a) (hmc : 0 < mc)
    (hst : IsChain st a mc) (h : agmAsc n a mc st = some (st', c)) :
    ∃ aL bL rest, st' = (aL, bL) :: rest ∧ c = (aL + bL) / 2 ∧ IsChain st' c (bL * aL) ∧ 0 < c ∧
      outer st' c (bL * aL) = outer st a mc ∧ |aL - bL| ≤ tolJAC * aL :=
  Proofs.Jacobi.agmAsc_chain n a mc st st' c ha hmc hst h

/-- `sn² + cn² = 1` for every parameter and argument -/
theorem sncndn_unit_circle (e : Par ℝ) (x sn cn dn : ℝ) (h : sncndn e x = some (sn, cn, dn)) : sn ^ 2 + cn ^ 2 = 1 :=
  Proofs.Jacobi.sncndn_unit e x sn cn dn h

/-- from any seed `(c, d)` that satisfies the relation at the innermost level, the descending loop followed by the final
    normalisation `sn = 1/√(c²+1)`, `cn = c·sn` gives `dn² = cn² + k'² sn²` exactly, for every depth of the AGM stack
    produced by the ascending loop -/
theorem sncndn_dn_identity (kp2 : ℝ) (hk : 0 < kp2) (st rest : List (ℝ × ℝ)) (c0 aL bL cs d : ℝ)
    (hasc : agmAsc num 1 kp2 [] = some (st, c0)) (hst : st = (aL, bL) :: rest) (hinv : LandenInv c0 (bL * aL) cs d) :
    let r := landenDesc st (cs / c0) cs d
    let sn := 1 / √(r.1 * r.1 + 1)
    r.2 ^ 2 = (r.1 * sn) ^ 2 + kp2 * sn ^ 2 :=
  Proofs.Jacobi.sncndn_dn_of_seed kp2 hk st rest c0 aL bL cs d hasc hst hinv

/-- the seed `dn = 1` of the code misses the relation at the innermost level by exactly `((a_L − b_L)/2)²` -/
theorem sncndn_seed_defect (aL bL c : ℝ) :
    1 ^ 2 * (c ^ 2 + ((aL + bL) / 2) ^ 2) - (c ^ 2 + bL * aL) = ((aL - bL) / 2) ^ 2 :=
  Proofs.Jacobi.seed_defect aL bL c

/-- for `k² = 1` (`k'² = 0`) the closed forms satisfy both identities -/
theorem sncndn_k1 (e : Par ℝ) (hk : e.kp2 = 0) (x sn cn dn : ℝ) (h : sncndn e x = some (sn, cn, dn)) :
    sn ^ 2 + cn ^ 2 = 1 ∧ dn ^ 2 = cn ^ 2 + e.kp2 * sn ^ 2 :=
  Proofs.Jacobi.sncndn_k1 e hk x sn cn dn h

/-- oddness in `sn`, for every first-quadrant kernel even in `sn` -/
theorem wrap_odd (c : ℝ) (g : ℝ → ℝ → ℝ) (hs : ∀ s t, g (-s) t = g s t) (sn cn : ℝ) (hsn : sn ≠ 0) :
    wrap c (g (-sn) cn) (-sn) cn = - wrap c (g sn cn) sn cn :=
  Proofs.Jacobi.wrap_odd c g hs sn cn hsn

/-- reflection about `π/2`, for every kernel even in `cn` with values in `[0, 2c]` -/
theorem wrap_reflect (c : ℝ) (g : ℝ → ℝ → ℝ) (hc : ∀ s t, g s (-t) = g s t) (sn cn : ℝ) (hsn : 0 < sn) (hcn : 0 < cn)
    (h0 : 0 ≤ g sn cn) (h2 : g sn cn ≤ 2 * c) :
    wrap c (g sn (-cn)) sn (-cn) = 2 * c - wrap c (g sn cn) sn cn :=
  Proofs.Jacobi.wrap_reflect c g hc sn cn hsn hcn h0 h2

/-- the six Carlson kernels are even in `sn` and in `cn` -/
theorem core_even (e : Par ℝ) (k : Kind) (sn cn dn : ℝ) :
    core e k (-sn) cn dn = core e k sn cn dn ∧ core e k sn (-cn) dn = core e k sn cn dn :=
  Proofs.Jacobi.core_even e k sn cn dn

theorem delta_even (e : Par ℝ) (sn cn : ℝ) : delta e (-sn) cn = delta e sn cn ∧ delta e sn (-cn) = delta e sn cn :=
  Proofs.Jacobi.delta_even e sn cn

/-- `F(−sn, cn, dn) = −F(sn, cn, dn)` and the same for `E, D, Pi, G, H` -/
theorem incomplete_odd (e : Par ℝ) (k : Kind) (sn cn dn : ℝ) (hsn : sn ≠ 0) : inc e k (-sn) cn dn = - inc e k sn cn dn :=
  Proofs.Jacobi.inc_odd e k sn cn dn hsn

/-- `X(sn, −cn, dn) = 2X() − X(sn, cn, dn)` in the first quadrant, when the Carlson expression lies in `[0, 2X()]` -/
theorem incomplete_reflect (e : Par ℝ) (k : Kind) (sn cn dn : ℝ) (hsn : 0 < sn) (hcn : 0 < cn)
    (h0 : 0 ≤ core e k sn cn dn) (h2 : core e k sn cn dn ≤ 2 * comp e k) :
    inc e k sn (-cn) dn = 2 * comp e k - inc e k sn cn dn :=
  Proofs.Jacobi.inc_reflect e k sn cn dn hsn hcn h0 h2

/-- the periodic part has period `π` for every `X` whatsoever -/
theorem periodic_part_period (X : ℝ → ℝ → ℝ → ℝ) (c sn cn dn : ℝ) (hcn : cn ≠ 0) :
    deltaWith X c (-sn) (-cn) dn = deltaWith X c sn cn dn :=
  Proofs.Jacobi.deltaWith_neg X c sn cn dn hcn

/-- beyond `±π` on both sides a half turn adds `2c`, for every `X` whatsoever (`cos φ ≠ 0`) -/
theorem period_far (e : Par ℝ) (X : ℝ → ℝ → ℝ → ℝ) (c φ : ℝ) (h1 : π ≤ |φ|) (h2 : π ≤ |φ + π|) (hcos : cos φ ≠ 0) :
    phiWith e X c (φ + π) = phiWith e X c φ + 2 * c :=
  Proofs.Jacobi.phiWith_period_far e X c φ h1 h2 hcos

/-- `X(φ + π) = X(φ) + 2c` for every `φ`, through all the branches of the period handling, for the frame `wrap` around
    every kernel `g` that is even in `sn`, `cn` and takes values in `[0, 2c]`, `c > 0` -/
theorem period_every_kernel (e : Par ℝ) (c : ℝ) (g : ℝ → ℝ → ℝ → ℝ) (hc : 0 < c)
    (hs : ∀ s t d, g (-s) t d = g s t d) (ht : ∀ s t d, g s (-t) d = g s t d)
    (hg : ∀ s t d, 0 ≤ g s t d ∧ g s t d ≤ 2 * c) (φ : ℝ) :
    phiWith e (fun sn cn dn => wrap c (g sn cn dn) sn cn) c (φ + π) =
      phiWith e (fun sn cn dn => wrap c (g sn cn dn) sn cn) c φ + 2 * c :=
  Proofs.Jacobi.phiWith_period e c g hc hs ht hg φ

/-- the same for the six integrals of the model -/
theorem incomplete_period (e : Par ℝ) (k : Kind) (hc : 0 < comp e k)
    (hg : ∀ s t d, 0 ≤ core e k s t d ∧ core e k s t d ≤ 2 * comp e k) (φ : ℝ) :
    phiWith e (inc e k) (comp e k) (φ + π) = phiWith e (inc e k) (comp e k) φ + 2 * comp e k :=
  Proofs.Jacobi.incPhi_period e k hc hg φ

/-- `incPhi` is `phiWith` outside the shortcuts for `k² = 0` and `k² = 1` -/
theorem incPhi_general_branch (e : Par ℝ) (k : Kind) (hk : e.k2 ≠ 0) (hkp : e.kp2 ≠ 0) (φ : ℝ) :
    incPhi e k φ = phiWith e (inc e k) (comp e k) φ :=
  Proofs.Jacobi.incPhi_eq_phiWith e k hk hkp φ

/-- `Ed`: one more turn adds `4E` -/
theorem ed_turn (e : Par ℝ) (n sn cn : ℝ) : edWith e (n + 1) sn cn = edWith e n sn cn + 4 * e.eEc :=
  Proofs.Jacobi.edWith_turn e n sn cn

theorem einv_reduce_shift (e : Par ℝ) (x : ℝ) (hE : e.eEc ≠ 0) :
    einvReduce e (x + 2 * e.eEc) = ((einvReduce e x).1 + 1, (einvReduce e x).2) :=
  Proofs.Jacobi.einvReduce_shift e x hE

/-- `Einv(x + 2E) = Einv(x) + π` -/
theorem einv_period (e : Par ℝ) (x : ℝ) (hE : e.eEc ≠ 0) : einv e (x + 2 * e.eEc) = (einv e x).map (· + π) :=
  Proofs.Jacobi.einv_period e x hE

/-- the reduced argument lies in `[−E, E)` -/
theorem einv_reduce_range (e : Par ℝ) (x : ℝ) (hE : 0 < e.eEc) :
    -e.eEc ≤ (einvReduce e x).2 ∧ (einvReduce e x).2 < e.eEc :=
  Proofs.Jacobi.einvReduce_range e x hE

/-- when the Newton loop of `Einv` ends, the last iterate `φ` satisfies `|E(φ) − x| ≤ tolJAC·min(1, |result|)·Δ(φ)` (the
    stopping test is relative to the angle for small angles, /repo 84b53d7), and the returned value is `φ` minus a correction
    of at most `tolJAC·min(1, |result|)`; in particular a fixed point (`correction = 0`) solves `E(φ) = x` -/
theorem einv_newton_residual (e : Par ℝ) (x : ℝ) (n : ℕ) (φ0 r : ℝ) (h : einvLoop e x n φ0 = some r) :
    ∃ φ : ℝ,
      let dn := delta e (sin φ) (cos φ)
      let err := (inc e .E (sin φ) (cos φ) dn - x) / dn
      r = φ - err ∧ |err| ≤ tolJAC * min 1 |r| ∧ |err| ≤ tolJAC ∧
      (dn ≠ 0 → |inc e .E (sin φ) (cos φ) dn - x| ≤ tolJAC * min 1 |r| * |dn|) ∧
      (dn ≠ 0 → r = φ → inc e .E (sin φ) (cos φ) dn = x) :=
  Proofs.Jacobi.einvLoop_residual e x n φ0 r h

/-- `deltaEinv` has period `π` -/
theorem deltaEinv_period (e : Par ℝ) (stau ctau : ℝ) (hc : ctau ≠ 0) : deltaEinv e (-stau) (-ctau) = deltaEinv e stau ctau :=
  Proofs.Jacobi.deltaEinv_neg e stau ctau hc

/-! ### non-vacuity: concrete instances of the hypotheses used above -/

/-- `rf_exit_bound`: on equal arguments the loop of `RF` ends through its test at once -/
example : ¬ ((rfRun (1 : ℝ) 1 1).mul * |(rfRun (1 : ℝ) 1 1).An| ≤ rfQ (1 : ℝ) 1 1) := by
  have hQ : rfQ (1 : ℝ) 1 1 = 0 := by
    unfold rfQ max3; simp only [lit_real, abs_real]; norm_num [RealLike.max]
  have hR : rfRun (1 : ℝ) 1 1 = ⟨(1 + 1 + 1) / 3, 1, 1, 1, 1⟩ := by
    unfold rfRun; rw [hQ]; unfold trips; simp only [rfLoop, lit_real, leb_real, abs_real]; norm_num
  rw [hR, hQ]; norm_num

/-- `agm_ascent_chain`, `sncndn_dn_identity`: the ascending AGM loop succeeds (here for `k'² = 1`) -/
example : agmAsc num (1 : ℝ) 1 [] = some ([((1 : ℝ), (1 : ℝ))], 1) := by
  have ht : (0 : ℝ) ≤ tolJAC := by unfold tolJAC; simp only [sqrt_real]; exact Real.sqrt_nonneg _
  show agmAsc (24 + 1) (1 : ℝ) 1 [] = _
  unfold agmAsc
  simp only [sqrt_real, Real.sqrt_one, lit_real, ltb_real, abs_real]
  norm_num [ht]
example : LandenInv (1 : ℝ) (1 * 1) 2 1 := by unfold LandenInv; norm_num
/-- `landen_step`: a non-degenerate level (`a = 4`, `b = 1`) with a seed satisfying the relation -/
example : LandenInv ((4 + 1) / 2 : ℝ) (1 * 4) 0 (4 / 5) := by unfold LandenInv; norm_num
/-- `sncndn_unit_circle`, `sncndn_k1`: `sncndn` returns a value (here the closed forms for `k² = 1`) -/
example (x : ℝ) : sncndn (⟨1, 0, 0, 1, 1, 0, 1, 0, 0, 1, 1⟩ : Par ℝ) x = some (Real.tanh x, 1 / Real.cosh x, 1 / Real.cosh x) := by
  unfold sncndn; simp [eqb_real, lit_real]
/-- `period_every_kernel`, `wrap_reflect`: a kernel satisfying the contract -/
example : (0 : ℝ) < 1 ∧ ∀ s t d : ℝ, (0 : ℝ) ≤ (fun _ _ _ => (1 / 2 : ℝ)) s t d ∧ (fun _ _ _ => (1 / 2 : ℝ)) s t d ≤ 2 * 1 := by
  refine ⟨by norm_num, fun _ _ _ => ⟨by norm_num, by norm_num⟩⟩
/-- `einv_newton_residual`: the Newton loop of `Einv` returns (here: started at a solution) -/
example (e : Par ℝ) (φ0 : ℝ) :
    einvLoop e (inc e .E (Real.sin φ0) (Real.cos φ0) (delta e (Real.sin φ0) (Real.cos φ0))) 1 φ0 = some φ0 := by
  have ht : (0 : ℝ) ≤ tolJAC := by unfold tolJAC; simp only [sqrt_real]; exact Real.sqrt_nonneg _
  have hm : (0 : ℝ) ≤ tolJAC * RealLike.min 1 |φ0| := mul_nonneg ht (le_min zero_le_one (abs_nonneg _))
  unfold einvLoop
  simp only [sin_real, cos_real, sub_self, zero_div, abs_real, abs_zero, ltb_real, sub_zero, lit_real, Nat.cast_one]
  simp [not_lt.mpr hm]
example : (0 : ℝ) < 1 ∧ (1 : ℝ) < 2 := by norm_num

end elliptic

/-! ## Part 4: `AuxAngle`, exact `AuxLatitude`, `Ellipsoid` -/

section auxexact
open GeoVerif.Elliptic GeoVerif.AuxExact

/-- `normalized()` puts the pair on the unit circle without changing its direction -/
theorem auxangle_normalized (p : Ang ℝ) (h0 : p.x ≠ 0 ∨ p.y ≠ 0) (hb : ¬ ((maxHalf : ℝ) < |p.y| ∧ (maxHalf : ℝ) < |p.x|)) :
    p.normalized.y ^ 2 + p.normalized.x ^ 2 = 1 ∧
    p.normalized.y = p.y / √(p.y ^ 2 + p.x ^ 2) ∧ p.normalized.x = p.x / √(p.y ^ 2 + p.x ^ 2) :=
  Proofs.AuxExactP.normalized_spec p h0 hb

/-- a pair on the unit circle is its own normalisation -/
theorem auxangle_normalized_idem (p : Ang ℝ) (h : p.y ^ 2 + p.x ^ 2 = 1) : p.normalized = p :=
  Proofs.AuxExactP.normalized_of_unit p h

/-- `copyquadrant` keeps the magnitudes and takes the signs of the other pair -/
theorem auxangle_copyquadrant (p q : Ang ℝ) :
    |(p.copyquadrant q).y| = |p.y| ∧ |(p.copyquadrant q).x| = |p.x| ∧
    (q.y < 0 → (p.copyquadrant q).y ≤ 0) ∧ (0 ≤ q.y → 0 ≤ (p.copyquadrant q).y) ∧
    (q.x < 0 → (p.copyquadrant q).x ≤ 0) ∧ (0 ≤ q.x → 0 ≤ (p.copyquadrant q).x) :=
  Proofs.AuxExactP.copyquadrant_spec p q

/-- `operator+=` is the addition of angles -/
theorem auxangle_add (a b : ℝ) (hb : Real.sin b / Real.cos b ≠ 0) :
    (Ang.mk (Real.sin a) (Real.cos a)).add ⟨Real.sin b, Real.cos b⟩ = ⟨Real.sin (a + b), Real.cos (a + b)⟩ :=
  Proofs.AuxExactP.add_angles a b hb

/-- adding an angle with zero tangent changes nothing (so that the signs of zero are preserved) -/
theorem auxangle_add_zero (p q : Ang ℝ) (h : q.y / q.x = 0) : p.add q = p :=
  Proofs.AuxExactP.add_zero_tan p q h

theorem auxangle_radians (r : ℝ) (h1 : -π < r) (h2 : r ≤ π) : (Ang.ofRadians r).radians = r :=
  Proofs.AuxExactP.radians_ofRadians r h1 h2

theorem auxangle_lam (psi : ℝ) : (Ang.ofLam psi).lam = psi :=
  Proofs.AuxExactP.lam_ofLam psi

theorem auxangle_lamd (d : ℝ) : (Ang.ofLamd d).lamd = d :=
  Proofs.AuxExactP.lamd_ofLamd d

/-- `degrees()` (`Math::atan2d` with its octant reduction) is the argument of `x + iy` in degrees, in every octant -/
theorem auxangle_degrees (p : Ang ℝ) : p.degrees * (π / 180) = p.radians :=
  Proofs.AuxExactP.degrees_eq_radians p

/-- `ind(auxout, auxin)` is a bijection from `[0, AUXNUMBER)²` onto the `AUXNUMBER²` table slots, and `−1` elsewhere
    (depends on `Gen/AuxSeries.lean`: the enum value `AUXNUMBER` and the length of `ptrs[]`) -/
theorem ind_bijection :
    (∀ o i : Int, 0 ≤ o → o < 6 → 0 ≤ i → i < 6 → ind o i = 6 * o + i ∧ 0 ≤ ind o i ∧ ind o i < 36) ∧
    (∀ o i : Int, ¬ (0 ≤ o ∧ o < 6 ∧ 0 ≤ i ∧ i < 6) → ind o i = -1) ∧
    (∀ o i o' i' : Int, 0 ≤ ind o i → ind o i = ind o' i' → o = o' ∧ i = i') ∧
    (∀ k : Int, 0 ≤ k → k < 36 → ind (k / 6) (k % 6) = k) ∧
    Gen.AuxSeries.ptrs.length = Gen.AuxSeries.AUXNUMBER * Gen.AuxSeries.AUXNUMBER + 1 :=
  Proofs.AuxExactP.ind_bijection

/-- the members set by `AuxLatitude(a, f)` -/
theorem auxlat_parameters (a f : ℝ) (hf : f < 1) :
    let P := AL.mk2 a f
    P.b = a * (1 - f) ∧ P.fm1 = 1 - f ∧ P.e2 = f * (2 - f) ∧ P.e2m1 = 1 - P.e2 ∧ P.e12 = P.e2 / (1 - P.e2) ∧
    P.e12p1 = 1 + P.e12 ∧ P.n = f / (2 - f) ∧ P.e ^ 2 = |P.e2| ∧ P.e1 ^ 2 = |P.e12| ∧ P.n2 = P.n ^ 2 ∧ 0 ≤ P.e ∧ 0 ≤ P.e1 :=
  Proofs.AuxExactP.mk2_params a f hf

/-- `AuxLatitude::axes(a, b)` sets the same members as `AuxLatitude(a, (a − b)/a)` -/
theorem auxlat_axes (a b : ℝ) (ha : 0 < a) (hb : 0 < b) : AL.axes a b = AL.mk2 a ((a - b) / a) :=
  Proofs.AuxExactP.axes_eq_mk2 a b ha hb

/-- `tan β = (1 − f) tan φ`, `tan θ = (1 − f)² tan φ` -/
theorem parametric_geocentric_closed_form (a f : ℝ) (phi : Ang ℝ) :
    (parametric (AL.mk2 a f) phi).1.tan = (1 - f) * phi.tan ∧ (parametric (AL.mk2 a f) phi).2 = 1 - f ∧
    (geocentric (AL.mk2 a f) phi).1.tan = (1 - f) ^ 2 * phi.tan ∧ (geocentric (AL.mk2 a f) phi).2 = (1 - f) ^ 2 :=
  Proofs.AuxExactP.parametric_geocentric a f phi

/-- the exact conversions among φ, β, θ multiply the tangent by a power of `1 − f` -/
theorem convert_exact_low (a f : ℝ) (hf : f ≠ 1) (i o : Int) (hi : 0 ≤ i ∧ i < 3) (ho : 0 ≤ o ∧ o < 3) (z : Ang ℝ) :
    (convertExact (AL.mk2 a f) i o z).tan = (1 - f) ^ (o - i) * z.tan ∧ (convertExact (AL.mk2 a f) i o z).x = z.x :=
  Proofs.AuxExactP.convertExact_low a f hf i o hi ho z

theorem convert_exact_same_oob (P : AL ℝ) (z : Ang ℝ) :
    (∀ k : Int, 0 ≤ k → k < 6 → convertExact P k k z = z) ∧
    (∀ i o : Int, ¬ (0 ≤ o ∧ o < 6 ∧ 0 ≤ i ∧ i < 6) → convertExact P i o z = Ang.NaN) :=
  Proofs.AuxExactP.convertExact_same_oob P z

/-- the rectifying latitude from the two meridian arcs: `μ = (π/2)·sa/(sa + sb)`; the cosine is formed as the sine of the
    complementary arc so that it keeps its relative accuracy at the pole -/
theorem rectifying_from_arcs (sa sb : ℝ) (h : sa + sb ≠ 0) :
    (rectFromArcs sa sb).1 = Real.sin (π / 2 * (sa / (sa + sb))) ∧
    (rectFromArcs sa sb).2.1 = Real.cos (π / 2 * (sa / (sa + sb))) ∧
    (rectFromArcs sa sb).2.2 = 2 * (sa + sb) / π :=
  Proofs.AuxExactP.rectFromArcs_spec sa sb h

/-- the cancellation-free form of `tan χ` used for `f > 0` equals the general expression
    `tan φ √(1+σ²) − σ √(1+tan²φ)` (the formula of `Math::taupf`) -/
theorem conformal_branch_algebra (t s : ℝ) (ht : 0 < t) (hs : 0 ≤ s) :
    (t - s) * (1 + s / t) / (√(1 ^ 2 + s ^ 2) + s / t * √(1 ^ 2 + t ^ 2)) = t * √(1 ^ 2 + s ^ 2) - s * √(1 ^ 2 + t ^ 2) :=
  Proofs.AuxExactP.conformal_branch_algebra t s ht hs

/-- on the executed definition: for `f > 0` and `σ < tan φ / 2` -/
theorem conformal_oblate_is_taupf (P : AL ℝ) (tphi : ℝ) (hf : 0 < P.f) (ht : 0 < tphi)
    (hs : 0 ≤ Real.sinh (P.e2 * atanhee P tphi)) (hlt : Real.sinh (P.e2 * atanhee P tphi) < tphi / 2) :
    tchiOf P tphi = tphi * sc (Real.sinh (P.e2 * atanhee P tphi)) - Real.sinh (P.e2 * atanhee P tphi) * sc tphi :=
  Proofs.AuxExactP.tchiOf_eq_taupf P tphi hf ht hs hlt

/-- for `f ≤ 0` the general expression is used directly -/
theorem conformal_prolate_is_taupf (P : AL ℝ) (tphi : ℝ) (hf : P.f ≤ 0) :
    tchiOf P tphi = tphi * sc (Real.sinh (P.e2 * atanhee P tphi)) - Real.sinh (P.e2 * atanhee P tphi) * sc tphi :=
  Proofs.AuxExactP.tchiOf_prolate P tphi hf

/-- the authalic latitude: with `Dq⁺(1 − sin φ) = q(π/2) − q(φ)` and `Dq⁻ = (q(π/2) + q(φ))/(1 + sin φ)` the pair
    `(q(φ), cos φ √(Dq⁺ Dq⁻))` has modulus `q(π/2)`, i.e. `sin ξ = q(φ)/q(π/2)` -/
theorem authalic_modulus (qv Q s cx Dqp : ℝ) (hs : s ^ 2 + cx ^ 2 = 1) (hs1 : 0 ≤ s ∧ s < 1) (hcx : 0 < cx)
    (hq : 0 ≤ qv ∧ qv ≤ Q) (hD : Dqp * (1 - s) = Q - qv) :
    qv ^ 2 + (cx * √(Dqp * ((Q + qv) / (1 + s)))) ^ 2 = Q ^ 2 :=
  Proofs.AuxExactP.authalic_modulus qv Q s cx Dqp hs hs1 hcx hq hD

/-- if the Newton loop of `FromAuxiliary` stops because the target is hit, the returned tangent is a solution -/
theorem newton_exact_is_solution (P : AL ℝ) (auxin : Int) (tzeta ltzeta : ℝ) (fuel : ℕ) (s t : Newton ℝ)
    (h : newtonLoop P auxin tzeta ltzeta fuel s = (t, Exit.exact)) :
    (toAux P auxin (Ang.ofTan t.tphi)).1.tan = tzeta :=
  Proofs.AuxExactP.newtonLoop_exact P auxin tzeta ltzeta fuel s t h

/-- if it stops because the step in `log₂ tan φ` fell below `√ε`, the result is one plain Newton step from a point whose
    last logarithmic step was below the tolerance -/
theorem newton_converged_step (P : AL ℝ) (auxin : Int) (tzeta ltzeta : ℝ) (fuel : ℕ) (s t : Newton ℝ)
    (h : newtonLoop P auxin tzeta ltzeta fuel s = (t, Exit.converged)) :
    ∃ tphi : ℝ, t.tphi = tphi - ((toAux P auxin (Ang.ofTan tphi)).1.tan - tzeta) / (toAux P auxin (Ang.ofTan tphi)).2 ∧
      tphi = (2 : ℝ) ^ t.ltphi :=
  Proofs.AuxExactP.newtonLoop_converged P auxin tzeta ltzeta fuel s t h

/-- the iteration count never exceeds the budget by more than the final step -/
theorem newton_count (P : AL ℝ) (auxin : Int) (tzeta ltzeta : ℝ) (fuel : ℕ) (s : Newton ℝ) (hs : s.n ≤ numit) :
    (newtonLoop P auxin tzeta ltzeta fuel s).1.n ≤ numit + 1 :=
  Proofs.AuxExactP.newtonLoop_count P auxin tzeta ltzeta fuel s hs

/-- `QuarterMeridian = (π/2)·RectifyingRadius(exact)`, i.e. `2 R_G(a², b²)` -/
theorem quarter_meridian_exact (P : AL ℝ) :
    quarterMeridian P = π / 2 * rectifyingRadiusExact P ∧ quarterMeridian P = 2 * rg2 (P.a ^ 2) (P.b ^ 2) :=
  Proofs.AuxExactP.quarterMeridian_eq P

/-- `Area = 4π·AuthalicRadiusSquared(exact) = 2π(a² + b² asinh(e′)/e)` (oblate), `2π(a² + b² atan(e)/e)` (prolate), `4πa²` (sphere) -/
theorem area_closed_form (a f : ℝ) (ha : a ≠ 0) (hf : f < 1) :
    let P := AL.mk2 a f
    area P = 4 * π * authalicRadiusSqExact P ∧
    (0 < f → area P = 2 * π * (a ^ 2 + P.b ^ 2 * (Real.arsinh P.e1 / P.e))) ∧
    (f < 0 → area P = 2 * π * (a ^ 2 + P.b ^ 2 * (Real.arctan P.e / P.e))) ∧
    (f = 0 → area P = 4 * π * a ^ 2) :=
  Proofs.AuxExactP.area_eq a f ha hf

/-- Euler's formula: `1/R(α) = cos²α / M + sin²α / N` -/
theorem euler_formula (a e2 s salp calp : ℝ) (ha : a ≠ 0) (he : e2 ≠ 1) (hv : 0 < 1 - e2 * s ^ 2) :
    1 / normalCurvatureRadius a e2 s salp calp =
      calp ^ 2 / meridionalCurvatureRadius a e2 s + salp ^ 2 / transverseCurvatureRadius a e2 s :=
  Proofs.AuxExactP.euler_formula a e2 s salp calp ha he hv

/-- `M = N (1 − e²)/(1 − e² sin²φ)`; along the meridian (`α = 0`) the normal radius is `M`, across it (`α = 90°`) it is `N` -/
theorem curvature_relations (a e2 s : ℝ) (he : e2 ≠ 1) (hv : 0 < 1 - e2 * s ^ 2) :
    meridionalCurvatureRadius a e2 s = transverseCurvatureRadius a e2 s * (1 - e2) / (1 - e2 * s ^ 2) ∧
    normalCurvatureRadius a e2 s 0 1 = meridionalCurvatureRadius a e2 s ∧
    normalCurvatureRadius a e2 s 1 0 = transverseCurvatureRadius a e2 s :=
  Proofs.AuxExactP.curvature_relations a e2 s he hv

/-- `CircleRadius = N cos φ`, `CircleHeight = N (1 − e²) sin φ`, and the point lies on the ellipse -/
theorem circle_closed_form (a f s c : ℝ) (hf : f < 1) (hsc : s ^ 2 + c ^ 2 = 1) :
    let P := AL.mk2 a f
    circleRadius P s c = transverseCurvatureRadius a P.e2 s * c ∧
    circleHeight P s c = transverseCurvatureRadius a P.e2 s * (1 - P.e2) * s ∧
    (a ≠ 0 → (circleRadius P s c / a) ^ 2 + (circleHeight P s c / P.b) ^ 2 = 1) :=
  Proofs.AuxExactP.circle_closed_form a f s c hf hsc

/-! ### non-vacuity -/

/-- `newton_exact_is_solution`: the loop can end through the exact test (here for the identity conversion) -/
example (P : AL ℝ) (t : ℝ) :
    newtonLoop P 0 t (RealX.log2 t) 1 ⟨t, 0, 0, 0, 0, 0, 0⟩ = (⟨t, 0, 0, 0, 0, 0, 1⟩, Exit.exact) := by
  unfold newtonLoop numit toAux Ang.ofTan Ang.tan
  simp [eqb_real, lit_real]
example : ((⟨3, 4⟩ : Ang ℝ).x ≠ 0 ∨ (⟨3, 4⟩ : Ang ℝ).y ≠ 0) := Or.inl (by norm_num)
example : ((3 / 5 : ℝ)) ^ 2 + (4 / 5) ^ 2 = 1 ∧ (1 / 298 : ℝ) < 1 := by norm_num

end auxexact

end GeoVerif.Props.C15
