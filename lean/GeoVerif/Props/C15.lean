import GeoVerif.Series.AuxSeries
import GeoVerif.Proofs.AuxCert1
import GeoVerif.Proofs.AuxCert2
import GeoVerif.Proofs.AuxCert3
import GeoVerif.Proofs.AuxCert4
import GeoVerif.Proofs.AuxCert5
import GeoVerif.Proofs.AuxCert6
import GeoVerif.Proofs.AuxCert7
import GeoVerif.Proofs.AuxCert8
import GeoVerif.Proofs.AuxCert9
import GeoVerif.Model.AuxLat
import GeoVerif.Spec.RealInst
import Mathlib.Tactic.Ring
import Mathlib.Tactic.FieldSimp
import Mathlib.Tactic.Linarith
import Mathlib.Tactic.Positivity
/-!
# C15 — auxiliary latitudes, ellipsoid measures, elliptic functions

Part 1 (depends on `Gen/AuxSeries.lean`, i.e. on what `AuxLatitude.cpp` says now): certificates for the 30 series
tables of `fillcoeff` and the two radius polynomials.  Latitudes are numbered as in `AuxLatitude::aux`
(0 φ, 1 β, 2 θ, 3 μ, 4 χ, 5 ξ; `aux_layout` checks the enum).  All series are polynomials in the third
flattening `n`, compared modulo `n^(L+1)`, `L = GEOGRAPHICLIB_AUXLATITUDE_ORDER`.

What the certificates establish together: the six tables among φ, β, θ equal their closed forms; μ←β equals the
binomial series of the meridian-arc integrand; χ←φ and ξ←φ satisfy the differential equations (with the initial
value built into a sine series) that define the conformal and authalic latitudes; every pair of opposite tables
reverts to the identity; nine compositions connect the remaining tables to those.  Since reversion and composition
of formal maps `x ↦ x + O(n)` are unique, all 30 tables are thereby pinned to the defining series, and a single
wrong coefficient anywhere in `coeffs[]` falsifies `aux_revert` for its pair.

Part 2: exact-real theorems about the formula models of `Model/AuxLat.lean` (the same definitions the driver runs in
binary64 against the implementation).
-/
namespace GeoVerif.Props.C15
open GeoVerif GeoVerif.Series GeoVerif.Series.Aux GeoVerif.AuxLat Real

/-! ## Part 1: table certificates (re-checked against the current source on every run) -/

/-- `ptrs[]` and `coeffs[]` fit the loops of `fillcoeff` exactly (every block ends where the next starts, diagonal blocks
    are empty, the last offset is the table size) and the `aux` enum has the documented numbering -/
theorem aux_layout : layoutOK = true ∧ enumOK = true := by decide +kernel

/-- β←φ: `tan β = (1 − f) tan φ`, `1 − f = (1 − n)/(1 + n)` ⇒ `C_l = (−n)^l / l` -/
theorem beta_phi_table : checkBetaPhi = true := by decide +kernel
/-- φ←β: `C_l = n^l / l` -/
theorem phi_beta_table : checkPhiBeta = true := by decide +kernel
/-- θ←β (`tan θ = (1 − f) tan β`): `C_l = (−n)^l / l` -/
theorem theta_beta_table : checkThetaBeta = true := by decide +kernel
/-- β←θ: `C_l = n^l / l` -/
theorem beta_theta_table : checkBetaTheta = true := by decide +kernel
/-- θ←φ (`tan θ = (1 − f)² tan φ`): `C_l = (−m)^l / l` with `m = 2n/(1 + n²)` expanded in `n` -/
theorem theta_phi_table : checkThetaPhi = true := by decide +kernel
/-- φ←θ: `C_l = m^l / l`, `m = 2n/(1 + n²)` -/
theorem phi_theta_table : checkPhiTheta = true := by decide +kernel

/-- μ←β: `C_l(n) · Σ_j b_j² n^{2j} = (1/l) Σ_j b_j b_{j+l} n^{2j+l}`, `b_j = (−1)^j C(½, j)` — the Fourier coefficients of the
    integrated meridian-arc element `|1 − n e^{2iβ}|` over its mean (the C1 series of the geodesic problem at ε = n) -/
theorem mu_beta_table : ((List.range L).all fun i => checkMuBeta (i + 1)) = true := by decide +kernel

/-- `RectifyingRadius(false)`: the polynomial is `Σ_j b_j² n^{2j}` (mean value of the arc element; radius `(a+b)/2 ·` that) -/
theorem rect_radius_table : checkRectRadius = true := by decide +kernel
/-- `AuthalicRadiusSquared(false)`: coefficients `1, −1/3, 4(2j−5)!!/(2j+1)!!` -/
theorem auth_radius_table : checkAuthRadius = true := by decide +kernel

/-- χ = φ + Σ C[χ←φ]_l sin 2lφ satisfies `cos φ (1 − e² sin²φ) χ′ = (1 − e²) cos χ` modulo `n^(L+1)`
    (with χ(0) = 0 this is the definition `tan χ = sinh(asinh tan φ − e atanh(e sin φ))`) -/
theorem chi_ode : checkChiODE = true := Proofs.AuxCert.chi_ode
/-- ξ = φ + Σ C[ξ←φ]_l sin 2lφ satisfies `cos ξ · ξ′ · (1 − e² sin²φ)² · q(π/2) = 2(1 − e²) cos φ` modulo `n^(L+1)`, where
    `q(π/2) = 2P(n)/(1+n)` and `P` is the extracted `AuthalicRadiusSquared` polynomial (so `sin ξ = q(φ)/q(π/2)`) -/
theorem xi_ode : checkXiODE = true := Proofs.AuxCert.xi_ode

/-- for each of the 15 unordered pairs {a, b}: the series C[a←b] substituted into C[b←a] is the identity modulo `n^(L+1)` -/
theorem aux_revert :
    checkRevert 0 1 = true ∧ checkRevert 0 2 = true ∧ checkRevert 0 3 = true ∧ checkRevert 0 4 = true ∧ checkRevert 0 5 = true ∧
    checkRevert 1 2 = true ∧ checkRevert 1 3 = true ∧ checkRevert 1 4 = true ∧ checkRevert 1 5 = true ∧
    checkRevert 2 3 = true ∧ checkRevert 2 4 = true ∧ checkRevert 2 5 = true ∧
    checkRevert 3 4 = true ∧ checkRevert 3 5 = true ∧ checkRevert 4 5 = true :=
  open Proofs.AuxCert in
  ⟨revert_0_1, revert_0_2, revert_0_3, revert_0_4, revert_0_5, revert_1_2, revert_1_3, revert_1_4, revert_1_5,
   revert_2_3, revert_2_4, revert_2_5, revert_3_4, revert_3_5, revert_4_5⟩

/-- `checkCompose c b a`: C[c←a] = C[c←b] ∘ C[b←a] modulo `n^(L+1)`.  These nine link every table to the base tables
    (closed forms, `mu_beta_table`, `chi_ode`, `xi_ode`) via `aux_revert`.
    Full statement of the design (`aux_compose` for all 120 ordered triples) follows from these by uniqueness of
    composition/reversion but is not kernel-checked triple by triple (≈ 25 CPU-minutes); it is evaluated by the harness run only. -/
theorem aux_compose_partial :
    checkCompose 3 1 0 = true ∧ checkCompose 3 1 2 = true ∧ checkCompose 4 0 1 = true ∧ checkCompose 4 0 2 = true ∧
    checkCompose 4 1 3 = true ∧ checkCompose 5 0 1 = true ∧ checkCompose 5 0 2 = true ∧ checkCompose 5 1 3 = true ∧
    checkCompose 5 0 4 = true :=
  open Proofs.AuxCert in
  ⟨compose_3_1_0, compose_3_1_2, compose_4_0_1, compose_4_0_2, compose_4_1_3, compose_5_0_1, compose_5_0_2, compose_5_1_3, compose_5_0_4⟩

/-! ## Part 2: exact-real theorems about the formula models -/

section algebra
variable (a f : ℝ)

/-- the constructor's parameters: `e² = f(2−f)`, `1 − e² = (1−f)²`, `e′² = e²/(1−e²)`, `n = f/(2−f)`, `e² = 4n/(1+n)²`,
    `b = a(1−f)`, `(1−n)/(1+n) = 1−f`, `b² = a²(1−e²)`, `e″² = e²/(2−e²) = (a²−b²)/(a²+b²)` -/
theorem ellipsoid_algebra (hf : f < 1) :
    ctorE2 f = f * (2 - f) ∧ 1 - ctorE2 f = (1 - f) ^ 2 ∧
    ctorE12 f = ctorE2 f / (1 - ctorE2 f) ∧ ctorE12 f = flatteningToSecondEccentricitySq f ∧
    ctorN f = f / (2 - f) ∧ ctorE2 f = 4 * ctorN f / (1 + ctorN f) ^ 2 ∧
    (1 - ctorN f) / (1 + ctorN f) = 1 - f ∧
    ctorB a f = a * (1 - f) ∧ (ctorB a f) ^ 2 = a ^ 2 * (1 - ctorE2 f) ∧
    thirdEccentricitySq f = flatteningToThirdEccentricitySq f ∧
    secondFlattening f = flatteningToSecondFlattening f := by
  have h1 : (1 : ℝ) - f ≠ 0 := by linarith
  have h2 : (2 : ℝ) - f ≠ 0 := by linarith
  have h3 : (1 : ℝ) - f * (2 - f) ≠ 0 := by
    have : (1 : ℝ) - f * (2 - f) = (1 - f) ^ 2 := by ring
    rw [this]; positivity
  have h4 : (1 : ℝ) + f / (2 - f) ≠ 0 := by
    have : (1 : ℝ) + f / (2 - f) = 2 / (2 - f) := by field_simp; ring
    rw [this]; exact div_ne_zero (by norm_num) h2
  have h5 : (2 : ℝ) - f * (2 - f) ≠ 0 := by nlinarith [sq_nonneg (1 - f)]
  have h6 : (1 : ℝ) + (1 - f) * (1 - f) ≠ 0 := by nlinarith [sq_nonneg (1 - f)]
  have hn : (1 : ℝ) + f / (2 - f) = 2 / (2 - f) := by field_simp; ring
  have g6 : f * (2 - f) = 4 * (f / (2 - f)) / (1 + f / (2 - f)) ^ 2 := by rw [hn]; field_simp; ring
  have g7 : (1 - f / (2 - f)) / (1 + f / (2 - f)) = 1 - f := by rw [hn]; field_simp; ring
  refine ⟨?_, ?_, ?_, ?_, ?_, ?_, ?_, ?_, ?_, ?_, ?_⟩ <;>
    (try simp only [ctorE12, flatteningToSecondEccentricitySq, ctorE2, ctorN, ctorB, thirdEccentricitySq, flatteningToThirdEccentricitySq,
      secondFlattening, flatteningToSecondFlattening, RealLike.sq, lit_real]) <;> (try push_cast) <;>
    first
    | rfl
    | ring1
    | exact g6
    | exact g7
    | (field_simp; ring1)

example : (1 / 298 : ℝ) < 1 := by norm_num

/-- `f ↦ f′ = f/(1−f)` and `f′ ↦ f′/(1+f′)` are mutually inverse (f < 1, f′ > −1) -/
theorem second_flattening_inverse (fp : ℝ) (hf : f < 1) (hfp : -1 < fp) :
    secondFlatteningToFlattening (flatteningToSecondFlattening f) = f ∧
    flatteningToSecondFlattening (secondFlatteningToFlattening fp) = fp := by
  have h1 : (1 : ℝ) - f ≠ 0 := by linarith
  have h2 : (1 : ℝ) + fp ≠ 0 := by linarith
  unfold secondFlatteningToFlattening flatteningToSecondFlattening
  simp only [lit_real]; push_cast
  constructor
  · have : (1 : ℝ) + f / (1 - f) = 1 / (1 - f) := by field_simp; ring
    rw [this]; field_simp
  · have : (1 : ℝ) - fp / (1 + fp) = 1 / (1 + fp) := by field_simp; ring
    rw [this]; field_simp

/-- `f ↦ n = f/(2−f)` and `n ↦ 2n/(1+n)` are mutually inverse (f < 2, n > −1) -/
theorem third_flattening_inverse (n : ℝ) (hf : f < 2) (hn : -1 < n) :
    thirdFlatteningToFlattening (flatteningToThirdFlattening f) = f ∧
    flatteningToThirdFlattening (thirdFlatteningToFlattening n) = n := by
  have h1 : (2 : ℝ) - f ≠ 0 := by linarith
  have h2 : (1 : ℝ) + n ≠ 0 := by linarith
  unfold thirdFlatteningToFlattening flatteningToThirdFlattening
  simp only [lit_real]; push_cast
  constructor
  · have : (1 : ℝ) + f / (2 - f) = 2 / (2 - f) := by field_simp; ring
    rw [this]; field_simp
  · have : (2 : ℝ) - 2 * n / (1 + n) = 2 / (1 + n) := by field_simp; ring
    rw [this]; field_simp

/-- `EccentricitySqToFlattening ∘ FlatteningToEccentricitySq = id` for f < 1, and the other way round for e² ≤ 1 -/
theorem eccentricity_sq_inverse (e2 : ℝ) (hf : f < 1) (he : e2 ≤ 1) :
    eccentricitySqToFlattening (flatteningToEccentricitySq f) = f ∧
    flatteningToEccentricitySq (eccentricitySqToFlattening e2) = e2 := by
  unfold eccentricitySqToFlattening flatteningToEccentricitySq
  simp only [lit_real, sqrt_real]; push_cast
  constructor
  · have h : (1 : ℝ) - f * (2 - f) = (1 - f) ^ 2 := by ring
    rw [h, Real.sqrt_sq (by linarith)]
    have : (1 : ℝ) - f + 1 ≠ 0 := by linarith
    field_simp; ring
  · set s := Real.sqrt (1 - e2) with hs
    have hs0 : 0 ≤ s := Real.sqrt_nonneg _
    have hss : s * s = 1 - e2 := Real.mul_self_sqrt (by linarith)
    have h1 : s + 1 ≠ 0 := by linarith
    have he2 : e2 = (1 - s) * (1 + s) := by nlinarith
    have : e2 / (s + 1) = 1 - s := by rw [he2]; field_simp; ring
    rw [this]; nlinarith

/-- `SecondEccentricitySqToFlattening ∘ FlatteningToSecondEccentricitySq = id` for f < 1 -/
theorem second_eccentricity_sq_inverse (hf : f < 1) :
    secondEccentricitySqToFlattening (flatteningToSecondEccentricitySq f) = f := by
  unfold secondEccentricitySqToFlattening flatteningToSecondEccentricitySq RealLike.sq
  simp only [lit_real, sqrt_real]; push_cast
  have h1 : (0 : ℝ) < 1 - f := by linarith
  have h : (1 : ℝ) + f * (2 - f) / ((1 - f) * (1 - f)) = (1 / (1 - f)) ^ 2 := by field_simp; ring
  rw [h, Real.sqrt_sq (by positivity)]
  have h2 : (1 : ℝ) / (1 - f) + 1 + f * (2 - f) / ((1 - f) * (1 - f)) = (2 - f) / ((1 - f) * (1 - f)) := by field_simp; ring
  have h3 : (2 : ℝ) - f ≠ 0 := by linarith
  rw [h2]; field_simp

/-- `ThirdEccentricitySqToFlattening ∘ FlatteningToThirdEccentricitySq = id` for f < 1 -/
theorem third_eccentricity_sq_inverse (hf : f < 1) :
    thirdEccentricitySqToFlattening (flatteningToThirdEccentricitySq f) = f := by
  unfold thirdEccentricitySqToFlattening flatteningToThirdEccentricitySq RealLike.sq
  simp only [lit_real, sqrt_real]; push_cast
  have h1 : (0 : ℝ) < 1 - f := by linarith
  have hd : (0 : ℝ) < 1 + (1 - f) * (1 - f) := by positivity
  have h : ((1 : ℝ) - f * (2 - f) / (1 + (1 - f) * (1 - f))) * (1 + f * (2 - f) / (1 + (1 - f) * (1 - f)))
      = (2 * (1 - f) / (1 + (1 - f) * (1 - f))) ^ 2 := by field_simp; ring
  rw [h, Real.sqrt_sq (by positivity)]
  have h2 : (2 : ℝ) * (1 - f) / (1 + (1 - f) * (1 - f)) + 1 + f * (2 - f) / (1 + (1 - f) * (1 - f))
      = 2 * (2 - f) / (1 + (1 - f) * (1 - f)) := by field_simp; ring
  have h3 : (2 : ℝ) - f ≠ 0 := by linarith
  rw [h2]; field_simp

example : (-1 / 100 : ℝ) < 1 ∧ (1 / 298 : ℝ) < 1 := by constructor <;> norm_num

end algebra

/-! ### the series path of `Convert` is odd and fixes the equator and the poles (for every coefficient vector) -/

theorem clenshaw_odd (c : List ℝ) (sz cz : ℝ) : clenshawSin (-sz) cz c = - clenshawSin sz cz c := by
  unfold clenshawSin
  simp only [lit_real]; push_cast
  have hx : (2 : ℝ) * (cz - -sz) * (cz + -sz) = 2 * (cz - sz) * (cz + sz) := by ring
  rw [hx]; ring

theorem clenshaw_equator (c : List ℝ) (cz : ℝ) : clenshawSin 0 cz c = 0 := by
  unfold clenshawSin; simp only [lit_real]; push_cast; ring

theorem clenshaw_pole (c : List ℝ) (sz : ℝ) : clenshawSin sz 0 c = 0 := by
  unfold clenshawSin; simp only [lit_real]; push_cast; ring

/-- `Convert(−ζ) = −Convert(ζ)`; `Convert` maps (0, c) to (0, c) and (s, 0) to (s, 0): the model of the series branch of
    `AuxLatitude::Convert` is odd in the angle and fixes 0 and ±90° exactly, whatever the coefficients are -/
theorem convert_odd_fixes (c : List ℝ) (sz cz : ℝ) :
    convertWith c (-sz) cz = (-(convertWith c sz cz).1, (convertWith c sz cz).2) ∧
    convertWith c 0 cz = (0, cz) ∧ convertWith c sz 0 = (sz, 0) := by
  refine ⟨?_, ?_, ?_⟩
  · unfold convertWith
    rw [clenshaw_odd]
    unfold rotate
    simp only [sin_real, cos_real, eqb_real, ofNat_real, Real.sin_neg, Real.cos_neg, neg_div, neg_eq_zero, Nat.cast_zero]
    split
    · simp
    · simp; ring_nf
  · unfold convertWith
    rw [clenshaw_equator]
    unfold rotate
    simp [ofNat_real]
  · unfold convertWith
    rw [clenshaw_pole]
    unfold rotate
    simp [ofNat_real]

/-- the coefficient vector actually used is `fillcoeff`: instance of the above for the extracted tables -/
example (f cz : ℝ) : convertSeries f 0 3 0 cz = (0, cz) := (convert_odd_fixes _ 0 cz).2.1

/-! ### Carlson's algorithms: algebraic invariants of the duplication step and the polynomial tails -/

/-- with `λ = √x√y + √y√z + √z√x` the duplicated argument factors: `x + λ = (√x + √y)(√x + √z)` (and cyclically) —
    this is why the duplication step maps non-negative arguments to positive ones and contracts their spread -/
theorem carlson_dup_factor (sx sy sz : ℝ) :
    sx * sx + dupLam sx sy sz = (sx + sy) * (sx + sz) ∧ sy * sy + dupLam sx sy sz = (sy + sz) * (sy + sx) ∧
    sz * sz + dupLam sx sy sz = (sz + sx) * (sz + sy) := by
  unfold dupLam; refine ⟨by ring, by ring, by ring⟩

/-- the mean `A = (x+y+z)/3` is mapped to `(A + λ)/4` and the deviations `A − x` shrink by exactly 4 (so `X = (A₀−x)/(4ᵐ Aₘ)`) -/
theorem carlson_dup_mean (x y z lam : ℝ) :
    (dupStep x lam + dupStep y lam + dupStep z lam) / 3 = dupStep ((x + y + z) / 3) lam ∧
    dupStep ((x + y + z) / 3) lam - dupStep x lam = ((x + y + z) / 3 - x) / 4 := by
  unfold dupStep; simp only [lit_real]; push_cast; constructor <;> ring

/-- the Horner form in `RF` is DLMF 19.36.1 -/
theorem rf_tail (E2 E3 : ℝ) :
    rfTail E2 E3 = 240240 * (1 - E2 / 10 + E3 / 14 + E2 ^ 2 / 24 - 3 * E2 * E3 / 44 - 5 * E2 ^ 3 / 208 + 3 * E3 ^ 2 / 104 + E2 ^ 2 * E3 / 16) := by
  unfold rfTail; simp only [lit_real]; push_cast; ring

/-- the Horner form in `RD` and `RJ` is DLMF 19.36.2 -/
theorem rj_tail (E2 E3 E4 E5 : ℝ) :
    rjTail E2 E3 E4 E5 = 4084080 * (1 - 3 * E2 / 14 + E3 / 6 + 9 * E2 ^ 2 / 88 - 3 * E4 / 22 - 9 * E2 * E3 / 52 + 3 * E5 / 26
      - E2 ^ 3 / 16 + 3 * E3 ^ 2 / 40 + 3 * E2 * E4 / 20 + 45 * E2 ^ 2 * E3 / 272 - 9 * (E3 * E4 + E2 * E5) / 68) := by
  unfold rjTail; simp only [lit_real]; push_cast; ring

/-- the symmetric functions used by `RF`: with `Z = −(X+Y)`, `E2 = XY − Z²` and `E3 = XYZ` are the elementary symmetric
    polynomials `XY + YZ + ZX` and `XYZ` -/
theorem rf_symmetric (X Y : ℝ) : X * Y - (-(X + Y)) * (-(X + Y)) = X * Y + Y * (-(X + Y)) + (-(X + Y)) * X := by ring

end GeoVerif.Props.C15
