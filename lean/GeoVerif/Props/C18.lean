import GeoVerif.Model.GridCodes
/-!
# C18 — property theorems (grid codes), integer level

The tables are the ones re-extracted from the sources (`Gen.Grid`), so each
`decide` below is re-checked against what the code says now.
-/
namespace GeoVerif.Props.C18
open GeoVerif GeoVerif.Grid

/-! ### every table letter is found again at its own index (decode inverts encode letter-wise) -/
theorem gars_digits_lookup : ∀ k < 10, lookup GARS.digits (chr GARS.digits k).toNat = some k := by decide
theorem gars_letters_lookup : ∀ k < 24, lookup GARS.letters (chr GARS.letters k).toNat = some k := by decide
theorem geohash_lookup : ∀ k < 32, lookup Geohash.uc (chr Geohash.lc k).toNat = some k := by decide
theorem georef_lontile_lookup : ∀ k < 24, lookup Georef.lontile (chr Georef.lontile k).toNat = some k := by decide
theorem georef_lattile_lookup : ∀ k < 12, lookup Georef.lattile (chr Georef.lattile k).toNat = some k := by decide
theorem georef_degrees_lookup : ∀ k < 15, lookup Georef.degrees (chr Georef.degrees k).toNat = some k := by decide
theorem osgb_letters_lookup : ∀ k < 25, lookup OSGB.letters (chr OSGB.letters k).toNat = some k := by decide
theorem osgb_digits_lookup : ∀ k < 10, lookup OSGB.digits (chr OSGB.digits k).toNat = some k := by decide

/-- table sizes are what the index arithmetic assumes (an index ≥ size would read the terminator: finding F5) -/
theorem table_sizes :
    GARS.digits.length = 10 ∧ GARS.letters.length = 24 ∧ Geohash.lc.length = 32 ∧ Geohash.uc.length = 32 ∧
    Georef.lontile.length = 24 ∧ Georef.lattile.length = 12 ∧ Georef.degrees.length = 15 ∧
    OSGB.letters.length = 25 ∧ OSGB.digits.length = 10 := by decide

/-- no table contains a NUL, a letter twice, or (GARS/Georef/OSGB) the excluded letter I; Geohash has no a, i, l, o -/
theorem tables_wf :
    GARS.letters.Nodup ∧ Geohash.lc.Nodup ∧ Georef.lontile.Nodup ∧ Georef.degrees.Nodup ∧ OSGB.letters.Nodup ∧
    'I' ∉ GARS.letters ∧ 'O' ∉ GARS.letters ∧ 'I' ∉ Georef.lontile ∧ 'O' ∉ Georef.lontile ∧ 'I' ∉ OSGB.letters ∧
    'a' ∉ Geohash.lc ∧ 'i' ∉ Geohash.lc ∧ 'l' ∉ Geohash.lc ∧ 'o' ∉ Geohash.lc := by decide

/-- the NUL byte is never accepted by `lookup` (finding F6, repaired) -/
theorem lookup_nul (tbl : List Char) : lookup tbl 0 = none := by
  unfold lookup; simp

/-- `lookup` is case-insensitive on ASCII letters -/
theorem lookup_case (tbl : List Char) (c : Nat) (h : 97 ≤ c ∧ c ≤ 122) : lookup tbl c = lookup tbl (c - 32) := by
  unfold lookup upper
  have h1 : c ≠ 0 := by omega
  have h2 : c - 32 ≠ 0 := by omega
  have h3 : ¬ (97 ≤ c - 32 ∧ c - 32 ≤ 122) := by omega
  rw [if_neg h1, if_neg h2, if_pos h, if_neg h3]

/-! ### prefix laws (integer level) -/

/-- GARS: the code at precision `p` is a prefix of the code at precision `p + 1` -/
theorem gars_prefix (X Y : Int) (p : Nat) : (GARS.encodeInt X Y p) <+: (GARS.encodeInt X Y (p + 1)) := by
  unfold GARS.encodeInt
  rcases p with _ | _ | p <;> simp [List.prefix_append]

/-- fixed-width digits: the width-`w` string of `n / b` is a prefix of the width-`w+1` string of `n` -/
theorem digitsW_prefix (tbl : List Char) (b w n : Nat) : digitsW tbl b w (n / b) <+: digitsW tbl b (w + 1) n := by
  simp [digitsW, List.prefix_append]

theorem digitsW_length (tbl : List Char) (b w n : Nat) : (digitsW tbl b w n).length = w := by
  induction w generalizing n with
  | zero => simp [digitsW]
  | succ w ih => simp [digitsW, ih]

theorem chunks5_short (l : List Bool) (h : l.length < 5) : Geohash.chunks5 l = [] := by
  match l, h with
  | [], _ => rfl
  | [_], _ => rfl
  | [_, _], _ => rfl
  | [_, _, _], _ => rfl
  | [_, _, _, _], _ => rfl
  | _ :: _ :: _ :: _ :: _ :: _, h => simp at h; omega

/-- Geohash: `chunks5` of a longer prefix of the bit stream extends the chunks of a shorter one -/
theorem chunks5_take_prefix (l : List Bool) (n : Nat) :
    Geohash.chunks5 (l.take (5 * n)) <+: Geohash.chunks5 (l.take (5 * (n + 1))) := by
  induction n generalizing l with
  | zero => simp [Geohash.chunks5]
  | succ n ih =>
    by_cases hl : l.length < 5
    · have h : (l.take (5 * (n + 1))).length < 5 := by
        rw [List.length_take]; omega
      rw [chunks5_short _ h]
      exact List.nil_prefix
    · match l, hl with
      | a :: b :: c :: d :: e :: rest, _ =>
        have h1 : 5 * (n + 1) = (5 * n) + 5 := by omega
        have h2 : 5 * (n + 1 + 1) = (5 * (n + 1)) + 5 := by omega
        rw [h1, h2]
        simp only [List.take_succ_cons, Geohash.chunks5]
        exact (List.prefix_cons_inj _).mpr (ih rest)
      | [], h => simp at h
      | [_], h => simp at h
      | [_, _], h => simp at h
      | [_, _, _], h => simp at h
      | [_, _, _, _], h => simp at h

/-- Geohash prefix law: the hash of length `n` is a prefix of the hash of length `n + 1` (any cell) -/
theorem geohash_prefix (ulon ulat n : Nat) :
    Geohash.encodeInt ulon ulat n <+: Geohash.encodeInt ulon ulat (n + 1) := by
  unfold Geohash.encodeInt
  exact List.IsPrefix.map _ (chunks5_take_prefix _ n)

/-- Geohash output length -/
theorem chunks5_length (l : List Bool) : (Geohash.chunks5 l).length = l.length / 5 := by
  match l with
  | a :: b :: c :: d :: e :: rest =>
    simp only [Geohash.chunks5, List.length_cons]
    rw [chunks5_length rest]; omega
  | [] => simp [Geohash.chunks5]
  | [_] => simp [Geohash.chunks5]
  | [_, _] => simp [Geohash.chunks5]
  | [_, _, _] => simp [Geohash.chunks5]
  | [_, _, _, _] => simp [Geohash.chunks5]

/-! ### non-vacuity: concrete codes -/
example : String.ofList (GARS.encodeInt (4320 / 2 + 7) (2160 / 2 + 5) 2) = "362HN12" := by decide
example : (match GARS.decodeInt (toBytes "361HN47".toList) false with
    | .ok d => decide (d = ⟨0, 3, 12, 2⟩) | .error _ => false) = true := by decide
example : (match Georef.decodeInt (toBytes "QJMJN".toList) false with | .ok _ => false | .error _ => true) = true := by decide
example : String.ofList (Geohash.encodeInt (2^45 + 12345678901) (2^45 + 333) 7) = "s00012j" := by decide

end GeoVerif.Props.C18
