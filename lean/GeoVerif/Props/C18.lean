import GeoVerif.Model.GridCodes
import GeoVerif.Proofs.F64Round
import GeoVerif.Proofs.Digits
import GeoVerif.Proofs.GeohashBits
import GeoVerif.Proofs.GeohashScale
import GeoVerif.Proofs.GeorefLoop
import GeoVerif.Proofs.OSGBInt
import GeoVerif.Proofs.OSGBScale
import GeoVerif.Proofs.GridHelpers
import GeoVerif.Proofs.GeohashDecode
import GeoVerif.Proofs.OSGBReverse
import GeoVerif.Gen.OSGBC
import GeoVerif.Props.C16
/-!
# C18 — property theorems (grid codes), integer level

The tables are the ones re-extracted from the sources (`Gen.Grid`), so each
`decide` below is re-checked against what the code says now.
-/
namespace GeoVerif.Props.C18
open GeoVerif GeoVerif.Grid Gen.Grid

/-! ### every table letter is found again at its own index (decode inverts encode letter-wise) -/
theorem gars_digits_lookup : ∀ k < 10, lookup GARS.digits (chr GARS.digits k).toNat = some k := by decide
theorem gars_letters_lookup : ∀ k < 24, lookup GARS.letters (chr GARS.letters k).toNat = some k := by decide
theorem geohash_lookup : ∀ k < 32, lookup Geohash.uc (chr Geohash.lc k).toNat = some k := by decide
theorem georef_lontile_lookup : ∀ k < 24, lookup Georef.lontile (chr Georef.lontile k).toNat = some k := by decide
theorem georef_lattile_lookup : ∀ k < 12, lookup Georef.lattile (chr Georef.lattile k).toNat = some k := by decide
theorem georef_degrees_lookup : ∀ k < 15, lookup Georef.degrees (chr Georef.degrees k).toNat = some k := by decide
theorem osgb_letters_lookup : ∀ k < 25, lookup OSGB.letters (chr OSGB.letters k).toNat = some k := by decide
theorem osgb_digits_lookup : ∀ k < 10, lookup OSGB.digits (chr OSGB.digits k).toNat = some k := by decide

/-- table sizes are what the index arithmetic assumes (an index ≥ size would read the terminator: finding F5) -/
theorem table_sizes :
    GARS.digits.length = 10 ∧ GARS.letters.length = 24 ∧ Geohash.lc.length = 32 ∧ Geohash.uc.length = 32 ∧
    Georef.lontile.length = 24 ∧ Georef.lattile.length = 12 ∧ Georef.degrees.length = 15 ∧
    OSGB.letters.length = 25 ∧ OSGB.digits.length = 10 := by decide

/-- no table contains a NUL, a letter twice, or (GARS/Georef/OSGB) the excluded letter I; Geohash has no a, i, l, o -/
theorem tables_wf :
    GARS.letters.Nodup ∧ Geohash.lc.Nodup ∧ Georef.lontile.Nodup ∧ Georef.degrees.Nodup ∧ OSGB.letters.Nodup ∧
    'I' ∉ GARS.letters ∧ 'O' ∉ GARS.letters ∧ 'I' ∉ Georef.lontile ∧ 'O' ∉ Georef.lontile ∧ 'I' ∉ OSGB.letters ∧
    'a' ∉ Geohash.lc ∧ 'i' ∉ Geohash.lc ∧ 'l' ∉ Geohash.lc ∧ 'o' ∉ Geohash.lc := by decide

/-- the NUL byte is never accepted by `lookup` (finding F6, repaired) -/
theorem lookup_nul (tbl : List Char) : lookup tbl 0 = none := by
  unfold lookup; simp

/-- `lookup` is case-insensitive on ASCII letters -/
theorem lookup_case (tbl : List Char) (c : Nat) (h : 97 ≤ c ∧ c ≤ 122) : lookup tbl c = lookup tbl (c - 32) := by
  unfold lookup upper
  have h1 : c ≠ 0 := by omega
  have h2 : c - 32 ≠ 0 := by omega
  have h3 : ¬ (97 ≤ c - 32 ∧ c - 32 ≤ 122) := by omega
  rw [if_neg h1, if_neg h2, if_pos h, if_neg h3]

/-! ### prefix laws (integer level) -/

/-- GARS: the code at precision `p` is a prefix of the code at precision `p + 1` -/
theorem gars_prefix (X Y : Int) (p : Nat) : (GARS.encodeInt X Y p) <+: (GARS.encodeInt X Y (p + 1)) := by
  unfold GARS.encodeInt
  rcases p with _ | _ | p <;> simp [List.prefix_append]

/-- fixed-width digits: the width-`w` string of `n / b` is a prefix of the width-`w+1` string of `n` -/
theorem digitsW_prefix (tbl : List Char) (b w n : Nat) : digitsW tbl b w (n / b) <+: digitsW tbl b (w + 1) n := by
  simp [digitsW, List.prefix_append]

theorem digitsW_length (tbl : List Char) (b w n : Nat) : (digitsW tbl b w n).length = w := by
  induction w generalizing n with
  | zero => simp [digitsW]
  | succ w ih => simp [digitsW, ih]

theorem chunks5_short (l : List Bool) (h : l.length < 5) : Geohash.chunks5 l = [] := by
  match l, h with
  | [], _ => rfl
  | [_], _ => rfl
  | [_, _], _ => rfl
  | [_, _, _], _ => rfl
  | [_, _, _, _], _ => rfl
  | _ :: _ :: _ :: _ :: _ :: _, h => simp at h; omega

/-- Geohash: `chunks5` of a longer prefix of the bit stream extends the chunks of a shorter one -/
theorem chunks5_take_prefix (l : List Bool) (n : Nat) :
    Geohash.chunks5 (l.take (5 * n)) <+: Geohash.chunks5 (l.take (5 * (n + 1))) := by
  induction n generalizing l with
  | zero => simp [Geohash.chunks5]
  | succ n ih =>
    by_cases hl : l.length < 5
    · have h : (l.take (5 * (n + 1))).length < 5 := by
        rw [List.length_take]; omega
      rw [chunks5_short _ h]
      exact List.nil_prefix
    · match l, hl with
      | a :: b :: c :: d :: e :: rest, _ =>
        have h1 : 5 * (n + 1) = (5 * n) + 5 := by omega
        have h2 : 5 * (n + 1 + 1) = (5 * (n + 1)) + 5 := by omega
        rw [h1, h2]
        simp only [List.take_succ_cons, Geohash.chunks5]
        exact (List.prefix_cons_inj _).mpr (ih rest)
      | [], h => simp at h
      | [_], h => simp at h
      | [_, _], h => simp at h
      | [_, _, _], h => simp at h
      | [_, _, _, _], h => simp at h

/-- Geohash prefix law: the hash of length `n` is a prefix of the hash of length `n + 1` (any cell) -/
theorem geohash_prefix (ulon ulat n : Nat) :
    Geohash.encodeInt ulon ulat n <+: Geohash.encodeInt ulon ulat (n + 1) := by
  unfold Geohash.encodeInt
  exact List.IsPrefix.map _ (chunks5_take_prefix _ n)

/-- Geohash output length -/
theorem chunks5_length (l : List Bool) : (Geohash.chunks5 l).length = l.length / 5 := by
  match l with
  | a :: b :: c :: d :: e :: rest =>
    simp only [Geohash.chunks5, List.length_cons]
    rw [chunks5_length rest]; omega
  | [] => simp [Geohash.chunks5]
  | [_] => simp [Geohash.chunks5]
  | [_, _] => simp [Geohash.chunks5]
  | [_, _, _] => simp [Geohash.chunks5]
  | [_, _, _, _] => simp [Geohash.chunks5]

/-! ### `scale_contains` (GARS, Georef): the one rounding in front of the integer codec

The floating part of `GARS::Forward` / `Georef::Forward` is: normalise the longitude, move the pole inside, then
per coordinate **one rounded multiplication by the integer `m` and a `floor`**.  Using the rounding theory of
`Proofs/Round53.lean` (monotonicity of `round53`, integers up to 2^53 are fixed points, error bound) the coded cell
index is related to the exact one for *all* inputs.  Constants (`m`, origins) come from `Gen.Grid`. -/

/-- longitude argument of the scale multiplication, as prepared by `GARS::Forward`/`Georef::Forward` -/
def prepLon (lon : F64) : F64 :=
  let lon := MathF.angNormalize lon
  if F64.eq lon MathF.hd then F64.neg MathF.hd else lon
/-- latitude argument: `lat·(1 − ε/2)` at the pole -/
def prepLat (lat : F64) : F64 :=
  if F64.eq lat MathF.qd then lat * (.fin false (2 ^ 53 - 1) (-53)) else lat

theorem gars_scaleWith_eq (mulf : F64 → F64 → Int) (lat lon : F64) :
    GARS.scaleWith mulf lat lon =
      if F64.gt (F64.abs lat) MathF.qd then .error "lat" else
      if lat.isNaN || !lon.isFinite then .ok none else
      .ok (some (mulf (prepLon lon) (F64.ofInt GARS.m) - gars_lonorig * GARS.m,
                 mulf (prepLat lat) (F64.ofInt GARS.m) - gars_latorig * GARS.m)) := rfl

theorem gars_scale_eq : GARS.scale = GARS.scaleWith F64.mulFloorCoded := rfl
theorem gars_scaleExact_eq : GARS.scaleExact = GARS.scaleWith F64.mulFloorExact := rfl

/-- `prepLon` is NaN (infinite input) or a finite number in `[−180, 180)` congruent to `lon` mod 360 -/
theorem prepLon_spec (lon : F64) :
    (lon.isFinite = false ∧ prepLon lon = .nan) ∨
    (lon.isFinite = true ∧ ∃ s m e, prepLon lon = .fin s m e ∧ -180 ≤ (prepLon lon).val ∧ (prepLon lon).val < 180 ∧
      ∃ n : ℤ, (prepLon lon).val = lon.val - 360 * n) := by
  cases lon with
  | nan => left; exact ⟨rfl, rfl⟩
  | inf s => left; exact ⟨rfl, rfl⟩
  | fin sx mx ex =>
    right
    refine ⟨rfl, ?_⟩
    obtain ⟨hfin, ⟨n, hn⟩, hb, _⟩ := C16.angNormalize_spec sx mx ex
    unfold prepLon
    simp only []
    set y := MathF.angNormalize (F64.fin sx mx ex) with hy
    obtain ⟨sy, my, ey, hyf⟩ := F64.exists_fin_of_isFinite y hfin
    have h180 : (MathF.hd).val = 180 := by rw [C16.hd_eq, F64.val_fin]; simp
    have hbb := abs_le.mp hb
    by_cases hE : F64.eq y MathF.hd = true
    · rw [if_pos hE]
      have hyv : y.val = 180 := by rw [(F64.eq_fin_iff _ _ hfin rfl).mp hE, h180]
      have hv : (F64.neg MathF.hd).val = -180 := by
        show (F64.fin true 180 0).val = -180
        rw [F64.val_fin]; simp
      refine ⟨true, 180, 0, rfl, by rw [hv], by rw [hv]; norm_num, n + 1, ?_⟩
      rw [hv]; push_cast; linarith
    · rw [if_neg hE]
      have hne : y.val ≠ 180 := by
        intro hc; apply hE
        exact (F64.eq_fin_iff _ _ hfin rfl).mpr (by rw [hc, h180])
      refine ⟨sy, my, ey, hyf, hbb.1, lt_of_le_of_ne hbb.2 hne, n, hn⟩

/-- an accepted, non-NaN latitude is finite with `|lat| ≤ 90` -/
theorem lat_accepted (lat : F64) (h1 : F64.gt (F64.abs lat) MathF.qd = false) (h2 : lat.isNaN = false) :
    ∃ s m e, lat = .fin s m e ∧ |lat.val| ≤ 90 := by
  cases lat with
  | nan => simp [F64.isNaN] at h2
  | inf s => cases s <;> exact absurd h1 (by decide)
  | fin s m e =>
    refine ⟨s, m, e, rfl, ?_⟩
    have h3 : Dy.lt MathF.qd.toDy (F64.abs (F64.fin s m e)).toDy = false := h1
    have h4 : ¬ (MathF.qd.toDy.val < (F64.abs (F64.fin s m e)).toDy.val) := by
      rw [← Dy.lt_iff, h3]; simp
    have h5 : MathF.qd.toDy.val = 90 := by
      show MathF.qd.val = 90
      rw [C16.qd_eq, F64.val_fin]; simp
    have h6 : (F64.abs (F64.fin s m e)).toDy.val = |(F64.fin s m e).val| := F64.val_abs_fin s m e
    rw [h5, h6] at h4
    exact not_lt.mp h4

theorem pole_round :
    (Dy.round53 ⟨90 * (2 ^ 53 - 1), -53⟩).m = 90 * 2 ^ 46 - 1 ∧ (Dy.round53 ⟨90 * (2 ^ 53 - 1), -53⟩).e = -46 := by
  decide +kernel

/-- `prepLat` of an accepted latitude is finite and in `[−90, 90)` (the pole is moved inside by one ulp) -/
theorem prepLat_spec (lat : F64) (h1 : F64.gt (F64.abs lat) MathF.qd = false) (h2 : lat.isNaN = false) :
    ∃ s m e, prepLat lat = .fin s m e ∧ -90 ≤ (prepLat lat).val ∧ (prepLat lat).val < 90 ∧
      (lat.val ≠ 90 → prepLat lat = lat) := by
  obtain ⟨s, m, e, hl, hb⟩ := lat_accepted lat h1 h2
  subst hl
  have hl : F64.fin s m e = F64.fin s m e := rfl
  generalize hlat : F64.fin s m e = lat at *
  have hbb := abs_le.mp hb
  have h90 : (MathF.qd).val = 90 := by rw [C16.qd_eq, F64.val_fin]; simp
  have hfin : lat.isFinite = true := by rw [← hlat]; rfl
  unfold prepLat
  by_cases hE : F64.eq lat MathF.qd = true
  · rw [if_pos hE]
    have hv : lat.val = 90 := by rw [(F64.eq_fin_iff _ _ hfin rfl).mp hE, h90]
    set c : F64 := .fin false (2 ^ 53 - 1) (-53) with hc
    set P := Dy.mul lat.toDy c.toDy with hP
    have hmul : lat * c = F64.rnd P (s != false) := by rw [hP, ← hlat]; rfl
    have hPv : P.val = (⟨90 * (2 ^ 53 - 1), -53⟩ : Dy).val := by
      rw [hP, Dy.val_mul]
      show lat.val * c.val = _
      rw [hv, hc, F64.val_fin]; simp [Dy.val]; ring
    have hr : (Dy.round53 P).val = (90 * 2 ^ 46 - 1 : ℚ) * (2:ℚ) ^ (-46 : ℤ) := by
      have := Dy.roundTo_val_congr 53 (by norm_num) (-1074) P _ hPv
      show (Dy.roundTo 53 (-1074) P).val = _
      rw [this]
      show (Dy.round53 ⟨90 * (2 ^ 53 - 1), -53⟩).val = _
      unfold Dy.val
      rw [pole_round.1, pole_round.2]; push_cast; ring
    have hrv : (Dy.round53 P).val = 90 - (2:ℚ) ^ (-46 : ℤ) := by
      rw [hr]
      have : (2:ℚ) ^ (46:ℕ) * (2:ℚ) ^ (-46:ℤ) = 1 := by
        rw [← zpow_natCast, ← Dy.two_zpow_split]; norm_num
      linear_combination 90 * this
    have hpos := Dy.two_zpow_pos (-46)
    have hsmall : (2:ℚ) ^ (-46 : ℤ) ≤ 1 := by
      have := Dy.two_zpow_le (show (-46:ℤ) ≤ 0 by norm_num); simpa using this
    have hB : |(Dy.round53 P).val| < (2:ℚ) ^ (1024:ℤ) := by
      have : (2:ℚ) ^ (7:ℤ) ≤ (2:ℚ) ^ (1024:ℤ) := Dy.two_zpow_le (by norm_num)
      have e7 : (2:ℚ) ^ (7:ℤ) = 128 := by norm_num
      rw [hrv, abs_lt]
      generalize (2:ℚ) ^ (1024:ℤ) = B at *
      generalize (2:ℚ) ^ (-46:ℤ) = A at *
      generalize (2:ℚ) ^ (7:ℤ) = C at *
      constructor <;> linarith
    obtain ⟨hf, hval⟩ := F64.rnd_fin P (s != false) hB
    rw [hmul]
    obtain ⟨s', m', e', hfe⟩ := F64.exists_fin_of_isFinite _ hf
    refine ⟨s', m', e', hfe, ?_, ?_, fun hne => absurd hv hne⟩
    · rw [hval, hrv]; linarith
    · rw [hval, hrv]; linarith
  · rw [if_neg hE]
    have hne : lat.val ≠ 90 := by
      intro hc; apply hE
      exact (F64.eq_fin_iff _ _ hfin rfl).mpr (by rw [hc, h90])
    exact ⟨s, m, e, hlat.symm, hbb.1, lt_of_le_of_ne hbb.2 hne, fun _ => rfl⟩

/-- relation between the exact cell index `n = ⌊a·b⌋` and the coded one `c = ⌊rnd(a·b)⌋`: `n` is the cell of the
exact product, and `c` is `n`, or `n + 1` when the rounded product is exactly the integer `n + 1` (then the exact
product is within the rounding error `max(|a·b|·2⁻⁵³, 2⁻¹⁰⁷⁵)` below that integer) — finding F2. -/
def CellRel (a b : F64) (n c : ℤ) : Prop :=
  ((n:ℚ) ≤ a.val * b.val ∧ a.val * b.val < (n:ℚ) + 1) ∧
  (c = n ∨ (c = n + 1 ∧ (a * b).val = (n:ℚ) + 1 ∧
    (n:ℚ) + 1 - a.val * b.val ≤ max (|a.val * b.val| * (2:ℚ) ^ (-(53:ℤ))) ((2:ℚ) ^ (-(1075:ℤ)))))

theorem cellRel_of_bound (a : F64) (s : Bool) (m : ℕ) (e : ℤ) (ha : a = .fin s m e) (k : ℕ) (hk : |a.val * k| ≤ 2 ^ 52) :
    CellRel a (.fin false k 0) (F64.mulFloorExact a (.fin false k 0)) (F64.mulFloorCoded a (.fin false k 0)) := by
  subst ha
  have hb : (F64.fin false k 0).val = k := by rw [F64.val_fin]; simp
  have := F64.mulFloor_contains s false m k e 0 (by rw [hb]; exact hk)
  exact this


/-- generic form of the two scale steps (both coordinates), `k = m` the cells per degree -/
theorem scale_contains_gen (k : ℕ) (hk1 : 1 ≤ k) (hk : (180:ℚ) * k ≤ 2 ^ 52) (lat lon : F64)
    (h1 : F64.gt (F64.abs lat) MathF.qd = false) (h2 : (lat.isNaN || !lon.isFinite) = false) :
    let b : F64 := .fin false k 0
    (lon.isFinite = true →
      CellRel (prepLon lon) b (F64.mulFloorExact (prepLon lon) b) (F64.mulFloorCoded (prepLon lon) b) ∧
      -180 * (k:ℤ) ≤ F64.mulFloorExact (prepLon lon) b ∧ F64.mulFloorExact (prepLon lon) b < 180 * (k:ℤ)) ∧
    (lon.isFinite = false → F64.mulFloorCoded (prepLon lon) b = F64.mulFloorExact (prepLon lon) b) ∧
    CellRel (prepLat lat) b (F64.mulFloorExact (prepLat lat) b) (F64.mulFloorCoded (prepLat lat) b) ∧
    -90 * (k:ℤ) ≤ F64.mulFloorExact (prepLat lat) b ∧ F64.mulFloorExact (prepLat lat) b < 90 * (k:ℤ) := by
  intro b
  have hnan : lat.isNaN = false := by
    cases h : lat.isNaN <;> simp_all
  have hb : b.val = k := by rw [F64.val_fin]; simp
  have hk0 : (0:ℚ) < k := by exact_mod_cast hk1
  refine ⟨?_, ?_, ?_⟩
  · intro hf
    rcases prepLon_spec lon with ⟨hf', _⟩ | ⟨_, s, m, e, hp, hlo, hhi, _⟩
    · rw [hf] at hf'; exact absurd hf' (by decide)
    · have hB : |(prepLon lon).val * (k:ℚ)| ≤ 2 ^ 52 := by
        rw [abs_le]; constructor <;> nlinarith
      have hc := cellRel_of_bound (prepLon lon) s m e hp k hB
      refine ⟨hc, ?_, ?_⟩
      · obtain ⟨⟨c1, c2⟩, _⟩ := hc
        rw [hb] at c1 c2
        have : ((-180 * (k:ℤ) - 1 : ℤ) : ℚ) < ((F64.mulFloorExact (prepLon lon) b : ℤ) : ℚ) := by
          push_cast; nlinarith
        have : -180 * (k:ℤ) - 1 < F64.mulFloorExact (prepLon lon) b := by exact_mod_cast this
        omega
      · obtain ⟨⟨c1, c2⟩, _⟩ := hc
        rw [hb] at c1 c2
        have : ((F64.mulFloorExact (prepLon lon) b : ℤ) : ℚ) < ((180 * (k:ℤ) : ℤ) : ℚ) := by
          have := mul_lt_mul_of_pos_right hhi hk0
          push_cast; linarith
        exact_mod_cast this
  · intro hf
    rcases prepLon_spec lon with ⟨_, hp⟩ | ⟨hf', _⟩
    · rw [hp]
      have l : F64.mulFloorCoded .nan b = 0 := rfl
      have r : F64.mulFloorExact .nan b = 0 := by
        simp [F64.mulFloorExact, F64.toDy, Dy.mul, Dy.floor, Dy.shl]
      rw [l, r]
    · rw [hf] at hf'; exact absurd hf' (by decide)
  · obtain ⟨s, m, e, hp, hlo, hhi, _⟩ := prepLat_spec lat h1 hnan
    have hB : |(prepLat lat).val * (k:ℚ)| ≤ 2 ^ 52 := by
      rw [abs_le]; constructor <;> nlinarith
    have hc := cellRel_of_bound (prepLat lat) s m e hp k hB
    refine ⟨hc, ?_, ?_⟩
    · obtain ⟨⟨c1, c2⟩, _⟩ := hc
      rw [hb] at c1 c2
      have : ((-90 * (k:ℤ) - 1 : ℤ) : ℚ) < ((F64.mulFloorExact (prepLat lat) b : ℤ) : ℚ) := by
        push_cast; nlinarith
      have : -90 * (k:ℤ) - 1 < F64.mulFloorExact (prepLat lat) b := by exact_mod_cast this
      omega
    · obtain ⟨⟨c1, c2⟩, _⟩ := hc
      rw [hb] at c1 c2
      have : ((F64.mulFloorExact (prepLat lat) b : ℤ) : ℚ) < ((90 * (k:ℤ) : ℤ) : ℚ) := by
        have := mul_lt_mul_of_pos_right hhi hk0
        push_cast; linarith
      exact_mod_cast this

/-- **`scale_contains`, GARS** (every accepted, non-NaN input).  `scaleExact` and `scale` both succeed; in each
coordinate the exact cell index is the cell of the prepared point `(prepLon lon, prepLat lat)` — `X ≤ (lon+180)·m < X+1`
in the form `CellRel.1` — it lies in the valid range, and the coded index is the exact one or its upper neighbour in
the precise circumstance of `CellRel` (finding F2).  For an infinite longitude both give the same column. -/
theorem gars_scale_contains (lat lon : F64) (h1 : F64.gt (F64.abs lat) MathF.qd = false)
    (h2 : (lat.isNaN || !lon.isFinite) = false) :
    ∃ X Y X' Y' : ℤ, GARS.scaleExact lat lon = .ok (some (X, Y)) ∧ GARS.scale lat lon = .ok (some (X', Y')) ∧
      (lon.isFinite = true →
        CellRel (prepLon lon) (F64.ofInt GARS.m) (X + gars_lonorig * GARS.m) (X' + gars_lonorig * GARS.m) ∧
        0 ≤ X ∧ X < 360 * GARS.m) ∧
      (lon.isFinite = false → X' = X) ∧
      CellRel (prepLat lat) (F64.ofInt GARS.m) (Y + gars_latorig * GARS.m) (Y' + gars_latorig * GARS.m) ∧
      0 ≤ Y ∧ Y < 180 * GARS.m := by
  have hm : F64.ofInt GARS.m = .fin false 12 0 := rfl
  obtain ⟨g1, g2, g3, g4, g5⟩ := scale_contains_gen 12 (by norm_num) (by norm_num) lat lon h1 h2
  refine ⟨F64.mulFloorExact (prepLon lon) (F64.ofInt GARS.m) - gars_lonorig * GARS.m,
          F64.mulFloorExact (prepLat lat) (F64.ofInt GARS.m) - gars_latorig * GARS.m,
          F64.mulFloorCoded (prepLon lon) (F64.ofInt GARS.m) - gars_lonorig * GARS.m,
          F64.mulFloorCoded (prepLat lat) (F64.ofInt GARS.m) - gars_latorig * GARS.m, ?_, ?_, ?_, ?_, ?_⟩
  · rw [gars_scaleExact_eq, gars_scaleWith_eq, h1, h2]; rfl
  · rw [gars_scale_eq, gars_scaleWith_eq, h1, h2]; rfl
  · intro hf
    obtain ⟨a1, a2, a3⟩ := g1 hf
    rw [Int.sub_add_cancel, Int.sub_add_cancel, hm]
    refine ⟨a1, ?_, ?_⟩
    · show 0 ≤ F64.mulFloorExact (prepLon lon) (F64.fin false 12 0) - (-180) * 12
      push_cast at a2; omega
    · show F64.mulFloorExact (prepLon lon) (F64.fin false 12 0) - (-180) * 12 < 360 * 12
      push_cast at a3; omega
  · intro hf; rw [hm, g2 hf]
  · rw [Int.sub_add_cancel, Int.sub_add_cancel, hm]
    refine ⟨g3, ?_, ?_⟩
    · show 0 ≤ F64.mulFloorExact (prepLat lat) (F64.fin false 12 0) - (-90) * 12
      push_cast at g4; omega
    · show F64.mulFloorExact (prepLat lat) (F64.fin false 12 0) - (-90) * 12 < 180 * 12
      push_cast at g5; omega

/-- `scale` and `scaleExact` reject / return "INVALID" on exactly the same inputs (GARS) -/
theorem gars_scale_shape (lat lon : F64) :
    (∀ e, GARS.scale lat lon = .error e ↔ GARS.scaleExact lat lon = .error e) ∧
    (GARS.scale lat lon = .ok none ↔ GARS.scaleExact lat lon = .ok none) := by
  rw [gars_scale_eq, gars_scaleExact_eq, gars_scaleWith_eq, gars_scaleWith_eq]
  by_cases h1 : F64.gt (F64.abs lat) MathF.qd = true
  · simp [h1]
  · by_cases h2 : (lat.isNaN || !lon.isFinite) = true
    · simp only [h1, h2, if_true, Bool.false_eq_true, if_false]; simp
    · simp only [h1, h2, Bool.false_eq_true, if_false]
      constructor
      · intro e; constructor <;> intro h <;> cases h
      · constructor <;> intro h <;> cases h

/-- **`scale = scaleExact` whenever both products are representable** (GARS) -/
theorem gars_scale_exact_of_representable (lat lon : F64) (h1 : F64.gt (F64.abs lat) MathF.qd = false)
    (h2 : (lat.isNaN || !lon.isFinite) = false) (hf : lon.isFinite = true)
    (hx : (Dy.round53 (Dy.mul (prepLon lon).toDy (F64.ofInt GARS.m).toDy)).val = (prepLon lon).val * (F64.ofInt GARS.m).val)
    (hy : (Dy.round53 (Dy.mul (prepLat lat).toDy (F64.ofInt GARS.m).toDy)).val = (prepLat lat).val * (F64.ofInt GARS.m).val) :
    GARS.scale lat lon = GARS.scaleExact lat lon := by
  have hm : F64.ofInt GARS.m = .fin false 12 0 := rfl
  have hb : (F64.fin false 12 0).val = 12 := by rw [F64.val_fin]; simp
  have hnan : lat.isNaN = false := by
    cases h : lat.isNaN <;> simp_all
  rw [gars_scale_eq, gars_scaleExact_eq, gars_scaleWith_eq, gars_scaleWith_eq, h1, h2]
  simp only [Bool.false_eq_true, if_false]
  rw [hm] at hx hy ⊢
  have e52 : (2:ℚ) ^ 52 = 4503599627370496 := by norm_num
  have ex : F64.mulFloorCoded (prepLon lon) (.fin false 12 0) = F64.mulFloorExact (prepLon lon) (.fin false 12 0) := by
    rcases prepLon_spec lon with ⟨hf', _⟩ | ⟨_, s, m, e, hp, hlo, hhi, _⟩
    · rw [hf] at hf'; exact absurd hf' (by decide)
    · rw [hp] at hx ⊢
      rw [hp] at hlo hhi
      exact F64.mulFloor_exact_of_representable s false m 12 e 0
        (by rw [hb, e52, abs_le]; constructor <;> linarith) hx
  have ey : F64.mulFloorCoded (prepLat lat) (.fin false 12 0) = F64.mulFloorExact (prepLat lat) (.fin false 12 0) := by
    obtain ⟨s, m, e, hp, hlo, hhi, _⟩ := prepLat_spec lat h1 hnan
    rw [hp] at hy ⊢
    rw [hp] at hlo hhi
    exact F64.mulFloor_exact_of_representable s false m 12 e 0
      (by rw [hb, e52, abs_le]; constructor <;> linarith) hy
  rw [ex, ey]

/-- **`scale_contains`, Georef** — the same statement; `m = 6·10¹⁰` -/
theorem georef_scale_contains (lat lon : F64) (h1 : F64.gt (F64.abs lat) MathF.qd = false)
    (h2 : (lat.isNaN || !lon.isFinite) = false) :
    ∃ X Y X' Y' : ℤ, Georef.scaleExact lat lon = .ok (some (X, Y)) ∧ Georef.scale lat lon = .ok (some (X', Y')) ∧
      (lon.isFinite = true →
        CellRel (prepLon lon) (F64.ofInt Georef.m) (X + georef_lonorig * Georef.m) (X' + georef_lonorig * Georef.m) ∧
        0 ≤ X ∧ X < 360 * Georef.m) ∧
      (lon.isFinite = false → X' = X) ∧
      CellRel (prepLat lat) (F64.ofInt Georef.m) (Y + georef_latorig * Georef.m) (Y' + georef_latorig * Georef.m) ∧
      0 ≤ Y ∧ Y < 180 * Georef.m := by
  have hm : F64.ofInt Georef.m = .fin false 60000000000 0 := rfl
  obtain ⟨g1, g2, g3, g4, g5⟩ := scale_contains_gen 60000000000 (by norm_num) (by norm_num) lat lon h1 h2
  have hs : ∀ mulf, Georef.scaleWith mulf lat lon =
      .ok (some (mulf (prepLon lon) (F64.ofInt Georef.m) - georef_lonorig * Georef.m,
                 mulf (prepLat lat) (F64.ofInt Georef.m) - georef_latorig * Georef.m)) := by
    intro mulf
    have : Georef.scaleWith mulf lat lon =
      if F64.gt (F64.abs lat) MathF.qd then .error "lat" else
      if lat.isNaN || !lon.isFinite then .ok none else
      .ok (some (mulf (prepLon lon) (F64.ofInt Georef.m) - georef_lonorig * Georef.m,
                 mulf (prepLat lat) (F64.ofInt Georef.m) - georef_latorig * Georef.m)) := rfl
    rw [this, h1, h2]; rfl
  refine ⟨F64.mulFloorExact (prepLon lon) (F64.ofInt Georef.m) - georef_lonorig * Georef.m,
          F64.mulFloorExact (prepLat lat) (F64.ofInt Georef.m) - georef_latorig * Georef.m,
          F64.mulFloorCoded (prepLon lon) (F64.ofInt Georef.m) - georef_lonorig * Georef.m,
          F64.mulFloorCoded (prepLat lat) (F64.ofInt Georef.m) - georef_latorig * Georef.m,
          hs F64.mulFloorExact, hs F64.mulFloorCoded, ?_, ?_, ?_⟩
  · intro hf
    obtain ⟨a1, a2, a3⟩ := g1 hf
    rw [Int.sub_add_cancel, Int.sub_add_cancel, hm]
    refine ⟨a1, ?_, ?_⟩
    · show 0 ≤ F64.mulFloorExact (prepLon lon) (F64.fin false 60000000000 0) - (-180) * 60000000000
      push_cast at a2; omega
    · show F64.mulFloorExact (prepLon lon) (F64.fin false 60000000000 0) - (-180) * 60000000000 < 360 * 60000000000
      push_cast at a3; omega
  · intro hf; rw [hm, g2 hf]
  · rw [Int.sub_add_cancel, Int.sub_add_cancel, hm]
    refine ⟨g3, ?_, ?_⟩
    · show 0 ≤ F64.mulFloorExact (prepLat lat) (F64.fin false 60000000000 0) - (-90) * 60000000000
      push_cast at g4; omega
    · show F64.mulFloorExact (prepLat lat) (F64.fin false 60000000000 0) - (-90) * 60000000000 < 180 * 60000000000
      push_cast at g5; omega

/-! non-vacuity: the F2 witness `GARS::Forward(-89.916666666666671, 0.5)` — accepted, exact row 0, coded row 1 -/
example : F64.gt (F64.abs (.fin true 6327322913974955 (-46))) MathF.qd = false := by decide +kernel
example : (match GARS.scaleExact (.fin true 6327322913974955 (-46)) (.fin false 1 (-1)),
                 GARS.scale (.fin true 6327322913974955 (-46)) (.fin false 1 (-1)) with
    | .ok (some (X, Y)), .ok (some (X', Y')) => decide (X = 2166 ∧ Y = 0 ∧ X' = 2166 ∧ Y' = 1)
    | _, _ => false) = true := by decide +kernel
/-- a representable product: `lat = 45.5`, `lon = 0.25` -/
example : (Dy.round53 (Dy.mul (prepLat (.fin false 91 (-1))).toDy (F64.ofInt GARS.m).toDy)).m = 1092 := by decide +kernel

/-! ### `scale_contains` (Geohash): one rounded *division*, `floor`, and an exact addition

`Dy.divTo` is proved to be the correctly rounded quotient (`Proofs/DivTo.lean`), so the same statement holds. -/
section GeohashScale
open F64

/-- one Geohash coordinate: `x` finite with `|x| ≤ k` degrees (`k = 180` or `90`), `eps = k / 2^45` (exact).
The exact cell `⌊x·2^45/k⌋` and the coded one `⌊rnd(x / eps)⌋` are related by `CellRelQ`, and the coded
`floor(x/eps) + 2^45` (a binary64 addition) is exact. -/
theorem geohash_coord (s : Bool) (m : ℕ) (e : ℤ) (k : ℕ) (hk0 : k ≠ 0) (hk : (k:ℤ) ≤ 2 ^ 53)
    (hx : |(F64.fin s m e).val| ≤ k) :
    let x := F64.fin s m e
    let eps := (F64.fin false k 0) / shift45
    CellRelQ (x.val * (2:ℚ) ^ (45:ℕ) / k) (x / eps).val (flExact x.toDy k) (divFloorCoded x eps) ∧
    Dy.floor (F64.floor (x / eps) + shift45).toDy = divFloorCoded x eps + 2 ^ 45 ∧
    -(2:ℤ) ^ 45 ≤ flExact x.toDy k ∧ flExact x.toDy k ≤ 2 ^ 45 ∧ (x.val < k → flExact x.toDy k < 2 ^ 45) := by
  intro x eps
  obtain ⟨se, me, ee, heps, hme, hev⟩ := eps_spec k hk0 hk
  have hkq : (0:ℚ) < k := by exact_mod_cast Nat.pos_of_ne_zero hk0
  have hq : x.val / eps.val = x.val * (2:ℚ) ^ (45:ℕ) / k := by
    show x.val / ((F64.fin false k 0) / shift45).val = _
    rw [hev]; field_simp
  obtain ⟨n1, n2⟩ := flExact_spec x.toDy k (by exact_mod_cast Nat.pos_of_ne_zero hk0)
  have hxv : x.toDy.val = x.val := rfl
  rw [hxv] at n1 n2
  push_cast at n1 n2
  set n := flExact x.toDy k with hn
  have hxb := abs_le.mp hx
  have e45 : (0:ℚ) < (2:ℚ) ^ (45:ℕ) := by positivity
  have zlo : -(2:ℚ) ^ (45:ℕ) ≤ x.val * (2:ℚ) ^ (45:ℕ) / k := by
    rw [le_div_iff₀ hkq]; nlinarith
  have zhi : x.val * (2:ℚ) ^ (45:ℕ) / k ≤ (2:ℚ) ^ (45:ℕ) := by
    rw [div_le_iff₀ hkq]; nlinarith
  have e52 : (2:ℚ) ^ 52 = 128 * (2:ℚ) ^ (45:ℕ) := by norm_num
  have hz52 : |x.val / eps.val| ≤ 2 ^ 52 := by
    rw [hq, e52, abs_le]; constructor <;> linarith
  have hdc := divFloor_contains s se m me e ee hme n
  rw [← heps] at hdc
  simp only [] at hdc
  obtain ⟨hfin, hcr⟩ := hdc hz52 (by rw [hq]; exact n1) (by rw [hq]; exact n2)
  rw [hq] at hcr
  have nlo : -(2:ℤ) ^ 45 ≤ n := by
    have : ((-(2:ℤ) ^ 45 - 1 : ℤ) : ℚ) < (n:ℚ) := by push_cast; linarith
    have : -(2:ℤ) ^ 45 - 1 < n := by exact_mod_cast this
    omega
  have nhi : n ≤ (2:ℤ) ^ 45 := by
    have : (n:ℚ) ≤ ((2 ^ 45 : ℤ) : ℚ) := by push_cast; linarith
    exact_mod_cast this
  refine ⟨⟨⟨n1, n2⟩, hcr⟩, ?_, nlo, nhi, ?_⟩
  · -- exact addition of the shift
    obtain ⟨sq, mq, eq, hrep⟩ := exists_fin_of_isFinite _ hfin
    have hc : divFloorCoded x eps = Dy.floor (x / eps).toDy := by unfold divFloorCoded; rw [floor_toDy_floor]
    obtain ⟨f1, f2⟩ := Dy.floor_spec (x / eps).toDy
    have hcb : divFloorCoded x eps = n ∨ divFloorCoded x eps = n + 1 := by
      rcases hcr with h | ⟨h, _⟩
      · exact Or.inl h
      · exact Or.inr h
    rw [← hc] at f1 f2
    have hqv : (x / eps).toDy.val = (x / eps).val := rfl
    rw [hqv] at f1 f2
    have hb52 : |(x / eps).val| ≤ 2 ^ 52 := by
      have nloq : (-(2:ℚ) ^ (45:ℕ)) ≤ (n:ℚ) := by exact_mod_cast nlo
      have nhiq : (n:ℚ) ≤ (2:ℚ) ^ (45:ℕ) := by exact_mod_cast nhi
      rw [e52, abs_le]
      rcases hcb with h | h <;> rw [h] at f1 f2 <;> push_cast at f1 f2 <;> constructor <;> linarith
    rw [hc, hrep]
    rw [hrep] at hb52
    exact floor_add_shift sq mq eq hb52
  · intro hlt
    have : x.val * (2:ℚ) ^ (45:ℕ) / k < (2:ℚ) ^ (45:ℕ) := by
      rw [div_lt_iff₀ hkq]; nlinarith
    have : (n:ℚ) < ((2 ^ 45 : ℤ) : ℚ) := by push_cast; linarith
    exact_mod_cast this


theorem two_eq : (2 : F64) = .fin false 2 0 := rfl

/-- the pole: `lat = 90` is first moved to `90 − lateps/2` (exact), whose cell is the last one, `2^46 − 1` -/
theorem geohash_pole (s : Bool) (m : ℕ) (e : ℤ) (hv : (F64.fin s m e).val = 90) :
    let eps := (F64.fin false 90 0) / shift45
    Dy.floor (F64.floor ((F64.fin s m e - eps / 2) / eps) + shift45).toDy = 2 ^ 46 - 1 := by
  intro eps
  obtain ⟨se, me, ee, heps, hme, hev⟩ := eps_spec 90 (by norm_num) (by norm_num)
  have hev' : eps.val = 90 / (2:ℚ) ^ (45:ℕ) := by exact_mod_cast hev
  have big : ∀ r : ℚ, |r| ≤ 2 ^ 52 → |r| < (2:ℚ) ^ (1024:ℤ) := by
    intro r hr
    have h53 : (2:ℚ) ^ (52:ℕ) < (2:ℚ) ^ (1024:ℤ) := by
      rw [← zpow_natCast]; exact Dy.two_zpow_lt_iff.mpr (by norm_num)
    exact lt_of_le_of_lt hr h53
  -- h = eps / 2
  obtain ⟨r1, hr1, hf1⟩ := div_fin se false me 2 ee 0 (by norm_num)
  rw [← heps, ← two_eq] at hr1 hf1
  have h2v : (2 : F64).val = 2 := by rw [two_eq, val_fin]; simp
  rw [hev', h2v] at hr1
  have hr1e := hr1.eq_of_fits 45 (-45) (by norm_num) (by norm_num) (by
    rw [zpow_neg]; norm_num)
  have hr1b : |r1| ≤ 2 ^ 52 := by rw [hr1e]; norm_num [abs_le]
  obtain ⟨hfin1, hval1⟩ := hf1 (big r1 hr1b)
  obtain ⟨sh, mh, eh, hrep1⟩ := exists_fin_of_isFinite _ hfin1
  -- x' = lat − h
  obtain ⟨r2, hr2, hf2⟩ := sub_fin_isRN s sh m mh e eh
  rw [← hrep1] at hr2 hf2
  rw [hv, hval1, hr1e] at hr2
  have hr2e := hr2.eq_of_fits (45 * (2 ^ 46 - 1)) (-45) (by norm_num) (by norm_num) (by
    rw [zpow_neg]; norm_num)
  have hr2b : |r2| ≤ 2 ^ 52 := by rw [hr2e]; norm_num [abs_le]
  obtain ⟨hfin2, hval2⟩ := hf2 (big r2 hr2b)
  obtain ⟨sx, mx, ex, hrep2⟩ := exists_fin_of_isFinite _ hfin2
  -- q = x' / eps
  obtain ⟨r3, hr3, hf3⟩ := div_fin sx se mx me ex ee hme
  rw [← hrep2, ← heps] at hr3 hf3
  rw [hval2, hr2e, hev'] at hr3
  have hr3e := hr3.eq_of_fits (2 ^ 46 - 1) (-1) (by norm_num) (by norm_num) (by
    rw [zpow_neg]; norm_num)
  have hr3b : |r3| ≤ 2 ^ 52 := by rw [hr3e]; norm_num [abs_le]
  obtain ⟨hfin3, hval3⟩ := hf3 (big r3 hr3b)
  obtain ⟨sq, mq, eq, hrep3⟩ := exists_fin_of_isFinite _ hfin3
  rw [hrep3]
  rw [hrep3] at hval3
  rw [floor_add_shift sq mq eq (by rw [hval3]; exact hr3b)]
  have : Dy.floor (F64.fin sq mq eq).toDy = 2 ^ 45 - 1 := by
    apply Dy.floor_unique
    · show ((2 ^ 45 - 1 : ℤ) : ℚ) ≤ (F64.fin sq mq eq).val
      rw [hval3, hr3e]; norm_num
    · show (F64.fin sq mq eq).val < ((2 ^ 45 - 1 : ℤ) : ℚ) + 1
      rw [hval3, hr3e]; norm_num
  rw [this]; norm_num

/-- latitude argument of the Geohash scale division: the pole is moved inside by half a cell -/
def ghLat (lat : F64) : F64 := if F64.eq lat MathF.qd then lat - (MathF.qd / shift45) / 2 else lat

theorem geohash_scale_eq (lat lon : F64) :
    Geohash.scale lat lon =
      if F64.gt (F64.abs lat) MathF.qd then .error "lat" else
      if lat.isNaN || !lon.isFinite then .ok none else
      .ok (some ((Dy.floor (F64.floor (prepLon lon / (MathF.hd / shift45)) + shift45).toDy).toNat,
                 (Dy.floor (F64.floor (ghLat lat / (MathF.qd / shift45)) + shift45).toDy).toNat)) := rfl

theorem geohash_scaleExact_eq (lat lon : F64) :
    Geohash.scaleExact lat lon =
      if !(lat.isFinite && lon.isFinite) then none else
      some ((flExact (prepLon lon).toDy 180 + 2 ^ 45).toNat,
            (if F64.eq lat MathF.qd then 2 ^ 46 - 1 else flExact lat.toDy 90 + 2 ^ 45 : ℤ).toNat) := rfl

/-- **`scale_contains`, Geohash** (every accepted finite position).  Both `scaleExact` and `scale` succeed with
46-bit coordinates `n + 2^45`, `c + 2^45`; in longitude the exact index `nx = ⌊lon'·2^45/180⌋` and the coded one
`cx = ⌊rnd(lon'/loneps)⌋` are related by `CellRelQ` (`cx = nx`, or `cx = nx + 1` when the rounded quotient is exactly
that integer: class F2); in latitude the same away from the pole, and at `lat = 90` both give the last row `2^46 − 1`.
The additions of `2^45` and the constants `loneps = 180/2^45`, `lateps = 90/2^45` are exact (proved, not assumed). -/
theorem geohash_scale_contains (lat lon : F64) (h1 : F64.gt (F64.abs lat) MathF.qd = false)
    (h2 : (lat.isNaN || !lon.isFinite) = false) (hf : lon.isFinite = true) :
    ∃ nx ny cx cy : ℤ,
      Geohash.scaleExact lat lon = some ((nx + 2 ^ 45).toNat, (ny + 2 ^ 45).toNat) ∧
      Geohash.scale lat lon = .ok (some ((cx + 2 ^ 45).toNat, (cy + 2 ^ 45).toNat)) ∧
      (-(2:ℤ) ^ 45 ≤ nx ∧ nx < 2 ^ 45) ∧ (-(2:ℤ) ^ 45 ≤ ny ∧ ny < 2 ^ 45) ∧
      CellRelQ ((prepLon lon).val * (2:ℚ) ^ (45:ℕ) / 180) (prepLon lon / (MathF.hd / shift45)).val nx cx ∧
      (lat.val = 90 → ny = 2 ^ 45 - 1 ∧ cy = ny) ∧
      (lat.val ≠ 90 → CellRelQ (lat.val * (2:ℚ) ^ (45:ℕ) / 90) (lat / (MathF.qd / shift45)).val ny cy) := by
  have hnan : lat.isNaN = false := by
    cases h : lat.isNaN <;> simp_all
  obtain ⟨sl, ml, el, hl, hlb⟩ := lat_accepted lat h1 hnan
  have hlatf : lat.isFinite = true := by rw [hl]; rfl
  have hfin : (!(lat.isFinite && lon.isFinite)) = false := by rw [hlatf, hf]; rfl
  -- longitude
  rcases prepLon_spec lon with ⟨hf', _⟩ | ⟨_, s, m, e, hp, hlo, hhi, _⟩
  · rw [hf] at hf'; exact absurd hf' (by decide)
  have hxb : |(F64.fin s m e).val| ≤ ((180:ℕ):ℚ) := by
    rw [← hp, abs_le]; push_cast; constructor <;> linarith
  obtain ⟨a1, a2, a3, a4, a5⟩ := geohash_coord s m e 180 (by norm_num) (by norm_num) hxb
  rw [← hp] at a1 a2 a3 a4 a5
  have hhd : MathF.hd = .fin false 180 0 := rfl
  have hqd : MathF.qd = .fin false 90 0 := rfl
  have a5' := a5 (by push_cast; exact hhi)
  have h90 : (MathF.qd).val = 90 := by rw [hqd, F64.val_fin]; simp
  rw [geohash_scaleExact_eq, geohash_scale_eq, h1, h2, hfin]
  simp only [Bool.false_eq_true, if_false]
  by_cases hE : F64.eq lat MathF.qd = true
  · -- the pole
    have hv : lat.val = 90 := by rw [(F64.eq_fin_iff _ _ hlatf rfl).mp hE, h90]
    have hpole := geohash_pole sl ml el (by rw [← hl]; exact hv)
    simp only [] at hpole
    rw [← hl, ← hqd] at hpole
    refine ⟨flExact (prepLon lon).toDy 180, 2 ^ 45 - 1, divFloorCoded (prepLon lon) (MathF.hd / shift45), 2 ^ 45 - 1,
      ?_, ?_, ⟨a3, a5'⟩, ⟨by norm_num, by norm_num⟩, ?_, fun _ => ⟨rfl, rfl⟩, fun hne => absurd hv hne⟩
    · rw [if_pos hE]; norm_num
    · unfold ghLat; rw [if_pos hE, hpole, hhd, a2]; norm_num
    · push_cast at a1; rw [hhd]; exact a1
  · have hne : lat.val ≠ 90 := by
      intro hc; apply hE
      exact (F64.eq_fin_iff _ _ hlatf rfl).mpr (by rw [hc, h90])
    have hyb : |(F64.fin sl ml el).val| ≤ ((90:ℕ):ℚ) := by rw [← hl]; push_cast; exact hlb
    obtain ⟨b1, b2, b3, b4, b5⟩ := geohash_coord sl ml el 90 (by norm_num) (by norm_num) hyb
    rw [← hl] at b1 b2 b3 b4 b5
    have b5' := b5 (by push_cast; exact lt_of_le_of_ne (abs_le.mp hlb).2 hne)
    refine ⟨flExact (prepLon lon).toDy 180, flExact lat.toDy 90, divFloorCoded (prepLon lon) (MathF.hd / shift45),
      divFloorCoded lat (MathF.qd / shift45), ?_, ?_, ⟨a3, a5'⟩, ⟨b3, b5'⟩, ?_, fun hc => absurd hc hne, fun _ => ?_⟩
    · rw [if_neg hE]
    · unfold ghLat; rw [if_neg hE, hhd, hqd, a2, b2]
    · push_cast at a1; rw [hhd]; exact a1
    · push_cast at b1; rw [hqd]; exact b1

example : F64.gt (F64.abs (.fin false 91 (-1))) MathF.qd = false ∧ (F64.fin false 1 (-2)).isFinite = true := by
  decide +kernel

/-- **OSGB, first scale step** (`xh = ⌊x / tile⌋`, one rounded division): for every finite easting/northing with
`|x| ≤ 10^7` m and `n = ⌊x / 10^5⌋` (exact), the coded 100 km tile index is `n`, or `n + 1` when the rounded quotient is
exactly `n + 1` (class F2).  The later steps of `GridReference` (`x − tile·xh`, the digit scaling) are not covered. -/
theorem osgb_tile_contains (s : Bool) (m : ℕ) (e : ℤ) (hx : |(F64.fin s m e).val| ≤ 10000000) (n : ℤ)
    (h1 : (n:ℚ) ≤ (F64.fin s m e).val / 100000) (h2 : (F64.fin s m e).val / 100000 < (n:ℚ) + 1) :
    CellRelQ ((F64.fin s m e).val / 100000) ((F64.fin s m e) / F64.ofInt osgb_tile).val n
      (OSGB.fl ((F64.fin s m e) / F64.ofInt osgb_tile)) := by
  have ht : F64.ofInt osgb_tile = .fin false 100000 0 := rfl
  have hv : (F64.fin false 100000 0).val = 100000 := by rw [F64.val_fin]; simp
  have hq : |(F64.fin s m e).val / (F64.fin false 100000 0).val| ≤ 2 ^ 52 := by
    rw [hv, abs_div, abs_of_pos (by norm_num : (0:ℚ) < 100000), div_le_iff₀ (by norm_num)]
    have : (10000000:ℚ) ≤ 2 ^ 52 * 100000 := by norm_num
    linarith
  have := divFloor_contains s false m 100000 e 0 (by norm_num) n hq (by rw [hv]; exact h1) (by rw [hv]; exact h2)
  rw [hv] at this
  rw [ht]
  exact ⟨⟨h1, h2⟩, this.2⟩


end GeohashScale

/-! ### integer codec round trips (all inputs)

`readNum ∘ digitsW` for every table (`Proofs/Digits.lean`, by induction), then `decodeInt ∘ encodeInt` for GARS. -/

/-- **digit strings read back**: for a table whose `lookup` inverts `chr` on `[0, b)`,
`readNum (toBytes (digitsW tbl b w n)) = some (n mod b^w)` (every width, every `n`) -/
theorem digits_readback (tbl : List Char) (b : Nat) (hb : 0 < b)
    (ht : ∀ k < b, lookup tbl (chr tbl k).toNat = some k) (w n : Nat) :
    readNum tbl b (toBytes (digitsW tbl b w n)) = some (n % b ^ w) :=
  Digits.readNum_digitsW tbl b hb ht w n

theorem gars_lon_readback (n : Nat) : readNum GARS.digits 10 (toBytes (digitsW GARS.digits 10 3 n)) = some (n % 1000) :=
  digits_readback _ 10 (by norm_num) gars_digits_lookup 3 n
theorem gars_lat_readback (n : Nat) : readNum GARS.letters 24 (toBytes (digitsW GARS.letters 24 2 n)) = some (n % 576) :=
  digits_readback _ 24 (by norm_num) gars_letters_lookup 2 n
theorem georef_digits_readback (w n : Nat) :
    readNum Georef.digits 10 (toBytes (digitsW Georef.digits 10 w n)) = some (n % 10 ^ w) :=
  digits_readback _ 10 (by norm_num) (by decide) w n
theorem osgb_digits_readback (w n : Nat) :
    readNum OSGB.digits 10 (toBytes (digitsW OSGB.digits 10 w n)) = some (n % 10 ^ w) :=
  digits_readback _ 10 (by norm_num) osgb_digits_lookup w n

/-- decoder on a well-formed 5/6/7-character string given by its table indices -/
theorem gars_decode_chars (a b c d e : Nat) (k6 k7 : Nat) (prec : Nat) (hp : prec ≤ 2) (cp : Bool)
    (ha : a < 10) (hb : b < 10) (hc : c < 10) (hd : d < 24) (he : e < 24)
    (h1 : 1 ≤ 100 * a + 10 * b + c) (h2 : 100 * a + 10 * b + c ≤ 720) (h3 : 24 * d + e < 360)
    (h6 : 1 ≤ k6 ∧ k6 ≤ 4) (h7 : 1 ≤ k7 ∧ k7 ≤ 9) :
    GARS.decodeInt (toBytes ([chr GARS.digits a, chr GARS.digits b, chr GARS.digits c, chr GARS.letters d, chr GARS.letters e]
        ++ (if prec > 0 then [chr GARS.digits k6] else []) ++ (if prec > 1 then [chr GARS.digits k7] else []))) cp
     = let lat0 : Int := (24 * d + e : Nat) - 180
       let lon0 : Int := (100 * a + 10 * b + c : Nat) - 1 - 360
       let lat1 : Int := if prec > 0 then 2 * lat0 + (1 - ((k6 : Int) - 1) / 2) else lat0
       let lon1 : Int := if prec > 0 then 2 * lon0 + ((k6 : Int) - 1) % 2 else lon0
       let lat2 : Int := if prec > 1 then 3 * lat1 + (2 - ((k7 : Int) - 1) / 3) else lat1
       let lon2 : Int := if prec > 1 then 3 * lon1 + ((k7 : Int) - 1) % 3 else lon1
       let u : Int := 2 * (if prec > 0 then 2 else 1) * (if prec > 1 then 3 else 1)
       .ok ⟨if cp then 2 * lat2 + 1 else lat2, if cp then 2 * lon2 + 1 else lon2, if cp then u * 2 else u, prec⟩ := by
  have hk6 : k6 < 10 := by omega
  have hk7 : k7 < 10 := by omega
  have c1 : ¬ (((a:Int) * 10 + b) * 10 + c < 1 ∨ 720 < ((a:Int) * 10 + b) * 10 + c) := by omega
  have c2 : ((d:Int) * 24 + e < 360) := by omega
  have c5 : ¬ (k6 = 0 ∨ 4 < k6) := by omega
  have c6 : ¬ (k7 = 0) := by omega
  unfold GARS.decodeInt
  obtain rfl | rfl | rfl : prec = 0 ∨ prec = 1 ∨ prec = 2 := by omega
  all_goals
    simp only [toBytes, gars_baselen, gars_maxlen, gars_lonlen, gars_latlen,
      gars_baselon, gars_baselat, gars_mult1, gars_mult2, gars_mult3, gars_latorig, gars_lonorig, Gen.MathC.td]
    cases cp <;>
    simp [gars_digits_lookup a ha, gars_digits_lookup b hb, gars_digits_lookup c hc, gars_letters_lookup d hd, gars_letters_lookup e he,
      gars_digits_lookup k6 hk6, gars_digits_lookup k7 hk7, c1, c2, c5, c6]
  all_goals
    show Except.ok _ = Except.ok _
    congr 1
    simp only [GARS.Dec.mk.injEq, and_true]
    constructor <;> omega


theorem gars_encodeInt_form (X Y : Int) (prec : Nat) :
    GARS.encodeInt X Y prec =
      let ilon := X * 2 / 12; let ilat := Y * 2 / 12
      let x := X - ilon * 12 / 2; let y := Y - ilat * 12 / 2
      let n := (ilon + 1).toNat; let l := ilat.toNat
      [chr GARS.digits (n / 10 / 10 % 10), chr GARS.digits (n / 10 % 10), chr GARS.digits (n % 10),
       chr GARS.letters (l / 24 % 24), chr GARS.letters (l % 24)] ++
      (if prec > 0 then [chr GARS.digits (2 * (2 - 1 - y / 3) + x / 3 + 1).toNat] else []) ++
      (if prec > 1 then [chr GARS.digits (3 * (3 - 1 - y % 3) + x % 3 + 1).toNat] else []) := by
  simp [GARS.encodeInt, digitsW, GARS.m, gars_mult1, gars_m, gars_baselon, gars_lonlen, gars_baselat, gars_latlen, gars_mult2, gars_mult3]

/-- cells per degree at precision 0/1/2: 2, 4, 12 -/
def garsUnit (prec : Nat) : Int := 2 * (if prec > 0 then 2 else 1) * (if prec > 1 then 3 else 1)

/-- **`decode_encode_int`, GARS** (all cells, all precisions, both `centerp`): decoding the code of the finest-level
cell `(X, Y)` returns the precision and the cell of `(X, Y)` at that precision — `lon1 = ⌊X / (m/u)⌋ + lonorig·u`
in units of `1/u` degree, `u = garsUnit prec` (or the centre `2·lon1 + 1` in units `1/(2u)`). -/
theorem gars_decode_encode (X Y : Int) (hX : 0 ≤ X ∧ X < 360 * GARS.m) (hY : 0 ≤ Y ∧ Y < 180 * GARS.m)
    (prec : Nat) (hp : prec ≤ 2) (cp : Bool) :
    GARS.decodeInt (toBytes (GARS.encodeInt X Y prec)) cp =
      let u := garsUnit prec
      let lat1 := Y / (GARS.m / u) + gars_latorig * u
      let lon1 := X / (GARS.m / u) + gars_lonorig * u
      .ok ⟨if cp then 2 * lat1 + 1 else lat1, if cp then 2 * lon1 + 1 else lon1, if cp then u * 2 else u, prec⟩ := by
  have hm : GARS.m = 12 := rfl
  rw [hm] at hX hY
  rw [gars_encodeInt_form]
  simp only []
  rw [gars_decode_chars _ _ _ _ _ _ _ prec hp cp (Nat.mod_lt _ (by norm_num)) (Nat.mod_lt _ (by norm_num))
    (Nat.mod_lt _ (by norm_num)) (Nat.mod_lt _ (by norm_num)) (Nat.mod_lt _ (by norm_num))
    (by omega) (by omega) (by omega) (by omega) (by omega)]
  simp only [garsUnit, hm, gars_latorig, gars_lonorig]
  obtain rfl | rfl | rfl : prec = 0 ∨ prec = 1 ∨ prec = 2 := by omega
  all_goals
    cases cp <;>
    · simp only [Nat.lt_irrefl, Nat.zero_lt_one, Nat.one_lt_two, Nat.zero_lt_two, gt_iff_lt, if_true, if_false,
        Bool.false_eq_true, Nat.not_lt_zero]
      congr 1
      simp only [GARS.Dec.mk.injEq, and_true]
      constructor <;> omega

example : (match GARS.decodeInt (toBytes (GARS.encodeInt 2167 1085 2)) true with
    | .ok d => decide (d = ⟨2 * (1085 - 1080) + 1, 2 * (2167 - 2160) + 1, 24, 2⟩) | .error _ => false) = true := by decide

/-- **`decode_encode_int`, Geohash** (every cell, every length `≤ 18`): decoding the hash of `(ulon, ulat)` returns
the length and the top `⌈5·len/2⌉` bits of `ulon` and the top `⌊5·len/2⌋` bits of `ulat` (as 46-bit numbers) -/
theorem geohash_decode_encode (ulon ulat len : Nat) (hlen : len ≤ 18) :
    Geohash.decodeInt (toBytes (Geohash.encodeInt ulon ulat len)) =
      .ok ⟨ulon / 2 ^ (46 - (5 * len + 1) / 2) % 2 ^ ((5 * len + 1) / 2),
           ulat / 2 ^ (46 - 5 * len / 2) % 2 ^ (5 * len / 2), len⟩ := by
  obtain ⟨h1, h2⟩ := GeohashBits.go_encodeInt ulon ulat len hlen
  unfold Geohash.decodeInt
  have hmin : min Geohash.maxlen (toBytes (Geohash.encodeInt ulon ulat len)).length = len := by
    rw [h1]; show min 18 len = len
    omega
  simp only [hmin]
  rw [List.take_of_length_le (by rw [h1]), h2]
  rfl

/-- for 46-bit cell coordinates the decoded numbers are plain right shifts -/
theorem geohash_decode_encode46 (ulon ulat len : Nat) (hlen : len ≤ 18) (h1 : ulon < 2 ^ 46) (h2 : ulat < 2 ^ 46) :
    Geohash.decodeInt (toBytes (Geohash.encodeInt ulon ulat len)) =
      .ok ⟨ulon >>> (46 - (5 * len + 1) / 2), ulat >>> (46 - 5 * len / 2), len⟩ := by
  rw [geohash_decode_encode ulon ulat len hlen, Nat.shiftRight_eq_div_pow, Nat.shiftRight_eq_div_pow]
  have key : ∀ u k : Nat, u < 2 ^ 46 → k ≤ 46 → u / 2 ^ (46 - k) % 2 ^ k = u / 2 ^ (46 - k) := by
    intro u k hu hk
    apply Nat.mod_eq_of_lt
    rw [Nat.div_lt_iff_lt_mul (Nat.pos_of_ne_zero (by simp))]
    rw [← Nat.pow_add, show k + (46 - k) = 46 by omega]; exact hu
  rw [key ulon _ h1 (by omega), key ulat _ h2 (by omega)]

example : (match Geohash.decodeInt (toBytes (Geohash.encodeInt (2^45 + 12345678901) (2^45 + 333) 7)) with
    | .ok d => decide (d = ⟨(2^45 + 12345678901) >>> 28, (2^45 + 333) >>> 29, 7⟩) | .error _ => false) = true := by decide

/-! ### Georef: `decodeInt ∘ encodeInt` for every cell and every precision (tile, degree, and the digit loop) -/

/-- one step of the digit loop of `Georef::Reverse` on known digits -/
def georefStep (xd yd : Nat → Nat) (i : Nat) (st : Int × Int × Int) : Int × Int × Int :=
  ((if i ≠ 0 then 10 else 6) * st.1 + (xd i : Int), (if i ≠ 0 then 10 else 6) * st.2.1 + (yd i : Int),
   st.2.2 * (if i ≠ 0 then 10 else 6))

theorem georef_decode_long (s : List Nat) (cp : Bool) (k0 k1 k2 k3 p : Nat) (hp2 : 2 ≤ p) (hp11 : p ≤ 11)
    (hlen : s.length = 4 + 2 * p)
    (h0 : lookup Georef.lontile (s.getD 0 0) = some k0) (h1 : lookup Georef.lattile (s.getD 1 0) = some k1)
    (h2 : lookup Georef.degrees (s.getD 2 0) = some k2) (h3 : lookup Georef.degrees (s.getD 3 0) = some k3)
    (hdig : ((s.drop 4).any fun c => !decide (48 ≤ c ∧ c ≤ 57)) = false)
    (xd yd : Nat → Nat)
    (hxd : ∀ i, i < p → lookup Georef.digits (s.getD (4 + i) 0) = some (xd i))
    (hyd : ∀ i, i < p → lookup Georef.digits (s.getD (4 + i + p) 0) = some (yd i))
    (h6 : xd 0 < 6 ∧ yd 0 < 6) :
    Georef.decodeInt s cp =
      .ok (let st := (List.range p).foldl (fun st i => georefStep xd yd i st)
              (((k0:Int) + -180 / 15) * 15 + k2, ((k1:Int) + -90 / 15) * 15 + k3, 1 * 15)
           ⟨if cp then 2 * st.2.1 + 1 else st.2.1, if cp then 2 * st.1 + 1 else st.1,
            if cp then st.2.2 * 2 else st.2.2, p⟩) := by
  have hlenI : (s.length : Int) = 4 + 2 * p := by exact_mod_cast hlen
  have hprec : (2 + (4 + 2 * (p:Int)) - 4) / 2 - 1 = p := by omega
  have c1 : ¬ (4 + 2 * (p:Int) < 4 - 2) := by omega
  have c2 : 4 + 2 * (p:Int) > 2 := by omega
  have c3 : ¬ (4 + 2 * (p:Int) < 4) := by omega
  have c4 : 4 + 2 * (p:Int) > 4 := by omega
  have c5 : ¬ ((4 + 2 * (p:Int)) % 2 ≠ 0) := by omega
  have c6 : ¬ ((p:Int) = 1) := by omega
  have c7 : ¬ ((p:Int) > 11) := by omega
  have ht : Int.toNat 4 = 4 := rfl
  unfold Georef.decodeInt
  simp only [hlenI, georef_baselen, georef_tile, georef_lonorig, georef_latorig, georef_maxprec, georef_base, h0, h1, h2, h3, hprec,
    c1, c2, c3, c4, c5, c6, c7, ht, hdig, if_true, if_false, Int.toNat_natCast, Bool.false_eq_true, pure_bind]
  rw [GeorefLoop.forIn_yield _ _ _ (georefStep xd yd) (by
    intro i hi st
    have hi' : i < p := List.mem_range.mp hi
    rw [hxd i hi', hyd i hi']
    by_cases h : i = 0
    · subst h
      have a1 : ((xd 0 : Nat) : Int) < 6 := by exact_mod_cast h6.1
      have a2 : ((yd 0 : Nat) : Int) < 6 := by exact_mod_cast h6.2
      simp [georefStep, a1, a2, pure, Except.pure]
    · simp [georefStep, h, pure, Except.pure])]
  cases cp <;> rfl


/-- minutes-and-decimals weight after `j` digits: `1, 6, 60, 600, …` -/
def georefW (j : Nat) : Int := if j = 0 then 1 else 6 * 10 ^ (j - 1)

/-- value of the digit loop after `j` steps on the big-endian digits of `x`, `y` (width `p`) -/
theorem georef_fold (p x y : Nat) (hp : 1 ≤ p) (hx : x < 6 * 10 ^ (p - 1)) (hy : y < 6 * 10 ^ (p - 1))
    (lon0 lat0 u0 : Int) (j : Nat) (hj : j ≤ p) :
    (List.range j).foldl (fun st i => georefStep (fun i => x / 10 ^ (p - 1 - i) % 10) (fun i => y / 10 ^ (p - 1 - i) % 10) i st)
        (lon0, lat0, u0)
      = (lon0 * georefW j + ((x / 10 ^ (p - j) : Nat) : Int), lat0 * georefW j + ((y / 10 ^ (p - j) : Nat) : Int),
         u0 * georefW j) := by
  have h10 : (10:Nat) ^ p = 10 * 10 ^ (p - 1) := by
    conv_lhs => rw [show p = (p - 1) + 1 by omega]
    rw [Nat.pow_succ, Nat.mul_comm]
  have e1 : x / 10 ^ p = 0 := by apply Nat.div_eq_of_lt; omega
  have e2 : y / 10 ^ p = 0 := by apply Nat.div_eq_of_lt; omega
  have w0 : georefW 0 = 1 := rfl
  have w1 : georefW 1 = 6 := by decide
  induction j with
  | zero =>
    rw [List.range_zero, List.foldl_nil, Nat.sub_zero, e1, e2, w0]
    refine Prod.ext ?_ (Prod.ext ?_ ?_) <;> simp only [] <;> omega
  | succ j ih =>
    rw [List.range_succ, List.foldl_append, ih (by omega)]
    simp only [List.foldl_cons, List.foldl_nil, georefStep]
    by_cases h0 : j = 0
    · subst h0
      have f1 : x / 10 ^ (p - 1) < 6 := by rw [Nat.div_lt_iff_lt_mul (by positivity)]; exact hx
      have f2 : y / 10 ^ (p - 1) < 6 := by rw [Nat.div_lt_iff_lt_mul (by positivity)]; exact hy
      rw [Nat.sub_zero, Nat.sub_zero, Nat.zero_add, e1, e2, w0, w1]
      rw [Nat.mod_eq_of_lt (by omega : x / 10 ^ (p - 1) < 10), Nat.mod_eq_of_lt (by omega : y / 10 ^ (p - 1) < 10)]
      generalize x / 10 ^ (p - 1) = a
      generalize y / 10 ^ (p - 1) = b
      simp only [ne_eq, not_true_eq_false, if_false]
      refine Prod.ext ?_ (Prod.ext ?_ ?_) <;> simp only [] <;> omega
    · have hj1 : p - 1 - j + 1 = p - j := by omega
      have hA : x / 10 ^ (p - j) = x / 10 ^ (p - 1 - j) / 10 := by
        rw [← hj1, Nat.pow_succ, Nat.div_div_eq_div_mul]
      have hB : y / 10 ^ (p - j) = y / 10 ^ (p - 1 - j) / 10 := by
        rw [← hj1, Nat.pow_succ, Nat.div_div_eq_div_mul]
      have hW : georefW (j + 1) = 10 * georefW j := by
        unfold georefW
        rw [if_neg (by omega), if_neg h0, show j + 1 - 1 = (j - 1) + 1 by omega, Int.pow_succ]
        omega
      rw [hA, hB, hW, show p - (j + 1) = p - 1 - j by omega]
      simp only [ne_eq, h0, not_false_eq_true, if_true]
      generalize x / 10 ^ (p - 1 - j) = A
      generalize y / 10 ^ (p - 1 - j) = B
      rw [Int.mul_left_comm lon0 10, Int.mul_left_comm lat0 10, Int.mul_left_comm u0 10]
      generalize lon0 * georefW j = L
      generalize lat0 * georefW j = M
      generalize u0 * georefW j = U
      refine Prod.ext ?_ (Prod.ext ?_ ?_) <;> simp only [] <;> omega


theorem georef_digits_lookup : ∀ k < 10, lookup Georef.digits (chr Georef.digits k).toNat = some k := by decide
theorem georef_digit_bytes : ∀ k < 10, 48 ≤ (chr Georef.digits k).toNat ∧ (chr Georef.digits k).toNat ≤ 57 := by decide

theorem georef_digits_any (w n : Nat) :
    ∀ c ∈ toBytes (digitsW Georef.digits 10 w n), 48 ≤ c ∧ c ≤ 57 := by
  intro c hc
  simp only [toBytes, List.mem_map] at hc
  obtain ⟨ch, hch, rfl⟩ := hc
  obtain ⟨k, hk, rfl⟩ := Digits.digitsW_mem Georef.digits 10 (by norm_num) w n ch hch
  exact georef_digit_bytes k hk

theorem getD_four (a b c d : Nat) (rest : List Nat) (i : Nat) : (a :: b :: c :: d :: rest).getD (4 + i) 0 = rest.getD i 0 := by
  rw [Nat.add_comm]; rfl

/-- **`decode_encode_int`, Georef, minutes and finer** (`2 ≤ prec ≤ 11`, every cell, both `centerp`): the decoded
numerators are `⌊X / 10^(11−prec)⌋ + lonorig·W`, `W = 6·10^(prec−1)` cells per degree, over `unit = 15·W` -/
theorem georef_decode_encode_long (X Y : Int) (hX : 0 ≤ X ∧ X < 360 * Georef.m) (hY : 0 ≤ Y ∧ Y < 180 * Georef.m)
    (p : Nat) (hp2 : 2 ≤ p) (hp11 : p ≤ 11) (cp : Bool) :
    Georef.decodeInt (toBytes (Georef.encodeInt X Y p)) cp =
      let W := georefW p
      let lat1 := Y / 10 ^ (11 - p) + georef_latorig * W
      let lon1 := X / 10 ^ (11 - p) + georef_lonorig * W
      .ok ⟨if cp then 2 * lat1 + 1 else lat1, if cp then 2 * lon1 + 1 else lon1,
           if cp then 15 * W * 2 else 15 * W, p⟩ := by
  have hm : Georef.m = 60000000000 := rfl
  rw [hm] at hX hY
  -- the string
  have hpn : ¬ ((p:Int) < 0) := by omega
  have hp0 : ¬ ((p:Int) = 0) := by omega
  unfold Georef.encodeInt
  simp only [hpn, hp0, if_false, hm, georef_tile, georef_base, georef_maxprec, Int.toNat_natCast]
  set ilon := X / 60000000000 with hilon
  set ilat := Y / 60000000000 with hilat
  have hd : ((11:Int) - p).toNat = 11 - p := by omega
  rw [hd]
  set xN := ((X - 60000000000 * ilon) / 10 ^ (11 - p)).toNat with hxN
  set yN := ((Y - 60000000000 * ilat) / 10 ^ (11 - p)).toNat with hyN
  -- bounds
  have i1 : 0 ≤ ilon ∧ ilon < 360 := by omega
  have i2 : 0 ≤ ilat ∧ ilat < 180 := by omega
  have hpow : (10:Int) ^ (11 - p) * (6 * 10 ^ (p - 1)) = 60000000000 := by
    have : (11 - p) + (p - 1) = 10 := by omega
    rw [Int.mul_comm, Int.mul_assoc, ← Int.pow_add, Nat.add_comm, this]; norm_num
  have hpowpos : (0:Int) < 10 ^ (11 - p) := by positivity
  have hpow' : (6:Int) * 10 ^ (p - 1) * 10 ^ (11 - p) = 60000000000 := by rw [Int.mul_comm]; exact hpow
  have r0 : 0 ≤ X - 60000000000 * ilon ∧ X - 60000000000 * ilon < 60000000000 := by omega
  have r1 : 0 ≤ Y - 60000000000 * ilat ∧ Y - 60000000000 * ilat < 60000000000 := by omega
  have hxq : (X - 60000000000 * ilon) / 10 ^ (11 - p) < 6 * 10 ^ (p - 1) :=
    Int.ediv_lt_of_lt_mul hpowpos (by rw [hpow']; exact r0.2)
  have hyq : (Y - 60000000000 * ilat) / 10 ^ (11 - p) < 6 * 10 ^ (p - 1) :=
    Int.ediv_lt_of_lt_mul hpowpos (by rw [hpow']; exact r1.2)
  have hxq0 : 0 ≤ (X - 60000000000 * ilon) / 10 ^ (11 - p) := Int.ediv_nonneg r0.1 hpowpos.le
  have hyq0 : 0 ≤ (Y - 60000000000 * ilat) / 10 ^ (11 - p) := Int.ediv_nonneg r1.1 hpowpos.le
  have hxlt : xN < 6 * 10 ^ (p - 1) := by
    have : ((xN : Nat) : Int) < ((6 * 10 ^ (p - 1) : Nat) : Int) := by
      rw [hxN, Int.toNat_of_nonneg hxq0]; push_cast; exact hxq
    exact_mod_cast this
  have hylt : yN < 6 * 10 ^ (p - 1) := by
    have : ((yN : Nat) : Int) < ((6 * 10 ^ (p - 1) : Nat) : Int) := by
      rw [hyN, Int.toNat_of_nonneg hyq0]; push_cast; exact hyq
    exact_mod_cast this
  -- normal form of the byte string
  have ht10 : Int.toNat 10 = 10 := rfl
  simp only [toBytes, List.map_append, List.cons_append, List.nil_append, List.map_cons, ht10]
  have hdx : (List.map Char.toNat (digitsW Georef.digits 10 p xN)) = toBytes (digitsW Georef.digits 10 p xN) := rfl
  have hdy : (List.map Char.toNat (digitsW Georef.digits 10 p yN)) = toBytes (digitsW Georef.digits 10 p yN) := rfl
  rw [hdx, hdy]
  have lx : (toBytes (digitsW Georef.digits 10 p xN)).length = p := by simp [toBytes, Digits.digitsW_length]
  have ly : (toBytes (digitsW Georef.digits 10 p yN)).length = p := by simp [toBytes, Digits.digitsW_length]
  rw [georef_decode_long ((chr Georef.lontile (ilon / 15).toNat).toNat ::
        (chr Georef.lattile (ilat / 15).toNat).toNat ::
          (chr Georef.degrees (ilon % 15).toNat).toNat ::
            (chr Georef.degrees (ilat % 15).toNat).toNat ::
              (toBytes (digitsW Georef.digits 10 p xN) ++ toBytes (digitsW Georef.digits 10 p yN)))
    cp (ilon / 15).toNat (ilat / 15).toNat (ilon % 15).toNat (ilat % 15).toNat p hp2 hp11
    (by simp only [List.length_cons, List.length_append, lx, ly]; omega)
    (georef_lontile_lookup _ (by omega)) (georef_lattile_lookup _ (by omega))
    (georef_degrees_lookup _ (by omega)) (georef_degrees_lookup _ (by omega))
    (by
      simp only [List.drop_succ_cons, List.drop_zero]
      rw [List.any_eq_false]
      intro c hc
      rcases List.mem_append.mp hc with h | h
      · have := georef_digits_any p xN c h; simp [this]
      · have := georef_digits_any p yN c h; simp [this])
    (fun i => xN / 10 ^ (p - 1 - i) % 10) (fun i => yN / 10 ^ (p - 1 - i) % 10)
    (by
      intro i hi
      rw [getD_four, List.getD_eq_getElem?_getD, List.getElem?_append_left (by rw [lx]; exact hi),
        ← List.getD_eq_getElem?_getD, GeorefLoop.digitsW_getD _ _ _ _ _ hi]
      exact georef_digits_lookup _ (Nat.mod_lt _ (by norm_num)))
    (by
      intro i hi
      rw [Nat.add_assoc, getD_four, List.getD_eq_getElem?_getD, List.getElem?_append_right (by rw [lx]; omega), lx,
        show i + p - p = i by omega, ← List.getD_eq_getElem?_getD, GeorefLoop.digitsW_getD _ _ _ _ _ hi]
      exact georef_digits_lookup _ (Nat.mod_lt _ (by norm_num)))
    (by
      have f1 : xN / 10 ^ (p - 1) < 6 := by rw [Nat.div_lt_iff_lt_mul (by positivity)]; exact hxlt
      have f2 : yN / 10 ^ (p - 1) < 6 := by rw [Nat.div_lt_iff_lt_mul (by positivity)]; exact hylt
      simp only [Nat.sub_zero]
      constructor
      · rw [Nat.mod_eq_of_lt (by omega)]; exact f1
      · rw [Nat.mod_eq_of_lt (by omega)]; exact f2)]
  rw [georef_fold p xN yN (by omega) hxlt hylt _ _ _ p (Nat.le_refl _)]
  have hW : georefW p = 6 * 10 ^ (p - 1) := by unfold georefW; rw [if_neg (by omega)]
  have keyX : X / 10 ^ (11 - p) = (X - 60000000000 * ilon) / 10 ^ (11 - p) + ilon * (6 * 10 ^ (p - 1)) := by
    have : X = (X - 60000000000 * ilon) + (ilon * (6 * 10 ^ (p - 1))) * 10 ^ (11 - p) := by
      rw [Int.mul_assoc, hpow']; omega
    conv_lhs => rw [this]
    rw [Int.add_mul_ediv_right _ _ (ne_of_gt hpowpos)]
  have keyY : Y / 10 ^ (11 - p) = (Y - 60000000000 * ilat) / 10 ^ (11 - p) + ilat * (6 * 10 ^ (p - 1)) := by
    have : Y = (Y - 60000000000 * ilat) + (ilat * (6 * 10 ^ (p - 1))) * 10 ^ (11 - p) := by
      rw [Int.mul_assoc, hpow']; omega
    conv_lhs => rw [this]
    rw [Int.add_mul_ediv_right _ _ (ne_of_gt hpowpos)]
  have fx : ((((ilon / 15).toNat : Nat) : Int) + -180 / 15) * 15 + (((ilon % 15).toNat : Nat) : Int) = ilon - 180 := by omega
  have fy : ((((ilat / 15).toNat : Nat) : Int) + -90 / 15) * 15 + (((ilat % 15).toNat : Nat) : Int) = ilat - 90 := by omega
  have gx : ((xN / 10 ^ (p - p) : Nat) : Int) = (X - 60000000000 * ilon) / 10 ^ (11 - p) := by
    rw [Nat.sub_self, Nat.pow_zero, Nat.div_one, hxN, Int.toNat_of_nonneg hxq0]
  have gy : ((yN / 10 ^ (p - p) : Nat) : Int) = (Y - 60000000000 * ilat) / 10 ^ (11 - p) := by
    rw [Nat.sub_self, Nat.pow_zero, Nat.div_one, hyN, Int.toNat_of_nonneg hyq0]
  rw [fx, fy, gx, gy, keyX, keyY, hW, Int.sub_mul, Int.sub_mul]
  simp only [georef_latorig, georef_lonorig]
  generalize (X - 60000000000 * ilon) / 10 ^ (11 - p) = DX
  generalize (Y - 60000000000 * ilat) / 10 ^ (11 - p) = DY
  generalize ilon * (6 * 10 ^ (p - 1)) = LW
  generalize ilat * (6 * 10 ^ (p - 1)) = MW
  generalize (6:Int) * 10 ^ (p - 1) = W
  congr 1
  cases cp <;> simp only [Georef.Dec.mk.injEq, Bool.false_eq_true, if_false, if_true, and_true] <;>
    refine ⟨?_, ?_, ?_⟩ <;> omega

/-- **`decode_encode_int`, Georef, 15° tiles** (`prec < 0`): 2 letters, `unit = 1` (per 15°), precision `−1` -/
theorem georef_decode_encode_tile (X Y : Int) (hX : 0 ≤ X ∧ X < 360 * Georef.m) (hY : 0 ≤ Y ∧ Y < 180 * Georef.m)
    (prec : Int) (hp : prec < 0) (cp : Bool) :
    Georef.decodeInt (toBytes (Georef.encodeInt X Y prec)) cp =
      let lat1 := Y / (15 * Georef.m) + georef_latorig / 15
      let lon1 := X / (15 * Georef.m) + georef_lonorig / 15
      .ok ⟨if cp then 2 * lat1 + 1 else lat1, if cp then 2 * lon1 + 1 else lon1, if cp then 2 else 1, -1⟩ := by
  have hm : Georef.m = 60000000000 := rfl
  rw [hm] at hX hY
  unfold Georef.encodeInt
  simp only [hp, if_true, hm, georef_tile]
  have i1 : 0 ≤ X / 60000000000 / 15 ∧ X / 60000000000 / 15 < 24 := by omega
  have i2 : 0 ≤ Y / 60000000000 / 15 ∧ Y / 60000000000 / 15 < 12 := by omega
  have l0 := georef_lontile_lookup (X / 60000000000 / 15).toNat (by omega)
  have l1 := georef_lattile_lookup (Y / 60000000000 / 15).toNat (by omega)
  unfold Georef.decodeInt
  simp only [toBytes, List.map_cons, List.map_nil, List.length_cons, List.length_nil, georef_baselen, georef_tile,
    georef_lonorig, georef_latorig]
  cases cp <;> simp [l0, l1]
  all_goals
    show Except.ok _ = Except.ok _
    congr 1
    simp only [Georef.Dec.mk.injEq, and_true]
    constructor <;> omega

/-- **`decode_encode_int`, Georef, degrees** (`prec = 0`): 4 letters, `unit = 15` (per 15°), precision `0` -/
theorem georef_decode_encode_degree (X Y : Int) (hX : 0 ≤ X ∧ X < 360 * Georef.m) (hY : 0 ≤ Y ∧ Y < 180 * Georef.m)
    (cp : Bool) :
    Georef.decodeInt (toBytes (Georef.encodeInt X Y 0)) cp =
      let lat1 := Y / Georef.m + georef_latorig
      let lon1 := X / Georef.m + georef_lonorig
      .ok ⟨if cp then 2 * lat1 + 1 else lat1, if cp then 2 * lon1 + 1 else lon1, if cp then 30 else 15, 0⟩ := by
  have hm : Georef.m = 60000000000 := rfl
  rw [hm] at hX hY
  unfold Georef.encodeInt
  simp only [hm, georef_tile, Int.lt_irrefl, if_false, if_true]
  have i1 : 0 ≤ X / 60000000000 / 15 ∧ X / 60000000000 / 15 < 24 := by omega
  have i2 : 0 ≤ Y / 60000000000 / 15 ∧ Y / 60000000000 / 15 < 12 := by omega
  have l0 := georef_lontile_lookup (X / 60000000000 / 15).toNat (by omega)
  have l1 := georef_lattile_lookup (Y / 60000000000 / 15).toNat (by omega)
  have l2 := georef_degrees_lookup (X / 60000000000 % 15).toNat (by omega)
  have l3 := georef_degrees_lookup (Y / 60000000000 % 15).toNat (by omega)
  unfold Georef.decodeInt
  simp only [toBytes, List.map_cons, List.map_nil, List.cons_append, List.nil_append, List.length_cons,
    List.length_nil, georef_baselen, georef_tile, georef_lonorig, georef_latorig]
  cases cp <;> simp [l0, l1, l2, l3]
  all_goals
    show Except.ok _ = Except.ok _
    congr 1
    simp only [Georef.Dec.mk.injEq, and_true]
    constructor <;> omega

example : (match Georef.decodeInt (toBytes (Georef.encodeInt (183 * 60000000000 + 12345678901) (95 * 60000000000 + 7) 5)) false with
    | .ok d => decide (d = ⟨(95 * 60000000000 + 7) / 10 ^ 6 - 90 * 60000, (183 * 60000000000 + 12345678901) / 10 ^ 6 - 180 * 60000,
        15 * 60000, 5⟩) | .error _ => false) = true := by decide +kernel

/-! ### end to end on the exact cell: `Reverse ∘ ForwardExact` contains the point -/

/-- **the decoded cell of the exact code contains the point** (GARS, every accepted finite position, every precision):
`Reverse(ForwardExact(lat, lon, prec))` on the integer level is the cell `[lon1/u, (lon1+1)/u) × [lat1/u, (lat1+1)/u)`
(degrees, `u = garsUnit prec`) and it contains the prepared position `(prepLon lon, prepLat lat)`.
(`Forward` itself codes this cell or — in the circumstance described by `gars_scale_contains` — a neighbour: F2.) -/
theorem gars_cell_contains (lat lon : F64) (h1 : F64.gt (F64.abs lat) MathF.qd = false)
    (h2 : (lat.isNaN || !lon.isFinite) = false) (hf : lon.isFinite = true) (prec : Nat) (hp : prec ≤ 2) :
    ∃ X Y : ℤ, GARS.scaleExact lat lon = .ok (some (X, Y)) ∧
      ∃ d : GARS.Dec, GARS.decodeInt (toBytes (GARS.encodeInt X Y prec)) false = .ok d ∧
        d.prec = prec ∧ d.unit = garsUnit prec ∧
        (d.lon1 : ℚ) / d.unit ≤ (prepLon lon).val ∧ (prepLon lon).val < ((d.lon1 : ℚ) + 1) / d.unit ∧
        (d.lat1 : ℚ) / d.unit ≤ (prepLat lat).val ∧ (prepLat lat).val < ((d.lat1 : ℚ) + 1) / d.unit := by
  obtain ⟨X, Y, X', Y', hE, _, hX, _, hY, hY0, hY1⟩ := gars_scale_contains lat lon h1 h2
  obtain ⟨⟨⟨cx1, cx2⟩, _⟩, hX0, hX1⟩ := hX hf
  obtain ⟨⟨cy1, cy2⟩, _⟩ := hY
  have hm : (F64.ofInt GARS.m).val = 12 := by
    show (F64.fin false 12 0).val = 12
    rw [F64.val_fin]; simp
  rw [hm] at cx1 cx2 cy1 cy2
  have hmm : GARS.m = 12 := rfl
  have e1 : ((X + gars_lonorig * GARS.m : ℤ) : ℚ) = (X:ℚ) - 2160 := by
    show ((X + (-180) * 12 : ℤ) : ℚ) = _
    push_cast; ring
  have e2 : ((Y + gars_latorig * GARS.m : ℤ) : ℚ) = (Y:ℚ) - 1080 := by
    show ((Y + (-90) * 12 : ℤ) : ℚ) = _
    push_cast; ring
  rw [e1] at cx1 cx2
  rw [e2] at cy1 cy2
  refine ⟨X, Y, hE, _, gars_decode_encode X Y ⟨hX0, hX1⟩ ⟨hY0, hY1⟩ prec hp false, rfl, ?_⟩
  simp only [Bool.false_eq_true, if_false]
  rw [hmm]
  refine ⟨trivial, ?_⟩
  obtain rfl | rfl | rfl : prec = 0 ∨ prec = 1 ∨ prec = 2 := by omega
  · -- u = 2, cell = 6 finest cells
    have hu : garsUnit 0 = 2 := by decide
    rw [hu]
    have a1 : X / 6 * 6 ≤ X := by omega
    have a2 : X + 1 ≤ (X / 6 + 1) * 6 := by omega
    have b1 : Y / 6 * 6 ≤ Y := by omega
    have b2 : Y + 1 ≤ (Y / 6 + 1) * 6 := by omega
    have a1q : ((X / 6 : ℤ) : ℚ) * 6 ≤ X := by exact_mod_cast a1
    have a2q : (X:ℚ) + 1 ≤ (((X / 6 : ℤ) : ℚ) + 1) * 6 := by exact_mod_cast a2
    have b1q : ((Y / 6 : ℤ) : ℚ) * 6 ≤ Y := by exact_mod_cast b1
    have b2q : (Y:ℚ) + 1 ≤ (((Y / 6 : ℤ) : ℚ) + 1) * 6 := by exact_mod_cast b2
    show ((X / (12 / 2) + gars_lonorig * 2 : ℤ) : ℚ) / ((2:ℤ):ℚ) ≤ _ ∧ _ < (((X / (12 / 2) + gars_lonorig * 2 : ℤ) : ℚ) + 1) / ((2:ℤ):ℚ) ∧
      ((Y / (12 / 2) + gars_latorig * 2 : ℤ) : ℚ) / ((2:ℤ):ℚ) ≤ _ ∧ _ < (((Y / (12 / 2) + gars_latorig * 2 : ℤ) : ℚ) + 1) / ((2:ℤ):ℚ)
    have e6 : (12:ℤ) / 2 = 6 := by decide
    rw [e6]
    simp only [gars_lonorig, gars_latorig]
    push_cast
    refine ⟨?_, ?_, ?_, ?_⟩
    · rw [div_le_iff₀ (by norm_num)]; linarith
    · rw [lt_div_iff₀ (by norm_num)]; linarith
    · rw [div_le_iff₀ (by norm_num)]; linarith
    · rw [lt_div_iff₀ (by norm_num)]; linarith
  · have hu : garsUnit 1 = 4 := by decide
    rw [hu]
    have a1 : X / 3 * 3 ≤ X := by omega
    have a2 : X + 1 ≤ (X / 3 + 1) * 3 := by omega
    have b1 : Y / 3 * 3 ≤ Y := by omega
    have b2 : Y + 1 ≤ (Y / 3 + 1) * 3 := by omega
    have a1q : ((X / 3 : ℤ) : ℚ) * 3 ≤ X := by exact_mod_cast a1
    have a2q : (X:ℚ) + 1 ≤ (((X / 3 : ℤ) : ℚ) + 1) * 3 := by exact_mod_cast a2
    have b1q : ((Y / 3 : ℤ) : ℚ) * 3 ≤ Y := by exact_mod_cast b1
    have b2q : (Y:ℚ) + 1 ≤ (((Y / 3 : ℤ) : ℚ) + 1) * 3 := by exact_mod_cast b2
    show ((X / (12 / 4) + gars_lonorig * 4 : ℤ) : ℚ) / ((4:ℤ):ℚ) ≤ _ ∧ _ < (((X / (12 / 4) + gars_lonorig * 4 : ℤ) : ℚ) + 1) / ((4:ℤ):ℚ) ∧
      ((Y / (12 / 4) + gars_latorig * 4 : ℤ) : ℚ) / ((4:ℤ):ℚ) ≤ _ ∧ _ < (((Y / (12 / 4) + gars_latorig * 4 : ℤ) : ℚ) + 1) / ((4:ℤ):ℚ)
    have e6 : (12:ℤ) / 4 = 3 := by decide
    rw [e6]
    simp only [gars_lonorig, gars_latorig]
    push_cast
    refine ⟨?_, ?_, ?_, ?_⟩
    · rw [div_le_iff₀ (by norm_num)]; linarith
    · rw [lt_div_iff₀ (by norm_num)]; linarith
    · rw [div_le_iff₀ (by norm_num)]; linarith
    · rw [lt_div_iff₀ (by norm_num)]; linarith
  · have hu : garsUnit 2 = 12 := by decide
    rw [hu]
    show ((X / (12 / 12) + gars_lonorig * 12 : ℤ) : ℚ) / ((12:ℤ):ℚ) ≤ _ ∧ _ < (((X / (12 / 12) + gars_lonorig * 12 : ℤ) : ℚ) + 1) / ((12:ℤ):ℚ) ∧
      ((Y / (12 / 12) + gars_latorig * 12 : ℤ) : ℚ) / ((12:ℤ):ℚ) ≤ _ ∧ _ < (((Y / (12 / 12) + gars_latorig * 12 : ℤ) : ℚ) + 1) / ((12:ℤ):ℚ)
    have e6 : (12:ℤ) / 12 = 1 := by decide
    rw [e6, Int.ediv_one, Int.ediv_one]
    simp only [gars_lonorig, gars_latorig]
    push_cast
    refine ⟨?_, ?_, ?_, ?_⟩
    · rw [div_le_iff₀ (by norm_num)]; linarith
    · rw [lt_div_iff₀ (by norm_num)]; linarith
    · rw [div_le_iff₀ (by norm_num)]; linarith
    · rw [lt_div_iff₀ (by norm_num)]; linarith


/-- **the decoded cell of the exact code contains the point** (Georef, minutes and finer, `2 ≤ prec ≤ 11`):
the decoded numerators over `W = 6·10^(prec−1)` cells per degree bracket the prepared position. -/
theorem georef_cell_contains (lat lon : F64) (h1 : F64.gt (F64.abs lat) MathF.qd = false)
    (h2 : (lat.isNaN || !lon.isFinite) = false) (hf : lon.isFinite = true) (p : Nat) (hp2 : 2 ≤ p) (hp11 : p ≤ 11) :
    ∃ X Y : ℤ, Georef.scaleExact lat lon = .ok (some (X, Y)) ∧
      ∃ d : Georef.Dec, Georef.decodeInt (toBytes (Georef.encodeInt X Y p)) false = .ok d ∧
        d.prec = p ∧ d.unit = 15 * georefW p ∧
        (d.lon1 : ℚ) / (georefW p : ℚ) ≤ (prepLon lon).val ∧ (prepLon lon).val < ((d.lon1 : ℚ) + 1) / (georefW p : ℚ) ∧
        (d.lat1 : ℚ) / (georefW p : ℚ) ≤ (prepLat lat).val ∧ (prepLat lat).val < ((d.lat1 : ℚ) + 1) / (georefW p : ℚ) := by
  obtain ⟨X, Y, X', Y', hE, _, hX, _, hY, hY0, hY1⟩ := georef_scale_contains lat lon h1 h2
  obtain ⟨⟨⟨cx1, cx2⟩, _⟩, hX0, hX1⟩ := hX hf
  obtain ⟨⟨cy1, cy2⟩, _⟩ := hY
  have hm : (F64.ofInt Georef.m).val = 60000000000 := by
    show (F64.fin false 60000000000 0).val = 60000000000
    rw [F64.val_fin]; simp
  rw [hm] at cx1 cx2 cy1 cy2
  have e1 : ((X + georef_lonorig * Georef.m : ℤ) : ℚ) = (X:ℚ) - 180 * 60000000000 := by
    show ((X + (-180) * 60000000000 : ℤ) : ℚ) = _
    push_cast; ring
  have e2 : ((Y + georef_latorig * Georef.m : ℤ) : ℚ) = (Y:ℚ) - 90 * 60000000000 := by
    show ((Y + (-90) * 60000000000 : ℤ) : ℚ) = _
    push_cast; ring
  rw [e1] at cx1 cx2
  rw [e2] at cy1 cy2
  refine ⟨X, Y, hE, _, georef_decode_encode_long X Y ⟨hX0, hX1⟩ ⟨hY0, hY1⟩ p hp2 hp11 false, rfl, ?_⟩
  simp only [Bool.false_eq_true, if_false]
  refine ⟨trivial, ?_⟩
  have hW : georefW p = 6 * 10 ^ (p - 1) := by unfold georefW; rw [if_neg (by omega)]
  have hWD : (6 * 10 ^ (p - 1) : ℤ) * 10 ^ (11 - p) = 60000000000 := by
    have : (p - 1) + (11 - p) = 10 := by omega
    rw [mul_assoc, ← pow_add, this]; norm_num
  set W : ℤ := 6 * 10 ^ (p - 1) with hWd
  set D : ℤ := 10 ^ (11 - p) with hDd
  have hWpos : (0:ℤ) < W := by positivity
  have hDpos : (0:ℤ) < D := by positivity
  have hWq : (0:ℚ) < (W:ℚ) := by exact_mod_cast hWpos
  have hDq : (0:ℚ) < (D:ℚ) := by exact_mod_cast hDpos
  have hWDq : (W:ℚ) * (D:ℚ) = 60000000000 := by exact_mod_cast hWD
  rw [hW]
  have a1 : X / D * D ≤ X := Int.ediv_mul_le X (ne_of_gt hDpos)
  have a2 : X < (X / D + 1) * D := Int.lt_ediv_add_one_mul_self X hDpos
  have b1 : Y / D * D ≤ Y := Int.ediv_mul_le Y (ne_of_gt hDpos)
  have b2 : Y < (Y / D + 1) * D := Int.lt_ediv_add_one_mul_self Y hDpos
  have a1q : ((X / D : ℤ) : ℚ) * D ≤ X := by exact_mod_cast a1
  have a2q : (X:ℚ) + 1 ≤ (((X / D : ℤ) : ℚ) + 1) * D := by exact_mod_cast (by omega : X + 1 ≤ (X / D + 1) * D)
  have b1q : ((Y / D : ℤ) : ℚ) * D ≤ Y := by exact_mod_cast b1
  have b2q : (Y:ℚ) + 1 ≤ (((Y / D : ℤ) : ℚ) + 1) * D := by exact_mod_cast (by omega : Y + 1 ≤ (Y / D + 1) * D)
  simp only [georef_lonorig, georef_latorig]
  push_cast
  have kx : ((prepLon lon).val * W + 180 * W) * D = (prepLon lon).val * 60000000000 + 180 * 60000000000 := by
    rw [← hWDq]; ring
  have ky : ((prepLat lat).val * W + 90 * W) * D = (prepLat lat).val * 60000000000 + 90 * 60000000000 := by
    rw [← hWDq]; ring
  refine ⟨?_, ?_, ?_, ?_⟩
  · rw [div_le_iff₀ hWq]
    have : (((X / D : ℤ) : ℚ)) * D ≤ ((prepLon lon).val * W + 180 * W) * D := by rw [kx]; linarith
    have := le_of_mul_le_mul_right this hDq
    linarith
  · rw [lt_div_iff₀ hWq]
    have : ((prepLon lon).val * W + 180 * W) * D < ((((X / D : ℤ) : ℚ)) + 1) * D := by rw [kx]; linarith
    have := lt_of_mul_lt_mul_right this hDq.le
    linarith
  · rw [div_le_iff₀ hWq]
    have : (((Y / D : ℤ) : ℚ)) * D ≤ ((prepLat lat).val * W + 90 * W) * D := by rw [ky]; linarith
    have := le_of_mul_le_mul_right this hDq
    linarith
  · rw [lt_div_iff₀ hWq]
    have : ((prepLat lat).val * W + 90 * W) * D < ((((Y / D : ℤ) : ℚ)) + 1) * D := by rw [ky]; linarith
    have := lt_of_mul_lt_mul_right this hDq.le
    linarith

section GeohashCell
open F64

theorem shift_cell (n : ℤ) (h1 : -(2:ℤ) ^ 45 ≤ n) (h2 : n < 2 ^ 45) :
    ∃ U : ℕ, U = (n + 2 ^ 45).toNat ∧ (U:ℚ) = (n:ℚ) + (2:ℚ) ^ 45 ∧ U < 2 ^ 46 ∧
      ∀ j : ℕ, (((U >>> j : ℕ) : ℚ) * (2:ℚ) ^ j ≤ (U:ℚ)) ∧ ((U:ℚ) + 1 ≤ (((U >>> j : ℕ) : ℚ) + 1) * (2:ℚ) ^ j) := by
  refine ⟨(n + 2 ^ 45).toNat, rfl, ?_, by omega, fun j => ?_⟩
  · have a3 : (((n + 2 ^ 45).toNat : ℕ) : ℤ) = n + 2 ^ 45 := by omega
    have := congrArg (Int.cast : ℤ → ℚ) a3
    simp only [Int.cast_add, Int.cast_pow, Int.cast_ofNat, Int.cast_natCast] at this
    exact this
  · generalize (n + 2 ^ 45).toNat = U
    rw [Nat.shiftRight_eq_div_pow]
    have hp : 0 < 2 ^ j := Nat.pos_of_ne_zero (by simp)
    have c1 : U / 2 ^ j * 2 ^ j ≤ U := Nat.div_mul_le_self _ _
    have c2 : U + 1 ≤ (U / 2 ^ j + 1) * 2 ^ j := by
      have := Nat.lt_div_mul_add (a := U) hp
      rw [Nat.add_mul, Nat.one_mul]; omega
    constructor
    · exact_mod_cast c1
    · exact_mod_cast c2

/-- **the decoded cell of the exact hash contains the point** (Geohash, every accepted finite position, every length):
with `z = lon'·2^45/180` (the longitude in units of `loneps`, `lon' = prepLon lon`) the decoded column `d.ulon` of
`2^(46−k)` units, `k = ⌈5·len/2⌉`, satisfies `d.ulon·2^(46−k) − 2^45 ≤ z < (d.ulon+1)·2^(46−k) − 2^45`; the same in
latitude with `k = ⌊5·len/2⌋` away from the pole, and the pole is in the last row. -/
theorem geohash_cell_contains (lat lon : F64) (h1 : F64.gt (F64.abs lat) MathF.qd = false)
    (h2 : (lat.isNaN || !lon.isFinite) = false) (hf : lon.isFinite = true) (len : Nat) (hlen : len ≤ 18) :
    ∃ ulon ulat : ℕ, Geohash.scaleExact lat lon = some (ulon, ulat) ∧
      ∃ d : Geohash.Dec, Geohash.decodeInt (toBytes (Geohash.encodeInt ulon ulat len)) = .ok d ∧ d.len = len ∧
        ((d.ulon : ℚ) * (2:ℚ) ^ (46 - (5 * len + 1) / 2) - (2:ℚ) ^ 45 ≤ (prepLon lon).val * (2:ℚ) ^ (45:ℕ) / 180 ∧
         (prepLon lon).val * (2:ℚ) ^ (45:ℕ) / 180 < ((d.ulon : ℚ) + 1) * (2:ℚ) ^ (46 - (5 * len + 1) / 2) - (2:ℚ) ^ 45) ∧
        (lat.val ≠ 90 →
         (d.ulat : ℚ) * (2:ℚ) ^ (46 - 5 * len / 2) - (2:ℚ) ^ 45 ≤ lat.val * (2:ℚ) ^ (45:ℕ) / 90 ∧
         lat.val * (2:ℚ) ^ (45:ℕ) / 90 < ((d.ulat : ℚ) + 1) * (2:ℚ) ^ (46 - 5 * len / 2) - (2:ℚ) ^ 45) ∧
        (lat.val = 90 → d.ulat = (2 ^ 46 - 1) >>> (46 - 5 * len / 2)) := by
  obtain ⟨nx, ny, cx, cy, hE, _, ⟨x1, x2⟩, ⟨y1, y2⟩, ⟨⟨zx1, zx2⟩, _⟩, hpole, hnp⟩ :=
    geohash_scale_contains lat lon h1 h2 hf
  obtain ⟨U, hU, uq, ult, ucell⟩ := shift_cell nx x1 x2
  obtain ⟨V, hV, vq, vlt, vcell⟩ := shift_cell ny y1 y2
  rw [← hU, ← hV] at hE
  refine ⟨U, V, hE, _, geohash_decode_encode46 U V len hlen ult vlt, rfl, ?_, ?_, ?_⟩
  · obtain ⟨c1, c2⟩ := ucell (46 - (5 * len + 1) / 2)
    constructor
    · show ((U >>> (46 - (5 * len + 1) / 2) : ℕ) : ℚ) * _ - _ ≤ _
      linarith
    · show _ < (((U >>> (46 - (5 * len + 1) / 2) : ℕ) : ℚ) + 1) * _ - _
      linarith
  · intro hne
    obtain ⟨⟨zy1, zy2⟩, _⟩ := hnp hne
    obtain ⟨c1, c2⟩ := vcell (46 - 5 * len / 2)
    constructor
    · show ((V >>> (46 - 5 * len / 2) : ℕ) : ℚ) * _ - _ ≤ _
      linarith
    · show _ < (((V >>> (46 - 5 * len / 2) : ℕ) : ℚ) + 1) * _ - _
      linarith
  · intro hv
    obtain ⟨e1, _⟩ := hpole hv
    show V >>> (46 - 5 * len / 2) = _
    have : V = 2 ^ 46 - 1 := by rw [hV, e1]; rfl
    rw [this]

end GeohashCell

/-! ### Georef: prefix law across all precisions -/

/-- **prefix law, Georef, tiles → degrees → minutes**: the 2-letter code is a prefix of the 4-letter code, which is a
prefix of every finer code (all cells) -/
theorem georef_prefix_coarse (X Y : ℤ) (p : ℤ) (hp : 0 ≤ p) :
    Georef.encodeInt X Y (-1) <+: Georef.encodeInt X Y 0 ∧ Georef.encodeInt X Y 0 <+: Georef.encodeInt X Y p := by
  constructor
  · unfold Georef.encodeInt
    simp only [show ((-1:ℤ) < 0) from by norm_num, if_true, show ¬ ((0:ℤ) < 0) from by norm_num, if_false]
    exact List.prefix_append _ _
  · unfold Georef.encodeInt
    have h0 : ¬ (p < 0) := by omega
    simp only [show ¬ ((0:ℤ) < 0) from by norm_num, if_false, if_true, h0]
    by_cases hz : p = 0
    · simp [hz]
    · simp only [hz, if_false]
      rw [List.append_assoc, List.append_assoc]
      exact List.prefix_append _ _

/-- **prefix law, Georef, minutes and decimals** (`2 ≤ p`, `p + 1 ≤ 11`, every cell): tile, degree letters and easting
digits at precision `p` are a prefix of the code at `p + 1`; the northing digits are a prefix of the finer northing digits -/
theorem georef_prefix (X Y : ℤ) (p : ℕ) (hp2 : 2 ≤ p) (hp : p + 1 ≤ 11) :
    (Georef.encodeInt X Y p).take (4 + p) <+: Georef.encodeInt X Y (p + 1 : ℕ) ∧
    (Georef.encodeInt X Y p).drop (4 + p) <+: (Georef.encodeInt X Y (p + 1 : ℕ)).drop (4 + (p + 1)) := by
  have hm : Georef.m = 60000000000 := rfl
  have a1 : ¬ ((p:ℤ) < 0) := by omega
  have a2 : ¬ ((p:ℤ) = 0) := by omega
  have b1 : ¬ (((p + 1 : ℕ):ℤ) < 0) := by omega
  have b2 : ¬ (((p + 1 : ℕ):ℤ) = 0) := by omega
  unfold Georef.encodeInt
  simp only [a1, a2, b1, b2, if_false, hm, georef_tile, georef_base, georef_maxprec, Int.toNat_natCast]
  set ilon := X / 60000000000
  set ilat := Y / 60000000000
  have hd : ((11:ℤ) - (p:ℤ)).toNat = (11 - (p + 1)) + 1 := by omega
  have hd' : ((11:ℤ) - ((p + 1 : ℕ):ℤ)).toNat = 11 - (p + 1) := by omega
  rw [hd, hd']
  set D : ℤ := 10 ^ (11 - (p + 1)) with hD
  have hDpos : 0 < D := by positivity
  have hpow : (10:ℤ) ^ (11 - (p + 1) + 1) = D * 10 := by rw [pow_succ]
  rw [hpow]
  have key : ∀ a : ℤ, (a / (D * 10)).toNat = (a / D).toNat / 10 := by
    intro a
    rw [← Int.ediv_ediv_of_nonneg (le_of_lt hDpos)]
    generalize a / D = q
    rcases lt_or_ge q 0 with h | h
    · have h1 : q / 10 < 0 := Int.ediv_neg_of_neg_of_pos h (by norm_num)
      rw [Int.toNat_of_nonpos (le_of_lt h1), Int.toNat_of_nonpos (le_of_lt h)]
    · obtain ⟨k, rfl⟩ := Int.eq_ofNat_of_zero_le h
      norm_cast
  rw [key, key]
  have ht10 : Int.toNat 10 = 10 := rfl
  rw [ht10]
  set xq := ((X - 60000000000 * ilon) / D).toNat
  set yq := ((Y - 60000000000 * ilat) / D).toNat
  have hform : ∀ l : List Char, [chr Georef.lontile (ilon / 15).toNat, chr Georef.lattile (ilat / 15).toNat] ++
      [chr Georef.degrees (ilon % 15).toNat, chr Georef.degrees (ilat % 15).toNat] ++ l =
      [chr Georef.lontile (ilon / 15).toNat, chr Georef.lattile (ilat / 15).toNat,
       chr Georef.degrees (ilon % 15).toNat, chr Georef.degrees (ilat % 15).toNat] ++ l := fun _ => rfl
  simp only [hform]
  set hd4 := [chr Georef.lontile (ilon / 15).toNat, chr Georef.lattile (ilat / 15).toNat,
       chr Georef.degrees (ilon % 15).toNat, chr Georef.degrees (ilat % 15).toNat] with hhd4
  have l4 : hd4.length = 4 := rfl
  have lx : (digitsW Georef.digits 10 p (xq / 10)).length = p := Digits.digitsW_length _ _ _ _
  have lx1 : (digitsW Georef.digits 10 (p + 1) xq).length = p + 1 := Digits.digitsW_length _ _ _ _
  have e1 : (hd4 ++ digitsW Georef.digits 10 p (xq / 10) ++ digitsW Georef.digits 10 p (yq / 10)).take (4 + p)
      = hd4 ++ digitsW Georef.digits 10 p (xq / 10) := by
    rw [List.take_append_of_le_length (by simp [l4, lx]), List.take_of_length_le (by simp [l4, lx])]
  have e2 : (hd4 ++ digitsW Georef.digits 10 p (xq / 10) ++ digitsW Georef.digits 10 p (yq / 10)).drop (4 + p)
      = digitsW Georef.digits 10 p (yq / 10) := by
    rw [List.drop_append_of_le_length (by simp [l4, lx]), List.drop_of_length_le (by simp [l4, lx]), List.nil_append]
  have e3 : (hd4 ++ digitsW Georef.digits 10 (p + 1) xq ++ digitsW Georef.digits 10 (p + 1) yq).drop (4 + (p + 1))
      = digitsW Georef.digits 10 (p + 1) yq := by
    rw [List.drop_append_of_le_length (by simp [l4, lx1]), List.drop_of_length_le (by simp [l4, lx1]), List.nil_append]
  rw [e1, e2, e3]
  refine ⟨?_, Digits.digitsW_prefix _ _ _ _⟩
  rw [List.append_assoc]
  refine (List.prefix_append_right_inj _).mpr ?_
  exact (Digits.digitsW_prefix Georef.digits 10 p xq).trans (List.prefix_append _ _)

example : String.ofList (Georef.encodeInt (183 * 60000000000 + 12345678901) (95 * 60000000000 + 7) 3) = "NGDF123000" ∧
    String.ofList (Georef.encodeInt (183 * 60000000000 + 12345678901) (95 * 60000000000 + 7) 4) = "NGDF12340000" := by decide +kernel

/-! ### resolution / precision helper functions; values returned by the decoders (`centerp` arithmetic) -/
section Helpers
open GridHelpers F64

/-- `Geohash::LatitudeResolution / LongitudeResolution`: `180/2^⌊5c/2⌋`, `360/2^⌈5c/2⌉`, `c` = length clamped to `[0, 18]`; exact -/
theorem geohash_resolution_val (len : ℤ) :
    (Geohash.latRes len).val = 180 / (2:ℚ) ^ (5 * Geohash.clampLen len / 2) ∧
    (Geohash.lonRes len).val = 360 / (2:ℚ) ^ (5 * Geohash.clampLen len - 5 * Geohash.clampLen len / 2) :=
  geohash_res_val len
/-- both resolutions are non-increasing in the length (all integers, clamping included) -/
theorem geohash_resolution_antitone (a b : ℤ) (h : a ≤ b) :
    (Geohash.latRes b).val ≤ (Geohash.latRes a).val ∧ (Geohash.lonRes b).val ≤ (Geohash.lonRes a).val :=
  geohash_res_antitone a b h
/-- the resolutions are the extents of the cells of `geohash_cell_contains` -/
theorem geohash_resolution_is_cell (len : ℕ) (h : len ≤ 18) :
    (Geohash.lonRes len).val = (2:ℚ) ^ (46 - (5 * len + 1) / 2) * (180 / (2:ℚ) ^ (45:ℕ)) ∧
    (Geohash.latRes len).val = (2:ℚ) ^ (46 - 5 * len / 2) * (90 / (2:ℚ) ^ (45:ℕ)) :=
  geohash_res_is_cell len h
/-- **`GeohashLength(res)` is the least length whose longitude resolution is `≤ |res|`**, 18 if there is none below 18
(every `res`, including NaN, ±∞, 0) -/
theorem geohash_length_is_least (res : F64) :
    let L := Geohash.lengthFor res
    0 ≤ L ∧ L ≤ 18 ∧ (L < 18 → F64.le (Geohash.lonRes L) (F64.abs res) = true) ∧
    ∀ l : ℕ, (l : ℤ) < L → F64.le (Geohash.lonRes l) (F64.abs res) = false :=
  geohash_length_least res
/-- `GeohashLength(LongitudeResolution(l)) = l` and `GeohashLength(LatitudeResolution(l), LongitudeResolution(l)) = l`, `l = 0..18` -/
theorem geohash_length_of_resolution : ∀ l : Fin 19,
    Geohash.lengthFor (Geohash.lonRes (l.val : ℤ)) = l.val ∧
    Geohash.lengthFor2 (Geohash.latRes (l.val : ℤ)) (Geohash.lonRes (l.val : ℤ)) = l.val :=
  geohash_length_of_res
/-- `DecimalPrecision(len) = −⌊log₁₀(180/2^⌊5·len/2⌋)⌋`, in integers, `len = 0..18` -/
theorem geohash_decimal_precision : ∀ l : Fin 19,
    let d := Geohash.decimalPrecision (l.val : ℤ)
    let k := 5 * l.val / 2
    (if 0 ≤ d then 2 ^ k ≤ 180 * 10 ^ d.toNat else 2 ^ k * 10 ^ (-d).toNat ≤ 180) ∧
    (if 1 ≤ d then 180 * 10 ^ (d - 1).toNat < 2 ^ k else 180 < 2 ^ k * 10 ^ (1 - d).toNat) :=
  geohash_decimal_precision_spec

/-- `GARS::Resolution`: `1/2`, `1/4` exactly; `1/12` correctly rounded -/
theorem gars_resolution (prec : ℤ) :
    (prec ≤ 0 → (GARS.resolution prec).val = 1 / 2) ∧ (prec = 1 → (GARS.resolution prec).val = 1 / 4) ∧
    (2 ≤ prec → IsRN 53 (-1074) (1 / 12) (GARS.resolution prec).val) :=
  gars_resolution_val prec
/-- `GARS::Precision(res)` is the least precision whose resolution is `≤ |res|`, 2 if neither 0 nor 1 is -/
theorem gars_precision_is_least (res : F64) :
    let P := GARS.precision res
    0 ≤ P ∧ P ≤ 2 ∧ (P < 2 → F64.le (GARS.resolution P) (F64.abs res) = true) ∧
    ∀ q : ℕ, (q : ℤ) < P → F64.le (GARS.resolution q) (F64.abs res) = false :=
  gars_precision_least res
theorem gars_precision_resolution (p : ℤ) : GARS.precision (GARS.resolution p) = max 0 (min 2 p) :=
  gars_precision_of_resolution p

/-- `Georef::Resolution`: 15, 1, or the correctly rounded `1/(60·10^(c−2))`, `c` = `prec` clamped to `[2, 11]` -/
theorem georef_resolution (prec : ℤ) :
    (prec < 0 → (Georef.resolution prec).val = 15) ∧ (prec = 0 → (Georef.resolution prec).val = 1) ∧
    (1 ≤ prec → IsRN 53 (-1074) (1 / (60 * 10 ^ ((max 2 (min 11 prec)) - 2).toNat)) (Georef.resolution prec).val) :=
  georef_resolution_val prec
theorem georef_precision_resolution : ∀ p : Fin 12, p.val ≠ 1 →
    Georef.precision (Georef.resolution (p.val : ℤ)) = p.val :=
  georef_precision_of_resolution
/-- `Georef::Precision` is in `[0, 11]` and never 1 (so never −1 either) -/
theorem georef_precision_in_range (res : F64) :
    0 ≤ Georef.precision res ∧ Georef.precision res ≤ 11 ∧ Georef.precision res ≠ 1 :=
  georef_precision_range res

/-- **`GARS::Reverse` value** (`lat1/unit`, both `centerp`): one binary64 division — the correctly rounded rational; exact
for `unit ∈ {2, 4, 8}`, i.e. precisions 0 and 1, corner and centre (at precision 2, `unit` 12 or 24, thirds appear) -/
theorem gars_reverse_val (lat1 unit : ℤ) (hl : |lat1| ≤ 2 ^ 40) (hu : 0 < unit ∧ unit ≤ 24) :
    ∃ r : ℚ, IsRN 53 (-1074) ((lat1:ℚ) / unit) r ∧ HasVal (F64.ofInt lat1 / F64.ofInt unit) r ∧
      ((unit = 2 ∨ unit = 4 ∨ unit = 8) → r = (lat1:ℚ) / unit) :=
  gars_reverse_value lat1 unit hl hu
/-- **`Georef::Reverse` value** (`(15·lat1)/unit`): the correctly rounded rational; exact for tiles (`unit` 1, 2) and
degree cells (`unit` 15, 30), corner and centre; from the minutes on (`unit = 15·6·10^(p−2)·(1|2)`) one rounding -/
theorem georef_reverse_val (lat1 unit : ℤ) (hl : |lat1| ≤ 2 ^ 47) (hu : 0 < unit) :
    ∃ r : ℚ, IsRN 53 (-1074) ((15 * lat1 : ℤ) / (unit:ℚ)) r ∧ HasVal (F64.ofInt (15 * lat1) / F64.ofInt unit) r ∧
      ((unit = 1 ∨ unit = 2 ∨ unit = 15 ∨ unit = 30) → r = (15 * lat1 : ℤ) / (unit:ℚ)) :=
  georef_reverse_value lat1 unit hl hu

/-- every string `Geohash::Reverse` accepts: `len = min 18 |s|`, `ulon < 2^⌈5·len/2⌉`, `ulat < 2^⌊5·len/2⌋` -/
theorem geohash_decode_bounds (s : List ℕ) (d : Geohash.Dec) (h : Geohash.decodeInt s = .ok d) :
    d.len = min 18 s.length ∧ d.ulon < 2 ^ ((5 * d.len + 1) / 2) ∧ d.ulat < 2 ^ (5 * d.len / 2) :=
  GeohashDecode.decodeInt_bounds s d h
/-- **`Geohash::Reverse` is exact** for every accepted string, every length, centre and south-west corner: the half-cell
offset is one more bit of the integer, the product by `180/2^45` (`90/2^45`) and the subtraction involve no rounding -/
theorem geohash_reverse_exact (s : List ℕ) (cp : Bool) (d : Geohash.Dec) (h : Geohash.decodeInt s = .ok d)
    (hinv : Geohash.isInvalid s = false) :
    ∃ lat lon : F64, Geohash.reverse s cp = .ok (.val lat lon d.len) ∧
      HasVal lon ((((2 * d.ulon + (if cp then 1 else 0)) <<< (5 * (18 - d.len) / 2) : ℕ) : ℚ) * (180 / (2:ℚ) ^ (45:ℕ)) - 180) ∧
      HasVal lat ((((2 * d.ulat + (if cp then 1 else 0)) <<< (5 * (18 - d.len) - 5 * (18 - d.len) / 2) : ℕ) : ℚ) * (90 / (2:ℚ) ^ (45:ℕ)) - 90) :=
  GeohashDecode.reverse_exact s cp d h hinv
/-- **`geohash_accept_iff`**: accepted ⇔ each of the first 18 characters is in the base-32 alphabet (either case) -/
theorem geohash_accept_iff (s : List ℕ) :
    (∃ d, Geohash.decodeInt s = .ok d) ↔ ∀ c ∈ s.take 18, (lookup Geohash.uc c).isSome = true :=
  GeohashDecode.accept_iff s

/-! non-vacuity -/
example : F64.le (Geohash.lonRes 7) (F64.abs (F64.fin true 1 (-9))) = true ∧ Geohash.lengthFor (F64.fin true 1 (-9)) = 7 := by
  decide +kernel
example : Geohash.isInvalid (toBytes "ezs42".toList) = false ∧
    (match Geohash.decodeInt (toBytes "ezs42".toList) with | .ok d => decide (d.len = 5) | .error _ => false) = true := by decide +kernel
example : GARS.precision (F64.fin false 1 (-2)) = 1 ∧ Georef.precision (F64.fin false 1 (-10)) = 4 := by decide +kernel

end Helpers

/-! ### OSGB grid references: the integer codec (all inputs), the floating part (all inputs), constants of the projection -/
section OSGB
open OSGBInt OSGBScale F64

/-- **`decode∘encode`, OSGB** (every 100 km square of the grid, every pair of digit indices, every precision `≤ 11`):
the decoder returns the square, the precision and the `p` decimal digits of the combined in-tile indices
`i1·10^(p−5) + i2` (`OSGBInt.cellIndex`; their value is `osgb_decoded_value`) -/
theorem osgb_decode_encode (sx sy : OSGB.Sc) (p : ℕ) (hp : p ≤ 11) (hx : -10 ≤ sx.h ∧ sx.h < 15) (hy : -5 ≤ sy.h ∧ sy.h < 20)
    (h2x : sx.i2.toNat < 10 ^ (p - 5)) (h2y : sy.i2.toNat < 10 ^ (p - 5)) :
    OSGB.decodeInt (toBytes (OSGB.encodeInt sx sy p)) =
      .ok ⟨sx.h, sy.h, natDigits p (cellIndex sx p), natDigits p (cellIndex sy p), p⟩ := by
  rw [encodeInt_eq_cell sx sy p h2x h2y]
  exact decode_encodeCell sx.h sy.h _ _ p hp hx hy

/-- the decoded digit list has the value of the index modulo `10^p` (so: the index itself when it is `< 10^p`) -/
theorem osgb_decoded_value (p X : ℕ) : digitsVal (natDigits p X) = X % 10 ^ p := digitsVal_natDigits p X

/-- **prefix law, OSGB** (integer level, every square and precision): letters + easting digits of the parent square's
reference are a prefix of the finer reference; its northing digits are a prefix of the finer northing digits -/
theorem osgb_prefix (xh yh : ℤ) (X Y p : ℕ) :
    (encodeCell xh yh (X / 10) (Y / 10) p).take (2 + p) <+: encodeCell xh yh X Y (p + 1) ∧
    (encodeCell xh yh (X / 10) (Y / 10) p).drop (2 + p) <+: (encodeCell xh yh X Y (p + 1)).drop (2 + (p + 1)) :=
  encodeCell_prefix xh yh X Y p

/-- **re-encode law, OSGB** (integer level, every accepted string): the reference of the decoded square at the decoded
precision is the input upper-cased with white space removed -/
theorem osgb_reencode (s : List ℕ) (d : OSGB.Dec) (h : OSGB.decodeInt s = .ok d) :
    toBytes (encodeCell d.xh d.yh (digitsVal d.xd) (digitsVal d.yd) d.prec) = (s.filter (fun c => !OSGB.isSpace c)).map upper :=
  reencode s d h

/-- the decoded square is one of the 25 × 25 squares of the grid and the precision is at most 11 -/
theorem osgb_decoded_range (s : List ℕ) (d : OSGB.Dec) (h : OSGB.decodeInt s = .ok d) :
    -10 ≤ d.xh ∧ d.xh < 15 ∧ -5 ≤ d.yh ∧ d.yh < 20 ∧ d.prec ≤ 11 ∧ d.xd.length = d.prec ∧ d.yd.length = d.prec := by
  obtain ⟨i, j, hlen, hp, hi, hj, hxh, hyh, hx, hy⟩ := decodeInt_ok s d h
  obtain ⟨_, i25, _⟩ := lookup_some_spec OSGB.letters _ i hi
  obtain ⟨_, j25, _⟩ := lookup_some_spec OSGB.letters _ j hj
  have l25 : OSGB.letters.length = 25 := by decide
  rw [l25] at i25 j25
  obtain ⟨a, b, c, e⟩ := letterStep_range i j i25 j25
  obtain ⟨ex, _⟩ := readDigits_spec _ _ hx
  obtain ⟨ey, _⟩ := readDigits_spec _ _ hy
  have lx := congrArg List.length ex
  have ly := congrArg List.length ey
  rw [List.length_map, List.length_take, List.length_drop] at lx
  rw [List.length_map, List.length_drop] at ly
  rw [hxh, hyh]
  exact ⟨a, b, c, e, hp, by omega, by omega⟩

/-- **`osgb_accept_iff`**: `ReadGridReference` (after the "IN…" test) accepts exactly the strings that, with white space
removed, have even length in `[2, 24]`, begin with two letters `A–Z` other than `I` (either case) and continue with decimal
digits only; everything else is rejected with the library's exception -/
theorem osgb_accept_iff (s : List ℕ) :
    (∃ d, OSGB.decodeInt s = .ok d) ↔
      (let g := s.filter (fun c => !OSGB.isSpace c)
       2 ≤ g.length ∧ g.length ≤ 24 ∧ g.length % 2 = 0 ∧ isLetter (g.getD 0 0) = true ∧ isLetter (g.getD 1 0) = true ∧
       ∀ c ∈ g.drop 2, isDigit c = true) :=
  accept_iff s

/-- `GridReference(string)`: "IN…" (either case) gives NaN; otherwise the outcome (exception or values, precision) is that
of the integer decoder followed by the floating accumulation -/
theorem osgb_reverse_shape (s : List ℕ) (cp : Bool) :
    OSGB.reverse s cp =
      if s.length ≥ 2 && upper (s.getD 0 0) = 73 && upper (s.getD 1 0) = 78 then .ok .nan
      else match OSGB.decodeInt s with
        | .error e => .error e
        | .ok d => .ok (.val (OSGB.reverseVal d cp).1 (OSGB.reverseVal d cp).2 d.prec) := by
  unfold OSGB.reverse
  by_cases h : (s.length ≥ 2 && upper (s.getD 0 0) = 73 && upper (s.getD 1 0) = 78) = true
  · simp only [h, if_true]; rfl
  · simp only [h, Bool.false_eq_true, if_false]
    cases OSGB.decodeInt s <;> rfl

/-- **decoding is case-insensitive** (OSGB) -/
theorem osgb_case_insensitive (s : List ℕ) : OSGB.decodeInt (s.map upper) = OSGB.decodeInt s := decodeInt_upper s

/-- **`osgb_scale_spec`** — the floating part of `GridReference(x, y, prec)` for one coordinate, every finite
`x = ±m·2^e` (`m < 2^53`, `−1074 ≤ e ≤ 0`), `|x| ≤ 10^7` m, every precision `p ≤ 11`; `n = ⌊x/10^5⌋` exactly.
Either `n = −1` and the code is tile 0, digits 0 — the square adjoining the position — in exactly two circumstances:
(class U) the quotient `x/10^5` underflows to `−0`, `|x| ≤ 10^5·2^(−1075)`; or `−2^(−37) ≤ x` and the sum `x + 10^5`
rounds to the tile size, which the carry of the repaired code (finding F74) turns into the start of the next tile
(theorem `osgb_offset_wrap`; a sliver of at most `2^(−37)` m, class F75).  Otherwise the tile index is exact and the
computed in-tile offset `t' < 10^5` is

* the exact offset `x − 10^5·n` (every tile but `−1`, and tile `−1` for `x ≤ −50 km`), or
* only for `n = −1`, `−50 km < x < 0`: the correctly rounded sum `x + 10^5` (`IsRN`, error `≤ 2^(−37)` m) — class F75;

and the digit indices are: for `p ≤ 5` exactly `i1 = ⌊t'/10^(5−p)⌋` (no rounding effect at all: `divFloor_nosliver`),
for `p > 5` `i1 = ⌊t'⌋` exactly, the fractional part `t' − ⌊t'⌋` exactly, and `i2` from **one** rounded multiplication
`frac·10^(p−5)` followed by `floor` — `CellRelQ`: the exact index, or the next one when the rounded product is that
integer (class F2). -/
theorem osgb_scale_spec (s : Bool) (m : ℕ) (e : ℤ) (hm : m < 2 ^ 53) (he1 : -1074 ≤ e) (he0 : e ≤ 0) (p : ℕ) (hp : p ≤ 11)
    (hb : |(F64.fin s m e).val| ≤ 10 ^ 7) (n : ℤ)
    (hn1 : (n:ℚ) ≤ (F64.fin s m e).val / 100000) (hn2 : (F64.fin s m e).val / 100000 < (n:ℚ) + 1) :
    let x := F64.fin s m e
    let sc := OSGB.scaleCoord x p
    (n = -1 ∧ (-(x.val / 100000) ≤ (2:ℚ) ^ (-(1075:ℤ)) ∨
        (-(2:ℚ) ^ (-(37:ℤ)) ≤ x.val ∧ IsRN 53 (-1074) (x.val + 100000) 100000)) ∧ sc = ⟨0, 0, 0⟩) ∨
    (sc.h = n ∧ ∃ t' : ℚ, OffsetRel x.val n t' ∧ 0 ≤ t' ∧ t' < 100000 ∧
      ∃ pv : ℚ, DigitRel t' p sc.i1 sc.i2 pv) :=
  scaleCoord_spec s m e hm he1 he0 p hp hb n hn1 hn2

/-- **the coded square is the square that contains the position** — down to 1 m (`p ≤ 5`), every tile except the part
`−50 km < x < 0` of tile `−1` (which contains the rounded-offset and the two adjoining-square classes): tile index and
digit index are the exact floors -/
theorem osgb_contains_le5 (s : Bool) (m : ℕ) (e : ℤ) (hm : m < 2 ^ 53) (he1 : -1074 ≤ e) (he0 : e ≤ 0) (p : ℕ) (hp : p ≤ 5)
    (hb : |(F64.fin s m e).val| ≤ 10 ^ 7) (n : ℤ)
    (hn1 : (n:ℚ) ≤ (F64.fin s m e).val / 100000) (hn2 : (F64.fin s m e).val / 100000 < (n:ℚ) + 1)
    (htile : n ≠ -1 ∨ (F64.fin s m e).val ≤ -50000) :
    OSGB.scaleCoord (F64.fin s m e) p = ⟨n, ⌊((F64.fin s m e).val - 100000 * n) / 10 ^ (5 - p)⌋, 0⟩ := by
  rcases scaleCoord_spec s m e hm he1 he0 p (by omega) hb n hn1 hn2 with ⟨hn, hU, _⟩ | ⟨hh, t', hrel, _, _, pv, hd, _⟩
  · -- both adjoining-square classes need −50 km < x
    exfalso
    rcases htile with h | h
    · exact h hn
    · rcases hU with hU | ⟨h37, _⟩
      · have hC : (2:ℚ) ^ (-(1075:ℤ)) < 1/4 := by
          have h2 : (2:ℚ) ^ (-(1075:ℤ)) < (2:ℚ) ^ (-(2:ℤ)) := Dy.two_zpow_lt_iff.mpr (by norm_num)
          have e2 : (2:ℚ) ^ (-(2:ℤ)) = 1/4 := by rw [zpow_neg]; norm_num
          rw [e2] at h2; exact h2
        have : (F64.fin s m e).val / 100000 ≤ -(1/2) := by
          rw [div_le_iff₀ (by norm_num)]; linarith
        linarith
      · have h37' : (2:ℚ) ^ (-(37:ℤ)) < 1 := by
          have : (2:ℚ) ^ (-(37:ℤ)) < (2:ℚ) ^ (0:ℤ) := Dy.two_zpow_lt_iff.mpr (by norm_num)
          simpa using this
        generalize (2:ℚ) ^ (-(37:ℤ)) = A at h37 h37'
        linarith
  · have ht : t' = (F64.fin s m e).val - 100000 * n := by
      rcases hrel with ⟨h, _⟩ | ⟨h1, h2, _⟩
      · exact h
      · exfalso
        rcases htile with h | h
        · exact h h1
        · linarith
    obtain ⟨a, b⟩ := hd hp
    rw [ht] at a
    cases hsc : OSGB.scaleCoord (F64.fin s m e) p with
    | mk h i1 i2 =>
      rw [hsc] at hh a b
      simp only [] at hh a b
      rw [hh, a, b]

/-- **what the repaired code does for `−2^(−37) ≤ x < 0`** (finding F74, fixed by f3f841a; every precision `≤ 11`): the
result is tile `0`, all digit indices `0` — the square `[0, 10^(5−p))` m whose edge the position misses by at most
`2^(−37)` m ≈ 7·10^(−12) m.  Two mechanisms lead there: the quotient `x/10^5` underflows to `−0` (tile 0 directly, negative
offset clamped: sliver class F2/U), or tile `−1` is selected, `x + 10^5` rounds to the tile size and the new carry
`if (xf >= tile_) { xf = 0; ++xh; }` moves the point to the start of the next tile (sliver class F75).  Before the repair the
second mechanism produced tile `−1` with digits `0…0`, the square 100 km away; a regression no longer matches any
known class. -/
theorem osgb_offset_wrap (s : Bool) (m : ℕ) (e : ℤ) (hm : m < 2 ^ 53) (he1 : -1074 ≤ e) (he0 : e ≤ 0) (p : ℕ) (hp : p ≤ 11)
    (h1 : -(2:ℚ) ^ (-(37:ℤ)) ≤ (F64.fin s m e).val) (h2 : (F64.fin s m e).val < 0) :
    OSGB.scaleCoord (F64.fin s m e) p = ⟨0, 0, 0⟩ :=
  scaleCoord_wrap s m e hm he1 he0 p hp h1 h2

/-- `CheckCoords`: accepted ⇔ each coordinate is NaN or a finite number in the half-open documented range
`[−1000 km, 1500 km) × [−500 km, 2000 km)` (limits from `Gen.Grid`); ±∞ is rejected -/
theorem osgb_checkCoords_iff (x y : F64) :
    OSGB.checkCoords x y = .ok () ↔
      (x.isNaN = true ∨ (x.isFinite = true ∧ (osgb_minx : ℚ) ≤ x.val ∧ x.val < (osgb_maxx : ℚ))) ∧
      (y.isNaN = true ∨ (y.isFinite = true ∧ (osgb_miny : ℚ) ≤ y.val ∧ y.val < (osgb_maxy : ℚ))) := by
  have key : ∀ (a : F64) (lo hi : ℤ), (F64.lt a (F64.ofInt lo) || F64.ge a (F64.ofInt hi)) = false ↔
      (a.isNaN = true ∨ (a.isFinite = true ∧ (lo:ℚ) ≤ a.val ∧ a.val < (hi:ℚ))) := by
    intro a lo hi
    cases a with
    | nan => simp [F64.lt, F64.ge, F64.le, F64.ofInt, F64.ofDy, F64.isNaN]
    | inf sgn => cases sgn <;> simp [F64.lt, F64.ge, F64.le, F64.ofInt, F64.ofDy, F64.isNaN, F64.isFinite]
    | fin sa ma ea =>
      have h1 := lt_of_hasVal (hasVal_fin sa ma ea) (hasVal_ofInt lo)
      have h2 : F64.ge (F64.fin sa ma ea) (F64.ofInt hi) = true ↔ (hi:ℚ) ≤ (F64.fin sa ma ea).val := by
        show Dy.le (F64.ofInt hi).toDy (F64.fin sa ma ea).toDy = true ↔ _
        rw [Dy.le_iff]
        show (F64.ofInt hi).val ≤ _ ↔ _
        rw [(hasVal_ofInt hi).2]
        exact Iff.rfl
      simp only [F64.isNaN, F64.isFinite, Bool.false_eq_true, false_or, true_and, Bool.or_eq_false_iff]
      constructor
      · rintro ⟨a1, a2⟩
        constructor
        · by_contra hc
          have := h1.mpr (not_le.mp hc)
          rw [this] at a1; cases a1
        · by_contra hc
          have := h2.mpr (not_lt.mp hc)
          rw [this] at a2; cases a2
      · rintro ⟨a1, a2⟩
        constructor
        · rw [Bool.eq_false_iff]; intro hc; have := h1.mp hc; linarith
        · rw [Bool.eq_false_iff]; intro hc; have := h2.mp hc; linarith
  unfold OSGB.checkCoords
  rw [← key x osgb_minx osgb_maxx, ← key y osgb_miny osgb_maxy]
  cases hx : (F64.lt x (F64.ofInt osgb_minx) || F64.ge x (F64.ofInt osgb_maxx)) <;>
  cases hy : (F64.lt y (F64.ofInt osgb_miny) || F64.ge y (F64.ofInt osgb_maxy)) <;>
  simp [bind, Except.bind, throw, throwThe, MonadExceptOf.throw, pure, Except.pure]

/-- the documented ranges -/
theorem osgb_ranges : osgb_minx = -1000000 ∧ osgb_maxx = 1500000 ∧ osgb_miny = -500000 ∧ osgb_maxy = 2000000 ∧
    osgb_tile = 100000 ∧ osgb_tilegrid = 5 ∧ osgb_tileoffx = 2 * osgb_tilegrid ∧ osgb_tileoffy = osgb_tilegrid ∧
    osgb_maxprec = 11 ∧ osgb_base = 10 ∧ osgb_tilelevel = 5 := by decide

/-- `GridReference(x, y, prec)` as a whole: range check, precision check `0 ≤ prec ≤ 11`, NaN ↦ "INVALID", otherwise the
integer encoder applied to the floating parts of the two coordinates -/
theorem osgb_gridReference_eq (x y : F64) (prec : ℤ) (hc : OSGB.checkCoords x y = .ok ()) :
    OSGB.gridReference x y prec =
      if ¬ (0 ≤ prec ∧ prec ≤ 11) then .error "prec"
      else if x.isNaN || y.isNaN then .ok "INVALID".toList
      else .ok (OSGB.encodeInt (OSGB.scaleCoord x prec.toNat) (OSGB.scaleCoord y prec.toNat) prec.toNat) := by
  unfold OSGB.gridReference
  have e11 : osgb_maxprec = 11 := rfl
  rw [hc, e11]
  by_cases hp : 0 ≤ prec ∧ prec ≤ 11
  · by_cases hn : (x.isNaN || y.isNaN) = true
    · simp [hp, hn, bind, Except.bind, pure, Except.pure]
    · simp [hp, hn, bind, Except.bind, pure, Except.pure]
  · simp [hp, bind, Except.bind, throw, throwThe, MonadExceptOf.throw]

/-- **`ReadGridReference` is exact down to 1 m**: for every accepted string of precision `≤ 5`, the returned easting is
exactly `10^5·xh + X·10^(5−p)` (south-west corner) resp. `+ 10^(5−p)/2` (centre), `X` the decoded digits; same for northing -/
theorem osgb_reverse_exact_le5 (s : List ℕ) (d : OSGB.Dec) (h : OSGB.decodeInt s = .ok d) (hp : d.prec ≤ 5) (cp : Bool) :
    HasVal (OSGB.reverseVal d cp).1 ((100000 * d.xh + digitsVal d.xd * 10 ^ (5 - d.prec) : ℤ) + (if cp then (10:ℚ) ^ (5 - d.prec) / 2 else 0)) ∧
    HasVal (OSGB.reverseVal d cp).2 ((100000 * d.yh + digitsVal d.yd * 10 ^ (5 - d.prec) : ℤ) + (if cp then (10:ℚ) ^ (5 - d.prec) / 2 else 0)) := by
  obtain ⟨lx, ly, dx, dy, a, b, c, e⟩ := OSGBReverse.dec_digits s d h
  exact OSGBReverse.reverseVal_exact d hp lx ly dx dy (by rw [abs_le]; constructor <;> omega) (by rw [abs_le]; constructor <;> omega) cp

/-- **re-encode law through the floating values, down to 1 m**: for every accepted string of precision `≤ 5`,
`GridReference(ReadGridReference(s, centerp = true), prec)` is the string upper-cased with white space removed — the
binary64 centre is computed exactly, passes the range check, and its tile index, offset and digits are exact -/
theorem osgb_reencode_le5 (s : List ℕ) (d : OSGB.Dec) (h : OSGB.decodeInt s = .ok d) (hp : d.prec ≤ 5) :
    (OSGB.gridReference (OSGB.reverseVal d true).1 (OSGB.reverseVal d true).2 d.prec).map toBytes =
      .ok ((s.filter (fun c => !OSGB.isSpace c)).map upper) := by
  obtain ⟨lx, ly, dx, dy, a, b, c, e⟩ := OSGBReverse.dec_digits s d h
  obtain ⟨vx, vy⟩ := osgb_reverse_exact_le5 s d h hp true
  simp only [if_true] at vx vy
  have hDx := OSGBReverse.digitsVal_lt d.xd dx
  have hDy := OSGBReverse.digitsVal_lt d.yd dy
  rw [lx] at hDx
  rw [ly] at hDy
  have sx := OSGBReverse.scaleCoord_centre d.xh (digitsVal d.xd) d.prec hp (by rw [abs_le]; constructor <;> omega) hDx vx
  have sy := OSGBReverse.scaleCoord_centre d.yh (digitsVal d.yd) d.prec hp (by rw [abs_le]; constructor <;> omega) hDy vy
  -- the range check
  have k5 : d.prec + (5 - d.prec) = 5 := by omega
  have hpk : (10:ℚ) ^ d.prec * (10:ℚ) ^ (5 - d.prec) = 100000 := by rw [← pow_add, k5]; norm_num
  have hkpos : (0:ℚ) < (10:ℚ) ^ (5 - d.prec) := by positivity
  have rng : ∀ (hh : ℤ) (D : ℕ), D < 10 ^ d.prec →
      (100000:ℚ) * hh ≤ ((100000 * hh + D * 10 ^ (5 - d.prec) : ℤ) : ℚ) + (10:ℚ) ^ (5 - d.prec) / 2 ∧
      ((100000 * hh + D * 10 ^ (5 - d.prec) : ℤ) : ℚ) + (10:ℚ) ^ (5 - d.prec) / 2 < 100000 * (hh + 1) := by
    intro hh D hD
    have hDq : (D:ℚ) + 1 ≤ (10:ℚ) ^ d.prec := by exact_mod_cast hD
    have hD0 : (0:ℚ) ≤ (D:ℚ) := by positivity
    have h1 : ((D:ℚ) + 1) * (10:ℚ) ^ (5 - d.prec) ≤ 100000 := by
      rw [← hpk]; exact mul_le_mul_of_nonneg_right hDq hkpos.le
    push_cast
    constructor <;> nlinarith
  have hc : OSGB.checkCoords (OSGB.reverseVal d true).1 (OSGB.reverseVal d true).2 = .ok () := by
    rw [osgb_checkCoords_iff]
    obtain ⟨x1, x2⟩ := rng d.xh _ hDx
    obtain ⟨y1, y2⟩ := rng d.yh _ hDy
    have aq : (-10:ℚ) ≤ (d.xh:ℚ) := by exact_mod_cast a
    have bq : (d.xh:ℚ) + 1 ≤ 15 := by exact_mod_cast (by omega : d.xh + 1 ≤ 15)
    have cq : (-5:ℚ) ≤ (d.yh:ℚ) := by exact_mod_cast c
    have eq' : (d.yh:ℚ) + 1 ≤ 20 := by exact_mod_cast (by omega : d.yh + 1 ≤ 20)
    push_cast at x1 x2 y1 y2
    refine ⟨Or.inr ⟨vx.1, ?_, ?_⟩, Or.inr ⟨vy.1, ?_, ?_⟩⟩
    · rw [vx.2]; norm_num [osgb_minx]; linarith
    · rw [vx.2]; norm_num [osgb_maxx]; linarith
    · rw [vy.2]; norm_num [osgb_miny]; linarith
    · rw [vy.2]; norm_num [osgb_maxy]; linarith
  rw [osgb_gridReference_eq _ _ _ hc]
  have hpr : (0:ℤ) ≤ (d.prec:ℤ) ∧ (d.prec:ℤ) ≤ 11 := by omega
  have hnan : ((OSGB.reverseVal d true).1.isNaN || (OSGB.reverseVal d true).2.isNaN) = false := by
    obtain ⟨s1, m1, e1, r1, _⟩ := vx.fin
    obtain ⟨s2, m2, e2, r2, _⟩ := vy.fin
    rw [r1, r2]; rfl
  simp only [hpr, not_true_eq_false, if_false, hnan, Bool.false_eq_true, Int.toNat_natCast, and_self]
  rw [sx, sy]
  have h0 : d.prec - 5 = 0 := by omega
  rw [encodeInt_eq_cell _ _ _ (by simp [h0]) (by simp [h0])]
  simp only [cellIndex, h0, pow_zero, Nat.mul_one, Int.toNat_natCast, Int.toNat_zero, Nat.add_zero, Except.map]
  rw [osgb_reencode s d h]

/-! #### the constants of the OSGB36 projection as written in `OSGB.hpp` (re-extracted on every run: `Gen.OSGBC`) -/

/-- **defining constants** (Ordnance Survey, *A guide to coordinate systems in Great Britain*): Airy 1830 semi-axes
`a = 20923713 ft`, `b = 20853810 ft` with `log₁₀(m/ft) = 0.48401603 − 1`; `log₁₀ F₀ = 9.9998268 − 10`; true origin 49°N 2°W;
false origin `E₀ = 400 000 m`, `N₀ = −100 000 m` -/
theorem osgb_constants_documented :
    Gen.OSGBC.a_base = 10 ∧ Gen.OSGBC.a_lognum = 48401603 - 100000000 ∧ Gen.OSGBC.a_logden = 100000000 ∧
    Gen.OSGBC.a_mul = 20923713 ∧ Gen.OSGBC.f_num = 20923713 - 20853810 ∧ Gen.OSGBC.f_den = 20923713 ∧
    Gen.OSGBC.k0_base = 10 ∧ Gen.OSGBC.k0_lognum = 9998268 - 10000000 ∧ Gen.OSGBC.k0_logden = 10000000 ∧ Gen.OSGBC.k0_mul = 1 ∧
    Gen.OSGBC.lat0 = 49 ∧ Gen.OSGBC.lon0 = -2 ∧ Gen.OSGBC.falseNorthing = -100000 ∧ Gen.OSGBC.falseEasting = 400000 := by
  decide

/-- the flattening is `7767/2324857`, i.e. `1/f = 299.32496459…` (the header's comment says 1/299.32496459) -/
theorem osgb_flattening_value :
    (Gen.OSGBC.f_num : ℚ) / Gen.OSGBC.f_den = 7767 / 2324857 ∧
    (29932496459 : ℚ) / 100000000 < (Gen.OSGBC.f_den : ℚ) / Gen.OSGBC.f_num ∧
    (Gen.OSGBC.f_den : ℚ) / Gen.OSGBC.f_num < 29932496460 / 100000000 := by
  have h1 : (Gen.OSGBC.f_num : ℚ) = 69903 := by norm_num [Gen.OSGBC.f_num]
  have h2 : (Gen.OSGBC.f_den : ℚ) = 20923713 := by norm_num [Gen.OSGBC.f_den]
  rw [h1, h2]
  norm_num

/-- the false origin is a corner of the 100 km grid: the letters of `GridReference` and the projection agree on the
origin of the coordinates (`FalseEasting = 4 tiles`, `FalseNorthing = −1 tile`) -/
theorem osgb_false_origin_on_grid :
    Gen.OSGBC.falseEasting = 4 * osgb_tile ∧ Gen.OSGBC.falseNorthing = -1 * osgb_tile := by decide

/-- the wrapper: `Reverse` undoes the shifts of `Forward` exactly whenever the two additions are exact (they are
binary64 additions of the false easting / the north offset) -/
theorem osgb_wrap_shape (fe no tx ty : F64) :
    OSGB.forwardWrap fe no tx ty = (tx + fe, ty + no) ∧ OSGB.reverseWrap fe no tx ty = (tx - fe, ty - no) ∧
    OSGB.northOffset fe ty = fe - ty := ⟨rfl, rfl, rfl⟩

/-! non-vacuity of the hypotheses of the OSGB theorems -/
/-- `x = 651409.903` (the OS worked example): `m < 2^53`, `e = −33`, tile 6, offset exact -/
example : (5595568465256579 : ℕ) < 2 ^ 53 ∧ (-1074 : ℤ) ≤ -33 ∧ (-33 : ℤ) ≤ 0 := by decide
example : OSGB.scaleCoord (F64.fin false 5595568465256579 (-33)) 3 = ⟨6, 514, 0⟩ := by decide +kernel
example : OSGB.scaleCoord (F64.fin false 5595568465256579 (-33)) 8 = ⟨6, 51409, 903⟩ := by decide +kernel
/-- the carry of the repaired code (F74): `x = −2^(−40)` is coded into tile 0, digits 0; `x = −2^(−36)` is regular -/
example : OSGB.scaleCoord (F64.fin true 1 (-40)) 5 = ⟨0, 0, 0⟩ := by decide +kernel
example : OSGB.scaleCoord (F64.fin true 1 (-36)) 5 = ⟨-1, 99999, 0⟩ := by decide +kernel
/-- class U: `x = −2^(−1074)` -/
example : OSGB.scaleCoord (F64.fin true 1 (-1074)) 5 = ⟨0, 0, 0⟩ := by decide +kernel
/-- class F2 in the digits beyond 1 m: `x = 0.3` (the double, `< 3/10`), `p = 6`: digit 3 -/
example : OSGB.scaleCoord (F64.fin false 5404319552844595 (-54)) 6 = ⟨0, 0, 3⟩ := by decide +kernel
example : (match OSGB.decodeInt (toBytes "tg 51409 13177".toList) with
    | .ok d => decide (d = ⟨6, 3, [5, 1, 4, 0, 9], [1, 3, 1, 7, 7], 5⟩) | .error _ => false) = true := by decide +kernel
example : String.ofList (OSGB.encodeInt ⟨6, 51409, 903⟩ ⟨3, 13177, 270⟩ 8) = "TG5140990313177270" := by decide +kernel
example : OSGB.checkCoords (F64.ofInt 651409) (F64.ofInt 313177) = .ok () := by decide +kernel

end OSGB

/-! ### non-vacuity: concrete codes -/
example : String.ofList (GARS.encodeInt (4320 / 2 + 7) (2160 / 2 + 5) 2) = "362HN12" := by decide
example : (match GARS.decodeInt (toBytes "361HN47".toList) false with
    | .ok d => decide (d = ⟨0, 3, 12, 2⟩) | .error _ => false) = true := by decide
example : (match Georef.decodeInt (toBytes "QJMJN".toList) false with | .ok _ => false | .error _ => true) = true := by decide
example : String.ofList (Geohash.encodeInt (2^45 + 12345678901) (2^45 + 333) 7) = "s00012j" := by decide

end GeoVerif.Props.C18
