import GeoVerif.Model.MathF
import Mathlib.Analysis.SpecialFunctions.Trigonometric.Basic
import Mathlib.Tactic.Ring
import Mathlib.Tactic.Linarith
/-!
# C16 — property theorems (angle arithmetic)
-/
namespace GeoVerif.Props.C16
open GeoVerif GeoVerif.MathF Real

/-- degrees → radians -/
noncomputable def rad (x : ℝ) : ℝ := x * π / 180

/--
`sincosd` quadrant logic: if `x = 90·q + d`, then the switch on `q mod 4`
applied to the kernel values `(sin d°, cos d°)` returns `(sin x°, cos x°)`.
This is the term `quadSwitch` used (at type `F64`) by the executable model
that is compared with the implementation.
-/
theorem sincosd_quadrant (q : ℤ) (d : ℝ) :
    quadSwitch q (sin (rad d)) (cos (rad d)) = (sin (rad (90 * q + d)), cos (rad (90 * q + d))) := by
  have hq : q = 4 * (q / 4) + q % 4 := by omega
  have key : rad (90 * (q:ℝ) + d) = rad d + ((q % 4 : ℤ) : ℝ) * (π / 2) + ((q / 4 : ℤ) : ℝ) * (2 * π) := by
    unfold rad
    have : (q : ℝ) = 4 * ((q / 4 : ℤ) : ℝ) + ((q % 4 : ℤ) : ℝ) := by exact_mod_cast hq
    rw [this]; ring
  rw [key, Real.sin_add_int_mul_two_pi, Real.cos_add_int_mul_two_pi]
  unfold quadSwitch
  have h4 : q % 4 = 0 ∨ q % 4 = 1 ∨ q % 4 = 2 ∨ q % 4 = 3 := by omega
  rcases h4 with h | h | h | h <;> simp only [h] <;> norm_num
  · rw [Real.sin_add_pi_div_two, Real.cos_add_pi_div_two]; exact ⟨rfl, rfl⟩
  · have : rad d + 2 * (π / 2) = rad d + π := by ring
    rw [this, Real.sin_add_pi, Real.cos_add_pi]; exact ⟨rfl, rfl⟩
  · have : rad d + 3 * (π / 2) = (rad d + π / 2) + π := by ring
    rw [this, Real.sin_add_pi, Real.cos_add_pi, Real.sin_add_pi_div_two, Real.cos_add_pi_div_two]
    simp

/-- non-vacuity: the switch really permutes (q = 1 sends (s, c) to (c, −s)) -/
example : quadSwitch (5 : ℤ) (1 : ℝ) 2 = (2, -1) := by
  unfold quadSwitch; norm_num

end GeoVerif.Props.C16
