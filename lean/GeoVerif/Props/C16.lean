import GeoVerif.Model.MathF
import GeoVerif.Proofs.F64Val
import GeoVerif.Proofs.TwoSum
import GeoVerif.Model.Accum
import GeoVerif.Proofs.Accum
import GeoVerif.Proofs.MathG
import Mathlib.Analysis.SpecialFunctions.Trigonometric.Basic
import Mathlib.Tactic.Ring
import Mathlib.Tactic.Linarith
import Mathlib.Analysis.SpecialFunctions.Complex.Arg
/-!
# C16 — property theorems (angle arithmetic)
-/
namespace GeoVerif.Props.C16
open GeoVerif GeoVerif.MathF Real

/-- degrees → radians -/
noncomputable def rad (x : ℝ) : ℝ := x * π / 180

/--
`sincosd` quadrant logic: if `x = 90·q + d`, then the switch on `q mod 4`
applied to the kernel values `(sin d°, cos d°)` returns `(sin x°, cos x°)`.
This is the term `quadSwitch` used (at type `F64`) by the executable model
that is compared with the implementation.
-/
theorem sincosd_quadrant (q : ℤ) (d : ℝ) :
    quadSwitch q (sin (rad d)) (cos (rad d)) = (sin (rad (90 * q + d)), cos (rad (90 * q + d))) := by
  have hq : q = 4 * (q / 4) + q % 4 := by omega
  have key : rad (90 * (q:ℝ) + d) = rad d + ((q % 4 : ℤ) : ℝ) * (π / 2) + ((q / 4 : ℤ) : ℝ) * (2 * π) := by
    unfold rad
    have : (q : ℝ) = 4 * ((q / 4 : ℤ) : ℝ) + ((q % 4 : ℤ) : ℝ) := by exact_mod_cast hq
    rw [this]; ring
  rw [key, Real.sin_add_int_mul_two_pi, Real.cos_add_int_mul_two_pi]
  unfold quadSwitch
  have h4 : q % 4 = 0 ∨ q % 4 = 1 ∨ q % 4 = 2 ∨ q % 4 = 3 := by omega
  rcases h4 with h | h | h | h <;> simp only [h] <;> norm_num
  · rw [Real.sin_add_pi_div_two, Real.cos_add_pi_div_two]; exact ⟨rfl, rfl⟩
  · have : rad d + 2 * (π / 2) = rad d + π := by ring
    rw [this, Real.sin_add_pi, Real.cos_add_pi]; exact ⟨rfl, rfl⟩
  · have : rad d + 3 * (π / 2) = (rad d + π / 2) + π := by ring
    rw [this, Real.sin_add_pi, Real.cos_add_pi, Real.sin_add_pi_div_two, Real.cos_add_pi_div_two]
    simp

/-- non-vacuity: the switch really permutes (q = 1 sends (s, c) to (c, −s)) -/
example : quadSwitch (5 : ℤ) (1 : ℝ) 2 = (2, -1) := by
  unfold quadSwitch; norm_num


/-! ## Exact theorems about the binary64 model (`F64` = the model the driver executes against the implementation)

`F64.val` is the rational value of a finite binary64.  `remainder` (the `std::remainder` used by `AngNormalize`,
`AngDiff` and the `remquo` reduction of `sincosd`) is modelled exactly; constants 90/180/360 come from
`Gen.MathC` (re-extracted from `Math.hpp` on every run), so these theorems are re-checked against the source. -/
open Dy F64

theorem td_eq : td = F64.fin false 360 0 := rfl
theorem hd_eq : hd = F64.fin false 180 0 := rfl
theorem qd_eq : qd = F64.fin false 90 0 := rfl


/-- **Exact argument reduction**: `remainder(x, y)` is the finite number `x − n·y`, `n = remquo` the integer nearest
to `x/y`, hence `|result| ≤ |y|/2` with no rounding error at all; a zero result keeps the sign of `x`.  (This is why
`sincosd`, `AngNormalize`, … depend on their argument only modulo 360.) -/
theorem remainder_exact (sx sy : Bool) (mx my : ℕ) (ex ey : ℤ) (hy : my ≠ 0) :
    let x := F64.fin sx mx ex; let y := F64.fin sy my ey
    (remainder x y).isFinite = true ∧
    (remainder x y).val = x.val - (remquoN x y : ℚ) * y.val ∧
    2 * |(remainder x y).val| ≤ |y.val| ∧
    ((remainder x y).val = 0 → (remainder x y).signbit = sx) := F64.remainder_spec sx sy mx my ex ey hy

/-- **AngNormalize**: for every finite `x` the result is finite, congruent to `x` modulo 360 *exactly*, lies in
`[−180, 180]`, and a result of `0` or `±180` carries the sign of `x`. -/
theorem angNormalize_spec (sx : Bool) (mx : ℕ) (ex : ℤ) :
    let x := F64.fin sx mx ex
    (angNormalize x).isFinite = true ∧
    (∃ n : ℤ, (angNormalize x).val = x.val - 360 * n) ∧
    |(angNormalize x).val| ≤ 180 ∧
    ((angNormalize x).val = 0 ∨ |(angNormalize x).val| = 180 → (angNormalize x).signbit = sx) := by
  intro x
  obtain ⟨hfin, hval, hb, hsg⟩ := remainder_spec sx false mx 360 ex 0 (by norm_num)
  have htdv : (F64.fin false 360 0).val = 360 := by rw [F64.val_fin]; simp
  rw [htdv] at hval hb
  rw [abs_of_pos (by norm_num : (0:ℚ) < 360)] at hb
  unfold angNormalize
  rw [td_eq, hd_eq]
  set y := remainder x (F64.fin false 360 0) with hy
  -- y is finite
  obtain ⟨sy, my, ey, hyf⟩ : ∃ s m e, y = F64.fin s m e := F64.exists_fin_of_isFinite y hfin
  have habs : (F64.abs y).isFinite = true := by rw [hyf]; rfl
  have h180 : (F64.fin false 180 0).val = 180 := by rw [F64.val_fin]; simp
  by_cases hE : F64.eq (F64.abs y) (F64.fin false 180 0) = true
  · simp only [hE, if_true]
    have hyv : |y.val| = 180 := by
      have := (F64.eq_fin_iff _ _ habs rfl).mp hE
      rw [hyf, F64.val_abs_fin, h180] at this; rw [hyf]; exact this
    have hcs : copysign (F64.fin false 180 0) x = F64.fin sx 180 0 := rfl
    rw [hcs]
    have hv : (F64.fin sx 180 0).val = if sx then -180 else 180 := by rw [F64.val_fin]; by_cases h : sx <;> simp [h]
    refine ⟨rfl, ?_, ?_, fun _ => rfl⟩
    · -- y = x − 360 n with |y| = 180 ⇒ ±180 both congruent
      rcases abs_eq (by norm_num : (0:ℚ) ≤ 180) |>.mp hyv with hpos | hneg
      · by_cases h : sx
        · refine ⟨remquoN x (F64.fin false 360 0) + 1, ?_⟩
          rw [hv]; simp only [h, if_true]; push_cast; linarith
        · refine ⟨remquoN x (F64.fin false 360 0), ?_⟩
          rw [hv]; simp only [h]; push_cast; linarith
      · by_cases h : sx
        · refine ⟨remquoN x (F64.fin false 360 0), ?_⟩
          rw [hv]; simp only [h, if_true]; push_cast; linarith
        · refine ⟨remquoN x (F64.fin false 360 0) - 1, ?_⟩
          rw [hv]; simp only [h]; push_cast; linarith
    · rw [hv]; by_cases h : sx <;> simp [h]
  · have hE' : F64.eq (F64.abs y) (F64.fin false 180 0) = false := by simpa using hE
    simp only [hE', Bool.false_eq_true, if_false]
    have hne : |y.val| ≠ 180 := by
      intro hc; apply hE
      apply (F64.eq_fin_iff _ _ habs rfl).mpr
      rw [hyf, F64.val_abs_fin, h180]; rw [hyf] at hc; exact hc
    refine ⟨hfin, ⟨remquoN x (F64.fin false 360 0), by rw [hval]; ring⟩, by linarith, ?_⟩
    rintro (h0 | h1)
    · exact hsg h0
    · exact absurd h1 hne

/-- NaN and infinities are mapped to NaN by `AngNormalize` -/
theorem angNormalize_nonfinite (x : F64) (h : x.isFinite = false) : (angNormalize x).isNaN = true := by
  cases x <;> simp_all [isFinite] <;> rfl

/-- **LatFix**: the identity on `[−90, 90]` (and on NaN), NaN elsewhere -/
theorem latFix_spec (x : F64) :
    (latFix x = x ∨ (latFix x).isNaN = true) ∧
    (∀ s m e, x = F64.fin s m e → (|x.val| ≤ 90 ↔ latFix x = x)) := by
  constructor
  · unfold latFix; split <;> simp [isNaN]
  · intro s m e hx
    unfold latFix
    rw [qd_eq, hx]
    have : F64.gt (F64.abs (F64.fin s m e)) (F64.fin false 90 0) = true ↔ 90 < |(F64.fin s m e).val| := by
      show Dy.lt _ _ = true ↔ _
      rw [Dy.lt_iff]
      have h90 : (F64.fin false 90 0).toDy.val = 90 := by
        have := F64.val_fin false 90 0; simpa [F64.val] using this
      rw [h90]
      have := F64.val_abs_fin s m e; unfold F64.val at this; rw [this]; rfl
    by_cases hg : F64.gt (F64.abs (F64.fin s m e)) (F64.fin false 90 0) = true
    · simp only [hg, if_true]
      have := this.mp hg
      constructor
      · intro h; linarith
      · intro h; cases h
    · simp only [hg]
      have h' : ¬ 90 < |(F64.fin s m e).val| := fun h => hg (this.mpr h)
      constructor
      · intro _; trivial
      · intro _; linarith
/-- **AngRound** is the identity on every finite `|x| ≥ 1/16` (bit for bit, sign included) -/
theorem angRound_big (s : Bool) (m : ℕ) (e : ℤ) (h : 1 / 16 ≤ |(F64.fin s m e).val|) :
    angRound (F64.fin s m e) = F64.fin s m e := by
  unfold angRound
  simp only []
  have hw : F64.gt ((F64.fin false 1 (-4)) - F64.abs (F64.fin s m e)) 0 = false := by
    show F64.gt (F64.rnd (Dy.add (F64.fin false 1 (-4)).toDy (F64.neg (F64.abs (F64.fin s m e))).toDy) _) 0 = false
    apply rnd_nonpos_not_gt
    have hv : (Dy.add (F64.fin false 1 (-4)).toDy (F64.neg (F64.abs (F64.fin s m e))).toDy).val ≤ 0 := by
      rw [Dy.val_add]
      have h1 : (F64.fin false 1 (-4)).toDy.val = 1 / 16 := by
        simp [F64.toDy, Dy.val]; norm_num
      have h2 : (F64.neg (F64.abs (F64.fin s m e))).toDy.val = -|(F64.fin s m e).val| := by
        rw [← F64.val_abs_fin]; simp [F64.neg, F64.abs, F64.toDy, Dy.val, F64.val]
      rw [h1, h2]; linarith
    by_contra hc
    have hpos : 0 < (Dy.add (F64.fin false 1 (-4)).toDy (F64.neg (F64.abs (F64.fin s m e))).toDy).m := by omega
    have := (Dy.m_neg_iff (Dy.neg (Dy.add (F64.fin false 1 (-4)).toDy (F64.neg (F64.abs (F64.fin s m e))).toDy))).mp (by simp [Dy.neg]; omega)
    rw [Dy.val_neg] at this; linarith
  rw [hw]; rfl

/-- non-vacuity: 540° normalises to 180 (sign kept), −1e-320-ish subnormal stays itself, 1/32 is *not* in the identity range of AngRound -/
example : (angNormalize (F64.fin false 540 0)).toBits = (F64.fin false 180 0).toBits := by decide
example : (angNormalize (F64.fin true 540 0)).toBits = (F64.fin true 180 0).toBits := by decide
example : (1 : ℚ) / 16 ≤ |(F64.fin true 3 (-4)).val| := by rw [F64.val_fin]; norm_num

/-- `AngDiff` written with projections -/
theorem angDiff_unfold (x y : F64) :
    angDiff x y =
      (let s1 := MathF.sum (remainder (F64.neg x) td) (remainder y td)
       let s2 := MathF.sum (remainder s1.1 td) s1.2
       (if F64.eq s2.1 0 || F64.eq (F64.abs s2.1) hd then
          copysign s2.1 (if F64.eq s2.2 0 then y - x else F64.neg s2.2) else s2.1, s2.2)) := by
  unfold angDiff; rfl

theorem val_copysign_fin (s : Bool) (m : ℕ) (e : ℤ) (z : F64) :
    (copysign (F64.fin s m e) z).val = (F64.fin s m e).val ∨ (copysign (F64.fin s m e) z).val = -(F64.fin s m e).val := by
  show (F64.fin z.signbit m e).val = _ ∨ (F64.fin z.signbit m e).val = _
  rw [F64.val_fin, F64.val_fin]
  cases s <;> cases z.signbit <;> simp

/--
**AngDiff, exactness (partial)**.  Full statement of the property: for all finite `x, y`, `d + e ≡ y − x (mod 360)` *exactly*.
Proved here under the TwoSum contract for the two calls of `Math::sum` inside `AngDiff` (the high word is finite and
`s + t = u + v` exactly); the contract itself is not proved for all pairs (Knuth's TwoSum theorem for `round53`) — it is
evaluated in exact dyadic arithmetic by the driver on every sampled pair.  What is proved: the reductions by
`remainder`, the second normalisation and the sign fix-up at `0`/`±180` never lose anything modulo 360.
-/
theorem angDiff_exact_partial (sx sy : Bool) (mx my : ℕ) (ex ey : ℤ) :
    let x := F64.fin sx mx ex; let y := F64.fin sy my ey
    let s1 := MathF.sum (remainder (F64.neg x) td) (remainder y td)
    let s2 := MathF.sum (remainder s1.1 td) s1.2
    s1.1.isFinite = true → s2.1.isFinite = true →
    s1.1.val + s1.2.val = (remainder (F64.neg x) td).val + (remainder y td).val →
    s2.1.val + s2.2.val = (remainder s1.1 td).val + s1.2.val →
    ∃ n : ℤ, (angDiff x y).1.val + (angDiff x y).2.val = y.val - x.val - 360 * n := by
  intro x y s1 s2 hf1 hf2 H1 H2
  obtain ⟨-, hr1, -, -⟩ := F64.remainder_spec (!sx) false mx 360 ex 0 (by norm_num)
  obtain ⟨-, hr2, -, -⟩ := F64.remainder_spec sy false my 360 ey 0 (by norm_num)
  obtain ⟨s3, m3, e3, hd1⟩ := F64.exists_fin_of_isFinite s1.1 hf1
  obtain ⟨-, hr3, -, -⟩ := F64.remainder_spec s3 false m3 360 e3 0 (by norm_num)
  obtain ⟨s4, m4, e4, hd2⟩ := F64.exists_fin_of_isFinite s2.1 hf2
  have h360 : (F64.fin false 360 0).val = 360 := by rw [F64.val_fin]; simp
  have hnegx : (F64.fin (!sx) mx ex).val = -x.val := by
    show _ = -(F64.fin sx mx ex).val
    rw [F64.val_fin, F64.val_fin]; cases sx <;> simp
  rw [h360] at hr1 hr2 hr3
  rw [hnegx] at hr1
  have e1 : remainder (F64.neg x) td = remainder (F64.fin (!sx) mx ex) (F64.fin false 360 0) := rfl
  have e2 : remainder y td = remainder (F64.fin sy my ey) (F64.fin false 360 0) := rfl
  have e3' : remainder s1.1 td = remainder (F64.fin s3 m3 e3) (F64.fin false 360 0) := by rw [hd1]; rfl
  rw [e1, e2, hr1, hr2] at H1
  rw [e3', hr3] at H2
  have hfin3 : (F64.fin s3 m3 e3).val = s1.1.val := by rw [hd1]
  rw [angDiff_unfold]
  show ∃ n : ℤ, (if F64.eq s2.1 0 || F64.eq (F64.abs s2.1) hd then
          copysign s2.1 (if F64.eq s2.2 0 then y - x else F64.neg s2.2) else s2.1).val + s2.2.val = _
  -- the totals before the sign fix
  have base : s2.1.val + s2.2.val = y.val - x.val
      - 360 * ((remquoN (F64.fin (!sx) mx ex) (F64.fin false 360 0) + remquoN (F64.fin sy my ey) (F64.fin false 360 0)
          + remquoN (F64.fin s3 m3 e3) (F64.fin false 360 0) : ℤ) : ℚ) := by
    push_cast; rw [H2, hfin3]; linarith
  by_cases hc : (F64.eq s2.1 0 || F64.eq (F64.abs s2.1) hd) = true
  · simp only [hc, if_true]
    -- value is 0 or ±180: copysign changes it by 0 or ±360
    have hv : s2.1.val = 0 ∨ |s2.1.val| = 180 := by
      rcases Bool.or_eq_true _ _ |>.mp hc with h | h
      · left
        have := (F64.eq_fin_iff s2.1 0 hf2 rfl).mp h
        rw [this]; show (F64.fin false 0 0).val = 0; rw [F64.val_fin]; simp
      · right
        have hA : (F64.abs s2.1).isFinite = true := by rw [hd2]; rfl
        have := (F64.eq_fin_iff _ hd hA rfl).mp h
        rw [hd2, F64.val_abs_fin, hd_eq] at this
        rw [hd2, this, F64.val_fin]; simp
    set z := (if F64.eq s2.2 0 then y - x else F64.neg s2.2) with hz
    have hcs := val_copysign_fin s4 m4 e4 z
    rw [← hd2] at hcs
    rcases hcs with hsame | hflip
    · exact ⟨_, by rw [hsame]; exact base⟩
    · rcases hv with h0 | h180
      · exact ⟨_, by rw [hflip, h0, neg_zero, ← h0]; exact base⟩
      · rcases abs_eq (by norm_num : (0:ℚ) ≤ 180) |>.mp h180 with hp | hn
        · refine ⟨(remquoN (F64.fin (!sx) mx ex) (F64.fin false 360 0) + remquoN (F64.fin sy my ey) (F64.fin false 360 0)
              + remquoN (F64.fin s3 m3 e3) (F64.fin false 360 0)) + 1, ?_⟩
          rw [hflip]; push_cast at base ⊢; linarith
        · refine ⟨(remquoN (F64.fin (!sx) mx ex) (F64.fin false 360 0) + remquoN (F64.fin sy my ey) (F64.fin false 360 0)
              + remquoN (F64.fin s3 m3 e3) (F64.fin false 360 0)) - 1, ?_⟩
          rw [hflip]; push_cast at base ⊢; linarith
  · have hc' : (F64.eq s2.1 0 || F64.eq (F64.abs s2.1) hd) = false := by simpa using hc
    simp only [hc', Bool.false_eq_true, if_false]
    exact ⟨_, base⟩


/-- non-vacuity of `angDiff_exact_partial`: for x = 10.5, y = 350.25 both TwoSum hypotheses hold (decided exactly in dyadic arithmetic) -/
example :
    let x := F64.fin false 21 (-1); let y := F64.fin false 1401 (-2)
    let s1 := MathF.sum (remainder (F64.neg x) td) (remainder y td)
    let s2 := MathF.sum (remainder s1.1 td) s1.2
    s1.1.isFinite = true ∧ s2.1.isFinite = true ∧
    Dy.eq (Dy.add s1.1.toDy s1.2.toDy) (Dy.add (remainder (F64.neg x) td).toDy (remainder y td).toDy) = true ∧
    Dy.eq (Dy.add s2.1.toDy s2.2.toDy) (Dy.add (remainder s1.1 td).toDy s1.2.toDy) = true := by decide

/-! ## TwoSum: `Math::sum` is error free, and `AngDiff` without hypotheses -/

/-- **`Math::sum` is error free** (property C16, last sentence; Knuth's TwoSum for the executable binary64 model,
round-to-nearest-even with gradual underflow).  For all finite representable `u`, `v` with `|u|, |v| ≤ 2^1018`
(no overflow in any of the six operations): the first component is the floating-point sum `u + v` (the correctly
rounded exact sum), the second is finite and representable, and `s + t = u + v` **exactly**. -/
theorem sum_exact (u v : F64) (hu : F64.IsRep u) (hv : F64.IsRep v)
    (hub : |u.val| ≤ (2:ℚ) ^ (1018:ℤ)) (hvb : |v.val| ≤ (2:ℚ) ^ (1018:ℤ)) :
    (MathF.sum u v).1 = u + v ∧
    (MathF.sum u v).1.isFinite = true ∧ (MathF.sum u v).2.isFinite = true ∧
    IsRN 53 (-1074) (u.val + v.val) (MathF.sum u v).1.val ∧ Rep (MathF.sum u v).2.val ∧
    (MathF.sum u v).1.val + (MathF.sum u v).2.val = u.val + v.val :=
  F64.twoSum_exact u v hu hv hub hvb

theorem small_le (x : ℚ) (h : |x| ≤ 180) : |x| ≤ (2:ℚ) ^ (1018:ℤ) := by
  calc |x| ≤ 180 := h
    _ ≤ (2:ℚ) ^ (8:ℤ) := by norm_num
    _ ≤ (2:ℚ) ^ (1018:ℤ) := Dy.two_zpow_le (by norm_num)

/-- **AngDiff is exact modulo 360** — the full statement, no TwoSum hypothesis: for all finite representable `x`, `y`,
`d + e ≡ y − x (mod 360)` exactly, with `(d, e) = AngDiff(x, y)`. -/
theorem angDiff_exact (sx sy : Bool) (mx my : ℕ) (ex ey : ℤ)
    (hx : F64.IsRep (F64.fin sx mx ex)) (hy : F64.IsRep (F64.fin sy my ey)) :
    ∃ n : ℤ, (angDiff (F64.fin sx mx ex) (F64.fin sy my ey)).1.val + (angDiff (F64.fin sx mx ex) (F64.fin sy my ey)).2.val
      = (F64.fin sy my ey).val - (F64.fin sx mx ex).val - 360 * n := by
  have hnx := F64.IsRep.neg_fin sx mx ex hx
  obtain ⟨ru, bu⟩ := F64.remainder360_rep (!sx) mx ex hnx
  obtain ⟨rv, bv⟩ := F64.remainder360_rep sy my ey hy
  have e1 : remainder (F64.neg (F64.fin sx mx ex)) td = remainder (F64.fin (!sx) mx ex) (F64.fin false 360 0) := rfl
  have e2 : remainder (F64.fin sy my ey) td = remainder (F64.fin sy my ey) (F64.fin false 360 0) := rfl
  obtain ⟨_, f1, f1t, r1, rep1t, hs1⟩ := F64.twoSum_exact _ _ ru rv (small_le _ bu) (small_le _ bv)
  obtain ⟨_, lowv⟩ := F64.twoSum_low_le _ _ ru rv (small_le _ bu) (small_le _ bv)
  -- the second call
  obtain ⟨s3, m3, e3, hd1⟩ := F64.exists_fin_of_isFinite _ f1
  have rep1 : F64.IsRep (F64.fin s3 m3 e3) := by
    rw [← hd1]; exact ⟨f1, r1.rep⟩
  obtain ⟨ru2, bu2⟩ := F64.remainder360_rep s3 m3 e3 rep1
  have e3' : remainder (MathF.sum (remainder (F64.fin (!sx) mx ex) (F64.fin false 360 0))
      (remainder (F64.fin sy my ey) (F64.fin false 360 0))).1 td = remainder (F64.fin s3 m3 e3) (F64.fin false 360 0) := by
    rw [hd1]; rfl
  have hv2 : |(MathF.sum (remainder (F64.fin (!sx) mx ex) (F64.fin false 360 0))
      (remainder (F64.fin sy my ey) (F64.fin false 360 0))).2.val| ≤ (2:ℚ) ^ (1018:ℤ) :=
    small_le _ (le_trans lowv bv)
  obtain ⟨_, f2, _, _, _, hs2⟩ := F64.twoSum_exact _ _ ru2 ⟨f1t, rep1t⟩ (small_le _ bu2) hv2
  have := angDiff_exact_partial sx sy mx my ex ey
  simp only [] at this
  rw [e1, e2, e3'] at this
  exact this f1 f2 hs1 hs2

/-- non-vacuity: 10.5 and 350.25 are finite representable values -/
example : F64.IsRep (F64.fin false 21 (-1)) ∧ F64.IsRep (F64.fin false 1401 (-2)) :=
  ⟨⟨rfl, 21, -1, by norm_num, by norm_num, by rw [F64.val_fin]; simp⟩,
   ⟨rfl, 1401, -2, by norm_num, by norm_num, by rw [F64.val_fin]; simp⟩⟩

/-! ## `Accumulator::Add` -/
section Accumulator
open GeoVerif.Accum

theorem le_1018 {x : ℚ} {k : ℤ} (h : |x| ≤ (2:ℚ) ^ k) (hk : k ≤ 1018) : |x| ≤ (2:ℚ) ^ (1018:ℤ) :=
  le_trans h (Dy.two_zpow_le hk)

/-- **`Accumulator::Add`, one step** (all finite representable `_s`, `_t`, `y` of magnitude `≤ 2^1016`).
The two TwoSum steps are exact: with `(y₁, u) = sum(y, _t)` and `(s₁, t₁) = sum(y₁, _s)`,
`s₁ + t₁ + u = _s + _t + y` exactly.  The new pair is finite and representable, and
`_s' + _t' = _s + _t + y + ε` where `ε = 0` if `s₁ = 0` (then the result is `(u, 0)`) and otherwise `ε` is the single
rounding error of `_t' = t₁ ⊕ u`, `|ε| ≤ max(|t₁ + u|·2^(−53), 2^(−1075))` — the documented "1 ulp of the less
significant word". -/
theorem accum_add_step (a : Acc) (y : F64) (hs : F64.IsRep a.s) (ht : F64.IsRep a.t) (hy : F64.IsRep y)
    (bs : |a.s.val| ≤ (2:ℚ) ^ (1016:ℤ)) (bt : |a.t.val| ≤ (2:ℚ) ^ (1016:ℤ)) (by' : |y.val| ≤ (2:ℚ) ^ (1016:ℤ)) :
    let p := MathF.sum y a.t
    let q := MathF.sum p.1 a.s
    q.1.val + q.2.val + p.2.val = a.s.val + a.t.val + y.val ∧
    F64.IsRep (add a y).s ∧ F64.IsRep (add a y).t ∧
    (q.1.val = 0 → (add a y).s.val + (add a y).t.val = a.s.val + a.t.val + y.val) ∧
    |(add a y).s.val + (add a y).t.val - (a.s.val + a.t.val + y.val)|
      ≤ max (|q.2.val + p.2.val| * (2:ℚ) ^ (-(53:ℤ))) ((2:ℚ) ^ (-(1075:ℤ))) := by
  intro p q
  obtain ⟨_, pf1, pf2, pr1, prep2, psum⟩ := F64.twoSum_exact y a.t hy ht (le_1018 by' (by norm_num)) (le_1018 bt (by norm_num))
  obtain ⟨_, plow⟩ := F64.twoSum_low_le y a.t hy ht (le_1018 by' (by norm_num)) (le_1018 bt (by norm_num))
  have pb1 : |p.1.val| ≤ (2:ℚ) ^ (1017:ℤ) :=
    RN.abs_le_zpow pr1 1017 (by norm_num) (F64.bound_add by' bt (by norm_num) (by norm_num))
  have hp1 : F64.IsRep p.1 := ⟨pf1, pr1.rep⟩
  obtain ⟨_, qf1, qf2, qr1, qrep2, qsum⟩ := F64.twoSum_exact p.1 a.s hp1 hs (le_1018 pb1 (by norm_num)) (le_1018 bs (by norm_num))
  obtain ⟨_, qlow⟩ := F64.twoSum_low_le p.1 a.s hp1 hs (le_1018 pb1 (by norm_num)) (le_1018 bs (by norm_num))
  have hexact : q.1.val + q.2.val + p.2.val = a.s.val + a.t.val + y.val := by
    show (MathF.sum p.1 a.s).1.val + (MathF.sum p.1 a.s).2.val + (MathF.sum y a.t).2.val = _
    rw [qsum]; linarith
  have f0 : (0 : F64).isFinite = true := rfl
  have hadd : add a y = if F64.eq q.1 0 = true then ⟨p.2, q.2⟩ else ⟨q.1, q.2 + p.2⟩ := rfl
  have hpos : (0:ℚ) ≤ max (|q.2.val + p.2.val| * (2:ℚ) ^ (-(53:ℤ))) ((2:ℚ) ^ (-(1075:ℤ))) :=
    le_trans (Dy.two_zpow_pos _).le (le_max_right _ _)
  by_cases hz : F64.eq q.1 0 = true
  · -- s₁ = 0 ⇒ t₁ = 0 and the result is (u, 0)
    have hq1 : q.1.val = 0 := by rw [(F64.eq_fin_iff _ _ qf1 f0).mp hz, F64.val_zero]
    have hq2 : q.2.val = 0 := by
      -- the exact sum p.1 + a.s rounds to 0, hence is 0, hence the error is 0
      have hq1' : (MathF.sum p.1 a.s).1.val = 0 := hq1
      rw [hq1'] at qr1
      have hrep : Rep (p.1.val + a.s.val) := by
        have := err_rep hp1.2 hs.2 qr1; simpa using this
      have h0 := hrep.rn_eq qr1
      show (MathF.sum p.1 a.s).2.val = 0
      linarith
    rw [hadd, if_pos hz]
    refine ⟨hexact, ⟨pf2, prep2⟩, ⟨qf2, qrep2⟩, fun _ => ?_, ?_⟩
    · show p.2.val + q.2.val = _; linarith
    · have : p.2.val + q.2.val - (a.s.val + a.t.val + y.val) = 0 := by linarith
      show |p.2.val + q.2.val - (a.s.val + a.t.val + y.val)| ≤ _
      rw [this, abs_zero]; exact hpos
  · have hz' : F64.eq q.1 0 = false := by simpa using hz
    rw [hadd, hz']
    simp only [Bool.false_eq_true, if_false]
    -- t' = t₁ ⊕ u
    have bq2 : |q.2.val| ≤ (2:ℚ) ^ (1016:ℤ) := le_trans qlow bs
    have bp2 : |p.2.val| ≤ (2:ℚ) ^ (1016:ℤ) := le_trans plow bt
    obtain ⟨tf, tr, _⟩ := F64.add_rn q.2 p.2 qf2 pf2 1017 (by norm_num) (by norm_num)
      (F64.bound_add bq2 bp2 (by norm_num) (by norm_num))
    have hq1ne : q.1.val ≠ 0 := by
      intro h0
      have : F64.eq q.1 0 = true := (F64.eq_fin_iff _ _ qf1 f0).mpr (by rw [h0, F64.val_zero])
      rw [this] at hz'; exact absurd hz' (by decide)
    refine ⟨hexact, ⟨qf1, qr1.rep⟩, ⟨tf, tr.rep⟩, fun h0 => absurd h0 hq1ne, ?_⟩
    have herr := tr.err
    have e : (q.1.val + (q.2 + p.2).val - (a.s.val + a.t.val + y.val)) = (q.2 + p.2).val - (q.2.val + p.2.val) := by linarith
    show |q.1.val + (q.2 + p.2).val - (a.s.val + a.t.val + y.val)| ≤ _
    rw [e]
    have e2 : ((-1074:ℤ) - 1) = -1075 := by norm_num
    rw [e2] at herr
    exact_mod_cast herr


/-- non-vacuity: adding 1 to the accumulator (2^53, 0) keeps the exact total in the low word -/
example : (match add ⟨.fin false 1 53, 0⟩ (.fin false 1 0) with
    | ⟨s, t⟩ => F64.same s (.fin false 1 53) && F64.same t (.fin false 1 0)) = true := by decide +kernel

end Accumulator

/-! ## The accumulator as a state machine over the exact binary64 model

`Accum.step` / `Accum.run` (`Model/Accum.lean`) are the functions the driver executes against `Accumulator<double>` after every
operation of every sampled history. -/
section AccumulatorHistory
open GeoVerif.Accum

/-- **`remainder` renormalises** (seeded change C16F).  For every representable state `(_s, _t)` and every representable
non-zero modulus `y` (no overflow): straight after `remainder(y)`
* the reported value `operator()()` is the held sum `_s + _t` **rounded to working precision** (and `_t` is the exact rest),
* the held sum has changed by exactly `n·y`, `n = remquo(_s, y)` the integer nearest to `_s / y` — nothing is lost,
* the held sum lies in `[−|y|/2, |y|/2]` up to the old low word (the header's range, observation O3 of DESIGN §12.5). -/
theorem remainder_renormalises (a : Acc) (y : F64) (hs : F64.IsRep a.s) (ht : F64.IsRep a.t) (hy : F64.IsRep y) (hy0 : y.val ≠ 0)
    (bs : |a.s.val| ≤ (2:ℚ) ^ (1017:ℤ)) (bt : |a.t.val| ≤ (2:ℚ) ^ (1017:ℤ)) :
    F64.IsRep (Accum.remainder a y).s ∧ F64.IsRep (Accum.remainder a y).t ∧
    RN ((Accum.remainder a y).s.val + (Accum.remainder a y).t.val) (report (Accum.remainder a y)).val ∧
    (Accum.remainder a y).s.val + (Accum.remainder a y).t.val = a.s.val + a.t.val - (F64.remquoN a.s y : ℚ) * y.val ∧
    |(Accum.remainder a y).s.val + (Accum.remainder a y).t.val| ≤ |y.val| / 2 + |a.t.val| := by
  obtain ⟨sx, mx, ex, hsx⟩ := F64.exists_fin_of_isFinite a.s hs.1
  obtain ⟨sy, my, ey, hyy⟩ := F64.exists_fin_of_isFinite y hy.1
  have hmy : my ≠ 0 := by
    rintro rfl; apply hy0; rw [hyy]; exact F64.val_fin_zero sy ey
  have hsr : F64.IsRep (F64.fin sx mx ex) := hsx ▸ hs
  have hyr : F64.IsRep (F64.fin sy my ey) := hyy ▸ hy
  obtain ⟨hrrep, hrle, hrhalf⟩ := F64.remainder_rep sx sy mx my ex ey hmy hsr hyr
  obtain ⟨_, hval, _, _⟩ := F64.remainder_spec sx sy mx my ex ey hmy
  have hdef : Accum.remainder a y = add ⟨F64.remainder (F64.fin sx mx ex) (F64.fin sy my ey), a.t⟩ 0 := by
    show add ⟨F64.remainder a.s y, a.t⟩ 0 = _; rw [hsx, hyy]
  have bsr : |(F64.remainder (F64.fin sx mx ex) (F64.fin sy my ey)).val| ≤ (2:ℚ) ^ (1017:ℤ) := by
    refine le_trans hrle ?_; rw [← hsx]; exact bs
  obtain ⟨r1, r2, hsum, hrn⟩ := add_zero_renorm ⟨F64.remainder (F64.fin sx mx ex) (F64.fin sy my ey), a.t⟩ hrrep ht bsr bt
  rw [hdef]
  simp only [] at hsum hrn
  refine ⟨r1, r2, ?_, ?_, ?_⟩
  · show RN _ (Accum.add _ 0).s.val; rw [hsum]; exact hrn
  · rw [hsum, hval, hsx, hyy]; ring
  · rw [hsum]
    have h1 := abs_add_le (F64.remainder (F64.fin sx mx ex) (F64.fin sy my ey)).val a.t.val
    have : |(F64.remainder (F64.fin sx mx ex) (F64.fin sy my ey)).val| ≤ |y.val| / 2 := by rw [hyy]; linarith
    linarith

/-- one step of the state machine: representability is preserved and the held value follows the exact semantics of the
operation up to `addErr` (the rounding of `_t += u`, only for `+=` / `-=`) -/
theorem accum_step_spec (a : Acc) (op : Op) (v e : ℚ) (hs : F64.IsRep a.s) (ht : F64.IsRep a.t) (hr : InRange a) (hop : OpOk op)
    (hv : |hval a - v| ≤ e) :
    F64.IsRep (step a op).s ∧ F64.IsRep (step a op).t ∧
    |hval (step a op) - (trackStep a (v, e) op).1| ≤ (trackStep a (v, e) op).2 := by
  have hadd : ∀ y : F64, F64.IsRep y → |y.val| ≤ (2:ℚ) ^ (1016:ℤ) →
      F64.IsRep (add a y).s ∧ F64.IsRep (add a y).t ∧ |hval (add a y) - (hval a + y.val)| ≤ addErr a y := by
    intro y hy hyb
    obtain ⟨_, r1, r2, hex, herr⟩ := accum_add_step a y hs ht hy hr.1 hr.2 hyb
    refine ⟨r1, r2, ?_⟩
    unfold addErr
    simp only []
    by_cases h0 : (MathF.sum (MathF.sum y a.t).1 a.s).1.val = 0
    · rw [if_pos h0]
      have := hex h0
      unfold hval; rw [this]; simp
    · rw [if_neg h0]; exact herr
  cases op with
  | set y =>
    refine ⟨hop.1, F64.isRep_zero, ?_⟩
    show |(y.val + (0 : F64).val) - y.val| ≤ 0
    rw [F64.val_zero]; simp
  | add y =>
    obtain ⟨r1, r2, h⟩ := hadd y hop.1 hop.2
    refine ⟨r1, r2, ?_⟩
    show |hval (add a y) - (v + y.val)| ≤ e + addErr a y
    have : hval (add a y) - (v + y.val) = (hval (add a y) - (hval a + y.val)) + (hval a - v) := by ring
    rw [this]
    exact le_trans (abs_add_le _ _) (by linarith)
  | sub y =>
    obtain ⟨hn, hnv⟩ := isRep_neg y hop.1
    obtain ⟨r1, r2, h⟩ := hadd (F64.neg y) hn (by rw [hnv, abs_neg]; exact hop.2)
    refine ⟨r1, r2, ?_⟩
    show |hval (add a (F64.neg y)) - (v - y.val)| ≤ e + addErr a (F64.neg y)
    rw [hnv] at h
    have : hval (add a (F64.neg y)) - (v - y.val) = (hval (add a (F64.neg y)) - (hval a + -y.val)) + (hval a - v) := by ring
    rw [this]
    exact le_trans (abs_add_le _ _) (by linarith)
  | neg =>
    obtain ⟨h1, h1v⟩ := isRep_neg a.s hs
    obtain ⟨h2, h2v⟩ := isRep_neg a.t ht
    refine ⟨h1, h2, ?_⟩
    show |((F64.neg a.s).val + (F64.neg a.t).val) - -v| ≤ e
    rw [h1v, h2v]
    have : -a.s.val + -a.t.val - -v = -(hval a - v) := by unfold hval; ring
    rw [this, abs_neg]; exact hv
  | rem y =>
    obtain ⟨r1, r2, _, hsum, _⟩ := remainder_renormalises a y hs ht hop.1 hop.2
      (le_trans hr.1 (Dy.two_zpow_le (by norm_num))) (le_trans hr.2 (Dy.two_zpow_le (by norm_num)))
    refine ⟨r1, r2, ?_⟩
    show |hval (Accum.remainder a y) - (v - (F64.remquoN a.s y : ℚ) * y.val)| ≤ e
    unfold hval at hv ⊢
    rw [hsum]
    have : a.s.val + a.t.val - (F64.remquoN a.s y : ℚ) * y.val - (v - (F64.remquoN a.s y : ℚ) * y.val) = a.s.val + a.t.val - v := by ring
    rw [this]; exact hv
  | nop => exact ⟨hs, ht, hv⟩
  | mulInt n => exact absurd hop (by simp [OpOk])
  | mulF y => exact absurd hop (by simp [OpOk])

/-- **The accumulator holds the sum** (property C16, last sentence) — an invariant over *all* histories of `=`, `+=`, `-=`,
negation, `remainder` and the `const` members, by induction over the operation list.  If no intermediate state overflows
(`NoOverflow`), then after the whole history both words are representable and the held value `_s + _t` differs from the
exact rational value of the same history (`track … .1`) by at most the sum of the single roundings `_t += u` of its `+=` / `-=`
steps (`track … .2`; each is second order, see `addErr_second_order`).  `=`, negation and `remainder` contribute nothing. -/
theorem accum_history (ops : List Op) : ∀ (a : Acc) (v e : ℚ), F64.IsRep a.s → F64.IsRep a.t → NoOverflow a ops → |hval a - v| ≤ e →
    F64.IsRep (run a ops).s ∧ F64.IsRep (run a ops).t ∧ |hval (run a ops) - (track a (v, e) ops).1| ≤ (track a (v, e) ops).2 := by
  induction ops with
  | nil => intro a v e hs ht _ hv; exact ⟨hs, ht, hv⟩
  | cons op ops ih =>
    intro a v e hs ht hno hv
    obtain ⟨hr, hop, hrest⟩ := hno
    obtain ⟨s1, t1, h1⟩ := accum_step_spec a op v e hs ht hr hop hv
    rw [run_cons]
    exact ih (step a op) (trackStep a (v, e) op).1 (trackStep a (v, e) op).2 s1 t1 hrest h1

/-- histories of `=`, negation, `remainder` and `const` members only: the held value is **exactly** the value of the history -/
theorem accum_history_exact (ops : List Op) (a : Acc) (hs : F64.IsRep a.s) (ht : F64.IsRep a.t) (hno : NoOverflow a ops)
    (h : ∀ op ∈ ops, noAdd op = true) : hval (run a ops) = (track a (hval a, 0) ops).1 := by
  obtain ⟨_, _, h1⟩ := accum_history ops a (hval a) 0 hs ht hno (by simp)
  have h2 := track_err_noAdd ops a (hval a) 0 (le_refl _) h
  have h3 : |hval (run a ops) - (track a (hval a, 0) ops).1| ≤ 0 := le_trans h1 h2
  have := abs_nonpos_iff.mp h3
  linarith

/-- **the error of one `Add` is second order**: `addErr ≤ 2^(−104)·(|_s| + |_t| + |y|) + 2^(−1075)` — "roughly twice working
precision" relative to the magnitudes that entered the step -/
theorem addErr_second_order (a : Acc) (y : F64) (hs : F64.IsRep a.s) (ht : F64.IsRep a.t) (hy : F64.IsRep y)
    (bs : |a.s.val| ≤ (2:ℚ) ^ (1016:ℤ)) (bt : |a.t.val| ≤ (2:ℚ) ^ (1016:ℤ)) (by' : |y.val| ≤ (2:ℚ) ^ (1016:ℤ)) :
    addErr a y ≤ (|a.s.val| + |a.t.val| + |y.val|) * (2:ℚ) ^ (-(104:ℤ)) + (2:ℚ) ^ (-(1075:ℤ)) := by
  obtain ⟨_, pf1, pf2, pr1, prep2, psum⟩ := F64.twoSum_exact y a.t hy ht (le_1018 by' (by norm_num)) (le_1018 bt (by norm_num))
  have pb1 : |(MathF.sum y a.t).1.val| ≤ (2:ℚ) ^ (1017:ℤ) :=
    RN.abs_le_zpow pr1 1017 (by norm_num) (F64.bound_add by' bt (by norm_num) (by norm_num))
  have hp1 : F64.IsRep (MathF.sum y a.t).1 := ⟨pf1, pr1.rep⟩
  obtain ⟨_, qf1, qf2, qr1, qrep2, qsum⟩ := F64.twoSum_exact (MathF.sum y a.t).1 a.s hp1 hs (le_1018 pb1 (by norm_num)) (le_1018 bs (by norm_num))
  set p1 := (MathF.sum y a.t).1.val with hp1d
  set p2 := (MathF.sum y a.t).2.val with hp2d
  set q1 := (MathF.sum (MathF.sum y a.t).1 a.s).1.val with hq1d
  set q2 := (MathF.sum (MathF.sum y a.t).1 a.s).2.val with hq2d
  have e2 : ((-1074:ℤ) - 1) = -1075 := by norm_num
  have herr1 := pr1.err
  have herr2 := qr1.err
  rw [e2] at herr1 herr2
  have hw : (0:ℚ) < (2:ℚ) ^ (-(1075:ℤ)) := Dy.two_zpow_pos _
  have hu : (2:ℚ) ^ (-((53:ℕ):ℤ)) = 1 / 9007199254740992 := by norm_num
  have hu' : (2:ℚ) ^ (-(53:ℤ)) = 1 / 9007199254740992 := by norm_num
  have h104 : (2:ℚ) ^ (-(104:ℤ)) = 1 / 20282409603651670423947251286016 := by norm_num
  rw [hu] at herr1 herr2
  have hP2 : |p2| ≤ (|y.val| + |a.t.val|) * (1 / 9007199254740992) + (2:ℚ) ^ (-(1075:ℤ)) := by
    have e : p2 = -(p1 - (y.val + a.t.val)) := by linarith
    rw [e, abs_neg]
    refine le_trans herr1 (max_le ?_ (by nlinarith [abs_nonneg y.val, abs_nonneg a.t.val]))
    have := abs_add_le y.val a.t.val
    nlinarith [abs_nonneg (y.val + a.t.val)]
  have hP1 : |p1| ≤ |y.val| + |a.t.val| + |p2| := by
    have e : p1 = (y.val + a.t.val) + -p2 := by linarith
    rw [e]
    have h1 := abs_add_le (y.val + a.t.val) (-p2)
    have h2 := abs_add_le y.val a.t.val
    rw [abs_neg] at h1; linarith
  have hQ2 : |q2| ≤ (|p1| + |a.s.val|) * (1 / 9007199254740992) + (2:ℚ) ^ (-(1075:ℤ)) := by
    have e : q2 = -(q1 - (p1 + a.s.val)) := by linarith
    rw [e, abs_neg]
    refine le_trans herr2 (max_le ?_ (by nlinarith [abs_nonneg p1, abs_nonneg a.s.val]))
    have := abs_add_le p1 a.s.val
    nlinarith [abs_nonneg (p1 + a.s.val)]
  unfold addErr
  simp only []
  rw [← hq1d]
  have hnn : (0:ℚ) ≤ (|a.s.val| + |a.t.val| + |y.val|) * (2:ℚ) ^ (-(104:ℤ)) := by
    rw [h104]; nlinarith [abs_nonneg a.s.val, abs_nonneg a.t.val, abs_nonneg y.val]
  by_cases h0 : q1 = 0
  · rw [if_pos h0]; linarith
  · rw [if_neg h0, hu', h104]
    refine max_le ?_ (by rw [h104] at hnn; linarith)
    have h3 := abs_add_le q2 p2
    rw [← hq2d, ← hp2d]
    generalize (2:ℚ) ^ (-(1075:ℤ)) = w at *
    nlinarith [abs_nonneg q2, abs_nonneg p2, abs_nonneg p1, abs_nonneg a.s.val, abs_nonneg a.t.val, abs_nonneg y.val]

/-- non-vacuity: the history `= 1; += 3·2^-54; -= 1; negate; remainder(360); operator()()` from the default-constructed accumulator
satisfies every hypothesis of `accum_history` (decided on the exact model), and it is the cancellation of observation O2 -/
example : NoOverflow (set 0) [.set (.fin false 1 0), .add (.fin false 3 (-54)), .sub (.fin false 1 0), .neg, .rem (.fin false 360 0), .nop] :=
  noOverflow_of_B _ _ (by decide +kernel)
example : F64.IsRep (set 0).s ∧ F64.IsRep (set 0).t := ⟨F64.isRep_zero, F64.isRep_zero⟩
/-- non-vacuity of `remainder_renormalises`: state (360·2^53, 100), modulus 360 (the witness of seeded change C16F): the model
reports 100 -/
example : F64.same (report (Accum.remainder ⟨.fin false 360 53, .fin false 100 0⟩ (.fin false 360 0))) (.fin false 100 0) = true := by
  decide +kernel
example : repB (.fin false 360 53) = true ∧ repB (.fin false 100 0) = true ∧ repB (.fin false 360 0) = true := by decide +kernel

/-- **`Accumulator::fastsum` is error free when `|u| ≥ |v|`** (Dekker's Fast2Sum for the binary64 model; the routine is private and
currently unused by the library, its documented precondition is exactly the hypothesis): `s = RN(u + v)` and `s + t = u + v`. -/
theorem fastsum_exact (u v : F64) (hu : F64.IsRep u) (hv : F64.IsRep v) (huv : |v.val| ≤ |u.val|)
    (hub : |u.val| ≤ (2:ℚ) ^ (1018:ℤ)) :
    (fastsum u v).1.isFinite = true ∧ (fastsum u v).2.isFinite = true ∧
    RN (u.val + v.val) (fastsum u v).1.val ∧ (fastsum u v).1.val + (fastsum u v).2.val = u.val + v.val := by
  have hvb : |v.val| ≤ (2:ℚ) ^ (1018:ℤ) := le_trans huv hub
  obtain ⟨f1, r1, b1⟩ := F64.add_rn u v hu.1 hv.1 1019 (by norm_num) (by norm_num)
    (F64.bound_add hub hvb (by norm_num) (by norm_num))
  obtain ⟨f2, r2, b2⟩ := F64.sub_rn (u + v) u f1 hu.1 1020 (by norm_num) (by norm_num)
    (F64.bound_sub b1 hub (by norm_num) (by norm_num))
  -- vp = s ⊖ u is exact (Fast2Sum step)
  have hvp : Rep ((u + v).val - u.val) := fts_rep hu.2 hv.2 huv r1
  have e2 : (u + v - u).val = (u + v).val - u.val := hvp.rn_eq r2
  obtain ⟨f3, r3, _⟩ := F64.sub_rn v (u + v - u) hv.1 f2 1021 (by norm_num) (by norm_num)
    (F64.bound_sub hvb b2 (by norm_num) (by norm_num))
  -- t = v ⊖ vp = (u + v) − s, the representable rounding error
  have herr : Rep (u.val + v.val - (u + v).val) := err_rep hu.2 hv.2 r1
  have e3 : (v - (u + v - u)).val = u.val + v.val - (u + v).val := by
    have : v.val - (u + v - u).val = u.val + v.val - (u + v).val := by rw [e2]; ring
    rw [this] at r3; exact herr.rn_eq r3
  refine ⟨f1, f3, r1, ?_⟩
  show (u + v).val + (v - (u + v - u)).val = _
  rw [e3]; ring

/-- non-vacuity: u = 2^53, v = 1 (the sum is inexact, the error word is 1) -/
example : (2:ℚ) ^ (53:ℤ) ≥ 1 ∧ F64.same (fastsum (.fin false 1 53) (.fin false 1 0)).1 (.fin false 1 53) = true ∧
    F64.same (fastsum (.fin false 1 53) (.fin false 1 0)).2 (.fin false 1 0) = true := by
  refine ⟨by norm_num, by decide +kernel, by decide +kernel⟩

end AccumulatorHistory

/-! ## `sincosd` / `sincosde` / `sind` / `cosd` / `tand` / `atand`: laws of the full models (`Model/MathG.lean`)

The models are the code line by line around abstract libm kernels `k : Kern`; the driver executes them (with the harness's
independent wide-precision kernel values) against `Math::sincosd`, `sincosde`, `sind`, `cosd`, `tand`, `atand` on every sample. -/
section Trig

/-- **the special values are correctly rounded**: `sqrt(1/2)`, `sqrt(3)/2` of the model are within half an ulp (`2^−54`) of
√½ and √3/2, and `1/2` is exact -/
theorem special_values_correctly_rounded :
    (sqrtHalf.val - (2:ℚ) ^ (-54:ℤ)) ^ 2 < 1 / 2 ∧ 1 / 2 < (sqrtHalf.val + (2:ℚ) ^ (-54:ℤ)) ^ 2 ∧
    (sqrt3Half.val - (2:ℚ) ^ (-54:ℤ)) ^ 2 < 3 / 4 ∧ 3 / 4 < (sqrt3Half.val + (2:ℚ) ^ (-54:ℤ)) ^ 2 ∧
    half.val = 1 / 2 ∧ 0 < sqrtHalf.val ∧ 0 < sqrt3Half.val := by
  rw [sqrtHalf_val, sqrt3Half_val, half_val]
  norm_num

/-- **the special-value branches are taken exactly at ±45° and ±30°** (every representable reduced angle), and there the
model returns `(copysign(√½, r), √½)` resp. `(copysign(1/2, r), √3/2)` — the sign of the sine is the sign of the reduced
angle (seeded change C16E drops it at −30°); everywhere else the kernel values are used -/
theorem sincosCore_special (k : Kern) (s : Bool) (m : ℕ) (e : ℤ) (h : F64.IsRep (F64.fin s m e))
    (hb : |(F64.fin s m e).val| ≤ (2:ℚ) ^ (1000:ℤ)) :
    (sincosBranch (F64.fin s m e) = Branch.s45 ↔ |(F64.fin s m e).val| = 45) ∧
    (sincosBranch (F64.fin s m e) = Branch.s30 ↔ |(F64.fin s m e).val| = 30) ∧
    (|(F64.fin s m e).val| = 45 → sincosCore k (F64.fin s m e) = (copysign sqrtHalf (F64.fin s m e * degreeD), sqrtHalf)) ∧
    (|(F64.fin s m e).val| = 30 → sincosCore k (F64.fin s m e) = (copysign half (F64.fin s m e * degreeD), sqrt3Half)) ∧
    (|(F64.fin s m e).val| ≠ 45 → |(F64.fin s m e).val| ≠ 30 →
      sincosCore k (F64.fin s m e) = (k.sin (F64.fin s m e * degreeD), k.cos (F64.fin s m e * degreeD))) := by
  have h2 := eq_two_abs_iff s m e h hb
  have h3 := eq_three_abs_iff s m e h hb
  by_cases c2 : F64.eq ((2 : F64) * F64.abs (F64.fin s m e)) qd = true
  · have v45 := h2.mp c2
    have n30 : |(F64.fin s m e).val| ≠ 30 := by rw [v45]; norm_num
    refine ⟨?_, ?_, ?_, ?_, ?_⟩
    · unfold sincosBranch; simp [c2, v45]
    · unfold sincosBranch; simp [c2, n30]
    · intro _; unfold sincosCore; simp [c2]
    · intro h30; exact absurd h30 n30
    · intro h45; exact absurd v45 h45
  · have c2' : F64.eq ((2 : F64) * F64.abs (F64.fin s m e)) qd = false := by simpa using c2
    have n45 : |(F64.fin s m e).val| ≠ 45 := fun hv => c2 (h2.mpr hv)
    by_cases c3 : F64.eq ((3 : F64) * F64.abs (F64.fin s m e)) qd = true
    · have v30 := h3.mp c3
      refine ⟨?_, ?_, ?_, ?_, ?_⟩
      · unfold sincosBranch; simp [c2', c3, n45]
      · unfold sincosBranch; simp [c2', c3, v30]
      · intro h45; exact absurd h45 n45
      · intro _; unfold sincosCore; simp [c2', c3]
      · intro _ h30; exact absurd v30 h30
    · have c3' : F64.eq ((3 : F64) * F64.abs (F64.fin s m e)) qd = false := by simpa using c3
      have n30 : |(F64.fin s m e).val| ≠ 30 := fun hv => c3 (h3.mpr hv)
      refine ⟨?_, ?_, ?_, ?_, ?_⟩
      · unfold sincosBranch; simp [c2', c3', n45]
      · unfold sincosBranch; simp [c2', c3', n30]
      · intro h45; exact absurd h45 n45
      · intro h30; exact absurd h30 n30
      · intro _ _; unfold sincosCore; simp [c2', c3']

/-- non-vacuity: −30 is representable and in range -/
example : F64.IsRep (F64.fin true 30 0) ∧ |(F64.fin true 30 0).val| ≤ (2:ℚ) ^ (1000:ℤ) ∧ |(F64.fin true 30 0).val| = 30 := by
  have hv : (F64.fin true 30 0).val = -30 := by rw [F64.val_fin]; norm_num
  refine ⟨GeoVerif.Accum.isRep_of_repB _ (by decide +kernel), ?_, ?_⟩
  · rw [hv]; norm_num
    calc (30:ℚ) ≤ (2:ℚ) ^ (5:ℤ) := by norm_num
      _ ≤ (2:ℚ) ^ (1000:ℤ) := Dy.two_zpow_le (by norm_num)
  · rw [hv]; norm_num

/-- **the reduction depends only on `x` modulo 360**: if `x' = x + 360·n` (as real numbers) then `remquo` returns the same reduced
angle and a quotient that differs by `4n`, so the quadrant switch (`quadSwitch_add4`) sees the same quadrant — ties at odd
multiples of 45° included (`remquo` rounds them to the even quotient, which a shift by `4n` preserves) -/
theorem sincosd_reduction_periodic (sx sx' : Bool) (mx mx' : ℕ) (ex ex' : ℤ) (n : ℤ)
    (h : (F64.fin sx' mx' ex').val = (F64.fin sx mx ex).val + 360 * n) :
    F64.remquoN (F64.fin sx' mx' ex') qd = F64.remquoN (F64.fin sx mx ex) qd + 4 * n ∧
    (F64.remainder (F64.fin sx' mx' ex') qd).val = (F64.remainder (F64.fin sx mx ex) qd).val ∧
    ∀ (α : Type) [Neg α] (s c : α), quadSwitch (F64.remquoN (F64.fin sx' mx' ex') qd) s c = quadSwitch (F64.remquoN (F64.fin sx mx ex) qd) s c := by
  have h90 : (F64.fin false 90 0).val = 90 := by rw [F64.val_fin]; simp
  obtain ⟨hq, hr⟩ := remquo_add_even sx sx' false mx mx' 90 ex ex' 0 (by norm_num) (2 * n) (by
    rw [h, h90]; push_cast; ring)
  have hq' : F64.remquoN (F64.fin sx' mx' ex') qd = F64.remquoN (F64.fin sx mx ex) qd + 4 * n := by
    rw [qd_eq, hq]; ring
  refine ⟨hq', by rw [qd_eq]; exact hr, fun α _ s c => ?_⟩
  rw [hq']; exact quadSwitch_add4 _ _ s c

/-- **the reduction is odd**: `remquo(−x, 90)` returns the negated reduced angle and the negated quotient, and the quadrant switch
turns `(−s, c)` with the negated quotient into `(−sin, cos)` — sine odd, cosine even, in every quadrant -/
theorem sincosd_reduction_odd (sx : Bool) (mx : ℕ) (ex : ℤ) :
    F64.remquoN (F64.neg (F64.fin sx mx ex)) qd = -F64.remquoN (F64.fin sx mx ex) qd ∧
    (F64.remainder (F64.neg (F64.fin sx mx ex)) qd).val = -(F64.remainder (F64.fin sx mx ex) qd).val ∧
    ∀ (s c : F64), quadSwitch (F64.remquoN (F64.neg (F64.fin sx mx ex)) qd) (-s) c
      = (-(quadSwitch (F64.remquoN (F64.fin sx mx ex) qd) s c).1, (quadSwitch (F64.remquoN (F64.fin sx mx ex) qd) s c).2) := by
  obtain ⟨hq, hr⟩ := remquo_neg sx false mx 90 ex 0 (by norm_num)
  have hq' : F64.remquoN (F64.neg (F64.fin sx mx ex)) qd = -F64.remquoN (F64.fin sx mx ex) qd := by rw [qd_eq]; exact hq
  refine ⟨hq', by rw [qd_eq]; exact hr, fun s c => ?_⟩
  rw [hq']
  exact quadSwitch_neg (fun a => by cases a <;> simp [Neg.neg, F64.neg]) _ s c

/--
**`sincosde(x, 0)` takes the same path as `sincosd(x)` (partial).**  Full statement: for every finite `x` whose reduced
angle `d₀ = remquo(x, 90)` has `|d₀| ≥ 1/16`, `sincosdeM k x 0 = sincosdM k x`.  Proved here: the reduced angle of `sincosde`
(`AngRound(d₀ + 0)`) is *structurally* `d₀ + 0`, a finite number with the same value and sign as `d₀`, it takes the same
special-value branch, the quotient is the same term, and the zero-sign source `x + 0` has the value and sign of `x`.  Not proved:
that the results are the same *terms* — `d₀ + 0` and `d₀` may be different unnormalised representations `m·2^e` of the same
number, so this needs kernels that respect value equality (true of libm) and a congruence lemma through `sincosCore`.
-/
theorem sincosde_zero_correction_partial (sx : Bool) (mx : ℕ) (ex : ℤ) (hx : F64.IsRep (F64.fin sx mx ex))
    (hxb : |(F64.fin sx mx ex).val| ≤ (2:ℚ) ^ (1000:ℤ))
    (hd : 1 / 16 ≤ |(F64.remainder (F64.fin sx mx ex) qd).val|) :
    sincosdeArg (F64.fin sx mx ex) 0 = F64.remainder (F64.fin sx mx ex) qd + 0 ∧
    (sincosdeArg (F64.fin sx mx ex) 0).val = (F64.remainder (F64.fin sx mx ex) qd).val ∧
    (sincosdeArg (F64.fin sx mx ex) 0).signbit = (F64.remainder (F64.fin sx mx ex) qd).signbit ∧
    sincosBranch (sincosdeArg (F64.fin sx mx ex) 0) = sincosBranch (F64.remainder (F64.fin sx mx ex) qd) ∧
    (F64.fin sx mx ex + 0).val = (F64.fin sx mx ex).val ∧ (F64.fin sx mx ex + 0).signbit = (F64.fin sx mx ex).signbit := by
  have h90 : F64.IsRep (F64.fin false 90 0) := GeoVerif.Accum.isRep_of_repB _ (by decide +kernel)
  obtain ⟨hrrep, hrle, hrhalf⟩ := F64.remainder_rep sx false mx 90 ex 0 (by norm_num) hx h90
  set d0 := F64.remainder (F64.fin sx mx ex) (F64.fin false 90 0) with hd0
  have hd' : 1 / 16 ≤ |d0.val| := hd
  have hd0b : |d0.val| ≤ (2:ℚ) ^ (1000:ℤ) := le_trans hrle hxb
  have hd0nz : d0.val ≠ 0 := by
    intro h0; rw [h0, abs_zero] at hd'; norm_num at hd'
  obtain ⟨zrep, zval, zsign⟩ := add_zero_same d0 hrrep hd0b
  obtain ⟨s1, m1, e1, h1⟩ := F64.exists_fin_of_isFinite (d0 + 0) zrep.1
  have hbig : 1 / 16 ≤ |(F64.fin s1 m1 e1).val| := by rw [← h1, zval]; exact hd'
  have harg : sincosdeArg (F64.fin sx mx ex) 0 = d0 + 0 := by
    show angRound (d0 + 0) = d0 + 0
    rw [h1]; exact angRound_big s1 m1 e1 hbig
  have hxnz : (F64.fin sx mx ex).val ≠ 0 := by
    intro h0
    have : |d0.val| ≤ 0 := by rw [h0, abs_zero] at hrle; exact hrle
    have := abs_nonneg d0.val
    have : |d0.val| = 0 := le_antisymm ‹|d0.val| ≤ 0› this
    rw [this] at hd'; norm_num at hd'
  obtain ⟨_, xval, xsign⟩ := add_zero_same (F64.fin sx mx ex) hx hxb
  refine ⟨harg, by rw [harg]; exact zval, by rw [harg]; exact zsign hd0nz, ?_, xval, xsign hxnz⟩
  -- same branch: the branch depends on |value| only
  rw [harg, h1]
  obtain ⟨s0, m0, e0, h0⟩ := F64.exists_fin_of_isFinite d0 hrrep.1
  show sincosBranch (F64.fin s1 m1 e1) = sincosBranch d0
  rw [h0]
  have hz1 : F64.IsRep (F64.fin s1 m1 e1) := h1 ▸ zrep
  have hz0 : F64.IsRep (F64.fin s0 m0 e0) := h0 ▸ hrrep
  have hv : (F64.fin s1 m1 e1).val = (F64.fin s0 m0 e0).val := by rw [← h1, ← h0]; exact zval
  have b1 : |(F64.fin s1 m1 e1).val| ≤ (2:ℚ) ^ (1000:ℤ) := by rw [hv, ← h0]; exact hd0b
  have b0 : |(F64.fin s0 m0 e0).val| ≤ (2:ℚ) ^ (1000:ℤ) := by rw [← h0]; exact hd0b
  have i2a := eq_two_abs_iff s1 m1 e1 hz1 b1
  have i2b := eq_two_abs_iff s0 m0 e0 hz0 b0
  have i3a := eq_three_abs_iff s1 m1 e1 hz1 b1
  have i3b := eq_three_abs_iff s0 m0 e0 hz0 b0
  rw [hv] at i2a i3a
  have e2 : F64.eq ((2 : F64) * F64.abs (F64.fin s1 m1 e1)) qd = F64.eq ((2 : F64) * F64.abs (F64.fin s0 m0 e0)) qd := by
    rw [Bool.eq_iff_iff]; exact i2a.trans i2b.symm
  have e3 : F64.eq ((3 : F64) * F64.abs (F64.fin s1 m1 e1)) qd = F64.eq ((3 : F64) * F64.abs (F64.fin s0 m0 e0)) qd := by
    rw [Bool.eq_iff_iff]; exact i3a.trans i3b.symm
  unfold sincosBranch
  rw [e2, e3]

/-- non-vacuity: x = 100 (reduced angle 10°) -/
example : F64.IsRep (F64.fin false 100 0) ∧ (1:ℚ) / 16 ≤ |(F64.remainder (F64.fin false 100 0) qd).val| := by
  refine ⟨GeoVerif.Accum.isRep_of_repB _ (by decide +kernel), ?_⟩
  have h : (F64.remainder (F64.fin false 100 0) qd).toDy.m = 10 ∧ (F64.remainder (F64.fin false 100 0) qd).toDy.e = 0 := by decide +kernel
  unfold F64.val Dy.val; rw [h.1, h.2]; norm_num

/-- **signed zeros** (the last two lines of `sincosd` / `sincosde`): a zero sine takes the sign of `z` (`x`, resp. `x + t`); a
representable cosine that is zero comes out as `+0` -/
theorem sincosFinish_signed_zeros (q : ℤ) (z s c : F64) :
    (F64.eq (quadSwitch q s c).1 0 = true → (sincosFinish q z (s, c)).1 = copysign (quadSwitch q s c).1 z) ∧
    (F64.eq (quadSwitch q s c).1 0 = false → (sincosFinish q z (s, c)).1 = (quadSwitch q s c).1) ∧
    (sincosFinish q z (s, c)).2 = (quadSwitch q s c).2 + 0 ∧
    (F64.IsRep (quadSwitch q s c).2 → (quadSwitch q s c).2.val = 0 → (sincosFinish q z (s, c)).2 = F64.fin false 0 0) := by
  unfold sincosFinish
  refine ⟨fun h => by simp [h], fun h => by simp [h], rfl, fun hr h0 => ?_⟩
  show (quadSwitch q s c).2 + 0 = _
  obtain ⟨s1, m1, e1, h1⟩ := F64.exists_fin_of_isFinite _ hr.1
  rw [h1] at h0 ⊢
  have hm : m1 = 0 := by
    rw [F64.val_fin] at h0
    have hp := Dy.two_zpow_pos e1
    rcases mul_eq_zero.mp h0 with h | h
    · cases s1 <;> simp at h <;> exact_mod_cast h
    · exact absurd h hp.ne'
  subst hm
  show F64.rnd (Dy.add (F64.fin s1 0 e1).toDy (0 : F64).toDy) (s1 && false) = _
  have hd : (Dy.add (F64.fin s1 0 e1).toDy (0 : F64).toDy).m = 0 := by
    have h00 : (0 : F64).toDy = ⟨0, 0⟩ := rfl
    have h01 : (F64.fin s1 0 e1).toDy = ⟨0, e1⟩ := by cases s1 <;> simp [F64.toDy]
    rw [h00, h01]
    unfold Dy.add
    by_cases hle : e1 ≤ 0 <;> simp [hle, Dy.shl]
  unfold F64.rnd
  have hr0 : Dy.round53 (Dy.add (F64.fin s1 0 e1).toDy (0 : F64).toDy) = ⟨0, 0⟩ := Dy.roundTo_zero 53 (-1074) _ hd
  simp [hr0, hd]

/-- **`atan2d` is exact on the axes** (model, every finite argument): with a kernel that returns the signed zero for
`atan2(±0, x' ≥ 0)` (C11 F.10.1.4), `atan2d(±0, x) = ±0` for `x ≥ +0`, `±180` for `x ≤ −0`; `atan2d(y, ±0) = ±90` for `y ≠ 0` -/
theorem atan2d_axes (k : Kern) (sy sx : Bool) (ey ex : ℤ) (mx my : ℕ) :
    (k.atan2 (F64.fin sy 0 ey) (F64.fin false mx ex) = F64.fin sy 0 0 →
      atan2dM k (F64.fin sy 0 ey) (F64.fin sx mx ex) = if sx then F64.fin sy 180 0 else F64.fin sy 0 0) ∧
    (my ≠ 0 → k.atan2 (F64.fin sx 0 ex) (F64.fin false my ey) = F64.fin sx 0 0 →
      atan2dM k (F64.fin sy my ey) (F64.fin sx 0 ex) = F64.fin sy 90 0) :=
  ⟨atan2dM_axis_y0 k sy sx ey mx ex, fun hmy hk => atan2dM_axis_x0 k sy sx ex my ey hmy hk⟩

/-- **`atand(±1) = ±45` exactly** when the kernel returns the correctly rounded `π/4` for `atan2(±1, 1)`: the division by the rounded
constant `degree` gives exactly 45 -/
theorem atand_one (k : Kern) (s : Bool) (hk : k.atan2 (F64.fin s 1 0) 1 = F64.copysign (piD / 4) (F64.fin s 1 0)) :
    (atandM k (F64.fin s 1 0)).val = if s then -45 else 45 := by
  rw [atandM_one k s hk]; exact val_45 s

/-- **`tand` at odd multiples of 45° is exactly ±1**: whenever the reduced angle takes the `2|d| = 90` branch, for every kernel,
every quadrant and every sign -/
theorem tand_special45 (k : Kern) (x : F64) (h : sincosBranch (F64.remainder x qd) = Branch.s45) :
    (tandM k x).val = 1 ∨ (tandM k x).val = -1 := by
  rcases tandM_s45 k x h with h1 | h1
  · left; rw [h1]; exact one52_val
  · right; rw [h1]
    show (F64.fin true 4503599627370496 (-52)).val = -1
    rw [F64.val_fin]; norm_num

/-- non-vacuity: 135° takes the 45° branch -/
example : sincosBranch (F64.remainder (F64.fin false 135 0) qd) = Branch.s45 := by decide +kernel

/-! ### `AngRound` below 1/16 -/

/-- **AngRound below 1/16** (every representable `|x| < 1/16`): the result is finite, keeps the sign bit of `x` (also for `±0`),
its magnitude `a` is a multiple of the documented gap `1/16 − nextafter(1/16, 0) = 2^−57`, lies in `[0, 1/16]`, and is within half a gap
(`2^−58`) of `|x|` — i.e. `AngRound` rounds `|x|` to the nearest multiple of `2^−57`.  Together with `angRound_big` this is the whole
function. -/
theorem angRound_small (s : Bool) (m : ℕ) (e : ℤ) (hx : F64.IsRep (F64.fin s m e)) (h : |(F64.fin s m e).val| < 1 / 16) :
    ∃ a : ℚ, 0 ≤ a ∧ a ≤ 1 / 16 ∧ OnGrid (-57) a ∧ |a - (|(F64.fin s m e).val|)| ≤ (2:ℚ) ^ (-58:ℤ) ∧
      (angRound (F64.fin s m e)).isFinite = true ∧ (angRound (F64.fin s m e)).signbit = s ∧
      (angRound (F64.fin s m e)).val = if s then -a else a := by
  set y := |(F64.fin s m e).val| with hy
  have hy0 : 0 ≤ y := abs_nonneg _
  have hyrep : Rep y := by
    have := (abs_fin_isRep s m e hx).2; rw [F64.val_abs_fin] at this; exact this
  have habsv : (F64.abs (F64.fin s m e)).val = y := F64.val_abs_fin s m e
  have habsf : (F64.abs (F64.fin s m e)).isFinite = true := rfl
  have hzf : (F64.fin false 1 (-4)).isFinite = true := rfl
  -- w = z ⊖ y
  obtain ⟨wf, wr, _⟩ := F64.sub_rn (F64.fin false 1 (-4)) (F64.abs (F64.fin s m e)) hzf habsf 0 (by norm_num) (by norm_num) (by
    rw [sixteenth_val, habsv]; rw [abs_le]; constructor <;> norm_num <;> linarith)
  rw [sixteenth_val, habsv] at wr
  set w := (F64.fin false 1 (-4)) - F64.abs (F64.fin s m e) with hw
  set v := (1:ℚ) / 16 - y with hv
  have hvpos : 0 < v := by linarith
  have hvle : v ≤ 1 / 16 := by linarith
  -- w is on the grid 2^-57, within 2^-58 of v, and 0 < w ≤ 1/16
  have hwle : w.val ≤ 1 / 16 := wr.le_of_le_rep rep_sixteenth hvle
  have key : OnGrid (-57) w.val ∧ |w.val - v| ≤ (2:ℚ) ^ (-58:ℤ) ∧ 0 < w.val := by
    by_cases hbig : (1:ℚ) / 32 ≤ y
    · -- y ≥ 1/32: y is on the grid, the subtraction is exact
      have hyg : OnGrid (-57) y := by
        have := hyrep.onGrid_of_ge (-4) (by rw [abs_of_nonneg hy0]; norm_num; linarith)
        simpa using this
      have hvg : OnGrid (-57) v := grid57_sixteenth.sub hyg
      have hvrep : Rep v := Rep.of_grid hvg (by norm_num) (by
        rw [abs_of_pos hvpos]; norm_num; linarith)
      have := hvrep.rn_eq wr
      rw [this]
      exact ⟨hvg, by simp, hvpos⟩
    · have hlt : y < 1 / 32 := not_le.mp hbig
      have hvne : v ≠ 0 := hvpos.ne'
      obtain ⟨hg, hc⟩ := wr.spec hvne
      by_cases hv16 : v = 1 / 16
      · have := rep_sixteenth.rn_eq (hv16 ▸ wr)
        rw [this, hv16]
        exact ⟨grid57_sixteenth, by simp, by norm_num⟩
      · have hvlt : v < 1 / 16 := lt_of_le_of_ne hvle hv16
        have hbin : bin v = -4 := by
          apply bin_unique
          · rw [abs_of_pos hvpos]; norm_num; linarith
          · rw [abs_of_pos hvpos]; norm_num; linarith
        have htq : tq v = -57 := by unfold tq; rw [hbin]; norm_num
        rw [htq] at hg hc
        have h58 : (2:ℚ) ^ (-57:ℤ) = 2 * (2:ℚ) ^ (-58:ℤ) := by
          rw [show (-57:ℤ) = 1 + -58 by norm_num, Dy.two_zpow_split]; norm_num
        refine ⟨hg, by rw [h58] at hc; linarith, ?_⟩
        -- w ≥ 1/32 > 0
        have : (1:ℚ) / 32 ≤ w.val := wr.ge_of_ge_rep ⟨1, -5, by norm_num, by norm_num, by norm_num⟩ (by linarith)
        linarith
  obtain ⟨hwg, hwerr, hwpos⟩ := key
  have hgt : F64.gt w 0 = true := (lt_zero_iff w wf).mpr hwpos
  -- y' = z ⊖ w, exact
  obtain ⟨yf, yr, _⟩ := F64.sub_rn (F64.fin false 1 (-4)) w hzf wf 0 (by norm_num) (by norm_num) (by
    rw [sixteenth_val]; rw [abs_le]; constructor <;> norm_num <;> linarith)
  rw [sixteenth_val] at yr
  have hag : OnGrid (-57) ((1:ℚ) / 16 - w.val) := grid57_sixteenth.sub hwg
  have harep : Rep ((1:ℚ) / 16 - w.val) := Rep.of_grid hag (by norm_num) (by
    rw [abs_of_nonneg (by linarith)]; norm_num; linarith)
  have hyv : ((F64.fin false 1 (-4)) - w).val = 1 / 16 - w.val := harep.rn_eq yr
  -- assemble
  have hres : angRound (F64.fin s m e) = copysign ((F64.fin false 1 (-4)) - w) (F64.fin s m e) := by
    unfold angRound
    simp only []
    rw [← hw, hgt]; simp
  obtain ⟨s', m', e', hfin'⟩ := F64.exists_fin_of_isFinite _ yf
  refine ⟨1 / 16 - w.val, by linarith, by linarith, hag, ?_, ?_, ?_, ?_⟩
  · have : (1:ℚ) / 16 - w.val - y = -(w.val - v) := by rw [hv]; ring
    rw [this, abs_neg]; exact hwerr
  · rw [hres, hfin']; rfl
  · rw [hres, hfin']; rfl
  · rw [hres, hfin']
    show (F64.fin s m' e').val = _
    have hnn : 0 ≤ (F64.fin s' m' e').val := by rw [← hfin', hyv]; linarith
    have habs' : (F64.fin false m' e').val = |(F64.fin s' m' e').val| := F64.val_abs_fin s' m' e'
    rw [abs_of_nonneg hnn, ← hfin', hyv] at habs'
    cases s
    · simp only [Bool.false_eq_true, if_false]; exact habs'
    · simp only [if_true]
      have : (F64.fin true m' e').val = -(F64.fin false m' e').val := by
        rw [F64.val_fin, F64.val_fin]; simp
      rw [this, habs']

/-- non-vacuity: 2^-10 and −0 are representable and below 1/16 -/
example : F64.IsRep (F64.fin false 1 (-10)) ∧ |(F64.fin false 1 (-10)).val| < 1 / 16 := by
  refine ⟨GeoVerif.Accum.isRep_of_repB _ (by decide +kernel), ?_⟩
  rw [F64.val_fin]; norm_num

/-- **AngRound is odd**, bit for bit, for every argument (NaN and infinities included) -/
theorem angRound_odd (z : F64) : angRound (F64.neg z) = F64.neg (angRound z) := by
  cases z with
  | nan => rfl
  | inf s => cases s <;> rfl
  | fin s m e =>
    unfold angRound
    simp only []
    have ha : F64.abs (F64.neg (F64.fin s m e)) = F64.abs (F64.fin s m e) := rfl
    rw [ha]
    generalize (if F64.gt ((F64.fin false 1 (-4)) - F64.abs (F64.fin s m e)) 0 = true
      then (F64.fin false 1 (-4)) - ((F64.fin false 1 (-4)) - F64.abs (F64.fin s m e)) else F64.abs (F64.fin s m e)) = y
    cases y <;> rfl

/-- **AngNormalize is odd** (value and sign bit), for every finite argument: `AngNormalize(−x) = −AngNormalize(x)`, including the
sign rules at `0` and `±180` -/
theorem angNormalize_odd (sx : Bool) (mx : ℕ) (ex : ℤ) :
    (angNormalize (F64.neg (F64.fin sx mx ex))).val = -(angNormalize (F64.fin sx mx ex)).val ∧
    (angNormalize (F64.neg (F64.fin sx mx ex))).signbit = !(angNormalize (F64.fin sx mx ex)).signbit := by
  obtain ⟨_, hrv⟩ := remquo_neg sx false mx 360 ex 0 (by norm_num)
  obtain ⟨f1, _, _, z1⟩ := F64.remainder_spec (!sx) false mx 360 ex 0 (by norm_num)
  obtain ⟨f2, _, _, z2⟩ := F64.remainder_spec sx false mx 360 ex 0 (by norm_num)
  set y' := F64.remainder (F64.fin (!sx) mx ex) (F64.fin false 360 0) with hy'
  set y := F64.remainder (F64.fin sx mx ex) (F64.fin false 360 0) with hy
  obtain ⟨s1, m1, e1, h1⟩ := F64.exists_fin_of_isFinite y' f1
  obtain ⟨s2, m2, e2, h2⟩ := F64.exists_fin_of_isFinite y f2
  have hn : angNormalize (F64.neg (F64.fin sx mx ex)) = if F64.eq (F64.abs y') hd = true then copysign hd (F64.fin (!sx) mx ex) else y' := rfl
  have hp : angNormalize (F64.fin sx mx ex) = if F64.eq (F64.abs y) hd = true then copysign hd (F64.fin sx mx ex) else y := rfl
  have habs : (F64.abs y').val = (F64.abs y).val := by
    rw [h1, h2, F64.val_abs_fin, F64.val_abs_fin, ← h1, ← h2, hrv, abs_neg]
  have hbr : F64.eq (F64.abs y') hd = F64.eq (F64.abs y) hd := by
    rw [Bool.eq_iff_iff, F64.eq_fin_iff _ _ (by rw [h1]; rfl) rfl, F64.eq_fin_iff _ _ (by rw [h2]; rfl) rfl, habs]
  rw [hn, hp, hbr]
  by_cases hb : F64.eq (F64.abs y) hd = true
  · simp only [hb, if_true]
    have c1 : copysign hd (F64.fin (!sx) mx ex) = F64.fin (!sx) 180 0 := rfl
    have c2 : copysign hd (F64.fin sx mx ex) = F64.fin sx 180 0 := rfl
    rw [c1, c2]
    refine ⟨?_, rfl⟩
    rw [F64.val_fin, F64.val_fin]; cases sx <;> simp
  · have hb' : F64.eq (F64.abs y) hd = false := by simpa using hb
    simp only [hb', Bool.false_eq_true, if_false]
    refine ⟨hrv, ?_⟩
    by_cases h0 : y.val = 0
    · have h0' : y'.val = 0 := by rw [hrv, h0]; simp
      rw [z1 h0', z2 h0]
    · have h0' : y'.val ≠ 0 := by rw [hrv]; simpa using h0
      rw [h1, h2]
      show s1 = !s2
      have a1 := signbit_fin_iff s1 m1 e1 (by rw [← h1]; exact h0')
      have a2 := signbit_fin_iff s2 m2 e2 (by rw [← h2]; exact h0)
      rw [← h1, hrv] at a1
      rw [← h2] at a2
      rcases lt_or_gt_of_ne h0 with hlt | hgt
      · have hs2 : s2 = true := a2.mpr hlt
        have hn1 : ¬ (s1 = true) := fun hs => by have := a1.mp hs; linarith
        have hs1 : s1 = false := by cases s1 with | false => rfl | true => exact absurd rfl hn1
        rw [hs1, hs2]; rfl
      · have hn2 : ¬ (s2 = true) := fun hs => by have := a2.mp hs; linarith
        have hs1 : s1 = true := a1.mpr (by linarith)
        have hs2 : s2 = false := by cases s2 with | false => rfl | true => exact absurd rfl hn2
        rw [hs1, hs2]; rfl

end Trig

/-! ## `atan2d`: the octant scheme is correct over ℝ -/

/-- the real-number reading of the operations used by the octant logic (angles in degrees) -/
noncomputable def realOps : AngOps ℝ :=
  { abs := fun x => |x|, gt := fun a b => decide (a > b), signbit := fun x => decide (x < 0), neg := fun x => -x,
    add := fun a b => a + b, sub := fun a b => a - b,
    copysign := fun a b => if b < 0 then -|a| else |a|, hd := 180, qd := 90 }

/-- the argument of the point `(x, y)` in degrees, in `(−180, 180]` -/
noncomputable def argd (y x : ℝ) : ℝ := Complex.arg ⟨x, y⟩ * 180 / π

theorem arg_polar (x y : ℝ) (h : (⟨x, y⟩ : ℂ) ≠ 0) :
    x = ‖(⟨x, y⟩ : ℂ)‖ * cos (Complex.arg ⟨x, y⟩) ∧ y = ‖(⟨x, y⟩ : ℂ)‖ * sin (Complex.arg ⟨x, y⟩) := by
  have hn : ‖(⟨x, y⟩ : ℂ)‖ ≠ 0 := by simpa using h
  constructor
  · rw [Complex.cos_arg h]; field_simp
  · rw [Complex.sin_arg]; field_simp

theorem arg_of_polar (r θ : ℝ) (hr : 0 < r) (h1 : -π < θ) (h2 : θ ≤ π) :
    Complex.arg ⟨r * cos θ, r * sin θ⟩ = θ := by
  have : (⟨r * cos θ, r * sin θ⟩ : ℂ) = (r : ℂ) * (Complex.cos θ + Complex.sin θ * Complex.I) := by
    apply Complex.ext <;> simp [Complex.cos_ofReal_re, Complex.sin_ofReal_re, Complex.cos_ofReal_im, Complex.sin_ofReal_im]
  rw [this]
  exact Complex.arg_mul_cos_add_sin_mul_I hr ⟨h1, h2⟩

/-- what the canonical problem looks like: `x' > 0`, `|y'| ≤ x'` -/
theorem arg_small (x' y' : ℝ) (hx : 0 < x') :
    |Complex.arg ⟨x', y'⟩| < π / 2 := by
  rw [Complex.abs_arg_lt_pi_div_two_iff]; left; exact hx

/-- **`atan2d` octant logic** (real-number reading of the executed definition): for every point other than the origin the
canonical problem has `x' > 0`, `|y'| ≤ x'`, and the offset/negation scheme applied to the angle of the canonical
problem returns the angle of `(x, y)` in degrees in `(−180, 180]`. -/
theorem atan2d_octant (x y : ℝ) (h : ¬ (x = 0 ∧ y = 0)) :
    0 < (atan2dCanonG realOps y x).2.1 ∧ |(atan2dCanonG realOps y x).1| ≤ (atan2dCanonG realOps y x).2.1 ∧
    atan2dWrapG realOps y x (argd (atan2dCanonG realOps y x).1 (atan2dCanonG realOps y x).2.1) = argd y x := by
  have hpi := Real.pi_pos
  -- generic polar step
  have key : ∀ (x' y' θ : ℝ), 0 < x' → -π < θ → θ ≤ π →
      x = ‖(⟨x', y'⟩ : ℂ)‖ * cos θ → y = ‖(⟨x', y'⟩ : ℂ)‖ * sin θ → Complex.arg ⟨x, y⟩ = θ := by
    intro x' y' θ hx' h1 h2 hx hy
    have hr : 0 < ‖(⟨x', y'⟩ : ℂ)‖ := by
      rw [norm_pos_iff]; intro hc; have := congrArg Complex.re hc; simp at this; linarith
    rw [hx, hy]; exact arg_of_polar _ θ hr h1 h2
  by_cases hgt : |y| > |x|
  · -- swapped
    by_cases hy : y < 0
    · -- q = 3 : x' = −y, y' = x
      have hc : atan2dCanonG realOps y x = (x, -y, 3) := by
        simp [atan2dCanonG, realOps, hgt, hy]
      have hx' : 0 < -y := by linarith
      have hne : (⟨-y, x⟩ : ℂ) ≠ 0 := by intro hc'; have := congrArg Complex.re hc'; simp at this; linarith
      obtain ⟨e1, e2⟩ := arg_polar (-y) x hne
      have hφ := abs_lt.mp (arg_small (-y) x hx')
      set φ := Complex.arg ⟨-y, x⟩ with hφdef
      have harg : Complex.arg ⟨x, y⟩ = φ - π / 2 := by
        apply key (-y) x (φ - π / 2) hx' (by linarith [hφ.1]) (by linarith [hφ.2])
        · rw [Real.cos_sub, Real.cos_pi_div_two, Real.sin_pi_div_two]; linarith
        · rw [Real.sin_sub, Real.cos_pi_div_two, Real.sin_pi_div_two]; linarith
      rw [hc]
      refine ⟨hx', ?_, ?_⟩
      · show |x| ≤ -y; rw [abs_of_neg hy] at hgt; linarith
      · have hw : ∀ a, atan2dWrapG realOps y x a = realOps.add (realOps.neg realOps.qd) a := by
          intro a; unfold atan2dWrapG; rw [hc]; rfl
        rw [hw]; simp only [realOps, argd]
        rw [harg, ← hφdef]; field_simp; ring
    · -- q = 2 : x' = y, y' = x
      have hy0 : 0 < y := by
        rcases lt_trichotomy y 0 with h1 | h1 | h1
        · exact absurd h1 hy
        · rw [h1] at hgt; simp at hgt; exact absurd hgt (not_lt.mpr (abs_nonneg x))
        · exact h1
      have hc : atan2dCanonG realOps y x = (x, y, 2) := by
        simp [atan2dCanonG, realOps, hgt, hy]
      have hne : (⟨y, x⟩ : ℂ) ≠ 0 := by intro hc'; have := congrArg Complex.re hc'; simp at this; linarith
      obtain ⟨e1, e2⟩ := arg_polar y x hne
      have hφ := abs_lt.mp (arg_small y x hy0)
      set φ := Complex.arg ⟨y, x⟩ with hφdef
      have harg : Complex.arg ⟨x, y⟩ = π / 2 - φ := by
        apply key y x (π / 2 - φ) hy0 (by linarith [hφ.2]) (by linarith [hφ.1])
        · rw [Real.cos_sub, Real.cos_pi_div_two, Real.sin_pi_div_two]; linarith
        · rw [Real.sin_sub, Real.cos_pi_div_two, Real.sin_pi_div_two]; linarith
      rw [hc]
      refine ⟨hy0, ?_, ?_⟩
      · show |x| ≤ y; rw [abs_of_pos hy0] at hgt; linarith
      · have hw : ∀ a, atan2dWrapG realOps y x a = realOps.sub realOps.qd a := by
          intro a; unfold atan2dWrapG; rw [hc]; rfl
        rw [hw]; simp only [realOps, argd]
        rw [harg, ← hφdef]; field_simp; ring
  · have hle : |y| ≤ |x| := not_lt.mp hgt
    by_cases hx : x < 0
    · -- q = 1 : x' = −x, y' = y
      have hc : atan2dCanonG realOps y x = (y, -x, 1) := by
        simp [atan2dCanonG, realOps, hgt, hx]
      have hx' : 0 < -x := by linarith
      have hne : (⟨-x, y⟩ : ℂ) ≠ 0 := by intro hc'; have := congrArg Complex.re hc'; simp at this; linarith
      obtain ⟨e1, e2⟩ := arg_polar (-x) y hne
      have hφ := abs_lt.mp (arg_small (-x) y hx')
      set φ := Complex.arg ⟨-x, y⟩ with hφdef
      rw [hc]
      refine ⟨hx', ?_, ?_⟩
      · show |y| ≤ -x; rw [abs_of_neg hx] at hle; exact hle
      · have hw : ∀ a, atan2dWrapG realOps y x a = realOps.sub (realOps.copysign realOps.hd y) a := by
          intro a; unfold atan2dWrapG; rw [hc]; rfl
        rw [hw]
        by_cases hyn : y < 0
        · have hφneg : φ < 0 := by rw [hφdef, Complex.arg_neg_iff]; exact hyn
          have harg : Complex.arg ⟨x, y⟩ = -π - φ := by
            apply key (-x) y (-π - φ) hx' (by linarith) (by linarith [hφ.1])
            · have : cos (-π - φ) = -cos φ := by rw [show -π - φ = -(φ + π) by ring, Real.cos_neg, Real.cos_add_pi]
              rw [this]; linarith
            · have : sin (-π - φ) = sin φ := by rw [show -π - φ = -(φ + π) by ring, Real.sin_neg, Real.sin_add_pi]; ring
              rw [this]; linarith
          simp only [realOps, argd, hyn, if_true]
          rw [harg, ← hφdef]; rw [abs_of_pos (by norm_num : (0:ℝ) < 180)]; field_simp
        · have hφnn : 0 ≤ φ := by rw [hφdef, Complex.arg_nonneg_iff]; exact not_lt.mp hyn
          have harg : Complex.arg ⟨x, y⟩ = π - φ := by
            apply key (-x) y (π - φ) hx' (by linarith [hφ.2]) (by linarith)
            · rw [Real.cos_pi_sub]; linarith
            · rw [Real.sin_pi_sub]; linarith
          simp only [realOps, argd, hyn, if_false]
          rw [harg, ← hφdef]; rw [abs_of_pos (by norm_num : (0:ℝ) < 180)]; field_simp
    · -- q = 0
      have hx0 : 0 < x := by
        rcases lt_trichotomy x 0 with h1 | h1 | h1
        · exact absurd h1 hx
        · exfalso; apply h; refine ⟨h1, ?_⟩; rw [h1] at hle; simpa using hle
        · exact h1
      have hc : atan2dCanonG realOps y x = (y, x, 0) := by
        simp [atan2dCanonG, realOps, hgt, hx]
      rw [hc]
      refine ⟨hx0, ?_, ?_⟩
      · show |y| ≤ x; rw [abs_of_pos hx0] at hle; exact hle
      · unfold atan2dWrapG; rw [hc]; rfl


/-- non-vacuity: the hypothesis is satisfiable (negative real axis, the `q = 1` case) -/
example : atan2dWrapG realOps 0 (-1) (argd (atan2dCanonG realOps 0 (-1)).1 (atan2dCanonG realOps 0 (-1)).2.1) = argd 0 (-1) :=
  (atan2d_octant (-1) 0 (by norm_num)).2.2

end GeoVerif.Props.C16
