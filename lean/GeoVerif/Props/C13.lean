import GeoVerif.Model.ErrContract
import GeoVerif.Model.UTMUPS
import GeoVerif.Model.MGRS
import GeoVerif.Model.GridCodes
import GeoVerif.Proofs.ErrContract
import GeoVerif.Model.ErrCover
import GeoVerif.Proofs.ErrCover
import GeoVerif.Gen.ApiC13
/-!
# C13 — error contract: NaN propagates, bad input throws cleanly, nothing crashes

Theorems about the *same definitions the driver executes* (`Model/ErrContract.lean` and the `Except`-returning models of
C04 / C05 / C18).  What cannot be a theorem — absence of undefined behaviour, crashes and hangs in the C++ — is covered
only by the sanitizer-instrumented correspondence run and is labelled partial in the manifest.
-/
namespace GeoVerif.Props.C13
open GeoVerif GeoVerif.ErrContract GeoVerif.Proofs.ErrContract GeoVerif.ErrCover GeoVerif.ApiInventory

/-! ## 1. the decision procedures of the sweep are sound for the contract -/

/-- The dependence table (394 entry points) is well formed: every row has one character per output, drawn from
`0 1 = x`, and the inputs listed as "NaN is rejected" exist. -/
theorem table_wellformed : table.all wellFormed = true := by decide +kernel

/-- the numeric code of every table key is the code of its name (so that look-ups by code are look-ups by name) -/
theorem table_keys_ok : (table.all fun e => e.key.ok) = true := by decide +kernel

/-- no entry point is listed twice (the driver's lookup is unambiguous): the codes are pairwise distinct … -/
theorem table_codes_distinct : (table.map (·.key.code)).Nodup := by decide +kernel
/-- … hence so are the names -/
theorem table_names_distinct : (table.map (·.name)).Nodup := by
  have hk : ∀ e ∈ table, e.key.code = strCode e.name := by
    intro e he
    have := List.all_eq_true.mp table_keys_ok e he
    simpa [Key.ok, Entry.name] using this
  have hmap : table.map (·.key.code) = (table.map (·.name)).map strCode := by
    rw [List.map_map]
    exact List.map_congr_left fun e he => hk e he
  have hn := table_codes_distinct
  rw [hmap] at hn
  exact List.Pairwise.of_map strCode (fun a b h hab => h (by rw [hab])) hn

theorem okOut_nan {isnan same : Bool} (h : okOut .nan isnan same = true) : isnan = true := by simpa [okOut] using h
theorem okOut_valid {isnan same : Bool} (h : okOut .valid isnan same = true) : isnan = false := by simpa [okOut] using h
theorem okOut_same {isnan same : Bool} (h : okOut .same isnan same = true) : isnan = false ∧ same = true := by simpa [okOut] using h

/--
`nan_contract_sound`: if the driver accepts the report of a call whose argument `i` was NaN, then
* no exception was raised — unless `i` is one of the arguments whose NaN is documented to be rejected, in which case
  the only alternative is the library's exception with no output written — and
* when it returned, every output marked dependent on `i` is NaN, every output marked `0` is a valid number, and every output
  marked `=` (does not depend on `i` at all) is a valid number **bit-identical to the output of the NaN-free baseline call**.
-/
theorem nan_contract_sound (e : Entry) (i : Nat) (r : Report) (h : e.checkNaN i r = true) :
    (r.exc = .none ∨ (i ∈ e.nanErr ∧ r.exc = .lib ∧ ∀ w ∈ r.written, w = false)) ∧
    (r.exc = .none → ∀ o, o < e.nout →
      (e.req i o = .nan → r.isnan.getD o false = true) ∧ (e.req i o = .valid → r.isnan.getD o false = false) ∧
      (e.req i o = .same → r.isnan.getD o false = false ∧ r.same.getD o false = true)) := by
  unfold Entry.checkNaN at h
  split at h
  · rename_i hc
    have hi : i ∈ e.nanErr := by simpa using hc
    simp only [Bool.or_eq_true, Bool.and_eq_true, beq_iff_eq, List.all_eq_true, List.mem_range] at h
    rcases h with ⟨hx, hw⟩ | ⟨hx, ho⟩
    · refine ⟨Or.inr ⟨hi, hx, fun w hw' => by simpa using hw w hw'⟩, fun hn => ?_⟩
      rw [hx] at hn; cases hn
    · refine ⟨Or.inl hx, fun _ o ho' => ⟨fun hq => ?_, fun hq => ?_, fun hq => ?_⟩⟩
      · have := ho o ho'; rw [hq] at this; exact okOut_nan this
      · have := ho o ho'; rw [hq] at this; exact okOut_valid this
      · have := ho o ho'; rw [hq] at this; exact okOut_same this
  · simp only [Bool.and_eq_true, beq_iff_eq, List.all_eq_true, List.mem_range] at h
    obtain ⟨⟨hx, _⟩, ho⟩ := h
    refine ⟨Or.inl hx, fun _ o ho' => ⟨fun hq => ?_, fun hq => ?_, fun hq => ?_⟩⟩
    · have := ho o ho'; rw [hq] at this; exact okOut_nan this
    · have := ho o ho'; rw [hq] at this; exact okOut_valid this
    · have := ho o ho'; rw [hq] at this; exact okOut_same this

/-- a report of a call that returned normally and wrote all its `n` outputs -/
def okReport (n : Nat) (isnan same : List Bool) : Report := { exc := .none, written := List.replicate n true, isnan := isnan, same := same }

/-- non-vacuity: `Geodesic::Direct` with NaN `lon1`: only `lon2` (output 1) is NaN, every other output equals the baseline's,
nothing thrown: accepted; the same report with `azi2` (output 2) differing from the baseline is rejected (the row is `=1======`);
the F11 shape (a dependent output coming back finite) is rejected; the seeded change C13F (`GeoCoords(zone, northp, NaN, y)` returning
another northing, output 3) is rejected -/
example : (findKey (k% "GeodS.Direct")).map (fun e => e.checkNaN 1 (okReport 8 [false, true, false, false, false, false, false, false]
    [true, false, true, true, true, true, true, true])) = some true := by
  decide +kernel
example : (findKey (k% "GeodS.Direct")).map (fun e => e.checkNaN 1 (okReport 8 [false, true, false, false, false, false, false, false]
    [true, false, false, true, true, true, true, true])) = some false := by
  decide +kernel
example : (findKey (k% "LCC.Reverse")).map (fun e => e.checkNaN 2 (okReport 4 [false, true, false, false]
    [false, false, false, false])) = some false := by decide +kernel
example : (findKey (k% "GeoCoords.CtorUTMN")).map (fun e => e.checkNaN 0 (okReport 17 [true, true, true, false, true, true, false, false, true, false, false, true, true, false, true, true, false]
    [false, false, false, false, false, false, false, true, false, false, true, false, false, true, false, false, false])) = some false := by
  decide +kernel
/-- … and the report of the unchanged library (northing, hemisphere, zone and their alternates echo the arguments) is accepted -/
example : (findKey (k% "GeoCoords.CtorUTMN")).map (fun e => e.checkNaN 0 (okReport 17 [true, true, true, false, true, true, false, false, true, false, false, true, true, false, true, true, false]
    [false, false, false, true, false, false, true, true, false, true, true, false, false, true, false, false, true])) = some true := by
  decide +kernel

/--
`throw_clean_sound`: a report accepted by `throwClean` is either a normal return, or the library's exception / an
allocation failure *with every output argument left exactly as it was*; never a foreign exception, never a hang.
-/
theorem throw_clean_sound (r : Report) (h : throwClean r = true) :
    r.exc = .none ∨ ((r.exc = .lib ∨ r.exc = .alloc) ∧ ∀ w ∈ r.written, w = false) := by
  unfold throwClean at h
  cases hx : r.exc <;> simp only [hx] at h <;> simp_all

/-- a function that is not documented to validate its arguments is accepted only if it did not throw at all -/
theorem ordinary_member_never_throws (e : Entry) (r : Report) (hv : e.validates = false) (h : e.checkOther r = true) :
    r.exc = .none := by
  unfold Entry.checkOther at h
  simp only [Bool.and_eq_true, Bool.or_eq_true, beq_iff_eq, hv] at h
  rcases h.2 with h | h
  · exact h
  · cases h

/-! ## 2. `throws_no_output`: an error of an `Except` model leaves the caller's (sentinel) outputs -/

/-- structural: whatever the entry point, an error result makes the harness-visible output record equal to the
sentinel record the caller pre-filled -/
theorem throws_no_output {ε α : Type} (sent : α) (r : Except ε α) (err : ε) (h : r = .error err) :
    visible sent r = sent := by subst h; rfl

/-- … and a normal return shows the model's outputs -/
theorem returns_output {ε α : Type} (sent : α) (r : Except ε α) (v : α) (h : r = .ok v) : visible sent r = v := by subst h; rfl

/-- instances for the modelled entry points (the models are total functions into `Except`, so this is all there is) -/
theorem utmups_forward_throws_no_output (lat lon : F64) (sz : Int) (mg : Bool) (kern : F64 × F64 × F64 × F64)
    (sent : UTMUPS.FwdOut) (err : String) (h : UTMUPS.forward lat lon sz mg kern = .error err) :
    visible sent (UTMUPS.forward lat lon sz mg kern) = sent := throws_no_output _ _ err h
theorem mgrs_forward_throws_no_output (zone : Int) (np : Bool) (x y lat : F64) (prec : Int) (sent : List Char) (err : String)
    (h : MGRS.forwardLat zone np x y lat prec = .error err) : visible sent (MGRS.forwardLat zone np x y lat prec) = sent :=
  throws_no_output _ _ err h
theorem mgrs_reverse_throws_no_output (s : List Nat) (cp : Bool) (sent : MGRS.Rev) (err : String)
    (h : MGRS.reverse s cp = .error err) : visible sent (MGRS.reverse s cp) = sent := throws_no_output _ _ err h
theorem decodezone_throws_no_output (s : List Nat) (sent : Int × Bool) (err : String)
    (h : UTMUPS.decodeZone s = .error err) : visible sent (UTMUPS.decodeZone s) = sent := throws_no_output _ _ err h

/-- non-vacuity: `UTMUPS::Forward(lat = 10, lon = 100, setzone = 31)` is an error of the model (the C13B witness) -/
example : (match UTMUPS.forward (F64.ofInt 10) (F64.ofInt 100) 31 false (0, 0, 0, 1) with | .error _ => true | .ok _ => false) = true := by
  decide +kernel

/-! ## 3. `nan_in_invalid_out`: NaN position ⇒ INVALID marker, INVALID ⇒ NaN back

(models of C04 / C05 / C18, imported; the constants come from `Gen/`, re-read from the sources on every run) -/

/-- `Geohash::Forward`: NaN latitude, or NaN / infinite longitude (AngNormalize turns ±inf into NaN first; fix d0a70a5) with a legal latitude ⇒ "invalid" -/
theorem nan_in_invalid_out_geohash (lat lon : F64) (len : Int)
    (h : lat.isNaN = true ∨ (lon.isFinite = false ∧ F64.gt (F64.abs lat) MathF.qd = false)) :
    Grid.Geohash.forward lat lon len = .ok "invalid".toList := by
  have hs : Grid.Geohash.scale lat lon = .ok none := by
    unfold Grid.Geohash.scale
    rcases h with h | ⟨h, hg⟩
    · have := isNaN_eq h; subst this
      simp [F64.abs, F64.gt, lt_nan_right, F64.isNaN]
    · simp [hg, h]
  simp [Grid.Geohash.forward, hs, bind, Except.bind, pure, Except.pure]

theorem nan_in_invalid_out_gars (lat lon : F64) (p : Int)
    (h : lat.isNaN = true ∨ (lon.isFinite = false ∧ F64.gt (F64.abs lat) MathF.qd = false)) :
    Grid.GARS.forward lat lon p = .ok "INVALID".toList := by
  unfold Grid.GARS.forward Grid.GARS.forwardWith Grid.GARS.scale Grid.GARS.scaleWith
  rcases h with h | ⟨h, hg⟩
  · have := isNaN_eq h; subst this
    simp [F64.abs, F64.gt, lt_nan_right, F64.isNaN, bind, Except.bind, pure, Except.pure]
  · simp [hg, h, bind, Except.bind, pure, Except.pure]

theorem nan_in_invalid_out_georef (lat lon : F64) (p : Int)
    (h : lat.isNaN = true ∨ (lon.isFinite = false ∧ F64.gt (F64.abs lat) MathF.qd = false)) :
    Grid.Georef.forward lat lon p = .ok "INVALID".toList := by
  unfold Grid.Georef.forward Grid.Georef.forwardWith Grid.Georef.scale Grid.Georef.scaleWith
  rcases h with h | ⟨h, hg⟩
  · have := isNaN_eq h; subst this
    simp [F64.abs, F64.gt, lt_nan_right, F64.isNaN, bind, Except.bind, pure, Except.pure]
  · simp [hg, h, bind, Except.bind, pure, Except.pure]

/-- `OSGB::GridReference(x, y, prec, s)`: a NaN coordinate (the other one in range, legal precision) ⇒ "INVALID" -/
theorem nan_in_invalid_out_osgb (x y : F64) (prec : Int) (hc : Grid.OSGB.checkCoords x y = .ok ())
    (hp : 0 ≤ prec ∧ prec ≤ Gen.Grid.osgb_maxprec) (h : x.isNaN = true ∨ y.isNaN = true) :
    Grid.OSGB.gridReference x y prec = .ok "INVALID".toList := by
  unfold Grid.OSGB.gridReference
  have : (x.isNaN || y.isNaN) = true := by rcases h with h | h <;> simp [h]
  simp [hc, hp, this, bind, Except.bind]
  rfl
/-- non-vacuity of the hypotheses -/
example : (match Grid.OSGB.gridReference .nan (F64.ofInt 300000) 4 with | .ok s => s == "INVALID".toList | .error _ => false) = true := by
  decide +kernel

/-- `MGRS::Forward(zone, northp, x, y, lat, prec, mgrs)`: INVALID zone or any NaN ⇒ "INVALID" (before any range check) -/
theorem nan_in_invalid_out_mgrs (zone : Int) (np : Bool) (x y lat : F64) (prec : Int)
    (h : zone = Gen.UTM.zINVALID ∨ x.isNaN = true ∨ y.isNaN = true ∨ lat.isNaN = true) :
    MGRS.forwardLat zone np x y lat prec = .ok "INVALID".toList := by
  unfold MGRS.forwardLat
  have : (decide (zone = Gen.UTM.zINVALID) || x.isNaN || y.isNaN || lat.isNaN) = true := by
    rcases h with h | h | h | h <;> simp [h]
  simp [this]
  rfl

/-- `UTMUPS::Forward` with a pseudo-zone request (STANDARD, MATCH, UTM, INVALID): NaN latitude, or NaN longitude with a legal
latitude ⇒ zone INVALID and NaN x, y, γ, k; no exception, whatever the projection kernel returns -/
theorem nan_in_invalid_out_utmups (lat lon : F64) (sz : Int) (mg : Bool) (kern : F64 × F64 × F64 × F64)
    (hz : Gen.UTM.zMINPSEUDOZONE ≤ sz ∧ sz < Gen.UTM.zMINZONE)
    (h : lat.isNaN = true ∨ (lon.isNaN = true ∧ F64.gt (F64.abs lat) MathF.qd = false)) :
    UTMUPS.forward lat lon sz mg kern = .ok ⟨Gen.UTM.zINVALID, !lat.signbit, .nan, .nan, .nan, .nan⟩ := by
  have hfin : (lat.isFinite && lon.isFinite) = false := by
    rcases h with h | ⟨h, _⟩
    · have := isNaN_eq h; subst this; rfl
    · have := isNaN_eq h; subst this; cases lat <;> rfl
  have hg : F64.gt (F64.abs lat) MathF.qd = false := by
    rcases h with h | ⟨_, h⟩
    · have := isNaN_eq h; subst this; simp [F64.abs, F64.gt, lt_nan_right]
    · exact h
  have hz1 : sz ≤ Gen.UTM.zMAXZONE := by have := hz.2; simp [Gen.UTM.zMINZONE, Gen.UTM.zMAXZONE] at *; omega
  unfold UTMUPS.forward UTMUPS.standardZone
  by_cases hi : sz = Gen.UTM.zINVALID
  · subst hi
    simp [hg, bind, Except.bind, pure, Except.pure, MonadExceptOf.throw,
      show ¬(Gen.UTM.zINVALID < Gen.UTM.zMINPSEUDOZONE ∨ Gen.UTM.zMAXZONE < Gen.UTM.zINVALID) by decide]
  · have : ¬ (sz ≥ Gen.UTM.zMINZONE) := by omega
    simp [hg, hz.1, hz1, hi, this, hfin, bind, Except.bind, pure, Except.pure, throw, throwThe, MonadExceptOf.throw]
/-- non-vacuity: STANDARD zone, NaN longitude at latitude 40 -/
example : (match UTMUPS.forward (F64.ofInt 40) .nan (-1) false (0, 0, 0, 1) with | .ok o => o.zone == Gen.UTM.zINVALID && o.x.isNaN | .error _ => false) = true := by
  decide +kernel

/-- INVALID ⇒ NaN back: any string starting with INV (any case) decodes to NaN in the GARS, Georef models -/
theorem invalid_in_nan_out_gars (s : List Nat) (cp : Bool) (h : Grid.startsInv s [73, 78, 86] = true) :
    Grid.GARS.reverse s cp = .ok .nan := by
  unfold Grid.GARS.reverse
  simp [h]
  rfl
theorem invalid_in_nan_out_georef (s : List Nat) (cp : Bool) (h : Grid.startsInv s [73, 78, 86] = true) :
    Grid.Georef.reverse s cp = .ok .nan := by
  unfold Grid.Georef.reverse
  simp [h]
  rfl
theorem invalid_in_nan_out_geohash (s : List Nat) (cp : Bool) (h : Grid.Geohash.isInvalid s = true) :
    Grid.Geohash.reverse s cp = .ok .nan := by
  unfold Grid.Geohash.reverse
  simp [h]
  rfl
theorem invalid_in_nan_out_osgb (s : List Nat) (cp : Bool)
    (h : (s.length ≥ 2 && Grid.upper (s.getD 0 0) = 73 && Grid.upper (s.getD 1 0) = 78) = true) :
    Grid.OSGB.reverse s cp = .ok .nan := by
  unfold Grid.OSGB.reverse
  simp only [h]
  rfl
theorem invalid_in_nan_out_mgrs (s : List Nat) (cp : Bool) (h : (s.length ≥ 3 && (s.take 3).map Grid.upper == [73, 78, 86]) = true) :
    (match MGRS.reverse s cp with | .ok r => r.zone == Gen.UTM.zINVALID && r.x.isNaN && r.y.isNaN | .error _ => false) = true := by
  unfold MGRS.reverse MGRS.decodeInt
  simp only [h]
  rfl
/-- the markers the encoders emit satisfy those hypotheses (closing the loop NaN → marker → NaN) -/
theorem markers_decode_to_nan :
    Grid.Geohash.isInvalid (Grid.toBytes "invalid".toList) = true ∧ Grid.startsInv (Grid.toBytes "INVALID".toList) [73, 78, 86] = true ∧
    ((Grid.toBytes "INVALID".toList).length ≥ 2 && Grid.upper ((Grid.toBytes "INVALID".toList).getD 0 0) = 73 &&
      Grid.upper ((Grid.toBytes "INVALID".toList).getD 1 0) = 78) = true := by decide +kernel

/-! ## 4. `ctor_domain`: the validation predicates accept exactly the documented domains -/

/-- `isfinite(x) && x > 0` -/
theorem pos_iff (x : F64) : pos x = true ↔ x.isFinite = true ∧ F64.lt 0 x = true := by simp [pos, F64.gt]

/-- Geodesic, GeodesicExact, AuxLatitude (hence Rhumb, Ellipsoid): finite positive `a` and finite positive `b = a(1 − f)` -/
theorem ctor_domain_ellipsoid (a f : F64) :
    abOK a f = true ↔ (a.isFinite = true ∧ F64.lt 0 a = true) ∧ ((a * (one - f)).isFinite = true ∧ F64.lt 0 (a * (one - f)) = true) := by
  simp [abOK, pos_iff]
/-- Geocentric and the projections: finite positive `a`, finite `f < 1` -/
theorem ctor_domain_af (a f : F64) :
    afOK a f = true ↔ (a.isFinite = true ∧ F64.lt 0 a = true) ∧ f.isFinite = true ∧ F64.lt f one = true := by
  simp [afOK, pos_iff]
/-- TransverseMercator (series) and PolarStereographic add a finite positive scale -/
theorem ctor_domain_afk (a f k : F64) :
    afkOK a f k = true ↔ afOK a f = true ∧ k.isFinite = true ∧ F64.lt 0 k = true := by
  simp [afkOK, pos_iff]
/-- a NaN in any parameter is rejected by every one of these (NaN-transparent comparisons written as `!(x > 0)`) -/
theorem ctor_rejects_nan : (∀ f, abOK .nan f = false) ∧ (∀ a, abOK a .nan = false) ∧ (∀ f, afOK .nan f = false) ∧
    (∀ a, afOK a .nan = false) ∧ (∀ a f, afkOK a f .nan = false) ∧ (∀ a f, tmExactOK a f .nan = false) := by
  refine ⟨fun f => rfl, fun a => ?_, fun f => rfl, fun a => ?_, fun a f => ?_, fun a f => ?_⟩
  · have h1 : (one - F64.nan : F64) = .nan := by show F64.sub one .nan = .nan; rfl
    have h2 : a * F64.nan = .nan := by show F64.mul a .nan = .nan; cases a <;> rfl
    simp [abOK, h1, h2, pos, F64.isFinite]
  · simp [afOK, F64.isFinite]
  · simp [afkOK, pos, F64.isFinite]
  · simp [tmExactOK, pos, F64.isFinite]
/-- the exact transverse Mercator additionally needs `f > 0`: its domain is contained in the series one -/
theorem ctor_domain_tmexact_sub (a f k : F64) (h : tmExactOK a f k = true) (hf : f.isFinite = true) : afkOK a f k = true := by
  simp only [tmExactOK, Bool.and_eq_true] at h
  simp [afkOK, afOK, h.1.1.1, h.1.2, h.2, hf]

/-- **non-finite ellipsoid parameters are rejected**: an infinite or NaN equatorial radius or flattening is refused by every one of the
ellipsoid / projection validators (Geodesic, GeodesicExact, Rhumb, Ellipsoid, AuxLatitude, DAuxLatitude: `abOK`; Geocentric: `afOK`;
TransverseMercator, PolarStereographic, the conics: `afkOK`; TransverseMercatorExact: `tmExactOK`), whatever the other parameters -/
theorem ctor_nonfinite_rejected (a f : F64) (h : a.isFinite = false ∨ f.isFinite = false) :
    abOK a f = false ∧ afOK a f = false ∧ (∀ k, afkOK a f k = false ∧ tmExactOK a f k = false) := by
  have hab : abOK a f = false := by
    rcases h with h | h
    · simp [abOK, pos, h]
    · have : (one - f).isFinite = false := by
        cases f with
        | nan => rfl
        | inf s => rw [sub_one_inf]; rfl
        | fin s m e => simp [F64.isFinite] at h
      simp [abOK, pos, mul_nonfinite a _ this]
  have haf : afOK a f = false := by
    rcases h with h | h
    · simp [afOK, pos, h]
    · simp [afOK, h]
  refine ⟨hab, haf, fun k => ⟨by simp [afkOK, haf], ?_⟩⟩
  rcases h with h | h
  · simp [tmExactOK, pos, h]
  · cases f with
    | nan => simp [tmExactOK, F64.gt, F64.lt]
    | inf s =>
      have h1 : F64.lt (.inf false) one = false := by decide +kernel
      have h2 : F64.gt (.inf true) 0 = false := by decide +kernel
      cases s <;> simp [tmExactOK, h1, h2]
    | fin s m e => simp [F64.isFinite] at h
/-- non-vacuity: the WGS84 parameters are accepted by all four, `f = 1` and `f = 2` are rejected by all four, `f = 0` and a prolate
`f = -1/150` are rejected by the exact transverse Mercator only -/
example : let a := F64.ofInt 6378137; let f := F64.ofDecimal 335 5; let k := F64.ofDecimal 9996 4
    (abOK a f && afOK a f && afkOK a f k && tmExactOK a f k) = true ∧
    (abOK a 1 || afOK a 1 || afkOK a 1 k || tmExactOK a 1 k) = false ∧ (abOK a 2 || afOK a 2 || afkOK a 2 k || tmExactOK a 2 k) = false ∧
    (abOK a 0 && afOK a 0 && afkOK a 0 k) = true ∧ tmExactOK a 0 k = false ∧ tmExactOK a (F64.neg (F64.div 1 (F64.ofInt 150))) k = false := by
  decide +kernel

/-- the one-parallel and two-parallel constructors of LambertConformalConic / AlbersEqualArea agree when the two
parallels coincide (the pole tests are then vacuous) … -/
theorem ctor_domain_lcc_1_2 (a f l k : F64) (hl : l.isNaN = false) : lcc1OK a f l k = lcc2OK a f l l k := by
  unfold lcc1OK lcc2OK
  simp [f64_eq_self l hl]
theorem ctor_domain_albers_1_2 (a f l k : F64) (hl : l.isNaN = false) : albers1OK a f l k = albers2OK a f l l k := by
  unfold albers1OK albers2OK
  simp [f64_eq_self l hl]
/-- … and a NaN parallel is rejected by both forms -/
theorem ctor_domain_conic_nan (a f k : F64) : lcc1OK a f .nan k = false ∧ lcc2OK a f .nan .nan k = false ∧
    albers1OK a f .nan k = false ∧ albers2OK a f .nan .nan k = false := by
  simp [lcc1OK, lcc2OK, albers1OK, albers2OK, latOK, F64.abs, F64.le]
/-- the sine/cosine form with coinciding parallels reduces to the test of one (sin, cos) pair -/
theorem ctor_domain_lcc_4_same (a f s c k : F64) (hs : s.isNaN = false) (hc : c.isNaN = false) :
    lcc4OK a f s c s c k = (afkOK a f k && sincosOK s c) := by
  unfold lcc4OK sincosOK
  simp [f64_eq_self s hs, f64_eq_self c hc]
  cases afkOK a f k <;> cases c.signbit <;> simp
/-- the three forms on concrete parameters: poles (F10) — (90, 30) and opposite poles are rejected by the degree and the
sine/cosine forms alike, a double pole is accepted, ordinary parallels are accepted -/
theorem ctor_domain_conic_poles :
    let a := F64.ofInt 6378137; let f := F64.ofDecimal 335 5; let q := F64.ofInt 90; let t := F64.ofInt 30; let z : F64 := 0
    let h : F64 := .fin false 1 (-1)
    lcc2OK a f q t 1 = false ∧ lcc4OK a f 1 z h h 1 = false ∧ lcc2OK a f q q 1 = true ∧ lcc4OK a f 1 z 1 z 1 = true ∧
    albers2OK a f q (F64.neg q) 1 = false ∧ albers4OK a f 1 z (F64.neg 1) z 1 = false ∧ albers2OK a f q t 1 = true ∧
    albers4OK a f 1 z h h 1 = true ∧ lcc2OK a f t (F64.ofInt 50) 1 = true := by decide +kernel

/-! ## 5. `nan_propagates`: binary64 primitives; C `fmin`/`fmax` do *not* propagate (finding F11) -/

theorem nan_propagates :
    (∀ y, F64.add .nan y = .nan) ∧ (∀ x, F64.add x .nan = .nan) ∧ (∀ x, F64.sub x .nan = .nan) ∧ (∀ y, F64.sub .nan y = .nan) ∧
    (∀ y, F64.mul .nan y = .nan) ∧ (∀ x, F64.mul x .nan = .nan) ∧ (∀ y, F64.div .nan y = .nan) ∧ (∀ x, F64.div x .nan = .nan) ∧
    F64.sqrt .nan = .nan ∧ F64.neg .nan = .nan ∧ F64.abs .nan = .nan ∧ (∀ x, F64.remainder x .nan = .nan) ∧
    (∀ y, F64.remainder .nan y = .nan) ∧ MathF.latFix .nan = .nan ∧ MathF.angNormalize .nan = .nan := by
  refine ⟨fun _ => rfl, fun x => by cases x <;> rfl, fun x => by cases x <;> rfl, fun _ => rfl, fun _ => rfl,
    fun x => by cases x <;> rfl, fun _ => rfl, fun x => by cases x <;> rfl, rfl, rfl, rfl, fun x => by cases x <;> rfl, fun _ => rfl, rfl, ?_⟩
  unfold MathF.angNormalize; rfl

/-- every comparison with a NaN is false — which is why the library writes its range tests as `!(x >= y)` -/
theorem nan_comparisons_false (x : F64) : F64.lt x .nan = false ∧ F64.lt .nan x = false ∧ F64.le x .nan = false ∧
    F64.le .nan x = false ∧ F64.eq x .nan = false ∧ F64.eq .nan x = false := by
  refine ⟨by cases x <;> rfl, rfl, by cases x <;> rfl, rfl, by cases x <;> rfl, rfl⟩

/-- C `fmin` / `fmax` return the *other* operand when one is NaN: a clamp written with them swallows a NaN (this is what
F11 was, and what F30 is) … -/
theorem fmin_fmax_discard_nan (y : F64) (hy : y.isNaN = false) :
    F64.fmin .nan y = y ∧ F64.fmin y .nan = y ∧ F64.fmax .nan y = y ∧ F64.fmax y .nan = y := by
  refine ⟨rfl, ?_, rfl, ?_⟩ <;> cases y <;> simp_all [F64.fmin, F64.fmax, F64.isNaN]
/-- … whereas the NaN-preserving minimum / maximum keep it -/
theorem minNaN_maxNaN_keep_nan (x : F64) : minNaN .nan x = .nan ∧ minNaN x .nan = .nan ∧ maxNaN .nan x = .nan ∧ maxNaN x .nan = .nan := by
  refine ⟨rfl, by cases x <;> rfl, rfl, by cases x <;> rfl⟩
/-- and on non-NaN operands both agree (so the repair changes nothing else) -/
theorem minNaN_eq_fmin (x y : F64) (hx : x.isNaN = false) (hy : y.isNaN = false) : minNaN x y = F64.fmin x y ∧ maxNaN x y = F64.fmax x y := by
  simp [minNaN, maxNaN, F64.fmin, F64.fmax, hx, hy]

/-! ## 6. `nn_check_bounds`: what `NearestNeighbor::Node::Check` guarantees (tied to the code by `c13_nncheck` / `c13_nnload`) -/

/--
A node accepted by the model of `Node::Check(numpoints, treesize, bucket)` has its own index in `[-1, numpoints)`, both
children in `[-1, treesize)` when it is an inner node, and — when it is a leaf node — every one of its `bucket` leaf slots in
`[-1, numpoints)`: **`leaves[l] < numpoints`**, so `Search` never subscripts `pts` out of range.
-/
theorem nn_check_bounds (n : Node) (np ts : Int) (b : Nat) (h : n.check np ts b = true) :
    (-1 ≤ n.index ∧ n.index < np) ∧
    (n.index ≥ 0 → (-1 ≤ n.child0 ∧ n.child0 < ts) ∧ (-1 ≤ n.child1 ∧ n.child1 < ts)) ∧
    (n.index < 0 → ∀ x ∈ n.leaves.take b, -1 ≤ x ∧ x < np) := by
  unfold Node.check at h
  simp only [Bool.and_eq_true, decide_eq_true_eq] at h
  obtain ⟨hi, hrest⟩ := h
  refine ⟨hi, fun hge => ?_, fun hlt => ?_⟩
  · simp only [hge, if_true, Bool.and_eq_true, decide_eq_true_eq] at hrest
    omega
  · have : ¬ n.index ≥ 0 := by omega
    simp only [this, if_false, Bool.and_eq_true] at hrest
    intro x hx
    rcases leavesOK_bounds np true 0 _ hrest.1 x hx with h | h
    · exact h
    · omega

/-- non-vacuity, and the seeded change C13A in one line: with 3 points a leaf slot holding 3 is rejected, 2 is accepted -/
example : (Node.check ⟨-1, -1, -1, 0, 0, 0, 0, [0, 1, 3, -1, 0, 0, 0, 0, 0, 0]⟩ 3 1 4 = false) ∧
    (Node.check ⟨-1, -1, -1, 0, 0, 0, 0, [0, 1, 2, -1, 0, 0, 0, 0, 0, 0]⟩ 3 1 4 = true) := by decide +kernel

/--
A file accepted by the model of `Load` stores the children of every inner node strictly *before* the node itself
(node `j` is checked with `treesize := j`): the child relation is well founded, so `Search` terminates (finding F12).
-/
theorem nn_load_children_before_parent (bin : Bool) (np : Int) (b : Nat) : ∀ (i : Nat) (nodes : List Node), nodesOK bin np b i nodes = true →
    ∀ (j : Nat) (n : Node), nodes[j]? = some n → n.index ≥ 0 → n.child0 < (i + j : Nat) ∧ n.child1 < (i + j : Nat)
  | _, [], _ => by simp
  | i, m :: rest, h => by
    intro j n hj hge
    simp only [nodesOK, Bool.and_eq_true] at h
    cases j with
    | zero =>
      simp at hj; subst hj
      have := check_children (m.loaded b) np i b h.1.2 (by simpa [Node.loaded] using hge)
      simpa [Node.loaded] using this
    | succ j =>
      have := nn_load_children_before_parent bin np b (i + 1) rest h.2 j n (by simpa using hj) hge
      have e : i + 1 + j = i + (j + 1) := by omega
      rw [e] at this; exact this

/-- every node of an accepted file passes `Node::Check` (with the leaf slots beyond `bucket` zeroed as `Load` does) -/
theorem nn_load_checks (bin : Bool) (np : Int) (b : Nat) : ∀ (i : Nat) (nodes : List Node), nodesOK bin np b i nodes = true →
    ∀ (j : Nat) (n : Node), nodes[j]? = some n → (n.loaded b).check np ((i + j : Nat) : Int) b = true
  | _, [], _ => by simp
  | i, m :: rest, h => by
    intro j n hj
    simp only [nodesOK, Bool.and_eq_true] at h
    cases j with
    | zero => simp at hj; subst hj; simpa using h.1.2
    | succ j =>
      have := nn_load_checks bin np b (i + 1) rest h.2 j n (by simpa using hj)
      have e : i + 1 + j = i + (j + 1) := by omega
      rw [e] at this; exact this

/-! ## 7. the contract covers the public API (obligations re-checked against the headers on every run)

`Gen/ApiC13.lean` is the inventory of every public constructor, member function and static function of every class of
`include/GeographicLib/*.hpp`, extracted from the clang AST by `tools/translate.d/C13.py`; `ErrCover.coverage` is the hand-written
list saying how the contract reaches each of them.  Adding a public function, an overload or a parameter to the library without
extending the contract breaks `api_covered`; removing one leaves a stale cover, which breaks it as well. -/

/-- the generated inventory is well formed: every key ends in `/<parameter codes>><return code>` of its own signature (checked on the
numeric codes), so the signature the obligations compute with is the one the key shows -/
theorem api_wellformed : (Gen.ApiC13.api.all Fn.wf) = true := by decide +kernel

/--
**`api_covered`** (Gen): the one-pass check of the inventory against the coverage list succeeds.  By `api_covered_meaning` below:
every public function with at least one floating-point / string / vector / stream input is the subject of a row of the dependence
table, of a constructor-domain predicate, of a parser stream, of a file-reader stream or of a vector-size domain — or forwards the same
inputs to an overload that is — or is excluded with a reason; no cover is stale; and the arities of the table rows fit the extracted
signatures.
-/
theorem api_covered : checkCoverage Gen.ApiC13.api coverage = true := by decide +kernel

/-- what the check means, for arbitrary lists (proved by induction over the pairing, `Proofs/ErrCover.lean`) -/
theorem checkCoverage_sound (api : List Fn) (cov : List Cover) (h : checkCoverage api cov = true) :
    (∀ f ∈ api, f.hasIn = true → ∃ c ∈ cov, (c.api == f.key) = true) ∧
    (∀ c ∈ cov, ∃ f ∈ api, (c.api == f.key) = true) ∧
    (∀ c ∈ cov, ∀ e off, c.how = .table e off → ∃ f ∈ api, (c.api == f.key) = true ∧
      ∃ ent, findKey e = some ent ∧ off + f.nReal ≤ ent.nin ∧ f.nOut ≤ ent.nout) :=
  Proofs.ErrCover.checkCoverage_sound api cov h

/-- … instantiated at the current inventory -/
theorem api_covered_meaning :
    (∀ f ∈ Gen.ApiC13.api, f.hasIn = true → ∃ c ∈ coverage, (c.api == f.key) = true) ∧
    (∀ c ∈ coverage, ∃ f ∈ Gen.ApiC13.api, (c.api == f.key) = true) :=
  ⟨(checkCoverage_sound _ _ api_covered).1, (checkCoverage_sound _ _ api_covered).2.1⟩

/-- **`cover_arities`** (Gen cross-check between the hand-written table and the extracted signatures): every `.table e off` cover names an
existing row whose `nin` inputs include all `nReal` real arguments of the function starting at `off`, and whose `nout` outputs are at
least the function's reference outputs plus return value -/
theorem cover_arities : ∀ c ∈ coverage, ∀ e off, c.how = .table e off → ∃ f ∈ Gen.ApiC13.api, (c.api == f.key) = true ∧
    ∃ ent, findKey e = some ent ∧ off + f.nReal ≤ ent.nin ∧ f.nOut ≤ ent.nout :=
  (checkCoverage_sound _ _ api_covered).2.2

/-- every exclusion, forwarding and indirect cover carries its reason -/
theorem coverage_reasons_given : reasonsGiven = true := by decide +kernel

/--
**`ctor_all_have_domain`** (Gen): every public constructor of the inventory either has no parameter, or has a domain predicate that is
executed against the implementation (`ctorOK` / `ctorBounds` class, vector-size form, accept / reject of a file reader or parser), or
takes only an already validated library object / a message string.
-/
theorem ctor_all_have_domain : checkCtors Gen.ApiC13.api coverage = true := by decide +kernel

/-- the class names of `ctorTable` are exactly those a dispatcher answers for, with that many parameters -/
theorem ctor_table_dispatches : (ctorTable.all fun c => ctorKnown c.1.s c.2) = true := by decide +kernel

/-- the constructors listed as accepting everything do so in the model, whatever the arguments ("the geodesic line being the documented
exception") -/
theorem total_ctors_total (c : Key × Nat) (hc : c ∈ totalCtors) (p : List F64) (hp : p.length = c.2) : ctorOK c.1.s p = some true := by
  unfold ctorOK
  have : (totalCtors.any fun d => d.1.s == c.1.s && d.2 == p.length) = true :=
    List.any_eq_true.mpr ⟨c, hc, by simp [hp]⟩
  simp [this]

/-- `GeoCoords`: a NaN coordinate is not a reason to reject (it gives the INVALID zone / NaN position), an out-of-range latitude is -/
theorem ctor_domain_geocoords :
    (∀ lon, geoCoordsLatLonOK .nan lon = true) ∧ (∀ z np y, geoCoordsUTMOK z np .nan y = true) ∧ (∀ z np x, geoCoordsUTMOK z np x .nan = true) ∧
    geoCoordsLatLonOK (F64.ofInt 91) 0 = false ∧ geoCoordsLatLonOK (F64.ofInt (-90)) 0 = true ∧
    geoCoordsUTMOK 32 true (F64.ofInt 500000) (F64.ofInt 4400000) = true ∧ geoCoordsUTMOK 61 true (F64.ofInt 500000) (F64.ofInt 4400000) = false := by
  refine ⟨fun _ => rfl, fun z np y => ?_, fun z np x => ?_, by decide +kernel, by decide +kernel, by decide +kernel, by decide +kernel⟩
  · simp [geoCoordsUTMOK, UTMUPS.reverseAccepts, F64.isNaN]
  · cases x <;> simp [geoCoordsUTMOK, UTMUPS.reverseAccepts, F64.isNaN]

/-- the two-sided bounds of the solver-defined domains never contradict each other on the parameters the harness uses, and they are not
vacuous: WGS84-like parameters must be accepted, a NaN anywhere must be rejected -/
theorem ctor_bounds_sane :
    let a := F64.ofInt 6378137; let gm := F64.ofInt 398600441800000; let om := F64.ofDecimal 7292115 11; let j2 := F64.ofDecimal 108263 8
    let f := F64.ofDecimal 335 5
    ctorBounds "NormalGravityJ2" [a, gm, om, j2] = some (false, true) ∧ ctorBounds "NormalGravityJ2" [a, gm, om, .nan] = some (true, false) ∧
    ctorBounds "NormalGravityJ2" [.nan, gm, om, j2] = some (true, false) ∧ ctorBounds "NormalGravityJ2" [a, gm, om, 1] = some (true, false) ∧
    ctorBounds "Intersect" [a, f] = some (false, true) ∧ ctorBounds "Intersect" [a, .nan] = some (true, false) ∧
    ctorBounds "Intersect" [a, F64.ofDecimal 9 1] = some (false, false) ∧
    ctorBounds "Intersect.All" [.inf false] = some (true, false) ∧ ctorBounds "Intersect.All" [.nan] = some (false, true) ∧
    ctorBounds "Intersect.All" [F64.ofInt 30000000] = some (false, true) ∧ ctorBounds "Intersect.All" [F64.ofInt 900000000000] = some (false, false) ∧
    ctorBounds "Intersect.All" [.inf true] = some (false, true) := by decide +kernel

/-! ## 8. vector-size domain of the spherical-harmonic constructors (seeded change C13E) -/

/-- for a legal triple `46339 ≥ N ≥ nmx ≥ mmx ≥ 0` the general constructor accepts exactly the vectors that reach the documented needs:
`C` must hold index(nmx, mmx) + 1 elements, `S` index(nmx, mmx) − N of them (the m = 0 column of `S` is not stored) -/
theorem sh_sizes_exact (s : ShSet) (h : s.N ≥ s.nmx ∧ s.nmx ≥ s.mmx ∧ s.mmx ≥ 0) (hN : s.N ≤ shMaxDegree) (hs : s.ssize ≥ 0) :
    s.generalOK = true ↔ s.csize ≥ s.needC ∧ s.ssize ≥ s.needS := by
  have hn : ¬ s.nmx < 0 := by omega
  unfold ShSet.generalOK ShSet.sizesOK ShSet.needC ShSet.needS
  generalize shIndex s.N s.nmx s.mmx = k
  simp only [hn, if_false, Bool.and_eq_true, Bool.or_eq_true, decide_eq_true_eq]
  constructor
  · rintro ⟨_, h1, h2⟩; omega
  · rintro ⟨h1, h2⟩; exact ⟨⟨Or.inl h, hN⟩, by omega, by omega⟩

/-- **one element short is rejected** — in `C`, and in `S` whenever `S` is needed at all (what the seeded change C13E broke: `<` turned
into `<=` in the test on `S`); the exact sizes are accepted -/
theorem sh_one_short_rejected (N nmx mmx : Int) (h : N ≥ nmx ∧ nmx ≥ mmx ∧ mmx ≥ 0) (hN : N ≤ shMaxDegree) :
    let s : ShSet := ⟨N, nmx, mmx, 0, 0⟩
    let e : ShSet := { s with csize := s.needC, ssize := s.needS }
    e.generalOK = true ∧ ({ e with csize := e.csize - 1 } : ShSet).generalOK = false ∧
      (s.needS > 0 → ({ e with ssize := e.ssize - 1 } : ShSet).generalOK = false) := by
  have hn : ¬ nmx < 0 := by omega
  simp only [ShSet.generalOK, ShSet.sizesOK, ShSet.needC, ShSet.needS, hn, if_false]
  generalize shIndex N nmx mmx = k
  refine ⟨?_, ?_, fun hpos => ?_⟩
  · simp only [Bool.and_eq_true, Bool.or_eq_true, decide_eq_true_eq]; exact ⟨⟨Or.inl h, hN⟩, by omega, by omega⟩
  · simp only [Bool.and_eq_false_iff, decide_eq_false_iff_not]; right; left; omega
  · simp only [Bool.and_eq_false_iff, decide_eq_false_iff_not]; right; right; omega

/-- **the degree is bounded and `N ≥ −1` is enforced** (finding F79, repaired by 3a5948e): whatever the vectors, both constructor forms
refuse `N > 46339` and `N < −1` -/
theorem sh_degree_domain (s : ShSet) (h : s.N > shMaxDegree ∨ s.N < -1) : s.generalOK = false ∧ s.fullOK = false := by
  unfold ShSet.generalOK ShSet.fullOK shMaxDegree at *
  constructor
  · simp only [Bool.and_eq_false_iff, Bool.or_eq_false_iff, decide_eq_false_iff_not]
    rcases h with h | h
    · left; right; omega
    · left; left; constructor <;> omega
  · simp only [Bool.and_eq_false_iff, decide_eq_false_iff_not]
    rcases h with h | h
    · left; right; omega
    · left; left; omega

/-- … and for every degree that is admitted the index arithmetic of the code stays inside a 32-bit `int`:
`0 ≤ index(n, m) < 2³¹` for `0 ≤ m ≤ n ≤ N ≤ 46339` (so the size tests of an accepted constructor were computed without overflow) -/
theorem sh_index_fits_int (N n m : Int) (h : N ≥ n ∧ n ≥ m ∧ m ≥ 0) (hN : N ≤ shMaxDegree) :
    0 ≤ shIndex N n m ∧ shIndex N n m < 2 ^ 31 := by
  unfold shIndex shMaxDegree at *
  obtain ⟨h1, h2, h3⟩ := h
  have hmm : 0 ≤ m * (m - 1) := by
    by_cases hm : m = 0
    · subst hm; simp
    · exact Int.mul_nonneg h3 (by omega)
  have hd0 : 0 ≤ Int.tdiv (m * (m - 1)) 2 := Int.tdiv_nonneg hmm (by decide)
  have hd1 : Int.tdiv (m * (m - 1)) 2 ≤ m * (m - 1) := by
    rw [Int.tdiv_eq_ediv_of_nonneg hmm]; omega
  have hmN : m * N ≤ 46339 * 46339 := by
    have : m * N ≤ 46339 * N := Int.mul_le_mul_of_nonneg_right (by omega) (by omega)
    have : 46339 * N ≤ 46339 * 46339 := Int.mul_le_mul_of_nonneg_left hN (by decide)
    omega
  have hmm2 : m * (m - 1) ≤ m * N := Int.mul_le_mul_of_nonneg_left (by omega) h3
  constructor
  · omega
  · omega

/-- the needs are the `Csize` / `Ssize` of the header for the full layout up to degree 16 (table certificate):
`Csize(N, M) = (M + 1)(2N − M + 2)/2`, `Ssize(N, M) = Csize(N, M) − (N + 1)` -/
theorem sh_needs_are_header_sizes :
    ((List.range 17).all fun N => (List.range (N + 1)).all fun M =>
      let s : ShSet := ⟨N, N, M, 0, 0⟩
      decide (2 * s.needC = ((M : Int) + 1) * (2 * N - M + 2)) && decide (s.needS = s.needC - (N + 1))) = true := by decide +kernel

/-- the secondary coefficient sets of SphericalHarmonic1 / SphericalHarmonic2 may not exceed the primary one, and every set passes its own
test; e.g. `N1 = 3 > N = 2` is rejected by the full form, equal degrees are accepted -/
example : shCtorOK "sh1_3" [⟨2, 2, 2, 6, 3⟩, ⟨3, 3, 3, 10, 6⟩] = some false ∧ shCtorOK "sh1_3" [⟨2, 2, 2, 6, 3⟩, ⟨2, 2, 2, 6, 3⟩] = some true ∧
    shCtorOK "sh5" [⟨2, 2, 1, 5, 1⟩] = some false ∧ shCtorOK "sh5" [⟨2, 2, 1, 5, 2⟩] = some true ∧ shCtorOK "coeff5" [⟨3, 2, -1, 64, 64⟩] = some false ∧
    shCtorOK "sh3" [⟨65536, 65536, 65536, 36, 28⟩] = some false ∧ shCtorOK "coeff5" [⟨-2, -1, -1, 64, 64⟩] = some false ∧
    shCtorOK "coeff5" [⟨-1, -1, -1, 0, 0⟩] = some true := by
  decide +kernel

end GeoVerif.Props.C13
