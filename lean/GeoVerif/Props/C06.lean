import GeoVerif.Proofs.TM
import GeoVerif.Proofs.TMCertGF
import GeoVerif.Proofs.TMCertFG
import GeoVerif.Series.AuxDecode
/-!
# C06 — transverse Mercator (series and exact)

1. **Wrapper theorems** (exact binary64 model, for *every* first-quadrant kernel `K`): parity in latitude and in the
   longitude offset, the far-side reflection, identity on first-quadrant input, and the mirror statements for `Reverse`.
   They are about `TM.forwardD` / `TM.reverseZ`, the functions the driver executes against both implementations
   (`TM.forward = forwardD ∘ (LatFix, AngDiff)`, `TM.reverse = reverseZ ∘ (division by the scale)` by definition, so
   `lon0` enters `Forward` only through `AngDiff` and `Reverse` only through `AngNormalize(lon + lon0)`).
2. **Complex Clenshaw theorem** for `TM.kr`, the Krüger step of the series kernel that the driver runs in binary64
   against the implementation (here read at `ℝ`).
3. **Table certificates** for `b1coeff`, `alpcoeff`, `betcoeff` as extracted from the source on this run (`Gen.TMSeries`).
-/
namespace GeoVerif.Props.C06
open GeoVerif GeoVerif.TM GeoVerif.Proofs.TM

/-! ## 1. wrapper: documented parities, for every kernel -/

/-- **lat ↦ −lat ⇒ (x, −y, −γ, k)** for every kernel, every `lon − lon0`, both classes (`extendp = false`).
    Excluded, because false of the code by its documented rule `if (lat == 0) latsign = -1`: the far-side equator
    (there both `±0` give the southern image).  `graw` is `γ` before the final `AngNormalize` of the series form. -/
theorem tm_parity_lat (c : Cfg) (hc : c.ext = false) (K : F64 → F64 → KOut) (lat d : F64)
    (hn : lat.isNaN = false)
    (hb : ((fwdFoldD false lat d).back && F64.eq (fwdFoldD false lat d).p 0) = false) :
    let r := forwardD c K lat d
    let r' := forwardD c K (F64.neg lat) d
    r'.u = r.u ∧ r'.v = F64.neg r.v ∧ r'.graw = F64.neg r.graw ∧ r'.k = r.k :=
  forward_lat_parity c hc K lat d hn hb

/-- non-vacuity: lat = 10, offset = 100 (far side) satisfies the hypotheses -/
example : (F64.ofInt 10).isNaN = false ∧
    ((fwdFoldD false (F64.ofInt 10) (F64.ofInt 100)).back && F64.eq (fwdFoldD false (F64.ofInt 10) (F64.ofInt 100)).p 0) = false ∧
    (fwdFoldD false (F64.ofInt 10) (F64.ofInt 100)).back = true := by decide +kernel

/-- **(lon − lon0) ↦ −(lon − lon0) ⇒ (−x, y, −γ, k)** for every kernel and every latitude -/
theorem tm_parity_lon (c : Cfg) (hc : c.ext = false) (K : F64 → F64 → KOut) (lat d : F64) (hn : d.isNaN = false) :
    let r := forwardD c K lat d
    let r' := forwardD c K lat (F64.neg d)
    r'.u = F64.neg r.u ∧ r'.v = r.v ∧ r'.graw = F64.neg r.graw ∧ r'.k = r.k :=
  forward_lon_parity c hc K lat d hn

/-- **far side**: for `|lon − lon0| > 90` the kernel is evaluated at `180 − |lon − lon0|`, `ξ` is reflected in `top`
    (`π` resp. `2E`), `γ ↦ 180 − γ`, `η` and `k` are kept -/
theorem tm_far_side (c : Cfg) (hc : c.ext = false) (K : F64 → F64 → KOut) (lat d : F64)
    (hfar : F64.gt (fabsS d) MathF.qd = true) :
    let fo := fwdFoldD c.ext lat d
    let r := K fo.p fo.q
    fo.back = true ∧ fo.q = MathF.hd - fabsS d ∧
    (forwardD c K lat d).u = mulSign fo.s2 (c.scale r.q) ∧
    (forwardD c K lat d).v = mulSign fo.s1 (c.scale (c.top - r.p)) ∧
    (forwardD c K lat d).graw = mulSign (fo.s1 * fo.s2) (MathF.hd - r.gamma) :=
  forward_far_side c hc K lat d hfar

example : F64.gt (fabsS (F64.ofInt (-100))) MathF.qd = true := by decide +kernel

/-- on first-quadrant input the wrapper only scales (this is what lets the implementation supply its own kernel values) -/
theorem tm_forward_canonical (c : Cfg) (K : F64 → F64 → KOut) (lat d : F64)
    (h1 : lat.signbit = false) (h2 : d.signbit = false) (h3 : F64.gt d MathF.qd = false) :
    forwardD c K lat d =
      ⟨c.scale (K lat d).q, c.scale (K lat d).p, (K lat d).gamma,
       if c.series then MathF.angNormalize (K lat d).gamma else (K lat d).gamma, (K lat d).k * c.k0, c.scale (K lat d).p⟩ :=
  forward_canonical c K lat d h1 h2 h3

example : (F64.ofInt 10).signbit = false ∧ F64.gt (F64.ofInt 10) MathF.qd = false := by decide +kernel

/-- the kernel is only ever called with sign-bit-clear arguments and, on the near side, an offset not beyond 90° -/
theorem tm_fold_first_quadrant (lat d : F64) :
    let fo := fwdFoldD false lat d
    fo.p = fabsS lat ∧ fo.p.signbit = false ∧
    (fo.back = false → fo.q = fabsS d ∧ fo.q.signbit = false ∧ F64.gt fo.q MathF.qd = false) :=
  fold_first_quadrant lat d

/-- **Reverse, ξ ↦ −ξ (i.e. y ↦ −y) ⇒ (−lat, lon, −γ, k)** for every kernel -/
theorem tm_reverse_parity_xi (c : Cfg) (hc : c.ext = false) (K : F64 → F64 → KOut) (lon0 xi eta : F64) (hn : xi.isNaN = false) :
    let r := reverseZ c K lon0 xi eta
    let r' := reverseZ c K lon0 (F64.neg xi) eta
    r'.u = F64.neg r.u ∧ r'.v = r.v ∧ r'.vraw = r.vraw ∧ r'.graw = F64.neg r.graw ∧ r'.k = r.k :=
  reverse_xi_parity c hc K lon0 xi eta hn

/-- **Reverse, η ↦ −η (i.e. x ↦ −x) ⇒ (lat, −(lon − lon0), −γ, k)** for every kernel (`vraw` = longitude offset before `lon0` is added) -/
theorem tm_reverse_parity_eta (c : Cfg) (hc : c.ext = false) (K : F64 → F64 → KOut) (lon0 xi eta : F64) (hn : eta.isNaN = false) :
    let r := reverseZ c K lon0 xi eta
    let r' := reverseZ c K lon0 xi (F64.neg eta)
    r'.u = r.u ∧ r'.vraw = F64.neg r.vraw ∧ r'.graw = F64.neg r.graw ∧ r'.k = r.k :=
  reverse_eta_parity c hc K lon0 xi eta hn

/-- on first-quadrant `(ξ, η)` the reverse wrapper passes the kernel's answer through -/
theorem tm_reverse_canonical (c : Cfg) (K : F64 → F64 → KOut) (lon0 xi eta : F64)
    (h1 : xi.signbit = false) (h2 : eta.signbit = false) (h3 : F64.gt xi c.half = false) :
    (reverseZ c K lon0 xi eta).u = (K xi eta).p ∧ (reverseZ c K lon0 xi eta).vraw = (K xi eta).q ∧
    (reverseZ c K lon0 xi eta).graw = (K xi eta).gamma ∧ (reverseZ c K lon0 xi eta).k = (K xi eta).k * c.k0 :=
  reverse_canonical c K lon0 xi eta h1 h2 h3

/-! ## 2. complex Clenshaw summation -/

/-- Clenshaw summation over a commutative ring for any sequence with `T (n+2) = a·T (n+1) − T n` -/
theorem clenshaw_generic {R : Type} [CommRing R] (a : R) (T : ℕ → R) (hT : ∀ n, T (n + 2) = a * T (n + 1) - T n) (cs : List R) (k : ℕ) :
    wsum T k cs = (clenR a cs).1 * T (k + 1) - (clenR a cs).2 * T k :=
  clenshaw_ring a T hT cs k

/-- **complex Clenshaw summation of the Krüger series** (`Forward`: `cs = alp`, argument `ζ' = ξ' + iη'`; `Reverse`: `cs = −bet`, argument
    `ζ`): for every coefficient vector and every `ξ, η` the paired real recurrences of the code return
    `ζ + Σ_j c_j sin 2jζ` and its derivative `1 + Σ_j 2j c_j cos 2jζ` -/
theorem clenshaw_complex (cs : List ℝ) (ξ η : ℝ) :
    toC (kr cs ξ η).1 = (⟨ξ, η⟩ : ℂ) + sinSum ⟨ξ, η⟩ 0 cs ∧
    toC (kr cs ξ η).2 = 1 + dcosSum ⟨ξ, η⟩ 0 cs :=
  Proofs.TM.clenshaw_complex cs ξ η

/-! ## 3. table certificates (depend on `Gen.TMSeries`: re-checked against the source on every run) -/
open GeoVerif.Series GeoVerif.Series.TMS

/-- the layout consumes `alpcoeff` and `betcoeff` exactly (`N(N+3)/2` entries), `b1coeff` has `N/2 + 2` entries, and coefficient `l` of both
    series is `O(n^l)` with leading terms `α₁ = n/2 + …`, `β₁ = n/2 + …` -/
theorem table_shape : tableSize = Gen.TMSeries.alpcoeff.length ∧ tableSize = Gen.TMSeries.betcoeff.length ∧
    Gen.TMSeries.b1coeff.length = TM.N / 2 + 2 ∧ checkShape = true := by decide +kernel

/-- **`b1`**: `b1·(1 + n) = Σ_j C(½, j)² n^{2j} = 1 + n²/4 + n⁴/64 + n⁶/256 + …` (mod `n^{N+1}`), the mean of `√(1 + n² − 2n cos 2β)`, i.e. the
    quarter meridian is `π a b1 / 2` -/
theorem b1_table : checkB1 = true := by decide +kernel

/-- **`alp` and `bet` are reversions of each other**: with `F(ζ) = ζ + Σ_j α_j sin 2jζ` and `G(ζ) = ζ − Σ_j β_j sin 2jζ` built from the two tables,
    `G(F(ζ)) = ζ` modulo `n^{N+1}` (all harmonics; Taylor substitution in the truncated trigonometric-series CAS) -/
theorem alp_bet_revert : checkRevertGF = true := Proofs.TMCert.revertGF

/-- … and `F(G(ζ)) = ζ` modulo `n^{N+1}` -/
theorem bet_alp_revert : checkRevertFG = true := Proofs.TMCert.revertFG


/-! ### the TM tables are the auxiliary-latitude tables (both re-extracted from the source on every run) -/

/-- block `l` (1-based) of `alpcoeff`/`betcoeff` as the truncated power series in `n` the constructor evaluates:
`n^l · polyval(num, n) / den` -/
def tmBlock (tbl : List Rat) (l : Nat) : Poly :=
  let b := TM.block tbl l
  Poly.trunc (TM.N + 1) (Poly.shift l (Poly.smul (1 / b.2) (Poly.ofHighFirst b.1)))

def checkAlpAux : Bool :=
  TM.N == AuxDecode.L &&
  (List.range TM.N).all fun i =>
    Poly.eqN (TM.N + 1) (tmBlock Gen.TMSeries.alpcoeff (i + 1))
      ((AuxDecode.block Gen.AuxSeries.RECTIFYING Gen.AuxSeries.CONFORMAL).getD i [])

def checkBetAux : Bool :=
  TM.N == AuxDecode.L &&
  (List.range TM.N).all fun i =>
    Poly.eqN (TM.N + 1) (Poly.smul (-1) (tmBlock Gen.TMSeries.betcoeff (i + 1)))
      ((AuxDecode.block Gen.AuxSeries.CONFORMAL Gen.AuxSeries.RECTIFYING).getD i [])

/-- **Cross-table certificate**: the Krüger table `alpcoeff` of TransverseMercator.cpp equals, as rational series in `n`, the
`μ ← χ` (rectifying from conformal) table of AuxLatitude.cpp — a table transcribed independently and certified by the C15
obligations (`chi_ode`, `mu_beta_table`, `aux_revert`, `aux_compose_partial`).  Together with `alp_bet_revert` this pins the
TM series to the defining relations of the conformal and rectifying latitudes, not only to each other. -/
theorem alp_is_aux : checkAlpAux = true := by decide +kernel

/-- likewise `−betcoeff` = the `χ ← μ` table -/
theorem bet_is_aux : checkBetAux = true := by decide +kernel

end GeoVerif.Props.C06
