import GeoVerif.Proofs.TM
import GeoVerif.Proofs.TMX
import GeoVerif.Proofs.TMSeriesKernel
import GeoVerif.Proofs.TMCoeffEval
import GeoVerif.Proofs.TMCertGF
import GeoVerif.Proofs.TMCertFG
import GeoVerif.Series.AuxDecode
/-!
# C06 — transverse Mercator (series and exact)

1. **Wrapper theorems** (exact binary64 model, for *every* first-quadrant kernel `K`): parity in latitude and in the
   longitude offset, the far-side reflection, identity on first-quadrant input, and the mirror statements for `Reverse`.
   They are about `TM.forwardD` / `TM.reverseZ`, the functions the driver executes against both implementations
   (`TM.forward = forwardD ∘ (LatFix, AngDiff)`, `TM.reverse = reverseZ ∘ (division by the scale)` by definition, so
   `lon0` enters `Forward` only through `AngDiff` and `Reverse` only through `AngNormalize(lon + lon0)`).
2. **Complex Clenshaw theorem** for `TM.kr`, the Krüger step of the series kernel that the driver runs in binary64
   against the implementation (here read at `ℝ`).
3. **Table certificates** for `b1coeff`, `alpcoeff`, `betcoeff` as extracted from the source on this run (`Gen.TMSeries`).
-/
namespace GeoVerif.Props.C06
open GeoVerif GeoVerif.TM GeoVerif.Proofs.TM

/-! ## 1. wrapper: documented parities, for every kernel -/

/-- **lat ↦ −lat ⇒ (x, −y, −γ, k)** for every kernel, every `lon − lon0`, both classes (`extendp = false`).
    Excluded, because false of the code by its documented rule `if (lat == 0) latsign = -1`: the far-side equator
    (there both `±0` give the southern image).  `graw` is `γ` before the final `AngNormalize` of the series form. -/
theorem tm_parity_lat (c : Cfg) (hc : c.ext = false) (K : F64 → F64 → KOut) (lat d : F64)
    (hn : lat.isNaN = false)
    (hb : ((fwdFoldD false lat d).back && F64.eq (fwdFoldD false lat d).p 0) = false) :
    let r := forwardD c K lat d
    let r' := forwardD c K (F64.neg lat) d
    r'.u = r.u ∧ r'.v = F64.neg r.v ∧ r'.graw = F64.neg r.graw ∧ r'.k = r.k :=
  forward_lat_parity c hc K lat d hn hb

/-- non-vacuity: lat = 10, offset = 100 (far side) satisfies the hypotheses -/
example : (F64.ofInt 10).isNaN = false ∧
    ((fwdFoldD false (F64.ofInt 10) (F64.ofInt 100)).back && F64.eq (fwdFoldD false (F64.ofInt 10) (F64.ofInt 100)).p 0) = false ∧
    (fwdFoldD false (F64.ofInt 10) (F64.ofInt 100)).back = true := by decide +kernel

/-- **(lon − lon0) ↦ −(lon − lon0) ⇒ (−x, y, −γ, k)** for every kernel and every latitude -/
theorem tm_parity_lon (c : Cfg) (hc : c.ext = false) (K : F64 → F64 → KOut) (lat d : F64) (hn : d.isNaN = false) :
    let r := forwardD c K lat d
    let r' := forwardD c K lat (F64.neg d)
    r'.u = F64.neg r.u ∧ r'.v = r.v ∧ r'.graw = F64.neg r.graw ∧ r'.k = r.k :=
  forward_lon_parity c hc K lat d hn

/-- **far side**: for `|lon − lon0| > 90` the kernel is evaluated at `180 − |lon − lon0|`, `ξ` is reflected in `top`
    (`π` resp. `2E`), `γ ↦ 180 − γ`, `η` and `k` are kept -/
theorem tm_far_side (c : Cfg) (hc : c.ext = false) (K : F64 → F64 → KOut) (lat d : F64)
    (hfar : F64.gt (fabsS d) MathF.qd = true) :
    let fo := fwdFoldD c.ext lat d
    let r := K fo.p fo.q
    fo.back = true ∧ fo.q = MathF.hd - fabsS d ∧
    (forwardD c K lat d).u = mulSign fo.s2 (c.scale r.q) ∧
    (forwardD c K lat d).v = mulSign fo.s1 (c.scale (c.top - r.p)) ∧
    (forwardD c K lat d).graw = mulSign (fo.s1 * fo.s2) (MathF.hd - r.gamma) :=
  forward_far_side c hc K lat d hfar

example : F64.gt (fabsS (F64.ofInt (-100))) MathF.qd = true := by decide +kernel

/-- on first-quadrant input the wrapper only scales (this is what lets the implementation supply its own kernel values) -/
theorem tm_forward_canonical (c : Cfg) (K : F64 → F64 → KOut) (lat d : F64)
    (h1 : lat.signbit = false) (h2 : d.signbit = false) (h3 : F64.gt d MathF.qd = false) :
    forwardD c K lat d =
      ⟨c.scale (K lat d).q, c.scale (K lat d).p, (K lat d).gamma,
       if c.series then MathF.angNormalize (K lat d).gamma else (K lat d).gamma, (K lat d).k * c.k0, c.scale (K lat d).p⟩ :=
  forward_canonical c K lat d h1 h2 h3

example : (F64.ofInt 10).signbit = false ∧ F64.gt (F64.ofInt 10) MathF.qd = false := by decide +kernel

/-- the kernel is only ever called with sign-bit-clear arguments and, on the near side, an offset not beyond 90° -/
theorem tm_fold_first_quadrant (lat d : F64) :
    let fo := fwdFoldD false lat d
    fo.p = fabsS lat ∧ fo.p.signbit = false ∧
    (fo.back = false → fo.q = fabsS d ∧ fo.q.signbit = false ∧ F64.gt fo.q MathF.qd = false) :=
  fold_first_quadrant lat d

/-- **Reverse, ξ ↦ −ξ (i.e. y ↦ −y) ⇒ (−lat, lon, −γ, k)** for every kernel -/
theorem tm_reverse_parity_xi (c : Cfg) (hc : c.ext = false) (K : F64 → F64 → KOut) (lon0 xi eta : F64) (hn : xi.isNaN = false) :
    let r := reverseZ c K lon0 xi eta
    let r' := reverseZ c K lon0 (F64.neg xi) eta
    r'.u = F64.neg r.u ∧ r'.v = r.v ∧ r'.vraw = r.vraw ∧ r'.graw = F64.neg r.graw ∧ r'.k = r.k :=
  reverse_xi_parity c hc K lon0 xi eta hn

/-- **Reverse, η ↦ −η (i.e. x ↦ −x) ⇒ (lat, −(lon − lon0), −γ, k)** for every kernel (`vraw` = longitude offset before `lon0` is added) -/
theorem tm_reverse_parity_eta (c : Cfg) (hc : c.ext = false) (K : F64 → F64 → KOut) (lon0 xi eta : F64) (hn : eta.isNaN = false) :
    let r := reverseZ c K lon0 xi eta
    let r' := reverseZ c K lon0 xi (F64.neg eta)
    r'.u = r.u ∧ r'.vraw = F64.neg r.vraw ∧ r'.graw = F64.neg r.graw ∧ r'.k = r.k :=
  reverse_eta_parity c hc K lon0 xi eta hn

/-- on first-quadrant `(ξ, η)` the reverse wrapper passes the kernel's answer through -/
theorem tm_reverse_canonical (c : Cfg) (K : F64 → F64 → KOut) (lon0 xi eta : F64)
    (h1 : xi.signbit = false) (h2 : eta.signbit = false) (h3 : F64.gt xi c.half = false) :
    (reverseZ c K lon0 xi eta).u = (K xi eta).p ∧ (reverseZ c K lon0 xi eta).vraw = (K xi eta).q ∧
    (reverseZ c K lon0 xi eta).graw = (K xi eta).gamma ∧ (reverseZ c K lon0 xi eta).k = (K xi eta).k * c.k0 :=
  reverse_canonical c K lon0 xi eta h1 h2 h3

/-! ## 2. complex Clenshaw summation -/

/-- Clenshaw summation over a commutative ring for any sequence with `T (n+2) = a·T (n+1) − T n` -/
theorem clenshaw_generic {R : Type} [CommRing R] (a : R) (T : ℕ → R) (hT : ∀ n, T (n + 2) = a * T (n + 1) - T n) (cs : List R) (k : ℕ) :
    wsum T k cs = (clenR a cs).1 * T (k + 1) - (clenR a cs).2 * T k :=
  clenshaw_ring a T hT cs k

/-- **complex Clenshaw summation of the Krüger series** (`Forward`: `cs = alp`, argument `ζ' = ξ' + iη'`; `Reverse`: `cs = −bet`, argument
    `ζ`): for every coefficient vector and every `ξ, η` the paired real recurrences of the code return
    `ζ + Σ_j c_j sin 2jζ` and its derivative `1 + Σ_j 2j c_j cos 2jζ` -/
theorem clenshaw_complex (cs : List ℝ) (ξ η : ℝ) :
    toC (kr cs ξ η).1 = (⟨ξ, η⟩ : ℂ) + sinSum ⟨ξ, η⟩ 0 cs ∧
    toC (kr cs ξ η).2 = 1 + dcosSum ⟨ξ, η⟩ 0 cs :=
  Proofs.TM.clenshaw_complex cs ξ η

/-! ## 3. table certificates (depend on `Gen.TMSeries`: re-checked against the source on every run) -/
open GeoVerif.Series GeoVerif.Series.TMS

/-- the layout consumes `alpcoeff` and `betcoeff` exactly (`N(N+3)/2` entries), `b1coeff` has `N/2 + 2` entries, and coefficient `l` of both
    series is `O(n^l)` with leading terms `α₁ = n/2 + …`, `β₁ = n/2 + …` -/
theorem table_shape : tableSize = Gen.TMSeries.alpcoeff.length ∧ tableSize = Gen.TMSeries.betcoeff.length ∧
    Gen.TMSeries.b1coeff.length = TM.N / 2 + 2 ∧ checkShape = true := by decide +kernel

/-- **`b1`**: `b1·(1 + n) = Σ_j C(½, j)² n^{2j} = 1 + n²/4 + n⁴/64 + n⁶/256 + …` (mod `n^{N+1}`), the mean of `√(1 + n² − 2n cos 2β)`, i.e. the
    quarter meridian is `π a b1 / 2` -/
theorem b1_table : checkB1 = true := by decide +kernel

/-- **`alp` and `bet` are reversions of each other**: with `F(ζ) = ζ + Σ_j α_j sin 2jζ` and `G(ζ) = ζ − Σ_j β_j sin 2jζ` built from the two tables,
    `G(F(ζ)) = ζ` modulo `n^{N+1}` (all harmonics; Taylor substitution in the truncated trigonometric-series CAS) -/
theorem alp_bet_revert : checkRevertGF = true := Proofs.TMCert.revertGF

/-- … and `F(G(ζ)) = ζ` modulo `n^{N+1}` -/
theorem bet_alp_revert : checkRevertFG = true := Proofs.TMCert.revertFG


/-! ### the TM tables are the auxiliary-latitude tables (both re-extracted from the source on every run) -/

/-- block `l` (1-based) of `alpcoeff`/`betcoeff` as the truncated power series in `n` the constructor evaluates:
`n^l · polyval(num, n) / den` -/
def tmBlock (tbl : List Rat) (l : Nat) : Poly :=
  let b := TM.block tbl l
  Poly.trunc (TM.N + 1) (Poly.shift l (Poly.smul (1 / b.2) (Poly.ofHighFirst b.1)))

def checkAlpAux : Bool :=
  TM.N == AuxDecode.L &&
  (List.range TM.N).all fun i =>
    Poly.eqN (TM.N + 1) (tmBlock Gen.TMSeries.alpcoeff (i + 1))
      ((AuxDecode.block Gen.AuxSeries.RECTIFYING Gen.AuxSeries.CONFORMAL).getD i [])

def checkBetAux : Bool :=
  TM.N == AuxDecode.L &&
  (List.range TM.N).all fun i =>
    Poly.eqN (TM.N + 1) (Poly.smul (-1) (tmBlock Gen.TMSeries.betcoeff (i + 1)))
      ((AuxDecode.block Gen.AuxSeries.CONFORMAL Gen.AuxSeries.RECTIFYING).getD i [])

/-- **Cross-table certificate**: the Krüger table `alpcoeff` of TransverseMercator.cpp equals, as rational series in `n`, the
`μ ← χ` (rectifying from conformal) table of AuxLatitude.cpp — a table transcribed independently and certified by the C15
obligations (`chi_ode`, `mu_beta_table`, `aux_revert`, `aux_compose_partial`).  Together with `alp_bet_revert` this pins the
TM series to the defining relations of the conformal and rectifying latitudes, not only to each other. -/
theorem alp_is_aux : checkAlpAux = true := by decide +kernel

/-- likewise `−betcoeff` = the `χ ← μ` table -/
theorem bet_is_aux : checkBetAux = true := by decide +kernel


/-! ## 4. `extendp`: the wrapper does not fold (both entry points, every kernel) -/

/-- **`extendp = true`, Forward**: no parity folding and no far side for *any* input — the kernel is called on `(lat, lon − lon0)` as they are
    and its answer is only scaled (this is the convention seeded change C06F broke for `Reverse`) -/
theorem tm_extendp_forward (c : Cfg) (hc : c.ext = true) (K : F64 → F64 → KOut) (lat d : F64) :
    forwardD c K lat d =
      ⟨c.scale (K lat d).q, c.scale (K lat d).p, (K lat d).gamma,
       if c.series then MathF.angNormalize (K lat d).gamma else (K lat d).gamma, (K lat d).k * c.k0, c.scale (K lat d).p⟩ :=
  forward_extendp c hc K lat d

/-- **`extendp = true`, Reverse**: the kernel is called on `(ξ, η)` as they are (no `xisign`, no `etasign`, no far side) -/
theorem tm_extendp_reverse (c : Cfg) (hc : c.ext = true) (K : F64 → F64 → KOut) (lon0 xi eta : F64) :
    (reverseZ c K lon0 xi eta).u = (K xi eta).p ∧ (reverseZ c K lon0 xi eta).vraw = (K xi eta).q ∧
    (reverseZ c K lon0 xi eta).graw = (K xi eta).gamma ∧ (reverseZ c K lon0 xi eta).k = (K xi eta).k * c.k0 :=
  reverse_extendp c hc K lon0 xi eta

/-! ## 5. exact form: the Newton inversions, for every elliptic-function kernel `Ell` (`Model/TMExact.lean`, executed by the driver
on the values the implementation's own `EllipticFunction` objects return) -/
open GeoVerif.TMX GeoVerif.Proofs.TMX

/-- **the loop shared by `zetainv` and `sigmainv`** (any step function, any number type): it takes at most `fuel` steps and returns the
    Newton iterate after exactly `steps` steps -/
theorem tmx_newton_iterate {α : Type} [RealLike α] (step : Nat → α → α → α × α) (thr : α) (fuel i : Nat) (trip : Bool) (u v : α) :
    let r := newton step thr fuel i trip u v
    i ≤ r.steps ∧ r.steps ≤ i + fuel ∧ (r.u, r.v) = iterate step (r.steps - i) i (u, v) :=
  newton_iterate step thr fuel i trip u v

/-- **exit through the convergence test** (`if (trip) break`): iterate `m` is the first whose correction is not `≥ thr`, exactly one more
    step was taken, `m + 2 ≤ fuel` -/
theorem tmx_newton_break {α : Type} [RealLike α] (step : Nat → α → α → α × α) (thr : α) (fuel i : Nat) (u v : α)
    (hb : (newton step thr fuel i false u v).brk = true) :
    ∃ m, (newton step thr fuel i false u v).steps = i + m + 2 ∧ m + 2 ≤ fuel ∧
      long step thr i (u, v) m = false ∧ (∀ m' < m, long step thr i (u, v) m' = true) ∧
      ((newton step thr fuel i false u v).u, (newton step thr fuel i false u v).v) = iterate step (m + 2) i (u, v) :=
  newton_break step thr fuel i u v hb

/-- non-vacuity: a step function whose corrections vanish trips at once and leaves through the convergence test after two steps -/
example : (newton (fun _ _ _ => ((0 : ℝ), (0 : ℝ))) (1 : ℝ) 10 0 false 5 7).brk = true ∧
    (newton (fun _ _ _ => ((0 : ℝ), (0 : ℝ))) (1 : ℝ) 10 0 false 5 7).steps = 2 := by
  simp [newton]

/-- **exit at the cap** (silent: `GEOGRAPHICLIB_PANIC` is `false` for binary64): all `fuel` steps were taken and every correction tested
    before the last one was `≥ thr`; `trip` at exit means the last step was the first short one -/
theorem tmx_newton_cap {α : Type} [RealLike α] (step : Nat → α → α → α × α) (thr : α) (fuel i : Nat) (u v : α)
    (hb : (newton step thr fuel i false u v).brk = false) :
    (newton step thr fuel i false u v).steps = i + fuel ∧ (∀ m, m + 1 < fuel → long step thr i (u, v) m = true) ∧
    ((newton step thr fuel i false u v).trip = true → 0 < fuel ∧ long step thr i (u, v) (fuel - 1) = false) :=
  newton_cap step thr fuel i u v hb

example : (newton (fun _ _ _ => ((1 : ℝ), (0 : ℝ))) (1 : ℝ) 3 0 false 5 7).brk = false := by simp [newton]

/-- **iteration caps** (*Gen*: `numit_` is read from `TransverseMercatorExact.hpp` on every run): `zetainv` and `sigmainv` evaluate the
    elliptic functions at most `numit_` times, for every kernel, every ellipsoid, every input, over any number type -/
theorem tmx_iteration_cap {α : Type} [RealLike α] (f : α) (ext : Bool) (E : Ell α) (a b : α) :
    (zetainv (mkPar f ext) E a b).1.steps ≤ Gen.TMExact.numit ∧ (sigmainv (mkPar f ext) E a b).1.steps ≤ Gen.TMExact.numit :=
  ⟨zetainv_cap (mkPar f ext) E a b, sigmainv_cap (mkPar f ext) E a b⟩

/-- **`zetainv` left through its convergence test** (over `ℝ`, every kernel): some Newton iterate `w_m`, `m + 2 ≤ numit_`, has a forward
    image whose residual in the metric of the Newton step, `|dw/dζ|²·((τ'(w_m) − τ')²/(1 + τ'²) + (λ(w_m) − λ)²)`, is below
    `tol2_/max(ψ, 1)²`, all earlier iterates had not, and the result is the iterate two Newton steps later.
    Not proved (needs the analytic properties of the Jacobi functions, which are kernels here): that the loop does leave through this test. -/
theorem tmx_zetainv_converged (p : Par ℝ) (E : Ell ℝ) (taup lam : ℝ) (hnd : (zStart p E taup lam).done = false)
    (hb : (zetainv p E taup lam).1.brk = true) :
    ∃ m, m + 2 ≤ p.numit ∧ (zetainv p E taup lam).1.steps = m + 2 ∧
      (let w := iterate (zStep p E taup lam) m 0 ((zStart p E taup lam).u, (zStart p E taup lam).v)
       let j := E.am m w.1 w.2
       ((dwdzeta p j).1 ^ 2 + (dwdzeta p j).2 ^ 2) *
         ((((zeta p j).1 - taup) * (1 / Real.sqrt (1 ^ 2 + taup ^ 2))) ^ 2 + ((zeta p j).2 - lam) ^ 2) < zThr p taup) ∧
      (∀ m' < m, long (zStep p E taup lam) (zThr p taup) 0 ((zStart p E taup lam).u, (zStart p E taup lam).v) m' = true) ∧
      ((zetainv p E taup lam).1.u, (zetainv p E taup lam).1.v) =
        iterate (zStep p E taup lam) (m + 2) 0 ((zStart p E taup lam).u, (zStart p E taup lam).v) :=
  zetainv_converged p E taup lam hnd hb

/-- non-vacuity: a parameter set and a kernel (constant Jacobi values of the point `w = 0`) for which `zetainv` and `sigmainv` do leave
    through the convergence test -/
noncomputable def pEx : Par ℝ := ⟨0, 1, 0, 1, 1 / 1000, 1 / 100, 10, false⟩
noncomputable def eEx : Ell ℝ := ⟨2, 2, 2, 1, fun _ _ _ => ⟨0, 1, 1, 0, 1, 1⟩, fun _ _ _ _ => (0, 0)⟩

example : (zStart pEx eEx 0 0).done = false ∧ (zetainv pEx eEx 0 0).1.brk = true := by
  have h : (zStart pEx eEx 0 0).done = false := by simp [zStart, zetainv0, pEx, eEx]
  refine ⟨h, ?_⟩
  rw [zetainv_unfold pEx eEx 0 0 h]
  simp [newton, zStep, zetaStep, zeta, dwdzeta, zThr, pEx, eEx, atan2_zero_pos, Proofs.TMX.max_real]

/-- **`sigmainv` left through its convergence test**: some Newton iterate `w_m` has `|dw/dσ|²·|σ(w_m) − (ξ + iη)|² < tol2_` -/
theorem tmx_sigmainv_converged (p : Par ℝ) (E : Ell ℝ) (xi eta : ℝ) (hnd : (sigmainv0 p E xi eta).done = false)
    (hb : (sigmainv p E xi eta).1.brk = true) :
    ∃ m, m + 2 ≤ p.numit ∧ (sigmainv p E xi eta).1.steps = m + 2 ∧
      (let w := iterate (sigmaStep p E xi eta) m 0 ((sigmainv0 p E xi eta).u, (sigmainv0 p E xi eta).v)
       let j := E.am m w.1 w.2
       let s := sigma p j w.2 (E.einc m w.1 w.2 j)
       ((dwdsigma p j).1 ^ 2 + (dwdsigma p j).2 ^ 2) * ((s.1 - xi) ^ 2 + (s.2 - eta) ^ 2) < p.tol2) ∧
      (∀ m' < m, long (sigmaStep p E xi eta) p.tol2 0 ((sigmainv0 p E xi eta).u, (sigmainv0 p E xi eta).v) m' = true) ∧
      ((sigmainv p E xi eta).1.u, (sigmainv p E xi eta).1.v) =
        iterate (sigmaStep p E xi eta) (m + 2) 0 ((sigmainv0 p E xi eta).u, (sigmainv0 p E xi eta).v) :=
  sigmainv_converged p E xi eta hnd hb

example : (sigmainv0 pEx eEx 0 0).done = false ∧ (sigmainv pEx eEx 0 0).1.brk = true := by
  have h0 : sigmainv0 pEx eEx 0 0 = ⟨false, 0, 0, .plain⟩ := by
    simp only [sigmainv0, pEx, eEx, ofDec_real, ltb_real]
    norm_num
  have h : (sigmainv0 pEx eEx 0 0).done = false := by rw [h0]
  refine ⟨h, ?_⟩
  rw [sigmainv_unfold pEx eEx 0 0 h, h0]
  simp [newton, sigmaStep, sigma, dwdsigma, pEx, eEx]

/-- **which way `Forward` obtains the Thompson coordinates** (every kernel, over `ℝ`): the pole case exactly for `lat = 90` (`u = K`, `v = 0`, `γ = lon`,
    `k = 1`); the branch-point case exactly at the single point `lat = 0 ∧ lon − lon0 = 90(1 − e)` (`u = 0`, `v = K'`) — the comparison seeded change C06B
    turned into `≥`; otherwise `(u, v) = zetainv(taupf(tan φ), λ)` with at most `numit_` steps -/
theorem tmx_forward_cases (p : Par ℝ) (E : Ell ℝ) (lat lon tau : ℝ) :
    let r := TMX.fwdKernel p E lat lon tau
    (r.via = Via.pole ↔ lat = 90) ∧
    (r.via = Via.branchPoint ↔ lat ≠ 90 ∧ lat = 0 ∧ lon = 90 * (1 - p.e)) ∧
    (lat = 90 → r.u = E.Ku ∧ r.v = 0 ∧ r.gamma = lon ∧ r.k = 1) ∧
    (lat ≠ 90 → lat = 0 → lon = 90 * (1 - p.e) → r.u = 0 ∧ r.v = E.Kv) ∧
    (r.via = Via.newton → r.u = (zetainv p E (TM.taupf tau p.e) (lon * TMX.degree)).1.u ∧ r.v = (zetainv p E (TM.taupf tau p.e) (lon * TMX.degree)).1.v ∧
      r.steps ≤ p.numit) :=
  fwdKernel_cases p E lat lon tau

/-- **`Reverse`**: the branch-point case exactly at `ξ = 0 ∧ η = K' − E'`, otherwise `(u, v) = sigmainv(ξ, η)`; the pole output (`lat = 90`,
    `lon = γ = 0`, `k = 1`) exactly when the Thompson coordinates come out as `(K, 0)` -/
theorem tmx_reverse_cases (p : Par ℝ) (E : Ell ℝ) (xi eta : ℝ) :
    let r := TMX.revKernel p E xi eta
    ((xi = 0 ∧ eta = E.KEv) → r.u = 0 ∧ r.v = E.Kv) ∧
    (¬ (xi = 0 ∧ eta = E.KEv) → r.u = (sigmainv p E xi eta).1.u ∧ r.v = (sigmainv p E xi eta).1.v ∧ r.steps ≤ p.numit) ∧
    (r.via = Via.pole ↔ (r.v = 0 ∧ r.u = E.Ku)) ∧
    (r.via = Via.pole → r.p = 90 ∧ r.q = 0 ∧ r.gamma = 0 ∧ r.k = 1) :=
  revKernel_cases p E xi eta

/-! ## 6. exact form: the closed forms as coded are Lee's (1976), the Jacobi functions being abstract

Mathlib has no Jacobi elliptic functions.  The six values `sn, cn, dn (u | e²)`, `sn, cn, dn (v | 1 − e²)` are arbitrary reals subject to
`sn² + cn² = 1`, `dn² + k² sn² = 1` (`JacobiRel`; the harness checks these two relations on what `EllipticFunction::am` returns, op `tmxf`), and the
functions of the complex argument `w = u + iv` are *defined* by the addition theorem (`snW, cnW, dnW`; A+S 16.21.2–4), for which the same two
relations are proved to persist. -/

/-- the complex values given by the addition theorem satisfy `sn² w + cn² w = 1`, `dn² w + e² sn² w = 1` -/
theorem tmx_complex_jacobi (mu : ℝ) (j : Jac ℝ) (hj : JacobiRel mu j) (hD : denW mu j ≠ 0) :
    snW mu j ^ 2 + cnW mu j ^ 2 = 1 ∧ dnW mu j ^ 2 + (mu : ℂ) * snW mu j ^ 2 = 1 :=
  complex_jacobi_rel mu j hj hD

/-- a concrete instance of `JacobiRel` (`e² = 1/4`, `sn u = 3/5`, `sn v = 4/5`; so the theorems below are not vacuous) -/
noncomputable def jEx : Jac ℝ := ⟨3 / 5, 4 / 5, Real.sqrt (91 / 100), 4 / 5, 3 / 5, Real.sqrt (13 / 25)⟩
example : JacobiRel (1 / 4) jEx ∧ denW (1 / 4) jEx ≠ 0 := by
  refine ⟨⟨by norm_num [jEx], ?_, by norm_num [jEx], ?_⟩, by norm_num [jEx, denW]⟩
  · simp only [jEx]; rw [Real.sq_sqrt (by norm_num)]; norm_num
  · simp only [jEx]; rw [Real.sq_sqrt (by norm_num)]; norm_num

/-- **`zeta`, real part = Lee 54.17**: `τ' = sinh ψ`, `ψ = atanh(sn u · dn v) − e·atanh(e · sn u / dn v)` (the code evaluates the two `atanh` as
    `asinh(x/√(1 − x²))` with `1 − x²` rewritten by the Jacobi relations, and `sinh` of the difference without cancellation) -/
theorem tmx_zeta_taup (p : Par ℝ) (hp : ParOK p) (j : Jac ℝ) (hj : JacobiRel p.mu j)
    (hdn : 0 < j.dnv) (hx : |j.snu * j.dnv| < 1) (hy : |p.e * j.snu| < j.dnv) :
    (zeta p j).1 = Real.sinh (artanh (j.snu * j.dnv) - p.e * artanh (p.e * j.snu / j.dnv)) :=
  zeta_taup_lee p hp j hj hdn hx hy

/-- non-vacuity: `e = 1/2` with the instance `jEx` -/
noncomputable def pLee : Par ℝ := ⟨1 / 4, 3 / 4, 1 / 2, 1, 1, 1, 10, false⟩
example : ParOK pLee ∧ 0 < jEx.dnv ∧ |jEx.snu * jEx.dnv| < 1 ∧ |pLee.e * jEx.snu| < jEx.dnv := by
  have h1 : (18 / 25 : ℝ) < Real.sqrt (13 / 25) := by
    rw [show (18 / 25 : ℝ) = Real.sqrt ((18 / 25) ^ 2) from (Real.sqrt_sq (by norm_num)).symm]
    exact Real.sqrt_lt_sqrt (by norm_num) (by norm_num)
  have h2 : Real.sqrt (13 / 25) < 1 := by
    rw [show (1 : ℝ) = Real.sqrt 1 from Real.sqrt_one.symm]
    exact Real.sqrt_lt_sqrt (by norm_num) (by norm_num)
  refine ⟨⟨by norm_num [pLee], by norm_num [pLee], by norm_num [pLee]⟩, by simp only [jEx]; linarith, ?_, ?_⟩
  · simp only [jEx]; rw [abs_lt]; constructor <;> nlinarith
  · simp only [jEx, pLee]; rw [abs_lt]; constructor <;> linarith

/-- **`zeta`, imaginary part = Lee 54.17**: `λ = arg(cn u cn v + i dn u sn v) − e·arg(dn u cn v + i e cn u sn v)` … -/
theorem tmx_zeta_lam (p : Par ℝ) (j : Jac ℝ)
    (h1 : Real.sqrt (RealLike.sq j.cnu + p.mv * RealLike.sq (j.snu * j.snv)) ≠ 0)
    (h2 : Real.sqrt (p.mu * RealLike.sq j.cnu + p.mv * RealLike.sq j.cnv) ≠ 0) :
    (zeta p j).2 = Complex.arg ⟨j.cnu * j.cnv, j.dnu * j.snv⟩ - p.e * Complex.arg ⟨j.dnu * j.cnv, p.e * j.cnu * j.snv⟩ :=
  zeta_lam_lee p j h1 h2

/-- … and these two arguments are `Im atanh(sn w)` and `Im atanh(e sn w)`: `(1 + s)·conj(1 − s)·D = (…)²` with `D = 1 − dn²u sn²v`, for
    `s = sn w` and `s = e·sn w`; likewise `|1 + sn w|²(1 − x)² = |1 − sn w|²(1 + x)²`, `x = sn u dn v`, i.e. `Re atanh(sn w) = atanh(sn u dn v)` -/
theorem tmx_zeta_is_lee_complex (e mu : ℝ) (he : e ^ 2 = mu) (j : Jac ℝ) (hj : JacobiRel mu j) (hD : denW mu j ≠ 0) :
    (1 + snW mu j) * (starRingEnd ℂ) (1 - snW mu j) * (denW mu j : ℂ) = (⟨j.cnu * j.cnv, j.dnu * j.snv⟩ : ℂ) ^ 2 ∧
    (1 + (e : ℂ) * snW mu j) * (starRingEnd ℂ) (1 - (e : ℂ) * snW mu j) * (denW mu j : ℂ) = (⟨j.dnu * j.cnv, e * j.cnu * j.snv⟩ : ℂ) ^ 2 ∧
    Complex.normSq (1 + snW mu j) * (1 - j.snu * j.dnv) ^ 2 = Complex.normSq (1 - snW mu j) * (1 + j.snu * j.dnv) ^ 2 :=
  ⟨lee_atanh_im mu j hj hD, lee_atanh_e_im e mu he j hj hD, lee_atanh_re mu j hj hD⟩

/-- **`dwdzeta` = Lee 54.21 and `dwdsigma` = reciprocal of Lee 55.9**: the Newton Jacobians as coded are `cn w · dn w/(1 − e²)` and
    `dn² w/(1 − e²)` (identities of rational functions in the six values) -/
theorem tmx_jacobians (p : Par ℝ) (j : Jac ℝ) (hD : denW p.mu j ≠ 0) (hmv : p.mv ≠ 0) :
    (⟨(dwdzeta p j).1, (dwdzeta p j).2⟩ : ℂ) = cnW p.mu j * dnW p.mu j / (p.mv : ℂ) ∧
    (⟨(dwdsigma p j).1, (dwdsigma p j).2⟩ : ℂ) = dnW p.mu j ^ 2 / (p.mv : ℂ) :=
  ⟨dwdzeta_lee p j hD hmv, dwdsigma_lee p j hD hmv⟩

/-- the rewritings the comments of `sigma` and `Scale` announce (Lee 55.4, 55.13): `e² cn²u + (1 − e²) cn²v = dn²u + dn²v − 1` and
    `(1 − e²) sn²v + cn²u dn²v = 1 − sn²u dn²v` -/
theorem tmx_sigma_scale_rewrites (p : Par ℝ) (hp : ParOK p) (j : Jac ℝ) (hj : JacobiRel p.mu j) :
    p.mu * RealLike.sq j.cnu + p.mv * RealLike.sq j.cnv = j.dnu ^ 2 + j.dnv ^ 2 - 1 ∧
    p.mv * RealLike.sq j.snv + RealLike.sq (j.cnu * j.dnv) = 1 - j.snu ^ 2 * j.dnv ^ 2 :=
  sigma_scale_rewrites p hp j hj


/-! ## 7. the series kernel as coded (`TM.fwdKernel`, `TM.revKernel`, read at `ℝ`): the conformal map it is

`F(ζ) = ζ + Σ_j α_j sin 2jζ`, `G(ζ) = ζ − Σ_j β_j sin 2jζ` with `α_j = _alp[j]`, `β_j = _bet[j]` *as the constructor computes them* from the tables
extracted on this run (`alpOf f`, `nbetOf f`).  `ζ' = ξ' + iη'` are the Gauss–Schreiber coordinates as coded. -/
open GeoVerif.Proofs.TMSeries GeoVerif.Proofs.TMCoeff

/-- **(b) the second output of the complex Clenshaw pair is the complex derivative of the first**: `F'(ζ) = dF/dζ` — the pair the code uses for
    position and for convergence/scale is Cauchy–Riemann consistent, for every coefficient vector -/
theorem tm_kruger_derivative (cs : List ℝ) (ζ : ℂ) : HasDerivAt (krF cs) (krF' cs ζ) ζ := hasDerivAt_krF cs ζ

/-- **(a) Gauss–Schreiber step = spherical transverse Mercator relations** (Krüger (25)): `cos ξ' = cos λ/h`, `sin ξ' = τ'/h`, `sinh η' = sin λ/h`,
    `cosh η' = √(1 + τ'²)/h` (`h = hypot(τ', cos λ)`), hence `tan ξ' = τ'/cos λ`, `tanh η' = sin λ/√(1 + τ'²) = cos φ' sin λ` -/
theorem tm_gauss_schreiber (τ' slam clam : ℝ) (hsc : slam ^ 2 + clam ^ 2 = 1) (hh : 0 < τ' ^ 2 + clam ^ 2) :
    Real.cos (gsXi τ' clam) = clam / Real.sqrt (τ' ^ 2 + clam ^ 2) ∧ Real.sin (gsXi τ' clam) = τ' / Real.sqrt (τ' ^ 2 + clam ^ 2) ∧
    Real.sinh (gsEta τ' slam clam) = slam / Real.sqrt (τ' ^ 2 + clam ^ 2) ∧
    Real.cosh (gsEta τ' slam clam) = Real.sqrt (1 + τ' ^ 2) / Real.sqrt (τ' ^ 2 + clam ^ 2) ∧
    Real.tan (gsXi τ' clam) = τ' / clam ∧ Real.tanh (gsEta τ' slam clam) = slam / Real.sqrt (1 + τ' ^ 2) :=
  ⟨(gs_relations τ' slam clam hsc hh).1, (gs_relations τ' slam clam hsc hh).2.1, (gs_relations τ' slam clam hsc hh).2.2.1,
   (gs_relations τ' slam clam hsc hh).2.2.2, (gs_tan τ' slam clam hsc hh).1, (gs_tan τ' slam clam hsc hh).2⟩

example : (3 / 5 : ℝ) ^ 2 + (4 / 5) ^ 2 = 1 ∧ (0 : ℝ) < 2 ^ 2 + (4 / 5) ^ 2 := by norm_num

/-- **(a) … in closed form**: with `ψ = asinh τ'` the isometric latitude of the conformal sphere and `w = ψ + iλ` its Mercator coordinate,
    `sin ζ' = tanh w` and `cos ζ' · cosh w = 1`, i.e. `ζ' = gd(w)` (the transverse Mercator projection of the sphere); and the complex number whose
    `atan2` and `hypot` `Forward` forms for the Gauss–Schreiber convergence and scale is `cosh w = (dζ'/dw)⁻¹` -/
theorem tm_gauss_schreiber_sphere (τ' l : ℝ) (hh : 0 < τ' ^ 2 + Real.cos l ^ 2) :
    Complex.sin ⟨gsXi τ' (Real.cos l), gsEta τ' (Real.sin l) (Real.cos l)⟩ = Complex.tanh ⟨Real.arsinh τ', l⟩ ∧
    Complex.cos ⟨gsXi τ' (Real.cos l), gsEta τ' (Real.sin l) (Real.cos l)⟩ * Complex.cosh ⟨Real.arsinh τ', l⟩ = 1 ∧
    gamma0 τ' (Real.sin l) (Real.cos l) = Complex.arg (Complex.cosh ⟨Real.arsinh τ', l⟩) * (TM.deg : ℝ) ∧
    Real.sqrt (τ' ^ 2 + Real.cos l ^ 2) = ‖Complex.cosh ⟨Real.arsinh τ', l⟩‖ :=
  ⟨(gs_is_sphere_tm τ' l hh).1, (gs_is_sphere_tm τ' l hh).2, (gs_gamma_k τ' l).1, (gs_gamma_k τ' l).2⟩

example : (0 : ℝ) < 1 ^ 2 + Real.cos 0 ^ 2 := by norm_num

/-- **(b) … and `1/cosh w` is the derivative of the Gauss–Schreiber map**: every differentiable `Z` with `sin Z = tanh` near `w` and
    `cos Z(w)·cosh w = 1` (both hold for `ζ'` as coded, previous theorem) has `dZ/dw = 1/cosh w`; so `γ' = −arg(dζ'/dw)` (in degrees) and
    `k' = (√(1 − e² sin²φ)/cos φ)·|dζ'/dw|`, and with `tm_forward_kernel` the returned convergence and scale are `−arg` and `|·|` (times the
    scale of the Mercator coordinate `w`) of the derivative of the whole map `w ↦ ζ' ↦ ζ`, times `b1` -/
theorem tm_gauss_schreiber_derivative (Z : ℂ → ℂ) (w Z' : ℂ) (hZ : HasDerivAt Z Z' w)
    (hs : ∀ᶠ v in nhds w, Complex.sin (Z v) = Complex.tanh v) (hc : Complex.cos (Z w) * Complex.cosh w = 1) :
    Z' = 1 / Complex.cosh w :=
  gs_derivative Z w Z' hZ hs hc

/-- the hypotheses are the two identities `tm_gauss_schreiber_sphere` establishes for `ζ'` as coded at every real `(ψ, λ)`; an explicit differentiable
    complex branch `Z` is not constructed here (at `w = 0`, `Z(0) = 0`, the pointwise hypotheses read as below) -/
example : Complex.cos 0 * Complex.cosh 0 = 1 ∧ Complex.sin 0 = Complex.tanh 0 := by simp

/-- **(b) `Forward` (first quadrant, not the pole) as coded**: `ξ + iη = F(ζ')`, `γ = γ' − arg F'(ζ')` (degrees), `k = k'·b1·|F'(ζ')|`, with `γ'`, `k'`
    the Gauss–Schreiber values as coded — convergence and scale are the rotation and magnification of the composed map -/
theorem tm_forward_kernel (f lon sphi cphi slam clam : ℝ) :
    let τ' := taupOf f sphi cphi
    let ζ' : ℂ := ⟨gsXi τ' clam, gsEta τ' slam clam⟩
    let r := fwdKernel f false lon sphi cphi slam clam
    (⟨r.p, r.q⟩ : ℂ) = krF (alpOf f) ζ' ∧
    r.gamma = gamma0 τ' slam clam - Complex.arg (krF' (alpOf f) ζ') * (TM.deg : ℝ) ∧
    r.k = k0GS f sphi cphi τ' clam * (b1 (nOf f) * ‖krF' (alpOf f) ζ'‖) :=
  fwd_kernel_spec f lon sphi cphi slam clam

/-- **(b) `Reverse` (first quadrant) as coded**: `ζ' = G(ζ)`; off the pole image `lat = atan τ`, `τ = tauf(sin ξ'/r)`, `lon = atan2(sinh η', cos ξ')`,
    `γ = arg G'(ζ) + atan2(sin ξ' tanh η', cos ξ')`, `k = b1/|G'(ζ)|·k'`; at the pole image (`r = 0`) `lat = 90`, `k = b1/|G'|·_c` -/
theorem tm_reverse_kernel (f ξ η : ℝ) :
    let ζ : ℂ := ⟨ξ, η⟩
    let ζ' := krF (nbetOf f) ζ
    let r := revKernel f ξ η
    let s := Real.sinh ζ'.im
    let c := max 0 (Real.cos ζ'.re)
    let h := Real.sqrt (s ^ 2 + c ^ 2)
    (h ≠ 0 →
      let τ := tauf (Real.sin ζ'.re / h) (esOf f)
      r.p = Complex.arg ⟨1, τ⟩ * (TM.deg : ℝ) ∧ r.q = Complex.arg ⟨c, s⟩ * (TM.deg : ℝ) ∧
      r.gamma = Complex.arg (krF' (nbetOf f) ζ) * (TM.deg : ℝ) + Complex.arg ⟨c, Real.sin ζ'.re * (s / TM.cosh ζ'.im)⟩ * (TM.deg : ℝ) ∧
      r.k = b1 (nOf f) / ‖krF' (nbetOf f) ζ‖ *
        (Real.sqrt ((1 - e2Of f) + e2Of f / (1 + τ * τ)) * Real.sqrt (1 ^ 2 + τ ^ 2) * h)) ∧
    (h = 0 → r.p = 90 ∧ r.q = 0 ∧ r.gamma = Complex.arg (krF' (nbetOf f) ζ) * (TM.deg : ℝ) ∧ r.k = b1 (nOf f) / ‖krF' (nbetOf f) ζ‖ * cOf f) :=
  rev_kernel_spec f ξ η

/-- **(c) `Reverse` after `Forward` on the series step is the composition `G ∘ F`** (exactly, over `ℂ`, as coded): feeding the `(ξ, η)` returned by the
    Krüger step of `Forward` into the Krüger step of `Reverse` returns `G(F(ζ'))`.  That `G ∘ F` and `F ∘ G` are the identity modulo `n⁷` *as
    trigonometric series in `ζ'`* (all harmonics, Taylor substitution of the inner series) is what `alp_bet_revert` / `bet_alp_revert` certify on the
    extracted tables, for the polynomials whose values at `n` these coefficients are (`tm_coeffs_eval`); so `Reverse(Forward) = id + O(n⁷)` formally.
    Not proved: a bound of the `O(n⁷)` remainder over `ℝ` (the nanometre figures come from the oracle). -/
theorem tm_reverse_of_forward_series (f ξ' η' : ℝ) :
    let z := (kr (alpOf f) ξ' η').1
    toC (kr (nbetOf f) z.re z.im).1 = krF (nbetOf f) (krF (alpOf f) ⟨ξ', η'⟩) := by
  intro z
  rw [(kr_value (nbetOf f) z.re z.im).1, ← (kr_value (alpOf f) ξ' η').1]
  rfl

/-- **(d) `η = 0 ⇔ λ = 0`** (first quadrant, not the pole), wherever the derivative series `Σ_j 2j|α_j| cosh 2jη'` stays below 1 -/
theorem tm_eta_zero_iff (f lon sphi cphi slam clam : ℝ) (hh : 0 < (taupOf f sphi cphi) ^ 2 + clam ^ 2)
    (hs : absD (gsEta (taupOf f sphi cphi) slam clam) 0 (alpOf f) < 1) :
    (fwdKernel f false lon sphi cphi slam clam).q = 0 ↔ slam = 0 :=
  fwd_eta_zero_iff f lon sphi cphi slam clam hh hs

/-- non-vacuity: on the sphere (`f = 0`) every `α_j` the constructor computes is `0`, the derivative series vanishes, and the hypotheses hold -/
example (η : ℝ) : (0 : ℝ) < (taupOf 0 0 1) ^ 2 + 1 ^ 2 ∧ absD η 0 (alpOf 0) < 1 := by
  refine ⟨by positivity, ?_⟩
  have h0 : nOf (0 : ℝ) = 0 := by simp [nOf]
  have : alpOf 0 = List.replicate TM.N 0 := by unfold alpOf; rw [h0]; exact coeffs_zero _
  rw [this]
  have hz : ∀ (m k : ℕ), absD η k (List.replicate m 0) = 0 := by
    intro m; induction m with
    | zero => intro k; rfl
    | succ m ih => intro k; simp [List.replicate_succ, absD, ih]
  rw [hz]; norm_num

/-- **(d) central meridian**: `η = 0` and `ξ = χ + Σ_j α_j sin 2jχ`, `χ = atan τ'` the conformal latitude, so `y = k0·a·b1·(χ + Σ α_j sin 2jχ)`
    (`_a1 = a·b1`, wrapper theorem `tm_forward_canonical`); where `dξ/dχ = 1 + Σ 2jα_j cos 2jχ ≥ 0` also `γ = 0` and `k = k'·b1·dξ/dχ` -/
theorem tm_central_meridian (f lon sphi cphi : ℝ) :
    let τ' := taupOf f sphi cphi
    let χ := Real.arctan τ'
    let r := fwdKernel f false lon sphi cphi 0 1
    r.q = 0 ∧ r.p = χ + sinSeries χ 0 (alpOf f) ∧
    (0 ≤ 1 + dcosSeries χ 0 (alpOf f) →
      r.gamma = 0 ∧ r.k = k0GS f sphi cphi τ' 1 * (b1 (nOf f) * (1 + dcosSeries χ 0 (alpOf f)))) :=
  fwd_central_meridian f lon sphi cphi

/-- **`_alp[l]`, `_bet[l]` as computed are the values at `n` of the certified polynomials**: for every table, `l = i + 1 ≤ N` and real `n`,
    `(coeffs tbl n)[i] = ev (blockPoly tbl (i + 1)) n`, `blockPoly` = the truncated power series of the certificates (`tmBlock`) -/
theorem tm_coeffs_eval (tbl : List Rat) (n : ℝ) (i : ℕ) (hi : i < TM.N) :
    (coeffs tbl n).getD i 0 = ev (blockPoly tbl (i + 1)) n ∧ blockPoly tbl (i + 1) = tmBlock tbl (i + 1) :=
  ⟨coeffs_eval tbl n i hi, rfl⟩

example : (0 : ℕ) < TM.N := by decide

/-- *Gen* — the polynomials of `alpcoeff` / `−betcoeff` **are** (as coefficient lists) the `μ ← χ` / `χ ← μ` polynomials decoded from the
    `AuxLatitude` table (both extracted from the source on this run) -/
theorem alp_is_aux_list :
    (∀ i, i < TM.N → tmBlock Gen.TMSeries.alpcoeff (i + 1) = (AuxDecode.block Gen.AuxSeries.RECTIFYING Gen.AuxSeries.CONFORMAL).getD i []) ∧
    (∀ i, i < TM.N → Poly.smul (-1) (tmBlock Gen.TMSeries.betcoeff (i + 1)) = (AuxDecode.block Gen.AuxSeries.CONFORMAL Gen.AuxSeries.RECTIFYING).getD i []) := by
  decide +kernel

/-- **(d) the northing on the central meridian is the rectifying-latitude series certified in C15** (*Gen*): the coefficients `α_j` in
    `ξ = χ + Σ α_j sin 2jχ` (`tm_central_meridian`) are the values at `n = f/(2 − f)` of the `μ ← χ` polynomials of `AuxLatitude.cpp`, which the C15
    obligations (`chi_ode`, `mu_beta_table`, `aux_revert`, `aux_compose_partial`) tie to the defining relations of the conformal and rectifying
    latitudes modulo `n⁷`; hence `y/k0 = a·b1·μ(χ)` in the series sense, `a·b1·π/2` being the quarter meridian (`b1_table`) -/
theorem tm_central_meridian_is_rectifying (f : ℝ) (i : ℕ) (hi : i < TM.N) :
    (alpOf f).getD i 0 = ev ((AuxDecode.block Gen.AuxSeries.RECTIFYING Gen.AuxSeries.CONFORMAL).getD i []) (nOf f) := by
  rw [← alp_is_aux_list.1 i hi]
  exact coeffs_eval Gen.TMSeries.alpcoeff (nOf f) i hi

end GeoVerif.Props.C06
