import GeoVerif.Model.UTMUPS
import Mathlib.Tactic.SplitIfs
import Mathlib.Tactic.IntervalCases
/-! # C04 — property theorems (UTM/UPS discrete rules) -/
namespace GeoVerif.Props.C04
open GeoVerif GeoVerif.UTMUPS Gen.UTM

theorem s6 : (6 : Int).sign = 1 := by decide
theorem s8 : (8 : Int).sign = 1 := by decide
theorem s12 : (12 : Int).sign = 1 := by decide

/-! ### the zone rule on integer degrees -/

/-- zones are always in 1..60 -/
theorem zone_range (band ilon : Int) (h : -180 ≤ ilon ∧ ilon ≤ 180) :
    1 ≤ utmZoneI band ilon ∧ utmZoneI band ilon ≤ 60 := by
  unfold utmZoneI
  simp only [Gen.MathC.hd, Int.tdiv_eq_ediv, s6, s12]
  split_ifs <;> omega

/-- away from the exceptions the zone is the standard 6° zone `⌊(L+180)/6⌋ + 1` -/
theorem zone_standard (band ilon : Int) (h : -180 ≤ ilon ∧ ilon < 180)
    (hN : ¬ (band = 7 ∧ 3 ≤ ilon ∧ ilon < 6)) (hS : ¬ (band = 9 ∧ 0 ≤ ilon ∧ ilon < 42)) :
    utmZoneI band ilon = (ilon + 180) / 6 + 1 := by
  unfold utmZoneI
  simp only [Gen.MathC.hd, Int.tdiv_eq_ediv, s6, s12]
  split_ifs <;> omega

/-- Norway: band V, 3° ≤ L < 6° goes to zone 32 -/
theorem zone_norway (ilon : Int) (h : 3 ≤ ilon ∧ ilon < 6) : utmZoneI 7 ilon = 32 := by
  obtain ⟨h1, h2⟩ := h
  interval_cases ilon <;> rfl

/-- Svalbard: band X, 0° ≤ L < 42° goes to 31, 33, 35, 37 with the 9/21/33 boundaries -/
theorem zone_svalbard (ilon : Int) (h : 0 ≤ ilon ∧ ilon < 42) :
    utmZoneI 9 ilon = (if ilon < 9 then 31 else if ilon < 21 then 33 else if ilon < 33 then 35 else 37) := by
  obtain ⟨h1, h2⟩ := h
  interval_cases ilon <;> rfl

/-- latitude bands: 8° bands from −80, band X (index 9) extends from 72 to 84 and beyond; clamped to −10..9 -/
theorem band_spec (ilat : Int) (h : -80 ≤ ilat ∧ ilat < 72) : latitudeBandI ilat = (ilat + 80) / 8 - 10 := by
  unfold latitudeBandI
  simp only [Int.tdiv_eq_ediv, s8]
  split_ifs <;> omega
theorem band_X (ilat : Int) (h : 72 ≤ ilat) : latitudeBandI ilat = 9 := by
  unfold latitudeBandI
  simp only [Int.tdiv_eq_ediv, s8]
  split_ifs <;> omega
theorem band_C (ilat : Int) (h : ilat < -72) : latitudeBandI ilat = -10 := by
  unfold latitudeBandI
  simp only [Int.tdiv_eq_ediv, s8]
  split_ifs <;> omega

/-! ### range tables (regenerated from the source) -/

/-- the eight tables evaluate to the documented rectangles and false origins; index = 2·utm + north -/
theorem range_tables :
    utm_falseeasting = [2000000, 2000000, 500000, 500000] ∧
    utm_falsenorthing = [2000000, 2000000, 10000000, 0] ∧
    utm_mineasting = [800000, 1300000, 100000, 100000] ∧
    utm_maxeasting = [3200000, 2700000, 900000, 900000] ∧
    utm_minnorthing = [800000, 1300000, 1000000, -9000000] ∧
    utm_maxnorthing = [3200000, 2700000, 19500000, 9500000] ∧
    mgrs_utmNshift = 10000000 ∧ mgrs_tile = 100000 := by decide

/-- zone constants -/
theorem zone_consts : zINVALID = -4 ∧ zMATCH = -3 ∧ zUTM = -2 ∧ zSTANDARD = -1 ∧ zUPS = 0 ∧ zMINUTMZONE = 1 ∧ zMAXUTMZONE = 60 ∧
    zMINPSEUDOZONE = -4 ∧ zMAXZONE = 60 ∧ zMINZONE = 0 := by decide

/-! ### zone strings -/

/-- `DecodeZone (EncodeZone z n abbrev) = (z, n)` for every zone 0..60, both hemispheres, both styles -/
theorem zone_string_roundtrip :
    ∀ z ∈ List.range 61, ∀ n ∈ [true, false], ∀ a ∈ [true, false],
      (match encodeZone z n a with
       | .ok s => (match decodeZone s with | .ok (z', n') => decide (z' = z ∧ n' = n) | .error _ => false)
       | .error _ => false) = true := by decide +kernel

/-- the INVALID zone round-trips (hemisphere is reported as south) -/
theorem zone_string_invalid :
    ∀ n ∈ [true, false], ∀ a ∈ [true, false],
      (match encodeZone zINVALID n a with
       | .ok s => (match decodeZone s with | .ok (z', n') => decide (z' = zINVALID ∧ n' = false) | .error _ => false)
       | .error _ => false) = true := by decide

/-- "0n"-style strings, signs, three digits and out-of-range zones are rejected -/
theorem zone_string_rejects :
    ∀ s ∈ ["0n", "00s", "+5n", "-5n", "005n", "61n", "99s", "5", "5x", "n5", "", "5nn", " 5n", "12345678"],
      (match decodeZone (bytesOf s) with | .ok _ => false | .error _ => true) = true := by decide

/-! ### EPSG -/

/-- closed form of `DecodeEPSG` with the constants read from the source -/
theorem epsg_decode_spec (e : Int) :
    decodeEPSG e =
      if 32601 ≤ e ∧ e ≤ 32660 then (e - 32600, true)
      else if e = 32661 then (0, true)
      else if 32701 ≤ e ∧ e ≤ 32760 then (e - 32700, false)
      else if e = 32761 then (0, false) else (-4, false) := by
  unfold decodeEPSG
  simp only [epsg01N, epsg60N, epsgN, epsg01S, epsg60S, epsgS, zUPS, zMINUTMZONE, zINVALID, ge_iff_le]
  split_ifs <;> first | rfl | (simp only [Prod.mk.injEq, and_true]; omega) | (exfalso; omega) | simp_all

theorem epsg_encode_spec (z : Int) (n : Bool) :
    encodeEPSG z n = if z = 0 then (if n then 32661 else 32761)
      else if 1 ≤ z ∧ z ≤ 60 then (if n then z + 32600 else z + 32700) else -1 := by
  unfold encodeEPSG
  simp only [epsgN, epsg01S, epsgS, zUPS, zMINUTMZONE, zMAXUTMZONE, ge_iff_le]
  cases n <;> simp <;> split_ifs <;> omega

theorem epsg_roundtrip_inv (e z : Int) (n : Bool) (hd : decodeEPSG e = (z, n)) (h : z ≠ -4) : encodeEPSG z n = e := by
  rw [epsg_decode_spec] at hd
  rw [epsg_encode_spec]
  split_ifs at hd <;> simp only [Prod.mk.injEq] at hd <;> obtain ⟨rfl, rfl⟩ := hd <;> simp <;> (try split_ifs) <;> (try omega)

theorem epsg_invalid (e : Int) (h : e < 32601 ∨ (32661 < e ∧ e < 32701) ∨ 32761 < e) : decodeEPSG e = (-4, false) := by
  rw [epsg_decode_spec]
  split_ifs <;> first | rfl | (exfalso; omega)

theorem epsg_roundtrip (z : Int) (n : Bool) (h : 0 ≤ z ∧ z ≤ 60) : decodeEPSG (encodeEPSG z n) = (z, n) := by
  rw [epsg_encode_spec, epsg_decode_spec]
  cases n <;> split_ifs <;> first | (simp only [Prod.mk.injEq, and_true]; omega) | (exfalso; omega) | simp_all

/-- same-zone transfer only shifts the northing by ±10 000 km on a hemisphere change, and UPS cannot change hemisphere -/
theorem transfer_same_ups (np : Bool) (x y : F64) : (transferSameZone 0 np x y (!np)).toOption = none := by
  cases np <;> simp [transferSameZone, Except.toOption]

end GeoVerif.Props.C04
