import GeoVerif.Model.UTMUPS
import GeoVerif.Props.C16
import GeoVerif.Proofs.F64Val
import GeoVerif.Proofs.F64Round
import Mathlib.Tactic.SplitIfs
import Mathlib.Tactic.IntervalCases
import Mathlib.Tactic.Linarith
import Mathlib.Algebra.Order.Floor.Ring
import Mathlib.Data.Rat.Floor
/-! # C04 — property theorems (UTM/UPS discrete rules) -/
namespace GeoVerif.Props.C04
open GeoVerif GeoVerif.UTMUPS Gen.UTM

theorem s6 : (6 : Int).sign = 1 := by decide
theorem s8 : (8 : Int).sign = 1 := by decide
theorem s12 : (12 : Int).sign = 1 := by decide

/-! ### the zone rule on integer degrees -/

/-- zones are always in 1..60 -/
theorem zone_range (band ilon : Int) (h : -180 ≤ ilon ∧ ilon ≤ 180) :
    1 ≤ utmZoneI band ilon ∧ utmZoneI band ilon ≤ 60 := by
  unfold utmZoneI
  simp only [Gen.MathC.hd, Int.tdiv_eq_ediv, s6, s12]
  split_ifs <;> omega

/-- away from the exceptions the zone is the standard 6° zone `⌊(L+180)/6⌋ + 1` -/
theorem zone_standard (band ilon : Int) (h : -180 ≤ ilon ∧ ilon < 180)
    (hN : ¬ (band = 7 ∧ 3 ≤ ilon ∧ ilon < 6)) (hS : ¬ (band = 9 ∧ 0 ≤ ilon ∧ ilon < 42)) :
    utmZoneI band ilon = (ilon + 180) / 6 + 1 := by
  unfold utmZoneI
  simp only [Gen.MathC.hd, Int.tdiv_eq_ediv, s6, s12]
  split_ifs <;> omega

/-- Norway: band V, 3° ≤ L < 6° goes to zone 32 -/
theorem zone_norway (ilon : Int) (h : 3 ≤ ilon ∧ ilon < 6) : utmZoneI 7 ilon = 32 := by
  obtain ⟨h1, h2⟩ := h
  interval_cases ilon <;> rfl

/-- Svalbard: band X, 0° ≤ L < 42° goes to 31, 33, 35, 37 with the 9/21/33 boundaries -/
theorem zone_svalbard (ilon : Int) (h : 0 ≤ ilon ∧ ilon < 42) :
    utmZoneI 9 ilon = (if ilon < 9 then 31 else if ilon < 21 then 33 else if ilon < 33 then 35 else 37) := by
  obtain ⟨h1, h2⟩ := h
  interval_cases ilon <;> rfl

/-- latitude bands: 8° bands from −80, band X (index 9) extends from 72 to 84 and beyond; clamped to −10..9 -/
theorem band_spec (ilat : Int) (h : -80 ≤ ilat ∧ ilat < 72) : latitudeBandI ilat = (ilat + 80) / 8 - 10 := by
  unfold latitudeBandI
  simp only [Int.tdiv_eq_ediv, s8]
  split_ifs <;> omega
theorem band_X (ilat : Int) (h : 72 ≤ ilat) : latitudeBandI ilat = 9 := by
  unfold latitudeBandI
  simp only [Int.tdiv_eq_ediv, s8]
  split_ifs <;> omega
theorem band_C (ilat : Int) (h : ilat < -72) : latitudeBandI ilat = -10 := by
  unfold latitudeBandI
  simp only [Int.tdiv_eq_ediv, s8]
  split_ifs <;> omega

/-! ### range tables (regenerated from the source) -/

/-- the eight tables evaluate to the documented rectangles and false origins; index = 2·utm + north -/
theorem range_tables :
    utm_falseeasting = [2000000, 2000000, 500000, 500000] ∧
    utm_falsenorthing = [2000000, 2000000, 10000000, 0] ∧
    utm_mineasting = [800000, 1300000, 100000, 100000] ∧
    utm_maxeasting = [3200000, 2700000, 900000, 900000] ∧
    utm_minnorthing = [800000, 1300000, 1000000, -9000000] ∧
    utm_maxnorthing = [3200000, 2700000, 19500000, 9500000] ∧
    mgrs_utmNshift = 10000000 ∧ mgrs_tile = 100000 := by decide

/-- zone constants -/
theorem zone_consts : zINVALID = -4 ∧ zMATCH = -3 ∧ zUTM = -2 ∧ zSTANDARD = -1 ∧ zUPS = 0 ∧ zMINUTMZONE = 1 ∧ zMAXUTMZONE = 60 ∧
    zMINPSEUDOZONE = -4 ∧ zMAXZONE = 60 ∧ zMINZONE = 0 := by decide

/-! ### zone strings -/

/-- `DecodeZone (EncodeZone z n abbrev) = (z, n)` for every zone 0..60, both hemispheres, both styles -/
theorem zone_string_roundtrip :
    ∀ z ∈ List.range 61, ∀ n ∈ [true, false], ∀ a ∈ [true, false],
      (match encodeZone z n a with
       | .ok s => (match decodeZone s with | .ok (z', n') => decide (z' = z ∧ n' = n) | .error _ => false)
       | .error _ => false) = true := by decide +kernel

/-- the INVALID zone round-trips (hemisphere is reported as south) -/
theorem zone_string_invalid :
    ∀ n ∈ [true, false], ∀ a ∈ [true, false],
      (match encodeZone zINVALID n a with
       | .ok s => (match decodeZone s with | .ok (z', n') => decide (z' = zINVALID ∧ n' = false) | .error _ => false)
       | .error _ => false) = true := by decide

/-- "0n"-style strings, signs, three digits and out-of-range zones are rejected -/
theorem zone_string_rejects :
    ∀ s ∈ ["0n", "00s", "+5n", "-5n", "005n", "61n", "99s", "5", "5x", "n5", "", "5nn", " 5n", "12345678"],
      (match decodeZone (bytesOf s) with | .ok _ => false | .error _ => true) = true := by decide

/-! ### EPSG -/

/-- closed form of `DecodeEPSG` with the constants read from the source -/
theorem epsg_decode_spec (e : Int) :
    decodeEPSG e =
      if 32601 ≤ e ∧ e ≤ 32660 then (e - 32600, true)
      else if e = 32661 then (0, true)
      else if 32701 ≤ e ∧ e ≤ 32760 then (e - 32700, false)
      else if e = 32761 then (0, false) else (-4, false) := by
  unfold decodeEPSG
  simp only [epsg01N, epsg60N, epsgN, epsg01S, epsg60S, epsgS, zUPS, zMINUTMZONE, zINVALID, ge_iff_le]
  split_ifs <;> first | rfl | (simp only [Prod.mk.injEq, and_true]; omega) | (exfalso; omega) | simp_all

theorem epsg_encode_spec (z : Int) (n : Bool) :
    encodeEPSG z n = if z = 0 then (if n then 32661 else 32761)
      else if 1 ≤ z ∧ z ≤ 60 then (if n then z + 32600 else z + 32700) else -1 := by
  unfold encodeEPSG
  simp only [epsgN, epsg01S, epsgS, zUPS, zMINUTMZONE, zMAXUTMZONE, ge_iff_le]
  cases n <;> simp <;> split_ifs <;> omega

theorem epsg_roundtrip_inv (e z : Int) (n : Bool) (hd : decodeEPSG e = (z, n)) (h : z ≠ -4) : encodeEPSG z n = e := by
  rw [epsg_decode_spec] at hd
  rw [epsg_encode_spec]
  split_ifs at hd <;> simp only [Prod.mk.injEq] at hd <;> obtain ⟨rfl, rfl⟩ := hd <;> simp <;> (try split_ifs) <;> (try omega)

theorem epsg_invalid (e : Int) (h : e < 32601 ∨ (32661 < e ∧ e < 32701) ∨ 32761 < e) : decodeEPSG e = (-4, false) := by
  rw [epsg_decode_spec]
  split_ifs <;> first | rfl | (exfalso; omega)

theorem epsg_roundtrip (z : Int) (n : Bool) (h : 0 ≤ z ∧ z ≤ 60) : decodeEPSG (encodeEPSG z n) = (z, n) := by
  rw [epsg_encode_spec, epsg_decode_spec]
  cases n <;> split_ifs <;> first | (simp only [Prod.mk.injEq, and_true]; omega) | (exfalso; omega) | simp_all

/-- same-zone transfer only shifts the northing by ±10 000 km on a hemisphere change, and UPS cannot change hemisphere -/
theorem transfer_same_ups (np : Bool) (x y : F64) : (transferSameZone 0 np x y (!np)).toOption = none := by
  cases np <;> simp [transferSameZone, Except.toOption]

/-! ### `CheckCoords` over the value semantics -/

theorem val_ofInt (n : ℤ) : (F64.ofInt n).val = n := by
  unfold F64.ofInt F64.val; rw [F64.toDy_ofDy]; simp [Dy.val]

theorem ofInt_fin (n : ℤ) : F64.ofInt n = F64.fin (decide (n < 0)) n.natAbs 0 := rfl

/-- `x < n` in binary64 (false for NaN) -/
theorem lt_ofInt (x : F64) (n : ℤ) :
    F64.lt x (F64.ofInt n) = true ↔ x = F64.inf true ∨ (x.isFinite = true ∧ x.val < n) := by
  rw [ofInt_fin]
  cases x with
  | nan => simp [F64.lt, F64.isFinite]
  | inf s => cases s <;> simp [F64.lt, F64.isFinite]
  | fin s m e =>
    have : F64.lt (F64.fin s m e) (F64.fin (decide (n < 0)) n.natAbs 0)
        = Dy.lt (F64.fin s m e).toDy (F64.fin (decide (n < 0)) n.natAbs 0).toDy := rfl
    rw [this, Dy.lt_iff, ← ofInt_fin]
    have h := val_ofInt n
    unfold F64.val at h
    rw [h]
    simp [F64.isFinite, F64.val]

theorem gt_ofInt (x : F64) (n : ℤ) :
    F64.gt x (F64.ofInt n) = true ↔ x = F64.inf false ∨ (x.isFinite = true ∧ (n:ℚ) < x.val) := by
  unfold F64.gt
  rw [ofInt_fin]
  cases x with
  | nan => simp [F64.lt, F64.isFinite]
  | inf s => cases s <;> simp [F64.lt, F64.isFinite]
  | fin s m e =>
    have : F64.lt (F64.fin (decide (n < 0)) n.natAbs 0) (F64.fin s m e)
        = Dy.lt (F64.fin (decide (n < 0)) n.natAbs 0).toDy (F64.fin s m e).toDy := rfl
    rw [this, Dy.lt_iff, ← ofInt_fin]
    have h := val_ofInt n
    unfold F64.val at h
    rw [h]
    simp [F64.isFinite, F64.val]

/-- a coordinate passes a closed-interval test of `CheckCoords`: NaN, or finite with `lo ≤ v ≤ hi` -/
def InRange (v : F64) (lo hi : ℤ) : Prop := v.isNaN = true ∨ (v.isFinite = true ∧ (lo:ℚ) ≤ v.val ∧ v.val ≤ hi)

theorem inRange_iff (v : F64) (lo hi : ℤ) :
    (!(F64.lt v (F64.ofInt lo) || F64.gt v (F64.ofInt hi))) = true ↔ InRange v lo hi := by
  rw [Bool.not_eq_true', Bool.or_eq_false_iff]
  rw [← Bool.not_eq_true, ← Bool.not_eq_true, lt_ofInt, gt_ofInt]
  unfold InRange
  cases v with
  | nan => simp [F64.isNaN, F64.isFinite]
  | inf s => cases s <;> simp [F64.isNaN, F64.isFinite]
  | fin s m e => simp [F64.isNaN, F64.isFinite]

/-- **`CheckCoords` accepts exactly the closed rectangles of the tables** (read from the source), widened by one MGRS
    tile (100 km) unless `mgrslimits`; NaN coordinates are accepted, infinities are not -/
theorem checkCoords_iff (utmp northp : Bool) (x y : F64) (mgrslimits : Bool) :
    checkCoords utmp northp x y mgrslimits = true ↔
      InRange x (utm_mineasting.getD (ind utmp northp) 0 - (if mgrslimits then 0 else mgrs_tile))
                (utm_maxeasting.getD (ind utmp northp) 0 + (if mgrslimits then 0 else mgrs_tile)) ∧
      InRange y (utm_minnorthing.getD (ind utmp northp) 0 - (if mgrslimits then 0 else mgrs_tile))
                (utm_maxnorthing.getD (ind utmp northp) 0 + (if mgrslimits then 0 else mgrs_tile)) := by
  unfold checkCoords
  simp only [Bool.and_eq_true]
  rw [inRange_iff, inRange_iff]

/-- the four rectangles with the numbers of the documentation (`s` = 100 km unless `mgrslimits`): UTM eastings
    [1, 9]·10⁵; northings north [−90, 95]·10⁵, south [10, 195]·10⁵; UPS north [13, 27]·10⁵, south [8, 32]·10⁵ in
    both coordinates -/
theorem checkCoords_rectangles (x y : F64) (mg : Bool) :
    (checkCoords true true x y mg = true ↔
      InRange x (100000 - (if mg then 0 else 100000)) (900000 + (if mg then 0 else 100000)) ∧
      InRange y (-9000000 - (if mg then 0 else 100000)) (9500000 + (if mg then 0 else 100000))) ∧
    (checkCoords true false x y mg = true ↔
      InRange x (100000 - (if mg then 0 else 100000)) (900000 + (if mg then 0 else 100000)) ∧
      InRange y (1000000 - (if mg then 0 else 100000)) (19500000 + (if mg then 0 else 100000))) ∧
    (checkCoords false true x y mg = true ↔
      InRange x (1300000 - (if mg then 0 else 100000)) (2700000 + (if mg then 0 else 100000)) ∧
      InRange y (1300000 - (if mg then 0 else 100000)) (2700000 + (if mg then 0 else 100000))) ∧
    (checkCoords false false x y mg = true ↔
      InRange x (800000 - (if mg then 0 else 100000)) (3200000 + (if mg then 0 else 100000)) ∧
      InRange y (800000 - (if mg then 0 else 100000)) (3200000 + (if mg then 0 else 100000))) := by
  refine ⟨?_, ?_, ?_, ?_⟩ <;> rw [checkCoords_iff] <;> rfl

/-- non-vacuity: the edges are accepted, one metre outside the widened rectangle is not, NaN is, +∞ is not -/
example : checkCoords true true (F64.ofInt 900000) (F64.ofInt (-9000000)) true = true ∧
    checkCoords true true (F64.ofInt 900001) (F64.ofInt 0) true = false ∧
    checkCoords true true (F64.ofInt 1000000) (F64.ofInt 0) false = true ∧
    checkCoords true true (F64.ofInt 1000001) (F64.ofInt 0) false = false ∧
    checkCoords false false F64.nan (F64.ofInt 800000) true = true ∧
    checkCoords false false (F64.inf false) (F64.ofInt 800000) true = false := by decide +kernel

/-! ### `Transfer` -/

/-- the northing shift applied when the hemisphere changes: ∓10 000 km (constant read from the source) -/
def nshift (northpout : Bool) : F64 := F64.ofInt (if northpout then -10000000 else 10000000)

/-- **same zone**: the easting and the zone are returned unchanged; the northing is unchanged, or shifted by exactly
    ∓10⁷ m when the hemisphere changes; UPS cannot change hemisphere.  The kernels are not consulted. -/
theorem transfer_same (zone : Int) (nin nout : Bool) (x y : F64)
    (rev : Int → Bool → F64 → F64 → Except Err (F64 × F64)) (fwd : F64 → F64 → Int → Except Err FwdOut) :
    transfer zone nin x y zone nout rev fwd =
      if zone = 0 ∧ nin ≠ nout then .error "UPS between hemispheres"
      else .ok (x, if nin ≠ nout then y + nshift nout else y, zone) := by
  unfold transfer transferSameZone nshift
  simp only [ne_eq, not_true_eq_false, if_false, mgrs_utmNshift]
  cases nout <;> rfl

/-- **different zones**: `Transfer` is `Forward ∘ Reverse` (for every pair of kernels) with the requested zone
    (`MATCH` = keep the input zone), followed by the hemisphere bookkeeping on *Forward's* hemisphere -/
theorem transfer_diff (zin zout : Int) (nin nout : Bool) (x y lat lon : F64) (o : FwdOut)
    (rev : Int → Bool → F64 → F64 → Except Err (F64 × F64)) (fwd : F64 → F64 → Int → Except Err FwdOut)
    (h : zin ≠ zout) (hr : rev zin nin x y = .ok (lat, lon))
    (hf : fwd lat lon (if zout = zMATCH then zin else zout) = .ok o) :
    transfer zin nin x y zout nout rev fwd =
      if o.zone = 0 ∧ o.northp ≠ nout then .error "UPS between hemispheres"
      else .ok (o.x, if o.northp ≠ nout then o.y + nshift nout else o.y, o.zone) := by
  unfold transfer nshift
  simp only [ne_eq, h, not_false_eq_true, if_true, mgrs_utmNshift]
  rw [hr]
  simp only [bind, Except.bind, hf]
  cases nout <;> split_ifs <;> rfl

/-- errors of the kernels propagate: nothing is returned when `Reverse` or `Forward` throws -/
theorem transfer_rev_error (zin zout : Int) (nin nout : Bool) (x y : F64) (e : Err)
    (rev : Int → Bool → F64 → F64 → Except Err (F64 × F64)) (fwd : F64 → F64 → Int → Except Err FwdOut)
    (h : zin ≠ zout) (hr : rev zin nin x y = .error e) :
    transfer zin nin x y zout nout rev fwd = .error e := by
  unfold transfer
  simp only [ne_eq, h, not_false_eq_true, if_true]
  rw [hr]; rfl

theorem transfer_fwd_error (zin zout : Int) (nin nout : Bool) (x y lat lon : F64) (e : Err)
    (rev : Int → Bool → F64 → F64 → Except Err (F64 × F64)) (fwd : F64 → F64 → Int → Except Err FwdOut)
    (h : zin ≠ zout) (hr : rev zin nin x y = .ok (lat, lon))
    (hf : fwd lat lon (if zout = zMATCH then zin else zout) = .error e) :
    transfer zin nin x y zout nout rev fwd = .error e := by
  unfold transfer
  simp only [ne_eq, h, not_false_eq_true, if_true]
  rw [hr]
  simp only [bind, Except.bind, hf]

/-- **`transfer_spec`**: a successful transfer never yields UPS coordinates labelled with the other hemisphere, and
    an UPS hemisphere change is always an error -/
theorem transfer_spec (zin zout : Int) (nin nout : Bool) (x y xo yo : F64) (zo : Int)
    (rev : Int → Bool → F64 → F64 → Except Err (F64 × F64)) (fwd : F64 → F64 → Int → Except Err FwdOut)
    (h : transfer zin nin x y zout nout rev fwd = .ok (xo, yo, zo)) :
    (zin = zout → zo = zin ∧ xo = x ∧ (zin = 0 → nin = nout) ∧ yo = (if nin ≠ nout then y + nshift nout else y)) ∧
    (zin ≠ zout → ∃ lat lon o, rev zin nin x y = .ok (lat, lon) ∧ fwd lat lon (if zout = zMATCH then zin else zout) = .ok o ∧
        zo = o.zone ∧ xo = o.x ∧ (o.zone = 0 → o.northp = nout) ∧
        yo = (if o.northp ≠ nout then o.y + nshift nout else o.y)) := by
  constructor
  · intro hz; subst hz
    rw [transfer_same] at h
    by_cases hc : zin = 0 ∧ nin ≠ nout
    · rw [if_pos hc] at h; cases h
    · rw [if_neg hc] at h
      simp only [Except.ok.injEq, Prod.mk.injEq] at h
      obtain ⟨rfl, rfl, rfl⟩ := h
      refine ⟨rfl, rfl, ?_, rfl⟩
      intro h0; by_contra hne; exact hc ⟨h0, hne⟩
  · intro hz
    cases hr : rev zin nin x y with
    | error e => rw [transfer_rev_error zin zout nin nout x y e rev fwd hz hr] at h; cases h
    | ok p =>
      obtain ⟨lat, lon⟩ := p
      cases hf : fwd lat lon (if zout = zMATCH then zin else zout) with
      | error e => rw [transfer_fwd_error zin zout nin nout x y lat lon e rev fwd hz hr hf] at h; cases h
      | ok o =>
        rw [transfer_diff zin zout nin nout x y lat lon o rev fwd hz hr hf] at h
        by_cases hc : o.zone = 0 ∧ o.northp ≠ nout
        · rw [if_pos hc] at h; cases h
        · rw [if_neg hc] at h
          simp only [Except.ok.injEq, Prod.mk.injEq] at h
          obtain ⟨rfl, rfl, rfl⟩ := h
          refine ⟨lat, lon, o, rfl, hf, rfl, rfl, ?_, rfl⟩
          intro h0; by_contra hne; exact hc ⟨h0, hne⟩

/-! ### `StandardZone` over real-valued latitude / longitude -/


/-- the integer part taken by `int(floor(x))` is the floor of the value -/
theorem fl_eq_floor (x : F64) : fl x = ⌊x.val⌋ := by
  unfold fl
  rw [F64.floor_toDy_floor]
  obtain ⟨h1, h2⟩ := Dy.floor_spec x.toDy
  symm; rw [Int.floor_eq_iff]; exact ⟨h1, h2⟩

theorem le_ofInt_left (n : ℤ) (s : Bool) (m : ℕ) (e : ℤ) :
    F64.le (F64.ofInt n) (F64.fin s m e) = true ↔ (n:ℚ) ≤ (F64.fin s m e).val := by
  rw [ofInt_fin]
  have : F64.le (F64.fin (decide (n < 0)) n.natAbs 0) (F64.fin s m e)
        = Dy.le (F64.fin (decide (n < 0)) n.natAbs 0).toDy (F64.fin s m e).toDy := rfl
  rw [this, Dy.le_iff, ← ofInt_fin]
  have h := val_ofInt n
  unfold F64.val at h
  rw [h]; rfl

theorem lt_ofInt_fin (n : ℤ) (s : Bool) (m : ℕ) (e : ℤ) :
    F64.lt (F64.fin s m e) (F64.ofInt n) = true ↔ (F64.fin s m e).val < n := by
  rw [ofInt_fin]
  have : F64.lt (F64.fin s m e) (F64.fin (decide (n < 0)) n.natAbs 0)
        = Dy.lt (F64.fin s m e).toDy (F64.fin (decide (n < 0)) n.natAbs 0).toDy := rfl
  rw [this, Dy.lt_iff, ← ofInt_fin]
  have h := val_ofInt n
  unfold F64.val at h
  rw [h]; rfl

theorem ofInt_lt_fin (n : ℤ) (s : Bool) (m : ℕ) (e : ℤ) :
    F64.lt (F64.ofInt n) (F64.fin s m e) = true ↔ (n:ℚ) < (F64.fin s m e).val := by
  rw [ofInt_fin]
  have : F64.lt (F64.fin (decide (n < 0)) n.natAbs 0) (F64.fin s m e)
        = Dy.lt (F64.fin (decide (n < 0)) n.natAbs 0).toDy (F64.fin s m e).toDy := rfl
  rw [this, Dy.lt_iff, ← ofInt_fin]
  have h := val_ofInt n
  unfold F64.val at h
  rw [h]; rfl

/-- the clamp to [−90, 90] in `LatitudeBand` does not change the value of a legal latitude -/
theorem clamp_val (s : Bool) (m : ℕ) (e : ℤ) (h1 : -90 ≤ (F64.fin s m e).val) (h2 : (F64.fin s m e).val ≤ 90) :
    (F64.fmax (F64.ofInt (-90)) (F64.fmin (F64.ofInt 90) (F64.fin s m e))).val = (F64.fin s m e).val := by
  have hz : (F64.fmin (F64.ofInt 90) (F64.fin s m e)) = F64.fin s m e ∨
      ((F64.fmin (F64.ofInt 90) (F64.fin s m e)) = F64.ofInt 90 ∧ (F64.fin s m e).val = 90) := by
    unfold F64.fmin
    have a : (F64.ofInt 90).isNaN = false := rfl
    have b : (F64.fin s m e).isNaN = false := rfl
    rw [a, b]; simp only [Bool.false_eq_true, if_false]
    by_cases hl : F64.lt (F64.fin s m e) (F64.ofInt 90) = true
    · rw [if_pos hl]; exact Or.inl rfl
    · rw [if_neg hl]; right; refine ⟨rfl, ?_⟩
      rw [lt_ofInt_fin] at hl; push_cast at hl; linarith
  rcases hz with hz | ⟨hz, hv⟩
  · rw [hz]
    unfold F64.fmax
    have a : (F64.ofInt (-90)).isNaN = false := rfl
    have b : (F64.fin s m e).isNaN = false := rfl
    rw [a, b]; simp only [Bool.false_eq_true, if_false]
    by_cases hl : F64.lt (F64.ofInt (-90)) (F64.fin s m e) = true
    · rw [if_pos hl]
    · rw [if_neg hl]
      rw [ofInt_lt_fin] at hl; push_cast at hl
      rw [val_ofInt]; push_cast; linarith
  · rw [hz, hv]
    have : F64.fmax (F64.ofInt (-90)) (F64.ofInt 90) = F64.ofInt 90 := by rfl
    rw [this, val_ofInt]; norm_num

/-- the zone rule on real latitude `φ` and normalised longitude `L ∈ [−180, 180)` (UTM part) -/
def zoneQ (φ L : ℚ) : ℤ :=
  if 56 ≤ φ ∧ φ < 64 ∧ 3 ≤ L ∧ L < 6 then 32
  else if 72 ≤ φ ∧ 0 ≤ L ∧ L < 42 then (if L < 9 then 31 else if L < 21 then 33 else if L < 33 then 35 else 37)
  else ⌊(L + 180) / 6⌋ + 1

theorem floor_div6 (L : ℚ) : ⌊(L + 180) / 6⌋ = (⌊L⌋ + 180) / 6 := by
  rw [Int.floor_eq_iff]
  have h1 := Int.floor_le L
  have h2 := Int.lt_floor_add_one L
  have h3 : 6 * ((⌊L⌋ + 180) / 6) ≤ ⌊L⌋ + 180 := by omega
  have h4 : ⌊L⌋ + 180 < 6 * ((⌊L⌋ + 180) / 6) + 6 := by omega
  have h3' : (6:ℚ) * (((⌊L⌋ + 180) / 6 : ℤ) : ℚ) ≤ (⌊L⌋ : ℚ) + 180 := by exact_mod_cast h3
  have h4' : (⌊L⌋ : ℚ) + 180 + 1 ≤ 6 * (((⌊L⌋ + 180) / 6 : ℤ) : ℚ) + 6 := by exact_mod_cast h4
  constructor
  · rw [le_div_iff₀ (by norm_num)]; linarith
  · rw [div_lt_iff₀ (by norm_num)]; linarith

/-- the integer zone rule of the code, applied to `⌊φ⌋` and `⌊N⌋`, is the real-valued rule (the code's special case
    `⌊N⌋ = 180 ↦ −180` is the normalisation of `N = 180` to `−180`) -/
theorem utmZone_eq (φ N : ℚ) (hφ : -90 ≤ φ ∧ φ ≤ 90) (hN : -180 ≤ N ∧ N ≤ 180) :
    utmZoneI (latitudeBandI ⌊φ⌋) ⌊N⌋ = zoneQ φ (if N = 180 then -180 else N) := by
  have hN180 : ⌊N⌋ = 180 ↔ N = 180 := by
    constructor
    · intro h
      have := Int.floor_le N; rw [h] at this; push_cast at this; linarith [hN.2]
    · intro h; rw [h]; norm_num
  set L : ℚ := if N = 180 then -180 else N with hL
  have hfl : ⌊L⌋ = if ⌊N⌋ = 180 then -180 else ⌊N⌋ := by
    rw [hL]; by_cases h : N = 180
    · rw [if_pos h, if_pos (hN180.mpr h)]; norm_num
    · rw [if_neg h, if_neg (fun hh => h (hN180.mp hh))]
  have b1 : -90 ≤ ⌊φ⌋ := by rw [Int.le_floor]; push_cast; exact hφ.1
  have b2 : ⌊φ⌋ ≤ 90 := by
    have : ⌊φ⌋ < 91 := by rw [Int.floor_lt]; push_cast; linarith [hφ.2]
    omega
  have c1 : -180 ≤ ⌊N⌋ := by rw [Int.le_floor]; push_cast; exact hN.1
  have c2 : ⌊N⌋ ≤ 180 := by
    have : ⌊N⌋ < 181 := by rw [Int.floor_lt]; push_cast; linarith [hN.2]
    omega
  have q (z : ℤ) (r : ℚ) : (z:ℚ) ≤ r ↔ z ≤ ⌊r⌋ := Int.le_floor.symm
  have p (z : ℤ) (r : ℚ) : r < (z:ℚ) ↔ ⌊r⌋ < z := Int.floor_lt.symm
  unfold zoneQ
  rw [floor_div6]
  have e1 : (56:ℚ) ≤ φ ↔ 56 ≤ ⌊φ⌋ := by exact_mod_cast q 56 φ
  have e2 : φ < (64:ℚ) ↔ ⌊φ⌋ < 64 := by exact_mod_cast p 64 φ
  have e3 : (72:ℚ) ≤ φ ↔ 72 ≤ ⌊φ⌋ := by exact_mod_cast q 72 φ
  have f1 : (3:ℚ) ≤ L ↔ 3 ≤ ⌊L⌋ := by exact_mod_cast q 3 L
  have f2 : L < (6:ℚ) ↔ ⌊L⌋ < 6 := by exact_mod_cast p 6 L
  have f3 : (0:ℚ) ≤ L ↔ 0 ≤ ⌊L⌋ := by exact_mod_cast q 0 L
  have f4 : L < (42:ℚ) ↔ ⌊L⌋ < 42 := by exact_mod_cast p 42 L
  have f5 : L < (9:ℚ) ↔ ⌊L⌋ < 9 := by exact_mod_cast p 9 L
  have f6 : L < (21:ℚ) ↔ ⌊L⌋ < 21 := by exact_mod_cast p 21 L
  have f7 : L < (33:ℚ) ↔ ⌊L⌋ < 33 := by exact_mod_cast p 33 L
  simp only [e1, e2, e3, f1, f2, f3, f4, f5, f6, f7, hfl]
  clear e1 e2 e3 f1 f2 f3 f4 f5 f6 f7 hfl hN180 q p
  generalize ⌊φ⌋ = ip at *
  generalize ⌊N⌋ = il at *
  unfold utmZoneI latitudeBandI
  simp only [Gen.MathC.hd, Int.tdiv_eq_ediv, s6, s8, s12]
  split_ifs <;> omega


theorem zoneQ_range (φ L : ℚ) (hL : -180 ≤ L ∧ L < 180) : 1 ≤ zoneQ φ L ∧ zoneQ φ L ≤ 60 := by
  unfold zoneQ
  rw [floor_div6]
  have c1 : -180 ≤ ⌊L⌋ := by rw [Int.le_floor]; push_cast; exact hL.1
  have c2 : ⌊L⌋ < 180 := by rw [Int.floor_lt]; push_cast; exact hL.2
  split_ifs <;> omega

/-- **`StandardZone` on real-valued coordinates** (`setzone` = STANDARD or MATCH): for every finite latitude in
    [−90, 90] and every finite longitude there is the normalised longitude `L ∈ [−180, 180)`, `L ≡ lon (mod 360)`
    exactly, such that the result is UPS (0) iff `lat < −80 ∨ lat ≥ 84`, and otherwise the 6° zone
    `⌊(L+180)/6⌋ + 1` with the Norway (band V, 3 ≤ L < 6 ↦ 32) and Svalbard (band X, 0 ≤ L < 42 ↦ 31/33/35/37 by the
    9/21/33 rule) exceptions — on the *values* of the binary64 arguments, not only on integer degrees -/
theorem standardZone_spec (slat slon : Bool) (mlat mlon : ℕ) (elat elon : ℤ) (sz : ℤ) (hsz : sz = zSTANDARD ∨ sz = zMATCH)
    (h1 : -90 ≤ (F64.fin slat mlat elat).val) (h2 : (F64.fin slat mlat elat).val ≤ 90) :
    ∃ L : ℚ, (-180 ≤ L ∧ L < 180) ∧ (∃ n : ℤ, L = (F64.fin slon mlon elon).val - 360 * n) ∧
      standardZone (F64.fin slat mlat elat) (F64.fin slon mlon elon) sz =
        .ok (if (F64.fin slat mlat elat).val < -80 ∨ 84 ≤ (F64.fin slat mlat elat).val then 0
             else zoneQ (F64.fin slat mlat elat).val L) := by
  obtain ⟨hfin, ⟨n, hn⟩, habs, _⟩ := C16.angNormalize_spec slon mlon elon
  set N := (MathF.angNormalize (F64.fin slon mlon elon)).val with hNdef
  have hN : -180 ≤ N ∧ N ≤ 180 := abs_le.mp habs
  refine ⟨if N = 180 then -180 else N, ?_, ?_, ?_⟩
  · by_cases h : N = 180
    · rw [if_pos h]; norm_num
    · rw [if_neg h]; exact ⟨hN.1, lt_of_le_of_ne hN.2 h⟩
  · by_cases h : N = 180
    · rw [if_pos h]; exact ⟨n + 1, by push_cast; linarith⟩
    · rw [if_neg h]; exact ⟨n, hn⟩
  · set lat := F64.fin slat mlat elat with hlat
    have hcond : (F64.ge lat (F64.ofInt (-80)) && F64.lt lat (F64.ofInt 84)) = true ↔ ¬ (lat.val < -80 ∨ 84 ≤ lat.val) := by
      rw [Bool.and_eq_true]
      unfold F64.ge
      rw [hlat, le_ofInt_left, lt_ofInt_fin]; push_cast
      constructor
      · rintro ⟨a, b⟩ (c | c) <;> linarith
      · intro h; push Not at h; exact ⟨h.1, h.2⟩
    have hband : latitudeBand lat = latitudeBandI ⌊lat.val⌋ := by
      unfold latitudeBand
      simp only [Gen.MathC.qd]
      rw [fl_eq_floor, hlat, clamp_val slat mlat elat h1 h2]
    have hz := utmZone_eq lat.val N ⟨h1, h2⟩ hN
    unfold standardZone
    have hfinb : (lat.isFinite && (F64.fin slon mlon elon).isFinite) = true := rfl
    rw [hfinb]
    rcases hsz with rfl | rfl
    · simp only [zSTANDARD, zMINPSEUDOZONE, zMAXZONE, zMINZONE, zINVALID, zUTM, zUPS]
      by_cases hc : (F64.ge lat (F64.ofInt (-80)) && F64.lt lat (F64.ofInt 84)) = true
      · have hc' := hcond.mp hc
        rw [if_neg hc', hband, fl_eq_floor, hz]
        simp [hc]
      · have hc' : (lat.val < -80 ∨ 84 ≤ lat.val) := by by_contra h; exact hc (hcond.mpr h)
        rw [if_pos hc']
        simp [hc]
    · simp only [zMATCH, zMINPSEUDOZONE, zMAXZONE, zMINZONE, zINVALID, zUTM, zUPS]
      by_cases hc : (F64.ge lat (F64.ofInt (-80)) && F64.lt lat (F64.ofInt 84)) = true
      · have hc' := hcond.mp hc
        rw [if_neg hc', hband, fl_eq_floor, hz]
        simp [hc]
      · have hc' : (lat.val < -80 ∨ 84 ≤ lat.val) := by by_contra h; exact hc (hcond.mpr h)
        rw [if_pos hc']
        simp [hc]

/-- `setzone = UTM` never gives UPS: the same rule without the polar cut (band X extends to the pole, band C to −90) -/
theorem standardZone_utm (slat slon : Bool) (mlat mlon : ℕ) (elat elon : ℤ)
    (h1 : -90 ≤ (F64.fin slat mlat elat).val) (h2 : (F64.fin slat mlat elat).val ≤ 90) :
    ∃ L : ℚ, (-180 ≤ L ∧ L < 180) ∧ (∃ n : ℤ, L = (F64.fin slon mlon elon).val - 360 * n) ∧
      standardZone (F64.fin slat mlat elat) (F64.fin slon mlon elon) zUTM = .ok (zoneQ (F64.fin slat mlat elat).val L) ∧
      1 ≤ zoneQ (F64.fin slat mlat elat).val L ∧ zoneQ (F64.fin slat mlat elat).val L ≤ 60 := by
  obtain ⟨hfin, ⟨n, hn⟩, habs, _⟩ := C16.angNormalize_spec slon mlon elon
  set N := (MathF.angNormalize (F64.fin slon mlon elon)).val with hNdef
  have hN : -180 ≤ N ∧ N ≤ 180 := abs_le.mp habs
  have hLr : -180 ≤ (if N = 180 then -180 else N) ∧ (if N = 180 then -180 else N) < 180 := by
    by_cases h : N = 180
    · rw [if_pos h]; norm_num
    · rw [if_neg h]; exact ⟨hN.1, lt_of_le_of_ne hN.2 h⟩
  refine ⟨if N = 180 then -180 else N, hLr, ?_, ?_, zoneQ_range _ _ hLr⟩
  · by_cases h : N = 180
    · rw [if_pos h]; exact ⟨n + 1, by push_cast; linarith⟩
    · rw [if_neg h]; exact ⟨n, hn⟩
  · set lat := F64.fin slat mlat elat with hlat
    have hband : latitudeBand lat = latitudeBandI ⌊lat.val⌋ := by
      unfold latitudeBand
      simp only [Gen.MathC.qd]
      rw [fl_eq_floor, hlat, clamp_val slat mlat elat h1 h2]
    have hz := utmZone_eq lat.val N ⟨h1, h2⟩ hN
    unfold standardZone
    have hfinb : (lat.isFinite && (F64.fin slon mlon elon).isFinite) = true := rfl
    rw [hfinb]
    simp only [zMINPSEUDOZONE, zMAXZONE, zMINZONE, zINVALID, zUTM]
    rw [hband, fl_eq_floor, hz]
    simp

/-- an explicit zone (0..60) or INVALID is returned as is; NaN or infinite coordinates give INVALID -/
theorem standardZone_explicit (lat lon : F64) (sz : ℤ) (h : (0 ≤ sz ∧ sz ≤ 60) ∨ sz = -4) :
    standardZone lat lon sz = .ok sz := by
  unfold standardZone
  simp only [zMINPSEUDOZONE, zMAXZONE, zMINZONE, zINVALID]
  have a : (sz ≥ -4 ∧ sz ≤ 60) := by omega
  have b : (sz ≥ 0 ∨ sz = -4) := by omega
  simp [a, b]

theorem standardZone_nonfinite (lat lon : F64) (sz : ℤ) (hsz : sz = -1 ∨ sz = -2 ∨ sz = -3)
    (h : lat.isFinite = false ∨ lon.isFinite = false) : standardZone lat lon sz = .ok (-4) := by
  unfold standardZone
  simp only [zMINPSEUDOZONE, zMAXZONE, zMINZONE, zINVALID]
  have a : (sz ≥ -4 ∧ sz ≤ 60) := by omega
  have b : ¬ (sz ≥ 0 ∨ sz = -4) := by omega
  have c : (lat.isFinite && lon.isFinite) = false := by rcases h with h | h <;> simp [h]
  simp [a, b, c]

/-- non-vacuity of `standardZone_spec` / `standardZone_utm`: (60.5°, 5.5°) is in the Norway window,
    (78°, 20.5° + 720°) in Svalbard's zone 33, (84°, 0°) is UPS, and zone 31 under `UTM` -/
example : standardZone (F64.fin false 121 (-1)) (F64.fin false 11 (-1)) (-1) = .ok 32 ∧
    standardZone (F64.fin false 78 0) (F64.fin false 1481 (-1)) (-1) = .ok 33 ∧
    standardZone (F64.fin false 84 0) (F64.fin false 0 0) (-1) = .ok 0 ∧
    standardZone (F64.fin false 84 0) (F64.fin false 0 0) (-2) = .ok 31 := by decide +kernel
example : -90 ≤ (F64.fin false 121 (-1)).val ∧ (F64.fin false 121 (-1)).val ≤ 90 := by
  rw [F64.val_fin]; norm_num


/-! ### every constant and table extracted into `Gen.UTM` is pinned to its documented value -/

/-- the MGRS tile constants of MGRS.hpp — "the source of the range tables" — have the documented values: 100 km tiles, UTM columns 1..9,
    southern rows 10..100, northern rows 0..95, UPS indices 8..32 (south) and 13..27 (north), false eastings 5 (UTM) and 20 (UPS) tiles,
    and the hemisphere shift `(maxutmSrow − minutmNrow)·tile = 10⁷` -/
theorem mgrs_constants_documented :
    mgrs_base = 10 ∧ mgrs_tilelevel = 5 ∧ mgrs_tile = 10 ^ 5 ∧ mgrs_minutmcol = 1 ∧ mgrs_maxutmcol = 9 ∧ mgrs_minutmSrow = 10 ∧
    mgrs_maxutmSrow = 100 ∧ mgrs_minutmNrow = 0 ∧ mgrs_maxutmNrow = 95 ∧ mgrs_minupsSind = 8 ∧ mgrs_maxupsSind = 32 ∧
    mgrs_minupsNind = 13 ∧ mgrs_maxupsNind = 27 ∧ mgrs_upseasting = 20 ∧ mgrs_utmeasting = 5 ∧
    mgrs_utmNshift = (mgrs_maxutmSrow - mgrs_minutmNrow) * mgrs_tile ∧ mgrs_utmNshift = 10 ^ 7 ∧ zMAXPSEUDOZONE = -1 := by decide

/-- the eight UTMUPS tables are the expressions of UTMUPS.cpp in those constants (index = 2·utm + north): false origins 20/20/5/5 tiles east,
    20/20/100/0 tiles north; limits from the UPS indices, the UTM columns and the UTM rows *continued across the equator* -/
theorem range_tables_from_constants :
    utm_falseeasting = [mgrs_upseasting * mgrs_tile, mgrs_upseasting * mgrs_tile, mgrs_utmeasting * mgrs_tile, mgrs_utmeasting * mgrs_tile] ∧
    utm_falsenorthing = [mgrs_upseasting * mgrs_tile, mgrs_upseasting * mgrs_tile, mgrs_maxutmSrow * mgrs_tile, mgrs_minutmNrow * mgrs_tile] ∧
    utm_mineasting = [mgrs_minupsSind * mgrs_tile, mgrs_minupsNind * mgrs_tile, mgrs_minutmcol * mgrs_tile, mgrs_minutmcol * mgrs_tile] ∧
    utm_maxeasting = [mgrs_maxupsSind * mgrs_tile, mgrs_maxupsNind * mgrs_tile, mgrs_maxutmcol * mgrs_tile, mgrs_maxutmcol * mgrs_tile] ∧
    utm_minnorthing = [mgrs_minupsSind * mgrs_tile, mgrs_minupsNind * mgrs_tile, mgrs_minutmSrow * mgrs_tile,
                       (mgrs_minutmNrow + mgrs_minutmSrow - mgrs_maxutmSrow) * mgrs_tile] ∧
    utm_maxnorthing = [mgrs_maxupsSind * mgrs_tile, mgrs_maxupsNind * mgrs_tile,
                       (mgrs_maxutmSrow + mgrs_maxutmNrow - mgrs_minutmNrow) * mgrs_tile, mgrs_maxutmNrow * mgrs_tile] := by decide

/-- the range tables of the two classes agree: UTMUPS's limits (with `mgrslimits`) are MGRS's tile limits times the tile size, so that
    "output of `UTMUPS::Forward(…, mgrslimits = true)` is legal input of `MGRS::Forward`" and vice versa -/
theorem range_tables_agree :
    utm_mineasting = mgrs_tbl_mineasting.map (· * mgrs_tile) ∧ utm_maxeasting = mgrs_tbl_maxeasting.map (· * mgrs_tile) ∧
    utm_minnorthing = mgrs_tbl_minnorthing.map (· * mgrs_tile) ∧ utm_maxnorthing = mgrs_tbl_maxnorthing.map (· * mgrs_tile) := by decide

/-- the continued ranges are the natural ones shifted by the hemisphere shift: a "northern" northing may go down to the southern minimum minus 10⁷,
    a "southern" one up to the northern maximum plus 10⁷ -/
theorem continued_ranges :
    utm_minnorthing.getD 3 0 = utm_minnorthing.getD 2 0 - mgrs_utmNshift ∧ utm_maxnorthing.getD 2 0 = utm_maxnorthing.getD 3 0 + mgrs_utmNshift := by decide

/-- `UTMUPS::UTMShift()` is exactly 10⁷ -/
theorem utmShift_documented : utmShift = F64.ofInt 10000000 ∧ utmShift.val = 10000000 := by
  refine ⟨rfl, ?_⟩
  show (F64.ofInt mgrs_utmNshift).val = _
  rw [val_ofInt]; rfl

/-- `EquatorialRadius()` is 6378137 exactly and `Flattening()` is the binary64 value of `1/(298257223563/10⁹)`: within 2⁻²⁰·10⁻⁹ relative of
    1/298.257223563 (evaluated exactly in dyadic arithmetic inside the kernel) -/
theorem wgs84_documented :
    wgs84a.val = 6378137 ∧
    Dy.le (Dy.abs (Dy.sub (Dy.mul wgs84f.toDy ⟨298257223563, 0⟩) ⟨1000000000, 0⟩)) ⟨1, -20⟩ = true := by
  refine ⟨?_, by decide +kernel⟩
  show (F64.ofInt 6378137).val = _
  rw [val_ofInt]; rfl

/-! ### GeoCoords: hemisphere bookkeeping and the alternate zone -/

/-- the label agrees with the latitude (the equator and NaN agree with both) — the test of `GeoCoords::FixHemisphere` -/
def labelAgrees (lat : F64) (northp : Bool) : Bool :=
  F64.eq lat 0 || (northp && F64.ge lat 0) || (!northp && F64.lt lat 0) || lat.isNaN

/-- **`FixHemisphere`**: an agreeing label leaves the object alone; a contradicting one is flipped and the northing shifted by exactly
    `UTMShift()` (+10⁷ from the northern label, −10⁷ from the southern) for UTM, and is an error for UPS; nothing else changes -/
theorem fixHemisphere_spec (s : GeoState) :
    fixHemisphere s =
      if labelAgrees s.lat s.northp then .ok s
      else if s.zone ≠ 0 then .ok { s with northing := s.northing + (if s.northp then utmShift else -utmShift), northp := !s.northp }
      else .error "Hemisphere mixup" := by
  unfold fixHemisphere labelAgrees
  rfl

/-- a non-NaN latitude is `≥ 0` or `< 0` -/
theorem ge_or_lt_zero (x : F64) (h : x.isNaN = false) : F64.ge x 0 = true ∨ F64.lt x 0 = true := by
  cases x with
  | nan => simp [F64.isNaN] at h
  | inf s => cases s <;> decide
  | fin s m e =>
    have z : (0 : F64) = F64.ofInt 0 := rfl
    rw [z]
    by_cases hv : (F64.fin s m e).val < 0
    · right; rw [lt_ofInt_fin]; exact_mod_cast hv
    · left; unfold F64.ge; rw [le_ofInt_left]; push_cast; exact not_lt.mp hv

/-- after `FixHemisphere` the label agrees with the latitude, and fixing again changes nothing -/
theorem fixHemisphere_agrees (s t : GeoState) (h : fixHemisphere s = .ok t) :
    labelAgrees t.lat t.northp = true ∧ fixHemisphere t = .ok t := by
  rw [fixHemisphere_spec] at h
  have key : labelAgrees t.lat t.northp = true := by
    by_cases ha : labelAgrees s.lat s.northp = true
    · rw [if_pos ha] at h; cases h; exact ha
    · rw [if_neg ha] at h
      by_cases hz : s.zone ≠ 0
      · rw [if_pos hz] at h
        cases h
        show labelAgrees s.lat (!s.northp) = true
        unfold labelAgrees at ha ⊢
        simp only [Bool.or_eq_true, Bool.and_eq_true, not_or] at ha
        obtain ⟨⟨⟨h0, h1⟩, h2⟩, h3⟩ := ha
        have hn : s.lat.isNaN = false := by simpa using h3
        rcases ge_or_lt_zero s.lat hn with hg | hl
        · cases hnp : s.northp
          · simp [hg]
          · exact absurd ⟨hnp, hg⟩ h1
        · cases hnp : s.northp
          · exact absurd ⟨by simp [hnp], hl⟩ h2
          · simp [hl]
      · rw [if_neg hz] at h; cases h
  exact ⟨key, by rw [fixHemisphere_spec, if_pos key]⟩

/-- the constructor from UTM/UPS coordinates keeps zone and easting, and keeps label and northing or flips/shifts them as `FixHemisphere` says;
    the geographic coordinates, convergence and scale are those of `UTMUPS::Reverse` (kernel), whose exception propagates -/
theorem resetUTM_spec (zone : Int) (northp : Bool) (x y lat lon g k : F64) :
    resetUTM zone northp x y (.ok (lat, lon, g, k)) = fixHemisphere ⟨zone, northp, x, y, g, k, lat, lon⟩ ∧
    ∀ e, resetUTM zone northp x y (.error e) = .error e := ⟨rfl, fun _ => rfl⟩

/-- `SetAltZone(MATCH)` leaves the alternate coordinates alone -/
theorem setAltZone_match (s : GeoState) (alt : AltState) (fwd : F64 → F64 → Int → Except Err FwdOut) :
    setAltZone s alt zMATCH fwd = .ok alt := by
  unfold setAltZone; simp

/-- **`SetAltZone`** for a zone request other than MATCH, around an arbitrary `UTMUPS::Forward`: the request is resolved by `StandardZone`
    at the object's (lat, lon) (its exception propagates); if that is the object's own zone the alternate coordinates are the coordinates;
    otherwise they are what `Forward(lat, lon, setzone = that zone)` returns (its exception propagates) -/
theorem setAltZone_spec (s : GeoState) (alt : AltState) (zone : Int) (hz : zone ≠ zMATCH) (fwd : F64 → F64 → Int → Except Err FwdOut) :
    setAltZone s alt zone fwd =
      match standardZone s.lat s.lon zone with
      | .error e => .error e
      | .ok z => if z = s.zone then .ok (copyToAlt s)
                 else match fwd s.lat s.lon z with
                      | .error e => .error e
                      | .ok o => .ok ⟨o.zone, o.x, altNorthing o.zone s.northp o.northp o.y, o.gamma, o.k⟩ := by
  unfold setAltZone
  rw [if_neg hz]
  cases hs : standardZone s.lat s.lon zone with
  | error e => rfl
  | ok z =>
    simp only [bind, Except.bind]
    by_cases h : z = s.zone
    · simp only [h, if_true]; rfl
    · simp only [h, if_false]
      cases fwd s.lat s.lon z <;> rfl

/-- **the alternate coordinates are those of `UTMUPS::Forward` at the same (lat, lon) with `setzone` = the alternate zone** — for every
    `Forward` kernel under which the object's own coordinates are `Forward`'s for its own zone (`hmain`: true of an object built from
    geographic coordinates; for one built from UTM/UPS coordinates it holds to the closure tolerance only, which is what the harness checks).
    Zone, easting, convergence and scale are `Forward`'s; the northing is `Forward`'s re-expressed under the hemisphere label of the object
    (`altNorthing`: shifted by ∓10⁷ when `Forward`'s label differs, which happens only on the equator; since fix 46b5aee). -/
theorem setAltZone_is_forward (s : GeoState) (alt a : AltState) (zone : Int) (hz : zone ≠ zMATCH)
    (fwd : F64 → F64 → Int → Except Err FwdOut)
    (hmain : fwd s.lat s.lon s.zone = .ok ⟨s.zone, s.northp, s.easting, s.northing, s.gamma, s.k⟩)
    (h : setAltZone s alt zone fwd = .ok a) :
    ∃ z o, standardZone s.lat s.lon zone = .ok z ∧ fwd s.lat s.lon z = .ok o ∧
      a = ⟨o.zone, o.x, altNorthing o.zone s.northp o.northp o.y, o.gamma, o.k⟩ := by
  rw [setAltZone_spec s alt zone hz fwd] at h
  cases hs : standardZone s.lat s.lon zone with
  | error e => rw [hs] at h; cases h
  | ok z =>
    rw [hs] at h
    simp only at h
    by_cases hzz : z = s.zone
    · rw [if_pos hzz] at h
      cases h
      refine ⟨z, _, rfl, by rw [hzz]; exact hmain, ?_⟩
      simp [copyToAlt, altNorthing]
    · rw [if_neg hzz] at h
      cases hf : fwd s.lat s.lon z with
      | error e => rw [hf] at h; cases h
      | ok o => rw [hf] at h; cases h; exact ⟨z, o, rfl, hf, rfl⟩

/-- the zone the alternate coordinates are expressed in is the one the request selects: the requested zone itself when it is 0..60, the standard
    zone of the point for STANDARD, the UTM zone for UTM (never UPS) — combine with `standardZone_spec` / `standardZone_utm` / `standardZone_explicit` -/
theorem setAltZone_zone (s : GeoState) (alt a : AltState) (zone z : Int) (hz : zone ≠ zMATCH)
    (fwd : F64 → F64 → Int → Except Err FwdOut)
    (hfz : ∀ lat lon zz o, fwd lat lon zz = .ok o → 0 ≤ zz → o.zone = zz)
    (hs : standardZone s.lat s.lon zone = .ok z) (hz0 : 0 ≤ z)
    (h : setAltZone s alt zone fwd = .ok a) : a.zone = z := by
  rw [setAltZone_spec s alt zone hz fwd, hs] at h
  simp only at h
  by_cases hzz : z = s.zone
  · rw [if_pos hzz] at h; cases h; exact hzz.symm
  · rw [if_neg hzz] at h
    cases hf : fwd s.lat s.lon z with
    | error e => rw [hf] at h; cases h
    | ok o => rw [hf] at h; cases h; exact hfz _ _ _ _ hf hz0

/-- `Forward` with the standard-zone request and `Forward` with that zone requested explicitly are the same conversion: the request enters
    `UTMUPS::Forward` only through `StandardZone` (same projection kernel) — the `hmain` hypothesis of `setAltZone_is_forward` for objects built
    by `GeoCoords(lat, lon)` -/
theorem forward_explicit_zone (lat lon : F64) (sz z : Int) (mg : Bool) (kern : F64 × F64 × F64 × F64)
    (hs : standardZone lat lon sz = .ok z) (hz : 0 ≤ z ∧ z ≤ 60) :
    forward lat lon sz mg kern = forward lat lon z mg kern := by
  have he := standardZone_explicit lat lon z (Or.inl hz)
  unfold forward
  rw [hs, he]

/-- the representation overloads with a hemisphere argument print the coordinates relabelled within the zone: unchanged for the object's own
    label, northing ∓10⁷ for the other one, an error for UPS -/
theorem relabel_spec (zone : Int) (np label : Bool) (x y : F64) :
    relabel zone np x y label =
      if zone = 0 ∧ np ≠ label then .error "UPS between hemispheres"
      else .ok (x, if np ≠ label then y + nshift label else y) := by
  unfold relabel transferSameZone nshift
  simp only [mgrs_utmNshift]
  by_cases h : zone = 0 ∧ np ≠ label
  · rw [if_pos h, if_pos h]; rfl
  · rw [if_neg h, if_neg h]
    cases label <;> rfl

/-- non-vacuity: the equator with the southern label agrees; latitude −1 with the northern label is flipped with northing + 10⁷;
    SetAltZone(STANDARD) of an object in its standard zone copies the coordinates -/
example : labelAgrees (F64.ofInt 0) false = true ∧
    (match fixHemisphere ⟨31, true, F64.ofInt 500000, F64.ofInt (-110000), 0, 1, F64.ofInt (-1), F64.ofInt 3⟩ with
     | .ok t => t.northp == false && F64.same t.northing (F64.ofInt 9890000) | .error _ => false) = true ∧
    (match setAltZone ⟨31, true, F64.ofInt 500000, F64.ofInt 110000, 0, 1, F64.ofInt 1, F64.ofInt 3⟩ ⟨0, 0, 0, 0, 0⟩ (-1) (fun _ _ _ => .error "unused") with
     | .ok a => a.zone == 31 && F64.same a.northing (F64.ofInt 110000) | .error _ => false) = true := by decide +kernel

end GeoVerif.Props.C04
