import GeoVerif.Model.Polygon
import GeoVerif.Model.PolygonF
import GeoVerif.Model.Planimeter
import GeoVerif.Proofs.PolygonHist
import GeoVerif.Props.C16
import Mathlib.Algebra.Order.Floor.Ring
import Mathlib.Algebra.Order.Floor.Semiring
import Mathlib.Data.Rat.Floor
import Mathlib.Tactic.Linarith
import Mathlib.Tactic.Ring
import Mathlib.Tactic.NormNum
import Mathlib.Tactic.Positivity
import Mathlib.Tactic.SplitIfs
import Mathlib.Data.List.Rotate
import Mathlib.Algebra.BigOperators.Group.List.Basic
/-!
# C08 — property theorems (polygon bookkeeping)

`transitQ`, `transitdirectQ`, `areaReduce` and the state machine are the
definitions of `Model/Polygon.lean` that the driver executes against the
implementation; here they are studied over ℚ (= core `Rat`).
-/
namespace GeoVerif.Props.C08
open GeoVerif GeoVerif.Polygon

/-- what `AngNormalize` / `AngDiff` guarantee about an edge: all three values in [−180, 180] and
    `n1 + d = n2 + 360 k` for an integer `k` (C16) -/
structure Edge (d n1 n2 : ℚ) (k : ℤ) : Prop where
  hd  : -180 ≤ d ∧ d ≤ 180
  hn1 : -180 ≤ n1 ∧ n1 ≤ 180
  hn2 : -180 ≤ n2 ∧ n2 ≤ 180
  hk  : n1 + d = n2 + 360 * (k : ℚ)

theorem floor_div_360_of_mem {x : ℚ} (h : -180 ≤ x ∧ x ≤ 180) :
    ⌊x / 360⌋ = if x < 0 then -1 else 0 := by
  split_ifs with hx
  · rw [Int.floor_eq_iff]; constructor <;> push_cast <;> [linarith; linarith]
  · push Not at hx
    rw [Int.floor_eq_iff]; constructor <;> push_cast <;> [positivity; linarith]

/-- case analysis behind the pointwise lemma: with `k ∈ {−1, 0, 1}` the code's decision equals the floor jump -/
theorem tcases (d n1 n2 : ℚ) (k : ℤ) (hk' : k = -1 ∨ k = 0 ∨ k = 1)
   (hd1 : -180 ≤ d) (hd2 : d ≤ 180) (h11 : -180 ≤ n1) (h12 : n1 ≤ 180) (h21 : -180 ≤ n2) (h22 : n2 ≤ 180)
   (hk : n1 + d = n2 + 360 * (k:ℚ)) :
   transitQ d n1 n2 = (if n2 < 0 then -1 else 0) + k - (if n1 < 0 then -1 else 0) := by
  unfold transitQ
  have t1 : n1 < 0 ∨ n1 = 0 ∨ 0 < n1 := lt_trichotomy n1 0
  have t2 : n2 < 0 ∨ n2 = 0 ∨ (0 < n2 ∧ n2 < 180) ∨ n2 = 180 := by
    rcases lt_trichotomy n2 0 with h | h | h
    · exact Or.inl h
    · exact Or.inr (Or.inl h)
    · rcases lt_or_eq_of_le h22 with h' | h'
      · exact Or.inr (Or.inr (Or.inl ⟨h, h'⟩))
      · exact Or.inr (Or.inr (Or.inr h'))
  have t3 : d < 0 ∨ d = 0 ∨ 0 < d := lt_trichotomy d 0
  rcases hk' with rfl | rfl | rfl <;> push_cast at hk <;>
  rcases t1 with a | a | a <;> rcases t2 with b | b | ⟨b, b'⟩ | b <;> rcases t3 with c | c | c <;>
  (try subst a) <;> (try subst b) <;> (try subst c) <;>
  first
  | (exfalso; linarith)
  | (norm_num [*, not_lt.mpr, le_of_lt] <;> first | (exfalso; linarith) | (intro h; linarith) | skip)

/-- pointwise: `transit = ⌊(n1+d)/360⌋ − ⌊n1/360⌋` — the number of times the edge passes longitude 0 (mod 360), signed -/
theorem transit_eq_floor {d n1 n2 : ℚ} {k : ℤ} (e : Edge d n1 n2 k) :
    transitQ d n1 n2 = ⌊(n1 + d) / 360⌋ - ⌊n1 / 360⌋ := by
  obtain ⟨⟨hd1, hd2⟩, ⟨h11, h12⟩, ⟨h21, h22⟩, hk⟩ := e
  have hfl : ⌊(n1 + d) / 360⌋ = ⌊n2 / 360⌋ + k := by
    rw [hk]
    have : (n2 + 360 * (k:ℚ)) / 360 = n2 / 360 + (k:ℚ) := by ring
    rw [this, Int.floor_add_intCast]
  rw [hfl, floor_div_360_of_mem ⟨h11, h12⟩, floor_div_360_of_mem ⟨h21, h22⟩]
  have hkl : (-2:ℚ) < (k:ℚ) := by linarith
  have hku : (k:ℚ) < 2 := by linarith
  have hk' : k = -1 ∨ k = 0 ∨ k = 1 := by
    have h1 : (-2:ℤ) < k := by exact_mod_cast hkl
    have h2 : k < 2 := by exact_mod_cast hku
    omega
  exact tcases d n1 n2 k hk' hd1 hd2 h11 h12 h21 h22 hk

/-- a closed chain of edges: consecutive edges share their vertex and the last returns to the first -/
structure Chain (es : List (ℚ × ℚ × ℚ × ℤ)) : Prop where
  edges : ∀ e ∈ es, Edge e.1 e.2.1 e.2.2.1 e.2.2.2
  closed : (es.map fun e => ⌊e.2.2.1 / 360⌋).sum = (es.map fun e => ⌊e.2.1 / 360⌋).sum

/-- a cyclic vertex list (each edge ends where the next begins, the last where the first begins) is closed -/
theorem closed_of_rotate (es : List (ℚ × ℚ × ℚ × ℤ)) (h : es.map (fun e => e.2.2.1) = (es.map fun e => e.2.1).rotate 1) :
    (es.map fun e => ⌊e.2.2.1 / 360⌋).sum = (es.map fun e => ⌊e.2.1 / 360⌋).sum := by
  have h1 : (es.map fun e => ⌊e.2.2.1 / 360⌋) = (es.map fun e => e.2.2.1).map fun x => ⌊x / 360⌋ := by simp
  have h2 : (es.map fun e => ⌊e.2.1 / 360⌋) = (es.map fun e => e.2.1).map fun x => ⌊x / 360⌋ := by simp
  rw [h1, h2, h]
  have hp : ((es.map fun e => e.2.1).rotate 1).Perm (es.map fun e => e.2.1) := List.rotate_perm _ 1
  exact List.Perm.sum_eq (hp.map fun x : ℚ => ⌊x / 360⌋)

/-- start independence: any cyclic sum (perimeter, raw area, crossings) is unchanged when the vertex list is rotated -/
theorem cyclic_sum_rotate (l : List ℚ) (n : ℕ) : (l.rotate n).sum = l.sum := (List.rotate_perm l n).sum_eq
theorem cyclic_sum_rotate_int (l : List ℤ) (n : ℕ) : (l.rotate n).sum = l.sum := (List.rotate_perm l n).sum_eq

theorem sum_transit_aux (es : List (ℚ × ℚ × ℚ × ℤ)) (h : ∀ e ∈ es, Edge e.1 e.2.1 e.2.2.1 e.2.2.2) :
    (es.map fun e => transitQ e.1 e.2.1 e.2.2.1).sum
      = (es.map fun e => ⌊e.2.2.1 / 360⌋).sum + (es.map fun e => e.2.2.2).sum - (es.map fun e => ⌊e.2.1 / 360⌋).sum := by
  induction es with
  | nil => simp
  | cons e es ih =>
    have he := h e (List.mem_cons_self)
    have ih' := ih (fun x hx => h x (List.mem_cons_of_mem _ hx))
    simp only [List.map_cons, List.sum_cons]
    rw [ih', transit_eq_floor he]
    have hfl : ⌊(e.2.1 + e.1) / 360⌋ = ⌊e.2.2.1 / 360⌋ + e.2.2.2 := by
      rw [he.hk]
      have : (e.2.2.1 + 360 * (e.2.2.2:ℚ)) / 360 = e.2.2.1 / 360 + (e.2.2.2:ℚ) := by ring
      rw [this, Int.floor_add_intCast]
    rw [hfl]; ring

/-- **crossing count = winding number**: around any closed chain the transits add up to `Σ k`, and `360·Σ k = Σ d`
    (the total signed longitude swept), whatever the vertices' representatives modulo 360 are -/
theorem transit_winding (es : List (ℚ × ℚ × ℚ × ℤ)) (h : Chain es) :
    (es.map fun e => transitQ e.1 e.2.1 e.2.2.1).sum = (es.map fun e => e.2.2.2).sum := by
  rw [sum_transit_aux es h.edges, h.closed]; ring

/-- `transitdirect` has the parity of `⌊λ₂/360⌋ − ⌊λ₁/360⌋` when `r = λ − 720 j ∈ [−360, 360]` is the IEEE remainder -/
theorem cls_parity (x r : ℚ) (j : ℤ) (hr : -360 ≤ r ∧ r ≤ 360) (hx : x = r + 720 * (j:ℚ)) :
    (if 0 ≤ r ∧ r < 360 then (0:ℤ) else 1) % 2 = ⌊x / 360⌋ % 2 := by
  have hfl : ⌊x / 360⌋ = ⌊r / 360⌋ + 2 * j := by
    rw [hx]
    have : (r + 720 * (j:ℚ)) / 360 = r / 360 + ((2 * j : ℤ) : ℚ) := by push_cast; ring
    rw [this, Int.floor_add_intCast]
  rw [hfl]
  obtain ⟨h1, h2⟩ := hr
  by_cases ha : r < 0
  · have : ⌊r / 360⌋ = -1 := by rw [Int.floor_eq_iff]; constructor <;> push_cast <;> linarith
    rw [this, if_neg (by intro h; linarith [h.1])]; omega
  · push Not at ha
    by_cases hb : r < 360
    · have : ⌊r / 360⌋ = 0 := by rw [Int.floor_eq_iff]; constructor <;> push_cast <;> [positivity; linarith]
      rw [this, if_pos ⟨ha, hb⟩]; omega
    · have hr360 : r = 360 := by linarith
      have : ⌊r / 360⌋ = 1 := by rw [hr360]; norm_num
      rw [this, if_neg (by intro h; exact hb h.2)]; omega

theorem transitdirect_parity (x1 x2 r1 r2 : ℚ) (j1 j2 : ℤ)
    (h1 : -360 ≤ r1 ∧ r1 ≤ 360) (h2 : -360 ≤ r2 ∧ r2 ≤ 360) (e1 : x1 = r1 + 720 * (j1:ℚ)) (e2 : x2 = r2 + 720 * (j2:ℚ)) :
    (transitdirectQ r1 r2) % 2 = (⌊x2 / 360⌋ - ⌊x1 / 360⌋) % 2 := by
  unfold transitdirectQ
  have a := cls_parity x1 r1 j1 h1 e1
  have b := cls_parity x2 r2 j2 h2 e2
  omega

/-! ### TestPoint / TestEdge ≡ Add + Compute, unchanged state, Clear -/

/-- `TestPoint` returns what `AddPoint` followed by `Compute` returns (same backend values), for every reachable or
    unreachable state with at least one vertex -/
theorem testPoint_eq_add_compute (st : State) (A : ℚ) (lat lon : F64) (rv sg : Bool) (k1 k2 : ℚ × ℚ) (h : st.num ≠ 0) :
    testPoint st A lon rv sg k1 k2 = compute (addPoint st lat lon k1.1 k1.2) A rv sg k2.1 k2.2 := by
  unfold testPoint compute addPoint
  simp only [h, if_false]
  by_cases hp : st.polyline
  · have : ¬ (st.num + 1 < 2) := by omega
    simp [hp, this]
  · have : ¬ (st.num + 1 < 2) := by omega
    simp [hp, this, add_assoc]

theorem testEdge_eq_add_compute (st : State) (A s : ℚ) (lat2 lon2 : F64) (S12 : ℚ) (rv sg : Bool) (k2 : ℚ × ℚ) (h : st.num ≠ 0) :
    testEdge st A s lon2 S12 rv sg k2 = compute (addEdge st s lat2 lon2 S12) A rv sg k2.1 k2.2 := by
  unfold testEdge compute addEdge
  simp only [h, if_false]
  by_cases hp : st.polyline
  · have : ¬ (st.num + 1 < 2) := by omega
    simp [hp, this]
  · have : ¬ (st.num + 1 < 2) := by omega
    simp [hp, this, add_assoc]

/-- clearing restores the empty state -/
theorem clear_is_init (st : State) : clear st = init st.polyline := rfl

/-- a polyline never reports an area and never counts crossings -/
theorem polyline_no_area (st : State) (A : ℚ) (rv sg : Bool) (s S : ℚ) (h : st.polyline = true) :
    (compute st A rv sg s S).area = none := by
  unfold compute; split_ifs <;> simp_all

/-! ### AreaReduce: ranges -/

theorem remainderQ_range (x y : ℚ) (hy : 0 < y) : -(y / 2) ≤ remainderQ x y ∧ remainderQ x y ≤ y / 2 := by
  unfold remainderQ
  set q := x / y with hq
  have hx : x = q * y := by rw [hq]; field_simp
  have hf1 : (⌊q⌋ : ℚ) ≤ q := Int.floor_le q
  have hf2 : q < ⌊q⌋ + 1 := Int.lt_floor_add_one q
  have hfl : (Rat.floor q : ℤ) = ⌊q⌋ := rfl
  simp only [hfl]
  split_ifs with h1 h2 h3 <;> rw [hx] <;> push_cast <;> constructor <;> nlinarith

/-- signed result in (−A/2, A/2], unsigned in [0, A) -/
theorem areaReduce_range (area A : ℚ) (c : ℤ) (rv sg : Bool) (hA : 0 < A) :
    (sg = true → -(A / 2) < areaReduce area A c rv sg ∧ areaReduce area A c rv sg ≤ A / 2) ∧
    (sg = false → 0 ≤ areaReduce area A c rv sg ∧ areaReduce area A c rv sg < A) := by
  unfold areaReduce
  obtain ⟨h1, h2⟩ := remainderQ_range area A hA
  set r := remainderQ area A
  constructor <;> intro hs <;> subst hs <;> simp only [if_true, if_false, Bool.false_eq_true] <;>
    split_ifs <;> constructor <;> first | linarith | (push Not at *; linarith) | nlinarith

/-! ### AreaReduce modulo `A`: the master lemma, `reverse` flip, traversal flip -/

/-- congruence modulo the ellipsoid area -/
def CongA (A x y : ℚ) : Prop := ∃ m : ℤ, x = y + m * A

theorem CongA.refl (A x : ℚ) : CongA A x x := ⟨0, by simp⟩
theorem CongA.symm {A x y : ℚ} (h : CongA A x y) : CongA A y x := by
  obtain ⟨m, hm⟩ := h; exact ⟨-m, by rw [hm]; push_cast; ring⟩
theorem CongA.trans {A x y z : ℚ} (h1 : CongA A x y) (h2 : CongA A y z) : CongA A x z := by
  obtain ⟨m, hm⟩ := h1; obtain ⟨n, hn⟩ := h2; exact ⟨m + n, by rw [hm, hn]; push_cast; ring⟩
theorem CongA.neg {A x y : ℚ} (h : CongA A x y) : CongA A (-x) (-y) := by
  obtain ⟨m, hm⟩ := h; exact ⟨-m, by rw [hm]; push_cast; ring⟩
theorem CongA.add {A x y u v : ℚ} (h1 : CongA A x y) (h2 : CongA A u v) : CongA A (x + u) (y + v) := by
  obtain ⟨m, hm⟩ := h1; obtain ⟨n, hn⟩ := h2; exact ⟨m + n, by rw [hm, hn]; push_cast; ring⟩

theorem remainderQ_cong (x A : ℚ) : CongA A (remainderQ x A) x := by
  unfold remainderQ
  simp only []
  generalize (if x / A - ↑(x / A).floor < 1 / 2 then (x / A).floor else if x / A - ↑(x / A).floor > 1 / 2 then (x / A).floor + 1 else (if (x / A).floor % 2 = 0 then (x / A).floor else (x / A).floor + 1)) = n
  exact ⟨-n, by push_cast; ring⟩

/-- the stages of `areaReduce` after the remainder -/
def adjC (A : ℚ) (c : ℤ) (a : ℚ) : ℚ := if c % 2 = 1 then a + (if a < 0 then 1 else -1) * (A / 2) else a
def orient (rv : Bool) (a : ℚ) : ℚ := if !rv then -a else a
def window (A : ℚ) (sg : Bool) (a : ℚ) : ℚ :=
  if sg then (if a > A / 2 then a - A else if a ≤ -(A / 2) then a + A else a)
  else (if a ≥ A then a - A else if a < 0 then a + A else a)

theorem areaReduce_stages (area A : ℚ) (c : ℤ) (rv sg : Bool) :
    areaReduce area A c rv sg = window A sg (orient rv (adjC A c (remainderQ area A))) := rfl

/-- the signed multiplier of `reverse` -/
def sgn (rv : Bool) : ℚ := if rv then 1 else -1

theorem adjC_cong (A : ℚ) (c : ℤ) (a : ℚ) : CongA A (adjC A c a) (a + c * (A / 2)) := by
  unfold adjC
  rcases Int.emod_two_eq_zero_or_one c with hc | hc
  · obtain ⟨j, hj⟩ : ∃ j, c = 2 * j := ⟨c / 2, by omega⟩
    rw [if_neg (by omega)]
    refine ⟨-j, ?_⟩
    rw [hj]; push_cast; ring
  · obtain ⟨j, hj⟩ : ∃ j, c = 2 * j + 1 := ⟨c / 2, by omega⟩
    rw [if_pos hc]
    split_ifs
    · refine ⟨-j, ?_⟩
      rw [hj]; push_cast; ring
    · refine ⟨-j - 1, ?_⟩
      rw [hj]; push_cast; ring

theorem orient_eq (rv : Bool) (a : ℚ) : orient rv a = sgn rv * a := by
  cases rv <;> simp [orient, sgn]

theorem window_cong (A : ℚ) (sg : Bool) (a : ℚ) : CongA A (window A sg a) a := by
  unfold window
  split_ifs
  · exact ⟨-1, by push_cast; ring⟩
  · exact ⟨1, by push_cast; ring⟩
  · exact CongA.refl _ _
  · exact ⟨-1, by push_cast; ring⟩
  · exact ⟨1, by push_cast; ring⟩
  · exact CongA.refl _ _

theorem CongA.mul_sgn {A x y : ℚ} (rv : Bool) (h : CongA A x y) : CongA A (sgn rv * x) (sgn rv * y) := by
  cases rv
  · simpa [sgn] using h.neg
  · simpa [sgn] using h

/-- **what `AreaReduce` computes, modulo `A`**: `± (area + crossings·A/2)` -/
theorem areaReduce_cong (area A : ℚ) (c : ℤ) (rv sg : Bool) :
    CongA A (areaReduce area A c rv sg) (sgn rv * (area + c * (A / 2))) := by
  rw [areaReduce_stages, ]
  refine (window_cong A sg _).trans ?_
  rw [orient_eq]
  refine CongA.mul_sgn rv ?_
  refine (adjC_cong A c _).trans ?_
  exact (remainderQ_cong area A).add (CongA.refl _ _)


theorem cong_eq_of_abs_lt {A x y : ℚ} (hA : 0 < A) (h : CongA A x y) (hlt : |x - y| < A) : x = y := by
  obtain ⟨m, hm⟩ := h
  rw [abs_lt] at hlt
  have h1 : (m:ℚ) * A < A := by linarith
  have h2 : -A < (m:ℚ) * A := by linarith
  have h3 : (m:ℚ) < 1 := by by_contra hh; push Not at hh; nlinarith
  have h4 : (-1:ℚ) < m := by by_contra hh; push Not at hh; nlinarith
  have h5 : m < 1 := by exact_mod_cast h3
  have h6 : -1 < m := by exact_mod_cast h4
  have : m = 0 := by omega
  subst this; simpa using hm

/-- two results of `AreaReduce` with the same `sign` flag that are congruent modulo `A` are equal
    (each range is a fundamental domain) -/
theorem areaReduce_eq_of_cong_results {A : ℚ} (hA : 0 < A) {area area' : ℚ} {c c' : ℤ} {rv rv' sg : Bool}
    (h : CongA A (areaReduce area' A c' rv' sg) (areaReduce area A c rv sg)) :
    areaReduce area' A c' rv' sg = areaReduce area A c rv sg := by
  apply cong_eq_of_abs_lt hA h
  have r1 := areaReduce_range area A c rv sg hA
  have r2 := areaReduce_range area' A c' rv' sg hA
  rw [abs_lt]
  cases sg
  · have a := r1.2 rfl; have b := r2.2 rfl; constructor <;> linarith
  · have a := r1.1 rfl; have b := r2.1 rfl; constructor <;> linarith

/-- **master lemma**: the reduced area depends only on `± (area + crossings·A/2)` modulo `A` -/
theorem areaReduce_eq_of_cong {A : ℚ} (hA : 0 < A) {area area' : ℚ} {c c' : ℤ} {rv rv' : Bool} (sg : Bool)
    (h : CongA A (sgn rv' * (area' + c' * (A / 2))) (sgn rv * (area + c * (A / 2)))) :
    areaReduce area' A c' rv' sg = areaReduce area A c rv sg :=
  areaReduce_eq_of_cong_results hA
    (((areaReduce_cong area' A c' rv' sg).trans h).trans (areaReduce_cong area A c rv sg).symm)

theorem sgn_not (rv : Bool) : sgn (!rv) = - sgn rv := by cases rv <;> simp [sgn]

/-- **flipping `reverse`**: signed result `a ↦ −a` (the end point `A/2` of the half-open range maps to itself);
    unsigned result `a ↦ A − a` for `a ≠ 0`, `0 ↦ 0` -/
theorem areaReduce_flip (area A : ℚ) (c : ℤ) (rv : Bool) (hA : 0 < A) :
    (areaReduce area A c (!rv) true =
        if areaReduce area A c rv true = A / 2 then A / 2 else - areaReduce area A c rv true) ∧
    (areaReduce area A c (!rv) false =
        if areaReduce area A c rv false = 0 then 0 else A - areaReduce area A c rv false) := by
  have key : ∀ sg, CongA A (areaReduce area A c (!rv) sg) (-(areaReduce area A c rv sg)) := by
    intro sg
    refine (areaReduce_cong area A c (!rv) sg).trans ?_
    rw [sgn_not, neg_mul]
    exact (areaReduce_cong area A c rv sg).neg.symm
  constructor
  · have r1 := (areaReduce_range area A c rv true hA).1 rfl
    have r2 := (areaReduce_range area A c (!rv) true hA).1 rfl
    split_ifs with h
    · apply cong_eq_of_abs_lt hA
      · refine (key true).trans ?_
        rw [h]; exact ⟨-1, by push_cast; ring⟩
      · rw [abs_lt]; constructor <;> linarith
    · apply cong_eq_of_abs_lt hA (key true)
      have : areaReduce area A c rv true < A / 2 := lt_of_le_of_ne r1.2 h
      rw [abs_lt]; constructor <;> linarith
  · have r1 := (areaReduce_range area A c rv false hA).2 rfl
    have r2 := (areaReduce_range area A c (!rv) false hA).2 rfl
    split_ifs with h
    · apply cong_eq_of_abs_lt hA
      · have := key false; rw [h] at this; simpa using this
      · rw [abs_lt]; constructor <;> linarith
    · apply cong_eq_of_abs_lt hA
      · exact (key false).trans ⟨-1, by push_cast; ring⟩
      · have : 0 < areaReduce area A c rv false := lt_of_le_of_ne r1.1 (Ne.symm h)
        rw [abs_lt]; constructor <;> linarith

/-- **flipping the traversal order** (raw sum negated, crossing parity kept) is the same as flipping `reverse` -/
theorem areaReduce_neg_area (area A : ℚ) (c c' : ℤ) (rv sg : Bool) (hA : 0 < A) (hc : c' % 2 = c % 2) :
    areaReduce (-area) A c' rv sg = areaReduce area A c (!rv) sg := by
  apply areaReduce_eq_of_cong hA
  rw [sgn_not]
  obtain ⟨j, hj⟩ : ∃ j, c' + c = 2 * j := ⟨(c' + c) / 2, by omega⟩
  have hj' : (c' : ℚ) = 2 * j - c := by
    have : ((c' + c : ℤ) : ℚ) = ((2 * j : ℤ) : ℚ) := by rw [hj]
    push_cast at this; linarith
  refine ⟨if rv then j else -j, ?_⟩
  rw [hj']; cases rv <;> simp [sgn] <;> ring

theorem Edge.reverse {d n1 n2 : ℚ} {k : ℤ} (e : Edge d n1 n2 k) : Edge (-d) n2 n1 (-k) :=
  ⟨⟨by linarith [e.hd.2], by linarith [e.hd.1]⟩, e.hn2, e.hn1, by have := e.hk; push_cast; linarith⟩

/-- the crossing count of an edge traversed backwards is the negative -/
theorem transitQ_antisymm {d n1 n2 : ℚ} {k : ℤ} (e : Edge d n1 n2 k) :
    transitQ (-d) n2 n1 = - transitQ d n1 n2 := by
  rw [transit_eq_floor e, transit_eq_floor e.reverse]
  have h1 : ⌊(n1 + d) / 360⌋ = ⌊n2 / 360⌋ + k := by
    rw [e.hk, show (n2 + 360 * (k:ℚ)) / 360 = n2 / 360 + (k:ℚ) by ring, Int.floor_add_intCast]
  have h2 : ⌊(n2 + -d) / 360⌋ = ⌊n1 / 360⌋ + (-k) := by
    rw [e.reverse.hk, show (n1 + 360 * ((-k : ℤ):ℚ)) / 360 = n1 / 360 + ((-k : ℤ):ℚ) by ring, Int.floor_add_intCast]
  rw [h1, h2]; ring

/-! ### whole runs: `AddPoint* ; Compute` over a vertex list and a backend -/

abbrev Vertex := F64 × F64
/-- `(s12, S12)` of the inverse problem between two vertices -/
abbrev Backend := Vertex → Vertex → ℚ × ℚ

def step (B : Backend) (sp : State × Vertex) (q : Vertex) : State × Vertex :=
  (addPoint sp.1 q.1 q.2 (B sp.2 q).1 (B sp.2 q).2, q)

/-- `Clear(); AddPoint(v₀); …; AddPoint(vₙ₋₁); Compute(reverse, sign)` for a polygon (not polyline) -/
def polygon (B : Backend) (A : ℚ) (rv sg : Bool) : List Vertex → Result
  | [] => compute (init false) A rv sg 0 0
  | v :: r =>
    let sp := r.foldl (step B) (addPoint (init false) v.1 v.2 0 0, v)
    compute sp.1 A rv sg (B sp.2 v).1 (B sp.2 v).2

/-- sum of `f` over the consecutive pairs of the path `p, r₀, r₁, …` -/
def path {α : Type} [AddCommMonoid α] (f : Vertex → Vertex → α) : Vertex → List Vertex → α
  | _, [] => 0
  | p, q :: r => f p q + path f q r

/-- cyclic sum of `f` over the edges of the closed polygon -/
def cyc {α : Type} [AddCommMonoid α] (f : Vertex → Vertex → α) : List Vertex → α
  | [] => 0
  | p :: r => path f p (r ++ [p])

theorem path_append {α : Type} [AddCommMonoid α] (f : Vertex → Vertex → α) (p q : Vertex) (l m : List Vertex) :
    path f p (l ++ q :: m) = path f p (l ++ [q]) + path f q m := by
  induction l generalizing p with
  | nil => simp [path]
  | cons a l ih => simp only [List.cons_append, path, ih, add_assoc]

theorem cyc_rotate_one {α : Type} [AddCommMonoid α] (f : Vertex → Vertex → α) (vs : List Vertex) :
    cyc f (vs.rotate 1) = cyc f vs := by
  match vs with
  | [] => simp
  | [p] => simp
  | p :: q :: r =>
    have : (p :: q :: r).rotate 1 = q :: (r ++ [p]) := by simp [List.rotate_cons_succ]
    rw [this]
    simp only [cyc, path, List.cons_append]
    rw [show r ++ [p] ++ [q] = r ++ p :: [q] by simp, path_append]
    simp only [path, add_zero]
    exact add_comm _ _

theorem cyc_rotate {α : Type} [AddCommMonoid α] (f : Vertex → Vertex → α) (vs : List Vertex) (n : ℕ) :
    cyc f (vs.rotate n) = cyc f vs := by
  induction n with
  | zero => simp
  | succ n ih => rw [← List.rotate_rotate, cyc_rotate_one, ih]

def fS (B : Backend) (p q : Vertex) : ℚ := (B p q).2
def fs (B : Backend) (p q : Vertex) : ℚ := (B p q).1
def fT (p q : Vertex) : ℤ := transit p.2 q.2

/-- last vertex of the path `p, r₀, r₁, …` -/
def lastV : Vertex → List Vertex → Vertex
  | p, [] => p
  | _, q :: r => lastV q r

theorem foldl_step (B : Backend) (r : List Vertex) (st : State) (p : Vertex) (hn : st.num ≠ 0) (hp : st.polyline = false)
    (hl : st.lon1 = p.2) :
    (r.foldl (step B) (st, p)).1.num = st.num + r.length ∧
    (r.foldl (step B) (st, p)).1.perimsum = st.perimsum + path (fs B) p r ∧
    (r.foldl (step B) (st, p)).1.areasum = st.areasum + path (fS B) p r ∧
    (r.foldl (step B) (st, p)).1.crossings = st.crossings + path fT p r ∧
    (r.foldl (step B) (st, p)).1.lon0 = st.lon0 ∧
    (r.foldl (step B) (st, p)).1.lon1 = (lastV p r).2 ∧
    (r.foldl (step B) (st, p)).1.polyline = false ∧
    (r.foldl (step B) (st, p)).2 = lastV p r := by
  induction r generalizing st p with
  | nil => simp [path, hp, hl, lastV]
  | cons q r ih =>
    have hst : (step B (st, p) q) = (addPoint st q.1 q.2 (B p q).1 (B p q).2, q) := rfl
    have ha : addPoint st q.1 q.2 (B p q).1 (B p q).2 =
        { st with num := st.num + 1, perimsum := st.perimsum + (B p q).1, areasum := st.areasum + (B p q).2,
                  crossings := st.crossings + transit p.2 q.2, lat1 := q.1, lon1 := q.2 } := by
      unfold addPoint; simp [hn, hp, hl]
    simp only [List.foldl_cons, hst]
    obtain ⟨h1, h2, h3, h4, h5, h6, h7, h8⟩ := ih (addPoint st q.1 q.2 (B p q).1 (B p q).2) q (by rw [ha]; simp) (by rw [ha]; exact hp)
      (by rw [ha])
    refine ⟨?_, ?_, ?_, ?_, ?_, ?_, h7, ?_⟩
    · rw [h1, ha]; simp; omega
    · rw [h2, ha]; simp [path, fs]; ring
    · rw [h3, ha]; simp [path, fS]; ring
    · rw [h4, ha]; simp [path, fT]; ring
    · rw [h5, ha]
    · rw [h6]; rfl
    · rw [h8]; rfl


theorem path_snoc {α : Type} [AddCommMonoid α] (f : Vertex → Vertex → α) (p x : Vertex) (r : List Vertex) :
    path f p (r ++ [x]) = path f p r + f (lastV p r) x := by
  induction r generalizing p with
  | nil => simp [path, lastV]
  | cons q r ih => simp only [List.cons_append, path, ih, lastV, add_assoc]

/-- **closed form of a whole run**: vertex count, cyclic perimeter, and `AreaReduce` of the cyclic sums -/
theorem polygon_eq (B : Backend) (A : ℚ) (rv sg : Bool) (vs : List Vertex) (h : 2 ≤ vs.length) :
    polygon B A rv sg vs =
      ⟨vs.length, some (cyc (fs B) vs), some (some (areaReduce (cyc (fS B) vs) A (cyc fT vs) rv sg))⟩ := by
  match vs, h with
  | v :: r, h =>
    have h0 : addPoint (init false) v.1 v.2 0 0 = { (init false) with num := 1, lat0 := v.1, lon0 := v.2, lat1 := v.1, lon1 := v.2 } := by
      simp [addPoint, init]
    obtain ⟨h1, h2, h3, h4, h5, h6, h7, h8⟩ := foldl_step B r (addPoint (init false) v.1 v.2 0 0) v (by rw [h0]; simp) (by rw [h0]; rfl) (by rw [h0])
    have hlen : ¬ ((r.foldl (step B) (addPoint (init false) v.1 v.2 0 0, v)).1.num < 2) := by
      have hnum : (addPoint (init false) v.1 v.2 0 0).num = 1 := by rw [h0]
      rw [h1, hnum]; simp only [List.length_cons] at h; omega
    simp only [polygon, compute, hlen, if_false, h7, Bool.false_eq_true]
    rw [h1, h2, h3, h4, h5, h6, h8, h0]
    simp only [cyc, path_snoc, init]
    simp [fs, fS, fT, Nat.add_comm]

/-- **start independence**: the result of `Compute` does not depend on which vertex the polygon was started from -/
theorem start_independent (B : Backend) (A : ℚ) (rv sg : Bool) (vs : List Vertex) (n : ℕ) :
    polygon B A rv sg (vs.rotate n) = polygon B A rv sg vs := by
  by_cases h : 2 ≤ vs.length
  · rw [polygon_eq B A rv sg vs h, polygon_eq B A rv sg _ (by rw [List.length_rotate]; exact h)]
    simp only [cyc_rotate, List.length_rotate]
  · match vs, h with
    | [], _ => simp
    | [v], _ => simp
    | _ :: _ :: _, h => simp at h

/-! ### traversal order, cutting along a diagonal -/

theorem path_add {α : Type} [AddCommMonoid α] (f g : Vertex → Vertex → α) (p : Vertex) (r : List Vertex) :
    path (fun x y => f x y + g x y) p r = path f p r + path g p r := by
  induction r generalizing p with
  | nil => simp [path]
  | cons q r ih => simp only [path, ih]; exact add_add_add_comm _ _ _ _

theorem cyc_add {α : Type} [AddCommMonoid α] (f g : Vertex → Vertex → α) (vs : List Vertex) :
    cyc (fun x y => f x y + g x y) vs = cyc f vs + cyc g vs := by
  cases vs with
  | nil => simp [cyc]
  | cons p r => exact path_add f g p _

theorem path_reverse {α : Type} [AddCommMonoid α] (f : Vertex → Vertex → α) (p x : Vertex) (r : List Vertex) :
    path f x (r.reverse ++ [p]) = path (fun a b => f b a) p (r ++ [x]) := by
  induction r generalizing p with
  | nil => simp [path]
  | cons q r ih =>
    rw [List.reverse_cons, List.append_assoc, List.singleton_append, path_append, ih q]
    simp only [path, List.cons_append, add_zero]
    exact add_comm _ _

/-- the cyclic sum over the reversed vertex list is the cyclic sum of the reversed edges -/
theorem cyc_reverse {α : Type} [AddCommMonoid α] (f : Vertex → Vertex → α) (vs : List Vertex) :
    cyc f vs.reverse = cyc (fun a b => f b a) vs := by
  cases vs with
  | nil => simp [cyc]
  | cons p r =>
    have h : (p :: r).reverse = (p :: r.reverse).rotate 1 := by simp [List.rotate_cons_succ]
    rw [h, cyc_rotate_one]
    exact path_reverse f p p r

theorem path_even (g : Vertex → Vertex → ℤ) (p : Vertex) (r : List Vertex)
    (h : ∀ x ∈ p :: r, ∀ y ∈ p :: r, g x y % 2 = 0) : path g p r % 2 = 0 := by
  induction r generalizing p with
  | nil => simp [path]
  | cons q r ih =>
    have h1 := h p (by simp) q (by simp)
    have h2 := ih q (fun x hx y hy => h x (List.mem_cons_of_mem _ hx) y (List.mem_cons_of_mem _ hy))
    simp only [path]; omega

theorem cyc_even (g : Vertex → Vertex → ℤ) (vs : List Vertex)
    (h : ∀ x ∈ vs, ∀ y ∈ vs, g x y % 2 = 0) : cyc g vs % 2 = 0 := by
  cases vs with
  | nil => simp [cyc]
  | cons p r =>
    apply path_even
    intro x hx y hy
    apply h <;> simp at * <;> tauto

theorem path_zero {α : Type} [AddCommMonoid α] (p : Vertex) (r : List Vertex) :
    path (fun _ _ => (0:α)) p r = 0 := by
  induction r generalizing p with
  | nil => simp [path]
  | cons q r ih => simp [path, ih]

/-- **flipping the traversal order** of a polygon: for a backend with symmetric distances and antisymmetric areas,
    and edges whose two directions have crossing counts of equal parity (true of `transitQ`: `transitQ_antisymm`),
    the raw sum is negated, the parity kept, and the result is that of the original order with `reverse` flipped -/
theorem reverse_traversal (B : Backend) (A : ℚ) (hA : 0 < A) (rv sg : Bool) (vs : List Vertex)
    (hs : ∀ p q, (B q p).1 = (B p q).1) (hS : ∀ p q, (B q p).2 = -(B p q).2)
    (hT : ∀ p ∈ vs, ∀ q ∈ vs, (transit q.2 p.2 + transit p.2 q.2) % 2 = 0) :
    cyc (fS B) vs.reverse = - cyc (fS B) vs ∧ cyc fT vs.reverse % 2 = cyc fT vs % 2 ∧
    polygon B A rv sg vs.reverse = polygon B A (!rv) sg vs := by
  have e1 : cyc (fs B) vs.reverse = cyc (fs B) vs := by
    rw [cyc_reverse]; congr 1; funext a b; exact hs a b
  have e2 : cyc (fS B) vs.reverse = - cyc (fS B) vs := by
    have : cyc (fS B) vs.reverse + cyc (fS B) vs = 0 := by
      rw [cyc_reverse, ← cyc_add]
      have : (fun x y => fS B y x + fS B x y) = fun _ _ => (0:ℚ) := by
        funext x y; simp [fS, hS x y]
      rw [this]; cases vs <;> simp [cyc, path_zero]
    linarith
  have e3 : cyc fT vs.reverse % 2 = cyc fT vs % 2 := by
    have : (cyc fT vs.reverse + cyc fT vs) % 2 = 0 := by
      rw [cyc_reverse, ← cyc_add]
      exact cyc_even _ vs (fun x hx y hy => hT x hx y hy)
    omega
  refine ⟨e2, e3, ?_⟩
  by_cases h : 2 ≤ vs.length
  · rw [polygon_eq B A (!rv) sg vs h, polygon_eq B A rv sg _ (by rw [List.length_reverse]; exact h)]
    rw [e1, e2, areaReduce_neg_area _ A _ _ rv sg hA e3, List.length_reverse]
  · match vs, h with
    | [], _ => simp [polygon, compute, init]
    | [v], _ => simp [polygon, compute, init, addPoint]
    | _ :: _ :: _, h => simp at h

/-- **cutting along a diagonal**: the polygon `a, l₁, b, l₂` is cut into `a, l₁, b` and `b, l₂, a`.  For a backend
    with antisymmetric areas (and a diagonal whose two directions have crossing counts of equal parity) the two areas
    add up to the area of the whole, modulo the area `A` of the ellipsoid -/
theorem cut_additive (B : Backend) (A : ℚ) (rv sg : Bool) (a b : Vertex) (l1 l2 : List Vertex)
    (hS : (B b a).2 = -(B a b).2) (hT : (transit b.2 a.2 + transit a.2 b.2) % 2 = 0) :
    ∃ r1 r2 r : ℚ,
      (polygon B A rv sg (a :: l1 ++ [b])).area = some (some r1) ∧
      (polygon B A rv sg (b :: l2 ++ [a])).area = some (some r2) ∧
      (polygon B A rv sg (a :: l1 ++ b :: l2)).area = some (some r) ∧
      CongA A (r1 + r2) r := by
  have hc : ∀ {α : Type} [AddCommMonoid α] (f : Vertex → Vertex → α),
      cyc f (a :: l1 ++ [b]) + cyc f (b :: l2 ++ [a]) = cyc f (a :: l1 ++ b :: l2) + (f b a + f a b) := by
    intro α _ f
    have c1 : cyc f (a :: l1 ++ [b]) = path f a (l1 ++ [b]) + f b a := by
      show path f a (l1 ++ [b] ++ [a]) = _
      rw [show l1 ++ [b] ++ [a] = l1 ++ b :: [a] by simp, path_append]; simp [path]
    have c2 : cyc f (b :: l2 ++ [a]) = path f b (l2 ++ [a]) + f a b := by
      show path f b (l2 ++ [a] ++ [b]) = _
      rw [show l2 ++ [a] ++ [b] = l2 ++ a :: [b] by simp, path_append]; simp [path]
    have c3 : cyc f (a :: l1 ++ b :: l2) = path f a (l1 ++ [b]) + path f b (l2 ++ [a]) := by
      show path f a (l1 ++ b :: l2 ++ [a]) = _
      rw [show l1 ++ b :: l2 ++ [a] = l1 ++ b :: (l2 ++ [a]) by simp, path_append]
    rw [c1, c2, c3]; exact add_add_add_comm _ _ _ _
  have hS' : fS B b a + fS B a b = 0 := by simp [fS, hS]
  have g1 := polygon_eq B A rv sg (a :: l1 ++ [b]) (by simp)
  have g2 := polygon_eq B A rv sg (b :: l2 ++ [a]) (by simp)
  have g3 := polygon_eq B A rv sg (a :: l1 ++ b :: l2) (by simp; omega)
  refine ⟨_, _, _, by rw [g1], by rw [g2], by rw [g3], ?_⟩
  refine ((areaReduce_cong _ A _ rv sg).add (areaReduce_cong _ A _ rv sg)).trans
    (CongA.trans ?_ (areaReduce_cong _ A _ rv sg).symm)
  rw [← mul_add]
  apply CongA.mul_sgn
  have hq := hc (fS B)
  have hz := hc fT
  rw [hS', add_zero] at hq
  obtain ⟨j, hj⟩ : ∃ j, fT b a + fT a b = 2 * j := ⟨(fT b a + fT a b) / 2, by simp only [fT]; omega⟩
  rw [hj] at hz
  refine ⟨j, ?_⟩
  have hz' : ((cyc fT (a :: l1 ++ [b]) : ℤ) : ℚ) + ((cyc fT (b :: l2 ++ [a]) : ℤ) : ℚ)
      = ((cyc fT (a :: l1 ++ b :: l2) : ℤ) : ℚ) + 2 * j := by exact_mod_cast hz
  have hz'' := congrArg (· * (A / 2)) hz'
  beta_reduce at hz''
  linarith

/-! ### relabelling longitudes by multiples of 360° -/

/-- one edge under a relabelling of its end longitudes by whole turns: the signed difference moves by `ε` turns
    (`ε ≠ 0` only at a ±180° tie) and the crossing count by the same `ε` -/
theorem edge_relabel {d n1 n2 d' n1' n2' : ℚ} {k k' j1 j2 : ℤ} (e : Edge d n1 n2 k) (e' : Edge d' n1' n2' k')
    (h1 : n1' = n1 + 360 * (j1:ℚ)) (h2 : n2' = n2 + 360 * (j2:ℚ)) :
    ∃ ε : ℤ, d' = d + 360 * (ε:ℚ) ∧ transitQ d' n1' n2' = transitQ d n1 n2 + ε ∧
      (ε = 0 ∨ (ε = 1 ∧ d = -180 ∧ d' = 180) ∨ (ε = -1 ∧ d = 180 ∧ d' = -180)) := by
  refine ⟨j2 - j1 + k' - k, ?_, ?_, ?_⟩
  · have := e.hk; have := e'.hk; push_cast; linarith
  · rw [transit_eq_floor e, transit_eq_floor e']
    have hd : d' = d + 360 * ((j2 - j1 + k' - k : ℤ):ℚ) := by have := e.hk; have := e'.hk; push_cast; linarith
    have a1 : ⌊(n1' + d') / 360⌋ = ⌊(n1 + d) / 360⌋ + (j1 + (j2 - j1 + k' - k)) := by
      rw [h1, hd, show (n1 + 360 * (j1:ℚ) + (d + 360 * ((j2 - j1 + k' - k : ℤ):ℚ))) / 360
        = (n1 + d) / 360 + ((j1 + (j2 - j1 + k' - k) : ℤ):ℚ) by push_cast; ring, Int.floor_add_intCast]
    have a2 : ⌊n1' / 360⌋ = ⌊n1 / 360⌋ + j1 := by
      rw [h1, show (n1 + 360 * (j1:ℚ)) / 360 = n1 / 360 + (j1:ℚ) by ring, Int.floor_add_intCast]
    rw [a1, a2]; ring
  · have hd : d' - d = 360 * ((j2 - j1 + k' - k : ℤ):ℚ) := by have := e.hk; have := e'.hk; push_cast; linarith
    generalize j2 - j1 + k' - k = ε at hd
    have b1 : (ε:ℚ) ≤ 1 := by linarith [e.hd.1, e'.hd.2]
    have b2 : (-1:ℚ) ≤ ε := by linarith [e.hd.2, e'.hd.1]
    have c1 : ε ≤ 1 := by exact_mod_cast b1
    have c2 : -1 ≤ ε := by exact_mod_cast b2
    have : ε = 0 ∨ ε = 1 ∨ ε = -1 := by omega
    rcases this with rfl | rfl | rfl
    · exact Or.inl rfl
    · push_cast at hd
      exact Or.inr (Or.inl ⟨rfl, by linarith [e.hd.1, e'.hd.2], by linarith [e.hd.1, e'.hd.2]⟩)
    · push_cast at hd
      exact Or.inr (Or.inr ⟨rfl, by linarith [e.hd.2, e'.hd.1], by linarith [e.hd.2, e'.hd.1]⟩)

/-- an edge as `PolygonArea` sees it: end latitudes, signed longitude difference, normalised end longitudes -/
structure REdge where
  φ1 : ℚ
  φ2 : ℚ
  d : ℚ
  n1 : ℚ
  n2 : ℚ
  k : ℤ

def REdge.ok (e : REdge) : Prop := Edge e.d e.n1 e.n2 e.k

/-- same latitudes, end longitudes moved by whole turns -/
def Relabel (e e' : REdge) : Prop :=
  e'.φ1 = e.φ1 ∧ e'.φ2 = e.φ2 ∧ (∃ j : ℤ, e'.n1 = e.n1 + 360 * (j:ℚ)) ∧ (∃ j : ℤ, e'.n2 = e.n2 + 360 * (j:ℚ))

/-- the raw area sum and the crossing count of a list of edges, for a backend `S φ₁ φ₂ lon12` -/
def rawArea (S : ℚ → ℚ → ℚ → ℚ) (es : List REdge) : ℚ := (es.map fun e => S e.φ1 e.φ2 e.d).sum
def crossings (es : List REdge) : ℤ := (es.map fun e => transitQ e.d e.n1 e.n2).sum

/-- **relabelling invariance of the pair (ΣS12, crossings)**: for a backend that sees the longitudes only through
    the signed `lon12` and satisfies the tie contract `S(φ₁, φ₂, +180) − S(φ₁, φ₂, −180) = A/2`, replacing any
    longitudes by themselves plus whole turns leaves `ΣS12 + crossings·A/2` unchanged modulo `A` … -/
theorem relabel_cong (S : ℚ → ℚ → ℚ → ℚ) (A : ℚ) (tie : ∀ φ1 φ2, S φ1 φ2 180 - S φ1 φ2 (-180) = A / 2)
    (es es' : List REdge) (h : List.Forall₂ Relabel es es') (hok : ∀ e ∈ es, e.ok) (hok' : ∀ e ∈ es', e.ok) :
    CongA A (rawArea S es' + crossings es' * (A / 2)) (rawArea S es + crossings es * (A / 2)) := by
  induction h with
  | nil => exact CongA.refl _ _
  | @cons e e' es es' hr _ ih =>
    obtain ⟨m, hm⟩ := ih (fun x hx => hok x (List.mem_cons_of_mem _ hx)) (fun x hx => hok' x (List.mem_cons_of_mem _ hx))
    obtain ⟨p1, p2, ⟨j1, q1⟩, ⟨j2, q2⟩⟩ := hr
    obtain ⟨ε, hd, ht, hε⟩ := edge_relabel (hok e (by simp)) (hok' e' (by simp)) q1 q2
    have hSS : S e'.φ1 e'.φ2 e'.d = S e.φ1 e.φ2 e.d + ε * (A / 2) := by
      rw [p1, p2]
      rcases hε with rfl | ⟨rfl, a, b⟩ | ⟨rfl, a, b⟩
      · simp at hd; rw [hd]; simp
      · rw [a, b]; have := tie e.φ1 e.φ2; push_cast; linarith
      · rw [a, b]; have := tie e.φ1 e.φ2; push_cast; linarith
    refine ⟨m + ε, ?_⟩
    simp only [rawArea, crossings, List.map_cons, List.sum_cons] at hm ⊢
    rw [hSS, ht]; simp only [Int.cast_add]; linarith

/-- **`area_relabel_invariant`** … so the reduced area is unchanged (neither `ΣS12` nor the crossing parity is
    invariant on its own when an edge spans exactly 180°: the theorem is about the pair) -/
theorem area_relabel_invariant (S : ℚ → ℚ → ℚ → ℚ) (A : ℚ) (hA : 0 < A)
    (tie : ∀ φ1 φ2, S φ1 φ2 180 - S φ1 φ2 (-180) = A / 2)
    (es es' : List REdge) (h : List.Forall₂ Relabel es es') (hok : ∀ e ∈ es, e.ok) (hok' : ∀ e ∈ es', e.ok)
    (rv sg : Bool) :
    areaReduce (rawArea S es') A (crossings es') rv sg = areaReduce (rawArea S es) A (crossings es) rv sg :=
  areaReduce_eq_of_cong hA sg (CongA.mul_sgn rv (relabel_cong S A tie es es' h hok hok'))

/-- non-vacuity, and the reason the theorem is about the pair: the meridional edge from (0°, 0°) to (10°, 180°)
    relabelled as ending at −180°: `lon12` flips from +180 to −180, the crossing count from 0 to −1 -/
example : Relabel ⟨0, 10, 180, 0, 180, 0⟩ ⟨0, 10, -180, 0, -180, 0⟩ ∧
    REdge.ok ⟨0, 10, 180, 0, 180, 0⟩ ∧ REdge.ok ⟨0, 10, -180, 0, -180, 0⟩ ∧
    transitQ 180 0 180 = 0 ∧ transitQ (-180) 0 (-180) = -1 := by
  refine ⟨⟨rfl, rfl, ⟨0, by norm_num⟩, ⟨-1, by norm_num⟩⟩, ⟨by norm_num, by norm_num, by norm_num, by norm_num⟩,
    ⟨by norm_num, by norm_num, by norm_num, by norm_num⟩, by decide +kernel, by decide +kernel⟩

/-- a backend satisfying the tie contract that is not constant: `S = lon12·A/720 + φ₁φ₂·lon12²…` -/
example (A : ℚ) : ∀ φ1 φ2 : ℚ, (fun φ1 φ2 d : ℚ => d * (A / 720) + φ1 * φ2 * d ^ 2) φ1 φ2 180
      - (fun φ1 φ2 d : ℚ => d * (A / 720) + φ1 * φ2 * d ^ 2) φ1 φ2 (-180) = A / 2 := by
  intro φ1 φ2; ring

def REdge.tup (e : REdge) : ℚ × ℚ × ℚ × ℤ := (e.d, e.n1, e.n2, e.k)

/-- the edges of a closed polygon: each ends (normalised longitude) where the next begins -/
def Cyclic (es : List REdge) : Prop := es.map (·.n2) = (es.map (·.n1)).rotate 1

/-- around a closed polygon the crossings count the whole turns swept: `360 · Σ transit = Σ lon12` -/
theorem crossings_swept (es : List REdge) (hc : Cyclic es) (hok : ∀ e ∈ es, e.ok) :
    360 * (crossings es : ℚ) = (es.map (·.d)).sum := by
  have hw := transit_winding (es.map REdge.tup)
    ⟨by intro t ht; obtain ⟨e, he, rfl⟩ := List.mem_map.mp ht; exact hok e he,
     closed_of_rotate _ (by simpa [List.map_map, Function.comp_def, REdge.tup, Cyclic] using hc)⟩
  have hcr : crossings es = (es.map (·.k)).sum := by
    simpa [crossings, List.map_map, Function.comp_def, REdge.tup] using hw
  have hsum : (es.map (·.n1)).sum + (es.map (·.d)).sum = (es.map (·.n2)).sum + 360 * ((es.map (·.k)).sum : ℤ) := by
    clear hw hcr hc
    induction es with
    | nil => simp
    | cons e es ih =>
      have := ih (fun x hx => hok x (List.mem_cons_of_mem _ hx))
      have hk := (hok e (by simp)).hk
      simp only [List.map_cons, List.sum_cons]; push_cast at this ⊢; linarith
  have hn : (es.map (·.n2)).sum = (es.map (·.n1)).sum := by
    rw [hc]; exact cyclic_sum_rotate _ 1
  rw [hcr]; linarith

/-- **shift invariance**: two closed polygons with the same latitudes and the same signed longitude differences
    (e.g. all longitudes shifted by a constant that leaves every `AngDiff` unchanged) have the same reduced area,
    wherever the prime meridian falls -/
theorem area_shift_invariant (S : ℚ → ℚ → ℚ → ℚ) (A : ℚ) (es es' : List REdge)
    (h : List.Forall₂ (fun e e' : REdge => e'.φ1 = e.φ1 ∧ e'.φ2 = e.φ2 ∧ e'.d = e.d) es es')
    (hc : Cyclic es) (hc' : Cyclic es') (hok : ∀ e ∈ es, e.ok) (hok' : ∀ e ∈ es', e.ok) (rv sg : Bool) :
    areaReduce (rawArea S es') A (crossings es') rv sg = areaReduce (rawArea S es) A (crossings es) rv sg := by
  have h1 : rawArea S es' = rawArea S es ∧ (es'.map (·.d)).sum = (es.map (·.d)).sum := by
    clear hc hc' hok hok'
    induction h with
    | nil => exact ⟨rfl, rfl⟩
    | cons hr _ ih =>
      obtain ⟨a, b, c⟩ := hr
      simp only [rawArea, List.map_cons, List.sum_cons] at ih ⊢
      rw [a, b, c, ih.1, ih.2]; exact ⟨rfl, rfl⟩
  have h2 : crossings es' = crossings es := by
    have a := crossings_swept es hc hok
    have b := crossings_swept es' hc' hok'
    rw [h1.2] at b
    have : (crossings es' : ℚ) = crossings es := by linarith
    exact_mod_cast this
  rw [h1.1, h2]

/-- non-vacuity: the triangle with longitudes −10, 100, 170 and the same triangle shifted by +30
    (170 + 30 = 200 is normalised to −160): all `lon12` are unchanged, both are closed chains -/
example : Cyclic [⟨0, 1, 110, -10, 100, 0⟩, ⟨1, 2, 70, 100, 170, 0⟩, ⟨2, 0, 180, 170, -10, 1⟩] ∧
    Cyclic [⟨0, 1, 110, 20, 130, 0⟩, ⟨1, 2, 70, 130, -160, 1⟩, ⟨2, 0, 180, -160, 20, 0⟩] ∧
    (∀ e ∈ [(⟨0, 1, 110, -10, 100, 0⟩ : REdge), ⟨1, 2, 70, 100, 170, 0⟩, ⟨2, 0, 180, 170, -10, 1⟩], e.ok) ∧
    (∀ e ∈ [(⟨0, 1, 110, 20, 130, 0⟩ : REdge), ⟨1, 2, 70, 130, -160, 1⟩, ⟨2, 0, 180, -160, 20, 0⟩], e.ok) := by
  refine ⟨by simp [Cyclic], by simp [Cyclic], ?_, ?_⟩ <;>
  · intro e he
    simp only [List.mem_cons, List.not_mem_nil, or_false] at he
    rcases he with rfl | rfl | rfl <;> exact ⟨by norm_num, by norm_num, by norm_num, by norm_num⟩

/-! ### non-vacuity of the hypotheses of `reverse_traversal` / `cut_additive` -/

/-- a toy backend with symmetric distances and antisymmetric areas -/
def toyB : Backend := fun p q => ((toRat p.2 - toRat q.2) ^ 2, toRat q.2 - toRat p.2)

def vA : Vertex := (F64.ofInt 0, F64.ofInt (-10))
def vB : Vertex := (F64.ofInt 40, F64.ofInt 100)
def vC : Vertex := (F64.ofInt 10, F64.ofInt 170)
def vD : Vertex := (F64.ofInt (-20), F64.ofInt (-120))

example : (∀ p q, (toyB q p).1 = (toyB p q).1) ∧ (∀ p q, (toyB q p).2 = -(toyB p q).2) :=
  ⟨fun p q => by simp only [toyB]; ring, fun p q => by simp only [toyB]; ring⟩
/-- every pair of these vertices (so every edge and every diagonal) has crossing counts of equal parity in its two
    directions; the polygon goes once round the pole (one net crossing of the prime meridian) -/
example : ∀ p ∈ [vA, vB, vC, vD], ∀ q ∈ [vA, vB, vC, vD], (transit q.2 p.2 + transit p.2 q.2) % 2 = 0 := by
  decide +kernel
example : cyc fT [vA, vB, vC, vD] = 1 := by decide +kernel

/-! ## Edit histories: every sequence of `Clear / AddPoint / AddEdge / TestPoint / TestEdge / Compute`, any solver -/

/-- **(b) edit-history independence, exact-sum model**: after *any* history the state — `_num`, `_crossings`, the two
    sums, `_lat0, _lon0, _lat1, _lon1`, the mode — is the state reached by the `Add*` operations after the last `Clear`
    alone; `TestPoint`, `TestEdge`, `Compute` and everything before the last `Clear` leave no trace -/
theorem history_independent (B : Polygon.Backend) (A : ℚ) (pl : Bool) (ops : List Op) :
    run B A (init pl) ops = run B A (init pl) (effective ops) := by
  unfold run
  exact foldl_effective (fun s op => (exec B A s op).1) (fun s => s.polyline = pl) (init pl) rfl
    (fun s op h => by rw [exec_polyline]; exact h) (fun s h => by simp [exec, clear, h])
    (fun s op => exec_observer B A s op) ops

/-- **(b) for the concrete record** (`PolygonF.StateF`: `_num`, `_crossings`, both words of `_areasum` and of
    `_perimetersum`, `_lat0, _lon0, _lat1, _lon1`, `_polyline`, every operation as the code's sequence of binary64
    operations): the same statement, bit for bit -/
theorem history_independent_record (B : Polygon.Backend) (A : F64) (pl : Bool) (ops : List Op) :
    PolygonF.run B A (PolygonF.init pl) ops = PolygonF.run B A (PolygonF.init pl) (effective ops) := by
  unfold PolygonF.run
  exact foldl_effective (fun s op => (PolygonF.exec B A s op).1) (fun s => s.polyline = pl) (PolygonF.init pl) rfl
    (fun s op h => by rw [execF_polyline]; exact h) (fun s h => by simp [PolygonF.exec, PolygonF.clear, h])
    (fun s op => execF_observer B A s op) ops

/-- **clearing restores the empty state**, after any history whatever -/
theorem clear_after_any_history (B : Polygon.Backend) (A : ℚ) (pl : Bool) (ops : List Op) :
    run B A (init pl) (ops ++ [Op.clear]) = init pl := by
  rw [history_independent, effective_append_clear]; rfl

theorem clear_after_any_history_record (B : Polygon.Backend) (A : F64) (pl : Bool) (ops : List Op) :
    PolygonF.run B A (PolygonF.init pl) (ops ++ [Op.clear]) = PolygonF.init pl := by
  rw [history_independent_record, effective_append_clear]; rfl

/-- the queries are observers: whatever was asked before, a query returns what it returns on the object built by the
    effective `Add*` operations alone -/
theorem query_after_history (B : Polygon.Backend) (A : ℚ) (pl : Bool) (pre post : List Op) (q : Op) :
    (trace B A (init pl) (pre ++ q :: post))[pre.length]? = some (exec B A (run B A (init pl) (effective pre)) q) := by
  rw [trace_append, List.getElem?_append_right (by rw [trace_length]), trace_length, Nat.sub_self,
    ← history_independent]
  rfl

/-- non-vacuity / what `effective` is on a concrete history: two vertices, a query, `Clear`, an ignored edge, a vertex,
    a query, an edge -/
example (a b c d : F64) : effective [.addPoint a b, .addPoint c d, .compute true false, .clear, .addEdge a b,
      .addPoint c d, .testPoint a b false true, .addEdge c d]
    = [.addEdge a b, .addPoint c d, .addEdge c d] := rfl

/-! ### (e) the count returned by `Compute` / `TestPoint` / `TestEdge` -/

/-- the number of vertices of the polygon a history describes: `Clear` starts again, every point counts, an edge counts
    once there is a point to start from (documented: `AddEdge` "does nothing if no points have been added yet") -/
def countV : List Op → ℕ → ℕ
  | [], n => n
  | .clear :: r, _ => countV r 0
  | .addPoint .. :: r, n => countV r (n + 1)
  | .addEdge .. :: r, n => countV r (if n = 0 then 0 else n + 1)
  | _ :: r, n => countV r n

theorem num_eq_count (B : Polygon.Backend) (A : ℚ) (st : State) (ops : List Op) : (run B A st ops).num = countV ops st.num := by
  induction ops generalizing st with
  | nil => rfl
  | cons op ops ih =>
    have h : run B A st (op :: ops) = run B A (exec B A st op).1 ops := rfl
    rw [h, ih]
    cases op <;> simp only [countV, exec, clear, init, addPoint, addEdge] <;> split_ifs <;> simp_all

theorem num_eq_count_record (B : Polygon.Backend) (A : F64) (st : PolygonF.StateF) (ops : List Op) :
    (PolygonF.run B A st ops).num = countV ops st.num := by
  induction ops generalizing st with
  | nil => rfl
  | cons op ops ih =>
    have h : PolygonF.run B A st (op :: ops) = PolygonF.run B A (PolygonF.exec B A st op).1 ops := rfl
    rw [h, ih]
    cases op <;> simp only [countV, PolygonF.exec, PolygonF.clear, PolygonF.init, PolygonF.addPoint, PolygonF.addEdge] <;>
      split_ifs <;> simp_all

/-- the count a query reports, as a function of the number of vertices `n` of the polygon so far -/
def countOf (q : Op) (n : ℕ) : ℕ :=
  match q with
  | .testPoint .. => n + 1
  | .testEdge .. => if n = 0 then 0 else n + 1
  | _ => n

/-- **(e)**: for every history `pre`, every query `q` issued after it returns the number of vertices of the polygon
    described by `pre` (`+ 1` for the tentative vertex of `TestPoint` / `TestEdge`; `TestEdge` without a starting point
    returns 0) -/
theorem count_returned (B : Polygon.Backend) (A : ℚ) (pl : Bool) (pre : List Op) (q : Op) (res : Result)
    (h : (exec B A (run B A (init pl) pre) q).2 = some res) : res.num = countOf q (countV pre 0) := by
  have hn := num_eq_count B A (init pl) pre
  have h0 : (init pl).num = 0 := rfl
  rw [h0] at hn
  cases q with
  | clear => simp [exec] at h
  | addPoint => simp [exec] at h
  | addEdge => simp [exec] at h
  | compute rv sg =>
    simp only [exec, Option.some.injEq] at h; subst h
    unfold compute countOf; split_ifs <;> simp [hn]
  | testPoint lat lon rv sg =>
    simp only [exec, Option.some.injEq] at h; subst h
    rw [← hn]; clear hn
    generalize run B A (init pl) pre = st
    unfold testPoint countOf; split_ifs <;> simp_all
  | testEdge azi s rv sg =>
    simp only [exec, Option.some.injEq] at h; subst h
    rw [← hn]; clear hn
    generalize run B A (init pl) pre = st
    unfold testEdge countOf; split_ifs <;> simp_all

/-- the same for the bit-level record -/
theorem count_returned_record (B : Polygon.Backend) (A : F64) (pl : Bool) (pre : List Op) (q : Op) (res : PolygonF.ResultF)
    (h : (PolygonF.exec B A (PolygonF.run B A (PolygonF.init pl) pre) q).2 = some res) : res.num = countOf q (countV pre 0) := by
  have hn := num_eq_count_record B A (PolygonF.init pl) pre
  have h0 : (PolygonF.init pl).num = 0 := rfl
  rw [h0] at hn
  cases q with
  | clear => simp [PolygonF.exec] at h
  | addPoint => simp [PolygonF.exec] at h
  | addEdge => simp [PolygonF.exec] at h
  | compute rv sg =>
    simp only [PolygonF.exec, Option.some.injEq] at h; subst h
    unfold PolygonF.compute countOf; split_ifs <;> simp [hn]
  | testPoint lat lon rv sg =>
    simp only [PolygonF.exec, Option.some.injEq] at h; subst h
    rw [← hn]; clear hn
    generalize PolygonF.run B A (PolygonF.init pl) pre = st
    unfold PolygonF.testPoint countOf; split_ifs <;> simp_all
  | testEdge azi s rv sg =>
    simp only [PolygonF.exec, Option.some.injEq] at h; subst h
    rw [← hn]; clear hn
    generalize PolygonF.run B A (PolygonF.init pl) pre = st
    unfold PolygonF.testEdge countOf; split_ifs <;> simp_all

/-- what `countV` counts: a first point followed by `m` further `Add*` operations gives `m + 1` vertices;
    edges before the first point are ignored -/
theorem countV_adds (r : List Op) (n : ℕ) (hn : n ≠ 0) (ha : ∀ op ∈ r, op.isAdd = true) : countV r n = n + r.length := by
  induction r generalizing n with
  | nil => rfl
  | cons op r ih =>
    have h1 := ha op (by simp)
    have h2 := fun n hn => ih n hn (fun o ho => ha o (List.mem_cons_of_mem _ ho))
    cases op <;> simp_all [Op.isAdd, countV] <;> omega

theorem countV_edge_first (r : List Op) (azi s : F64) : countV (.addEdge azi s :: r) 0 = countV r 0 := rfl


/-! ### closed form of an arbitrary history; polyline mode (a) -/

/-- one edge as the bookkeeping sees it: length, area term, crossing count -/
structure EdgeRec where
  s : ℚ
  S : ℚ
  cross : ℤ

/-- the edges laid down by the `Add*` operations of a history (no `Clear`), `cur` = the current vertex if there is one:
    a point after the first one is joined to its predecessor by the solver's inverse problem (crossings by `transit`), an
    edge goes where the solver's direct problem says (crossings by `transitdirect`), an edge before the first point is
    ignored -/
def edgesOf (B : Polygon.Backend) : Option Vertex → List Op → List EdgeRec
  | _, [] => []
  | none, .addPoint lat lon :: r => edgesOf B (some (lat, lon)) r
  | some p, .addPoint lat lon :: r =>
      ⟨toRat (B.inverse p.1 p.2 lat lon).1, toRat (B.inverse p.1 p.2 lat lon).2, transit p.2 lon⟩ :: edgesOf B (some (lat, lon)) r
  | none, .addEdge _ _ :: r => edgesOf B none r
  | some p, .addEdge azi s :: r =>
      ⟨toRat s, toRat (B.direct p.1 p.2 azi s).2.2, transitdirect p.2 (B.direct p.1 p.2 azi s).2.1⟩ ::
        edgesOf B (some ((B.direct p.1 p.2 azi s).1, (B.direct p.1 p.2 azi s).2.1)) r
  | c, .clear :: r => edgesOf B c r
  | c, .compute .. :: r => edgesOf B c r
  | c, .testPoint .. :: r => edgesOf B c r
  | c, .testEdge .. :: r => edgesOf B c r

/-- the current vertex of a state -/
def curOf (st : State) : Option Vertex := if st.num = 0 then none else some (st.lat1, st.lon1)

/-- **closed form of an arbitrary history** -/
theorem run_closed_form (B : Polygon.Backend) (A : ℚ) (ops : List Op) (hc : ∀ op ∈ ops, op.isClear = false) (st : State) :
    (run B A st ops).perimsum = st.perimsum + ((edgesOf B (curOf st) ops).map (·.s)).sum ∧
    (run B A st ops).areasum = st.areasum + (if st.polyline then 0 else ((edgesOf B (curOf st) ops).map (·.S)).sum) ∧
    (run B A st ops).crossings = st.crossings + (if st.polyline then 0 else ((edgesOf B (curOf st) ops).map (·.cross)).sum) ∧
    (run B A st ops).polyline = st.polyline := by
  induction ops generalizing st with
  | nil => simp [run, edgesOf]
  | cons op r ih =>
    have hr := fun st => ih (fun o ho => hc o (List.mem_cons_of_mem _ ho)) st
    have hop := hc op (by simp)
    rw [run_cons]
    obtain ⟨h1, h2, h3, h4⟩ := hr (exec B A st op).1
    rw [h1, h2, h3, h4]
    cases op with
    | clear => simp [Op.isClear] at hop
    | compute rv sg => simp only [exec, edgesOf]; exact ⟨trivial, rfl, rfl, trivial⟩
    | testPoint lat lon rv sg => simp only [exec, edgesOf]; exact ⟨trivial, rfl, rfl, trivial⟩
    | testEdge azi s rv sg => simp only [exec, edgesOf]; exact ⟨trivial, rfl, rfl, trivial⟩
    | addPoint lat lon =>
      by_cases h0 : st.num = 0
      · simp [exec, addPoint, h0, curOf, edgesOf]
      · cases hp : st.polyline <;> simp [exec, addPoint, h0, curOf, edgesOf, hp] <;> (try ring_nf) <;> (try simp)
    | addEdge azi s =>
      by_cases h0 : st.num = 0
      · simp [exec, addEdge, h0, curOf, edgesOf]
      · cases hp : st.polyline <;> simp [exec, addEdge, h0, curOf, edgesOf, hp] <;> (try ring_nf) <;> (try simp)

/-- the edges of the polygon a history describes -/
def historyEdges (B : Polygon.Backend) (ops : List Op) : List EdgeRec := edgesOf B none (effective ops)

/-- sums of an arbitrary history (polygon mode): length, area term and crossing count of every edge laid down since the
    last `Clear`, whatever was queried in between -/
theorem sums_of_history (B : Polygon.Backend) (A : ℚ) (pl : Bool) (ops : List Op) :
    (run B A (init pl) ops).perimsum = ((historyEdges B ops).map (·.s)).sum ∧
    (run B A (init pl) ops).areasum = (if pl then 0 else ((historyEdges B ops).map (·.S)).sum) ∧
    (run B A (init pl) ops).crossings = (if pl then 0 else ((historyEdges B ops).map (·.cross)).sum) ∧
    (run B A (init pl) ops).polyline = pl ∧
    (run B A (init pl) ops).num = countV ops 0 := by
  have hc := run_closed_form B A (effective ops) (effective_no_clear_mem ops) (init pl)
  rw [← history_independent] at hc
  obtain ⟨h1, h2, h3, h4⟩ := hc
  refine ⟨?_, ?_, ?_, h4, num_eq_count B A (init pl) ops⟩
  · rw [h1]; simp [init, curOf, historyEdges]
  · rw [h2]; simp [init, curOf, historyEdges]
  · rw [h3]; simp [init, curOf, historyEdges]

/-- **(a) polyline mode, state**: whatever the history, a polyline never touches the area sum or the crossing counter -/
theorem polyline_never_touches_area (B : Polygon.Backend) (A : ℚ) (ops : List Op) :
    (run B A (init true) ops).areasum = 0 ∧ (run B A (init true) ops).crossings = 0 := by
  obtain ⟨_, h2, h3, _, _⟩ := sums_of_history B A true ops
  exact ⟨by simpa using h2, by simpa using h3⟩

/-- **(a) polyline mode, `Compute`**: after any history `Compute` returns the number of vertices and the sum of the lengths
    of the edges laid down since the last `Clear` (the path is not closed) and does not write the area -/
theorem polyline_compute (B : Polygon.Backend) (A : ℚ) (ops : List Op) (rv sg : Bool) :
    (exec B A (run B A (init true) ops) (.compute rv sg)).2 =
      some ⟨countV ops 0, some ((historyEdges B ops).map (·.s)).sum, none⟩ := by
  obtain ⟨h1, _, _, h4, h5⟩ := sums_of_history B A true ops
  have hf := fresh_run B A ops (init true) (fresh_init true)
  simp only [exec, compute, h4, if_true]
  split_ifs with hlt
  · have := (hf hlt).1
    rw [← h1, this, h5]
  · rw [h1, h5]

/-- **(a) polygon mode for comparison, `Compute`**: the perimeter is the sum of the edge lengths plus the closing edge, the
    area is `AreaReduce` of the sum of the area terms plus the closing edge's, with all the crossings -/
theorem polygon_compute (B : Polygon.Backend) (A : ℚ) (ops : List Op) (rv sg : Bool) (h2 : 2 ≤ countV ops 0) :
    let st := run B A (init false) ops
    let k := B.inverse st.lat1 st.lon1 st.lat0 st.lon0
    (exec B A st (.compute rv sg)).2 =
      some ⟨countV ops 0, some (((historyEdges B ops).map (·.s)).sum + toRat k.1),
        some (some (areaReduce (((historyEdges B ops).map (·.S)).sum + toRat k.2) A
          (((historyEdges B ops).map (·.cross)).sum + transit st.lon1 st.lon0) rv sg))⟩ := by
  intro st k
  obtain ⟨h1, h2', h3, h4, h5⟩ := sums_of_history B A false ops
  have hn : ¬ st.num < 2 := by show ¬ (run B A (init false) ops).num < 2; rw [h5]; omega
  simp only [exec, compute, hn, if_false]
  have hp : st.polyline = false := h4
  simp only [hp, Bool.false_eq_true, if_false]
  show some (Result.mk (run B A (init false) ops).num _ _) = _
  rw [h5, h1, h2', h3]; simp only [Bool.false_eq_true, if_false]; rfl

/-- **(a) dataflow**: in polyline mode nothing that is returned or stored depends on the solver's area output `S12` (nor on
    the second inverse problem of `TestPoint`): two solvers that agree on distances and positions give identical traces -/
theorem polyline_S12_irrelevant (B B' : Polygon.Backend) (A : ℚ)
    (hinv : ∀ a b c d, (B.inverse a b c d).1 = (B'.inverse a b c d).1)
    (hdir : ∀ a b c d, (B.direct a b c d).1 = (B'.direct a b c d).1 ∧ (B.direct a b c d).2.1 = (B'.direct a b c d).2.1)
    (ops : List Op) (st : State) (hp : st.polyline = true) :
    trace B A st ops = trace B' A st ops := by
  induction ops generalizing st with
  | nil => rfl
  | cons op r ih =>
    have he : exec B A st op = exec B' A st op := by
      cases op with
      | clear => rfl
      | addPoint lat lon => simp [exec, addPoint, hp, hinv]
      | addEdge azi s => simp [exec, addEdge, hp, (hdir _ _ _ _).1, (hdir _ _ _ _).2]
      | compute rv sg => simp [exec, compute, hp]
      | testPoint lat lon rv sg => simp [exec, testPoint, hp, hinv]
      | testEdge azi s rv sg => simp [exec, testEdge, hp]
    simp only [trace, he]
    rw [ih _ (by rw [exec_polyline]; exact hp)]

/-- every query on a polyline leaves the area reference unwritten -/
theorem polyline_results (B : Polygon.Backend) (A : ℚ) (pre : List Op) (q : Op) (res : Result)
    (h : (exec B A (run B A (init true) pre) q).2 = some res) : res.area = none := by
  have hp : (run B A (init true) pre).polyline = true := (sums_of_history B A true pre).2.2.2.1
  generalize run B A (init true) pre = st at h hp
  cases q with
  | clear => simp [exec] at h
  | addPoint => simp [exec] at h
  | addEdge => simp [exec] at h
  | compute rv sg => simp only [exec, Option.some.injEq] at h; subst h; simp [compute, hp]; split_ifs <;> rfl
  | testPoint lat lon rv sg => simp only [exec, Option.some.injEq] at h; subst h; simp [testPoint, hp]; split_ifs <;> rfl
  | testEdge azi s rv sg => simp only [exec, Option.some.injEq] at h; subst h; simp [testEdge, hp]; split_ifs <;> rfl


/-! ### (c) a polygon built with `AddEdge` is the polygon through the vertices the solver's `Direct` returns -/

/-- `AreaReduce` sees the crossing count only through its parity -/
theorem areaReduce_parity (area A : ℚ) (c c' : ℤ) (h : c % 2 = c' % 2) (rv sg : Bool) :
    areaReduce area A c rv sg = areaReduce area A c' rv sg := by
  unfold areaReduce; rw [h]

/-- two objects that differ at most in the value (not the parity) of the crossing counter -/
structure Sim (a b : State) : Prop where
  num : a.num = b.num
  cross : a.crossings % 2 = b.crossings % 2
  area : a.areasum = b.areasum
  perim : a.perimsum = b.perimsum
  lat0 : a.lat0 = b.lat0
  lon0 : a.lon0 = b.lon0
  lat1 : a.lat1 = b.lat1
  lon1 : a.lon1 = b.lon1
  poly : a.polyline = b.polyline

theorem Sim.refl (a : State) : Sim a a := ⟨rfl, rfl, rfl, rfl, rfl, rfl, rfl, rfl, rfl⟩

/-- such objects answer every query identically … -/
theorem sim_query (B : Polygon.Backend) (A : ℚ) {a b : State} (h : Sim a b) (q : Op) : (exec B A a q).2 = (exec B A b q).2 := by
  obtain ⟨h1, h2, h3, h4, h5, h6, h7, h8, h9⟩ := h
  cases q with
  | clear => rfl
  | addPoint => rfl
  | addEdge => rfl
  | compute rv sg =>
    simp only [exec, compute, h1, h3, h4, h5, h6, h7, h8, h9]
    rw [areaReduce_parity _ A (a.crossings + _) (b.crossings + transit b.lon1 b.lon0) (by omega)]
  | testPoint lat lon rv sg =>
    simp only [exec, testPoint, h1, h3, h4, h5, h6, h7, h8, h9]
    rw [areaReduce_parity _ A (a.crossings + _ + _) (b.crossings + transit b.lon1 lon + transit lon b.lon0) (by omega)]
  | testEdge azi s rv sg =>
    simp only [exec, testEdge, h1, h3, h4, h5, h6, h7, h8, h9]
    rw [areaReduce_parity _ A (a.crossings + _ + _) (b.crossings + transitdirect b.lon1 (B.direct b.lat1 b.lon1 azi s).2.1 +
      transit (B.direct b.lat1 b.lon1 azi s).2.1 b.lon0) (by omega)]

/-- … and stay so under every operation -/
theorem sim_exec (B : Polygon.Backend) (A : ℚ) {a b : State} (h : Sim a b) (op : Op) : Sim (exec B A a op).1 (exec B A b op).1 := by
  obtain ⟨h1, h2, h3, h4, h5, h6, h7, h8, h9⟩ := h
  cases op with
  | clear => simp only [exec, clear, h9]; exact Sim.refl _
  | compute rv sg => exact ⟨h1, h2, h3, h4, h5, h6, h7, h8, h9⟩
  | testPoint lat lon rv sg => exact ⟨h1, h2, h3, h4, h5, h6, h7, h8, h9⟩
  | testEdge azi s rv sg => exact ⟨h1, h2, h3, h4, h5, h6, h7, h8, h9⟩
  | addPoint lat lon =>
    by_cases h0 : b.num = 0
    · simp only [exec, addPoint, h1, h0, if_true]
      exact ⟨rfl, h2, h3, h4, rfl, rfl, rfl, rfl, h9⟩
    · simp only [exec, addPoint, h1, h0, if_false, h3, h4, h7, h8, h9]
      refine ⟨rfl, ?_, rfl, rfl, h5, h6, rfl, rfl, rfl⟩
      show (if b.polyline then a.crossings else a.crossings + transit b.lon1 lon) % 2 = (if b.polyline then b.crossings else b.crossings + transit b.lon1 lon) % 2
      split_ifs <;> omega
  | addEdge azi s =>
    by_cases h0 : b.num = 0
    · simp only [exec, addEdge, h1, h0, if_true]
      exact ⟨h1, h2, h3, h4, h5, h6, h7, h8, h9⟩
    · simp only [exec, addEdge, h1, h0, if_false, h3, h4, h7, h8, h9]
      refine ⟨rfl, ?_, rfl, rfl, h5, h6, rfl, rfl, rfl⟩
      show (if b.polyline then a.crossings else a.crossings + _) % 2 = (if b.polyline then b.crossings else b.crossings + _) % 2
      split_ifs <;> omega

/-- the solver contract for one edge: the inverse problem between the start `p` of the edge and the end its direct problem
    returns gives back the edge (same length, same area term), and the two crossing counters agree in parity
    (`transitdirect_transit_parity` below: true whenever the end longitude is the start longitude plus `AngDiff`) -/
def Consistent (B : Polygon.Backend) (p : Vertex) (azi s : F64) : Prop :=
  toRat (B.inverse p.1 p.2 (B.direct p.1 p.2 azi s).1 (B.direct p.1 p.2 azi s).2.1).1 = toRat s ∧
  toRat (B.inverse p.1 p.2 (B.direct p.1 p.2 azi s).1 (B.direct p.1 p.2 azi s).2.1).2 = toRat (B.direct p.1 p.2 azi s).2.2 ∧
  (transitdirect p.2 (B.direct p.1 p.2 azi s).2.1 - transit p.2 (B.direct p.1 p.2 azi s).2.1) % 2 = 0

/-- one step: adding the edge and adding the point it leads to keep the objects similar -/
theorem sim_edge_point (B : Polygon.Backend) (A : ℚ) {a b : State} (h : Sim a b) (azi s : F64)
    (hc : b.num ≠ 0 → Consistent B (b.lat1, b.lon1) azi s) :
    Sim (exec B A a (.addEdge azi s)).1
      (if b.num = 0 then b else (exec B A b (.addPoint (B.direct b.lat1 b.lon1 azi s).1 (B.direct b.lat1 b.lon1 azi s).2.1)).1) := by
  obtain ⟨h1, h2, h3, h4, h5, h6, h7, h8, h9⟩ := h
  by_cases h0 : b.num = 0
  · simp only [exec, addEdge, h1, h0, if_true]
    exact ⟨h1, h2, h3, h4, h5, h6, h7, h8, h9⟩
  · obtain ⟨c1, c2, c3⟩ := hc h0
    simp only [exec, addEdge, addPoint, h1, h0, if_false, h3, h4, h7, h8, h9, c1, c2]
    refine ⟨rfl, ?_, rfl, rfl, h5, h6, rfl, rfl, rfl⟩
    show (if b.polyline then a.crossings else a.crossings + _) % 2 = (if b.polyline then b.crossings else b.crossings + _) % 2
    split_ifs
    · exact h2
    · simp only at c3; omega

/-- the history in which every edge has been replaced by the point it leads to (`cur` = the current vertex) -/
def pointsFor (B : Polygon.Backend) : Option Vertex → List Op → List Op
  | _, [] => []
  | _, .clear :: r => .clear :: pointsFor B none r
  | _, .addPoint lat lon :: r => .addPoint lat lon :: pointsFor B (some (lat, lon)) r
  | none, .addEdge _ _ :: r => pointsFor B none r
  | some p, .addEdge azi s :: r =>
      .addPoint (B.direct p.1 p.2 azi s).1 (B.direct p.1 p.2 azi s).2.1 ::
        pointsFor B (some ((B.direct p.1 p.2 azi s).1, (B.direct p.1 p.2 azi s).2.1)) r
  | c, .compute rv sg :: r => .compute rv sg :: pointsFor B c r
  | c, .testPoint lat lon rv sg :: r => .testPoint lat lon rv sg :: pointsFor B c r
  | c, .testEdge azi s rv sg :: r => .testEdge azi s rv sg :: pointsFor B c r

/-- the solver contract along a history: every edge that is actually laid down is `Consistent` -/
def AllConsistent (B : Polygon.Backend) : Option Vertex → List Op → Prop
  | _, [] => True
  | _, .clear :: r => AllConsistent B none r
  | _, .addPoint lat lon :: r => AllConsistent B (some (lat, lon)) r
  | none, .addEdge _ _ :: r => AllConsistent B none r
  | some p, .addEdge azi s :: r =>
      Consistent B p azi s ∧ AllConsistent B (some ((B.direct p.1 p.2 azi s).1, (B.direct p.1 p.2 azi s).2.1)) r
  | c, .compute _ _ :: r => AllConsistent B c r
  | c, .testPoint _ _ _ _ :: r => AllConsistent B c r
  | c, .testEdge _ _ _ _ :: r => AllConsistent B c r

/-- what the queries of a history return, in order -/
def answers (B : Polygon.Backend) (A : ℚ) (st : State) (ops : List Op) : List Result :=
  (trace B A st ops).filterMap (·.2)

theorem answers_cons (B : Polygon.Backend) (A : ℚ) (st : State) (op : Op) (r : List Op) :
    answers B A st (op :: r) = ((exec B A st op).2.toList) ++ answers B A (exec B A st op).1 r := by
  unfold answers
  simp only [trace, List.filterMap_cons]
  cases (exec B A st op).2 <;> simp

/-- **(c) edges as points**: in every history (any mixture of the six operations) whose laid-down edges satisfy the solver
    contract, replacing each `AddEdge` by `AddPoint` of the vertex the solver's direct problem returns changes no answer
    of any query, and the final objects differ at most in the value (not the parity) of the crossing counter -/
theorem edges_as_points (B : Polygon.Backend) (A : ℚ) (ops : List Op) (a b : State) (h : Sim a b)
    (hcons : AllConsistent B (curOf b) ops) :
    answers B A a ops = answers B A b (pointsFor B (curOf b) ops) ∧
    Sim (run B A a ops) (run B A b (pointsFor B (curOf b) ops)) := by
  induction ops generalizing a b with
  | nil => exact ⟨rfl, h⟩
  | cons op r ih =>
    have hq := sim_query B A h op
    cases op with
    | clear =>
      have hs := sim_exec B A h .clear
      have hcur : curOf (exec B A b .clear).1 = none := by simp [exec, clear, init, curOf]
      have := ih _ _ hs (by rw [hcur]; exact hcons)
      rw [hcur] at this
      simp only [pointsFor, answers_cons, run_cons]
      exact ⟨by rw [this.1, hq], this.2⟩
    | addPoint lat lon =>
      have hs := sim_exec B A h (.addPoint lat lon)
      have hcur : curOf (exec B A b (.addPoint lat lon)).1 = some (lat, lon) := by
        by_cases h0 : b.num = 0 <;> simp [exec, addPoint, curOf, h0]
      have := ih _ _ hs (by rw [hcur]; exact hcons)
      rw [hcur] at this
      simp only [pointsFor, answers_cons, run_cons]
      exact ⟨by rw [this.1, hq], this.2⟩
    | compute rv sg =>
      have := ih _ _ (sim_exec B A h (.compute rv sg)) hcons
      simp only [pointsFor, answers_cons, run_cons]
      exact ⟨by rw [hq]; exact congrArg _ this.1, this.2⟩
    | testPoint lat lon rv sg =>
      have := ih _ _ (sim_exec B A h (.testPoint lat lon rv sg)) hcons
      simp only [pointsFor, answers_cons, run_cons]
      exact ⟨by rw [hq]; exact congrArg _ this.1, this.2⟩
    | testEdge azi s rv sg =>
      have := ih _ _ (sim_exec B A h (.testEdge azi s rv sg)) hcons
      simp only [pointsFor, answers_cons, run_cons]
      exact ⟨by rw [hq]; exact congrArg _ this.1, this.2⟩
    | addEdge azi s =>
      by_cases h0 : b.num = 0
      · have hcur : curOf b = none := by simp [curOf, h0]
        rw [hcur] at hcons ⊢
        have hs := sim_edge_point B A h azi s (fun hne => absurd h0 hne)
        rw [if_pos h0] at hs
        have := ih _ _ hs (by rw [hcur]; exact hcons)
        rw [hcur] at this
        simp only [pointsFor, answers_cons, run_cons]
        exact ⟨by simpa [exec] using this.1, this.2⟩
      · have hcur : curOf b = some (b.lat1, b.lon1) := by simp [curOf, h0]
        rw [hcur] at hcons ⊢
        obtain ⟨hc1, hc2⟩ := hcons
        have hs := sim_edge_point B A h azi s (fun _ => hc1)
        rw [if_neg h0] at hs
        have hcur' : curOf (exec B A b (.addPoint (B.direct b.lat1 b.lon1 azi s).1 (B.direct b.lat1 b.lon1 azi s).2.1)).1
            = some ((B.direct b.lat1 b.lon1 azi s).1, (B.direct b.lat1 b.lon1 azi s).2.1) := by
          simp [exec, addPoint, curOf, h0]
        have := ih _ _ hs (by rw [hcur']; exact hc2)
        rw [hcur'] at this
        simp only [pointsFor, answers_cons, run_cons]
        exact ⟨by simpa [exec] using this.1, this.2⟩


/-! ### … hence everything proved about `AddPoint`-built polygons holds for `AddEdge`-built ones -/

/-- the solver seen as the edge function of `polygon` / `polygon_eq` / `start_independent` / `cut_additive` -/
def toQ (B : Polygon.Backend) : Backend :=
  fun p q => (toRat (B.inverse p.1 p.2 q.1 q.2).1, toRat (B.inverse p.1 p.2 q.1 q.2).2)

def pointOps (vs : List Vertex) : List Op := vs.map fun q => Op.addPoint q.1 q.2
def edgeOps (es : List (F64 × F64)) : List Op := es.map fun e => Op.addEdge e.1 e.2

/-- the vertices the solver's direct problem returns along a chain of edges starting at `p` -/
def dverts (B : Polygon.Backend) : Vertex → List (F64 × F64) → List Vertex
  | _, [] => []
  | p, e :: es => ((B.direct p.1 p.2 e.1 e.2).1, (B.direct p.1 p.2 e.1 e.2).2.1) ::
      dverts B ((B.direct p.1 p.2 e.1 e.2).1, (B.direct p.1 p.2 e.1 e.2).2.1) es

theorem pointsFor_edges (B : Polygon.Backend) (p : Vertex) (es : List (F64 × F64)) :
    pointsFor B (some p) (edgeOps es) = pointOps (dverts B p es) := by
  induction es generalizing p with
  | nil => rfl
  | cons e es ih => simp only [edgeOps, List.map_cons, pointsFor, dverts, pointOps] at ih ⊢; rw [ih]

theorem run_points (B : Polygon.Backend) (A : ℚ) (r : List Vertex) (st : State) (p : Vertex) (hn : st.num ≠ 0)
    (hp : (st.lat1, st.lon1) = p) :
    run B A st (pointOps r) = (r.foldl (step (toQ B)) (st, p)).1 ∧
    ((r.foldl (step (toQ B)) (st, p)).1.lat1, (r.foldl (step (toQ B)) (st, p)).1.lon1) = (r.foldl (step (toQ B)) (st, p)).2 ∧
    (r.foldl (step (toQ B)) (st, p)).1.lat0 = st.lat0 ∧ (r.foldl (step (toQ B)) (st, p)).1.lon0 = st.lon0 := by
  induction r generalizing st p with
  | nil => exact ⟨rfl, hp, rfl, rfl⟩
  | cons q r ih =>
    have hstep : step (toQ B) (st, p) q = ((exec B A st (.addPoint q.1 q.2)).1, q) := by
      subst hp; rfl
    have hnew : (exec B A st (.addPoint q.1 q.2)).1.num ≠ 0 := by simp [exec, addPoint, hn]
    have hcur : ((exec B A st (.addPoint q.1 q.2)).1.lat1, (exec B A st (.addPoint q.1 q.2)).1.lon1) = q := by
      simp [exec, addPoint, hn]
    have h0 : (exec B A st (.addPoint q.1 q.2)).1.lat0 = st.lat0 ∧ (exec B A st (.addPoint q.1 q.2)).1.lon0 = st.lon0 := by
      simp [exec, addPoint, hn]
    obtain ⟨i1, i2, i3, i4⟩ := ih _ q hnew hcur
    simp only [pointOps, List.map_cons, List.foldl_cons, run_cons, hstep] at i1 ⊢
    exact ⟨i1, i2, by rw [i3, h0.1], by rw [i4, h0.2]⟩

/-- `Clear; AddPoint v₀; …; AddPoint vₙ₋₁; Compute` in the history machine is `polygon` -/
theorem compute_points (B : Polygon.Backend) (A : ℚ) (rv sg : Bool) (v : Vertex) (r : List Vertex) :
    (exec B A (run B A (init false) (pointOps (v :: r))) (.compute rv sg)).2 = some (polygon (toQ B) A rv sg (v :: r)) := by
  have hfirst : (exec B A (init false) (.addPoint v.1 v.2)).1 = addPoint (init false) v.1 v.2 0 0 := by
    simp [exec, addPoint, init]
  have hn : (addPoint (init false) v.1 v.2 0 0).num ≠ 0 := by simp [addPoint, init]
  obtain ⟨i1, i2, i3, i4⟩ := run_points B A r (addPoint (init false) v.1 v.2 0 0) v hn (by simp [addPoint, init])
  have hrun : run B A (init false) (pointOps (v :: r)) = (r.foldl (step (toQ B)) (addPoint (init false) v.1 v.2 0 0, v)).1 := by
    simp only [pointOps, List.map_cons, run_cons, hfirst] at i1 ⊢; exact i1
  rw [hrun]
  simp only [exec, polygon]
  have e1 := congrArg Prod.fst i2
  have e2 := congrArg Prod.snd i2
  simp only at e1 e2
  have l0 : (addPoint (init false) v.1 v.2 0 0).lat0 = v.1 := by simp [addPoint, init]
  have l1 : (addPoint (init false) v.1 v.2 0 0).lon0 = v.2 := by simp [addPoint, init]
  rw [i3, i4, l0, l1, e1, e2]; rfl

/-- **(c), closed polygons**: `AddPoint v₀; AddEdge e₁; …; AddEdge eₙ; Compute` returns what the `AddPoint`-built polygon
    through `v₀` and the vertices the direct problem returns gives — so `polygon_eq`, `start_independent`,
    `reverse_traversal`, `cut_additive` and the relabelling theorems speak about `AddEdge`-built polygons too -/
theorem edge_polygon_is_point_polygon (B : Polygon.Backend) (A : ℚ) (rv sg : Bool) (v : Vertex) (es : List (F64 × F64))
    (hcons : AllConsistent B (some v) (edgeOps es)) :
    (exec B A (run B A (init false) (.addPoint v.1 v.2 :: edgeOps es)) (.compute rv sg)).2
      = some (polygon (toQ B) A rv sg (v :: dverts B v es)) := by
  have h := edges_as_points B A (.addPoint v.1 v.2 :: edgeOps es) (init false) (init false) (Sim.refl _)
    (by simpa [curOf, init, AllConsistent] using hcons)
  have hp : pointsFor B (curOf (init false)) (.addPoint v.1 v.2 :: edgeOps es) = pointOps (v :: dverts B v es) := by
    simp only [pointsFor, pointsFor_edges]; rfl
  rw [hp] at h
  rw [sim_query B A h.2, compute_points]

/-- non-vacuity of the solver contract: a toy solver whose direct problem lands on `(azi, s)` and whose inverse problem
    reports `(lon2, lon2 − lon1)`; the history crosses longitude 360 eastwards with an edge, is cleared, starts with an
    ignored edge and crosses longitude 0 eastwards -/
def toyD : Polygon.Backend where
  inverse _ lon1 _ lon2 := (lon2, lon2 - lon1)
  direct _ lon1 azi s := (azi, s, s - lon1)

example : AllConsistent toyD none
    [.addPoint (F64.ofInt 0) (F64.ofInt 350), .addEdge (F64.ofInt 10) (F64.ofInt 370), .compute false true,
     .addEdge (F64.ofInt 20) (F64.ofInt 380), .clear, .addEdge (F64.ofInt 1) (F64.ofInt 2),
     .addPoint (F64.ofInt 5) (F64.ofInt (-5)), .testEdge (F64.ofInt 7) (F64.ofInt 3) true true, .addEdge (F64.ofInt 7) (F64.ofInt 3)] := by
  simp only [AllConsistent, Consistent, toyD, and_true, true_and]
  decide +kernel


/-- **why the two crossing counters agree in parity**: when the end longitude handed to `transitdirect` is the start
    longitude plus the signed difference `d = AngDiff` (the unrolled longitude `LONG_UNROLL` asks the solver for), then
    `transitdirect` (through the IEEE remainders `r₁, r₂` modulo 720) and `transit` (through the normalised longitudes
    `n₁, n₂`) count the same crossings modulo 2 -/
theorem transitdirect_transit_parity {d n1 n2 : ℚ} {k : ℤ} (e : Edge d n1 n2 k) (x1 x2 r1 r2 : ℚ) (i j1 j2 : ℤ)
    (hx1 : x1 = n1 + 360 * (i:ℚ)) (hx2 : x2 = x1 + d)
    (h1 : -360 ≤ r1 ∧ r1 ≤ 360) (h2 : -360 ≤ r2 ∧ r2 ≤ 360) (e1 : x1 = r1 + 720 * (j1:ℚ)) (e2 : x2 = r2 + 720 * (j2:ℚ)) :
    transitdirectQ r1 r2 % 2 = transitQ d n1 n2 % 2 := by
  rw [transitdirect_parity x1 x2 r1 r2 j1 j2 h1 h2 e1 e2, transit_eq_floor e]
  have a1 : ⌊x1 / 360⌋ = ⌊n1 / 360⌋ + i := by
    rw [hx1, show (n1 + 360 * (i:ℚ)) / 360 = n1 / 360 + (i:ℚ) by ring, Int.floor_add_intCast]
  have a2 : ⌊x2 / 360⌋ = ⌊(n1 + d) / 360⌋ + i := by
    rw [hx2, hx1, show (n1 + 360 * (i:ℚ) + d) / 360 = (n1 + d) / 360 + (i:ℚ) by ring, Int.floor_add_intCast]
  rw [a1, a2]; congr 1; ring

/-- non-vacuity: the edge from longitude 350 (= −10 normalised, `i = 1`) east by 20° to 370: both counters give 1 -/
example : Edge 20 (-10) 10 0 ∧ (350 : ℚ) = -10 + 360 * ((1:ℤ):ℚ) ∧ (370 : ℚ) = 350 + 20 ∧
    (350 : ℚ) = 350 + 720 * ((0:ℤ):ℚ) ∧ (370 : ℚ) = -350 + 720 * ((1:ℤ):ℚ) ∧ transitdirectQ 350 (-350) = 1 ∧ transitQ 20 (-10) 10 = 1 := by
  refine ⟨⟨by norm_num, by norm_num, by norm_num, by norm_num⟩, by norm_num, by norm_num, by norm_num, by norm_num, by decide +kernel, by decide +kernel⟩


/-! ### the bit-level record and the exact-sum model -/

/-- **(a) for the concrete record**: whatever the history, both words of `_areasum` of a polyline stay `+0` and
    `_crossings` stays 0 -/
theorem polyline_never_touches_area_record (B : Polygon.Backend) (A : F64) (ops : List Op) :
    (PolygonF.run B A (PolygonF.init true) ops).areasum = Accum.set 0 ∧
    (PolygonF.run B A (PolygonF.init true) ops).crossings = 0 ∧
    (PolygonF.run B A (PolygonF.init true) ops).polyline = true := by
  have key : ∀ (ops : List Op) (st : PolygonF.StateF), st.areasum = Accum.set 0 → st.crossings = 0 → st.polyline = true →
      (PolygonF.run B A st ops).areasum = Accum.set 0 ∧ (PolygonF.run B A st ops).crossings = 0 ∧
      (PolygonF.run B A st ops).polyline = true := by
    intro ops
    induction ops with
    | nil => intro st h1 h2 h3; exact ⟨h1, h2, h3⟩
    | cons op r ih =>
      intro st h1 h2 h3
      have hr : PolygonF.run B A st (op :: r) = PolygonF.run B A (PolygonF.exec B A st op).1 r := rfl
      rw [hr]
      apply ih
      · cases op <;> simp only [PolygonF.exec, PolygonF.clear, PolygonF.init, PolygonF.addPoint, PolygonF.addEdge] <;>
          (try split_ifs) <;> simp_all
      · cases op <;> simp only [PolygonF.exec, PolygonF.clear, PolygonF.init, PolygonF.addPoint, PolygonF.addEdge] <;>
          (try split_ifs) <;> simp_all
      · rw [execF_polyline]; exact h3
  exact key ops _ rfl rfl rfl

/-- the discrete part of the record — count, crossing counter, the four coordinates, the mode — is the same in the
    bit-level record and in the exact-sum model, for every history and every solver (the two differ only in how the
    sums are held) -/
structure SameDiscrete (st : State) (sf : PolygonF.StateF) : Prop where
  num : st.num = sf.num
  cross : st.crossings = sf.crossings
  lat0 : st.lat0 = sf.lat0
  lon0 : st.lon0 = sf.lon0
  lat1 : st.lat1 = sf.lat1
  lon1 : st.lon1 = sf.lon1
  poly : st.polyline = sf.polyline

theorem record_discrete_agrees (B : Polygon.Backend) (A : ℚ) (AF : F64) (ops : List Op) (st : State) (sf : PolygonF.StateF)
    (h : SameDiscrete st sf) : SameDiscrete (run B A st ops) (PolygonF.run B AF sf ops) := by
  induction ops generalizing st sf with
  | nil => exact h
  | cons op r ih =>
    have hr : PolygonF.run B AF sf (op :: r) = PolygonF.run B AF (PolygonF.exec B AF sf op).1 r := rfl
    rw [run_cons, hr]
    apply ih
    obtain ⟨h1, h2, h3, h4, h5, h6, h7⟩ := h
    cases op with
    | clear => simp only [exec, PolygonF.exec, clear, PolygonF.clear, h7]; exact ⟨rfl, rfl, rfl, rfl, rfl, rfl, rfl⟩
    | compute rv sg => exact ⟨h1, h2, h3, h4, h5, h6, h7⟩
    | testPoint lat lon rv sg => exact ⟨h1, h2, h3, h4, h5, h6, h7⟩
    | testEdge azi s rv sg => exact ⟨h1, h2, h3, h4, h5, h6, h7⟩
    | addPoint lat lon =>
      by_cases h0 : sf.num = 0
      · simp only [exec, PolygonF.exec, addPoint, PolygonF.addPoint, h1, h0, if_true]
        exact ⟨rfl, h2, rfl, rfl, rfl, rfl, h7⟩
      · simp only [exec, PolygonF.exec, addPoint, PolygonF.addPoint, h1, h0, if_false, h2, h6, h7]
        exact ⟨rfl, rfl, h3, h4, rfl, rfl, rfl⟩
    | addEdge azi s =>
      by_cases h0 : sf.num = 0
      · simp only [exec, PolygonF.exec, addEdge, PolygonF.addEdge, h1, h0, if_true]
        exact ⟨h1, h2, h3, h4, h5, h6, h7⟩
      · simp only [exec, PolygonF.exec, addEdge, PolygonF.addEdge, h1, h0, if_false, h2, h5, h6, h7]
        exact ⟨rfl, rfl, h3, h4, rfl, rfl, rfl⟩


section AccumulatorLevel
open GeoVerif.Accum

/-! ### (d) `AreaReduce` on the two-word accumulator: the four (reverse, sign) outputs -/

/-- the `remainder` step is C16's `Accumulator::remainder` -/
theorem accRemainder_eq (a : Acc) (y : F64) : accRemainder a y = Accum.remainder a y := rfl

/-- the three stages (as for the exact-arithmetic `areaReduce`: `areaReduce_stages`) -/
theorem areaReduceAcc_stages (a : Acc) (A : F64) (c : ℤ) (rv sg : Bool) :
    areaReduceAcc a A c rv sg = windowAcc A sg (orientAcc rv (adjAcc a A c)) := rfl

/-- flipping `reverse` negates the oriented, reduced sum *exactly* (both words) -/
theorem orientAcc_flip (rv : Bool) (a : Acc) : orientAcc (!rv) a = negate (orientAcc rv a) := by
  cases rv <;> simp [orientAcc, negate_negate]

/-- the result is the oriented reduced sum, or that sum with `A` added or subtracted by one `Accumulator::Add` -/
theorem areaReduceAcc_cases (a : Acc) (A : F64) (c : ℤ) (rv sg : Bool) :
    areaReduceAcc a A c rv sg = orientAcc rv (adjAcc a A c) ∨
    areaReduceAcc a A c rv sg = Accum.sub (orientAcc rv (adjAcc a A c)) A ∨
    areaReduceAcc a A c rv sg = Accum.add (orientAcc rv (adjAcc a A c)) A := by
  rw [areaReduceAcc_stages]; unfold windowAcc
  split_ifs <;> simp

/-- the signed window leaves `x` alone: `¬ x > A/2` and `¬ x ≤ −A/2`, as the code tests them -/
def InSigned (A x : F64) : Prop := F64.gt x (A / 2) = false ∧ F64.le x (F64.neg A / 2) = false
/-- the unsigned window leaves `x` alone: `¬ x ≥ A` and `¬ x < 0` -/
def InUnsigned (A x : F64) : Prop := F64.ge x A = false ∧ F64.lt x 0 = false

/-- **`A(reverse, signed) = − A(not reverse, signed)` exactly, on both words**, whenever the reduced sum is strictly inside
    `(−A/2, A/2)` (at `±A/2` both results are `+A/2`: `areaReduce_flip`) -/
theorem areaReduceAcc_signed_flip (a : Acc) (A : F64) (c : ℤ) (rv : Bool)
    (h1 : InSigned A (adjAcc a A c).s) (h2 : InSigned A (F64.neg (adjAcc a A c).s)) :
    areaReduceAcc a A c (!rv) true = negate (areaReduceAcc a A c rv true) := by
  have hw : ∀ o : Acc, InSigned A o.s → windowAcc A true o = o := by
    intro o h; unfold windowAcc; simp [h.1, h.2]
  have hs : ∀ rv, InSigned A (orientAcc rv (adjAcc a A c)).s := by
    intro rv; cases rv
    · simpa [orientAcc, negate] using h2
    · simpa [orientAcc] using h1
  rw [areaReduceAcc_stages, areaReduceAcc_stages, hw _ (hs _), hw _ (hs _), orientAcc_flip]

/-- **unsigned = signed** when the oriented reduced sum is non-negative: the same accumulator, word for word -/
theorem areaReduceAcc_unsigned_eq_signed (a : Acc) (A : F64) (c : ℤ) (rv : Bool)
    (h1 : InSigned A (orientAcc rv (adjAcc a A c)).s) (h2 : InUnsigned A (orientAcc rv (adjAcc a A c)).s) :
    areaReduceAcc a A c rv false = areaReduceAcc a A c rv true := by
  rw [areaReduceAcc_stages, areaReduceAcc_stages]; unfold windowAcc
  simp [h1.1, h1.2, h2.1, h2.2]

/-- **`A(reverse, unsigned) = A0 − A(not reverse, unsigned)` on the accumulator level**: when the oriented reduced sum is
    negative, the unsigned result is *the accumulator* obtained by negating the other orientation's result (exactly) and
    adding `A0` to it with one `Accumulator::Add` -/
theorem areaReduceAcc_unsigned_complement (a : Acc) (A : F64) (c : ℤ) (rv : Bool)
    (hneg : F64.lt (orientAcc rv (adjAcc a A c)).s 0 = true) (hlt : F64.ge (orientAcc rv (adjAcc a A c)).s A = false)
    (h' : InUnsigned A (orientAcc (!rv) (adjAcc a A c)).s) :
    areaReduceAcc a A c rv false = Accum.add (negate (areaReduceAcc a A c (!rv) false)) A := by
  have e1 : areaReduceAcc a A c (!rv) false = orientAcc (!rv) (adjAcc a A c) := by
    rw [areaReduceAcc_stages]; unfold windowAcc; simp [h'.1, h'.2]
  have e2 : areaReduceAcc a A c rv false = Accum.add (orientAcc rv (adjAcc a A c)) A := by
    rw [areaReduceAcc_stages]; unfold windowAcc; simp [hneg, hlt]
  rw [e1, e2, orientAcc_flip, negate_negate]

/-- non-vacuity (`A0 = 16`, the sum `(3, 0)`, no crossings): the signed results are `(−3, −0)` and `(3, 0)`; the unsigned
    result for `reverse = false` is the accumulator `(13, 0) = 16 + (−3)`, the one for `reverse = true` is `(3, 0)` -/
example : InSigned (F64.ofInt 16) (adjAcc ⟨F64.ofInt 3, 0⟩ (F64.ofInt 16) 0).s ∧
    InSigned (F64.ofInt 16) (F64.neg (adjAcc ⟨F64.ofInt 3, 0⟩ (F64.ofInt 16) 0).s) ∧
    F64.lt (orientAcc false (adjAcc ⟨F64.ofInt 3, 0⟩ (F64.ofInt 16) 0)).s 0 = true ∧
    F64.ge (orientAcc false (adjAcc ⟨F64.ofInt 3, 0⟩ (F64.ofInt 16) 0)).s (F64.ofInt 16) = false ∧
    InUnsigned (F64.ofInt 16) (orientAcc true (adjAcc ⟨F64.ofInt 3, 0⟩ (F64.ofInt 16) 0)).s ∧
    F64.same (areaReduceAcc ⟨F64.ofInt 3, 0⟩ (F64.ofInt 16) 0 false false).s (F64.ofInt 13) = true := by
  unfold InSigned InUnsigned; decide +kernel

/-- **… and in value**: under the hypotheses of `areaReduceAcc_unsigned_complement`, with representable words of magnitude
    `≤ 2^1016`, the unsigned results for the two orientations add up to `A0` up to the single rounding of that one
    `Accumulator::Add` (C16 `accum_add_step`: at most `2^-53` of its low-order part) -/
theorem areaReduceAcc_unsigned_complement_held (a : Acc) (A : F64) (c : ℤ) (rv : Bool)
    (hneg : F64.lt (orientAcc rv (adjAcc a A c)).s 0 = true) (hlt : F64.ge (orientAcc rv (adjAcc a A c)).s A = false)
    (h' : InUnsigned A (orientAcc (!rv) (adjAcc a A c)).s)
    (hs : F64.IsRep (orientAcc rv (adjAcc a A c)).s) (ht : F64.IsRep (orientAcc rv (adjAcc a A c)).t) (hA : F64.IsRep A)
    (bs : |(orientAcc rv (adjAcc a A c)).s.val| ≤ (2:ℚ) ^ (1016:ℤ)) (bt : |(orientAcc rv (adjAcc a A c)).t.val| ≤ (2:ℚ) ^ (1016:ℤ))
    (bA : |A.val| ≤ (2:ℚ) ^ (1016:ℤ)) :
    let o := orientAcc rv (adjAcc a A c)
    let p := MathF.sum A o.t
    let q := MathF.sum p.1 o.s
    |heldQ (areaReduceAcc a A c rv false) + heldQ (areaReduceAcc a A c (!rv) false) - A.val|
      ≤ max (|q.2.val + p.2.val| * (2:ℚ) ^ (-(53:ℤ))) ((2:ℚ) ^ (-(1075:ℤ))) := by
  intro o p q
  have e1 : areaReduceAcc a A c (!rv) false = negate o := by
    rw [areaReduceAcc_stages]; unfold windowAcc; simp [h'.1, h'.2]; exact orientAcc_flip rv _
  have e2 : areaReduceAcc a A c rv false = Accum.add o A := by
    rw [areaReduceAcc_stages]; unfold windowAcc; simp [hneg, hlt]; rfl
  have key := (GeoVerif.Props.C16.accum_add_step o A hs ht hA bs bt bA).2.2.2.2
  rw [e1, e2, heldQ_negate]
  have : heldQ (Accum.add o A) + -heldQ o - A.val = (Accum.add o A).s.val + (Accum.add o A).t.val - (o.s.val + o.t.val + A.val) := by
    simp only [heldQ]; ring
  rw [this]; exact key


end AccumulatorLevel

section Tool
open GeoVerif.Planimeter
/-! ### tools/Planimeter: one result line per polygon -/

/-- every vertex line is counted in exactly one result line (`n` = vertices of the polygon being read) -/
theorem segments_sum (l : List Bool) (n : ℕ) : (segments l n).sum = n + l.count true := by
  induction l generalizing n with
  | nil => unfold segments; split_ifs with h <;> simp [h]
  | cons b r ih =>
    cases b
    · unfold segments; split_ifs with h
      · rw [ih]; simp [h]
      · simp [ih]
    · unfold segments; rw [ih]; simp; omega

/-- no result line is printed for a polygon without vertices -/
theorem segments_pos (l : List Bool) (n : ℕ) : ∀ x ∈ segments l n, 0 < x := by
  induction l generalizing n with
  | nil => unfold segments; split_ifs with h <;> simp; omega
  | cons b r ih =>
    cases b
    · unfold segments; split_ifs with h
      · exact ih 0
      · intro x hx; simp only [List.mem_cons] at hx; rcases hx with rfl | hx
        · omega
        · exact ih 0 x hx
    · unfold segments; exact ih (n + 1)

/-- at most one result line per terminator, plus one for the end of the input -/
theorem segments_length (l : List Bool) (n : ℕ) : (segments l n).length ≤ l.count false + 1 := by
  induction l generalizing n with
  | nil => unfold segments; split_ifs <;> simp
  | cons b r ih =>
    cases b
    · unfold segments; split_ifs with h
      · have := ih 0; simp; omega
      · have := ih 0; simp; omega
    · unfold segments; have := ih (n + 1); simpa using this

/-- an input of `k` vertex lines and nothing else is one polygon -/
theorem segments_vertices_only (k n : ℕ) : segments (List.replicate k true) n = if n + k = 0 then [] else [n + k] := by
  induction k generalizing n with
  | zero => simp [segments]
  | succ k ih => rw [List.replicate_succ]; unfold segments; rw [ih]; simp; omega

example : segments [true, true, true, false, false, true, false, true, true] 0 = [3, 1, 2] := by decide


end Tool

end GeoVerif.Props.C08
