import GeoVerif.Model.Polygon
import Mathlib.Algebra.Order.Floor.Ring
import Mathlib.Algebra.Order.Floor.Semiring
import Mathlib.Data.Rat.Floor
import Mathlib.Tactic.Linarith
import Mathlib.Tactic.Ring
import Mathlib.Tactic.NormNum
import Mathlib.Tactic.Positivity
import Mathlib.Tactic.SplitIfs
import Mathlib.Data.List.Rotate
import Mathlib.Algebra.BigOperators.Group.List.Basic
/-!
# C08 — property theorems (polygon bookkeeping)

`transitQ`, `transitdirectQ`, `areaReduce` and the state machine are the
definitions of `Model/Polygon.lean` that the driver executes against the
implementation; here they are studied over ℚ (= core `Rat`).
-/
namespace GeoVerif.Props.C08
open GeoVerif GeoVerif.Polygon

/-- what `AngNormalize` / `AngDiff` guarantee about an edge: all three values in [−180, 180] and
    `n1 + d = n2 + 360 k` for an integer `k` (C16) -/
structure Edge (d n1 n2 : ℚ) (k : ℤ) : Prop where
  hd  : -180 ≤ d ∧ d ≤ 180
  hn1 : -180 ≤ n1 ∧ n1 ≤ 180
  hn2 : -180 ≤ n2 ∧ n2 ≤ 180
  hk  : n1 + d = n2 + 360 * (k : ℚ)

theorem floor_div_360_of_mem {x : ℚ} (h : -180 ≤ x ∧ x ≤ 180) :
    ⌊x / 360⌋ = if x < 0 then -1 else 0 := by
  split_ifs with hx
  · rw [Int.floor_eq_iff]; constructor <;> push_cast <;> [linarith; linarith]
  · push Not at hx
    rw [Int.floor_eq_iff]; constructor <;> push_cast <;> [positivity; linarith]

/-- case analysis behind the pointwise lemma: with `k ∈ {−1, 0, 1}` the code's decision equals the floor jump -/
theorem tcases (d n1 n2 : ℚ) (k : ℤ) (hk' : k = -1 ∨ k = 0 ∨ k = 1)
   (hd1 : -180 ≤ d) (hd2 : d ≤ 180) (h11 : -180 ≤ n1) (h12 : n1 ≤ 180) (h21 : -180 ≤ n2) (h22 : n2 ≤ 180)
   (hk : n1 + d = n2 + 360 * (k:ℚ)) :
   transitQ d n1 n2 = (if n2 < 0 then -1 else 0) + k - (if n1 < 0 then -1 else 0) := by
  unfold transitQ
  have t1 : n1 < 0 ∨ n1 = 0 ∨ 0 < n1 := lt_trichotomy n1 0
  have t2 : n2 < 0 ∨ n2 = 0 ∨ (0 < n2 ∧ n2 < 180) ∨ n2 = 180 := by
    rcases lt_trichotomy n2 0 with h | h | h
    · exact Or.inl h
    · exact Or.inr (Or.inl h)
    · rcases lt_or_eq_of_le h22 with h' | h'
      · exact Or.inr (Or.inr (Or.inl ⟨h, h'⟩))
      · exact Or.inr (Or.inr (Or.inr h'))
  have t3 : d < 0 ∨ d = 0 ∨ 0 < d := lt_trichotomy d 0
  rcases hk' with rfl | rfl | rfl <;> push_cast at hk <;>
  rcases t1 with a | a | a <;> rcases t2 with b | b | ⟨b, b'⟩ | b <;> rcases t3 with c | c | c <;>
  (try subst a) <;> (try subst b) <;> (try subst c) <;>
  first
  | (exfalso; linarith)
  | (norm_num [*, not_lt.mpr, le_of_lt] <;> first | (exfalso; linarith) | (intro h; linarith) | skip)

/-- pointwise: `transit = ⌊(n1+d)/360⌋ − ⌊n1/360⌋` — the number of times the edge passes longitude 0 (mod 360), signed -/
theorem transit_eq_floor {d n1 n2 : ℚ} {k : ℤ} (e : Edge d n1 n2 k) :
    transitQ d n1 n2 = ⌊(n1 + d) / 360⌋ - ⌊n1 / 360⌋ := by
  obtain ⟨⟨hd1, hd2⟩, ⟨h11, h12⟩, ⟨h21, h22⟩, hk⟩ := e
  have hfl : ⌊(n1 + d) / 360⌋ = ⌊n2 / 360⌋ + k := by
    rw [hk]
    have : (n2 + 360 * (k:ℚ)) / 360 = n2 / 360 + (k:ℚ) := by ring
    rw [this, Int.floor_add_intCast]
  rw [hfl, floor_div_360_of_mem ⟨h11, h12⟩, floor_div_360_of_mem ⟨h21, h22⟩]
  have hkl : (-2:ℚ) < (k:ℚ) := by linarith
  have hku : (k:ℚ) < 2 := by linarith
  have hk' : k = -1 ∨ k = 0 ∨ k = 1 := by
    have h1 : (-2:ℤ) < k := by exact_mod_cast hkl
    have h2 : k < 2 := by exact_mod_cast hku
    omega
  exact tcases d n1 n2 k hk' hd1 hd2 h11 h12 h21 h22 hk

/-- a closed chain of edges: consecutive edges share their vertex and the last returns to the first -/
structure Chain (es : List (ℚ × ℚ × ℚ × ℤ)) : Prop where
  edges : ∀ e ∈ es, Edge e.1 e.2.1 e.2.2.1 e.2.2.2
  closed : (es.map fun e => ⌊e.2.2.1 / 360⌋).sum = (es.map fun e => ⌊e.2.1 / 360⌋).sum

/-- a cyclic vertex list (each edge ends where the next begins, the last where the first begins) is closed -/
theorem closed_of_rotate (es : List (ℚ × ℚ × ℚ × ℤ)) (h : es.map (fun e => e.2.2.1) = (es.map fun e => e.2.1).rotate 1) :
    (es.map fun e => ⌊e.2.2.1 / 360⌋).sum = (es.map fun e => ⌊e.2.1 / 360⌋).sum := by
  have h1 : (es.map fun e => ⌊e.2.2.1 / 360⌋) = (es.map fun e => e.2.2.1).map fun x => ⌊x / 360⌋ := by simp
  have h2 : (es.map fun e => ⌊e.2.1 / 360⌋) = (es.map fun e => e.2.1).map fun x => ⌊x / 360⌋ := by simp
  rw [h1, h2, h]
  have hp : ((es.map fun e => e.2.1).rotate 1).Perm (es.map fun e => e.2.1) := List.rotate_perm _ 1
  exact List.Perm.sum_eq (hp.map fun x : ℚ => ⌊x / 360⌋)

/-- start independence: any cyclic sum (perimeter, raw area, crossings) is unchanged when the vertex list is rotated -/
theorem cyclic_sum_rotate (l : List ℚ) (n : ℕ) : (l.rotate n).sum = l.sum := (List.rotate_perm l n).sum_eq
theorem cyclic_sum_rotate_int (l : List ℤ) (n : ℕ) : (l.rotate n).sum = l.sum := (List.rotate_perm l n).sum_eq

theorem sum_transit_aux (es : List (ℚ × ℚ × ℚ × ℤ)) (h : ∀ e ∈ es, Edge e.1 e.2.1 e.2.2.1 e.2.2.2) :
    (es.map fun e => transitQ e.1 e.2.1 e.2.2.1).sum
      = (es.map fun e => ⌊e.2.2.1 / 360⌋).sum + (es.map fun e => e.2.2.2).sum - (es.map fun e => ⌊e.2.1 / 360⌋).sum := by
  induction es with
  | nil => simp
  | cons e es ih =>
    have he := h e (List.mem_cons_self)
    have ih' := ih (fun x hx => h x (List.mem_cons_of_mem _ hx))
    simp only [List.map_cons, List.sum_cons]
    rw [ih', transit_eq_floor he]
    have hfl : ⌊(e.2.1 + e.1) / 360⌋ = ⌊e.2.2.1 / 360⌋ + e.2.2.2 := by
      rw [he.hk]
      have : (e.2.2.1 + 360 * (e.2.2.2:ℚ)) / 360 = e.2.2.1 / 360 + (e.2.2.2:ℚ) := by ring
      rw [this, Int.floor_add_intCast]
    rw [hfl]; ring

/-- **crossing count = winding number**: around any closed chain the transits add up to `Σ k`, and `360·Σ k = Σ d`
    (the total signed longitude swept), whatever the vertices' representatives modulo 360 are -/
theorem transit_winding (es : List (ℚ × ℚ × ℚ × ℤ)) (h : Chain es) :
    (es.map fun e => transitQ e.1 e.2.1 e.2.2.1).sum = (es.map fun e => e.2.2.2).sum := by
  rw [sum_transit_aux es h.edges, h.closed]; ring

/-- `transitdirect` has the parity of `⌊λ₂/360⌋ − ⌊λ₁/360⌋` when `r = λ − 720 j ∈ [−360, 360]` is the IEEE remainder -/
theorem cls_parity (x r : ℚ) (j : ℤ) (hr : -360 ≤ r ∧ r ≤ 360) (hx : x = r + 720 * (j:ℚ)) :
    (if 0 ≤ r ∧ r < 360 then (0:ℤ) else 1) % 2 = ⌊x / 360⌋ % 2 := by
  have hfl : ⌊x / 360⌋ = ⌊r / 360⌋ + 2 * j := by
    rw [hx]
    have : (r + 720 * (j:ℚ)) / 360 = r / 360 + ((2 * j : ℤ) : ℚ) := by push_cast; ring
    rw [this, Int.floor_add_intCast]
  rw [hfl]
  obtain ⟨h1, h2⟩ := hr
  by_cases ha : r < 0
  · have : ⌊r / 360⌋ = -1 := by rw [Int.floor_eq_iff]; constructor <;> push_cast <;> linarith
    rw [this, if_neg (by intro h; linarith [h.1])]; omega
  · push Not at ha
    by_cases hb : r < 360
    · have : ⌊r / 360⌋ = 0 := by rw [Int.floor_eq_iff]; constructor <;> push_cast <;> [positivity; linarith]
      rw [this, if_pos ⟨ha, hb⟩]; omega
    · have hr360 : r = 360 := by linarith
      have : ⌊r / 360⌋ = 1 := by rw [hr360]; norm_num
      rw [this, if_neg (by intro h; exact hb h.2)]; omega

theorem transitdirect_parity (x1 x2 r1 r2 : ℚ) (j1 j2 : ℤ)
    (h1 : -360 ≤ r1 ∧ r1 ≤ 360) (h2 : -360 ≤ r2 ∧ r2 ≤ 360) (e1 : x1 = r1 + 720 * (j1:ℚ)) (e2 : x2 = r2 + 720 * (j2:ℚ)) :
    (transitdirectQ r1 r2) % 2 = (⌊x2 / 360⌋ - ⌊x1 / 360⌋) % 2 := by
  unfold transitdirectQ
  have a := cls_parity x1 r1 j1 h1 e1
  have b := cls_parity x2 r2 j2 h2 e2
  omega

/-! ### TestPoint / TestEdge ≡ Add + Compute, unchanged state, Clear -/

/-- `TestPoint` returns what `AddPoint` followed by `Compute` returns (same backend values), for every reachable or
    unreachable state with at least one vertex -/
theorem testPoint_eq_add_compute (st : State) (A : ℚ) (lon : F64) (rv sg : Bool) (k1 k2 : ℚ × ℚ) (h : st.num ≠ 0) :
    testPoint st A lon rv sg k1 k2 = compute (addPoint st lon k1.1 k1.2) A rv sg k2.1 k2.2 := by
  unfold testPoint compute addPoint
  simp only [h, if_false]
  by_cases hp : st.polyline
  · have : ¬ (st.num + 1 < 2) := by omega
    simp [hp, this]
  · have : ¬ (st.num + 1 < 2) := by omega
    simp [hp, this, add_assoc]

theorem testEdge_eq_add_compute (st : State) (A s : ℚ) (lon2 : F64) (S12 : ℚ) (rv sg : Bool) (k2 : ℚ × ℚ) (h : st.num ≠ 0) :
    testEdge st A s lon2 S12 rv sg k2 = compute (addEdge st s lon2 S12) A rv sg k2.1 k2.2 := by
  unfold testEdge compute addEdge
  simp only [h, if_false]
  by_cases hp : st.polyline
  · have : ¬ (st.num + 1 < 2) := by omega
    simp [hp, this]
  · have : ¬ (st.num + 1 < 2) := by omega
    simp [hp, this, add_assoc]

/-- clearing restores the empty state -/
theorem clear_is_init (st : State) : clear st = init st.polyline := rfl

/-- a polyline never reports an area and never counts crossings -/
theorem polyline_no_area (st : State) (A : ℚ) (rv sg : Bool) (s S : ℚ) (h : st.polyline = true) :
    (compute st A rv sg s S).area = none := by
  unfold compute; split_ifs <;> simp_all

/-! ### AreaReduce: ranges -/

theorem remainderQ_range (x y : ℚ) (hy : 0 < y) : -(y / 2) ≤ remainderQ x y ∧ remainderQ x y ≤ y / 2 := by
  unfold remainderQ
  set q := x / y with hq
  have hx : x = q * y := by rw [hq]; field_simp
  have hf1 : (⌊q⌋ : ℚ) ≤ q := Int.floor_le q
  have hf2 : q < ⌊q⌋ + 1 := Int.lt_floor_add_one q
  have hfl : (Rat.floor q : ℤ) = ⌊q⌋ := rfl
  simp only [hfl]
  split_ifs with h1 h2 h3 <;> rw [hx] <;> push_cast <;> constructor <;> nlinarith

/-- signed result in (−A/2, A/2], unsigned in [0, A) -/
theorem areaReduce_range (area A : ℚ) (c : ℤ) (rv sg : Bool) (hA : 0 < A) :
    (sg = true → -(A / 2) < areaReduce area A c rv sg ∧ areaReduce area A c rv sg ≤ A / 2) ∧
    (sg = false → 0 ≤ areaReduce area A c rv sg ∧ areaReduce area A c rv sg < A) := by
  unfold areaReduce
  obtain ⟨h1, h2⟩ := remainderQ_range area A hA
  set r := remainderQ area A
  constructor <;> intro hs <;> subst hs <;> simp only [if_true, if_false, Bool.false_eq_true] <;>
    split_ifs <;> constructor <;> first | linarith | (push Not at *; linarith) | nlinarith

/-! ### AreaReduce modulo `A`: the master lemma, `reverse` flip, traversal flip -/

/-- congruence modulo the ellipsoid area -/
def CongA (A x y : ℚ) : Prop := ∃ m : ℤ, x = y + m * A

theorem CongA.refl (A x : ℚ) : CongA A x x := ⟨0, by simp⟩
theorem CongA.symm {A x y : ℚ} (h : CongA A x y) : CongA A y x := by
  obtain ⟨m, hm⟩ := h; exact ⟨-m, by rw [hm]; push_cast; ring⟩
theorem CongA.trans {A x y z : ℚ} (h1 : CongA A x y) (h2 : CongA A y z) : CongA A x z := by
  obtain ⟨m, hm⟩ := h1; obtain ⟨n, hn⟩ := h2; exact ⟨m + n, by rw [hm, hn]; push_cast; ring⟩
theorem CongA.neg {A x y : ℚ} (h : CongA A x y) : CongA A (-x) (-y) := by
  obtain ⟨m, hm⟩ := h; exact ⟨-m, by rw [hm]; push_cast; ring⟩
theorem CongA.add {A x y u v : ℚ} (h1 : CongA A x y) (h2 : CongA A u v) : CongA A (x + u) (y + v) := by
  obtain ⟨m, hm⟩ := h1; obtain ⟨n, hn⟩ := h2; exact ⟨m + n, by rw [hm, hn]; push_cast; ring⟩

theorem remainderQ_cong (x A : ℚ) : CongA A (remainderQ x A) x := by
  unfold remainderQ
  simp only []
  generalize (if x / A - ↑(x / A).floor < 1 / 2 then (x / A).floor else if x / A - ↑(x / A).floor > 1 / 2 then (x / A).floor + 1 else (if (x / A).floor % 2 = 0 then (x / A).floor else (x / A).floor + 1)) = n
  exact ⟨-n, by push_cast; ring⟩

/-- the stages of `areaReduce` after the remainder -/
def adjC (A : ℚ) (c : ℤ) (a : ℚ) : ℚ := if c % 2 = 1 then a + (if a < 0 then 1 else -1) * (A / 2) else a
def orient (rv : Bool) (a : ℚ) : ℚ := if !rv then -a else a
def window (A : ℚ) (sg : Bool) (a : ℚ) : ℚ :=
  if sg then (if a > A / 2 then a - A else if a ≤ -(A / 2) then a + A else a)
  else (if a ≥ A then a - A else if a < 0 then a + A else a)

theorem areaReduce_stages (area A : ℚ) (c : ℤ) (rv sg : Bool) :
    areaReduce area A c rv sg = window A sg (orient rv (adjC A c (remainderQ area A))) := rfl

/-- the signed multiplier of `reverse` -/
def sgn (rv : Bool) : ℚ := if rv then 1 else -1

theorem adjC_cong (A : ℚ) (c : ℤ) (a : ℚ) : CongA A (adjC A c a) (a + c * (A / 2)) := by
  unfold adjC
  rcases Int.emod_two_eq_zero_or_one c with hc | hc
  · obtain ⟨j, hj⟩ : ∃ j, c = 2 * j := ⟨c / 2, by omega⟩
    rw [if_neg (by omega)]
    refine ⟨-j, ?_⟩
    rw [hj]; push_cast; ring
  · obtain ⟨j, hj⟩ : ∃ j, c = 2 * j + 1 := ⟨c / 2, by omega⟩
    rw [if_pos hc]
    split_ifs
    · refine ⟨-j, ?_⟩
      rw [hj]; push_cast; ring
    · refine ⟨-j - 1, ?_⟩
      rw [hj]; push_cast; ring

theorem orient_eq (rv : Bool) (a : ℚ) : orient rv a = sgn rv * a := by
  cases rv <;> simp [orient, sgn]

theorem window_cong (A : ℚ) (sg : Bool) (a : ℚ) : CongA A (window A sg a) a := by
  unfold window
  split_ifs
  · exact ⟨-1, by push_cast; ring⟩
  · exact ⟨1, by push_cast; ring⟩
  · exact CongA.refl _ _
  · exact ⟨-1, by push_cast; ring⟩
  · exact ⟨1, by push_cast; ring⟩
  · exact CongA.refl _ _

theorem CongA.mul_sgn {A x y : ℚ} (rv : Bool) (h : CongA A x y) : CongA A (sgn rv * x) (sgn rv * y) := by
  cases rv
  · simpa [sgn] using h.neg
  · simpa [sgn] using h

/-- **what `AreaReduce` computes, modulo `A`**: `± (area + crossings·A/2)` -/
theorem areaReduce_cong (area A : ℚ) (c : ℤ) (rv sg : Bool) :
    CongA A (areaReduce area A c rv sg) (sgn rv * (area + c * (A / 2))) := by
  rw [areaReduce_stages, ]
  refine (window_cong A sg _).trans ?_
  rw [orient_eq]
  refine CongA.mul_sgn rv ?_
  refine (adjC_cong A c _).trans ?_
  exact (remainderQ_cong area A).add (CongA.refl _ _)


theorem cong_eq_of_abs_lt {A x y : ℚ} (hA : 0 < A) (h : CongA A x y) (hlt : |x - y| < A) : x = y := by
  obtain ⟨m, hm⟩ := h
  rw [abs_lt] at hlt
  have h1 : (m:ℚ) * A < A := by linarith
  have h2 : -A < (m:ℚ) * A := by linarith
  have h3 : (m:ℚ) < 1 := by by_contra hh; push Not at hh; nlinarith
  have h4 : (-1:ℚ) < m := by by_contra hh; push Not at hh; nlinarith
  have h5 : m < 1 := by exact_mod_cast h3
  have h6 : -1 < m := by exact_mod_cast h4
  have : m = 0 := by omega
  subst this; simpa using hm

/-- two results of `AreaReduce` with the same `sign` flag that are congruent modulo `A` are equal
    (each range is a fundamental domain) -/
theorem areaReduce_eq_of_cong_results {A : ℚ} (hA : 0 < A) {area area' : ℚ} {c c' : ℤ} {rv rv' sg : Bool}
    (h : CongA A (areaReduce area' A c' rv' sg) (areaReduce area A c rv sg)) :
    areaReduce area' A c' rv' sg = areaReduce area A c rv sg := by
  apply cong_eq_of_abs_lt hA h
  have r1 := areaReduce_range area A c rv sg hA
  have r2 := areaReduce_range area' A c' rv' sg hA
  rw [abs_lt]
  cases sg
  · have a := r1.2 rfl; have b := r2.2 rfl; constructor <;> linarith
  · have a := r1.1 rfl; have b := r2.1 rfl; constructor <;> linarith

/-- **master lemma**: the reduced area depends only on `± (area + crossings·A/2)` modulo `A` -/
theorem areaReduce_eq_of_cong {A : ℚ} (hA : 0 < A) {area area' : ℚ} {c c' : ℤ} {rv rv' : Bool} (sg : Bool)
    (h : CongA A (sgn rv' * (area' + c' * (A / 2))) (sgn rv * (area + c * (A / 2)))) :
    areaReduce area' A c' rv' sg = areaReduce area A c rv sg :=
  areaReduce_eq_of_cong_results hA
    (((areaReduce_cong area' A c' rv' sg).trans h).trans (areaReduce_cong area A c rv sg).symm)

theorem sgn_not (rv : Bool) : sgn (!rv) = - sgn rv := by cases rv <;> simp [sgn]

/-- **flipping `reverse`**: signed result `a ↦ −a` (the end point `A/2` of the half-open range maps to itself);
    unsigned result `a ↦ A − a` for `a ≠ 0`, `0 ↦ 0` -/
theorem areaReduce_flip (area A : ℚ) (c : ℤ) (rv : Bool) (hA : 0 < A) :
    (areaReduce area A c (!rv) true =
        if areaReduce area A c rv true = A / 2 then A / 2 else - areaReduce area A c rv true) ∧
    (areaReduce area A c (!rv) false =
        if areaReduce area A c rv false = 0 then 0 else A - areaReduce area A c rv false) := by
  have key : ∀ sg, CongA A (areaReduce area A c (!rv) sg) (-(areaReduce area A c rv sg)) := by
    intro sg
    refine (areaReduce_cong area A c (!rv) sg).trans ?_
    rw [sgn_not, neg_mul]
    exact (areaReduce_cong area A c rv sg).neg.symm
  constructor
  · have r1 := (areaReduce_range area A c rv true hA).1 rfl
    have r2 := (areaReduce_range area A c (!rv) true hA).1 rfl
    split_ifs with h
    · apply cong_eq_of_abs_lt hA
      · refine (key true).trans ?_
        rw [h]; exact ⟨-1, by push_cast; ring⟩
      · rw [abs_lt]; constructor <;> linarith
    · apply cong_eq_of_abs_lt hA (key true)
      have : areaReduce area A c rv true < A / 2 := lt_of_le_of_ne r1.2 h
      rw [abs_lt]; constructor <;> linarith
  · have r1 := (areaReduce_range area A c rv false hA).2 rfl
    have r2 := (areaReduce_range area A c (!rv) false hA).2 rfl
    split_ifs with h
    · apply cong_eq_of_abs_lt hA
      · have := key false; rw [h] at this; simpa using this
      · rw [abs_lt]; constructor <;> linarith
    · apply cong_eq_of_abs_lt hA
      · exact (key false).trans ⟨-1, by push_cast; ring⟩
      · have : 0 < areaReduce area A c rv false := lt_of_le_of_ne r1.1 (Ne.symm h)
        rw [abs_lt]; constructor <;> linarith

/-- **flipping the traversal order** (raw sum negated, crossing parity kept) is the same as flipping `reverse` -/
theorem areaReduce_neg_area (area A : ℚ) (c c' : ℤ) (rv sg : Bool) (hA : 0 < A) (hc : c' % 2 = c % 2) :
    areaReduce (-area) A c' rv sg = areaReduce area A c (!rv) sg := by
  apply areaReduce_eq_of_cong hA
  rw [sgn_not]
  obtain ⟨j, hj⟩ : ∃ j, c' + c = 2 * j := ⟨(c' + c) / 2, by omega⟩
  have hj' : (c' : ℚ) = 2 * j - c := by
    have : ((c' + c : ℤ) : ℚ) = ((2 * j : ℤ) : ℚ) := by rw [hj]
    push_cast at this; linarith
  refine ⟨if rv then j else -j, ?_⟩
  rw [hj']; cases rv <;> simp [sgn] <;> ring

theorem Edge.reverse {d n1 n2 : ℚ} {k : ℤ} (e : Edge d n1 n2 k) : Edge (-d) n2 n1 (-k) :=
  ⟨⟨by linarith [e.hd.2], by linarith [e.hd.1]⟩, e.hn2, e.hn1, by have := e.hk; push_cast; linarith⟩

/-- the crossing count of an edge traversed backwards is the negative -/
theorem transitQ_antisymm {d n1 n2 : ℚ} {k : ℤ} (e : Edge d n1 n2 k) :
    transitQ (-d) n2 n1 = - transitQ d n1 n2 := by
  rw [transit_eq_floor e, transit_eq_floor e.reverse]
  have h1 : ⌊(n1 + d) / 360⌋ = ⌊n2 / 360⌋ + k := by
    rw [e.hk, show (n2 + 360 * (k:ℚ)) / 360 = n2 / 360 + (k:ℚ) by ring, Int.floor_add_intCast]
  have h2 : ⌊(n2 + -d) / 360⌋ = ⌊n1 / 360⌋ + (-k) := by
    rw [e.reverse.hk, show (n1 + 360 * ((-k : ℤ):ℚ)) / 360 = n1 / 360 + ((-k : ℤ):ℚ) by ring, Int.floor_add_intCast]
  rw [h1, h2]; ring

/-! ### whole runs: `AddPoint* ; Compute` over a vertex list and a backend -/

abbrev Vertex := F64 × F64
/-- `(s12, S12)` of the inverse problem between two vertices -/
abbrev Backend := Vertex → Vertex → ℚ × ℚ

def step (B : Backend) (sp : State × Vertex) (q : Vertex) : State × Vertex :=
  (addPoint sp.1 q.2 (B sp.2 q).1 (B sp.2 q).2, q)

/-- `Clear(); AddPoint(v₀); …; AddPoint(vₙ₋₁); Compute(reverse, sign)` for a polygon (not polyline) -/
def polygon (B : Backend) (A : ℚ) (rv sg : Bool) : List Vertex → Result
  | [] => compute (init false) A rv sg 0 0
  | v :: r =>
    let sp := r.foldl (step B) (addPoint (init false) v.2 0 0, v)
    compute sp.1 A rv sg (B sp.2 v).1 (B sp.2 v).2

/-- sum of `f` over the consecutive pairs of the path `p, r₀, r₁, …` -/
def path {α : Type} [AddCommMonoid α] (f : Vertex → Vertex → α) : Vertex → List Vertex → α
  | _, [] => 0
  | p, q :: r => f p q + path f q r

/-- cyclic sum of `f` over the edges of the closed polygon -/
def cyc {α : Type} [AddCommMonoid α] (f : Vertex → Vertex → α) : List Vertex → α
  | [] => 0
  | p :: r => path f p (r ++ [p])

theorem path_append {α : Type} [AddCommMonoid α] (f : Vertex → Vertex → α) (p q : Vertex) (l m : List Vertex) :
    path f p (l ++ q :: m) = path f p (l ++ [q]) + path f q m := by
  induction l generalizing p with
  | nil => simp [path]
  | cons a l ih => simp only [List.cons_append, path, ih, add_assoc]

theorem cyc_rotate_one {α : Type} [AddCommMonoid α] (f : Vertex → Vertex → α) (vs : List Vertex) :
    cyc f (vs.rotate 1) = cyc f vs := by
  match vs with
  | [] => simp
  | [p] => simp
  | p :: q :: r =>
    have : (p :: q :: r).rotate 1 = q :: (r ++ [p]) := by simp [List.rotate_cons_succ]
    rw [this]
    simp only [cyc, path, List.cons_append]
    rw [show r ++ [p] ++ [q] = r ++ p :: [q] by simp, path_append]
    simp only [path, add_zero]
    exact add_comm _ _

theorem cyc_rotate {α : Type} [AddCommMonoid α] (f : Vertex → Vertex → α) (vs : List Vertex) (n : ℕ) :
    cyc f (vs.rotate n) = cyc f vs := by
  induction n with
  | zero => simp
  | succ n ih => rw [← List.rotate_rotate, cyc_rotate_one, ih]

def fS (B : Backend) (p q : Vertex) : ℚ := (B p q).2
def fs (B : Backend) (p q : Vertex) : ℚ := (B p q).1
def fT (p q : Vertex) : ℤ := transit p.2 q.2

/-- last vertex of the path `p, r₀, r₁, …` -/
def lastV : Vertex → List Vertex → Vertex
  | p, [] => p
  | _, q :: r => lastV q r

theorem foldl_step (B : Backend) (r : List Vertex) (st : State) (p : Vertex) (hn : st.num ≠ 0) (hp : st.polyline = false)
    (hl : st.lon1 = p.2) :
    (r.foldl (step B) (st, p)).1.num = st.num + r.length ∧
    (r.foldl (step B) (st, p)).1.perimsum = st.perimsum + path (fs B) p r ∧
    (r.foldl (step B) (st, p)).1.areasum = st.areasum + path (fS B) p r ∧
    (r.foldl (step B) (st, p)).1.crossings = st.crossings + path fT p r ∧
    (r.foldl (step B) (st, p)).1.lon0 = st.lon0 ∧
    (r.foldl (step B) (st, p)).1.lon1 = (lastV p r).2 ∧
    (r.foldl (step B) (st, p)).1.polyline = false ∧
    (r.foldl (step B) (st, p)).2 = lastV p r := by
  induction r generalizing st p with
  | nil => simp [path, hp, hl, lastV]
  | cons q r ih =>
    have hst : (step B (st, p) q) = (addPoint st q.2 (B p q).1 (B p q).2, q) := rfl
    have ha : addPoint st q.2 (B p q).1 (B p q).2 =
        { st with num := st.num + 1, perimsum := st.perimsum + (B p q).1, areasum := st.areasum + (B p q).2,
                  crossings := st.crossings + transit p.2 q.2, lon1 := q.2 } := by
      unfold addPoint; simp [hn, hp, hl]
    simp only [List.foldl_cons, hst]
    obtain ⟨h1, h2, h3, h4, h5, h6, h7, h8⟩ := ih (addPoint st q.2 (B p q).1 (B p q).2) q (by rw [ha]; simp) (by rw [ha]; exact hp)
      (by rw [ha])
    refine ⟨?_, ?_, ?_, ?_, ?_, ?_, h7, ?_⟩
    · rw [h1, ha]; simp; omega
    · rw [h2, ha]; simp [path, fs]; ring
    · rw [h3, ha]; simp [path, fS]; ring
    · rw [h4, ha]; simp [path, fT]; ring
    · rw [h5, ha]
    · rw [h6]; rfl
    · rw [h8]; rfl


theorem path_snoc {α : Type} [AddCommMonoid α] (f : Vertex → Vertex → α) (p x : Vertex) (r : List Vertex) :
    path f p (r ++ [x]) = path f p r + f (lastV p r) x := by
  induction r generalizing p with
  | nil => simp [path, lastV]
  | cons q r ih => simp only [List.cons_append, path, ih, lastV, add_assoc]

/-- **closed form of a whole run**: vertex count, cyclic perimeter, and `AreaReduce` of the cyclic sums -/
theorem polygon_eq (B : Backend) (A : ℚ) (rv sg : Bool) (vs : List Vertex) (h : 2 ≤ vs.length) :
    polygon B A rv sg vs =
      ⟨vs.length, some (cyc (fs B) vs), some (some (areaReduce (cyc (fS B) vs) A (cyc fT vs) rv sg))⟩ := by
  match vs, h with
  | v :: r, h =>
    have h0 : addPoint (init false) v.2 0 0 = { (init false) with num := 1, lon0 := v.2, lon1 := v.2 } := by
      simp [addPoint, init]
    obtain ⟨h1, h2, h3, h4, h5, h6, h7, h8⟩ := foldl_step B r (addPoint (init false) v.2 0 0) v (by rw [h0]; simp) (by rw [h0]; rfl) (by rw [h0])
    have hlen : ¬ ((r.foldl (step B) (addPoint (init false) v.2 0 0, v)).1.num < 2) := by
      rw [h1, h0]; simp at h ⊢; omega
    simp only [polygon, compute, hlen, if_false, h7, Bool.false_eq_true]
    rw [h1, h2, h3, h4, h5, h6, h8, h0]
    simp only [cyc, path_snoc, init]
    simp [fs, fS, fT, Nat.add_comm]

/-- **start independence**: the result of `Compute` does not depend on which vertex the polygon was started from -/
theorem start_independent (B : Backend) (A : ℚ) (rv sg : Bool) (vs : List Vertex) (n : ℕ) :
    polygon B A rv sg (vs.rotate n) = polygon B A rv sg vs := by
  by_cases h : 2 ≤ vs.length
  · rw [polygon_eq B A rv sg vs h, polygon_eq B A rv sg _ (by rw [List.length_rotate]; exact h)]
    simp only [cyc_rotate, List.length_rotate]
  · match vs, h with
    | [], _ => simp
    | [v], _ => simp
    | _ :: _ :: _, h => simp at h

end GeoVerif.Props.C08
