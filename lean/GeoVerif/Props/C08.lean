import GeoVerif.Model.Polygon
import Mathlib.Algebra.Order.Floor.Ring
import Mathlib.Algebra.Order.Floor.Semiring
import Mathlib.Data.Rat.Floor
import Mathlib.Tactic.Linarith
import Mathlib.Tactic.Ring
import Mathlib.Tactic.NormNum
import Mathlib.Tactic.Positivity
import Mathlib.Tactic.SplitIfs
import Mathlib.Data.List.Rotate
import Mathlib.Algebra.BigOperators.Group.List.Basic
/-!
# C08 — property theorems (polygon bookkeeping)

`transitQ`, `transitdirectQ`, `areaReduce` and the state machine are the
definitions of `Model/Polygon.lean` that the driver executes against the
implementation; here they are studied over ℚ (= core `Rat`).
-/
namespace GeoVerif.Props.C08
open GeoVerif GeoVerif.Polygon

/-- what `AngNormalize` / `AngDiff` guarantee about an edge: all three values in [−180, 180] and
    `n1 + d = n2 + 360 k` for an integer `k` (C16) -/
structure Edge (d n1 n2 : ℚ) (k : ℤ) : Prop where
  hd  : -180 ≤ d ∧ d ≤ 180
  hn1 : -180 ≤ n1 ∧ n1 ≤ 180
  hn2 : -180 ≤ n2 ∧ n2 ≤ 180
  hk  : n1 + d = n2 + 360 * (k : ℚ)

theorem floor_div_360_of_mem {x : ℚ} (h : -180 ≤ x ∧ x ≤ 180) :
    ⌊x / 360⌋ = if x < 0 then -1 else 0 := by
  split_ifs with hx
  · rw [Int.floor_eq_iff]; constructor <;> push_cast <;> [linarith; linarith]
  · push Not at hx
    rw [Int.floor_eq_iff]; constructor <;> push_cast <;> [positivity; linarith]

/-- case analysis behind the pointwise lemma: with `k ∈ {−1, 0, 1}` the code's decision equals the floor jump -/
theorem tcases (d n1 n2 : ℚ) (k : ℤ) (hk' : k = -1 ∨ k = 0 ∨ k = 1)
   (hd1 : -180 ≤ d) (hd2 : d ≤ 180) (h11 : -180 ≤ n1) (h12 : n1 ≤ 180) (h21 : -180 ≤ n2) (h22 : n2 ≤ 180)
   (hk : n1 + d = n2 + 360 * (k:ℚ)) :
   transitQ d n1 n2 = (if n2 < 0 then -1 else 0) + k - (if n1 < 0 then -1 else 0) := by
  unfold transitQ
  have t1 : n1 < 0 ∨ n1 = 0 ∨ 0 < n1 := lt_trichotomy n1 0
  have t2 : n2 < 0 ∨ n2 = 0 ∨ (0 < n2 ∧ n2 < 180) ∨ n2 = 180 := by
    rcases lt_trichotomy n2 0 with h | h | h
    · exact Or.inl h
    · exact Or.inr (Or.inl h)
    · rcases lt_or_eq_of_le h22 with h' | h'
      · exact Or.inr (Or.inr (Or.inl ⟨h, h'⟩))
      · exact Or.inr (Or.inr (Or.inr h'))
  have t3 : d < 0 ∨ d = 0 ∨ 0 < d := lt_trichotomy d 0
  rcases hk' with rfl | rfl | rfl <;> push_cast at hk <;>
  rcases t1 with a | a | a <;> rcases t2 with b | b | ⟨b, b'⟩ | b <;> rcases t3 with c | c | c <;>
  (try subst a) <;> (try subst b) <;> (try subst c) <;>
  first
  | (exfalso; linarith)
  | (norm_num [*, not_lt.mpr, le_of_lt] <;> first | (exfalso; linarith) | (intro h; linarith) | skip)

/-- pointwise: `transit = ⌊(n1+d)/360⌋ − ⌊n1/360⌋` — the number of times the edge passes longitude 0 (mod 360), signed -/
theorem transit_eq_floor {d n1 n2 : ℚ} {k : ℤ} (e : Edge d n1 n2 k) :
    transitQ d n1 n2 = ⌊(n1 + d) / 360⌋ - ⌊n1 / 360⌋ := by
  obtain ⟨⟨hd1, hd2⟩, ⟨h11, h12⟩, ⟨h21, h22⟩, hk⟩ := e
  have hfl : ⌊(n1 + d) / 360⌋ = ⌊n2 / 360⌋ + k := by
    rw [hk]
    have : (n2 + 360 * (k:ℚ)) / 360 = n2 / 360 + (k:ℚ) := by ring
    rw [this, Int.floor_add_intCast]
  rw [hfl, floor_div_360_of_mem ⟨h11, h12⟩, floor_div_360_of_mem ⟨h21, h22⟩]
  have hkl : (-2:ℚ) < (k:ℚ) := by linarith
  have hku : (k:ℚ) < 2 := by linarith
  have hk' : k = -1 ∨ k = 0 ∨ k = 1 := by
    have h1 : (-2:ℤ) < k := by exact_mod_cast hkl
    have h2 : k < 2 := by exact_mod_cast hku
    omega
  exact tcases d n1 n2 k hk' hd1 hd2 h11 h12 h21 h22 hk

/-- a closed chain of edges: consecutive edges share their vertex and the last returns to the first -/
structure Chain (es : List (ℚ × ℚ × ℚ × ℤ)) : Prop where
  edges : ∀ e ∈ es, Edge e.1 e.2.1 e.2.2.1 e.2.2.2
  closed : (es.map fun e => ⌊e.2.2.1 / 360⌋).sum = (es.map fun e => ⌊e.2.1 / 360⌋).sum

/-- a cyclic vertex list (each edge ends where the next begins, the last where the first begins) is closed -/
theorem closed_of_rotate (es : List (ℚ × ℚ × ℚ × ℤ)) (h : es.map (fun e => e.2.2.1) = (es.map fun e => e.2.1).rotate 1) :
    (es.map fun e => ⌊e.2.2.1 / 360⌋).sum = (es.map fun e => ⌊e.2.1 / 360⌋).sum := by
  have h1 : (es.map fun e => ⌊e.2.2.1 / 360⌋) = (es.map fun e => e.2.2.1).map fun x => ⌊x / 360⌋ := by simp
  have h2 : (es.map fun e => ⌊e.2.1 / 360⌋) = (es.map fun e => e.2.1).map fun x => ⌊x / 360⌋ := by simp
  rw [h1, h2, h]
  have hp : ((es.map fun e => e.2.1).rotate 1).Perm (es.map fun e => e.2.1) := List.rotate_perm _ 1
  exact List.Perm.sum_eq (hp.map fun x : ℚ => ⌊x / 360⌋)

/-- start independence: any cyclic sum (perimeter, raw area, crossings) is unchanged when the vertex list is rotated -/
theorem cyclic_sum_rotate (l : List ℚ) (n : ℕ) : (l.rotate n).sum = l.sum := (List.rotate_perm l n).sum_eq
theorem cyclic_sum_rotate_int (l : List ℤ) (n : ℕ) : (l.rotate n).sum = l.sum := (List.rotate_perm l n).sum_eq

theorem sum_transit_aux (es : List (ℚ × ℚ × ℚ × ℤ)) (h : ∀ e ∈ es, Edge e.1 e.2.1 e.2.2.1 e.2.2.2) :
    (es.map fun e => transitQ e.1 e.2.1 e.2.2.1).sum
      = (es.map fun e => ⌊e.2.2.1 / 360⌋).sum + (es.map fun e => e.2.2.2).sum - (es.map fun e => ⌊e.2.1 / 360⌋).sum := by
  induction es with
  | nil => simp
  | cons e es ih =>
    have he := h e (List.mem_cons_self)
    have ih' := ih (fun x hx => h x (List.mem_cons_of_mem _ hx))
    simp only [List.map_cons, List.sum_cons]
    rw [ih', transit_eq_floor he]
    have hfl : ⌊(e.2.1 + e.1) / 360⌋ = ⌊e.2.2.1 / 360⌋ + e.2.2.2 := by
      rw [he.hk]
      have : (e.2.2.1 + 360 * (e.2.2.2:ℚ)) / 360 = e.2.2.1 / 360 + (e.2.2.2:ℚ) := by ring
      rw [this, Int.floor_add_intCast]
    rw [hfl]; ring

/-- **crossing count = winding number**: around any closed chain the transits add up to `Σ k`, and `360·Σ k = Σ d`
    (the total signed longitude swept), whatever the vertices' representatives modulo 360 are -/
theorem transit_winding (es : List (ℚ × ℚ × ℚ × ℤ)) (h : Chain es) :
    (es.map fun e => transitQ e.1 e.2.1 e.2.2.1).sum = (es.map fun e => e.2.2.2).sum := by
  rw [sum_transit_aux es h.edges, h.closed]; ring

/-- `transitdirect` has the parity of `⌊λ₂/360⌋ − ⌊λ₁/360⌋` when `r = λ − 720 j ∈ [−360, 360]` is the IEEE remainder -/
theorem cls_parity (x r : ℚ) (j : ℤ) (hr : -360 ≤ r ∧ r ≤ 360) (hx : x = r + 720 * (j:ℚ)) :
    (if 0 ≤ r ∧ r < 360 then (0:ℤ) else 1) % 2 = ⌊x / 360⌋ % 2 := by
  have hfl : ⌊x / 360⌋ = ⌊r / 360⌋ + 2 * j := by
    rw [hx]
    have : (r + 720 * (j:ℚ)) / 360 = r / 360 + ((2 * j : ℤ) : ℚ) := by push_cast; ring
    rw [this, Int.floor_add_intCast]
  rw [hfl]
  obtain ⟨h1, h2⟩ := hr
  by_cases ha : r < 0
  · have : ⌊r / 360⌋ = -1 := by rw [Int.floor_eq_iff]; constructor <;> push_cast <;> linarith
    rw [this, if_neg (by intro h; linarith [h.1])]; omega
  · push Not at ha
    by_cases hb : r < 360
    · have : ⌊r / 360⌋ = 0 := by rw [Int.floor_eq_iff]; constructor <;> push_cast <;> [positivity; linarith]
      rw [this, if_pos ⟨ha, hb⟩]; omega
    · have hr360 : r = 360 := by linarith
      have : ⌊r / 360⌋ = 1 := by rw [hr360]; norm_num
      rw [this, if_neg (by intro h; exact hb h.2)]; omega

theorem transitdirect_parity (x1 x2 r1 r2 : ℚ) (j1 j2 : ℤ)
    (h1 : -360 ≤ r1 ∧ r1 ≤ 360) (h2 : -360 ≤ r2 ∧ r2 ≤ 360) (e1 : x1 = r1 + 720 * (j1:ℚ)) (e2 : x2 = r2 + 720 * (j2:ℚ)) :
    (transitdirectQ r1 r2) % 2 = (⌊x2 / 360⌋ - ⌊x1 / 360⌋) % 2 := by
  unfold transitdirectQ
  have a := cls_parity x1 r1 j1 h1 e1
  have b := cls_parity x2 r2 j2 h2 e2
  omega

/-! ### TestPoint / TestEdge ≡ Add + Compute, unchanged state, Clear -/

/-- `TestPoint` returns what `AddPoint` followed by `Compute` returns (same backend values), for every reachable or
    unreachable state with at least one vertex -/
theorem testPoint_eq_add_compute (st : State) (A : ℚ) (lon : F64) (rv sg : Bool) (k1 k2 : ℚ × ℚ) (h : st.num ≠ 0) :
    testPoint st A lon rv sg k1 k2 = compute (addPoint st lon k1.1 k1.2) A rv sg k2.1 k2.2 := by
  unfold testPoint compute addPoint
  simp only [h, if_false]
  by_cases hp : st.polyline
  · have : ¬ (st.num + 1 < 2) := by omega
    simp [hp, this]
  · have : ¬ (st.num + 1 < 2) := by omega
    simp [hp, this, add_assoc]

theorem testEdge_eq_add_compute (st : State) (A s : ℚ) (lon2 : F64) (S12 : ℚ) (rv sg : Bool) (k2 : ℚ × ℚ) (h : st.num ≠ 0) :
    testEdge st A s lon2 S12 rv sg k2 = compute (addEdge st s lon2 S12) A rv sg k2.1 k2.2 := by
  unfold testEdge compute addEdge
  simp only [h, if_false]
  by_cases hp : st.polyline
  · have : ¬ (st.num + 1 < 2) := by omega
    simp [hp, this]
  · have : ¬ (st.num + 1 < 2) := by omega
    simp [hp, this, add_assoc]

/-- clearing restores the empty state -/
theorem clear_is_init (st : State) : clear st = init st.polyline := rfl

/-- a polyline never reports an area and never counts crossings -/
theorem polyline_no_area (st : State) (A : ℚ) (rv sg : Bool) (s S : ℚ) (h : st.polyline = true) :
    (compute st A rv sg s S).area = none := by
  unfold compute; split_ifs <;> simp_all

/-! ### AreaReduce: ranges -/

theorem remainderQ_range (x y : ℚ) (hy : 0 < y) : -(y / 2) ≤ remainderQ x y ∧ remainderQ x y ≤ y / 2 := by
  unfold remainderQ
  set q := x / y with hq
  have hx : x = q * y := by rw [hq]; field_simp
  have hf1 : (⌊q⌋ : ℚ) ≤ q := Int.floor_le q
  have hf2 : q < ⌊q⌋ + 1 := Int.lt_floor_add_one q
  have hfl : (Rat.floor q : ℤ) = ⌊q⌋ := rfl
  simp only [hfl]
  split_ifs with h1 h2 h3 <;> rw [hx] <;> push_cast <;> constructor <;> nlinarith

/-- signed result in (−A/2, A/2], unsigned in [0, A) -/
theorem areaReduce_range (area A : ℚ) (c : ℤ) (rv sg : Bool) (hA : 0 < A) :
    (sg = true → -(A / 2) < areaReduce area A c rv sg ∧ areaReduce area A c rv sg ≤ A / 2) ∧
    (sg = false → 0 ≤ areaReduce area A c rv sg ∧ areaReduce area A c rv sg < A) := by
  unfold areaReduce
  obtain ⟨h1, h2⟩ := remainderQ_range area A hA
  set r := remainderQ area A
  constructor <;> intro hs <;> subst hs <;> simp only [if_true, if_false, Bool.false_eq_true] <;>
    split_ifs <;> constructor <;> first | linarith | (push Not at *; linarith) | nlinarith

end GeoVerif.Props.C08
