import GeoVerif.Model.Mask
/-!
# C12 — output masks and line capabilities

The enums are those of the current headers (`Gen.Mask`).
-/
namespace GeoVerif.Props.C12
open GeoVerif GeoVerif.Mask Gen.Mask

/-- documented bit layout of `Geodesic::mask` / `GeodesicExact::mask`: the output part of each flag is a single bit
    in 7..15, capability bits lie below bit 7, and `OUT_MASK`, `OUT_ALL` are as documented -/
theorem enum_layout :
    (∀ e ∈ [geod, geodx],
      e.outMask = 0xFF80 ∧ e.outAll = 0x7F80 ∧
      (∀ o ∈ Out.all, e.flag o &&& e.outMask = 1 <<< o.bit) ∧
      e.distanceIn &&& e.outMask = 1 <<< distanceInBit ∧
      e.longUnroll = 1 <<< longUnrollBit ∧
      e.latitude &&& 0x7F = 0 ∧ e.azimuth &&& 0x7F = 0) ∧
    geod_ALL = 0x7F9F ∧ geodx_ALL = 0x7F9F ∧
    geod_STANDARD = geod_LATITUDE ||| geod_LONGITUDE ||| geod_AZIMUTH ||| geod_DISTANCE ∧
    rhumb_ALL = 0x7F80 ∧ rhumb_LATITUDE = 1 <<< 7 ∧ rhumb_LONGITUDE = 1 <<< 8 ∧ rhumb_AZIMUTH = 1 <<< 9 ∧
    rhumb_DISTANCE = 1 <<< 10 ∧ rhumb_AREA = 1 <<< 14 ∧ rhumb_LONG_UNROLL = 1 <<< 15 := by decide

/-- single-bit test: `x &&& 2^k ≠ 0 ↔ x.testBit k` -/
theorem and_pow_ne_zero (x k : Nat) : (x &&& (1 <<< k) != 0) = x.testBit k := by
  rw [Nat.one_shiftLeft]
  by_cases h : x.testBit k
  · have : x &&& 2 ^ k = 2 ^ k := by
      apply Nat.eq_of_testBit_eq; intro i
      simp only [Nat.testBit_and, Nat.testBit_two_pow]
      by_cases hik : k = i <;> simp [hik, h] <;> (subst hik; exact h)
    simp [this, h]
  · have : x &&& 2 ^ k = 0 := by
      apply Nat.eq_of_testBit_eq; intro i
      simp only [Nat.testBit_and, Nat.testBit_two_pow, Nat.zero_testBit]
      by_cases hik : k = i <;> simp [hik] ; (subst hik; simpa using h)
    simp [this, h]

/-- the test the code performs on the already-reduced mask, in terms of single bits -/
theorem flag_test (e : Enum) (he : e = geod ∨ e = geodx) (x : Nat) (hx : x &&& e.outMask = x) (o : Out) :
    ((x &&& e.flag o) != 0) = x.testBit o.bit := by
  have hl : e.flag o &&& e.outMask = 1 <<< o.bit := by
    rcases he with rfl | rfl <;> cases o <;> decide
  have : x &&& e.flag o = x &&& (1 <<< o.bit) := by
    rw [← hl, ← Nat.and_assoc, Nat.and_comm x (e.flag o), Nat.and_assoc, hx, Nat.and_comm]
  rw [this, and_pow_ne_zero]

/-- **written_spec**: an output is written iff the point is locatable and its bit is both requested and among the
    line's capabilities -/
theorem written_spec (e : Enum) (he : e = geod ∨ e = geodx) (caps outmask : Nat) (arcmode : Bool) (o : Out) :
    o ∈ written e caps outmask arcmode ↔
      locatable e caps arcmode = true ∧ outmask.testBit o.bit = true ∧ (lineCaps e caps).testBit o.bit = true := by
  unfold written
  have hOM : e.outMask = 0xFF80 := by rcases he with rfl | rfl <;> decide
  have hb : (65408 : Nat).testBit o.bit = true := by cases o <;> decide
  have heff : effective e caps outmask &&& e.outMask = effective e caps outmask := by
    unfold effective
    rw [Nat.and_assoc, Nat.and_assoc, Nat.and_self]
  by_cases hl : locatable e caps arcmode = true
  · simp only [hl, if_true, true_and, List.mem_filter]
    rw [flag_test e he _ heff o]
    have hall : o ∈ Out.all := by cases o <;> decide
    simp only [hall, true_and]
    unfold effective
    simp only [Nat.testBit_and, hOM, hb, Bool.and_true, Bool.and_eq_true]
  · simp [hl]

/-- nothing is written (and NaN is returned) when a distance is asked of a line without `DISTANCE_IN` -/
theorem not_locatable_writes_nothing (e : Enum) (caps outmask : Nat) (h : locatable e caps false = false) :
    written e caps outmask false = [] := by
  unfold written; simp [h]

/-- in arc mode every line can locate the point; in distance mode exactly those with the DISTANCE_IN bit -/
theorem locatable_iff (e : Enum) (he : e = geod ∨ e = geodx) (caps : Nat) (arcmode : Bool) :
    locatable e caps arcmode = true ↔ arcmode = true ∨ caps.testBit distanceInBit = true := by
  unfold locatable
  have h1 : e.outMask &&& e.distanceIn = 1 <<< distanceInBit := by rcases he with rfl | rfl <;> decide
  rw [h1, and_pow_ne_zero]
  have h2 : (lineCaps e caps).testBit distanceInBit = caps.testBit distanceInBit := by
    unfold lineCaps
    simp only [Nat.testBit_or]
    have a : e.latitude.testBit distanceInBit = false := by rcases he with rfl | rfl <;> decide
    have b : e.azimuth.testBit distanceInBit = false := by rcases he with rfl | rfl <;> decide
    have c : e.longUnroll.testBit distanceInBit = false := by rcases he with rfl | rfl <;> decide
    simp [a, b, c]
  rw [h2]; cases arcmode <;> simp

/-- latitude, azimuth and longitude unrolling are always among a line's capabilities -/
theorem default_caps (e : Enum) (he : e = geod ∨ e = geodx) (caps : Nat) :
    (lineCaps e caps).testBit Out.lat2.bit = true ∧ (lineCaps e caps).testBit Out.azi2.bit = true ∧
    (lineCaps e caps).testBit longUnrollBit = true := by
  unfold lineCaps
  simp only [Nat.testBit_or]
  have a : e.latitude.testBit Out.lat2.bit = true := by rcases he with rfl | rfl <;> decide
  have b : e.azimuth.testBit Out.azi2.bit = true := by rcases he with rfl | rfl <;> decide
  have c : e.longUnroll.testBit longUnrollBit = true := by rcases he with rfl | rfl <;> decide
  simp [a, b, c]

/-- **additivity / independence of the request**: requesting more never changes whether a given output is written -/
theorem written_or (e : Enum) (he : e = geod ∨ e = geodx) (caps m1 m2 : Nat) (arcmode : Bool) (o : Out) :
    o ∈ written e caps (m1 ||| m2) arcmode ↔ o ∈ written e caps m1 arcmode ∨ o ∈ written e caps m2 arcmode := by
  simp only [written_spec e he, Nat.testBit_or, Bool.or_eq_true]
  constructor
  · rintro ⟨h1, h2 | h2, h3⟩
    · exact Or.inl ⟨h1, h2, h3⟩
    · exact Or.inr ⟨h1, h2, h3⟩
  · rintro (⟨h1, h2, h3⟩ | ⟨h1, h2, h3⟩)
    · exact ⟨h1, Or.inl h2, h3⟩
    · exact ⟨h1, Or.inr h2, h3⟩

/-- extra capabilities never remove an output -/
theorem written_caps_mono (e : Enum) (he : e = geod ∨ e = geodx) (caps extra outmask : Nat) (arcmode : Bool) (o : Out)
    (h : o ∈ written e caps outmask arcmode) : o ∈ written e (caps ||| extra) outmask arcmode := by
  rw [written_spec e he] at h ⊢
  obtain ⟨h1, h2, h3⟩ := h
  refine ⟨?_, h2, ?_⟩
  · rw [locatable_iff e he] at h1 ⊢
    rcases h1 with h1 | h1
    · exact Or.inl h1
    · exact Or.inr (by simp [Nat.testBit_or, h1])
  · unfold lineCaps at h3 ⊢
    simp only [Nat.testBit_or, Bool.or_eq_true] at h3 ⊢
    rcases h3 with ((h | h) | h) | h
    · exact Or.inl (Or.inl (Or.inl (Or.inl h)))
    · exact Or.inl (Or.inl (Or.inr h))
    · exact Or.inl (Or.inr h)
    · exact Or.inr h

/-- non-vacuity: a line created with `DISTANCE_IN | AREA` asked for everything writes lat2, azi2, S12 only -/
example : written geod (geod_DISTANCE_IN ||| geod_AREA) geod_ALL false = [.lat2, .azi2, .S12] := by decide

end GeoVerif.Props.C12
