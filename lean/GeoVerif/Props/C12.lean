import GeoVerif.Model.Mask
import GeoVerif.Proofs.LineState
import GeoVerif.Model.Overloads
import GeoVerif.Model.MaskInverse
import GeoVerif.Proofs.MaskInverse
/-!
# C12 — output masks and line capabilities

The enums are those of the current headers (`Gen.Mask`).
-/
namespace GeoVerif.Props.C12
open GeoVerif GeoVerif.Mask Gen.Mask

/-- documented bit layout of `Geodesic::mask` / `GeodesicExact::mask`: the output part of each flag is a single bit
    in 7..15, capability bits lie below bit 7, and `OUT_MASK`, `OUT_ALL` are as documented -/
theorem enum_layout :
    (∀ e ∈ [geod, geodx],
      e.outMask = 0xFF80 ∧ e.outAll = 0x7F80 ∧
      (∀ o ∈ Out.all, e.flag o &&& e.outMask = 1 <<< o.bit) ∧
      e.distanceIn &&& e.outMask = 1 <<< distanceInBit ∧
      e.longUnroll = 1 <<< longUnrollBit ∧
      e.latitude &&& 0x7F = 0 ∧ e.azimuth &&& 0x7F = 0) ∧
    geod_ALL = 0x7F9F ∧ geodx_ALL = 0x7F9F ∧
    geod_STANDARD = geod_LATITUDE ||| geod_LONGITUDE ||| geod_AZIMUTH ||| geod_DISTANCE ∧
    rhumb_ALL = 0x7F80 ∧ rhumb_LATITUDE = 1 <<< 7 ∧ rhumb_LONGITUDE = 1 <<< 8 ∧ rhumb_AZIMUTH = 1 <<< 9 ∧
    rhumb_DISTANCE = 1 <<< 10 ∧ rhumb_AREA = 1 <<< 14 ∧ rhumb_LONG_UNROLL = 1 <<< 15 := by decide

/-- single-bit test: `x &&& 2^k ≠ 0 ↔ x.testBit k` -/
theorem and_pow_ne_zero (x k : Nat) : (x &&& (1 <<< k) != 0) = x.testBit k := by
  rw [Nat.one_shiftLeft]
  by_cases h : x.testBit k
  · have : x &&& 2 ^ k = 2 ^ k := by
      apply Nat.eq_of_testBit_eq; intro i
      simp only [Nat.testBit_and, Nat.testBit_two_pow]
      by_cases hik : k = i <;> simp [hik, h] <;> (subst hik; exact h)
    simp [this, h]
  · have : x &&& 2 ^ k = 0 := by
      apply Nat.eq_of_testBit_eq; intro i
      simp only [Nat.testBit_and, Nat.testBit_two_pow, Nat.zero_testBit]
      by_cases hik : k = i <;> simp [hik] ; (subst hik; simpa using h)
    simp [this, h]

/-- the test the code performs on the already-reduced mask, in terms of single bits -/
theorem flag_test (e : Enum) (he : e = geod ∨ e = geodx) (x : Nat) (hx : x &&& e.outMask = x) (o : Out) :
    ((x &&& e.flag o) != 0) = x.testBit o.bit := by
  have hl : e.flag o &&& e.outMask = 1 <<< o.bit := by
    rcases he with rfl | rfl <;> cases o <;> decide
  have : x &&& e.flag o = x &&& (1 <<< o.bit) := by
    rw [← hl, ← Nat.and_assoc, Nat.and_comm x (e.flag o), Nat.and_assoc, hx, Nat.and_comm]
  rw [this, and_pow_ne_zero]

/-- **written_spec**: an output is written iff the point is locatable and its bit is both requested and among the
    line's capabilities -/
theorem written_spec (e : Enum) (he : e = geod ∨ e = geodx) (caps outmask : Nat) (arcmode : Bool) (o : Out) :
    o ∈ written e caps outmask arcmode ↔
      locatable e caps arcmode = true ∧ outmask.testBit o.bit = true ∧ (lineCaps e caps).testBit o.bit = true := by
  unfold written
  have hOM : e.outMask = 0xFF80 := by rcases he with rfl | rfl <;> decide
  have hb : (65408 : Nat).testBit o.bit = true := by cases o <;> decide
  have heff : effective e caps outmask &&& e.outMask = effective e caps outmask := by
    unfold effective
    rw [Nat.and_assoc, Nat.and_assoc, Nat.and_self]
  by_cases hl : locatable e caps arcmode = true
  · simp only [hl, if_true, true_and, List.mem_filter]
    rw [flag_test e he _ heff o]
    have hall : o ∈ Out.all := by cases o <;> decide
    simp only [hall, true_and]
    unfold effective
    simp only [Nat.testBit_and, hOM, hb, Bool.and_true, Bool.and_eq_true]
  · simp [hl]

/-- nothing is written (and NaN is returned) when a distance is asked of a line without `DISTANCE_IN` -/
theorem not_locatable_writes_nothing (e : Enum) (caps outmask : Nat) (h : locatable e caps false = false) :
    written e caps outmask false = [] := by
  unfold written; simp [h]

/-- in arc mode every line can locate the point; in distance mode exactly those with the DISTANCE_IN bit -/
theorem locatable_iff (e : Enum) (he : e = geod ∨ e = geodx) (caps : Nat) (arcmode : Bool) :
    locatable e caps arcmode = true ↔ arcmode = true ∨ caps.testBit distanceInBit = true := by
  unfold locatable
  have h1 : e.outMask &&& e.distanceIn = 1 <<< distanceInBit := by rcases he with rfl | rfl <;> decide
  rw [h1, and_pow_ne_zero]
  have h2 : (lineCaps e caps).testBit distanceInBit = caps.testBit distanceInBit := by
    unfold lineCaps
    simp only [Nat.testBit_or]
    have a : e.latitude.testBit distanceInBit = false := by rcases he with rfl | rfl <;> decide
    have b : e.azimuth.testBit distanceInBit = false := by rcases he with rfl | rfl <;> decide
    have c : e.longUnroll.testBit distanceInBit = false := by rcases he with rfl | rfl <;> decide
    simp [a, b, c]
  rw [h2]; cases arcmode <;> simp

/-- latitude, azimuth and longitude unrolling are always among a line's capabilities -/
theorem default_caps (e : Enum) (he : e = geod ∨ e = geodx) (caps : Nat) :
    (lineCaps e caps).testBit Out.lat2.bit = true ∧ (lineCaps e caps).testBit Out.azi2.bit = true ∧
    (lineCaps e caps).testBit longUnrollBit = true := by
  unfold lineCaps
  simp only [Nat.testBit_or]
  have a : e.latitude.testBit Out.lat2.bit = true := by rcases he with rfl | rfl <;> decide
  have b : e.azimuth.testBit Out.azi2.bit = true := by rcases he with rfl | rfl <;> decide
  have c : e.longUnroll.testBit longUnrollBit = true := by rcases he with rfl | rfl <;> decide
  simp [a, b, c]

/-- **additivity / independence of the request**: requesting more never changes whether a given output is written -/
theorem written_or (e : Enum) (he : e = geod ∨ e = geodx) (caps m1 m2 : Nat) (arcmode : Bool) (o : Out) :
    o ∈ written e caps (m1 ||| m2) arcmode ↔ o ∈ written e caps m1 arcmode ∨ o ∈ written e caps m2 arcmode := by
  simp only [written_spec e he, Nat.testBit_or, Bool.or_eq_true]
  constructor
  · rintro ⟨h1, h2 | h2, h3⟩
    · exact Or.inl ⟨h1, h2, h3⟩
    · exact Or.inr ⟨h1, h2, h3⟩
  · rintro (⟨h1, h2, h3⟩ | ⟨h1, h2, h3⟩)
    · exact ⟨h1, Or.inl h2, h3⟩
    · exact ⟨h1, Or.inr h2, h3⟩

/-- extra capabilities never remove an output -/
theorem written_caps_mono (e : Enum) (he : e = geod ∨ e = geodx) (caps extra outmask : Nat) (arcmode : Bool) (o : Out)
    (h : o ∈ written e caps outmask arcmode) : o ∈ written e (caps ||| extra) outmask arcmode := by
  rw [written_spec e he] at h ⊢
  obtain ⟨h1, h2, h3⟩ := h
  refine ⟨?_, h2, ?_⟩
  · rw [locatable_iff e he] at h1 ⊢
    rcases h1 with h1 | h1
    · exact Or.inl h1
    · exact Or.inr (by simp [Nat.testBit_or, h1])
  · unfold lineCaps at h3 ⊢
    simp only [Nat.testBit_or, Bool.or_eq_true] at h3 ⊢
    rcases h3 with ((h | h) | h) | h
    · exact Or.inl (Or.inl (Or.inl (Or.inl h)))
    · exact Or.inl (Or.inl (Or.inr h))
    · exact Or.inl (Or.inr h)
    · exact Or.inr h

/-- non-vacuity: a line created with `DISTANCE_IN | AREA` asked for everything writes lat2, azi2, S12 only -/
example : written geod (geod_DISTANCE_IN ||| geod_AREA) geod_ALL false = [.lat2, .azi2, .S12] := by decide

/-! ### dataflow model of `GenPosition`: value independence of the mask -/

set_option linter.unusedSimpArgs false

/-- **series line**: the term assigned to output `o` is the same for any two reduced masks that both request `o`
    (and, for the longitude, agree on `LONG_UNROLL`, which by documentation changes the meaning of `lon2`) -/
theorem genPosG_mask_independent (e : Enum) (lc eff1 eff2 : Nat) (arcmode bigf : Bool) (x : T) (o : Out)
    (h1 : want e eff1 o = true) (h2 : want e eff2 o = true)
    (hu : o = .lon2 → wantUnroll e eff1 = wantUnroll e eff2) :
    genPosG e lc eff1 arcmode bigf x o = genPosG e lc eff2 arcmode bigf x o := by
  cases o
  case lat2 => simp only [genPosG, h1, h2]
  case azi2 => simp only [genPosG, h1, h2]
  case lon2 => simp only [genPosG, h1, h2, hu rfl]
  case s12 =>
    have a := wantLen_of e eff1 .s12 (Or.inl rfl) h1
    have b := wantLen_of e eff2 .s12 (Or.inl rfl) h2
    simp only [genPosG, h1, h2, a, b]
  case m12 =>
    have a := wantLen_of e eff1 .m12 (Or.inr (Or.inl rfl)) h1
    have b := wantLen_of e eff2 .m12 (Or.inr (Or.inl rfl)) h2
    have c := wantRG_of e eff1 .m12 (Or.inl rfl) h1
    have d := wantRG_of e eff2 .m12 (Or.inl rfl) h2
    simp only [genPosG, h1, h2, a, b, c, d]
  case M12 =>
    have a := wantLen_of e eff1 .M12 (Or.inr (Or.inr (Or.inl rfl))) h1
    have b := wantLen_of e eff2 .M12 (Or.inr (Or.inr (Or.inl rfl))) h2
    have c := wantRG_of e eff1 .M12 (Or.inr (Or.inl rfl)) h1
    have d := wantRG_of e eff2 .M12 (Or.inr (Or.inl rfl)) h2
    simp only [genPosG, h1, h2, a, b, c, d]
  case M21 =>
    have a := wantLen_of e eff1 .M21 (Or.inr (Or.inr (Or.inr rfl))) h1
    have b := wantLen_of e eff2 .M21 (Or.inr (Or.inr (Or.inr rfl))) h2
    have c := wantRG_of e eff1 .M21 (Or.inr (Or.inr rfl)) h1
    have d := wantRG_of e eff2 .M21 (Or.inr (Or.inr rfl)) h2
    simp only [genPosG, h1, h2, a, b, c, d]
  case S12 => simp only [genPosG, h1, h2]

theorem genPosX_mask_independent (e : Enum) (lc eff1 eff2 : Nat) (arcmode : Bool) (x : T) (o : Out)
    (h1 : want e eff1 o = true) (h2 : want e eff2 o = true)
    (hu : o = .lon2 → wantUnroll e eff1 = wantUnroll e eff2) :
    genPosX e lc eff1 arcmode x o = genPosX e lc eff2 arcmode x o := by
  cases o
  case lat2 => simp only [genPosX, h1, h2]
  case azi2 => simp only [genPosX, h1, h2]
  case lon2 => simp only [genPosX, h1, h2, hu rfl]
  case s12 =>
    have a := wantLen_of e eff1 .s12 (Or.inl rfl) h1
    have b := wantLen_of e eff2 .s12 (Or.inl rfl) h2
    simp only [genPosX, h1, h2, a, b]
  case m12 =>
    have c := wantRG_of e eff1 .m12 (Or.inl rfl) h1
    have d := wantRG_of e eff2 .m12 (Or.inl rfl) h2
    simp only [genPosX, h1, h2, c, d]
  case M12 =>
    have c := wantRG_of e eff1 .M12 (Or.inr (Or.inl rfl)) h1
    have d := wantRG_of e eff2 .M12 (Or.inr (Or.inl rfl)) h2
    simp only [genPosX, h1, h2, c, d]
  case M21 =>
    have c := wantRG_of e eff1 .M21 (Or.inr (Or.inr rfl)) h1
    have d := wantRG_of e eff2 .M21 (Or.inr (Or.inr rfl)) h2
    simp only [genPosX, h1, h2, c, d]
  case S12 => simp only [genPosX, h1, h2]

/-- the line's capabilities contain all of a flag (output bit and the `CAP_x` bits it carries) -/
def Covers (lc flag : Nat) : Prop := lc &&& flag = flag
instance (lc flag : Nat) : Decidable (Covers lc flag) := by unfold Covers; infer_instance

theorem testBit_of_covers {lc f : Nat} (h : Covers lc f) (k : Nat) (hk : f.testBit k = true) : lc.testBit k = true := by
  have := congrArg (fun n => n.testBit k) h
  simp only [Nat.testBit_and, hk, Bool.and_true] at this
  exact this

theorem fld_of_bit {lc k : Nat} (h : lc.testBit k = true) (name : String) : fld lc k name = .sym name := by
  unfold fld; rw [if_pos h]

theorem fld_full (lc k : Nat) (hk : k < 5) (name : String) : fld (lc ||| 31) k name = .sym name := by
  apply fld_of_bit
  rw [Nat.testBit_or]
  have : (31 : Nat).testBit k = true := by
    have : k = 0 ∨ k = 1 ∨ k = 2 ∨ k = 3 ∨ k = 4 := by omega
    rcases this with rfl | rfl | rfl | rfl | rfl <;> decide
  simp [this]

/-- **series line, capabilities**: if `_caps` contains the whole flag of output `o` (and, in distance mode, the whole
    of `DISTANCE_IN`), the term assigned to `o` reads only fields that `LineInit` has set: it is the term obtained
    with every capability present.  (The `CAP_x` bits carried by each flag are those of the current header.) -/
theorem genPosG_caps_independent (lc eff : Nat) (arcmode bigf : Bool) (x : T) (o : Out)
    (hc : Covers lc (geod.flag o)) (hd : arcmode = false → Covers lc geod.distanceIn) :
    genPosG geod lc eff arcmode bigf x o = genPosG geod (lc ||| 31) eff arcmode bigf x o := by
  have f0 := fld_full lc 0 (by omega); have f1 := fld_full lc 1 (by omega); have f2 := fld_full lc 2 (by omega)
  have f3 := fld_full lc 3 (by omega); have f4 := fld_full lc 4 (by omega)
  cases arcmode
  · -- distance mode: CAP_C1 and CAP_C1p are present
    have d0 := fld_of_bit (testBit_of_covers (hd rfl) 0 (by decide))
    have d1 := fld_of_bit (testBit_of_covers (hd rfl) 1 (by decide))
    cases o
    case lat2 => simp only [genPosG, sigG, ↓reduceIte, if_true, if_false, Bool.false_eq_true, f0, f1, d0, d1]
    case azi2 => simp only [genPosG, sigG, ↓reduceIte, if_true, if_false, Bool.false_eq_true, f0, f1, d0, d1]
    case s12 => simp only [genPosG, sigG, ↓reduceIte, if_true, if_false, Bool.false_eq_true, f0, f1, d0, d1]
    case lon2 =>
      have c3 := fld_of_bit (testBit_of_covers hc 3 (by decide))
      simp only [genPosG, sigG, ↓reduceIte, if_true, if_false, Bool.false_eq_true, f0, f1, f3, d0, d1, c3]
    case m12 =>
      have c2 := fld_of_bit (testBit_of_covers hc 2 (by decide))
      simp only [genPosG, sigG, ↓reduceIte, if_true, if_false, Bool.false_eq_true, f0, f1, f2, d0, d1, c2]
    case M12 =>
      have c2 := fld_of_bit (testBit_of_covers hc 2 (by decide))
      simp only [genPosG, sigG, ↓reduceIte, if_true, if_false, Bool.false_eq_true, f0, f1, f2, d0, d1, c2]
    case M21 =>
      have c2 := fld_of_bit (testBit_of_covers hc 2 (by decide))
      simp only [genPosG, sigG, ↓reduceIte, if_true, if_false, Bool.false_eq_true, f0, f1, f2, d0, d1, c2]
    case S12 =>
      have c4 := fld_of_bit (testBit_of_covers hc 4 (by decide))
      simp only [genPosG, sigG, ↓reduceIte, if_true, if_false, Bool.false_eq_true, f0, f1, f4, d0, d1, c4]
  · cases o
    case lat2 => simp only [genPosG, sigG, ↓reduceIte, if_true, if_false, Bool.false_eq_true, if_true]
    case azi2 => simp only [genPosG, sigG, ↓reduceIte, if_true, if_false, Bool.false_eq_true, if_true]
    case s12 =>
      have c0 := fld_of_bit (testBit_of_covers hc 0 (by decide))
      simp only [genPosG, sigG, ↓reduceIte, if_true, if_false, Bool.false_eq_true, f0, c0]
    case lon2 =>
      have c3 := fld_of_bit (testBit_of_covers hc 3 (by decide))
      simp only [genPosG, sigG, ↓reduceIte, if_true, if_false, Bool.false_eq_true, f3, c3]
    case m12 =>
      have c0 := fld_of_bit (testBit_of_covers hc 0 (by decide))
      have c2 := fld_of_bit (testBit_of_covers hc 2 (by decide))
      simp only [genPosG, sigG, ↓reduceIte, if_true, if_false, Bool.false_eq_true, f0, f2, c0, c2]
    case M12 =>
      have c0 := fld_of_bit (testBit_of_covers hc 0 (by decide))
      have c2 := fld_of_bit (testBit_of_covers hc 2 (by decide))
      simp only [genPosG, sigG, ↓reduceIte, if_true, if_false, Bool.false_eq_true, f0, f2, c0, c2]
    case M21 =>
      have c0 := fld_of_bit (testBit_of_covers hc 0 (by decide))
      have c2 := fld_of_bit (testBit_of_covers hc 2 (by decide))
      simp only [genPosG, sigG, ↓reduceIte, if_true, if_false, Bool.false_eq_true, f0, f2, c0, c2]
    case S12 =>
      have c4 := fld_of_bit (testBit_of_covers hc 4 (by decide))
      simp only [genPosG, sigG, ↓reduceIte, if_true, if_false, Bool.false_eq_true, f4, c4]

/-- **exact line, capabilities** (`CAP_E` = bit 0, `CAP_D` = bit 2, `CAP_H` = bit 3, `CAP_C4` = bit 4) -/
theorem genPosX_caps_independent (lc eff : Nat) (arcmode : Bool) (x : T) (o : Out)
    (hc : Covers lc (geodx.flag o)) (hd : arcmode = false → Covers lc geodx.distanceIn) :
    genPosX geodx lc eff arcmode x o = genPosX geodx (lc ||| 31) eff arcmode x o := by
  have f0 := fld_full lc 0 (by omega); have f2 := fld_full lc 2 (by omega)
  have f3 := fld_full lc 3 (by omega); have f4 := fld_full lc 4 (by omega)
  cases arcmode
  · have d0 := fld_of_bit (testBit_of_covers (hd rfl) 0 (by decide))
    cases o
    case lat2 => simp only [genPosX, sigX, ↓reduceIte, Bool.false_eq_true, f0, d0]
    case azi2 => simp only [genPosX, sigX, ↓reduceIte, Bool.false_eq_true, f0, d0]
    case s12 => simp only [genPosX, sigX, ↓reduceIte, Bool.false_eq_true, f0, d0]
    case lon2 =>
      have c3 := fld_of_bit (testBit_of_covers hc 3 (by decide))
      simp only [genPosX, sigX, ↓reduceIte, Bool.false_eq_true, f0, f3, d0, c3]
    case m12 =>
      have c2 := fld_of_bit (testBit_of_covers hc 2 (by decide))
      simp only [genPosX, sigX, ↓reduceIte, Bool.false_eq_true, f0, f2, d0, c2]
    case M12 =>
      have c2 := fld_of_bit (testBit_of_covers hc 2 (by decide))
      simp only [genPosX, sigX, ↓reduceIte, Bool.false_eq_true, f0, f2, d0, c2]
    case M21 =>
      have c2 := fld_of_bit (testBit_of_covers hc 2 (by decide))
      simp only [genPosX, sigX, ↓reduceIte, Bool.false_eq_true, f0, f2, d0, c2]
    case S12 =>
      have c4 := fld_of_bit (testBit_of_covers hc 4 (by decide))
      simp only [genPosX, sigX, ↓reduceIte, Bool.false_eq_true, f0, f4, d0, c4]
  · cases o
    case lat2 => simp only [genPosX, sigX, ↓reduceIte]
    case azi2 => simp only [genPosX, sigX, ↓reduceIte]
    case s12 =>
      have c0 := fld_of_bit (testBit_of_covers hc 0 (by decide))
      simp only [genPosX, sigX, ↓reduceIte, f0, c0]
    case lon2 =>
      have c3 := fld_of_bit (testBit_of_covers hc 3 (by decide))
      simp only [genPosX, sigX, ↓reduceIte, f3, c3]
    case m12 =>
      have c2 := fld_of_bit (testBit_of_covers hc 2 (by decide))
      simp only [genPosX, sigX, ↓reduceIte, f2, c2]
    case M12 =>
      have c2 := fld_of_bit (testBit_of_covers hc 2 (by decide))
      simp only [genPosX, sigX, ↓reduceIte, f2, c2]
    case M21 =>
      have c2 := fld_of_bit (testBit_of_covers hc 2 (by decide))
      simp only [genPosX, sigX, ↓reduceIte, f2, c2]
    case S12 =>
      have c4 := fld_of_bit (testBit_of_covers hc 4 (by decide))
      simp only [genPosX, sigX, ↓reduceIte, f4, c4]

/-! ### the theorems on `genPosition` (masks and capabilities as the user passes them) -/

theorem mem_written_iff (e : Enum) (caps outmask : Nat) (arcmode : Bool) (o : Out) :
    o ∈ written e caps outmask arcmode ↔ locatable e caps arcmode = true ∧ want e (effective e caps outmask) o = true := by
  unfold written want
  by_cases hl : locatable e caps arcmode = true
  · have hall : o ∈ Out.all := by cases o <;> decide
    simp [hl, List.mem_filter, hall]
  · simp [hl]

/-- **`value_mask_independent`**: for two masks under which output `o` is written (for `lon2`: which agree on
    `LONG_UNROLL`), the dataflow model of `GenPosition` assigns the *same term* to `o`, whatever else is requested —
    both line classes, arc and distance mode, with and without the Newton correction -/
theorem value_mask_independent (e : Enum) (exact : Bool) (caps m1 m2 : Nat) (arcmode bigf : Bool) (x : T) (o : Out)
    (h1 : o ∈ written e caps m1 arcmode) (h2 : o ∈ written e caps m2 arcmode)
    (hu : o = .lon2 → wantUnroll e (effective e caps m1) = wantUnroll e (effective e caps m2)) :
    genPosition e exact caps m1 arcmode bigf x o = genPosition e exact caps m2 arcmode bigf x o := by
  rw [mem_written_iff] at h1 h2
  unfold genPosition
  rw [if_pos h1.1, if_pos h1.1]
  cases exact
  · simp only [Bool.false_eq_true, if_false]
    exact genPosG_mask_independent e _ _ _ arcmode bigf x o h1.2 h2.2 hu
  · simp only [if_true]
    exact genPosX_mask_independent e _ _ _ arcmode x o h1.2 h2.2 hu

/-- an output that is written is assigned a term, one that is not written is not -/
theorem genPosition_isSome_iff (e : Enum) (exact : Bool) (caps m : Nat) (arcmode bigf : Bool) (x : T) (o : Out) :
    (genPosition e exact caps m arcmode bigf x o).isSome = true ↔ o ∈ written e caps m arcmode := by
  rw [mem_written_iff]
  unfold genPosition
  by_cases hl : locatable e caps arcmode = true
  · rw [if_pos hl]
    by_cases hw : want e (effective e caps m) o = true
    · have hlen : (o = .m12 ∨ o = .M12 ∨ o = .M21) → wantRG e (effective e caps m) = true := fun ho => wantRG_of e _ o ho hw
      cases exact <;> cases o <;> simp [genPosG, genPosX, hw, hl, hlen]
    · have hw' : want e (effective e caps m) o = false := by simpa using hw
      cases exact <;> cases o <;> simp [genPosG, genPosX, hw', hl]
  · simp [hl]

/-- **`value_caps_independent`**: with capabilities that contain the whole flag of `o` (as every union of the
    documented constants that contains its output bit does), and the whole of `DISTANCE_IN` in distance mode, the
    term assigned to `o` reads no field left unset by `LineInit`: it is the term of a line with all capabilities -/
theorem value_caps_independent (exact : Bool) (caps m : Nat) (arcmode bigf : Bool) (x : T) (o : Out)
    (hc : Covers (lineCaps (if exact then geodx else geod) caps) ((if exact then geodx else geod).flag o))
    (hd : arcmode = false → Covers (lineCaps (if exact then geodx else geod) caps) (if exact then geodx else geod).distanceIn) :
    (if exact then genPosX geodx (lineCaps geodx caps) m arcmode x o else genPosG geod (lineCaps geod caps) m arcmode bigf x o) =
    (if exact then genPosX geodx (lineCaps geodx caps ||| 31) m arcmode x o
     else genPosG geod (lineCaps geod caps ||| 31) m arcmode bigf x o) := by
  cases exact
  · simp only [Bool.false_eq_true, if_false] at hc hd ⊢
    exact genPosG_caps_independent _ m arcmode bigf x o hc hd
  · simp only [if_true] at hc hd ⊢
    exact genPosX_caps_independent _ m arcmode x o hc hd

/-- the flags of the current headers carry exactly the capability bits the model's `fld` tests assume -/
theorem cap_bits :
    geod.longitude &&& 31 = 8 ∧ geod.distance &&& 31 = 1 ∧ geod.distanceIn &&& 31 = 3 ∧ geod.reducedlength &&& 31 = 5 ∧
    geod.geodesicscale &&& 31 = 5 ∧ geod.area &&& 31 = 16 ∧ geod.latitude &&& 31 = 0 ∧ geod.azimuth &&& 31 = 0 ∧
    geodx.longitude &&& 31 = 8 ∧ geodx.distance &&& 31 = 1 ∧ geodx.distanceIn &&& 31 = 1 ∧ geodx.reducedlength &&& 31 = 4 ∧
    geodx.geodesicscale &&& 31 = 4 ∧ geodx.area &&& 31 = 16 ∧ geodx.latitude &&& 31 = 0 ∧ geodx.azimuth &&& 31 = 0 := by
  decide

/-- non-vacuity: a line made with `DISTANCE_IN | REDUCEDLENGTH` covers `m12` and `DISTANCE_IN`; with masks
    `REDUCEDLENGTH` and `ALL` the output `m12` is written in both cases -/
example : Covers (lineCaps geod (geod_DISTANCE_IN ||| geod_REDUCEDLENGTH)) (geod.flag .m12) ∧
    Covers (lineCaps geod (geod_DISTANCE_IN ||| geod_REDUCEDLENGTH)) geod.distanceIn ∧
    Out.m12 ∈ written geod (geod_DISTANCE_IN ||| geod_REDUCEDLENGTH) geod_REDUCEDLENGTH false ∧
    Out.m12 ∈ written geod (geod_DISTANCE_IN ||| geod_REDUCEDLENGTH) geod_ALL false := by decide

/-! ### the third point -/

/-- **`third_point` (distance)**: after `SetDistance(s)`, `Distance()` is `s` and `Arc()` is exactly the value that
    `Position(Distance(), …)` (any mask) returns as `a12` — both calls address the same σ₁₂; a line without
    `DISTANCE_IN` gets `a13 = NaN` -/
theorem third_point_distance (e : Enum) (bigf : Bool) (L : Line) (s : T) :
    (setDistance e bigf L s).s13 = some s ∧
    (setDistance e bigf L s).a13 = genPositionRet e L.exact L.caps false bigf s ∧
    (locatable e L.caps false = false → (setDistance e bigf L s).a13 = none) := by
  refine ⟨rfl, rfl, ?_⟩
  intro h; simp [setDistance, genPositionRet, h]

/-- **`third_point` (arc)**: after `SetArc(a)`, `Arc()` is `a`, which is what `ArcPosition(Arc(), …)` returns as `a12`;
    `Distance()` is the very term any `ArcPosition(a, mask ∋ DISTANCE)` assigns to `s12`, and NaN when the line
    lacks the `DISTANCE` capability -/
theorem third_point_arc (e : Enum) (he : e = geod ∨ e = geodx) (bigf : Bool) (L : Line) (a : T) :
    (setArc e bigf L a).a13 = some a ∧
    genPositionRet e L.exact L.caps true bigf a = some a ∧
    (∀ m, Out.s12 ∈ written e L.caps m true →
      genPosition e L.exact L.caps m true bigf a .s12 = (setArc e bigf L a).s13 ∧ (setArc e bigf L a).s13.isSome = true) ∧
    ((lineCaps e L.caps).testBit Out.s12.bit = false → (setArc e bigf L a).s13 = none) := by
  refine ⟨rfl, by simp [genPositionRet, locatable], ?_, ?_⟩
  · intro m hm
    have hd : Out.s12 ∈ written e L.caps e.distance true := by
      rw [written_spec e he] at hm ⊢
      refine ⟨hm.1, ?_, hm.2.2⟩
      rcases he with rfl | rfl <;> decide
    refine ⟨value_mask_independent e L.exact L.caps m e.distance true bigf a .s12 hm hd (by intro h; cases h), ?_⟩
    exact (genPosition_isSome_iff e L.exact L.caps e.distance true bigf a .s12).mpr hd
  · intro h
    have : Out.s12 ∉ written e L.caps e.distance true := by
      rw [written_spec e he]; intro hh; rw [h] at hh; exact absurd hh.2.2 (by decide)
    have h2 : ¬ ((genPosition e L.exact L.caps e.distance true bigf a .s12).isSome = true) :=
      fun hh => this ((genPosition_isSome_iff e L.exact L.caps e.distance true bigf a .s12).mp hh)
    simpa [setArc] using h2

/-- **`InverseLine`**: the line's `a13` is the `a12` of the inverse problem, and when the requested capabilities
    include `DISTANCE_IN`, `DISTANCE` is added so that `s13` is set (to the `s12` term of arc `a12`) -/
theorem inverseLine_third_point (e : Enum) (he : e = geod ∨ e = geodx) (exact bigf : Bool) (caps : Nat) (a12 : T) :
    (inverseLine e exact bigf caps a12).a13 = some a12 ∧
    (caps.testBit distanceInBit = true → (inverseLine e exact bigf caps a12).s13.isSome = true) := by
  refine ⟨rfl, ?_⟩
  intro h
  have h1 : e.outMask &&& e.distanceIn = 1 <<< distanceInBit := by rcases he with rfl | rfl <;> decide
  have hc : (caps &&& (e.outMask &&& e.distanceIn) != 0) = true := by rw [h1, and_pow_ne_zero]; exact h
  unfold inverseLine
  simp only [hc, if_true]
  have hw : Out.s12 ∈ written e (caps ||| e.distance) e.distance true := by
    rw [written_spec e he]
    refine ⟨by simp [locatable], ?_, ?_⟩
    · rcases he with rfl | rfl <;> decide
    · unfold lineCaps
      have : e.distance.testBit Out.s12.bit = true := by rcases he with rfl | rfl <;> decide
      simp [Nat.testBit_or, this]
  exact (genPosition_isSome_iff e exact (caps ||| e.distance) e.distance true bigf a12 .s12).mpr hw

/-- `DirectLine` / `ArcDirectLine`: point 3 is point 2 of the direct problem -/
theorem directLine_third_point (e : Enum) (exact bigf : Bool) (caps : Nat) (x : T) :
    (directLine e exact bigf caps false x).s13 = some x ∧ (directLine e exact bigf caps true x).a13 = some x :=
  ⟨rfl, rfl⟩


/-! ### the third point of a line object: a state machine over arbitrary histories (`Model/LineState.lean`)

The machine is the one the driver executes against the implementation (`linehist`): constructors, `SetDistance`, `SetArc`,
`GenSetDistance`, `Distance()`, `Arc()`, `GenDistance`, around the abstract kernels `arcOf` / `distOf`.  All theorems hold
for *every* kernel and every value type. -/

section ThirdPoint
open GeoVerif.LineState
variable {α : Type}

/-- **history independence**: after any history of setter calls, reader calls and copies, the line object is in the state
    that a fresh line (same capabilities, third point never set) reaches from the *last* setter call alone; if no setter
    was called the state is unchanged -/
theorem history_independent (e : Enum) (K : Kern α) (st : St α) (h : List (Ev α)) :
    (run e K st h).1 = fromLastSet e K st h ∧
    (∀ o, lastSet h = some o → fromLastSet e K st h = step e K (fresh K st.caps) o) ∧
    (lastSet h = none → fromLastSet e K st h = st) := by
  refine ⟨run_state e K st h, ?_, ?_⟩
  · intro o ho; unfold fromLastSet; rw [ho]; rfl
  · intro ho; unfold fromLastSet; rw [ho]

/-- every value a reader returns in the course of a history is the value it returns on the line that has seen only the
    last setter call before it -/
theorem reader_history_independent (e : Enum) (K : Kern α) (st : St α) (h1 h2 : List (Ev α)) (r : Rd) :
    (run e K st (h1 ++ .get r :: h2)).2 =
      (run e K st h1).2 ++ LineState.read K (fromLastSet e K st h1) r :: (run e K (fromLastSet e K st h1) h2).2 := by
  rw [run_append]; simp only [run]; rw [run_state]

/-- the capabilities of a line never change -/
theorem caps_invariant (e : Enum) (K : Kern α) (st : St α) (h : List (Ev α)) : (run e K st h).1.caps = st.caps :=
  run_caps e K st h

theorem lineCaps_testBit (e : Enum) (he : e = geod ∨ e = geodx) (caps k : Nat) (hk : k = 10 ∨ k = 11) :
    (lineCaps e caps).testBit k = caps.testBit k := by
  unfold lineCaps
  simp only [Nat.testBit_or]
  have a : e.latitude.testBit k = false := by rcases he with rfl | rfl <;> rcases hk with rfl | rfl <;> decide
  have b : e.azimuth.testBit k = false := by rcases he with rfl | rfl <;> rcases hk with rfl | rfl <;> decide
  have c : e.longUnroll.testBit k = false := by rcases he with rfl | rfl <;> rcases hk with rfl | rfl <;> decide
  simp [a, b, c]

/-- the two guards in terms of the capability bits the user passed to the constructor: a line can turn a distance into
    an arc iff it was given the `DISTANCE_IN` bit (bit 11), and `SetArc` obtains a distance iff it was given the
    `DISTANCE` bit (bit 10); by arc every initialised line can locate the point -/
theorem guards_spec (e : Enum) (he : e = geod ∨ e = geodx) (caps : Nat) :
    canLocate e (lineCaps e caps) false = caps.testBit distanceInBit ∧
    canLocate e (lineCaps e caps) true = true ∧
    assignsS12 e (lineCaps e caps) = caps.testBit Out.s12.bit := by
  have hne : (lineCaps e caps != 0) = true := by simpa using lineCaps_ne_zero e he caps
  have h1 : e.outMask &&& e.distanceIn = 1 <<< distanceInBit := by rcases he with rfl | rfl <;> decide
  have hloc : canLocate e (lineCaps e caps) true = true := by unfold canLocate; simp [hne]
  refine ⟨?_, hloc, ?_⟩
  · unfold canLocate
    rw [h1, and_pow_ne_zero, hne, lineCaps_testBit e he caps distanceInBit (Or.inr rfl)]; simp
  · unfold assignsS12
    rw [hloc]
    have h2 : e.distance &&& (lineCaps e caps &&& e.outMask) &&& e.distance = lineCaps e caps &&& (1 <<< Out.s12.bit) := by
      have hd : e.distance &&& e.outMask = 1 <<< Out.s12.bit := by rcases he with rfl | rfl <;> decide
      rw [← hd]
      apply Nat.eq_of_testBit_eq; intro i
      simp only [Nat.testBit_and]
      cases e.distance.testBit i <;> cases (lineCaps e caps).testBit i <;> cases e.outMask.testBit i <;> rfl
    rw [h2, and_pow_ne_zero, lineCaps_testBit e he caps Out.s12.bit (Or.inl rfl)]; simp

/-- **`SetDistance`**: `Distance()` becomes the value given, whatever the capabilities; `Arc()` becomes the arc of that
    distance if the line has `DISTANCE_IN` and NaN otherwise (`GenPosition` returns NaN before doing anything) -/
theorem setDistance_spec (e : Enum) (he : e = geod ∨ e = geodx) (K : Kern α) (caps : Nat) (a0 s0 s : α) :
    (LineState.setDistance e K ⟨lineCaps e caps, a0, s0⟩ s).s13 = s ∧
    (LineState.setDistance e K ⟨lineCaps e caps, a0, s0⟩ s).a13 = (if caps.testBit distanceInBit then K.arcOf s else K.nan) := by
  refine ⟨rfl, ?_⟩
  simp only [LineState.setDistance, LineState.genPositionRet, (guards_spec e he caps).1]

/-- **`SetArc`**: `Arc()` becomes the value given; `Distance()` becomes the distance of that arc if the line has the
    `DISTANCE` capability and **NaN otherwise — never the distance of an earlier third point** -/
theorem setArc_spec (e : Enum) (he : e = geod ∨ e = geodx) (K : Kern α) (caps : Nat) (a0 s0 a : α) :
    (LineState.setArc e K ⟨lineCaps e caps, a0, s0⟩ a).a13 = a ∧
    (LineState.setArc e K ⟨lineCaps e caps, a0, s0⟩ a).s13 = (if caps.testBit Out.s12.bit then K.distOf a else K.nan) := by
  refine ⟨rfl, ?_⟩
  simp only [LineState.setArc, genPositionS12, (guards_spec e he caps).2.2]

/-- a default-constructed line: whatever is done to it, every reader returns NaN -/
theorem default_line_reads_nan (e : Enum) (K : Kern α) (h : List (Ev α)) (r : Rd) :
    LineState.read K (run e K (defaultLine K) h).1 r = K.nan := by
  have hc : (run e K (defaultLine K) h).1.caps = 0 := by rw [run_caps]; rfl
  cases r <;> simp [LineState.read, genDistance, St.init, hc]

/-- a line made by a constructor is initialised: its readers return the stored third point -/
theorem initialised_reads (e : Enum) (he : e = geod ∨ e = geodx) (K : Kern α) (caps : Nat) (a0 s0 : α) (h : List (Ev α)) :
    let st := (run e K ⟨lineCaps e caps, a0, s0⟩ h).1
    LineState.read K st .distance = st.s13 ∧ LineState.read K st .arc = st.a13 ∧
    (∀ am, LineState.read K st (.genDistance am) = if am then st.a13 else st.s13) := by
  intro st
  have hc : st.caps = lineCaps e caps := run_caps e K _ h
  have hi : st.init = true := by simp [St.init, hc, lineCaps_ne_zero e he caps]
  refine ⟨?_, ?_, ?_⟩ <;> simp [LineState.read, genDistance, hi]

/-- **`Distance()` / `Arc()` consistency.**  Let `posD` / `posA` be the point `GenPosition` reaches for a distance / for
    an arc, and assume the kernel contract of the property ("a position specified by arc length and by the corresponding
    distance is the same point"): `posA (arcOf s) = posD s` and `posD (distOf a) = posA a`.  Then after *any* history on a
    line made by `Line(…, caps)`, whenever both `Arc()` and `Distance()` are numbers they address the same point. -/
theorem third_point_consistent {β : Type} (e : Enum) (he : e = geod ∨ e = geodx) (K : Kern α) (posD posA : α → β)
    (hDA : ∀ s, posA (K.arcOf s) = posD s) (hAD : ∀ a, posD (K.distOf a) = posA a)
    (caps : Nat) (h : List (Ev α)) :
    let st := (run e K (lineInit e K caps) h).1
    st.a13 ≠ K.nan → st.s13 ≠ K.nan → posA st.a13 = posD st.s13 := by
  intro st ha hs
  have hst : st = fromLastSet e K (lineInit e K caps) h := run_state e K _ h
  unfold fromLastSet at hst
  have h2 : (⟨(lineInit e K caps).caps, K.nan, K.nan⟩ : St α) = ⟨lineCaps e caps, K.nan, K.nan⟩ := rfl
  rw [h2] at hst
  cases hl : lastSet h with
  | none => rw [hl] at hst; rw [hst] at ha; exact absurd rfl ha
  | some o =>
    rw [hl] at hst
    have hD : ∀ s, st = LineState.setDistance e K ⟨lineCaps e caps, K.nan, K.nan⟩ s → posA st.a13 = posD st.s13 := by
      intro s h1
      have := setDistance_spec e he K caps K.nan K.nan s
      rw [h1] at ha ⊢
      rw [this.2] at ha; rw [this.1, this.2]
      by_cases hb : caps.testBit distanceInBit = true
      · rw [if_pos hb]; exact hDA s
      · rw [if_neg hb] at ha; exact absurd rfl ha
    have hA : ∀ a, st = LineState.setArc e K ⟨lineCaps e caps, K.nan, K.nan⟩ a → posA st.a13 = posD st.s13 := by
      intro a h1
      have := setArc_spec e he K caps K.nan K.nan a
      rw [h1] at hs ⊢
      rw [this.2] at hs; rw [this.1, this.2]
      by_cases hb : caps.testBit Out.s12.bit = true
      · rw [if_pos hb]; exact (hAD a).symm
      · rw [if_neg hb] at hs; exact absurd rfl hs
    cases o with
    | setDistance s => exact hD s hst
    | setArc a => exact hA a hst
    | genSetDistance am x => cases am with
      | false => exact hD x hst
      | true => exact hA x hst

/-- non-vacuity of `third_point_consistent`: integers with `none` as NaN, `arcOf s = s + 1`, `distOf a = a − 1`,
    `posD s = s`, `posA a = a − 1`; after `SetDistance 5; Arc(); SetArc 9` on a line with every capability both
    components are numbers -/
example :
    let K : Kern (Option Int) := ⟨none, fun s => s.map (· + 1), fun a => a.map (· - 1)⟩
    (∀ s, (fun a : Option Int => a.map (· - 1)) (K.arcOf s) = (fun s => s) s) ∧
    (run geod K (lineInit geod K geod_ALL) [.set (.setDistance (some 5)), .get .arc, .set (.setArc (some 9))]) =
      (⟨lineCaps geod geod_ALL, some 9, some 8⟩, [some 6]) := by
  constructor
  · intro s; cases s <;> simp
  · decide

/-! #### constructors -/

/-- **`DirectLine(s12)`** (any requested capabilities; `DISTANCE_IN` is added): `Distance()` is `s12` — so
    `Position(Distance())` is the very call `Position(s12)` that defines point 2 — and `Arc()` is the arc of `s12` -/
theorem directLine_spec (e : Enum) (he : e = geod ∨ e = geodx) (K : Kern α) (caps : Nat) (s : α) :
    (LineState.directLine e K caps s).s13 = s ∧ (LineState.directLine e K caps s).a13 = K.arcOf s ∧
    (LineState.directLine e K caps s).caps = lineCaps e (caps ||| e.distanceIn) := by
  have hb : (caps ||| e.distanceIn).testBit distanceInBit = true := by
    have : e.distanceIn.testBit distanceInBit = true := by rcases he with rfl | rfl <;> decide
    simp [Nat.testBit_or, this]
  have := setDistance_spec e he K (caps ||| e.distanceIn) K.nan K.nan s
  refine ⟨rfl, ?_, rfl⟩
  show (LineState.setDistance e K ⟨lineCaps e (caps ||| e.distanceIn), K.nan, K.nan⟩ s).a13 = _
  rw [this.2, hb]; rfl

/-- **`ArcDirectLine(a12)`**: `Arc()` is `a12` (so `ArcPosition(Arc())` is the defining call), `Distance()` is the
    distance of that arc when `DISTANCE` was requested and NaN otherwise; no capability is added -/
theorem arcDirectLine_spec (e : Enum) (he : e = geod ∨ e = geodx) (K : Kern α) (caps : Nat) (a : α) :
    (arcDirectLine e K caps a).a13 = a ∧
    (arcDirectLine e K caps a).s13 = (if caps.testBit Out.s12.bit then K.distOf a else K.nan) ∧
    (arcDirectLine e K caps a).caps = lineCaps e caps := by
  have := setArc_spec e he K caps K.nan K.nan a
  exact ⟨rfl, this.2, rfl⟩

/-- **`InverseLine`**: `Arc()` is the `a12` of the inverse problem; if `DISTANCE_IN` was requested, `DISTANCE` is added
    and `Distance()` is the distance of `a12`; if neither was requested `Distance()` is NaN -/
theorem inverseLine_spec (e : Enum) (he : e = geod ∨ e = geodx) (K : Kern α) (caps : Nat) (a12 : α) :
    (LineState.inverseLine e K caps a12).a13 = a12 ∧
    (caps.testBit distanceInBit = true → (LineState.inverseLine e K caps a12).s13 = K.distOf a12 ∧
        (LineState.inverseLine e K caps a12).caps = lineCaps e (caps ||| e.distance)) ∧
    (caps.testBit distanceInBit = false → (LineState.inverseLine e K caps a12).s13 = (if caps.testBit Out.s12.bit then K.distOf a12 else K.nan) ∧
        (LineState.inverseLine e K caps a12).caps = lineCaps e caps) := by
  have h1 : e.outMask &&& e.distanceIn = 1 <<< distanceInBit := by rcases he with rfl | rfl <;> decide
  refine ⟨by unfold LineState.inverseLine; rfl, ?_, ?_⟩
  · intro h
    have hc : (caps &&& (e.outMask &&& e.distanceIn) != 0) = true := by rw [h1, and_pow_ne_zero]; exact h
    have hb : (caps ||| e.distance).testBit Out.s12.bit = true := by
      have : e.distance.testBit Out.s12.bit = true := by rcases he with rfl | rfl <;> decide
      simp [Nat.testBit_or, this]
    have := setArc_spec e he K (caps ||| e.distance) K.nan K.nan a12
    unfold LineState.inverseLine; simp only [hc, if_true]
    refine ⟨?_, rfl⟩
    show (LineState.setArc e K ⟨lineCaps e (caps ||| e.distance), K.nan, K.nan⟩ a12).s13 = _
    rw [this.2, hb]; rfl
  · intro h
    have hc : (caps &&& (e.outMask &&& e.distanceIn) != 0) = false := by rw [h1, and_pow_ne_zero]; exact h
    have := setArc_spec e he K caps K.nan K.nan a12
    unfold LineState.inverseLine; simp only [hc]
    exact ⟨this.2, rfl⟩

/-- with the kernel contract, the stored third point of every line constructor reproduces the end point that defined the
    line, by whichever of `Distance()` / `Arc()` is a number -/
theorem constructors_reproduce_endpoint {β : Type} (e : Enum) (he : e = geod ∨ e = geodx) (K : Kern α) (posD posA : α → β)
    (hDA : ∀ s, posA (K.arcOf s) = posD s) (hAD : ∀ a, posD (K.distOf a) = posA a) (caps : Nat) (x : α) :
    posD (LineState.directLine e K caps x).s13 = posD x ∧ posA (LineState.directLine e K caps x).a13 = posD x ∧
    posA (arcDirectLine e K caps x).a13 = posA x ∧
    (caps.testBit Out.s12.bit = true → posD (arcDirectLine e K caps x).s13 = posA x) ∧
    posA (LineState.inverseLine e K caps x).a13 = posA x ∧
    (caps.testBit distanceInBit = true → posD (LineState.inverseLine e K caps x).s13 = posA x) := by
  have d := directLine_spec e he K caps x
  have a := arcDirectLine_spec e he K caps x
  have i := inverseLine_spec e he K caps x
  refine ⟨by rw [d.1], by rw [d.2.1]; exact hDA x, by rw [a.1], ?_, by rw [i.1], ?_⟩
  · intro h; rw [a.2.1, h]; exact hAD x
  · intro h; rw [(i.2.1 h).1]; exact hAD x

/-- `Capabilities(testcaps)` is true iff every *output* bit (7–14) of `testcaps` is among the line's capabilities;
    `LONG_UNROLL` and the `CAP_x` bits of `testcaps` are ignored -/
theorem capabilities_spec (e : Enum) (he : e = geod ∨ e = geodx) (st : St α) (testcaps : Nat) :
    capabilitiesTest e st testcaps = true ↔ ∀ k, 7 ≤ k → k ≤ 14 → testcaps.testBit k = true → st.caps.testBit k = true := by
  have hall : e.outAll = 0x7F80 := by rcases he with rfl | rfl <;> decide
  unfold capabilitiesTest
  rw [beq_iff_eq, hall]
  constructor
  · intro h k h7 h14 ht
    have := congrArg (fun n => n.testBit k) h
    simp only [Nat.testBit_and] at this
    have hk : (32640 : Nat).testBit k = true := by
      have : k = 7 ∨ k = 8 ∨ k = 9 ∨ k = 10 ∨ k = 11 ∨ k = 12 ∨ k = 13 ∨ k = 14 := by omega
      rcases this with rfl | rfl | rfl | rfl | rfl | rfl | rfl | rfl <;> decide
    simp only [ht, hk, Bool.and_true, Bool.true_and] at this
    simpa using this
  · intro h
    apply Nat.eq_of_testBit_eq; intro k
    simp only [Nat.testBit_and]
    by_cases hk : (32640 : Nat).testBit k = true
    · have hr : 7 ≤ k ∧ k ≤ 14 := by
        rcases Nat.lt_or_ge k 7 with h1 | h1
        · have : k = 0 ∨ k = 1 ∨ k = 2 ∨ k = 3 ∨ k = 4 ∨ k = 5 ∨ k = 6 := by omega
          rcases this with rfl | rfl | rfl | rfl | rfl | rfl | rfl <;> exact absurd hk (by decide)
        · rcases Nat.lt_or_ge 14 k with h3 | h3
          · have h2 : (32640 : Nat) < 2 ^ k :=
              Nat.lt_of_lt_of_le (by decide : (32640 : Nat) < 2 ^ 15) (Nat.pow_le_pow_right (by decide) (by omega))
            rw [Nat.testBit_lt_two_pow h2] at hk; exact absurd hk (by simp)
          · exact ⟨h1, h3⟩
      by_cases ht : testcaps.testBit k = true
      · simp [ht, hk, h k hr.1 hr.2 ht]
      · simp [ht]
    · simp [hk]

/-- `Capabilities()` of a constructed line: the capabilities requested plus `LATITUDE | AZIMUTH | LONG_UNROLL` -/
theorem capabilities_of_line (e : Enum) (K : Kern α) (caps : Nat) (h : List (Ev α)) :
    (run e K (lineInit e K caps) h).1.caps = caps ||| e.latitude ||| e.azimuth ||| e.longUnroll :=
  run_caps e K _ h

end ThirdPoint

/-! ### the overload → mask table (extracted from the five headers on every run, `Gen/Overloads.lean`) -/

/-- **every inline overload** of `Direct`, `ArcDirect`, `Inverse`, `Position`, `ArcPosition` of `Geodesic`, `GeodesicExact`,
    `GeodesicLine`, `GeodesicLineExact`, `Rhumb`, `RhumbLine` (and the two pass-through wrappers of `Rhumb`) satisfies
    `Overloads.rowOK`: the mask it passes to the general function is exactly the union of the flags of its reference
    parameters (so: an output is requested iff the overload has a parameter for it; no `LONG_UNROLL`, no `DISTANCE_IN`);
    every reference parameter is passed in the position of the quantity of the same name and every other position gets a
    scratch local; the inputs are passed unchanged and in order with `arcmode = false` for `Direct` / `Position` and `true` for
    `ArcDirect` / `ArcPosition`; the value of the general function is returned iff the overload returns `Math::real` -/
theorem overload_table_ok : Gen.Overloads.table.all Overloads.rowOK = true := by decide

/-- the `mask` enums of the three line classes repeat those of their solvers -/
theorem line_enums_agree : Overloads.lineEnumsAgree = true := by decide

/-- non-vacuity: the table is not empty, e.g. it has the 20 + 20 + 13 + 13 + 6 + 2 members the headers declare today -/
example : Gen.Overloads.table.length = 74 ∧ Gen.Overloads.decls.length = 9 := by decide

/-! ### `GenInverse`: the canonical `lengthmask` -/

/-- **series `GenInverse`, value independent of the mask**: if the masks handed to `Lengths` are canonical at both masks,
    an output requested under both is assigned the same term — on every branch (meridional, equatorial, short, Newton) -/
theorem genInverseG_mask_independent (c : InvCfg) (hl : c.lengths = lengthsG) (wred : Nat) (br : InvBranch) (om1 om2 : Nat) (o : Out)
    (h1 : want c.e (om1 &&& wred) o = true) (h2 : want c.e (om2 &&& wred) o = true)
    (c1 : Canon c (om1 &&& wred)) (c2 : Canon c (om2 &&& wred)) :
    genInverse c wred br om1 o = genInverse c wred br om2 o ∧ genInverseRet c wred br om1 = genInverseRet c wred br om2 := by
  refine ⟨?_, invCoreG_a12 c hl br _ _ c1 c2⟩
  cases o
  case lat2 => rfl
  case lon2 => rfl
  case azi2 => simp only [genInverse, h1, h2]
  case S12 => simp only [genInverse, h1, h2]
  case s12 => simp only [genInverse, h1, h2, invCoreG_s12x c hl br _ _ c1 c2 h1 h2]
  case m12 => simp only [genInverse, h1, h2, invCoreG_m12x c hl br _ _ c1 c2 h1 h2]
  case M12 =>
    have := invCoreG_M c hl br _ _ c1 c2 h1 h2
    simp only [genInverse, h1, h2, this.1, this.2]
  case M21 =>
    have := invCoreG_M c hl br _ _ c1 c2 h1 h2
    have h1' : want c.e (om1 &&& wred) .M21 = true := h1
    simp only [genInverse, h1, h2, this.1, this.2]


/-- **exact `GenInverse`, value independent of the mask** — `_partial`: on the meridional branch the statement needs the
    hypothesis `hmer` that `DISTANCE` is among what `Lengths` is asked for (with both masks).  The full statement (the one
    proved for the series solver, without `hmer`) is *false* for the current `GeodesicExact.cpp`: its meridional call passes
    `outmask | REDUCEDLENGTH`, so without `DISTANCE` the local `s12x` is read uninitialised by the short-line test
    (finding F67; see the `example` below). -/
theorem genInverseX_mask_independent_partial (c : InvCfg) (hl : c.lengths = lengthsX) (wred : Nat) (br : InvBranch) (om1 om2 : Nat) (o : Out)
    (h1 : want c.e (om1 &&& wred) o = true) (h2 : want c.e (om2 &&& wred) o = true)
    (c1 : CanonX c (om1 &&& wred)) (c2 : CanonX c (om2 &&& wred))
    (hmer : br = .meridian → want c.e (c.mer (om1 &&& wred) &&& c.red) .s12 = true ∧ want c.e (c.mer (om2 &&& wred) &&& c.red) .s12 = true) :
    genInverse c wred br om1 o = genInverse c wred br om2 o ∧ genInverseRet c wred br om1 = genInverseRet c wred br om2 := by
  obtain ⟨ns1, nm1, nG1, mG1, mm1⟩ := c1
  obtain ⟨ns2, nm2, nG2, mG2, mm2⟩ := c2
  have hm := lengthsX_m12b c.e (c.mer (om1 &&& wred) &&& c.red) (c.mer (om2 &&& wred) &&& c.red) (.sym "_n|E") mm1 mm2
  have hmerS : br = .meridian → (lengthsX c.e (c.mer (om1 &&& wred) &&& c.red) (.sym "_n|E")).s12b = (lengthsX c.e (c.mer (om2 &&& wred) &&& c.red) (.sym "_n|E")).s12b :=
    fun hb => lengthsX_s12b c.e _ _ _ (hmer hb).1 (hmer hb).2
  have hM : want c.e (om1 &&& wred) .M12 = true → want c.e (om2 &&& wred) .M12 = true →
      (invCore c br (om1 &&& wred)).M12 = (invCore c br (om2 &&& wred)).M12 ∧ (invCore c br (om1 &&& wred)).M21 = (invCore c br (om2 &&& wred)).M21 := by
    intro g1 g2
    have a := lengthsX_M c.e (c.newt (om1 &&& wred) &&& c.red) (c.newt (om2 &&& wred) &&& c.red) (.sym "eps|E") (by rw [nG1]; exact g1) (by rw [nG2]; exact g2)
    have b := lengthsX_M c.e (c.mer (om1 &&& wred) &&& c.red) (c.mer (om2 &&& wred) &&& c.red) (.sym "_n|E") (by rw [mG1]; exact g1) (by rw [mG2]; exact g2)
    cases br <;> simp only [invCore, hl, a.1, a.2, b.1, b.2, g1, g2, and_self]
  refine ⟨?_, ?_⟩
  · cases o
    case lat2 => rfl
    case lon2 => rfl
    case azi2 => simp only [genInverse, h1, h2]
    case S12 => simp only [genInverse, h1, h2]
    case s12 =>
      have hn := lengthsX_s12b c.e (c.newt (om1 &&& wred) &&& c.red) (c.newt (om2 &&& wred) &&& c.red) (.sym "eps|E") (ns1 h1) (ns2 h2)
      cases br
      case meridian => simp only [genInverse, h1, h2, invCore, hl, hm, hmerS rfl]
      all_goals simp only [genInverse, h1, h2, invCore, hl, hn]
    case m12 =>
      have hn := lengthsX_m12b c.e (c.newt (om1 &&& wred) &&& c.red) (c.newt (om2 &&& wred) &&& c.red) (.sym "eps|E") (nm1 h1) (nm2 h2)
      cases br
      case meridian => simp only [genInverse, h1, h2, invCore, hl, hm, hmerS rfl]
      all_goals simp only [genInverse, h1, h2, invCore, hl, hn]
    case M12 => have := hM h1 h2; simp only [genInverse, h1, h2, this.1, this.2]
    case M21 => have := hM h1 h2; simp only [genInverse, h1, h2, this.1, this.2]
  · cases br
    case meridian => simp only [genInverseRet, invCore, hl, hm, hmerS rfl]
    all_goals simp only [genInverseRet, invCore]

/-- requested ⇔ assigned, for both solvers: with canonical masks the outputs `GenInverse` assigns are exactly those of the
    executed model `writtenInverse` (which the driver compares with the implementation for every mask) -/
theorem genInverse_isSome_iff (c : InvCfg) (hl : c.lengths = lengthsG ∨ c.lengths = lengthsX) (br : InvBranch) (om : Nat) (o : Out)
    (cx : CanonX c (om &&& c.e.outMask)) :
    (genInverse c c.e.outMask br om o).isSome = true ↔ o ∈ writtenInverse c.e om := by
  obtain ⟨ns, nm, nG, mG, mm⟩ := cx
  have hw : o ∈ writtenInverse c.e om ↔ (o ≠ .lat2 ∧ o ≠ .lon2) ∧ want c.e (om &&& c.e.outMask) o = true := by
    unfold writtenInverse want
    cases o <;> simp [List.mem_filter]
  rw [hw]
  by_cases h : want c.e (om &&& c.e.outMask) o = true
  · have hG : o = .M12 ∨ o = .M21 → (invCore c br (om &&& c.e.outMask)).M12.isSome = true ∧ (invCore c br (om &&& c.e.outMask)).M21.isSome = true := by
      intro ho
      have g : want c.e (om &&& c.e.outMask) .M12 = true := by rcases ho with rfl | rfl <;> exact h
      have g1 : want c.e (c.newt (om &&& c.e.outMask) &&& c.red) .M12 = true := by rw [nG]; exact g
      have g2 : want c.e (c.mer (om &&& c.e.outMask) &&& c.red) .M12 = true := by rw [mG]; exact g
      have g1' : want c.e (c.newt (om &&& c.e.outMask) &&& c.red) .M21 = true := g1
      have g2' : want c.e (c.mer (om &&& c.e.outMask) &&& c.red) .M21 = true := g2
      have r1 := wantRG_of c.e _ .M12 (Or.inr (Or.inl rfl)) g1
      have r2 := wantRG_of c.e _ .M12 (Or.inr (Or.inl rfl)) g2
      rcases hl with hl | hl <;> cases br <;> simp [invCore, hl, lengthsG, lengthsX, g, g1, g2, g1', g2', r1, r2]
    cases o
    case lat2 => simp [genInverse]
    case lon2 => simp [genInverse]
    case azi2 => simp [genInverse, h]
    case S12 => simp [genInverse, h]
    case s12 => simp [genInverse, h]
    case m12 => simp [genInverse, h]
    case M12 =>
      have := hG (Or.inl rfl)
      obtain ⟨a, ha⟩ := Option.isSome_iff_exists.mp this.1
      obtain ⟨b, hb⟩ := Option.isSome_iff_exists.mp this.2
      simp [genInverse, h, ha, hb]
    case M21 =>
      have := hG (Or.inr rfl)
      obtain ⟨a, ha⟩ := Option.isSome_iff_exists.mp this.1
      obtain ⟨b, hb⟩ := Option.isSome_iff_exists.mp this.2
      simp [genInverse, h, ha, hb]
  · have h' : want c.e (om &&& c.e.outMask) o = false := by simpa using h
    have hG : o = .M12 ∨ o = .M21 → (invCore c br (om &&& c.e.outMask)).M12 = none ∧ (invCore c br (om &&& c.e.outMask)).M21 = none := by
      intro ho
      have g : want c.e (om &&& c.e.outMask) .M12 = false := by rcases ho with rfl | rfl <;> exact h'
      have g1 : want c.e (c.newt (om &&& c.e.outMask) &&& c.red) .M12 = false := by rw [nG]; exact g
      have g2 : want c.e (c.mer (om &&& c.e.outMask) &&& c.red) .M12 = false := by rw [mG]; exact g
      have g1' : want c.e (c.newt (om &&& c.e.outMask) &&& c.red) .M21 = false := g1
      have g2' : want c.e (c.mer (om &&& c.e.outMask) &&& c.red) .M21 = false := g2
      rcases hl with hl | hl <;> cases br <;> simp [invCore, hl, lengthsG, lengthsX, g, g1, g2, g1', g2']
    cases o
    case lat2 => simp [genInverse]
    case lon2 => simp [genInverse]
    case azi2 => simp [genInverse, h']
    case S12 => simp [genInverse, h']
    case s12 => simp [genInverse, h']
    case m12 => simp [genInverse, h']
    case M12 => simp [genInverse, h', (hG (Or.inl rfl)).1]
    case M21 => simp [genInverse, h', (hG (Or.inr rfl)).2]


/-! #### the masks extracted from the current sources are canonical (`Gen/LengthMask.lean`, re-read on every run) -/
open Gen.LengthMask in
/-- **series**: for every union of the documented flag constants (all 2⁹ selections), the masks `Geodesic::GenInverse`
    hands to `Lengths` — `outmask | DISTANCE | REDUCEDLENGTH` on the meridional branch and the canonical `lengthmask` after
    Newton's method, as extracted from `Geodesic.cpp` — are canonical -/
theorem geod_lengthmask_canonical : ∀ sel < 512, Canon cfgG (buildMask geod sel &&& geod_wrapperReduce) := by decide +kernel

open Gen.LengthMask in
/-- **exact**: the masks extracted from `GeodesicExact.cpp` satisfy the conditions the exact `Lengths` needs -/
theorem geodx_lengthmask_canonical : ∀ sel < 512, CanonX cfgX (buildMask geodx sel &&& geodx_wrapperReduce) := by decide +kernel

open Gen.LengthMask in
theorem geodx_meridian_distance : ∀ sel < 512, sel.testBit 3 = true →
    want geodx (geodx_meridian (buildMask geodx sel &&& geodx_wrapperReduce) &&& geodx_lengthsReduce) .s12 = true := by decide +kernel

open Gen.LengthMask in
/-- since the repair dc6d194 (finding F67) the meridional `Lengths` call of `GeodesicExact::GenInverse`, as extracted from the
    current `GeodesicExact.cpp`, asks for `DISTANCE` under **every** mask (this obligation breaks again if the repair is undone) -/
theorem geodx_meridian_distance_always : ∀ sel < 512,
    want geodx (geodx_meridian (buildMask geodx sel &&& geodx_wrapperReduce) &&& geodx_lengthsReduce) .s12 = true := by decide +kernel

open Gen.LengthMask in
/-- **`Geodesic::GenInverse`: the value of every output, and the returned `a12`, is independent of the mask** — all 2⁷
    output masks, with and without `LONG_UNROLL` and `DISTANCE_IN` (which `GenInverse` ignores), every branch -/
theorem geod_inverse_value_mask_independent (sel1 sel2 : Nat) (hs1 : sel1 < 512) (hs2 : sel2 < 512) (br : InvBranch) (o : Out)
    (w1 : o ∈ writtenInverse geod (buildMask geod sel1)) (w2 : o ∈ writtenInverse geod (buildMask geod sel2)) :
    genInverse cfgG geod_wrapperReduce br (buildMask geod sel1) o = genInverse cfgG geod_wrapperReduce br (buildMask geod sel2) o ∧
    genInverseRet cfgG geod_wrapperReduce br (buildMask geod sel1) = genInverseRet cfgG geod_wrapperReduce br (buildMask geod sel2) :=
  genInverseG_mask_independent cfgG rfl _ br _ _ o ((mem_writtenInverse_iff geod _ o).mp w1).2 ((mem_writtenInverse_iff geod _ o).mp w2).2
    (geod_lengthmask_canonical sel1 hs1) (geod_lengthmask_canonical sel2 hs2)

open Gen.LengthMask in
/-- the returned arc length of the series `GenInverse` does not depend on the mask at all (nothing need be requested) -/
theorem geod_inverse_a12_mask_independent (sel1 sel2 : Nat) (hs1 : sel1 < 512) (hs2 : sel2 < 512) (br : InvBranch) :
    genInverseRet cfgG geod_wrapperReduce br (buildMask geod sel1) = genInverseRet cfgG geod_wrapperReduce br (buildMask geod sel2) :=
  invCoreG_a12 cfgG rfl br _ _ (geod_lengthmask_canonical sel1 hs1) (geod_lengthmask_canonical sel2 hs2)

open Gen.LengthMask in
/-- **`GeodesicExact::GenInverse`** — `_partial`: on the meridional branch only for masks that contain `DISTANCE`
    (bit 3 of the selection).  Full statement = the one above for the series solver; it fails for the current source on the
    meridional branch without `DISTANCE` (finding F67: `s12x` read uninitialised). -/
theorem geodx_inverse_value_mask_independent_partial (sel1 sel2 : Nat) (hs1 : sel1 < 512) (hs2 : sel2 < 512) (br : InvBranch) (o : Out)
    (w1 : o ∈ writtenInverse geodx (buildMask geodx sel1)) (w2 : o ∈ writtenInverse geodx (buildMask geodx sel2))
    (hmer : br = .meridian → sel1.testBit 3 = true ∧ sel2.testBit 3 = true) :
    genInverse cfgX geodx_wrapperReduce br (buildMask geodx sel1) o = genInverse cfgX geodx_wrapperReduce br (buildMask geodx sel2) o ∧
    genInverseRet cfgX geodx_wrapperReduce br (buildMask geodx sel1) = genInverseRet cfgX geodx_wrapperReduce br (buildMask geodx sel2) :=
  genInverseX_mask_independent_partial cfgX rfl _ br _ _ o ((mem_writtenInverse_iff geodx _ o).mp w1).2 ((mem_writtenInverse_iff geodx _ o).mp w2).2
    (geodx_lengthmask_canonical sel1 hs1) (geodx_lengthmask_canonical sel2 hs2)
    (fun hb => ⟨geodx_meridian_distance sel1 hs1 (hmer hb).1, geodx_meridian_distance sel2 hs2 (hmer hb).2⟩)

open Gen.LengthMask in
/-- **`GeodesicExact::GenInverse`: the value of every output, and the returned `a12`, is independent of the mask** — the full
    statement (no restriction on the meridional branch), for the source as repaired by dc6d194: the hypothesis of the
    `_partial` version is discharged by `geodx_meridian_distance_always`, an obligation over the masks re-extracted from
    `GeodesicExact.cpp` on every run -/
theorem geodx_inverse_value_mask_independent (sel1 sel2 : Nat) (hs1 : sel1 < 512) (hs2 : sel2 < 512) (br : InvBranch) (o : Out)
    (w1 : o ∈ writtenInverse geodx (buildMask geodx sel1)) (w2 : o ∈ writtenInverse geodx (buildMask geodx sel2)) :
    genInverse cfgX geodx_wrapperReduce br (buildMask geodx sel1) o = genInverse cfgX geodx_wrapperReduce br (buildMask geodx sel2) o ∧
    genInverseRet cfgX geodx_wrapperReduce br (buildMask geodx sel1) = genInverseRet cfgX geodx_wrapperReduce br (buildMask geodx sel2) :=
  genInverseX_mask_independent_partial cfgX rfl _ br _ _ o ((mem_writtenInverse_iff geodx _ o).mp w1).2 ((mem_writtenInverse_iff geodx _ o).mp w2).2
    (geodx_lengthmask_canonical sel1 hs1) (geodx_lengthmask_canonical sel2 hs2)
    (fun _ => ⟨geodx_meridian_distance_always sel1 hs1, geodx_meridian_distance_always sel2 hs2⟩)

open Gen.LengthMask in
/-- requested ⇔ assigned for the extracted masks, both solvers, every flag union, every branch -/
theorem inverse_written_spec (sel : Nat) (hs : sel < 512) (br : InvBranch) (o : Out) :
    ((genInverse cfgG geod_wrapperReduce br (buildMask geod sel) o).isSome = true ↔ o ∈ writtenInverse geod (buildMask geod sel)) ∧
    ((genInverse cfgX geodx_wrapperReduce br (buildMask geodx sel) o).isSome = true ↔ o ∈ writtenInverse geodx (buildMask geodx sel)) := by
  have a := geod_lengthmask_canonical sel hs
  obtain ⟨a1, a2, a3, _, a5, a6, _⟩ := a
  exact ⟨genInverse_isSome_iff cfgG (Or.inl rfl) br _ o ⟨a1, a2, a3, a5, a6⟩, genInverse_isSome_iff cfgX (Or.inr rfl) br _ o (geodx_lengthmask_canonical sel hs)⟩

/-- non-vacuity: `m12` is written both for `REDUCEDLENGTH` alone (selection 32) and for everything (selection 0xEF), and
    the Newton-branch term is the one formed with the `DISTANCE` series although selection 32 does not request `DISTANCE` -/
example : Out.m12 ∈ writtenInverse geod (buildMask geod 32) ∧ Out.m12 ∈ writtenInverse geod (buildMask geod 0xEF) ∧
    want geod (buildMask geod 32 &&& Gen.LengthMask.geod_wrapperReduce) .s12 = false ∧
    want geod (Gen.LengthMask.geod_newton (buildMask geod 32 &&& Gen.LengthMask.geod_wrapperReduce) &&& Gen.LengthMask.geod_lengthsReduce) .s12 = true := by decide

/-! ### rhumb: `RhumbLine::GenPosition` (= `Rhumb::GenDirect`) and `Rhumb::GenInverse` -/

/-- the flag that governs an output of the rhumb solvers -/
def rhumbFlag : Out → Nat
  | .lat2 => rhumb_LATITUDE | .lon2 => rhumb_LONGITUDE | .azi2 => rhumb_AZIMUTH | .s12 => rhumb_DISTANCE | .S12 => rhumb_AREA | _ => 0

/-- **rhumb direct, value independent of the mask**: two masks that both request `o` assign it the same term — for `lon2`
    provided they agree on `LONG_UNROLL` (which changes its documented meaning); in particular **`S12` does not depend on
    `LONG_UNROLL`** nor on whether `lat2` / `lon2` are requested (it is formed from the longitude difference before that is
    reduced or added to `lon1`), on either side of the pole -/
theorem rhumbPosition_mask_independent (m1 m2 : Nat) (pole : Bool) (o : Out)
    (h1 : (m1 &&& rhumbFlag o != 0) = true) (h2 : (m2 &&& rhumbFlag o != 0) = true)
    (hu : o = .lon2 → (m1 &&& rhumb_LONG_UNROLL != 0) = (m2 &&& rhumb_LONG_UNROLL != 0)) :
    rhumbPosition m1 pole o = rhumbPosition m2 pole o := by
  cases o
  case lat2 => simp only [rhumbFlag] at h1 h2; simp only [rhumbPosition, h1, h2]
  case lon2 => simp only [rhumbFlag] at h1 h2; simp only [rhumbPosition, h1, h2, hu rfl]
  case S12 => simp only [rhumbFlag] at h1 h2; simp only [rhumbPosition, h1, h2]
  all_goals rfl

/-- requested ⇔ assigned: the outputs `RhumbLine::GenPosition` assigns are those of the executed model
    `writtenRhumbDirect`; beyond the pole `lon2` and `S12` are *assigned* NaN, not left untouched -/
theorem rhumbPosition_isSome_iff (m : Nat) (pole : Bool) (o : Out) :
    (rhumbPosition m pole o).isSome = true ↔ o ∈ writtenRhumbDirect m := by
  unfold writtenRhumbDirect rhumbPosition
  by_cases a : m &&& rhumb_LATITUDE = 0 <;> by_cases b : m &&& rhumb_LONGITUDE = 0 <;>
    by_cases c : m &&& rhumb_AREA = 0 <;> cases o <;> simp [a, b, c]

theorem rhumbInverse_mask_independent (m1 m2 : Nat) (o : Out)
    (h1 : (m1 &&& rhumbFlag o != 0) = true) (h2 : (m2 &&& rhumbFlag o != 0) = true) :
    rhumbInverse m1 o = rhumbInverse m2 o := by
  cases o
  case azi2 => simp only [rhumbFlag] at h1 h2; simp only [rhumbInverse, h1, h2]
  case s12 => simp only [rhumbFlag] at h1 h2; simp only [rhumbInverse, h1, h2]
  case S12 => simp only [rhumbFlag] at h1 h2; simp only [rhumbInverse, h1, h2]
  all_goals rfl

theorem rhumbInverse_isSome_iff (m : Nat) (o : Out) :
    (rhumbInverse m o).isSome = true ↔ o ∈ writtenRhumbInverse m := by
  unfold writtenRhumbInverse rhumbInverse
  by_cases a : m &&& rhumb_DISTANCE = 0 <;> by_cases b : m &&& rhumb_AZIMUTH = 0 <;>
    by_cases c : m &&& rhumb_AREA = 0 <;> cases o <;> simp [a, b, c]

/-- non-vacuity: with and without `LONG_UNROLL`, `S12` is requested -/
example : ((rhumb_AREA ||| rhumb_LONG_UNROLL) &&& rhumbFlag .S12 != 0) = true ∧ (rhumb_ALL &&& rhumbFlag .S12 != 0) = true := by decide


/-- **no unassigned local is read**: with canonical masks, the term the series `GenInverse` assigns to a requested output,
    and the `a12` it returns, mention no local variable or coefficient array that was not assigned on the way -/
theorem genInverseG_no_uninit (c : InvCfg) (hl : c.lengths = lengthsG) (wred : Nat) (br : InvBranch) (om : Nat) (o : Out)
    (h : want c.e (om &&& wred) o = true) (cn : Canon c (om &&& wred)) :
    (genInverse c wred br om o).all (fun t => !t.hasUninit) = true ∧ (genInverseRet c wred br om).hasUninit = false := by
  obtain ⟨ns, nm, nG, nJ, mG, mm, ms⟩ := cn
  have mL := wantLen_of c.e _ .s12 (Or.inl rfl) ms
  have mR := wantRG_of c.e _ .m12 (Or.inl rfl) mm
  constructor
  · cases o
    case lat2 => simp [genInverse]
    case lon2 => simp [genInverse]
    case azi2 => simp [genInverse, h, T.hasUninit, T.anyUninit]
    case S12 => simp [genInverse, h, T.hasUninit, T.anyUninit]
    case s12 =>
      have n1 := ns h
      have nL := wantLen_of c.e _ .s12 (Or.inl rfl) n1
      cases br <;> simp [genInverse, h, invCore, hl, lengthsG, orUninit, lenArgs, ms, mm, mL, mR, n1, nL, T.hasUninit, T.anyUninit]
    case m12 =>
      have n2 := nm h
      have nR := wantRG_of c.e _ .m12 (Or.inl rfl) n2
      have n1 := nJ nR
      have nL := wantLen_of c.e _ .s12 (Or.inl rfl) n1
      cases br <;> simp [genInverse, h, invCore, hl, lengthsG, orUninit, lenArgs, ms, mm, mL, mR, n1, n2, nL, nR, T.hasUninit, T.anyUninit]
    case M12 =>
      have g1 : want c.e (c.newt (om &&& wred) &&& c.red) .M12 = true := by rw [nG]; exact h
      have g2 : want c.e (c.mer (om &&& wred) &&& c.red) .M12 = true := by rw [mG]; exact h
      have g1' : want c.e (c.newt (om &&& wred) &&& c.red) .M21 = true := g1
      have g2' : want c.e (c.mer (om &&& wred) &&& c.red) .M21 = true := g2
      have nR := wantRG_of c.e _ .M12 (Or.inr (Or.inl rfl)) g1
      have n1 := nJ nR
      have nL := wantLen_of c.e _ .s12 (Or.inl rfl) n1
      cases br <;> simp [genInverse, h, invCore, hl, lengthsG, orUninit, lenArgs, ms, mm, mL, mR, n1, nL, nR, g1, g2, g1', g2', T.hasUninit, T.anyUninit]
    case M21 =>
      have h' : want c.e (om &&& wred) .M12 = true := h
      have g1 : want c.e (c.newt (om &&& wred) &&& c.red) .M12 = true := by rw [nG]; exact h
      have g2 : want c.e (c.mer (om &&& wred) &&& c.red) .M12 = true := by rw [mG]; exact h
      have g1' : want c.e (c.newt (om &&& wred) &&& c.red) .M21 = true := g1
      have g2' : want c.e (c.mer (om &&& wred) &&& c.red) .M21 = true := g2
      have nR := wantRG_of c.e _ .M12 (Or.inr (Or.inl rfl)) g1
      have n1 := nJ nR
      have nL := wantLen_of c.e _ .s12 (Or.inl rfl) n1
      cases br <;> simp [genInverse, h, h', invCore, hl, lengthsG, orUninit, lenArgs, ms, mm, mL, mR, n1, nL, nR, g1, g2, g1', g2', T.hasUninit, T.anyUninit]
  · cases br <;> simp [genInverseRet, invCore, hl, lengthsG, orUninit, lenArgs, ms, mm, mL, mR, T.hasUninit, T.anyUninit]

open Gen.LengthMask in
/-- for the masks extracted from `Geodesic.cpp`: every flag union, every branch, every requested output -/
theorem geod_inverse_no_uninit (sel : Nat) (hs : sel < 512) (br : InvBranch) (o : Out) (w : o ∈ writtenInverse geod (buildMask geod sel)) :
    (genInverse cfgG geod_wrapperReduce br (buildMask geod sel) o).all (fun t => !t.hasUninit) = true ∧
    (genInverseRet cfgG geod_wrapperReduce br (buildMask geod sel)).hasUninit = false :=
  genInverseG_no_uninit cfgG rfl _ br _ o ((mem_writtenInverse_iff geod _ o).mp w).2 (geod_lengthmask_canonical sel hs)


/-! ### the two models of the third point agree -/

/-- the kernels of the state machine read off the symbolic dataflow model of `GenPosition` (values are `Option T`,
    `none` = NaN): `arcOf s` = the returned `a12` of `GenPosition(false, s, 0u, …)`, `distOf a` = the term assigned to
    `s12` by `GenPosition(true, a, DISTANCE, …)` -/
def symKern (e : Enum) (exact : Bool) (caps : Nat) (bigf : Bool) : LineState.Kern (Option T) :=
  { nan := none
    arcOf := fun s => s.bind fun t => Mask.genPositionRet e exact caps false bigf t
    distOf := fun a => a.bind fun t => genPosition e exact caps e.distance true bigf t .s12 }

/-- **the executed state machine and the symbolic dataflow model describe the same `SetDistance` / `SetArc`**: run with the
    symbolic kernels, the state machine's third point is the one `Mask.setDistance` / `Mask.setArc` (the model of the
    theorems `third_point_distance`, `third_point_arc`, `inverseLine_third_point`) produce -/
theorem state_machine_matches_dataflow (e : Enum) (he : e = geod ∨ e = geodx) (exact bigf : Bool) (caps : Nat) (a0 s0 : Option T) (x : T) :
    let K := symKern e exact caps bigf
    let L : Mask.Line := { exact := exact, caps := caps }
    (LineState.setDistance e K ⟨lineCaps e caps, a0, s0⟩ (some x)).s13 = (Mask.setDistance e bigf L x).s13 ∧
    (LineState.setDistance e K ⟨lineCaps e caps, a0, s0⟩ (some x)).a13 = (Mask.setDistance e bigf L x).a13 ∧
    (LineState.setArc e K ⟨lineCaps e caps, a0, s0⟩ (some x)).a13 = (Mask.setArc e bigf L x).a13 ∧
    (LineState.setArc e K ⟨lineCaps e caps, a0, s0⟩ (some x)).s13 = (Mask.setArc e bigf L x).s13 := by
  intro K L
  have g := guards_spec e he caps
  have hl : locatable e caps false = caps.testBit distanceInBit := by
    have := locatable_iff e he caps false
    cases h : locatable e caps false <;> cases h2 : caps.testBit distanceInBit <;> simp_all
  refine ⟨rfl, ?_, rfl, ?_⟩
  · show LineState.genPositionRet e K (lineCaps e caps) (some x) = Mask.genPositionRet e exact caps false bigf x
    unfold LineState.genPositionRet
    rw [g.1]
    by_cases hb : caps.testBit distanceInBit = true
    · rw [if_pos hb]; rfl
    · rw [if_neg hb]
      have : locatable e caps false = false := by rw [hl]; simpa using hb
      simp [Mask.genPositionRet, this]; rfl
  · show LineState.genPositionS12 e K (lineCaps e caps) (some x) none = genPosition e exact caps e.distance true bigf x .s12
    unfold LineState.genPositionS12
    rw [g.2.2]
    by_cases hb : caps.testBit Out.s12.bit = true
    · rw [if_pos hb]; rfl
    · rw [if_neg hb]
      have hw : Out.s12 ∉ written e caps e.distance true := by
        rw [written_spec e he]; intro hh
        rw [lineCaps_testBit e he caps Out.s12.bit (Or.inl rfl)] at hh; exact hb hh.2.2
      have h2 : ¬ ((genPosition e exact caps e.distance true bigf x .s12).isSome = true) :=
        fun hh => hw ((genPosition_isSome_iff e exact caps e.distance true bigf x .s12).mp hh)
      cases h3 : genPosition e exact caps e.distance true bigf x .s12 with
      | none => rfl
      | some t => rw [h3] at h2; simp at h2


end GeoVerif.Props.C12
