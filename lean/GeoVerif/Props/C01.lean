import GeoVerif.Series.GeodSeries
import GeoVerif.Model.Clenshaw
import GeoVerif.Spec.RealInst
import Mathlib.Tactic.Ring
import Mathlib.Tactic.Linarith
/-!
# C01 — direct geodesic problem: table certificates and the Clenshaw theorem
-/
namespace GeoVerif.Props.C01
open GeoVerif GeoVerif.Series GeoVerif.Series.Geod GeoVerif.Clenshaw Real

/-! ### series tables of `Geodesic.cpp` (re-extracted on this run) = Taylor coefficients of their generating functions -/

/-- the layout consumes the tables exactly, and the order is the one the checks assume -/
theorem table_sizes : cSize = Gen.GeodSeries.C1f.length ∧ cSize = Gen.GeodSeries.C2f.length ∧ cSize = Gen.GeodSeries.C1pf.length ∧
    Gen.GeodSeries.A1m1f.length = N / 2 + 2 ∧ Gen.GeodSeries.A2m1f.length = N / 2 + 2 := by decide +kernel

/-- `(1 − ε)(1 + A1m1(ε)) = Σ_j b_j² ε^{2j}` (mod ε^{N+1}), `b_j = (−1)^j C(½, j)` -/
theorem a1_table : checkA1 = true := by decide +kernel

/-- `C1_l(ε) · Σ_j b_j² ε^{2j} = (1/l) Σ_j b_j b_{j+l} ε^{2j+l}` (mod ε^{N+1}) for l = 1 … N -/
theorem c1_table : ((List.range N).all fun i => checkC1 (i + 1)) = true := by decide +kernel

/-- `(1 + ε)(1 + A2m1(ε)) = (1 − ε²) Σ_j c_j² ε^{2j}` (mod ε^{N+1}), `c_j = (−1)^j C(−½, j)` -/
theorem a2_table : checkA2 = true := by decide +kernel

theorem c2_table : ((List.range N).all fun i => checkC2 (i + 1)) = true := by decide +kernel

/-! ### Clenshaw summation computes the trigonometric sums it stands for -/

/-- `Σ_j cs[j] · sin(2(k+j)x)` -/
noncomputable def dsumSin (x : ℝ) : ℕ → List ℝ → ℝ
  | _, [] => 0
  | k, c :: cs => c * sin (2 * (k:ℝ) * x) + dsumSin x (k+1) cs

/-- `Σ_j cs[j] · cos((2(k+j)+1)x)` -/
noncomputable def dsumCos (x : ℝ) : ℕ → List ℝ → ℝ
  | _, [] => 0
  | k, c :: cs => c * cos ((2 * (k:ℝ) + 1) * x) + dsumCos x (k+1) cs

theorem sin_rec (x : ℝ) (k : ℕ) :
    sin (2 * ((k+1:ℕ):ℝ) * x) = 2 * cos (2*x) * sin (2 * (k:ℝ) * x) - sin (2 * ((k:ℝ) - 1) * x) := by
  have h1 : 2 * ((k+1:ℕ):ℝ) * x = 2 * (k:ℝ) * x + 2 * x := by push_cast; ring
  have h2 : 2 * ((k:ℝ) - 1) * x = 2 * (k:ℝ) * x - 2 * x := by ring
  rw [h1, h2, sin_add, sin_sub]; ring

theorem cos_rec (x : ℝ) (k : ℕ) :
    cos ((2 * ((k+1:ℕ):ℝ) + 1) * x) = 2 * cos (2*x) * cos ((2 * (k:ℝ) + 1) * x) - cos ((2 * (k:ℝ) - 1) * x) := by
  have h1 : (2 * ((k+1:ℕ):ℝ) + 1) * x = (2 * (k:ℝ) + 1) * x + 2 * x := by push_cast; ring
  have h2 : (2 * (k:ℝ) - 1) * x = (2 * (k:ℝ) + 1) * x - 2 * x := by ring
  rw [h1, h2, cos_add, cos_sub]; ring

theorem clen_real (ar : ℝ) (c : ℝ) (cs : List ℝ) : clen ar (c :: cs) = (ar * (clen ar cs).1 - (clen ar cs).2 + c, (clen ar cs).1) := rfl

theorem clenshaw_sin (x : ℝ) (cs : List ℝ) (k : ℕ) :
    dsumSin x k cs = (clen (2 * cos (2*x)) cs).1 * sin (2 * (k:ℝ) * x)
                 - (clen (2 * cos (2*x)) cs).2 * sin (2 * ((k:ℝ) - 1) * x) := by
  induction cs generalizing k with
  | nil => simp [dsumSin, clen, ofNat_real]
  | cons c cs ih =>
    rw [clen_real]
    simp only [dsumSin]
    rw [ih (k+1), sin_rec x k]
    have : 2 * (((k+1:ℕ):ℝ) - 1) * x = 2 * (k:ℝ) * x := by push_cast; ring
    rw [this]; ring

theorem clenshaw_cos (x : ℝ) (cs : List ℝ) (k : ℕ) :
    dsumCos x k cs = (clen (2 * cos (2*x)) cs).1 * cos ((2 * (k:ℝ) + 1) * x)
                 - (clen (2 * cos (2*x)) cs).2 * cos ((2 * (k:ℝ) - 1) * x) := by
  induction cs generalizing k with
  | nil => simp [dsumCos, clen, ofNat_real]
  | cons c cs ih =>
    rw [clen_real]
    simp only [dsumCos]
    rw [ih (k+1), cos_rec x k]
    have : (2 * ((k+1:ℕ):ℝ) - 1) * x = (2 * (k:ℝ) + 1) * x := by push_cast; ring
    rw [this]; ring

theorem ar_eq (x : ℝ) : 2 * (cos x - sin x) * (cos x + sin x) = 2 * cos (2*x) := by
  rw [cos_two_mul, ← sin_sq_add_cos_sq x]; ring

/-- `SinCosSeries(true, sin x, cos x, c, n) = Σ_{i=1}^{n} c[i] sin(2 i x)` for every coefficient vector and every `x` -/
theorem sinCosSeries_sin (x : ℝ) (cs : List ℝ) :
    sinCosSeries true (sin x) (cos x) cs = dsumSin x 1 cs := by
  unfold sinCosSeries
  simp only [lit_real, if_true]
  push_cast
  rw [ar_eq, clenshaw_sin x cs 1]
  have : sin (2 * (((1:ℕ):ℝ) - 1) * x) = 0 := by simp
  rw [this]; simp [sin_two_mul]; ring

/-- `SinCosSeries(false, sin x, cos x, c, n) = Σ_{i=0}^{n-1} c[i] cos((2i+1) x)` -/
theorem sinCosSeries_cos (x : ℝ) (cs : List ℝ) :
    sinCosSeries false (sin x) (cos x) cs = dsumCos x 0 cs := by
  unfold sinCosSeries
  simp only [lit_real]
  push_cast
  rw [ar_eq, clenshaw_cos x cs 0]
  have h1 : cos ((2 * ((0:ℕ):ℝ) + 1) * x) = cos x := by simp
  have h2 : cos ((2 * ((0:ℕ):ℝ) - 1) * x) = cos x := by
    have : (2 * ((0:ℕ):ℝ) - 1) * x = -x := by push_cast; ring
    rw [this, cos_neg]
  rw [h1, h2]; ring

end GeoVerif.Props.C01
