import GeoVerif.Series.GeodSeries
import GeoVerif.Series.GeodTrig
import GeoVerif.Model.Clenshaw
import GeoVerif.Spec.RealInst
import Mathlib.Tactic.Ring
import Mathlib.Tactic.Linarith
import Mathlib.Tactic.FieldSimp
/-!
# C01 — direct geodesic problem: table certificates and the Clenshaw theorem
-/
namespace GeoVerif.Props.C01
open GeoVerif GeoVerif.Series GeoVerif.Series.Geod GeoVerif.Clenshaw Real

/-! ### series tables of `Geodesic.cpp` (re-extracted on this run) = Taylor coefficients of their generating functions -/

/-- the layout consumes the tables exactly, and the order is the one the checks assume -/
theorem table_sizes : cSize = Gen.GeodSeries.C1f.length ∧ cSize = Gen.GeodSeries.C2f.length ∧ cSize = Gen.GeodSeries.C1pf.length ∧
    Gen.GeodSeries.A1m1f.length = N / 2 + 2 ∧ Gen.GeodSeries.A2m1f.length = N / 2 + 2 := by decide +kernel

/-- `(1 − ε)(1 + A1m1(ε)) = Σ_j b_j² ε^{2j}` (mod ε^{N+1}), `b_j = (−1)^j C(½, j)` -/
theorem a1_table : checkA1 = true := by decide +kernel

/-- `C1_l(ε) · Σ_j b_j² ε^{2j} = (1/l) Σ_j b_j b_{j+l} ε^{2j+l}` (mod ε^{N+1}) for l = 1 … N -/
theorem c1_table : ((List.range N).all fun i => checkC1 (i + 1)) = true := by decide +kernel

/-- `(1 + ε)(1 + A2m1(ε)) = (1 − ε²) Σ_j c_j² ε^{2j}` (mod ε^{N+1}), `c_j = (−1)^j C(−½, j)` -/
theorem a2_table : checkA2 = true := by decide +kernel

theorem c2_table : ((List.range N).all fun i => checkC2 (i + 1)) = true := by decide +kernel

/-! ### the reverted series C1′ (table `C1pf`)

Trigonometric polynomials in `φ = 2σ` with coefficients in `ℚ[ε]/ε^{N+1}` (`Series/Trig.lean`: exact product-to-sum
multiplication, no truncation of harmonics). -/

/-- the trigonometric-series CAS reproduces textbook identities (Pythagoras, Chebyshev `cos 3φ`, a product-to-sum case,
    the product rule, `sin(φ + ε)` and a first-order Taylor shift) -/
theorem trig_cas_selftest : trigSelfTest = true := by decide +kernel

/-- **C1′ reverts C1** (Karney 2013, eq. 20–21).  With `τ = σ + B1(2σ)`, `B1(φ) = Σ_{l=1}^{N} C1_l sin lφ`, and
    `σ = τ + B1′(2τ)`, `B1′(φ) = Σ_{l=1}^{N} C1′_l sin lφ`, the composition is the identity modulo `ε^{N+1}`:
    `B1(φ) + Σ_{k=0}^{N} (2·B1(φ))^k/k! · (d/dφ)^k B1′(φ) = 0` in `(ℚ[ε]/ε^{N+1})[cos φ, sin φ]`
    (the Taylor series of `B1′(φ + 2 B1(φ))`; terms `k > N` vanish because `B1 = O(ε)`).
    The map `f(φ) ↦ f(φ + 2 B1(φ))` is an automorphism of that ring, so this relation determines every `C1′_l`
    modulo `ε^{N+1}` from the `C1_l`, which `c1_table` ties to the integrand of I1: a full certificate of the
    `C1pf` table (all its entries lie below `ε^{N+1}`). -/
theorem c1p_reverts_c1 : checkC1p = true := by decide +kernel

/-! ### I3: the tables `A3coeff`, `C3coeff` (bivariate in `n`, `ε`) -/

/-- `(1 − ε)²(1 + k² sin²σ) = 1 − 2ε cos 2σ + ε²` for `k² = 4ε/(1 − ε)²`: the `W²` of `w_series` is `(1 − ε)²` times the radicand -/
theorem k2_form (ε σ : ℝ) (hε : 1 - ε ≠ 0) :
    (1 - ε)^2 * (1 + 4 * ε / (1 - ε)^2 * sin σ ^ 2) = 1 - 2 * ε * cos (2 * σ) + ε^2 := by
  rw [cos_two_mul, cos_sq']
  field_simp
  ring

/-- the I3 integrand with `f = 2n/(1 + n)`, `w = √(1 + k² sin²σ)`, `W = (1 − ε) w`, in the form certified by `a3_c3_table` -/
theorem i3_integrand_form (n ε w : ℝ) (hn : 1 + n ≠ 0) (hε : 1 - ε ≠ 0) (hd : (1 + n) + (1 - n) * w ≠ 0) :
    (2 - 2 * n / (1 + n)) / (1 + (1 - 2 * n / (1 + n)) * w) =
      2 * (1 - ε) / ((1 + n) * (1 - ε) + (1 - n) * ((1 - ε) * w)) := by
  have h1 : 1 + (1 - 2 * n / (1 + n)) * w = ((1 + n) + (1 - n) * w) / (1 + n) := by field_simp; ring
  have h2 : (1 + n) * (1 - ε) + (1 - n) * ((1 - ε) * w) = (1 - ε) * ((1 + n) + (1 - n) * w) := by ring
  rw [h1, h2]
  field_simp
  ring

example : (1 + (1/10 : ℝ) ≠ 0) ∧ (1 - (1/10 : ℝ) ≠ 0) ∧ ((1 + (1/10 : ℝ)) + (1 - 1/10) * 1 ≠ 0) := by norm_num

/-- the layouts of `A3coeff`/`A3f` and `C3coeff`/`C3f` consume the tables exactly -/
theorem table_sizes3 : a3Size = Gen.GeodSeries.A3coeff.length ∧ c3Size = Gen.GeodSeries.C3coeff.length := by decide +kernel

/-- `W = (1 − ε)√(1 + k² sin²σ)`, `k² = 4ε/(1 − ε)²`, has the cosine series used below: `W² = 1 − 2ε cos 2σ + ε²`
    (mod `ε^{N+1}`) and `W = 1 + O(ε)` — this is a statement about binomial coefficients only (no table) -/
theorem w_series : checkW (N + 1) = true := by decide +kernel

/-- **A3** (Karney 2013, eq. 8, 23–24; `computeI3` of `maxima/geod.mac`).  With `f = 2n/(1 + n)` the integrand of I3 is
    `(2 − f)/(1 + (1 − f)√(1 + k² sin²σ)) = 2(1 − ε)/D`, `D = (1 + n)(1 − ε) + (1 − n) W` (`i3_integrand_form`, `k2_form`).
    It is expanded directly: `D = 2(1 + u)`, `u = O(n, ε)`, `2(1 − ε)/D = (1 − ε) Σ_{k<N} (−u)^k` as a trigonometric polynomial
    in `2σ` with coefficients in `ℚ[n, ε]` modulo total degree `N` — the truncation `jtaylor(·, n, eps, N−1)` of the generator.
    Certified: the polynomial `A3(n, ε)` of `A3coeff`/`A3f` **is** the mean value (constant Fourier coefficient) of that
    expansion.  Full certificate of the table (all its entries have total degree `≤ N − 1`). -/
theorem a3_table : checkA3 = true := by decide +kernel

/-- **C3** (Karney 2013, eq. 25).  `dI3/dσ = A3·(1 + Σ_{l=1}^{N−1} 2l·C3_l cos 2lσ)`.  Certified: for every `l = 1 … N−1`,
    `2l·A3·C3_l` (tables `A3coeff`, `C3coeff`, layout of `C3f`) equals the coefficient of `cos 2lσ` of the expansion of
    `a3_table`, modulo total degree `N`, and the expansion has no further harmonics.  Since `A3 = 1 + …` is a unit and is
    itself certified, this determines every `C3_l` modulo total degree `N`: full certificate of the table. -/
theorem c3_table : checkC3 = true := by decide +kernel

/-- second, independent route to the same two tables (no series division): multiplying out the denominator,
    `A3·(1 + Σ_l 2l C3_l cos 2lσ) · ((1 + n)(1 − ε) + (1 − n) W) = 2(1 − ε)` modulo total degree `N`.
    The second factor has constant term 2, hence is a unit, so this relation alone also determines both tables. -/
theorem a3_c3_relation : checkA3C3 = true := by decide +kernel

/-! ### Clenshaw summation computes the trigonometric sums it stands for -/

/-- `Σ_j cs[j] · sin(2(k+j)x)` -/
noncomputable def dsumSin (x : ℝ) : ℕ → List ℝ → ℝ
  | _, [] => 0
  | k, c :: cs => c * sin (2 * (k:ℝ) * x) + dsumSin x (k+1) cs

/-- `Σ_j cs[j] · cos((2(k+j)+1)x)` -/
noncomputable def dsumCos (x : ℝ) : ℕ → List ℝ → ℝ
  | _, [] => 0
  | k, c :: cs => c * cos ((2 * (k:ℝ) + 1) * x) + dsumCos x (k+1) cs

theorem sin_rec (x : ℝ) (k : ℕ) :
    sin (2 * ((k+1:ℕ):ℝ) * x) = 2 * cos (2*x) * sin (2 * (k:ℝ) * x) - sin (2 * ((k:ℝ) - 1) * x) := by
  have h1 : 2 * ((k+1:ℕ):ℝ) * x = 2 * (k:ℝ) * x + 2 * x := by push_cast; ring
  have h2 : 2 * ((k:ℝ) - 1) * x = 2 * (k:ℝ) * x - 2 * x := by ring
  rw [h1, h2, sin_add, sin_sub]; ring

theorem cos_rec (x : ℝ) (k : ℕ) :
    cos ((2 * ((k+1:ℕ):ℝ) + 1) * x) = 2 * cos (2*x) * cos ((2 * (k:ℝ) + 1) * x) - cos ((2 * (k:ℝ) - 1) * x) := by
  have h1 : (2 * ((k+1:ℕ):ℝ) + 1) * x = (2 * (k:ℝ) + 1) * x + 2 * x := by push_cast; ring
  have h2 : (2 * (k:ℝ) - 1) * x = (2 * (k:ℝ) + 1) * x - 2 * x := by ring
  rw [h1, h2, cos_add, cos_sub]; ring

theorem clen_real (ar : ℝ) (c : ℝ) (cs : List ℝ) : clen ar (c :: cs) = (ar * (clen ar cs).1 - (clen ar cs).2 + c, (clen ar cs).1) := rfl

theorem clenshaw_sin (x : ℝ) (cs : List ℝ) (k : ℕ) :
    dsumSin x k cs = (clen (2 * cos (2*x)) cs).1 * sin (2 * (k:ℝ) * x)
                 - (clen (2 * cos (2*x)) cs).2 * sin (2 * ((k:ℝ) - 1) * x) := by
  induction cs generalizing k with
  | nil => simp [dsumSin, clen, ofNat_real]
  | cons c cs ih =>
    rw [clen_real]
    simp only [dsumSin]
    rw [ih (k+1), sin_rec x k]
    have : 2 * (((k+1:ℕ):ℝ) - 1) * x = 2 * (k:ℝ) * x := by push_cast; ring
    rw [this]; ring

theorem clenshaw_cos (x : ℝ) (cs : List ℝ) (k : ℕ) :
    dsumCos x k cs = (clen (2 * cos (2*x)) cs).1 * cos ((2 * (k:ℝ) + 1) * x)
                 - (clen (2 * cos (2*x)) cs).2 * cos ((2 * (k:ℝ) - 1) * x) := by
  induction cs generalizing k with
  | nil => simp [dsumCos, clen, ofNat_real]
  | cons c cs ih =>
    rw [clen_real]
    simp only [dsumCos]
    rw [ih (k+1), cos_rec x k]
    have : (2 * ((k+1:ℕ):ℝ) - 1) * x = (2 * (k:ℝ) + 1) * x := by push_cast; ring
    rw [this]; ring

theorem ar_eq (x : ℝ) : 2 * (cos x - sin x) * (cos x + sin x) = 2 * cos (2*x) := by
  rw [cos_two_mul, ← sin_sq_add_cos_sq x]; ring

/-- `SinCosSeries(true, sin x, cos x, c, n) = Σ_{i=1}^{n} c[i] sin(2 i x)` for every coefficient vector and every `x` -/
theorem sinCosSeries_sin (x : ℝ) (cs : List ℝ) :
    sinCosSeries true (sin x) (cos x) cs = dsumSin x 1 cs := by
  unfold sinCosSeries
  simp only [lit_real, if_true]
  push_cast
  rw [ar_eq, clenshaw_sin x cs 1]
  have : sin (2 * (((1:ℕ):ℝ) - 1) * x) = 0 := by simp
  rw [this]; simp [sin_two_mul]; ring

/-- `SinCosSeries(false, sin x, cos x, c, n) = Σ_{i=0}^{n-1} c[i] cos((2i+1) x)` -/
theorem sinCosSeries_cos (x : ℝ) (cs : List ℝ) :
    sinCosSeries false (sin x) (cos x) cs = dsumCos x 0 cs := by
  unfold sinCosSeries
  simp only [lit_real]
  push_cast
  rw [ar_eq, clenshaw_cos x cs 0]
  have h1 : cos ((2 * ((0:ℕ):ℝ) + 1) * x) = cos x := by simp
  have h2 : cos ((2 * ((0:ℕ):ℝ) - 1) * x) = cos x := by
    have : (2 * ((0:ℕ):ℝ) - 1) * x = -x := by push_cast; ring
    rw [this, cos_neg]
  rw [h1, h2]; ring

end GeoVerif.Props.C01
