import GeoVerif.Series.GeodSeries
import GeoVerif.Series.GeodTrig
import GeoVerif.Model.Clenshaw
import GeoVerif.Spec.RealInst
import GeoVerif.Model.GeodLine
import GeoVerif.Proofs.GeodLine
import GeoVerif.Model.GeodLineExact
import GeoVerif.Proofs.GeodLineExact
import Mathlib.Tactic.LinearCombination
import Mathlib.Tactic.Positivity
import Mathlib.Tactic.NormNum
import Mathlib.Tactic.Ring
import Mathlib.Tactic.Linarith
import Mathlib.Tactic.FieldSimp
/-!
# C01 — direct geodesic problem: table certificates and the Clenshaw theorem
-/
namespace GeoVerif.Props.C01
open GeoVerif GeoVerif.Series GeoVerif.Series.Geod GeoVerif.Clenshaw Real

/-! ### series tables of `Geodesic.cpp` (re-extracted on this run) = Taylor coefficients of their generating functions -/

/-- the layout consumes the tables exactly, and the order is the one the checks assume -/
theorem table_sizes : cSize = Gen.GeodSeries.C1f.length ∧ cSize = Gen.GeodSeries.C2f.length ∧ cSize = Gen.GeodSeries.C1pf.length ∧
    Gen.GeodSeries.A1m1f.length = N / 2 + 2 ∧ Gen.GeodSeries.A2m1f.length = N / 2 + 2 := by decide +kernel

/-- `(1 − ε)(1 + A1m1(ε)) = Σ_j b_j² ε^{2j}` (mod ε^{N+1}), `b_j = (−1)^j C(½, j)` -/
theorem a1_table : checkA1 = true := by decide +kernel

/-- `C1_l(ε) · Σ_j b_j² ε^{2j} = (1/l) Σ_j b_j b_{j+l} ε^{2j+l}` (mod ε^{N+1}) for l = 1 … N -/
theorem c1_table : ((List.range N).all fun i => checkC1 (i + 1)) = true := by decide +kernel

/-- `(1 + ε)(1 + A2m1(ε)) = (1 − ε²) Σ_j c_j² ε^{2j}` (mod ε^{N+1}), `c_j = (−1)^j C(−½, j)` -/
theorem a2_table : checkA2 = true := by decide +kernel

theorem c2_table : ((List.range N).all fun i => checkC2 (i + 1)) = true := by decide +kernel

/-! ### the reverted series C1′ (table `C1pf`)

Trigonometric polynomials in `φ = 2σ` with coefficients in `ℚ[ε]/ε^{N+1}` (`Series/Trig.lean`: exact product-to-sum
multiplication, no truncation of harmonics). -/

/-- the trigonometric-series CAS reproduces textbook identities (Pythagoras, Chebyshev `cos 3φ`, a product-to-sum case,
    the product rule, `sin(φ + ε)` and a first-order Taylor shift) -/
theorem trig_cas_selftest : trigSelfTest = true := by decide +kernel

/-- **C1′ reverts C1** (Karney 2013, eq. 20–21).  With `τ = σ + B1(2σ)`, `B1(φ) = Σ_{l=1}^{N} C1_l sin lφ`, and
    `σ = τ + B1′(2τ)`, `B1′(φ) = Σ_{l=1}^{N} C1′_l sin lφ`, the composition is the identity modulo `ε^{N+1}`:
    `B1(φ) + Σ_{k=0}^{N} (2·B1(φ))^k/k! · (d/dφ)^k B1′(φ) = 0` in `(ℚ[ε]/ε^{N+1})[cos φ, sin φ]`
    (the Taylor series of `B1′(φ + 2 B1(φ))`; terms `k > N` vanish because `B1 = O(ε)`).
    The map `f(φ) ↦ f(φ + 2 B1(φ))` is an automorphism of that ring, so this relation determines every `C1′_l`
    modulo `ε^{N+1}` from the `C1_l`, which `c1_table` ties to the integrand of I1: a full certificate of the
    `C1pf` table (all its entries lie below `ε^{N+1}`). -/
theorem c1p_reverts_c1 : checkC1p = true := by decide +kernel

/-! ### I3: the tables `A3coeff`, `C3coeff` (bivariate in `n`, `ε`) -/

/-- `(1 − ε)²(1 + k² sin²σ) = 1 − 2ε cos 2σ + ε²` for `k² = 4ε/(1 − ε)²`: the `W²` of `w_series` is `(1 − ε)²` times the radicand -/
theorem k2_form (ε σ : ℝ) (hε : 1 - ε ≠ 0) :
    (1 - ε)^2 * (1 + 4 * ε / (1 - ε)^2 * sin σ ^ 2) = 1 - 2 * ε * cos (2 * σ) + ε^2 := by
  rw [cos_two_mul, cos_sq']
  field_simp
  ring

/-- the I3 integrand with `f = 2n/(1 + n)`, `w = √(1 + k² sin²σ)`, `W = (1 − ε) w`, in the form certified by `a3_c3_table` -/
theorem i3_integrand_form (n ε w : ℝ) (hn : 1 + n ≠ 0) (hε : 1 - ε ≠ 0) (hd : (1 + n) + (1 - n) * w ≠ 0) :
    (2 - 2 * n / (1 + n)) / (1 + (1 - 2 * n / (1 + n)) * w) =
      2 * (1 - ε) / ((1 + n) * (1 - ε) + (1 - n) * ((1 - ε) * w)) := by
  have h1 : 1 + (1 - 2 * n / (1 + n)) * w = ((1 + n) + (1 - n) * w) / (1 + n) := by field_simp; ring
  have h2 : (1 + n) * (1 - ε) + (1 - n) * ((1 - ε) * w) = (1 - ε) * ((1 + n) + (1 - n) * w) := by ring
  rw [h1, h2]
  field_simp
  ring

example : (1 + (1/10 : ℝ) ≠ 0) ∧ (1 - (1/10 : ℝ) ≠ 0) ∧ ((1 + (1/10 : ℝ)) + (1 - 1/10) * 1 ≠ 0) := by norm_num

/-- the layouts of `A3coeff`/`A3f` and `C3coeff`/`C3f` consume the tables exactly -/
theorem table_sizes3 : a3Size = Gen.GeodSeries.A3coeff.length ∧ c3Size = Gen.GeodSeries.C3coeff.length := by decide +kernel

/-- `W = (1 − ε)√(1 + k² sin²σ)`, `k² = 4ε/(1 − ε)²`, has the cosine series used below: `W² = 1 − 2ε cos 2σ + ε²`
    (mod `ε^{N+1}`) and `W = 1 + O(ε)` — this is a statement about binomial coefficients only (no table) -/
theorem w_series : checkW (N + 1) = true := by decide +kernel

/-- **A3** (Karney 2013, eq. 8, 23–24; `computeI3` of `maxima/geod.mac`).  With `f = 2n/(1 + n)` the integrand of I3 is
    `(2 − f)/(1 + (1 − f)√(1 + k² sin²σ)) = 2(1 − ε)/D`, `D = (1 + n)(1 − ε) + (1 − n) W` (`i3_integrand_form`, `k2_form`).
    It is expanded directly: `D = 2(1 + u)`, `u = O(n, ε)`, `2(1 − ε)/D = (1 − ε) Σ_{k<N} (−u)^k` as a trigonometric polynomial
    in `2σ` with coefficients in `ℚ[n, ε]` modulo total degree `N` — the truncation `jtaylor(·, n, eps, N−1)` of the generator.
    Certified: the polynomial `A3(n, ε)` of `A3coeff`/`A3f` **is** the mean value (constant Fourier coefficient) of that
    expansion.  Full certificate of the table (all its entries have total degree `≤ N − 1`). -/
theorem a3_table : checkA3 = true := by decide +kernel

/-- **C3** (Karney 2013, eq. 25).  `dI3/dσ = A3·(1 + Σ_{l=1}^{N−1} 2l·C3_l cos 2lσ)`.  Certified: for every `l = 1 … N−1`,
    `2l·A3·C3_l` (tables `A3coeff`, `C3coeff`, layout of `C3f`) equals the coefficient of `cos 2lσ` of the expansion of
    `a3_table`, modulo total degree `N`, and the expansion has no further harmonics.  Since `A3 = 1 + …` is a unit and is
    itself certified, this determines every `C3_l` modulo total degree `N`: full certificate of the table. -/
theorem c3_table : checkC3 = true := by decide +kernel

/-- second, independent route to the same two tables (no series division): multiplying out the denominator,
    `A3·(1 + Σ_l 2l C3_l cos 2lσ) · ((1 + n)(1 − ε) + (1 − n) W) = 2(1 − ε)` modulo total degree `N`.
    The second factor has constant term 2, hence is a unit, so this relation alone also determines both tables. -/
theorem a3_c3_relation : checkA3C3 = true := by decide +kernel

/-! ### Clenshaw summation computes the trigonometric sums it stands for -/

/-- `Σ_j cs[j] · sin(2(k+j)x)` -/
noncomputable def dsumSin (x : ℝ) : ℕ → List ℝ → ℝ
  | _, [] => 0
  | k, c :: cs => c * sin (2 * (k:ℝ) * x) + dsumSin x (k+1) cs

/-- `Σ_j cs[j] · cos((2(k+j)+1)x)` -/
noncomputable def dsumCos (x : ℝ) : ℕ → List ℝ → ℝ
  | _, [] => 0
  | k, c :: cs => c * cos ((2 * (k:ℝ) + 1) * x) + dsumCos x (k+1) cs

theorem sin_rec (x : ℝ) (k : ℕ) :
    sin (2 * ((k+1:ℕ):ℝ) * x) = 2 * cos (2*x) * sin (2 * (k:ℝ) * x) - sin (2 * ((k:ℝ) - 1) * x) := by
  have h1 : 2 * ((k+1:ℕ):ℝ) * x = 2 * (k:ℝ) * x + 2 * x := by push_cast; ring
  have h2 : 2 * ((k:ℝ) - 1) * x = 2 * (k:ℝ) * x - 2 * x := by ring
  rw [h1, h2, sin_add, sin_sub]; ring

theorem cos_rec (x : ℝ) (k : ℕ) :
    cos ((2 * ((k+1:ℕ):ℝ) + 1) * x) = 2 * cos (2*x) * cos ((2 * (k:ℝ) + 1) * x) - cos ((2 * (k:ℝ) - 1) * x) := by
  have h1 : (2 * ((k+1:ℕ):ℝ) + 1) * x = (2 * (k:ℝ) + 1) * x + 2 * x := by push_cast; ring
  have h2 : (2 * (k:ℝ) - 1) * x = (2 * (k:ℝ) + 1) * x - 2 * x := by ring
  rw [h1, h2, cos_add, cos_sub]; ring

theorem clen_real (ar : ℝ) (c : ℝ) (cs : List ℝ) : clen ar (c :: cs) = (ar * (clen ar cs).1 - (clen ar cs).2 + c, (clen ar cs).1) := rfl

theorem clenshaw_sin (x : ℝ) (cs : List ℝ) (k : ℕ) :
    dsumSin x k cs = (clen (2 * cos (2*x)) cs).1 * sin (2 * (k:ℝ) * x)
                 - (clen (2 * cos (2*x)) cs).2 * sin (2 * ((k:ℝ) - 1) * x) := by
  induction cs generalizing k with
  | nil => simp [dsumSin, clen, ofNat_real]
  | cons c cs ih =>
    rw [clen_real]
    simp only [dsumSin]
    rw [ih (k+1), sin_rec x k]
    have : 2 * (((k+1:ℕ):ℝ) - 1) * x = 2 * (k:ℝ) * x := by push_cast; ring
    rw [this]; ring

theorem clenshaw_cos (x : ℝ) (cs : List ℝ) (k : ℕ) :
    dsumCos x k cs = (clen (2 * cos (2*x)) cs).1 * cos ((2 * (k:ℝ) + 1) * x)
                 - (clen (2 * cos (2*x)) cs).2 * cos ((2 * (k:ℝ) - 1) * x) := by
  induction cs generalizing k with
  | nil => simp [dsumCos, clen, ofNat_real]
  | cons c cs ih =>
    rw [clen_real]
    simp only [dsumCos]
    rw [ih (k+1), cos_rec x k]
    have : (2 * ((k+1:ℕ):ℝ) - 1) * x = (2 * (k:ℝ) + 1) * x := by push_cast; ring
    rw [this]; ring

theorem ar_eq (x : ℝ) : 2 * (cos x - sin x) * (cos x + sin x) = 2 * cos (2*x) := by
  rw [cos_two_mul, ← sin_sq_add_cos_sq x]; ring

/-- `SinCosSeries(true, sin x, cos x, c, n) = Σ_{i=1}^{n} c[i] sin(2 i x)` for every coefficient vector and every `x` -/
theorem sinCosSeries_sin (x : ℝ) (cs : List ℝ) :
    sinCosSeries true (sin x) (cos x) cs = dsumSin x 1 cs := by
  unfold sinCosSeries
  simp only [lit_real, if_true]
  push_cast
  rw [ar_eq, clenshaw_sin x cs 1]
  have : sin (2 * (((1:ℕ):ℝ) - 1) * x) = 0 := by simp
  rw [this]; simp [sin_two_mul]; ring

/-- `SinCosSeries(false, sin x, cos x, c, n) = Σ_{i=0}^{n-1} c[i] cos((2i+1) x)` -/
theorem sinCosSeries_cos (x : ℝ) (cs : List ℝ) :
    sinCosSeries false (sin x) (cos x) cs = dsumCos x 0 cs := by
  unfold sinCosSeries
  simp only [lit_real]
  push_cast
  rw [ar_eq, clenshaw_cos x cs 0]
  have h1 : cos ((2 * ((0:ℕ):ℝ) + 1) * x) = cos x := by simp
  have h2 : cos ((2 * ((0:ℕ):ℝ) - 1) * x) = cos x := by
    have : (2 * ((0:ℕ):ℝ) - 1) * x = -x := by push_cast; ring
    rw [this, cos_neg]
  rw [h1, h2]; ring


/-! ## The series solver itself: theorems about `Model/GeodLine.lean` read over `ℝ`

The same definitions are executed in binary64 by the driver against `Geodesic`, `GeodesicLine::LineInit` and
`GeodesicLine::GenPosition` (ops `geodconst`, `lineinit`, `genpos` of `Corr/C01.lean`). -/

section Solver
open GeoVerif.GeodLengths GeoVerif.GeodLine GeoVerif.Proofs.GeodLine

/-- the Horner evaluation of `A1m1f` **is** the truncated series certified by `a1_table`: for `ε ≠ 1`,
    `(1 − ε)(1 + A1m1f(ε))` equals the polynomial `onePlusT A1m1f` evaluated at `ε` (which `a1_table` proves to be
    `Σ_j b_j² ε^{2j}` modulo `ε^{N+1}`).  Statement generic in the table; the proof script evaluates the table of the
    current source (order 6) and is re-checked on every run. -/
theorem a1m1f_is_table (ε : ℝ) (h : 1 - ε ≠ 0) :
    (1 - ε) * (1 + a1m1f ε) = evalQ (onePlusT Gen.GeodSeries.A1m1f) ε := by
  have hT : onePlusT Gen.GeodSeries.A1m1f = [1, 0, 1/4, 0, 1/64, 0, 1/256] := by decide +kernel
  rw [hT]
  unfold a1m1f
  simp only [lit_real, tA1, Gen.GeodSeries.A1m1f, nN, Gen.GeodSeries.order, List.map, ofRat_real, polyval, evalQ, sq_real]
  norm_num [List.take, List.getD, ofNat_real]
  field_simp
  ring

/-- likewise `(1 + ε)(1 + A2m1f(ε)) = onePlusT A2m1f` evaluated at `ε` (certified by `a2_table`) -/
theorem a2m1f_is_table (ε : ℝ) (h : 1 + ε ≠ 0) :
    (1 + ε) * (1 + a2m1f ε) = evalQ (onePlusT Gen.GeodSeries.A2m1f) ε := by
  have hT : onePlusT Gen.GeodSeries.A2m1f = [1, 0, -3/4, 0, -7/64, 0, -11/256] := by decide +kernel
  rw [hT]
  unfold a2m1f
  simp only [lit_real, tA2, Gen.GeodSeries.A2m1f, nN, Gen.GeodSeries.order, List.map, ofRat_real, polyval, evalQ, sq_real]
  norm_num [List.take, List.getD, ofNat_real]
  field_simp
  ring

example : (1 : ℝ) - 1 / 100 ≠ 0 ∧ (1 : ℝ) + 1 / 100 ≠ 0 := by norm_num

/-- `LineInit` leaves `(ssig1, csig1)` on the unit circle — for every input, because `cbet1 ≥ tiny > 0` -/
theorem lineinit_sig1_norm (g : Geod ℝ) (lon1 sbet1r cbet1r salp1 calp1 : ℝ) (ht : 0 < g.tiny) :
    let L := (lineInit g lon1 sbet1r cbet1r salp1 calp1).1
    L.ssig1 ^ 2 + L.csig1 ^ 2 = 1 := by
  intro L
  show (norm2 _ _).1 ^ 2 + (norm2 _ _).2 ^ 2 = 1
  apply norm2_unit
  simp only [lit_real, Nat.cast_zero, Nat.cast_one]
  by_cases hs : (norm2 (sbet1r * g.f1) cbet1r).1 = 0
  · right
    have : 0 < RealLike.max g.tiny (norm2 (sbet1r * g.f1) cbet1r).2 := lt_of_lt_of_le ht (le_max_left _ _)
    exact csig1p_ne _ _ _ this hs
  · left; exact hs

example : (0 : ℝ) < (geodesic (6378137 : ℝ) (1 / 298) (1 / 10 ^ 154) (1 / 2 ^ 52)).tiny := by
  show (0 : ℝ) < 1 / 10 ^ 154
  positivity

/-- `salp0² + calp0² = 1` when the start is not a pole (`tiny ≤` the normalised `cos β1`) and `(salp1, calp1)` is a unit vector -/
theorem lineinit_alp0_norm (g : Geod ℝ) (lon1 sbet1r cbet1r salp1 calp1 : ℝ)
    (hb : sbet1r * g.f1 ≠ 0 ∨ cbet1r ≠ 0) (ha : salp1 ^ 2 + calp1 ^ 2 = 1)
    (hp : g.tiny ≤ (norm2 (sbet1r * g.f1) cbet1r).2) :
    let L := (lineInit g lon1 sbet1r cbet1r salp1 calp1).1
    L.salp0 ^ 2 + L.calp0 ^ 2 = 1 := by
  intro L
  have hn := norm2_unit (sbet1r * g.f1) cbet1r hb
  show (salp1 * RealLike.max g.tiny (norm2 (sbet1r * g.f1) cbet1r).2) ^ 2
      + (RealLike.hypot calp1 (salp1 * (norm2 (sbet1r * g.f1) cbet1r).1)) ^ 2 = 1
  have hm : RealLike.max g.tiny (norm2 (sbet1r * g.f1) cbet1r).2 = (norm2 (sbet1r * g.f1) cbet1r).2 := max_eq_right hp
  rw [hm, hypot_real, Real.sq_sqrt (by positivity)]
  linear_combination (salp1 ^ 2) * hn + ha

/-- non-vacuity: a start on the equator heading north-east on the unit sphere (`f1 = 1`, `tiny = 10⁻³`) -/
example : ((0 : ℝ) * 1 ≠ 0 ∨ (1 : ℝ) ≠ 0) ∧ ((3 / 5 : ℝ) ^ 2 + (4 / 5) ^ 2 = 1) ∧ ((1 / 1000 : ℝ) ≤ (norm2 ((0 : ℝ) * 1) 1).2) := by
  refine ⟨Or.inr one_ne_zero, by norm_num, ?_⟩
  simp [norm2, hypot_real]
  norm_num

/-- `sig2 = sig1 + sig12` stays on the unit circle -/
theorem genpos_sig2_norm (L : Line ℝ) (arcmode : Bool) (s sk ck : ℝ) (un : Bool)
    (h1 : L.ssig1 ^ 2 + L.csig1 ^ 2 = 1) (hk : arcmode = true → sk ^ 2 + ck ^ 2 = 1)
    (hnd : NonDegenerate L arcmode s sk ck) :
    let P := genPosition L arcmode s sk ck un
    P.ssig2 ^ 2 + P.csig2 ^ 2 = 1 := by
  intro P
  have ha := arcOf_unit L arcmode s sk ck hk
  unfold NonDegenerate csig2pre at hnd
  show (L.ssig1 * (arcOf L arcmode s sk ck).2.2.1 + L.csig1 * (arcOf L arcmode s sk ck).2.1) ^ 2
     + (if RealLike.eqb _ _ = true then L.tiny else (L.csig1 * (arcOf L arcmode s sk ck).2.2.1 - L.ssig1 * (arcOf L arcmode s sk ck).2.1)) ^ 2 = 1
  simp only [eqb_real, lit_real, Nat.cast_zero, decide_eq_true_eq]
  rw [if_neg hnd]
  linear_combination (L.ssig1 ^ 2 + L.csig1 ^ 2) * ha + h1

/-- **Clairaut's relation at the returned point**: with `sin α2 = salp2 / hypot(salp2, calp2)` (the normalisation
    `atan2d` performs implicitly), `sin α2 · cos β2 = sin α0 = sin α1 · cos β1` -/
theorem clairaut (L : Line ℝ) (arcmode : Bool) (s sk ck : ℝ) (un : Bool) (hnd : NonDegenerate L arcmode s sk ck) :
    let P := genPosition L arcmode s sk ck un
    P.salp2 / RealLike.hypot P.salp2 P.calp2 * P.cbet2 = L.salp0 := by
  intro P
  obtain ⟨_, _, h3, h4, h5, _⟩ := genpos_nd L arcmode s sk ck un hnd
  show P.salp2 / RealLike.hypot P.salp2 P.calp2 * P.cbet2 = L.salp0
  rw [h4, h5, h3]
  exact div_mul_cancel₀ _ hnd

/-- the returned `(sbet2, cbet2)` is a unit vector (so `lat2 = atan2d(sbet2, f1·cbet2)` is the geographic latitude of
    reduced latitude `β2`), given unit `(salp0, calp0)`, `(ssig1, csig1)` and arc -/
theorem genpos_bet2_norm (L : Line ℝ) (arcmode : Bool) (s sk ck : ℝ) (un : Bool) (hnd : NonDegenerate L arcmode s sk ck)
    (h0 : L.salp0 ^ 2 + L.calp0 ^ 2 = 1) (h1 : L.ssig1 ^ 2 + L.csig1 ^ 2 = 1) (hk : arcmode = true → sk ^ 2 + ck ^ 2 = 1) :
    let P := genPosition L arcmode s sk ck un
    P.sbet2 ^ 2 + P.cbet2 ^ 2 = 1 := by
  intro P
  obtain ⟨_, _, h3, _, _, h6⟩ := genpos_nd L arcmode s sk ck un hnd
  have ha := arcOf_unit L arcmode s sk ck hk
  show P.sbet2 ^ 2 + P.cbet2 ^ 2 = 1
  rw [h6, h3, hypot_real, Real.sq_sqrt (by positivity)]
  unfold ssig2of csig2pre
  linear_combination (L.calp0 ^ 2 * (L.ssig1 ^ 2 + L.csig1 ^ 2)) * ha + L.calp0 ^ 2 * h1 + h0

/-- non-vacuity of `NonDegenerate` and of the unit-vector hypotheses: the equator of the unit sphere -/
example : NonDegenerate exLine true 90 1 0 ∧ exLine.salp0 ^ 2 + exLine.calp0 ^ 2 = 1 ∧ exLine.ssig1 ^ 2 + exLine.csig1 ^ 2 = 1 :=
  ⟨exLine_nd _ _ _ _, by simp [exLine], by simp [exLine]⟩

/-- **distance for a given arc** (Karney 2013 eq. 7, 15): in arc mode, with `σ12 = a12·degree`, `(ssig1, csig1) = (sin σ1, cos σ1)`,
    `B11 = Σ C1_l sin 2lσ1` (as `LineInit` computes it) and the kernel `sincosd(a12) = (sin σ12, cos σ12)`,
    `s12 = b·(I1(σ1 + σ12) − I1(σ1))`, `I1(σ) = (1 + A1m1)(σ + Σ_l C1_l sin 2lσ)`.  No hypothesis on the coefficients. -/
theorem genpos_arc_s12 (L : Line ℝ) (a12 σ1 : ℝ) (un : Bool)
    (h1 : L.ssig1 = sin σ1 ∧ L.csig1 = cos σ1) (hB : L.B11 = dsumSin σ1 1 L.C1a) :
    let σ12 := a12 * (degree : ℝ)
    (genPosition L true a12 (sin σ12) (cos σ12) un).s12 =
      L.b * ((1 + L.A1m1) * ((σ1 + σ12) + dsumSin (σ1 + σ12) 1 L.C1a) - (1 + L.A1m1) * (σ1 + dsumSin σ1 1 L.C1a)) := by
  intro σ12
  have hs : L.ssig1 * cos σ12 + L.csig1 * sin σ12 = sin (σ1 + σ12) := by rw [h1.1, h1.2, sin_add]
  have hc : L.csig1 * cos σ12 - L.ssig1 * sin σ12 = cos (σ1 + σ12) := by rw [h1.1, h1.2, cos_add]
  show L.b * ((_ + L.A1m1) * σ12 + (_ + L.A1m1) *
      (sinCosSeries true (L.ssig1 * cos σ12 + L.csig1 * sin σ12) (L.csig1 * cos σ12 - L.ssig1 * sin σ12) L.C1a - L.B11)) = _
  simp only [lit_real, Nat.cast_one]
  rw [hs, hc, sinCosSeries_sin, hB]
  ring

/-- one more circuit on the auxiliary sphere (same `sincosd` values, `a12 + 360`): same latitude and azimuth,
    and the distance grows by `2π·b·A1` -/
theorem genpos_arc_circuit (L : Line ℝ) (a12 sk ck : ℝ) (un : Bool) :
    let P := genPosition L true a12 sk ck un
    let Q := genPosition L true (a12 + 360) sk ck un
    Q.lat2 = P.lat2 ∧ Q.azi2 = P.azi2 ∧ Q.ssig2 = P.ssig2 ∧ Q.csig2 = P.csig2 ∧
    Q.s12 - P.s12 = L.b * (1 + L.A1m1) * (360 * (degree : ℝ)) := by
  intro P Q
  refine ⟨rfl, rfl, rfl, rfl, ?_⟩
  show L.b * ((_ + L.A1m1) * ((a12 + 360) * degree) + _) - L.b * ((_ + L.A1m1) * (a12 * degree) + _) = _
  have e1 (x : ℝ) : (arcOf L true x sk ck).2.1 = sk := by unfold arcOf; simp
  have e2 (x : ℝ) : (arcOf L true x sk ck).2.2.1 = ck := by unfold arcOf; simp
  simp only [lit_real, Nat.cast_one, e1, e2, Bool.true_or, if_true]
  ring

/-- non-vacuity of the hypotheses of `genpos_arc_s12`: the line `exLine` with `σ1 = 0` -/
example : (exLine.ssig1 = sin 0 ∧ exLine.csig1 = cos 0) ∧ exLine.B11 = dsumSin 0 1 exLine.C1a := by
  refine ⟨⟨by simp [exLine], by simp [exLine]⟩, ?_⟩
  have := sinCosSeries_sin 0 (c1f (0 : ℝ))
  simp only [sin_zero, cos_zero] at this
  exact this

end Solver

/-! ## Longitude unrolling of the series line: `lon2 − lon1` counts circuits and does not look at `lon1` -/

section SeriesUnroll
open GeoVerif.GeodLengths GeoVerif.GeodLine GeoVerif.Proofs.GeodLine GeoVerif.Proofs.GeodLineX

/-- **the start longitude enters the result only as the term that is added at the end**: for a line whose `lon1` is replaced by
    any `x` (reduced to `[−180, 180]` or not), the unrolled `lon2 − lon1` and every other output of `GenPosition` are the same.
    So `LONG_UNROLL` returns `lon1 + (unrolled λ12)` with the un-normalised `lon1` the line was given. -/
theorem genpos_lon1_translation (L : Line ℝ) (x : ℝ) (arcmode : Bool) (s sk ck : ℝ) (un : Bool) :
    let P := genPosition L arcmode s sk ck un
    let Q := genPosition { L with lon1 := x } arcmode s sk ck un
    Q.lon2u = x + P.lon12 ∧ P.lon2u = L.lon1 + P.lon12 ∧ Q.lon12 = P.lon12 ∧ Q.lat2 = P.lat2 ∧ Q.azi2 = P.azi2 ∧ Q.s12 = P.s12 ∧ Q.a12 = P.a12 ∧
    Q.m12 = P.m12 ∧ Q.M12 = P.M12 ∧ Q.M21 = P.M21 ∧ Q.S12 = P.S12 :=
  ⟨rfl, rfl, rfl, rfl, rfl, rfl, rfl, rfl, rfl, rfl, rfl⟩

/-- **each circuit of the auxiliary sphere adds the same longitude**: in arc mode `a12 + 360` (same `sincosd` values) moves the
    unrolled `lon2` by exactly `360·(E + A3c)` degrees, `E = ±1` the sense (sign of `sin α0`) — a whole turn in the sense of the
    line, less the ellipsoidal correction `−f sin α0 A3` per turn — while the reduced longitude difference (no `LONG_UNROLL`)
    sees only the correction.  Together with `genpos_zero_arc` this is what "`lon2 − lon1` counts the number and sense of circuits" means
    for the formula as coded. -/
theorem genpos_arc_circuit_lon (L : Line ℝ) (a12 sk ck : ℝ) :
    let P := genPosition L true a12 sk ck true
    let Q := genPosition L true (a12 + 360) sk ck true
    let p := genPosition L true a12 sk ck false
    let q := genPosition L true (a12 + 360) sk ck false
    Q.lon2u - P.lon2u = 360 * (copysign 1 L.salp0 + L.A3c) ∧ q.lon12 - p.lon12 = 360 * L.A3c := by
  intro P Q p q
  have e0 (x : ℝ) : (arcOf L true x sk ck).1 = x * degree := by unfold arcOf; simp
  have e1 (x : ℝ) : (arcOf L true x sk ck).2.1 = sk := by unfold arcOf; simp
  have e2 (x : ℝ) : (arcOf L true x sk ck).2.2.1 = ck := by unfold arcOf; simp
  have hd := degree_ne
  constructor
  · simp only [P, Q, genPosition, e0, e1, e2, if_true, lit_real, Nat.cast_one]
    field_simp
    ring
  · simp only [p, q, genPosition, e0, e1, e2, Bool.false_eq_true, if_false, lit_real, Nat.cast_one]
    field_simp
    ring

/-- **a zero-length arc does not move**: with `(sk, ck) = (0, 1)`, on a line whose `B31` is the `C3` series at `σ1` and whose
    `(somg1, comg1)` is a positive multiple of `(sin α0 sin σ1, cos σ1)` (as `LineInit` leaves them: the common factor is the norm of
    `(sbet1, cbet1 calp1)`), away from the degenerate end point: the unrolled longitude is `lon1` -/
theorem genpos_zero_arc (L : Line ℝ) (hB : L.B31 = sinCosSeries true L.ssig1 L.csig1 L.C3a)
    (hω : ∃ r : ℝ, 0 < r ∧ L.somg1 = r * (L.salp0 * L.ssig1) ∧ L.comg1 = r * L.csig1)
    (hnd : RealLike.hypot L.salp0 (L.calp0 * L.csig1) ≠ 0) :
    (genPosition L true 0 0 1 true).lon2u = L.lon1 ∧ (genPosition L true 0 0 1 true).lon12 = 0 := by
  have e0 : (arcOf L true 0 0 1).1 = 0 * degree := by unfold arcOf; simp
  have e1 : (arcOf L true 0 0 1).2.1 = 0 := by unfold arcOf; simp
  have e2 : (arcOf L true 0 0 1).2.2.1 = 1 := by unfold arcOf; simp
  have hnd' : (RealLike.hypot L.salp0 (L.calp0 * L.csig1) = 0) = False := eq_false hnd
  obtain ⟨r, hr, ho, hc⟩ := hω
  have hat : RealLike.atan2 (copysign 1 L.salp0 * L.somg1) L.comg1 = RealLike.atan2 (copysign 1 L.salp0 * (L.salp0 * L.ssig1)) L.csig1 := by
    rw [ho, hc, show copysign 1 L.salp0 * (r * (L.salp0 * L.ssig1)) = r * (copysign 1 L.salp0 * (L.salp0 * L.ssig1)) by ring]
    exact atan2_pos_mul r _ _ hr
  have key : (genPosition L true 0 0 1 true).lon12 = 0 := by
    simp only [genPosition, e0, e1, e2, if_true, lit_real, Nat.cast_one, Nat.cast_zero, eqb_real, decide_eq_true_eq, mul_one, mul_zero,
      add_zero, sub_zero, zero_mul, hnd', if_false, hB, sub_self, zero_add, zero_div, hat]
  have h2 : (genPosition L true 0 0 1 true).lon2u = L.lon1 + (genPosition L true 0 0 1 true).lon12 := rfl
  exact ⟨by rw [h2, key, add_zero], key⟩

example : exLine.B31 = sinCosSeries true exLine.ssig1 exLine.csig1 exLine.C3a ∧
    (∃ r : ℝ, 0 < r ∧ exLine.somg1 = r * (exLine.salp0 * exLine.ssig1) ∧ exLine.comg1 = r * exLine.csig1) ∧
    RealLike.hypot exLine.salp0 (exLine.calp0 * exLine.csig1) ≠ 0 := by
  refine ⟨?_, ⟨1, one_pos, by simp [exLine], by simp [exLine]⟩, by simp [exLine, hypot_real]⟩
  simp [exLine, sinCosSeries, clen, ofNat_real]

/-- **the unrolled longitude is the continuous branch** (series line): with `LONG_UNROLL` the spherical longitude difference `ω12` as coded,
    `E (σ12 − (atan2(sin σ2, cos σ2) − atan2(sin σ1, cos σ1)) + (atan2(E sin α0 sin σ2, cos σ2) − atan2(E somg1, comg1)))`, differs from `E·σ12`
    by less than half a turn **for every σ12, of any number of circuits** — the two wrapped differences cancel each other's jumps:
    `ω12 = E (σ12 + δ(σ2) − δ(σ1))`, `|δ| < π/2` (`atan2_scale_bound`).  Since `ω12 = 0` at `σ12 = 0` (`genpos_zero_arc`) and each circuit adds
    exactly one turn (`genpos_arc_circuit_lon`), `lon2 − lon1` counts the true number and sense (`E = sign sin α0`) of circuits.
    Hypotheses: unit `(ssig1, csig1)`, a non-degenerate end point, a non-meridional line (`sin α0 ≠ 0`), and `(somg1, comg1)` a positive multiple
    of `(sin α0 sin σ1, cos σ1)` as `LineInit` leaves them. -/
theorem genpos_unroll_within_half_turn (L : Line ℝ) (arcmode : Bool) (s sk ck : ℝ)
    (h1 : L.ssig1 ^ 2 + L.csig1 ^ 2 = 1) (hk : arcmode = true → sk ^ 2 + ck ^ 2 = 1)
    (hnd : NonDegenerate L arcmode s sk ck) (hs0 : L.salp0 ≠ 0)
    (hω : ∃ r : ℝ, 0 < r ∧ L.somg1 = r * (L.salp0 * L.ssig1) ∧ L.comg1 = r * L.csig1) :
    let P := genPosition L arcmode s sk ck true
    |P.omg12 - copysign 1 L.salp0 * P.sig12| < Real.pi := by
  intro P
  obtain ⟨e1, e2, _⟩ := genpos_nd L arcmode s sk ck true hnd
  have hu2 : P.ssig2 ^ 2 + P.csig2 ^ 2 = 1 := genpos_sig2_norm L arcmode s sk ck true h1 hk hnd
  obtain ⟨r, hr, ho, hc⟩ := hω
  set E : ℝ := copysign 1 L.salp0 with hE
  have hcpos : 0 < E * L.salp0 := copysign_mul_self_pos _ hs0
  have hom : P.omg12 = E * (P.sig12 - (RealLike.atan2 P.ssig2 P.csig2 - RealLike.atan2 L.ssig1 L.csig1)
      + (RealLike.atan2 (E * (L.salp0 * P.ssig2)) P.csig2 - RealLike.atan2 (E * L.somg1) L.comg1)) := by
    simp only [P, genPosition, if_true, lit_real, Nat.cast_one, hE]
  have hB1 : RealLike.atan2 (E * L.somg1) L.comg1 = RealLike.atan2 (E * L.salp0 * L.ssig1) L.csig1 := by
    rw [ho, hc, show E * (r * (L.salp0 * L.ssig1)) = r * (E * L.salp0 * L.ssig1) by ring]
    exact atan2_pos_mul r _ _ hr
  have hz1 : L.ssig1 ≠ 0 ∨ L.csig1 ≠ 0 := by
    by_contra h; push Not at h; rw [h.1, h.2] at h1; norm_num at h1
  have hz2 : P.ssig2 ≠ 0 ∨ P.csig2 ≠ 0 := by
    by_contra h; push Not at h; rw [h.1, h.2] at hu2; norm_num at hu2
  have b1 := atan2_scale_bound (E * L.salp0) L.ssig1 L.csig1 hcpos hz1
  have b2 := atan2_scale_bound (E * L.salp0) P.ssig2 P.csig2 hcpos hz2
  have key : P.omg12 - E * P.sig12 = E * ((RealLike.atan2 (E * L.salp0 * P.ssig2) P.csig2 - RealLike.atan2 P.ssig2 P.csig2)
      - (RealLike.atan2 (E * L.salp0 * L.ssig1) L.csig1 - RealLike.atan2 L.ssig1 L.csig1)) := by
    rw [hom, hB1, show E * (L.salp0 * P.ssig2) = E * L.salp0 * P.ssig2 by ring]; ring
  rw [key, abs_mul, copysign_abs_one, one_mul]
  calc |_ - _| ≤ |RealLike.atan2 (E * L.salp0 * P.ssig2) P.csig2 - RealLike.atan2 P.ssig2 P.csig2| + |RealLike.atan2 (E * L.salp0 * L.ssig1) L.csig1 - RealLike.atan2 L.ssig1 L.csig1| := abs_sub _ _
    _ < Real.pi := by linarith

/-- non-vacuity: the equator of the unit sphere -/
example : exLine.ssig1 ^ 2 + exLine.csig1 ^ 2 = 1 ∧ NonDegenerate exLine true 90 1 0 ∧ exLine.salp0 ≠ 0 ∧
    (∃ r : ℝ, 0 < r ∧ exLine.somg1 = r * (exLine.salp0 * exLine.ssig1) ∧ exLine.comg1 = r * exLine.csig1) :=
  ⟨by simp [exLine], exLine_nd _ _ _ _, by simp [exLine], 1, one_pos, by simp [exLine], by simp [exLine]⟩

end SeriesUnroll

/-! ## The elliptic-integral line (`Model/GeodLineExact.lean`): theorems for every kernel

The same definitions are executed (running-error arithmetic) by the driver against `GeodesicExact`,
`GeodesicLineExact::LineInit` and `GeodesicLineExact::GenPosition` (ops `xgeodconst`, `xlineinit`, `xgenpos`), with the kernels
filled by the values of the implementation's `EllipticFunction`.  Here the kernels `K : Ell ℝ` are arbitrary. -/

section ExactLine
open GeoVerif.GeodLine GeoVerif.GeodLineX GeoVerif.Proofs.GeodLine GeoVerif.Proofs.GeodLineX

/-- `LineInit` of the exact line leaves `(ssig1, csig1)` on the unit circle — for every input and every elliptic kernel -/
theorem xlineinit_sig1_norm (g : GeodX ℝ) (K : Ell ℝ) (lon1 sbet1r cbet1r salp1 calp1 : ℝ) (ht : 0 < g.tiny) :
    let L := (lineInitX g K lon1 sbet1r cbet1r salp1 calp1).1
    L.ssig1 ^ 2 + L.csig1 ^ 2 = 1 := by
  intro L
  show (norm2 _ _).1 ^ 2 + (norm2 _ _).2 ^ 2 = 1
  apply norm2_unit
  simp only [lit_real, Nat.cast_zero, Nat.cast_one]
  by_cases hs : (norm2 (sbet1r * g.f1) cbet1r).1 = 0
  · right
    have : 0 < RealLike.max g.tiny (norm2 (sbet1r * g.f1) cbet1r).2 := lt_of_lt_of_le ht (le_max_left _ _)
    exact csig1p_ne _ _ _ this hs
  · left; exact hs

example : (0 : ℝ) < (geodesicX (6378137 : ℝ) (1 / 298) (1 / 10 ^ 154) (1 / 2 ^ 52)).tiny := by
  show (0 : ℝ) < 1 / 10 ^ 154
  positivity

/-- `salp0² + calp0² = 1` off the poles, for a unit `(salp1, calp1)` -/
theorem xlineinit_alp0_norm (g : GeodX ℝ) (K : Ell ℝ) (lon1 sbet1r cbet1r salp1 calp1 : ℝ)
    (hb : sbet1r * g.f1 ≠ 0 ∨ cbet1r ≠ 0) (ha : salp1 ^ 2 + calp1 ^ 2 = 1)
    (hp : g.tiny ≤ (norm2 (sbet1r * g.f1) cbet1r).2) :
    let L := (lineInitX g K lon1 sbet1r cbet1r salp1 calp1).1
    L.salp0 ^ 2 + L.calp0 ^ 2 = 1 := by
  intro L
  have hn := norm2_unit (sbet1r * g.f1) cbet1r hb
  show (salp1 * RealLike.max g.tiny (norm2 (sbet1r * g.f1) cbet1r).2) ^ 2
      + (RealLike.hypot calp1 (salp1 * (norm2 (sbet1r * g.f1) cbet1r).1)) ^ 2 = 1
  have hm : RealLike.max g.tiny (norm2 (sbet1r * g.f1) cbet1r).2 = (norm2 (sbet1r * g.f1) cbet1r).2 := max_eq_right hp
  rw [hm, hypot_real, Real.sq_sqrt (by positivity)]
  linear_combination (salp1 ^ 2) * hn + ha

example : ((0 : ℝ) * 1 ≠ 0 ∨ (1 : ℝ) ≠ 0) ∧ ((3 / 5 : ℝ) ^ 2 + (4 / 5) ^ 2 = 1) ∧ ((1 / 1000 : ℝ) ≤ (norm2 ((0 : ℝ) * 1) 1).2) := by
  refine ⟨Or.inr one_ne_zero, by norm_num, ?_⟩
  simp [norm2, hypot_real]
  norm_num

/-- the scaled distance of the start point as `LineInit` stores it: `(stau1, ctau1) = (sin(σ1 + E1), cos(σ1 + E1))`, `E1 = deltaE(σ1)` -/
theorem xlineinit_tau1 (g : GeodX ℝ) (K : Ell ℝ) (lon1 sbet1r cbet1r salp1 calp1 σ1 : ℝ) :
    let L := (lineInitX g K lon1 sbet1r cbet1r salp1 calp1).1
    L.ssig1 = sin σ1 → L.csig1 = cos σ1 → L.stau1 = sin (σ1 + L.E1) ∧ L.ctau1 = cos (σ1 + L.E1) := by
  intro L hs hc
  constructor
  · show L.ssig1 * RealLike.cos L.E1 + L.csig1 * RealLike.sin L.E1 = _
    rw [hs, hc, sin_add]; rfl
  · show L.csig1 * RealLike.cos L.E1 - L.ssig1 * RealLike.sin L.E1 = _
    rw [hs, hc, cos_add]; rfl

/-- `sig2 = sig1 + sig12` stays on the unit circle -/
theorem xgenpos_sig2_norm (L : LineX ℝ) (K : Ell ℝ) (arcmode : Bool) (s sk ck : ℝ) (un : Bool)
    (h1 : L.ssig1 ^ 2 + L.csig1 ^ 2 = 1) (hk : arcmode = true → sk ^ 2 + ck ^ 2 = 1)
    (hnd : NonDegenerateX L K arcmode s sk ck) :
    let P := genPositionX L K arcmode s sk ck un
    P.ssig2 ^ 2 + P.csig2 ^ 2 = 1 := by
  intro P
  have ha := arcOfX_unit L K arcmode s sk ck hk
  obtain ⟨e1, e2, _⟩ := genposX_nd L K arcmode s sk ck un hnd
  show P.ssig2 ^ 2 + P.csig2 ^ 2 = 1
  rw [e1, e2]
  unfold ssig2ofX csig2preX
  linear_combination (L.ssig1 ^ 2 + L.csig1 ^ 2) * ha + h1

/-- **Clairaut's relation at the returned point** of the exact line: `sin α2 · cos β2 = sin α0` -/
theorem xclairaut (L : LineX ℝ) (K : Ell ℝ) (arcmode : Bool) (s sk ck : ℝ) (un : Bool) (hnd : NonDegenerateX L K arcmode s sk ck) :
    let P := genPositionX L K arcmode s sk ck un
    P.salp2 / RealLike.hypot P.salp2 P.calp2 * P.cbet2 = L.salp0 := by
  intro P
  obtain ⟨_, _, h3, h4, h5, _⟩ := genposX_nd L K arcmode s sk ck un hnd
  show P.salp2 / RealLike.hypot P.salp2 P.calp2 * P.cbet2 = L.salp0
  rw [h4, h5, h3]
  exact div_mul_cancel₀ _ hnd

/-- the returned `(sbet2, cbet2)` is a unit vector -/
theorem xgenpos_bet2_norm (L : LineX ℝ) (K : Ell ℝ) (arcmode : Bool) (s sk ck : ℝ) (un : Bool) (hnd : NonDegenerateX L K arcmode s sk ck)
    (h0 : L.salp0 ^ 2 + L.calp0 ^ 2 = 1) (h1 : L.ssig1 ^ 2 + L.csig1 ^ 2 = 1) (hk : arcmode = true → sk ^ 2 + ck ^ 2 = 1) :
    let P := genPositionX L K arcmode s sk ck un
    P.sbet2 ^ 2 + P.cbet2 ^ 2 = 1 := by
  intro P
  obtain ⟨_, _, h3, _, _, h6⟩ := genposX_nd L K arcmode s sk ck un hnd
  have ha := arcOfX_unit L K arcmode s sk ck hk
  show P.sbet2 ^ 2 + P.cbet2 ^ 2 = 1
  rw [h6, h3, hypot_real, Real.sq_sqrt (by positivity)]
  unfold ssig2ofX csig2preX
  linear_combination (L.calp0 ^ 2 * (L.ssig1 ^ 2 + L.csig1 ^ 2)) * ha + L.calp0 ^ 2 * h1 + h0

example : NonDegenerateX exLineX exEll true 90 1 0 ∧ exLineX.salp0 ^ 2 + exLineX.calp0 ^ 2 = 1 ∧ exLineX.ssig1 ^ 2 + exLineX.csig1 ^ 2 = 1 :=
  ⟨exLineX_nd _ _ _ _, by simp [exLineX], by simp [exLineX]⟩

/-- **distance for a given arc**: in arc mode, with `σ12 = a12·degree`, `(ssig1, csig1) = (sin σ1, cos σ1)`, `E1 = deltaE(σ1)` (as `LineInit`
    computes it) and the kernel `sincosd(a12) = (sin σ12, cos σ12)`: `s12 = b·E0·(τ(σ1 + σ12) − τ(σ1))` with the scaled distance
    `τ(σ) = σ + deltaE(σ)` of the kernel — for the elliptic integral `E0·τ(σ) = E(σ)`, i.e. `s12 = b (E(σ2) − E(σ1))`.  Every kernel. -/
theorem xgenpos_arc_s12 (L : LineX ℝ) (K : Ell ℝ) (a12 σ1 : ℝ) (un : Bool)
    (h1 : L.ssig1 = sin σ1 ∧ L.csig1 = cos σ1) (hE1 : σ1 + L.E1 = tauOf L K σ1) :
    let σ12 := a12 * (degree : ℝ)
    (genPositionX L K true a12 (sin σ12) (cos σ12) un).s12 = L.b * (L.E0 * tauOf L K (σ1 + σ12) - L.E0 * tauOf L K σ1) := by
  intro σ12
  have hs : L.ssig1 * cos σ12 + L.csig1 * sin σ12 = sin (σ1 + σ12) := by rw [h1.1, h1.2, sin_add]
  have hc : L.csig1 * cos σ12 - L.ssig1 * sin σ12 = cos (σ1 + σ12) := by rw [h1.1, h1.2, cos_add]
  rw [genPositionX_arc]
  show L.b * (L.E0 * (a12 * degree) + L.E0 * (E2arc L K (sin σ12) (cos σ12) - L.E1)) = _
  unfold E2arc
  rw [hs, hc, ← hE1]
  unfold tauOf
  ring

/-- **distance mode addresses the same point as arc mode when `Einv` inverts `E`** (kernel contract `EinvInvertsE`, stated explicitly:
    `deltaEinv(sin τ(σ), cos τ(σ)) = σ − τ(σ)` for all `σ`).  Take any arc `a12`, let arc mode return `P` (in particular the distance
    `P.s12`); then `GenPosition(distance = P.s12)` returns **the same record**: the same `σ12` (hence `a12`, with its whole number of
    circuits), latitude, longitudes (unrolled and reduced), azimuth, `m12`, `M12`, `M21`, `S12`.  Hypotheses on the line are those
    `LineInit` establishes (`xlineinit_tau1`); `b ≠ 0`, `E0 ≠ 0`. -/
theorem xgenpos_distance_inverts_arc (L : LineX ℝ) (K : Ell ℝ) (a12 σ1 : ℝ) (un : Bool)
    (h1 : L.ssig1 = sin σ1 ∧ L.csig1 = cos σ1)
    (hτ1 : L.stau1 = sin (σ1 + L.E1) ∧ L.ctau1 = cos (σ1 + L.E1))
    (hb : L.b ≠ 0) (hE0 : L.E0 ≠ 0) (hinv : EinvInvertsE L K) :
    let σ12 := a12 * (degree : ℝ)
    let P := genPositionX L K true a12 (sin σ12) (cos σ12) un
    genPositionX L K false P.s12 0 0 un = P := by
  intro σ12 P
  have hs : L.ssig1 * cos σ12 + L.csig1 * sin σ12 = sin (σ1 + σ12) := by rw [h1.1, h1.2, sin_add]
  have hc : L.csig1 * cos σ12 - L.ssig1 * sin σ12 = cos (σ1 + σ12) := by rw [h1.1, h1.2, cos_add]
  have hE2 : E2arc L K (sin σ12) (cos σ12) = tauOf L K (σ1 + σ12) - (σ1 + σ12) := by unfold E2arc tauOf; rw [hs, hc]; ring
  set E2v := E2arc L K (sin σ12) (cos σ12) with hE2v
  have hP1 : P = tailX L K un σ12 (sin σ12) (cos σ12) E2v (L.b * (L.E0 * σ12 + L.E0 * (E2v - L.E1))) a12 := genPositionX_arc L K a12 _ _ un
  have hPs : P.s12 = L.b * (L.E0 * σ12 + L.E0 * (E2v - L.E1)) := by rw [hP1]; rfl
  have htau : P.s12 / (L.b * L.E0) = σ12 + E2v - L.E1 := by rw [hPs]; field_simp; ring
  have hτ2 : σ1 + L.E1 + (σ12 + E2v - L.E1) = tauOf L K (σ1 + σ12) := by rw [hE2]; ring
  have hB : arcOfX L K false P.s12 0 0 = (σ12, sin σ12, cos σ12, E2v) := by
    unfold arcOfX
    simp only [Bool.false_eq_true, if_false, sin_real, cos_real]
    rw [htau, hτ1.1, hτ1.2, ← sin_add, ← cos_add, hτ2, hinv (σ1 + σ12)]
    have e1 : σ12 + E2v - L.E1 - (-(σ1 + σ12 - tauOf L K (σ1 + σ12)) - L.E1) = σ12 := by rw [hE2]; ring
    have e2 : -(σ1 + σ12 - tauOf L K (σ1 + σ12)) = E2v := by rw [hE2]; ring
    rw [e1, e2]
  show tailX L K un (arcOfX L K false P.s12 0 0).1 (arcOfX L K false P.s12 0 0).2.1 (arcOfX L K false P.s12 0 0).2.2.1 (arcOfX L K false P.s12 0 0).2.2.2 P.s12
    ((arcOfX L K false P.s12 0 0).1 / degree) = P
  rw [hB]
  show tailX L K un σ12 (sin σ12) (cos σ12) E2v P.s12 (σ12 / degree) = P
  rw [hPs, hP1]
  congr 1
  exact mul_div_cancel_right₀ a12 degree_ne

/-- non-vacuity of the hypotheses of `xgenpos_arc_s12` / `xgenpos_distance_inverts_arc`: the sphere kernel on the equator -/
example : (exLineX.ssig1 = sin 0 ∧ exLineX.csig1 = cos 0) ∧ (0 + exLineX.E1 = tauOf exLineX exEll 0) ∧
    (exLineX.stau1 = sin (0 + exLineX.E1) ∧ exLineX.ctau1 = cos (0 + exLineX.E1)) ∧ exLineX.b ≠ 0 ∧ exLineX.E0 ≠ 0 ∧ EinvInvertsE exLineX exEll := by
  refine ⟨⟨by simp [exLineX], by simp [exLineX]⟩, by simp [exLineX, tauOf, exEll], ⟨by simp [exLineX], by simp [exLineX]⟩, by simp [exLineX], by simp [exLineX], exEll_inverts⟩

/-- **one more circuit** on the auxiliary sphere (same `sincosd` values, `a12 + 360`): same latitude and azimuth, the distance grows by
    `2π·b·E0` (`= 4 b E(k)`), the unrolled longitude by exactly `360·(E − (e²/f1) sin α0 H0)` degrees, `E = ±1` the sense of the line;
    the reduced `chi12` (no `LONG_UNROLL`) is unchanged -/
theorem xgenpos_arc_circuit (L : LineX ℝ) (K : Ell ℝ) (a12 sk ck : ℝ) :
    let P := genPositionX L K true a12 sk ck true
    let Q := genPositionX L K true (a12 + 360) sk ck true
    let p := genPositionX L K true a12 sk ck false
    let q := genPositionX L K true (a12 + 360) sk ck false
    Q.lat2 = P.lat2 ∧ Q.azi2 = P.azi2 ∧ Q.ssig2 = P.ssig2 ∧ Q.csig2 = P.csig2 ∧
    Q.s12 - P.s12 = L.b * L.E0 * (360 * (degree : ℝ)) ∧
    Q.lon2u - P.lon2u = 360 * (copysign 1 L.salp0 - L.e2 / L.f1 * L.salp0 * L.H0) ∧
    q.chi12 = p.chi12 := by
  intro P Q p q
  simp only [P, Q, p, q, genPositionX_arc]
  refine ⟨rfl, rfl, rfl, rfl, ?_, ?_, rfl⟩
  · simp only [tailX]; ring
  · simp only [tailX, if_true, lit_real, Nat.cast_one]
    have := degree_ne
    field_simp
    ring

/-- **the start longitude enters only as the term added at the end** (exact line): replacing `lon1` by any `x` leaves the unrolled
    `lon2 − lon1` and every other output unchanged — `LONG_UNROLL` returns `lon1 + (unrolled λ12)` with the un-normalised `lon1` -/
theorem xgenpos_lon1_translation (L : LineX ℝ) (K : Ell ℝ) (x : ℝ) (arcmode : Bool) (s sk ck : ℝ) (un : Bool) :
    let P := genPositionX L K arcmode s sk ck un
    let Q := genPositionX { L with lon1 := x } K arcmode s sk ck un
    Q.lon2u = x + P.lon12 ∧ P.lon2u = L.lon1 + P.lon12 ∧ Q.lon12 = P.lon12 ∧ Q.lat2 = P.lat2 ∧ Q.azi2 = P.azi2 ∧ Q.s12 = P.s12 ∧ Q.a12 = P.a12 ∧
    Q.m12 = P.m12 ∧ Q.M12 = P.M12 ∧ Q.M21 = P.M21 ∧ Q.S12 = P.S12 :=
  ⟨rfl, rfl, rfl, rfl, rfl, rfl, rfl, rfl, rfl, rfl, rfl⟩

/-- **a zero-length arc does not move** (exact line): with `(sk, ck) = (0, 1)`, on a line whose `H1` is `deltaH` at `σ1` (with `Δ(σ1)` as
    `EllipticFunction::Delta` computes it) and whose `(somg1, cchi1)` is a positive multiple of `(sin α0 sin σ1, f1 Δ(σ1) cos σ1)`, away
    from the degenerate end point -/
theorem xgenpos_zero_arc (L : LineX ℝ) (K : Ell ℝ) (hH : L.H1 = K.deltaH L.ssig1 L.csig1 (delta L.k2 L.kp2 L.ssig1 L.csig1))
    (hχ : ∃ r : ℝ, 0 < r ∧ L.somg1 = r * (L.salp0 * L.ssig1) ∧ L.cchi1 = r * (L.f1 * delta L.k2 L.kp2 L.ssig1 L.csig1 * L.csig1))
    (hnd : RealLike.hypot L.salp0 (L.calp0 * L.csig1) ≠ 0) :
    (genPositionX L K true 0 0 1 true).lon2u = L.lon1 ∧ (genPositionX L K true 0 0 1 true).lon12 = 0 := by
  have hnd' : (RealLike.hypot L.salp0 (L.calp0 * L.csig1) = 0) = False := eq_false hnd
  obtain ⟨r, hr, ho, hc⟩ := hχ
  have hat : RealLike.atan2 (copysign 1 L.salp0 * L.somg1) L.cchi1 =
      RealLike.atan2 (copysign 1 L.salp0 * (L.salp0 * L.ssig1)) (L.f1 * delta L.k2 L.kp2 L.ssig1 L.csig1 * L.csig1) := by
    rw [ho, hc, show copysign 1 L.salp0 * (r * (L.salp0 * L.ssig1)) = r * (copysign 1 L.salp0 * (L.salp0 * L.ssig1)) by ring]
    exact atan2_pos_mul r _ _ hr
  have key : (genPositionX L K true 0 0 1 true).lon12 = 0 := by
    rw [genPositionX_arc]
    simp only [tailX, if_true, lit_real, Nat.cast_one, Nat.cast_zero, eqb_real, decide_eq_true_eq, mul_one, mul_zero,
      add_zero, sub_zero, zero_mul, hnd', if_false, ← hH, sub_self, zero_add, zero_div, hat]
  have h2 : (genPositionX L K true 0 0 1 true).lon2u = L.lon1 + (genPositionX L K true 0 0 1 true).lon12 := rfl
  exact ⟨by rw [h2, key, add_zero], key⟩

example : exLineX.H1 = exEll.deltaH exLineX.ssig1 exLineX.csig1 (delta exLineX.k2 exLineX.kp2 exLineX.ssig1 exLineX.csig1) ∧
    (∃ r : ℝ, 0 < r ∧ exLineX.somg1 = r * (exLineX.salp0 * exLineX.ssig1) ∧
      exLineX.cchi1 = r * (exLineX.f1 * delta exLineX.k2 exLineX.kp2 exLineX.ssig1 exLineX.csig1 * exLineX.csig1)) ∧
    RealLike.hypot exLineX.salp0 (exLineX.calp0 * exLineX.csig1) ≠ 0 := by
  refine ⟨by simp [exLineX, exEll], ⟨1, one_pos, by simp [exLineX], ?_⟩, by simp [exLineX, hypot_real]⟩
  show (1 : ℝ) = 1 * (1 * delta (0 : ℝ) 1 0 1 * 1)
  unfold delta
  simp only [ltb_real, lit_real]
  norm_num


/-- **the unrolled longitude of the exact line is the continuous branch**: `|χ12 − E σ12| < π` for every `σ12`, every kernel; here the second
    component of the `χ` direction carries the positive factor `f1·dn`, which `atan2` ignores up to the ratio of the components -/
theorem xgenpos_unroll_within_half_turn (L : LineX ℝ) (K : Ell ℝ) (arcmode : Bool) (s sk ck : ℝ)
    (h1 : L.ssig1 ^ 2 + L.csig1 ^ 2 = 1) (hk : arcmode = true → sk ^ 2 + ck ^ 2 = 1)
    (hnd : NonDegenerateX L K arcmode s sk ck) (hs0 : L.salp0 ≠ 0) (hf1 : 0 < L.f1)
    (hχ : ∃ r g1 : ℝ, 0 < r ∧ 0 < g1 ∧ L.somg1 = r * (L.salp0 * L.ssig1) ∧ L.cchi1 = r * (g1 * L.csig1)) :
    let P := genPositionX L K arcmode s sk ck true
    0 < P.dn2 → |P.chi12 - copysign 1 L.salp0 * P.sig12| < Real.pi := by
  intro P hdn
  have hu2 : P.ssig2 ^ 2 + P.csig2 ^ 2 = 1 := xgenpos_sig2_norm L K arcmode s sk ck true h1 hk hnd
  obtain ⟨r, g1, hr, hg1, ho, hc⟩ := hχ
  set E : ℝ := copysign 1 L.salp0 with hE
  have hcpos : 0 < E * L.salp0 := copysign_mul_self_pos _ hs0
  have hg2 : 0 < L.f1 * P.dn2 := mul_pos hf1 hdn
  have hom : P.chi12 = E * (P.sig12 - (RealLike.atan2 P.ssig2 P.csig2 - RealLike.atan2 L.ssig1 L.csig1)
      + (RealLike.atan2 (E * (L.salp0 * P.ssig2)) (L.f1 * P.dn2 * P.csig2) - RealLike.atan2 (E * L.somg1) L.cchi1)) := by
    simp only [P, genPositionX, tailX, if_true, lit_real, Nat.cast_one, hE]
  have hB1 : RealLike.atan2 (E * L.somg1) L.cchi1 = RealLike.atan2 (E * L.salp0 / g1 * L.ssig1) L.csig1 := by
    rw [ho, hc, show E * (r * (L.salp0 * L.ssig1)) = (r * g1) * (E * L.salp0 / g1 * L.ssig1) by field_simp,
      show r * (g1 * L.csig1) = (r * g1) * L.csig1 by ring]
    exact atan2_pos_mul (r * g1) _ _ (mul_pos hr hg1)
  have hB2 : RealLike.atan2 (E * (L.salp0 * P.ssig2)) (L.f1 * P.dn2 * P.csig2) = RealLike.atan2 (E * L.salp0 / (L.f1 * P.dn2) * P.ssig2) P.csig2 := by
    rw [show E * (L.salp0 * P.ssig2) = (L.f1 * P.dn2) * (E * L.salp0 / (L.f1 * P.dn2) * P.ssig2) by field_simp]
    exact atan2_pos_mul (L.f1 * P.dn2) _ _ hg2
  have hz1 : L.ssig1 ≠ 0 ∨ L.csig1 ≠ 0 := by
    by_contra h; push Not at h; rw [h.1, h.2] at h1; norm_num at h1
  have hz2 : P.ssig2 ≠ 0 ∨ P.csig2 ≠ 0 := by
    by_contra h; push Not at h; rw [h.1, h.2] at hu2; norm_num at hu2
  have b1 := atan2_scale_bound (E * L.salp0 / g1) L.ssig1 L.csig1 (div_pos hcpos hg1) hz1
  have b2 := atan2_scale_bound (E * L.salp0 / (L.f1 * P.dn2)) P.ssig2 P.csig2 (div_pos hcpos hg2) hz2
  have key : P.chi12 - E * P.sig12 = E * ((RealLike.atan2 (E * L.salp0 / (L.f1 * P.dn2) * P.ssig2) P.csig2 - RealLike.atan2 P.ssig2 P.csig2)
      - (RealLike.atan2 (E * L.salp0 / g1 * L.ssig1) L.csig1 - RealLike.atan2 L.ssig1 L.csig1)) := by
    rw [hom, hB1, hB2]; ring
  rw [key, abs_mul, copysign_abs_one, one_mul]
  calc |_ - _| ≤ |RealLike.atan2 (E * L.salp0 / (L.f1 * P.dn2) * P.ssig2) P.csig2 - RealLike.atan2 P.ssig2 P.csig2| + |RealLike.atan2 (E * L.salp0 / g1 * L.ssig1) L.csig1 - RealLike.atan2 L.ssig1 L.csig1| := abs_sub _ _
    _ < Real.pi := by linarith

/-- non-vacuity: the equator of the unit sphere, a quarter circuit -/
example : exLineX.ssig1 ^ 2 + exLineX.csig1 ^ 2 = 1 ∧ ((1 : ℝ) ^ 2 + 0 ^ 2 = 1) ∧ NonDegenerateX exLineX exEll true 90 1 0 ∧ exLineX.salp0 ≠ 0 ∧ 0 < exLineX.f1 ∧
    (∃ r g1 : ℝ, 0 < r ∧ 0 < g1 ∧ exLineX.somg1 = r * (exLineX.salp0 * exLineX.ssig1) ∧ exLineX.cchi1 = r * (g1 * exLineX.csig1)) :=
  ⟨by simp [exLineX], by norm_num, exLineX_nd _ _ _ _, by simp [exLineX], by simp [exLineX], 1, 1, one_pos, one_pos, by simp [exLineX], by simp [exLineX]⟩

end ExactLine

/-! ## Output ranges of the two line models -/

section Ranges
open GeoVerif.GeodLine GeoVerif.GeodLineX GeoVerif.Proofs.GeodLine GeoVerif.Proofs.GeodLineX

/-- **`Math::atan2d` returns an angle in `[−180, 180]`** (model over ℝ), and in `[−90, 90]` when `x ≥ 0` -/
theorem atan2d_range (y x : ℝ) : -180 ≤ (atan2d y x : ℝ) ∧ (atan2d y x : ℝ) ≤ 180 ∧ (0 ≤ x → -90 ≤ (atan2d y x : ℝ) ∧ (atan2d y x : ℝ) ≤ 90) := by
  unfold atan2d
  simp only [ltb_real, abs_real, signNeg_real, lit_real]
  by_cases hsw : |x| < |y|
  · -- swapped: x1 = y, y1 = x
    simp only [hsw, decide_true, if_true]
    by_cases hy : y < 0
    · simp only [hy, decide_true, if_true]
      obtain ⟨b, bp, bn⟩ := atan2_halfplane x (-y) (by linarith)
      have hb := abs_le.mp (div_degree_bound _ b)
      have hd := deg_pos
      refine ⟨by push_cast; linarith [hb.1], by push_cast; linarith [hb.2], fun hx => ?_⟩
      have : 0 ≤ RealLike.atan2 x (-y) / degree := div_nonneg (bp hx) hd.le
      constructor <;> push_cast <;> linarith [hb.2]
    · simp only [hy, decide_false, if_false, Bool.false_eq_true]
      have hy' : 0 ≤ y := not_lt.mp hy
      obtain ⟨b, bp, bn⟩ := atan2_halfplane x y hy'
      have hb := abs_le.mp (div_degree_bound _ b)
      have hd := deg_pos
      refine ⟨by push_cast; linarith [hb.2], by push_cast; linarith [hb.1], fun hx => ?_⟩
      have : 0 ≤ RealLike.atan2 x y / degree := div_nonneg (bp hx) hd.le
      constructor <;> push_cast <;> linarith [hb.2]
  · simp only [hsw, decide_false, if_false, Bool.false_eq_true]
    by_cases hx : x < 0
    · simp only [hx, decide_true, if_true]
      obtain ⟨b, bp, bn⟩ := atan2_halfplane y (-x) (by linarith)
      have hb := abs_le.mp (div_degree_bound _ b)
      have hd := deg_pos
      refine ⟨?_, ?_, fun h => absurd hx (not_lt.mpr h)⟩
      · unfold copysign; rw [signNeg_real]
        by_cases hy : y < 0
        · have : RealLike.atan2 y (-x) / degree < 0 := div_neg_of_neg_of_pos (bn hy) hd
          simp only [hy, decide_true, if_true, abs_real]; norm_num; linarith
        · simp only [hy, decide_false, Bool.false_eq_true, if_false, abs_real]; norm_num; linarith [hb.2]
      · unfold copysign; rw [signNeg_real]
        by_cases hy : y < 0
        · simp only [hy, decide_true, if_true, abs_real]; norm_num; linarith [hb.1]
        · have : 0 ≤ RealLike.atan2 y (-x) / degree := div_nonneg (bp (not_lt.mp hy)) hd.le
          simp only [hy, decide_false, Bool.false_eq_true, if_false, abs_real]; norm_num; linarith
    · simp only [hx, decide_false, if_false, Bool.false_eq_true]
      obtain ⟨b, _, _⟩ := atan2_halfplane y x (not_lt.mp hx)
      have hb := abs_le.mp (div_degree_bound _ b)
      exact ⟨by linarith [hb.1], by linarith [hb.2], fun _ => ⟨hb.1, hb.2⟩⟩

/-- **ranges of the direct solution** (series line): for every line record, mode, length and kernel values, `azi2 ∈ [−180, 180]`; and
    `lat2 ∈ [−90, 90]` when `f1 = 1 − f ≥ 0` and `tiny ≥ 0` (the second argument of `atan2d` is `f1·cos β2 ≥ 0`).  The returned longitude
    without `LONG_UNROLL` is `AngNormalize(AngNormalize(lon1) + AngNormalize(lon12))`, whose range is C16's `angNormalize_spec`. -/
theorem direct_ranges (L : Line ℝ) (arcmode : Bool) (s sk ck : ℝ) (un : Bool) :
    let P := genPosition L arcmode s sk ck un
    (-180 ≤ P.azi2 ∧ P.azi2 ≤ 180) ∧ (0 ≤ L.f1 → 0 ≤ L.tiny → -90 ≤ P.lat2 ∧ P.lat2 ≤ 90) := by
  intro P
  refine ⟨⟨(atan2d_range _ _).1, (atan2d_range _ _).2.1⟩, fun hf ht => ?_⟩
  refine (atan2d_range _ _).2.2 (mul_nonneg hf ?_)
  show 0 ≤ (if RealLike.eqb _ _ = true then L.tiny else RealLike.hypot _ _)
  split_ifs
  · exact ht
  · rw [hypot_real]; exact Real.sqrt_nonneg _

/-- **ranges of the direct solution** (exact line), for every kernel -/
theorem xdirect_ranges (L : LineX ℝ) (K : Ell ℝ) (arcmode : Bool) (s sk ck : ℝ) (un : Bool) :
    let P := genPositionX L K arcmode s sk ck un
    (-180 ≤ P.azi2 ∧ P.azi2 ≤ 180) ∧ (0 ≤ L.f1 → 0 ≤ L.tiny → -90 ≤ P.lat2 ∧ P.lat2 ≤ 90) := by
  intro P
  refine ⟨⟨(atan2d_range _ _).1, (atan2d_range _ _).2.1⟩, fun hf ht => ?_⟩
  refine (atan2d_range _ _).2.2 (mul_nonneg hf ?_)
  show 0 ≤ (if RealLike.eqb _ _ = true then L.tiny else RealLike.hypot _ _)
  split_ifs
  · exact ht
  · rw [hypot_real]; exact Real.sqrt_nonneg _

example : (0 : ℝ) ≤ exLine.f1 ∧ (0 : ℝ) ≤ exLine.tiny ∧ (0 : ℝ) ≤ exLineX.f1 ∧ (0 : ℝ) ≤ exLineX.tiny := by
  refine ⟨by simp [exLine], by simp [exLine], by simp [exLineX], by simp [exLineX]⟩

end Ranges

end GeoVerif.Props.C01
