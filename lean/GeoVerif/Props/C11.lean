import GeoVerif.Model.Conic
import GeoVerif.Spec.RealInst
namespace GeoVerif.Props.C11
open GeoVerif GeoVerif.Conic

/-- placeholder (replaced below) -/
theorem mirror_mirror (o : ConeOut ℝ) : mirror (mirror o) = o := by
  cases o; simp [mirror]

end GeoVerif.Props.C11
